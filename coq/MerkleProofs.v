(* MerkleProofs.v — library of facts relating the tree model (Tree.v) and the
   representation vocabulary (Repr.v: ztree, series) to the SSZ merkleization of Spec.v.

   [H] is an arbitrary pair hash, [zh] the zero-hash table.  The file has three sections so
   that every lemma carries exactly the premises it needs:
   - WithH    (H only):      merkle_full_nil, merkle_full_pad, merkle_full_pad_to,
                             root_of_fill_to_depth, zero_hash_fill, merkle_full_zeros,
                             merkle_virtual_nil/_0/_S, merkle_virtual_eq_full,
                             merkleize_spec_eq_full
   - WithZero (zh only, no assumption on it: purely structural):
                             ztree_leaf/_0/_S_leaf/_S_pair, ztree_fill, series_nil/_0/_leaf,
                             series_pair (split at the pivot), series_length, series_mono,
                             series_fill_full, fill_to_contents_series/_err/_no_panic/_ok_iff,
                             fill_to_length_series/_full/_err
   - WithHash (H, zh, Hzh : forall d, zh d = zero_hash H d):
                             ztree_root, series_root, series_root', series_root_full,
                             fill_to_contents_root, fill_to_length_root
   Outside: depth_for_cover, depth_for_ge, nat_pow2, N_pow2_nat and list helpers. *)
From Ztyp Require Import Base Bitlen Tree Types Spec View Repr BitlenProofs.
From Coq Require Import PeanoNat ZArith.
Open Scope N_scope.

Local Arguments N.pow : simpl never.
Local Arguments Nat.pow : simpl never.
Local Arguments N.of_nat : simpl never.
Local Arguments N.to_nat : simpl never.
Local Opaque two64.

(* ------------------------------------------------------------------------------------ *)
(* generic helpers: powers of two between nat and N, lists                               *)

Lemma nat_pow2 d : N.to_nat (2 ^ N.of_nat d) = Nat.pow 2 d.
Proof.
  induction d as [|d IH].
  - reflexivity.
  - rewrite Nat2N.inj_succ, N.pow_succ_r', N2Nat.inj_mul, IH, Nat.pow_succ_r'.
    reflexivity.
Qed.

Lemma N_pow2_nat d : N.of_nat (Nat.pow 2 d) = 2 ^ N.of_nat d.
Proof. rewrite <- nat_pow2, N2Nat.id. reflexivity. Qed.

Lemma pow2N_0 : 2 ^ N.of_nat 0 = 1.
Proof. reflexivity. Qed.

Lemma pow2N_S d : 2 ^ N.of_nat (S d) = 2 * 2 ^ N.of_nat d.
Proof. rewrite Nat2N.inj_succ, N.pow_succ_r'. reflexivity. Qed.

Lemma pow2N_pos d : 0 < 2 ^ N.of_nat d.
Proof. apply pow2_pos. Qed.

Lemma firstn_repeat' {A} (x : A) k : forall m, firstn m (repeat x k) = repeat x (Nat.min m k).
Proof.
  induction k as [|k IH]; intros [|m]; cbn [firstn repeat Nat.min]; try reflexivity.
  f_equal. apply IH.
Qed.

Lemma skipn_repeat' {A} (x : A) k : forall m, skipn m (repeat x k) = repeat x (k - m).
Proof.
  induction k as [|k IH]; intros [|m]; cbn [skipn repeat Nat.sub]; try reflexivity.
  apply IH.
Qed.

Lemma Forall2_length' {A B} (R : A -> B -> Prop) l1 l2 :
  Forall2 R l1 l2 -> length l1 = length l2.
Proof. induction 1; cbn [length]; congruence. Qed.

Lemma Forall2_firstn' {A B} (R : A -> B -> Prop) l1 l2 :
  Forall2 R l1 l2 -> forall k, Forall2 R (firstn k l1) (firstn k l2).
Proof. induction 1; intros [|k]; cbn [firstn]; constructor; auto. Qed.

Lemma Forall2_skipn' {A B} (R : A -> B -> Prop) l1 l2 :
  Forall2 R l1 l2 -> forall k, Forall2 R (skipn k l1) (skipn k l2).
Proof.
  induction 1 as [|x y l1 l2 Hxy HF IH]; intros [|k]; cbn [skipn]; auto.
Qed.

Lemma Forall2_repeat' {A B} (R : A -> B -> Prop) x y k :
  R x y -> Forall2 R (repeat x k) (repeat y k).
Proof. intros HR. induction k; cbn [repeat]; constructor; auto. Qed.

Lemma Forall2_map_both {A B C} (R : B -> C -> Prop) (f : A -> B) (g : A -> C) l :
  (forall x, R (f x) (g x)) -> Forall2 R (map f l) (map g l).
Proof. intros HR. induction l; cbn [map]; constructor; auto. Qed.

Lemma lenN_map {A B} (f : A -> B) l : lenN (map f l) = lenN l.
Proof. unfold lenN. rewrite map_length. reflexivity. Qed.

Lemma lenN_repeat {A} (x : A) k : lenN (repeat x k) = N.of_nat k.
Proof. unfold lenN. rewrite repeat_length. reflexivity. Qed.

(* ------------------------------------------------------------------------------------ *)
(* depth_for = CoverDepth                                                                *)

Lemma depth_for_cover v : v < 2 ^ 64 -> depth_for v = N.to_nat (cover_depth v).
Proof.
  intros Hv. unfold depth_for, nat_of. rewrite cover_depth_log2_up by exact Hv. reflexivity.
Qed.

(* depth_for really is a cover: v <= 2^(depth_for v) *)
Lemma depth_for_ge v : v <= 2 ^ N.of_nat (depth_for v).
Proof.
  unfold depth_for, nat_of. rewrite N2Nat.id.
  destruct (N.le_gt_cases v 1) as [Hle|Hgt].
  - rewrite N.log2_up_eqn0 by exact Hle. rewrite N.pow_0_r. exact Hle.
  - apply N.log2_up_spec. exact Hgt.
Qed.

(* ------------------------------------------------------------------------------------ *)
(* 1-2. full trees and virtual padding: facts about Spec.merkle_full / merkle_virtual   *)
(*      for an arbitrary pair hash H (no zero-hash table involved)                       *)

Section WithH.
Variable H : chunk -> chunk -> chunk.

Lemma merkle_full_nil d : merkle_full H d [] = zero_hash H d.
Proof.
  induction d as [|d IH].
  - reflexivity.
  - cbn [merkle_full zero_hash]. rewrite firstn_nil, skipn_nil, IH. reflexivity.
Qed.

(* merkle_full only looks at the first 2^d chunks and reads missing ones as zero chunks:
   explicit zero padding (of any length) does not change it.  No length condition is
   needed. *)
Lemma merkle_full_pad d : forall cs k,
  merkle_full H d (cs ++ repeat zero_chunk k) = merkle_full H d cs.
Proof.
  induction d as [|d IH]; intros cs k.
  - destruct cs as [|c cs].
    + destruct k; reflexivity.
    + reflexivity.
  - cbn [merkle_full].
    rewrite firstn_app, skipn_app, firstn_repeat', skipn_repeat', !IH. reflexivity.
Qed.

(* the document's reading: pad to exactly 2^d chunks *)
Lemma merkle_full_pad_to d cs :
  (length cs <= Nat.pow 2 d)%nat ->
  merkle_full H d (cs ++ repeat zero_chunk (Nat.pow 2 d - length cs)) = merkle_full H d cs
  /\ length (cs ++ repeat zero_chunk (Nat.pow 2 d - length cs)) = Nat.pow 2 d.
Proof.
  intros Hlen. split.
  - apply merkle_full_pad.
  - rewrite app_length, repeat_length. lia.
Qed.

Lemma merkle_full_repeat c d :
  merkle_full H (S d) (repeat c (Nat.pow 2 (S d))) =
  H (merkle_full H d (repeat c (Nat.pow 2 d))) (merkle_full H d (repeat c (Nat.pow 2 d))).
Proof.
  cbn [merkle_full]. rewrite firstn_repeat', skipn_repeat'.
  replace (Nat.min (Nat.pow 2 d) (Nat.pow 2 (S d))) with (Nat.pow 2 d)
    by (rewrite Nat.pow_succ_r'; lia).
  replace (Nat.pow 2 (S d) - Nat.pow 2 d)%nat with (Nat.pow 2 d)
    by (rewrite Nat.pow_succ_r'; lia).
  reflexivity.
Qed.

Lemma root_of_fill_to_depth b d :
  root_of H (fill_to_depth b d) = merkle_full H d (repeat (root_of H b) (Nat.pow 2 d)).
Proof.
  induction d as [|d IH].
  - reflexivity.
  - rewrite merkle_full_repeat, <- IH. reflexivity.
Qed.

Lemma zero_hash_fill d : root_of H (fill_to_depth (Leaf zero_chunk) d) = zero_hash H d.
Proof.
  induction d as [|d IH].
  - reflexivity.
  - cbn [fill_to_depth root_of zero_hash]. rewrite IH. reflexivity.
Qed.

Lemma merkle_full_zeros d : merkle_full H d (repeat zero_chunk (Nat.pow 2 d)) = zero_hash H d.
Proof.
  rewrite <- zero_hash_fill, root_of_fill_to_depth. reflexivity.
Qed.


Lemma merkle_virtual_nil d : merkle_virtual H d [] = zero_hash H d.
Proof. destruct d; reflexivity. Qed.

Lemma merkle_virtual_0 c cs : merkle_virtual H 0 (c :: cs) = c.
Proof. reflexivity. Qed.

(* one step of merkle_virtual, uniformly in the list (also for []) *)
Lemma merkle_virtual_S d cs :
  merkle_virtual H (S d) cs =
  if lenN cs <=? 2 ^ N.of_nat d
  then H (merkle_virtual H d cs) (zero_hash H d)
  else H (merkle_virtual H d (firstn (nat_of (2 ^ N.of_nat d)) cs))
         (merkle_virtual H d (skipn (nat_of (2 ^ N.of_nat d)) cs)).
Proof.
  destruct cs as [|c cs].
  - cbn [merkle_virtual zero_hash]. rewrite merkle_virtual_nil.
    change (lenN (@nil chunk)) with 0.
    destruct (N.leb_spec 0 (2 ^ N.of_nat d)) as [_|Hlt]; [reflexivity|lia].
  - reflexivity.
Qed.

Lemma merkle_virtual_eq_full d : forall cs,
  N.of_nat (length cs) <= 2 ^ N.of_nat d -> merkle_virtual H d cs = merkle_full H d cs.
Proof.
  induction d as [|d IH]; intros cs Hlen.
  - destruct cs; reflexivity.
  - rewrite merkle_virtual_S. cbn [merkle_full]. unfold nat_of, lenN.
    rewrite <- (nat_pow2 d). rewrite pow2N_S in Hlen.
    set (p := 2 ^ N.of_nat d) in *.
    destruct (N.leb_spec (N.of_nat (length cs)) p) as [Hle|Hgt].
    + rewrite firstn_all2, skipn_all2 by lia.
      rewrite merkle_full_nil, IH by exact Hle. reflexivity.
    + rewrite !IH; [reflexivity| |].
      * rewrite skipn_length. lia.
      * rewrite firstn_length. lia.
Qed.

(* merkleize_spec against the document's definition *)
Lemma merkleize_spec_eq_full cs limit :
  lenN cs <= limit ->
  merkleize_spec H cs limit = merkle_full H (depth_for limit) cs.
Proof.
  intros Hlen. unfold merkleize_spec. apply merkle_virtual_eq_full.
  pose proof (depth_for_ge limit). unfold lenN in Hlen. lia.
Qed.

End WithH.

(* ------------------------------------------------------------------------------------ *)
(* 3-5a. structure: ztree / series vocabulary, SubtreeFillToContents / ToLength build a   *)
(*       series.  Only the table zh is involved (no hash, no assumption on zh).           *)

Section WithZero.
Variable zh : nat -> chunk.


Lemma ztree_leaf d : ztree zh d (Leaf (zh d)).
Proof. destruct d; left; reflexivity. Qed.

Lemma ztree_0 n : ztree zh 0 n <-> n = Leaf (zh 0).
Proof. cbn [ztree]. tauto. Qed.

Lemma ztree_S_leaf d c : ztree zh (S d) (Leaf c) <-> c = zh (S d).
Proof.
  cbn [ztree]. split.
  - intros [Heq|[]]. congruence.
  - intros ->. left. reflexivity.
Qed.

Lemma ztree_S_pair d a b : ztree zh (S d) (Pair a b) <-> ztree zh d a /\ ztree zh d b.
Proof.
  cbn [ztree]. split.
  - intros [Heq|Hab]; [discriminate|exact Hab].
  - intros Hab. right. exact Hab.
Qed.

Lemma ztree_fill d : ztree zh d (fill_to_depth (Leaf (zh 0)) d).
Proof.
  induction d as [|d IH].
  - left. reflexivity.
  - cbn [fill_to_depth]. apply ztree_S_pair. split; exact IH.
Qed.

Lemma series_nil d n : series zh d [] n <-> ztree zh d n.
Proof. destruct d; reflexivity. Qed.

Lemma series_0 p ps n : series zh 0 (p :: ps) n <-> ps = [] /\ p n.
Proof. reflexivity. Qed.

Lemma series_leaf d ps c : series zh (S d) ps (Leaf c) <-> ps = [] /\ c = zh (S d).
Proof.
  destruct ps as [|p ps].
  - rewrite series_nil, ztree_S_leaf. tauto.
  - cbn [series]. split; [intros []|intros [Heq _]; discriminate].
Qed.

(* splitting a series at the pivot, uniformly in the list (also for []) *)
Lemma series_pair d ps a b :
  series zh (S d) ps (Pair a b) <->
  if lenN ps <=? 2 ^ N.of_nat d
  then series zh d ps a /\ ztree zh d b
  else series zh d (firstn (nat_of (2 ^ N.of_nat d)) ps) a /\
       series zh d (skipn (nat_of (2 ^ N.of_nat d)) ps) b.
Proof.
  destruct ps as [|p ps].
  - change (lenN (@nil (node -> Prop))) with 0.
    destruct (N.leb_spec 0 (2 ^ N.of_nat d)) as [_|Hlt]; [|lia].
    rewrite !series_nil, ztree_S_pair. reflexivity.
  - reflexivity.
Qed.

Lemma series_length d : forall ps n, series zh d ps n -> lenN ps <= 2 ^ N.of_nat d.
Proof.
  induction d as [|d IH]; intros ps n Hs.
  - rewrite pow2N_0. destruct ps as [|p ps].
    + unfold lenN. cbn [length]. lia.
    + apply series_0 in Hs. destruct Hs as [-> _]. unfold lenN. cbn [length]. lia.
  - rewrite pow2N_S. destruct n as [c|a b].
    + apply series_leaf in Hs. destruct Hs as [-> _]. unfold lenN. cbn [length]. lia.
    + rewrite series_pair in Hs.
      destruct (N.leb_spec (lenN ps) (2 ^ N.of_nat d)) as [Hle|Hgt].
      * lia.
      * destruct Hs as [Ha Hb]. apply IH in Ha. apply IH in Hb.
        unfold lenN, nat_of in *. rewrite firstn_length in Ha. rewrite skipn_length in Hb.
        set (p := 2 ^ N.of_nat d) in *. lia.
Qed.

Lemma series_mono d : forall ps qs n,
  Forall2 (fun (p q : node -> Prop) => forall m, p m -> q m) ps qs ->
  series zh d ps n -> series zh d qs n.
Proof.
  induction d as [|d IH]; intros ps qs n HF Hs.
  - destruct HF as [|p q ps qs Hpq HF].
    + exact Hs.
    + apply series_0 in Hs. destruct Hs as [-> Hp]. inversion HF; subst.
      apply series_0. split; [reflexivity|]. apply Hpq, Hp.
  - destruct n as [c|a b].
    + apply series_leaf in Hs. destruct Hs as [-> ->]. inversion HF; subst.
      apply series_leaf. split; reflexivity.
    + rewrite series_pair in Hs. rewrite series_pair.
      assert (Hl : lenN qs = lenN ps)
        by (unfold lenN; rewrite (Forall2_length' _ _ _ HF); reflexivity).
      rewrite Hl.
      destruct (lenN ps <=? 2 ^ N.of_nat d); destruct Hs as [Ha Hb]; split.
      * exact (IH _ _ _ HF Ha).
      * exact Hb.
      * exact (IH _ _ _ (Forall2_firstn' _ _ _ HF _) Ha).
      * exact (IH _ _ _ (Forall2_skipn' _ _ _ HF _) Hb).
Qed.

(* a full tree of copies of b *)
Lemma series_fill_full (p : node -> Prop) b d :
  p b -> series zh d (repeat p (Nat.pow 2 d)) (fill_to_depth b d).
Proof.
  intros Hp. induction d as [|d IH].
  - change (Nat.pow 2 0) with 1%nat. cbn [repeat fill_to_depth].
    apply series_0. split; [reflexivity|exact Hp].
  - cbn [fill_to_depth]. apply series_pair. rewrite lenN_repeat, N_pow2_nat, pow2N_S.
    pose proof (pow2N_pos d) as Hpos.
    destruct (N.leb_spec (2 * 2 ^ N.of_nat d) (2 ^ N.of_nat d)) as [Hle|_]; [lia|].
    unfold nat_of. rewrite nat_pow2, firstn_repeat', skipn_repeat'.
    replace (Nat.min (Nat.pow 2 d) (Nat.pow 2 (S d))) with (Nat.pow 2 d)
      by (rewrite Nat.pow_succ_r'; lia).
    replace (Nat.pow 2 (S d) - Nat.pow 2 d)%nat with (Nat.pow 2 d)
      by (rewrite Nat.pow_succ_r'; lia).
    split; exact IH.
Qed.


Lemma fill_to_contents_nil d : fill_to_contents zh [] d = zero_node zh (N.of_nat d).
Proof. destruct d; reflexivity. Qed.

Lemma fill_to_contents_nil_ok d :
  N.of_nat d <= 64 -> fill_to_contents zh [] d = OK (Leaf (zh d)).
Proof.
  intros Hd. rewrite fill_to_contents_nil. unfold zero_node, nat_of.
  destruct (N.leb_spec (N.of_nat d) 64) as [_|Hgt]; [|lia].
  rewrite Nat2N.id. reflexivity.
Qed.

Lemma fill_to_contents_cons n0 rest d :
  fill_to_contents zh (n0 :: rest) d =
  if shl64 1 (N.of_nat d) <? N.of_nat (length (n0 :: rest)) then Err else
  match d with
  | O => OK n0
  | S d' =>
    match d' with
    | O => match rest with
           | n1 :: _ => OK (Pair n0 n1)
           | [] => OK (Pair n0 (Leaf (zh 0)))
           end
    | S _ =>
      if N.of_nat (length (n0 :: rest)) <=? shl64 1 (N.of_nat d') then
        do l <- fill_to_contents zh (n0 :: rest) d'; OK (Pair l (Leaf (zh d')))
      else
        do l <- fill_to_contents zh (firstn (nat_of (shl64 1 (N.of_nat d'))) (n0 :: rest)) d';
        do r <- fill_to_contents zh (skipn (nat_of (shl64 1 (N.of_nat d'))) (n0 :: rest)) d';
        OK (Pair l r)
    end
  end.
Proof. destruct d; reflexivity. Qed.

Lemma fill_to_contents_err d ns :
  N.of_nat d < 64 -> 2 ^ N.of_nat d < N.of_nat (length ns) ->
  fill_to_contents zh ns d = Err.
Proof.
  intros Hd Hlen. destruct ns as [|n0 rest].
  - cbn [length] in Hlen. lia.
  - rewrite fill_to_contents_cons, shl64_1 by exact Hd.
    destruct (N.ltb_spec (2 ^ N.of_nat d) (N.of_nat (length (n0 :: rest)))) as [_|Hge];
      [reflexivity|lia].
Qed.

Lemma fill_to_contents_series d : forall ns,
  N.of_nat d < 64 -> N.of_nat (length ns) <= 2 ^ N.of_nat d ->
  exists n, fill_to_contents zh ns d = OK n /\
            series zh d (map (fun x m => m = x) ns) n.
Proof.
  induction d as [|d IH]; intros ns Hd Hlen.
  - destruct ns as [|n0 rest].
    + exists (Leaf (zh 0)). split.
      * apply fill_to_contents_nil_ok. lia.
      * cbn [map]. apply series_nil, ztree_leaf.
    + rewrite pow2N_0 in Hlen.
      rewrite fill_to_contents_cons, shl64_1, pow2N_0 by exact Hd.
      destruct (N.ltb_spec 1 (N.of_nat (length (n0 :: rest)))) as [Hlt|_]; [lia|].
      destruct rest as [|n1 tl]; [|cbn [length] in Hlen; lia].
      exists n0. split; [reflexivity|]. cbn [map]. apply series_0. split; reflexivity.
  - destruct ns as [|n0 rest].
    + exists (Leaf (zh (S d))). split.
      * apply fill_to_contents_nil_ok. lia.
      * cbn [map]. apply series_nil, ztree_leaf.
    + rewrite fill_to_contents_cons, shl64_1 by exact Hd.
      destruct (N.ltb_spec (2 ^ N.of_nat (S d)) (N.of_nat (length (n0 :: rest))))
        as [Hlt|_]; [lia|].
      destruct d as [|d'].
      * (* depth 1 *)
        rewrite pow2N_S, pow2N_0 in Hlen.
        destruct rest as [|n1 tl].
        -- exists (Pair n0 (Leaf (zh 0))). split; [reflexivity|].
           apply series_pair. rewrite lenN_map, pow2N_0. unfold lenN. cbn [length].
           destruct (N.leb_spec (N.of_nat 1) 1) as [_|Hgt]; [|lia].
           cbn [map]. split; [|apply ztree_leaf].
           apply series_0. split; reflexivity.
        -- destruct tl as [|n2 tl]; [|cbn [length] in Hlen; lia].
           exists (Pair n0 n1). split; [reflexivity|].
           apply series_pair. rewrite lenN_map, pow2N_0. unfold lenN. cbn [length].
           destruct (N.leb_spec (N.of_nat 2) 1) as [Hle|_]; [lia|].
           change (nat_of 1) with 1%nat. cbn [map firstn skipn].
           split; apply series_0; split; reflexivity.
      * (* depth >= 2 *)
        assert (Hd' : N.of_nat (S d') < 64) by lia.
        rewrite shl64_1 by exact Hd'.
        set (ns := n0 :: rest) in *. rewrite pow2N_S in Hlen.
        destruct (N.leb_spec (N.of_nat (length ns)) (2 ^ N.of_nat (S d'))) as [Hle|Hgt].
        -- destruct (IH ns Hd' Hle) as (l & Hl & Hs). rewrite Hl. cbn [bind].
           exists (Pair l (Leaf (zh (S d')))). split; [reflexivity|].
           apply series_pair. rewrite lenN_map. unfold lenN.
           destruct (N.leb_spec (N.of_nat (length ns)) (2 ^ N.of_nat (S d'))) as [_|Hgt];
             [|lia].
           split; [exact Hs|apply ztree_leaf].
        -- set (p := 2 ^ N.of_nat (S d')) in *.
           destruct (IH (firstn (nat_of p) ns) Hd') as (l & Hl & Hsl).
           { rewrite firstn_length. unfold nat_of. lia. }
           destruct (IH (skipn (nat_of p) ns) Hd') as (r & Hr & Hsr).
           { rewrite skipn_length. unfold nat_of. lia. }
           rewrite Hl, Hr. cbn [bind].
           exists (Pair l r). split; [reflexivity|].
           apply series_pair. rewrite lenN_map. unfold lenN. fold p.
           destruct (N.leb_spec (N.of_nat (length ns)) p) as [Hle|_]; [lia|].
           rewrite firstn_map, skipn_map. split; assumption.
Qed.

Lemma fill_to_contents_no_panic d ns :
  N.of_nat d < 64 -> fill_to_contents zh ns d <> Panic.
Proof.
  intros Hd.
  destruct (N.le_gt_cases (N.of_nat (length ns)) (2 ^ N.of_nat d)) as [Hle|Hgt].
  - destruct (fill_to_contents_series d ns Hd Hle) as (n & Hn & _). rewrite Hn. discriminate.
  - rewrite (fill_to_contents_err d ns Hd Hgt). discriminate.
Qed.

(* the exact success condition below depth 64 *)
Lemma fill_to_contents_ok_iff d ns :
  N.of_nat d < 64 ->
  (exists n, fill_to_contents zh ns d = OK n) <-> N.of_nat (length ns) <= 2 ^ N.of_nat d.
Proof.
  intros Hd. split.
  - intros [n Hn]. destruct (N.le_gt_cases (N.of_nat (length ns)) (2 ^ N.of_nat d))
      as [Hle|Hgt]; [exact Hle|].
    rewrite (fill_to_contents_err d ns Hd Hgt) in Hn. discriminate.
  - intros Hle. destruct (fill_to_contents_series d ns Hd Hle) as (n & Hn & _).
    exists n. exact Hn.
Qed.


Lemma fill_to_length_unfold b d len :
  fill_to_length zh b d len =
  if shl64 1 (N.of_nat d) <? len then Err else
  if len =? shl64 1 (N.of_nat d) then OK (fill_to_depth b d) else
  match d with
  | O => Panic
  | S d' =>
    match d' with
    | O => if 1 <? len then OK (Pair b b) else OK (Pair b (Leaf (zh 0)))
    | S _ =>
      if len <=? shl64 1 (N.of_nat d') then
        do l <- fill_to_length zh b d' len; OK (Pair l (Leaf (zh d')))
      else
        do r <- fill_to_length zh b d' (len - shl64 1 (N.of_nat d'));
        OK (Pair (fill_to_depth b d') r)
    end
  end.
Proof. destruct d; reflexivity. Qed.

Lemma fill_to_length_full b d :
  N.of_nat d < 64 -> fill_to_length zh b d (2 ^ N.of_nat d) = OK (fill_to_depth b d).
Proof.
  intros Hd. rewrite fill_to_length_unfold, shl64_1 by exact Hd.
  rewrite N.ltb_irrefl, N.eqb_refl. reflexivity.
Qed.

Lemma fill_to_length_err b d len :
  N.of_nat d < 64 -> 2 ^ N.of_nat d < len -> fill_to_length zh b d len = Err.
Proof.
  intros Hd Hlen. rewrite fill_to_length_unfold, shl64_1 by exact Hd.
  destruct (N.ltb_spec (2 ^ N.of_nat d) len) as [_|Hge]; [reflexivity|lia].
Qed.

Lemma fill_to_length_series b d : forall len,
  N.of_nat d < 64 -> 0 < len -> len <= 2 ^ N.of_nat d ->
  exists n, fill_to_length zh b d len = OK n /\
            series zh d (repeat (fun m => m = b) (N.to_nat len)) n.
Proof.
  induction d as [|d IH]; intros len Hd Hpos Hle.
  - rewrite pow2N_0 in Hle. assert (len = 1) by lia. subst len.
    exists b. split; [exact (fill_to_length_full b 0 Hd)|].
    change (N.to_nat 1) with 1%nat. cbn [repeat]. apply series_0. split; reflexivity.
  - destruct (N.eq_dec len (2 ^ N.of_nat (S d))) as [->|Hne].
    { exists (fill_to_depth b (S d)). split.
      - apply fill_to_length_full. exact Hd.
      - rewrite nat_pow2. apply series_fill_full. reflexivity. }
    rewrite fill_to_length_unfold, shl64_1 by exact Hd.
    destruct (N.ltb_spec (2 ^ N.of_nat (S d)) len) as [Hlt|_]; [lia|].
    destruct (N.eqb_spec len (2 ^ N.of_nat (S d))) as [Heq|_]; [contradiction|].
    destruct d as [|d'].
    + (* depth 1: len = 1 *)
      rewrite pow2N_S, pow2N_0 in *.
      assert (len = 1) by lia. subst len.
      exists (Pair b (Leaf (zh 0))). split; [reflexivity|].
      change (N.to_nat 1) with 1%nat. cbn [repeat].
      apply series_pair. rewrite pow2N_0. unfold lenN. cbn [length].
      destruct (N.leb_spec (N.of_nat 1) 1) as [_|Hgt]; [|lia].
      split; [|apply ztree_leaf]. apply series_0. split; reflexivity.
    + assert (Hd' : N.of_nat (S d') < 64) by lia.
      rewrite shl64_1 by exact Hd'. rewrite pow2N_S in Hle, Hne.
      set (p := 2 ^ N.of_nat (S d')) in *.
      destruct (N.leb_spec len p) as [Hlep|Hgtp].
      * destruct (IH len Hd' Hpos Hlep) as (l & Hl & Hs). rewrite Hl. cbn [bind].
        exists (Pair l (Leaf (zh (S d')))). split; [reflexivity|].
        apply series_pair. rewrite lenN_repeat, N2Nat.id. fold p.
        destruct (N.leb_spec len p) as [_|Hgt]; [|lia].
        split; [exact Hs|apply ztree_leaf].
      * destruct (IH (len - p) Hd') as (r & Hr & Hs); [lia|lia|].
        rewrite Hr. cbn [bind].
        exists (Pair (fill_to_depth b (S d')) r). split; [reflexivity|].
        apply series_pair. rewrite lenN_repeat, N2Nat.id. fold p.
        destruct (N.leb_spec len p) as [Hle'|_]; [lia|].
        unfold nat_of. rewrite firstn_repeat', skipn_repeat'.
        replace (Nat.min (N.to_nat p) (N.to_nat len)) with (N.to_nat p) by lia.
        replace (N.to_nat len - N.to_nat p)%nat with (N.to_nat (len - p)) by lia.
        split; [|exact Hs].
        unfold p. rewrite nat_pow2. apply series_fill_full. reflexivity.
Qed.

End WithZero.

(* ------------------------------------------------------------------------------------ *)
(* 3-5b. roots: here the table must be the zero hashes of H                               *)

Section WithHash.
Variable H : chunk -> chunk -> chunk.
Variable zh : nat -> chunk.
Hypothesis Hzh : forall d, zh d = zero_hash H d.

Lemma ztree_root d : forall n, ztree zh d n -> root_of H n = zero_hash H d.
Proof.
  induction d as [|d IH]; intros n Hz.
  - apply (proj1 (ztree_0 zh n)) in Hz. subst n. cbn [root_of]. apply Hzh.
  - destruct n as [c|a b].
    + apply (proj1 (ztree_S_leaf zh d c)) in Hz. subst c. cbn [root_of]. apply Hzh.
    + apply (proj1 (ztree_S_pair zh d a b)) in Hz. destruct Hz as [Ha Hb].
      cbn [root_of zero_hash]. rewrite (IH _ Ha), (IH _ Hb). reflexivity.
Qed.

(* the root of a series; the length bound is implied by [series] (see series_length),
   so this form needs no length premise *)
Lemma series_root' d : forall ps rs n,
  Forall2 (fun (p : node -> Prop) r => forall m, p m -> root_of H m = r) ps rs ->
  series zh d ps n -> root_of H n = merkle_virtual H d rs.
Proof.
  induction d as [|d IH]; intros ps rs n HF Hs.
  - destruct HF as [|p r ps rs Hpr HF].
    + apply (proj1 (series_nil zh 0 n)) in Hs. apply (proj1 (ztree_0 zh n)) in Hs. subst n. cbn [root_of merkle_virtual zero_hash].
      rewrite Hzh. reflexivity.
    + apply (proj1 (series_0 zh p ps n)) in Hs. destruct Hs as [-> Hp]. rewrite merkle_virtual_0.
      apply Hpr, Hp.
  - destruct n as [c|a b].
    + apply (proj1 (series_leaf zh d ps c)) in Hs. destruct Hs as [-> ->]. inversion HF; subst.
      rewrite merkle_virtual_nil. cbn [root_of]. apply Hzh.
    + apply (proj1 (series_pair zh d ps a b)) in Hs. rewrite merkle_virtual_S.
      assert (Hl : lenN rs = lenN ps)
        by (unfold lenN; rewrite (Forall2_length' _ _ _ HF); reflexivity).
      rewrite Hl. cbn [root_of].
      destruct (lenN ps <=? 2 ^ N.of_nat d); destruct Hs as [Ha Hb].
      * rewrite (IH _ _ _ HF Ha), (ztree_root _ _ Hb). reflexivity.
      * rewrite (IH _ _ _ (Forall2_firstn' _ _ _ HF _) Ha),
                (IH _ _ _ (Forall2_skipn' _ _ _ HF _) Hb). reflexivity.
Qed.

Lemma series_root d ps rs n :
  Forall2 (fun (p : node -> Prop) r => forall m, p m -> root_of H m = r) ps rs ->
  N.of_nat (length ps) <= 2 ^ N.of_nat d ->
  series zh d ps n -> root_of H n = merkle_virtual H d rs.
Proof. intros HF _ Hs. exact (series_root' d ps rs n HF Hs). Qed.

(* the root in the document's form *)
Lemma series_root_full d ps rs n :
  Forall2 (fun (p : node -> Prop) r => forall m, p m -> root_of H m = r) ps rs ->
  series zh d ps n -> root_of H n = merkle_full H d rs.
Proof.
  intros HF Hs. rewrite (series_root' d ps rs n HF Hs).
  apply merkle_virtual_eq_full.
  pose proof (series_length zh _ _ _ Hs) as Hlen. unfold lenN in Hlen.
  rewrite <- (Forall2_length' _ _ _ HF). exact Hlen.
Qed.

(* The root of the result.  No premise on d or the length is needed: whenever the model
   returns OK (which for d >= 64 happens only for ns = [] and d = 64), the root is right. *)
Lemma fill_to_contents_root d ns n :
  fill_to_contents zh ns d = OK n ->
  root_of H n = merkle_virtual H d (map (root_of H) ns).
Proof.
  intros Hok. destruct (N.lt_ge_cases (N.of_nat d) 64) as [Hd|Hd].
  - destruct (N.le_gt_cases (N.of_nat (length ns)) (2 ^ N.of_nat d)) as [Hle|Hgt].
    + destruct (fill_to_contents_series zh d ns Hd Hle) as (n' & Hn' & Hs).
      rewrite Hn' in Hok. injection Hok as <-.
      apply (series_root' d (map (fun x m => m = x) ns)); [|exact Hs].
      apply Forall2_map_both. intros x m ->. reflexivity.
    + rewrite (fill_to_contents_err zh d ns Hd Hgt) in Hok. discriminate.
  - destruct ns as [|n0 rest].
    + rewrite fill_to_contents_nil in Hok. unfold zero_node, nat_of in Hok.
      destruct (N.of_nat d <=? 64); [|discriminate].
      injection Hok as <-. rewrite Nat2N.id. cbn [map root_of].
      rewrite merkle_virtual_nil. apply Hzh.
    + rewrite fill_to_contents_cons, shl64_1_high in Hok by exact Hd.
      destruct (N.ltb_spec 0 (N.of_nat (length (n0 :: rest)))) as [_|Hge];
        [discriminate|cbn [length] in Hge; lia].
Qed.

Lemma fill_to_length_root b d len n :
  N.of_nat d < 64 -> 0 < len -> len <= 2 ^ N.of_nat d ->
  fill_to_length zh b d len = OK n ->
  root_of H n = merkle_virtual H d (repeat (root_of H b) (N.to_nat len)).
Proof.
  intros Hd Hpos Hle Hok.
  destruct (fill_to_length_series zh b d len Hd Hpos Hle) as (n' & Hn' & Hs).
  rewrite Hn' in Hok. injection Hok as <-.
  apply (series_root' d (repeat (fun m => m = b) (N.to_nat len))); [|exact Hs].
  apply Forall2_repeat'. intros m ->. reflexivity.
Qed.

End WithHash.

(* ------------------------------------------------------------------------------------ *)
(* Sanity examples: the hypotheses are satisfiable, on a toy "hash" (first bytes of both
   arguments followed by the left one, truncated to 3 bytes: just to have distinguishable,
   order-sensitive values).                                                              *)

Definition toy_H (a b : chunk) : chunk := firstn 3 (hd b0 a :: hd b0 b :: a).
Definition toy_zh (d : nat) : chunk := zero_hash toy_H d.

Example fill_to_contents_series_ex :
  N.of_nat 3 < 64 /\
  N.of_nat (length [Leaf [Byte.x01]; Leaf [Byte.x02]; Leaf [Byte.x03]]) <= 2 ^ N.of_nat 3.
Proof. split; [reflexivity|vm_compute; discriminate]. Qed.

Example fill_to_contents_root_ex :
  exists n, fill_to_contents toy_zh [Leaf [Byte.x01]; Leaf [Byte.x02]; Leaf [Byte.x03]] 3 = OK n /\
            root_of toy_H n =
            merkle_full toy_H 3 [[Byte.x01]; [Byte.x02]; [Byte.x03]].
Proof. eexists. split; vm_compute; reflexivity. Qed.

Example fill_to_length_series_ex : N.of_nat 3 < 64 /\ 0 < 5 /\ 5 <= 2 ^ N.of_nat 3.
Proof. split; [reflexivity|split; [reflexivity|vm_compute; discriminate]]. Qed.

Print Assumptions zero_hash_fill.
Print Assumptions root_of_fill_to_depth.
Print Assumptions merkle_full_zeros.
Print Assumptions merkle_full_nil.
Print Assumptions merkle_full_pad.
Print Assumptions merkle_virtual_eq_full.
Print Assumptions ztree_root.
Print Assumptions series_root.
Print Assumptions series_mono.
Print Assumptions fill_to_contents_series.
Print Assumptions fill_to_contents_root.
Print Assumptions fill_to_contents_err.
Print Assumptions fill_to_contents_no_panic.
Print Assumptions fill_to_length_series.
Print Assumptions fill_to_length_root.
Print Assumptions ztree_fill.
Print Assumptions depth_for_cover.
