(* ReprProofs.v — the hash-tree-root of a backing tree that represents a value is the root the
   SSZ specification defines for that value (C01), for an ARBITRARY pair hash H.

   Contents
     0. spec vocabulary used in the statements: [small_fields]
     1. induction principle for [ty] (nested lists), readable views of the nested fixpoints
     2. bytes, chunks, packing: lengths and all-zero facts
     3. geometry: CoverDepth of the code = depth_for of the spec chunk limit
     4. [repr_root]        any tree representing v has the root spec_htr t v
     5. [from_val_repr]    the constructors are total on typed values and build a representing tree
     6. [default_repr], [has_type_default]
     7. corollaries, the List[bool] refutation, examples

   Extra hypothesis (not in wf_ty / small_params): [small_fields t] bounds the number of fields
   of every container by 2^63.  It is needed for the *constructors* (5, 6) only: with more than
   2^64 fields CoverDepth wraps (e.g. cover_depth (2^64+1) = 1) and SubtreeFillToContents
   refuses the nodes, so [from_val] returns Err on a typed value.  [repr_root] does not need it. *)
From Coq Require Import PeanoNat ZArith ZifyN ZifyNat ZifyBool.
From Ztyp Require Import Base Bitlen Tree Types Spec View Repr BitlenProofs MerkleProofs.
Open Scope N_scope.

#[local] Ltac Zify.zify_post_hook ::= Z.div_mod_to_equations.
Local Arguments N.pow : simpl never.
Local Arguments Nat.pow : simpl never.
Local Arguments N.of_nat : simpl never.
Local Arguments N.to_nat : simpl never.
Local Arguments N.div : simpl never.
Local Arguments N.modulo : simpl never.
Local Arguments N.log2_up : simpl never.
Local Opaque two64.

(* ------------------------------------------------------------------------------------ *)
(** * 0. Spec vocabulary *)

(* every container has at most 2^63 fields: Go's len(fields) is an int, the constructors take
   CoverDepth(uint64(len(fields))) and fill a tree of depth < 64 *)
Fixpoint small_fields (t : ty) : bool :=
  match t with
  | TVector e _ | TList e _ => small_fields e
  | TContainer fs => (lenN fs <=? 2 ^ 63) && forallb small_fields fs
  | TUnion _ opts => forallb small_fields opts
  | _ => true
  end.

(* ------------------------------------------------------------------------------------ *)
(** * 1. Induction principle, readable views *)

Section TyInd.
  Variable P : ty -> Prop.
  Hypothesis HUint : forall w, P (TUint w).
  Hypothesis HBool : P TBool.
  Hypothesis HBytes : forall n, P (TBytes n).
  Hypothesis HRoot : P TRoot.
  Hypothesis HBitvector : forall n, P (TBitvector n).
  Hypothesis HBitlist : forall n, P (TBitlist n).
  Hypothesis HVector : forall e n, P e -> P (TVector e n).
  Hypothesis HList : forall e n, P e -> P (TList e n).
  Hypothesis HContainer : forall fs, Forall P fs -> P (TContainer fs).
  Hypothesis HUnion : forall none opts, Forall P opts -> P (TUnion none opts).

  Fixpoint ty_nind (t : ty) : P t :=
    match t with
    | TUint w => HUint w
    | TBool => HBool
    | TBytes n => HBytes n
    | TRoot => HRoot
    | TBitvector n => HBitvector n
    | TBitlist n => HBitlist n
    | TVector e n => HVector e n (ty_nind e)
    | TList e n => HList e n (ty_nind e)
    | TContainer fs =>
      HContainer fs
        ((fix go (l : list ty) : Forall P l :=
            match l with
            | [] => Forall_nil P
            | x :: r => Forall_cons x (ty_nind x) (go r)
            end) fs)
    | TUnion none opts =>
      HUnion none opts
        ((fix go (l : list ty) : Forall P l :=
            match l with
            | [] => Forall_nil P
            | x :: r => Forall_cons x (ty_nind x) (go r)
            end) opts)
    end.
End TyInd.

(* the option selected by a union value: [d] when out of range *)
Section Pick.
  Context {A : Type} (d : A) (f : ty -> A).
  Fixpoint rpick (os : list ty) (k : nat) : A :=
    match os, k with
    | [], _ => d
    | o :: _, O => f o
    | _ :: os', S k' => rpick os' k'
    end.
  Lemma rpick_nth_error : forall os k,
    rpick os k = match nth_error os k with Some o => f o | None => d end.
  Proof.
    induction os as [|o os IH]; intros [|k]; cbn [rpick nth_error]; auto.
  Qed.
End Pick.

Fixpoint rfields_ty (fs : list ty) (vs : list val) : bool :=
  match fs, vs with
  | [], [] => true
  | f :: fs', x :: vs' => has_type x f && rfields_ty fs' vs'
  | _, _ => false
  end.

Lemma has_type_cont fs vs : has_type (VCont vs) (TContainer fs) = rfields_ty fs vs.
Proof. reflexivity. Qed.

Lemma has_type_union none opts sel ov :
  has_type (VUnion sel ov) (TUnion none opts) =
  if none && (sel =? 0) then match ov with None => true | Some _ => false end
  else rpick false (fun o => match ov with Some x => has_type x o | None => false end)
             opts (nat_of (if none then sel - 1 else sel)).
Proof. reflexivity. Qed.

Section SpecViews.
  Variable H : chunk -> chunk -> chunk.

  Fixpoint rfields_htr (fs : list ty) (vs : list val) : list chunk :=
    match fs, vs with
    | f :: fs', x :: vs' => spec_htr H f x :: rfields_htr fs' vs'
    | _, _ => []
    end.

  Lemma spec_htr_cont fs vs :
    spec_htr H (TContainer fs) (VCont vs) = merkleize_spec H (rfields_htr fs vs) (lenN fs).
  Proof. reflexivity. Qed.

  Lemma spec_htr_union none opts sel ov :
    spec_htr H (TUnion none opts) (VUnion sel ov) =
    mix_in_selector H
      match ov with
      | None => zero_chunk
      | Some x => rpick zero_chunk (fun o => spec_htr H o x) opts (nat_of (if none then sel - 1 else sel))
      end sel.
  Proof. reflexivity. Qed.

  Lemma spec_htr_vector e n vs :
    spec_htr H (TVector e n) (VSeq vs) =
    if spec_basic e then merkleize_spec H (pack (flat_map (spec_ser e) vs)) (chunk_count_basic e n)
    else merkleize_spec H (map (spec_htr H e) vs) n.
  Proof. reflexivity. Qed.

  Lemma spec_htr_list e n vs :
    spec_htr H (TList e n) (VSeq vs) =
    if spec_basic e then
      mix_in_length H (merkleize_spec H (pack (flat_map (spec_ser e) vs)) (chunk_count_basic e n)) (lenN vs)
    else mix_in_length H (merkleize_spec H (map (spec_htr H e) vs) n) (lenN vs).
  Proof. reflexivity. Qed.
End SpecViews.

Section ReprViews.
  Variable zh : nat -> chunk.

  Fixpoint rfields_repr (fs : list ty) (vs : list val) : list (node -> Prop) :=
    match fs, vs with
    | f :: fs', x :: vs' => (fun m => repr zh f m x) :: rfields_repr fs' vs'
    | _, _ => []
    end.

  Lemma repr_cont fs vs n :
    repr zh (TContainer fs) n (VCont vs) =
    series zh (cdepth (TContainer fs)) (rfields_repr fs vs) n.
  Proof. reflexivity. Qed.

  Lemma repr_union none opts sel ov n :
    repr zh (TUnion none opts) n (VUnion sel ov) =
    exists c, n = Pair c (Leaf (pad32 [byte_of_N sel])) /\
      match ov with
      | None => c = Leaf zero_chunk
      | Some x => rpick False (fun o => repr zh o c x) opts (nat_of (if none then sel - 1 else sel))
      end.
  Proof. reflexivity. Qed.

  Lemma repr_vector e k vs n :
    repr zh (TVector e k) n (VSeq vs) =
    if is_basic_elem e then series zh (cdepth (TVector e k)) (map is_chunk (packed_chunks e vs)) n
    else series zh (cdepth (TVector e k)) (map (fun x m => repr zh e m x) vs) n.
  Proof. reflexivity. Qed.

  Lemma repr_list e k vs n :
    repr zh (TList e k) n (VSeq vs) =
    exists c, n = Pair c (len_leaf (lenN vs)) /\
      if is_basic_elem e then series zh (cdepth (TList e k)) (map is_chunk (packed_chunks e vs)) c
      else series zh (cdepth (TList e k)) (map (fun x m => repr zh e m x) vs) c.
  Proof. reflexivity. Qed.

  Fixpoint rfields_from (fs : list ty) (vs : list val) : res (list node) :=
    match fs, vs with
    | f :: fs', x :: vs' => do n <- from_val zh f x; do r <- rfields_from fs' vs'; OK (n :: r)
    | _, _ => OK []
    end.

  Lemma from_val_cont fs vs :
    from_val zh (TContainer fs) (VCont vs) =
    if negb (Nat.eqb (length fs) (length vs)) then Err else
    do ns <- rfields_from fs vs; fill_to_contents zh ns (cdepth (TContainer fs)).
  Proof. reflexivity. Qed.

  Lemma from_val_union none opts sel ov :
    from_val zh (TUnion none opts) (VUnion sel ov) =
    do c <- match ov with
            | None => OK (Leaf zero_chunk)
            | Some x => rpick Err (fun o => from_val zh o x) opts (nat_of (if none then sel - 1 else sel))
            end;
    OK (Pair c (Leaf (pad32 [byte_of_N sel]))).
  Proof. reflexivity. Qed.

  Lemma from_val_vector_uint w k vs :
    from_val zh (TVector (TUint w) k) (VSeq vs) =
    if k <? N.of_nat (length vs) then Err else
    do bs <- pack_uints w vs;
    fill_to_contents zh (map Leaf (chunkify bs)) (cdepth (TVector (TUint w) k)).
  Proof. reflexivity. Qed.

  Lemma from_val_vector_nb e k vs : is_basic_elem e = false ->
    from_val zh (TVector e k) (VSeq vs) =
    if negb (N.of_nat (length vs) =? k) then Err else
    do ns <- mapM (from_val zh e) vs; fill_to_contents zh ns (cdepth (TVector e k)).
  Proof. destruct e; intros Hb; try discriminate Hb; reflexivity. Qed.

  Lemma from_val_list_uint w k vs :
    from_val zh (TList (TUint w) k) (VSeq vs) =
    if k <? N.of_nat (length vs) then Err else
    do c <- (do bs <- pack_uints w vs;
             fill_to_contents zh (map Leaf (chunkify bs)) (cdepth (TList (TUint w) k)));
    OK (Pair c (len_leaf (N.of_nat (length vs)))).
  Proof. reflexivity. Qed.

  Lemma from_val_list_nb e k vs : is_basic_elem e = false ->
    from_val zh (TList e k) (VSeq vs) =
    if k <? N.of_nat (length vs) then Err else
    do c <- (do ns <- mapM (from_val zh e) vs; fill_to_contents zh ns (cdepth (TList e k)));
    OK (Pair c (len_leaf (N.of_nat (length vs)))).
  Proof. destruct e; intros Hb; try discriminate Hb; reflexivity. Qed.
End ReprViews.

Lemma elem_cases e :
  (exists w, e = TUint w) \/ e = TBool \/ (is_basic_elem e = false /\ spec_basic e = false).
Proof. destruct e; eauto. Qed.

(* ------------------------------------------------------------------------------------ *)
(** * 2. Bytes, chunks, packing *)

Lemma pad32_zeros k : pad32 (repeat b0 k) = zero_chunk.
Proof.
  unfold pad32, pad_to, zero_chunk, zero_bytes. rewrite <- repeat_app, firstn_repeat'.
  f_equal. lia.
Qed.

Lemma le_bytes_0 k : le_bytes k 0 = repeat b0 k.
Proof. apply le_bytes_zero. apply N.mod_0_l, pow256_nz. Qed.

Lemma pad32_short bs : (length bs <= 32)%nat -> pad32 bs = bs ++ repeat b0 (32 - length bs).
Proof.
  intros Hl. unfold pad32, pad_to, zero_bytes.
  rewrite firstn_app, firstn_all2 by exact Hl. rewrite firstn_repeat'. do 2 f_equal. lia.
Qed.

Lemma pad32_full bs : length bs = 32%nat -> pad32 bs = bs.
Proof.
  intros Hl. rewrite pad32_short by lia. rewrite Hl. cbn [Nat.sub repeat]. apply app_nil_r.
Qed.

Lemma pad32_le8 x : x < 2 ^ 64 -> pad32 (le_bytes 8 x) = pad32 (le_bytes 32 x).
Proof.
  intros Hx. rewrite pad32_short by (rewrite le_bytes_length; lia).
  rewrite pad32_full by apply le_bytes_length.
  rewrite le_bytes_length. change 32%nat with (8 + 24)%nat at 2.
  rewrite le_bytes_app. f_equal.
  change (256 ^ N.of_nat 8) with (2 ^ 64). rewrite N.div_small by exact Hx.
  symmetry. apply le_bytes_0.
Qed.

Lemma pad32_sel s : s < 256 -> pad32 [byte_of_N s] = pad32 (le_bytes 32 s).
Proof.
  intros Hs. rewrite pad32_short by (cbn [length]; lia).
  rewrite pad32_full by apply le_bytes_length.
  change 32%nat with (1 + 31)%nat at 2. rewrite le_bytes_app.
  change (256 ^ N.of_nat 1) with 256. rewrite N.div_small by exact Hs.
  rewrite le_bytes_0. reflexivity.
Qed.

Lemma chunkify_fuel_length : forall fuel bs, (length bs < fuel)%nat ->
  length (chunkify_fuel fuel bs) = ((length bs + 31) / 32)%nat.
Proof.
  induction fuel as [|f IH]; intros bs Hl; [lia|].
  destruct bs as [|b bs']; [reflexivity|].
  cbn [chunkify_fuel]. cbn [length] in Hl.
  assert (Hs : length (skipn 32 (b :: bs')) = (length (b :: bs') - 32)%nat) by apply skipn_length.
  cbn [length] in *. rewrite IH by lia. rewrite Hs. lia.
Qed.

Lemma chunkify_length bs : length (chunkify bs) = ((length bs + 31) / 32)%nat.
Proof. apply chunkify_fuel_length. lia. Qed.

Lemma chunkify_lenN bs : lenN (chunkify bs) = (lenN bs + 31) / 32.
Proof. unfold lenN. rewrite chunkify_length. lia. Qed.

Lemma btb_fuel_length : forall fuel bs, (length bs < fuel)%nat ->
  length (bits_to_bytes_fuel fuel bs) = ((length bs + 7) / 8)%nat.
Proof.
  induction fuel as [|f IH]; intros bs Hl; [lia|].
  destruct bs as [|b bs']; [reflexivity|].
  cbn [bits_to_bytes_fuel]. cbn [length] in Hl.
  assert (Hs : length (skipn 8 (b :: bs')) = (length (b :: bs') - 8)%nat) by apply skipn_length.
  cbn [length] in *. rewrite IH by lia. rewrite Hs. lia.
Qed.

Lemma bits_to_bytes_lenN bs : lenN (bits_to_bytes bs) = (lenN bs + 7) / 8.
Proof. unfold lenN, bits_to_bytes. rewrite btb_fuel_length by lia. lia. Qed.

Lemma bit_chunks_lenN bs : lenN (bit_chunks bs) = (lenN bs + 255) / 256.
Proof. unfold bit_chunks. rewrite chunkify_lenN, bits_to_bytes_lenN. lia. Qed.

(* all-zero packings *)
Lemma chunkify_fuel_zeros : forall fuel k,
  Forall (eq zero_chunk) (chunkify_fuel fuel (repeat b0 k)).
Proof.
  induction fuel as [|f IH]; intros k; [constructor|].
  cbn [chunkify_fuel]. destruct (repeat b0 k) as [|b l] eqn:E; [constructor|].
  rewrite <- E, firstn_repeat', skipn_repeat'. constructor.
  - symmetry. apply pad32_zeros.
  - apply IH.
Qed.

Lemma chunkify_zeros k : Forall (eq zero_chunk) (chunkify (repeat b0 k)).
Proof. apply chunkify_fuel_zeros. Qed.

Lemma bits_val_false k : bits_val (repeat false k) = 0.
Proof. induction k as [|k IH]; cbn [repeat bits_val]; [reflexivity|]. rewrite IH. reflexivity. Qed.

Lemma btb_fuel_false : forall fuel k, exists m,
  bits_to_bytes_fuel fuel (repeat false k) = repeat b0 m.
Proof.
  induction fuel as [|f IH]; intros k; [exists O; reflexivity|].
  cbn [bits_to_bytes_fuel]. destruct (repeat false k) as [|b l] eqn:E; [exists O; reflexivity|].
  rewrite <- E, firstn_repeat', skipn_repeat', bits_val_false.
  destruct (IH (k - 8)%nat) as [m Hm]. exists (S m). rewrite Hm. reflexivity.
Qed.

Lemma bit_chunks_false k : Forall (eq zero_chunk) (bit_chunks (repeat false k)).
Proof.
  unfold bit_chunks, bits_to_bytes. destruct (btb_fuel_false (S (length (repeat false k))) k) as [m ->].
  apply chunkify_zeros.
Qed.

Lemma flat_map_uint0 w k : exists m,
  flat_map (spec_ser (TUint w)) (repeat (VUint 0) k) = repeat b0 m.
Proof.
  induction k as [|k [m IH]]; [exists O; reflexivity|].
  cbn [repeat flat_map]. rewrite IH. cbn [spec_ser]. rewrite le_bytes_0, <- repeat_app.
  eexists. reflexivity.
Qed.

Lemma flat_map_uint_length w vs :
  forallb (fun x => has_type x (TUint w)) vs = true ->
  length (flat_map (spec_ser (TUint w)) vs) = (length vs * nat_of w)%nat.
Proof.
  induction vs as [|v vs IH]; intros Hty; [reflexivity|].
  cbn [forallb] in Hty. apply andb_prop in Hty. destruct Hty as [Hv Hvs].
  cbn [flat_map length]. rewrite app_length, IH by exact Hvs.
  destruct v; try discriminate Hv. cbn [spec_ser]. rewrite le_bytes_length. lia.
Qed.

Section PackUints.
  Variable zh : nat -> chunk.
  Lemma pack_uints_typed w vs :
    forallb (fun x => has_type x (TUint w)) vs = true ->
    pack_uints w vs = OK (flat_map (spec_ser (TUint w)) vs).
  Proof.
    unfold pack_uints. intros Hty.
    assert (E : mapM (fun v => match v with VUint n => OK (le_bytes (nat_of w) n) | _ => Err end) vs
                = OK (map (spec_ser (TUint w)) vs)).
    { induction vs as [|v vs IH]; [reflexivity|].
      cbn [forallb] in Hty. apply andb_prop in Hty. destruct Hty as [Hv Hvs].
      cbn [mapM map]. destruct v; try discriminate Hv. cbn [bind spec_ser].
      rewrite IH by exact Hvs. reflexivity. }
    rewrite E. cbn [bind]. rewrite flat_map_concat_map. reflexivity.
  Qed.
End PackUints.

(* ------------------------------------------------------------------------------------ *)
(** * 3. Geometry: CoverDepth of the code's bottom count = depth_for of the spec's chunk limit *)

Lemma lor_lt64 a b : a < 64 -> b < 64 -> N.lor a b < 64.
Proof.
  intros Ha Hb.
  assert (La : N.log2 a < 6).
  { destruct (N.eq_dec a 0) as [->|Hz]; [reflexivity|].
    apply (proj1 (N.log2_lt_pow2 a 6 ltac:(lia))). exact Ha. }
  assert (Lb : N.log2 b < 6).
  { destruct (N.eq_dec b 0) as [->|Hz]; [reflexivity|].
    apply (proj1 (N.log2_lt_pow2 b 6 ltac:(lia))). exact Hb. }
  destruct (N.eq_dec (N.lor a b) 0) as [E|E]; [rewrite E; reflexivity|].
  change 64 with (2 ^ 6). apply N.log2_lt_pow2; [lia|]. rewrite N.log2_lor. lia.
Qed.

Lemma bi_step_out k vo : k <= 5 -> snd vo < 64 -> snd (bi_step k vo) < 64.
Proof.
  intros Hk Ho. destruct vo as [v o]. unfold bi_step. cbn [snd] in Ho.
  destruct (negb _); cbn [snd]; [|exact Ho].
  apply lor_lt64; [exact Ho|]. change 64 with (2 ^ 6). apply pow2_lt_mono. lia.
Qed.

Lemma bit_index_lt64 v : bit_index v < 64.
Proof.
  destruct (N.eq_dec v 0) as [->|Hz]; [reflexivity|].
  rewrite bit_index_unfold by exact Hz.
  repeat (apply bi_step_out; [lia|]). cbn [snd]. lia.
Qed.

(* CoverDepth never exceeds 64, whatever the (unbounded) argument *)
Lemma cover_depth_le64 v : cover_depth v <= 64.
Proof.
  unfold cover_depth. destruct (_ || _); [lia|]. pose proof (bit_index_lt64 (v - 1)). lia.
Qed.

Lemma cover_depth_for v : v < 2 ^ 64 -> nat_of (cover_depth v) = depth_for v.
Proof. intros Hv. symmetry. apply depth_for_cover, Hv. Qed.

(* a cover depth that really covers is the spec depth (also at the uint64 boundary) *)
Lemma cover_depth_for_covered v :
  v <= 2 ^ N.of_nat (nat_of (cover_depth v)) -> nat_of (cover_depth v) = depth_for v.
Proof.
  intros Hc. destruct (N.lt_ge_cases v (2 ^ 64)) as [Hlt|Hge]; [apply cover_depth_for, Hlt|].
  unfold nat_of in Hc. rewrite N2Nat.id in Hc.
  assert (Hp : 2 ^ cover_depth v <= 2 ^ 64) by apply pow2_le_mono, cover_depth_le64.
  assert (v = 2 ^ 64) by lia. subst v. vm_compute. reflexivity.
Qed.

Lemma depth_for_bound v b : v <= 2 ^ b -> N.of_nat (depth_for v) <= b.
Proof.
  intros Hv. unfold depth_for, nat_of. rewrite N2Nat.id.
  destruct (N.eq_dec v 0) as [->|Hz]; [change (N.log2_up 0) with 0; lia|].
  apply N.log2_up_le_pow2; [lia|exact Hv].
Qed.

Lemma bits_bottom_count_spec n : n <= 2 ^ 56 -> bits_bottom_count n = (n + 255) / 256.
Proof.
  intros Hn. unfold bits_bottom_count, wrap64. rewrite two64_eq, N.shiftr_div_pow2.
  change (2 ^ 8) with 256. rewrite N.mod_small by lia. reflexivity.
Qed.

Lemma bottom_count_uint w n : uint_width_ok w = true -> n <= 2 ^ 56 ->
  bottom_count (TUint w) n = chunk_count_basic (TUint w) n.
Proof.
  intros Hw Hn. unfold uint_width_ok in Hw.
  assert (Hc : w = 1 \/ w = 2 \/ w = 4 \/ w = 8 \/ w = 32) by lia.
  unfold bottom_count, per_node, chunk_count_basic. cbn [info ti_size spec_fixed_len].
  unfold wrap64. rewrite two64_eq.
  destruct Hc as [->|[->|[->|[->| ->]]]].
  - change (32 / 1) with 32. rewrite N.mod_small by lia. lia.
  - change (32 / 2) with 16. rewrite N.mod_small by lia. lia.
  - change (32 / 4) with 8. rewrite N.mod_small by lia. lia.
  - change (32 / 8) with 4. rewrite N.mod_small by lia. lia.
  - change (32 / 32) with 1. rewrite N.mod_small by lia. lia.
Qed.

Lemma chunk_count_uint_bound w n : uint_width_ok w = true -> n <= 2 ^ 56 ->
  chunk_count_basic (TUint w) n <= 2 ^ 56.
Proof.
  intros Hw Hn. unfold uint_width_ok in Hw.
  assert (Hc : w = 1 \/ w = 2 \/ w = 4 \/ w = 8 \/ w = 32) by lia.
  unfold chunk_count_basic. cbn [spec_fixed_len].
  destruct Hc as [->|[->|[->|[->| ->]]]]; lia.
Qed.

Lemma cdepth_bitvector k : k <= 2 ^ 56 -> cdepth (TBitvector k) = depth_for ((k + 255) / 256).
Proof.
  intros Hk. change (cdepth (TBitvector k)) with (nat_of (cover_depth (bits_bottom_count k))).
  rewrite bits_bottom_count_spec by exact Hk. apply cover_depth_for. lia.
Qed.

Lemma cdepth_bitlist k : k <= 2 ^ 56 -> cdepth (TBitlist k) = depth_for ((k + 255) / 256).
Proof. exact (cdepth_bitvector k). Qed.

Lemma cdepth_vector_uint w k : uint_width_ok w = true -> k <= 2 ^ 56 ->
  cdepth (TVector (TUint w) k) = depth_for (chunk_count_basic (TUint w) k).
Proof.
  intros Hw Hk.
  change (cdepth (TVector (TUint w) k)) with (nat_of (cover_depth (bottom_count (TUint w) k))).
  rewrite bottom_count_uint by assumption. apply cover_depth_for.
  pose proof (chunk_count_uint_bound w k Hw Hk). lia.
Qed.

Lemma cdepth_list_uint w k : uint_width_ok w = true -> k <= 2 ^ 56 ->
  cdepth (TList (TUint w) k) = depth_for (chunk_count_basic (TUint w) k).
Proof. exact (cdepth_vector_uint w k). Qed.

Lemma cdepth_vector_nb e k : is_basic_elem e = false -> k <= 2 ^ 56 ->
  cdepth (TVector e k) = depth_for k.
Proof.
  intros Hb Hk. unfold cdepth, contents_depth. rewrite Hb. apply cover_depth_for. lia.
Qed.

Lemma cdepth_list_nb e k : is_basic_elem e = false -> k <= 2 ^ 56 ->
  cdepth (TList e k) = depth_for k.
Proof. exact (cdepth_vector_nb e k). Qed.

(* lists of element type e: what wf / small_params / no_bool_seq say about e *)
Lemma no_bool_seq_elem e : match e with TBool => false | _ => no_bool_seq e end = true ->
  e <> TBool /\ no_bool_seq e = true.
Proof. destruct e; intros Hn; try discriminate Hn; split; try exact Hn; discriminate. Qed.

(* ------------------------------------------------------------------------------------ *)
(** * 4. repr_root *)

Section Root.
Variable H : chunk -> chunk -> chunk.
Variable zh : nat -> chunk.
Hypothesis Hzh : forall d, zh d = zero_hash H d.

Lemma zh0 : zh 0 = zero_chunk.
Proof. rewrite Hzh. reflexivity. Qed.

Lemma series_chunks_root d cs n :
  series zh d (map is_chunk cs) n -> root_of H n = merkle_virtual H d cs.
Proof.
  apply (series_root' H zh Hzh).
  induction cs as [|c cs IH]; cbn [map]; constructor; [|exact IH].
  intros m Hm. unfold is_chunk in Hm. subst m. reflexivity.
Qed.

Lemma series_elems_root e d vs n :
  (forall v m, has_type v e = true -> repr zh e m v -> root_of H m = spec_htr H e v) ->
  forallb (fun x => has_type x e) vs = true ->
  series zh d (map (fun x m => repr zh e m x) vs) n ->
  root_of H n = merkle_virtual H d (map (spec_htr H e) vs).
Proof.
  intros IH Hty. apply (series_root' H zh Hzh).
  induction vs as [|v vs IHvs]; cbn [map]; constructor.
  - cbn [forallb] in Hty. apply andb_prop in Hty. intros m Hm. apply IH; [apply Hty|exact Hm].
  - apply IHvs. cbn [forallb] in Hty. apply andb_prop in Hty. apply Hty.
Qed.

Lemma mix_len_root c L : L < 2 ^ 64 ->
  root_of H (Pair c (len_leaf L)) = mix_in_length H (root_of H c) L.
Proof.
  intros HL. unfold mix_in_length, len_leaf. cbn [root_of]. rewrite pad32_le8 by exact HL.
  reflexivity.
Qed.

Definition root_stmt (t : ty) : Prop :=
  wf_ty t = true -> small_params t = true -> no_bool_seq t = true ->
  forall v n, has_type v t = true -> repr zh t n v -> root_of H n = spec_htr H t v.

Lemma fields_root fs : Forall root_stmt fs ->
  forallb wf_ty fs = true -> forallb small_params fs = true -> forallb no_bool_seq fs = true ->
  forall vs, rfields_ty fs vs = true ->
  Forall2 (fun (p : node -> Prop) r => forall m, p m -> root_of H m = r)
          (rfields_repr zh fs vs) (rfields_htr H fs vs) /\
  lenN (rfields_repr zh fs vs) = lenN fs.
Proof.
  induction 1 as [|f fs Hf _ IH]; intros Hwf Hsp Hnb vs Hty.
  - destruct vs; [|discriminate Hty]. split; [constructor|reflexivity].
  - destruct vs as [|x vs]; [discriminate Hty|].
    cbn [forallb rfields_ty] in *.
    apply andb_prop in Hwf, Hsp, Hnb, Hty.
    destruct Hwf as [Hwf1 Hwf2], Hsp as [Hsp1 Hsp2], Hnb as [Hnb1 Hnb2], Hty as [Hty1 Hty2].
    destruct (IH Hwf2 Hsp2 Hnb2 vs Hty2) as [IHa IHb].
    cbn [rfields_repr rfields_htr]. split.
    + constructor; [|exact IHa]. intros m Hm. exact (Hf Hwf1 Hsp1 Hnb1 x m Hty1 Hm).
    + unfold lenN in *. cbn [length]. lia.
Qed.

Ltac dval v Hty := destruct v; try (cbn [has_type] in Hty; discriminate Hty).

Theorem repr_root : forall t v n,
  wf_ty t = true -> small_params t = true -> no_bool_seq t = true ->
  has_type v t = true -> repr zh t n v -> root_of H n = spec_htr H t v.
Proof.
  intros t v n Hwf Hsp Hnb Hty Hr. revert t Hwf Hsp Hnb v n Hty Hr. fold root_stmt.
  induction t as [w| |k| |k|k|e k IHe|e k IHe|fs IHfs|none opts IHopts] using ty_nind;
    intros Hwf Hsp Hnb v n Hty Hr.
  - (* uint *) dval v Hty. cbn [repr] in Hr. subst n. reflexivity.
  - (* bool *) dval v Hty. cbn [repr] in Hr. subst n. destruct b; reflexivity.
  - (* bytes *) dval v Hty. cbn [repr] in Hr. subst n. reflexivity.
  - (* root *) dval v Hty. cbn [repr] in Hr. subst n. reflexivity.
  - (* bitvector *)
    dval v Hty. cbn [small_params] in Hsp. apply N.leb_le in Hsp.
    cbn [repr] in Hr. cbn [spec_htr]. rewrite (series_chunks_root _ _ _ Hr).
    rewrite cdepth_bitvector by exact Hsp. reflexivity.
  - (* bitlist *)
    dval v Hty. cbn [small_params] in Hsp. apply N.leb_le in Hsp.
    cbn [has_type] in Hty. apply N.leb_le in Hty. fold (lenN bs) in Hty.
    cbn [repr] in Hr. destruct Hr as (c & -> & Hc). cbn [spec_htr].
    rewrite mix_len_root by lia. rewrite (series_chunks_root _ _ _ Hc).
    rewrite cdepth_bitlist by exact Hsp. reflexivity.
  - (* vector *)
    dval v Hty. cbn [wf_ty small_params no_bool_seq has_type] in Hwf, Hsp, Hnb, Hty.
    apply andb_prop in Hwf, Hsp, Hty.
    destruct Hwf as [_ Hwfe], Hsp as [Hk Hspe], Hty as [_ Htys]. apply N.leb_le in Hk.
    apply no_bool_seq_elem in Hnb. destruct Hnb as [Hnbool Hnbe].
    rewrite repr_vector in Hr. rewrite spec_htr_vector.
    destruct (elem_cases e) as [[w ->]|[->|[Hb1 Hb2]]]; [| congruence |].
    + cbn [is_basic_elem] in Hr. cbn [spec_basic]. rewrite (series_chunks_root _ _ _ Hr).
      rewrite cdepth_vector_uint by assumption. reflexivity.
    + rewrite Hb1 in Hr. rewrite Hb2.
      rewrite (series_elems_root e _ vs n (fun v m => IHe Hwfe Hspe Hnbe v m) Htys Hr).
      rewrite cdepth_vector_nb by assumption. reflexivity.
  - (* list *)
    dval v Hty. cbn [wf_ty small_params no_bool_seq has_type] in Hwf, Hsp, Hnb, Hty.
    apply andb_prop in Hsp, Hty.
    destruct Hsp as [Hk Hspe], Hty as [Hlen Htys]. apply N.leb_le in Hk, Hlen.
    fold (lenN vs) in Hlen.
    apply no_bool_seq_elem in Hnb. destruct Hnb as [Hnbool Hnbe].
    rewrite repr_list in Hr. destruct Hr as (c & -> & Hc). rewrite spec_htr_list.
    rewrite mix_len_root by lia.
    destruct (elem_cases e) as [[w ->]|[->|[Hb1 Hb2]]]; [| congruence |].
    + cbn [is_basic_elem] in Hc. cbn [spec_basic]. rewrite (series_chunks_root _ _ _ Hc).
      rewrite cdepth_list_uint by assumption. reflexivity.
    + rewrite Hb1 in Hc. rewrite Hb2.
      rewrite (series_elems_root e _ vs c (fun v m => IHe Hwf Hspe Hnbe v m) Htys Hc).
      rewrite cdepth_list_nb by assumption. reflexivity.
  - (* container *)
    dval v Hty. rewrite has_type_cont in Hty. rewrite repr_cont in Hr. rewrite spec_htr_cont.
    cbn [wf_ty small_params no_bool_seq] in Hwf, Hsp, Hnb.
    apply andb_prop in Hwf. destruct Hwf as [_ Hwf].
    destruct (fields_root fs IHfs Hwf Hsp Hnb vs Hty) as [HF Hlen].
    rewrite (series_root' H zh Hzh _ _ _ _ HF Hr).
    pose proof (series_length zh _ _ _ Hr) as Hcov. rewrite Hlen in Hcov.
    unfold merkleize_spec. f_equal.
    change (cdepth (TContainer fs)) with (nat_of (cover_depth (lenN fs))) in *.
    apply cover_depth_for_covered, Hcov.
  - (* union *)
    dval v Hty. rewrite has_type_union in Hty. rewrite repr_union in Hr.
    rewrite spec_htr_union. destruct Hr as (c & -> & Hc).
    cbn [wf_ty small_params no_bool_seq] in Hwf, Hsp, Hnb.
    apply andb_prop in Hwf. destruct Hwf as [Hwf Hwfo].
    apply andb_prop in Hwf. destruct Hwf as [_ Hcnt]. apply N.leb_le in Hcnt.
    unfold union_count in Hcnt.
    unfold mix_in_selector. cbn [root_of].
    rewrite rpick_nth_error in Hty.
    destruct (none && (sel =? 0)) eqn:Enone.
    + destruct v as [x|]; [discriminate Hty|]. subst c.
      apply andb_prop in Enone. destruct Enone as [_ Es]. apply N.eqb_eq in Es. subst sel.
      reflexivity.
    + set (k := nat_of (if none then sel - 1 else sel)) in *.
      destruct (nth_error opts k) as [o|] eqn:Eo; [|discriminate Hty].
      destruct v as [x|]; [|discriminate Hty].
      rewrite rpick_nth_error, Eo in Hc. rewrite rpick_nth_error, Eo.
      assert (Hin : In o opts) by (eapply nth_error_In; exact Eo).
      assert (Hk : (k < length opts)%nat) by (apply nth_error_Some; congruence).
      rewrite Forall_forall in IHopts. rewrite forallb_forall in Hwfo, Hsp, Hnb.
      rewrite (IHopts o Hin (Hwfo o Hin) (Hsp o Hin) (Hnb o Hin) x c Hty Hc).
      rewrite pad32_sel; [reflexivity|].
      subst k. unfold nat_of in Hk. destruct none; lia.
Qed.

End Root.

(* ------------------------------------------------------------------------------------ *)
(** * 5. from_val_repr: the constructors are total on typed values *)

Lemma Forall_firstn' {A} (P : A -> Prop) l : forall k, Forall P l -> Forall P (firstn k l).
Proof.
  induction l as [|x l IH]; intros [|k] HF; cbn [firstn]; try constructor.
  - inversion HF; assumption.
  - apply IH. inversion HF; assumption.
Qed.

Lemma Forall_skipn' {A} (P : A -> Prop) l : forall k, Forall P l -> Forall P (skipn k l).
Proof.
  induction l as [|x l IH]; intros [|k] HF; cbn [skipn]; try assumption.
  apply IH. inversion HF; assumption.
Qed.

Lemma map_repeat' {A B} (f : A -> B) x k : map f (repeat x k) = repeat (f x) k.
Proof. induction k as [|k IH]; cbn [repeat map]; [reflexivity|]. rewrite IH. reflexivity. Qed.

Lemma lenN_firstn {A} (l : list A) k : lenN (firstn k l) = N.min (N.of_nat k) (lenN l).
Proof. unfold lenN. rewrite firstn_length. lia. Qed.

Lemma lenN_skipn {A} (l : list A) k : lenN (skipn k l) = lenN l - N.of_nat k.
Proof. unfold lenN. rewrite skipn_length. lia. Qed.

Lemma lenN_flat_map_uint w vs :
  forallb (fun x => has_type x (TUint w)) vs = true ->
  lenN (flat_map (spec_ser (TUint w)) vs) = lenN vs * w.
Proof.
  intros Hty. unfold lenN. rewrite flat_map_uint_length by exact Hty. unfold nat_of.
  rewrite Nat2N.inj_mul, N2Nat.id. reflexivity.
Qed.

Section Build.
Variable H : chunk -> chunk -> chunk.
Variable zh : nat -> chunk.
Hypothesis Hzh : forall d, zh d = zero_hash H d.

Let zh0' : zh 0 = zero_chunk := zh0 H zh Hzh.

(* SubtreeFillToContents over nodes that satisfy the predicates *)
Lemma fill_series d ns (ps : list (node -> Prop)) :
  N.of_nat d < 64 -> lenN ns <= 2 ^ N.of_nat d ->
  Forall2 (fun n (p : node -> Prop) => p n) ns ps ->
  exists n, fill_to_contents zh ns d = OK n /\ series zh d ps n.
Proof.
  intros Hd Hl HF. destruct (fill_to_contents_series zh d ns Hd Hl) as (n & E & S).
  exists n. split; [exact E|]. eapply series_mono; [|exact S].
  clear - HF. induction HF as [|x p ns' ps' Hp _ IH]; cbn [map].
  - constructor.
  - constructor; [|exact IH]. intros m ->. exact Hp.
Qed.

Lemma leaves_chunks cs :
  Forall2 (fun n (p : node -> Prop) => p n) (map Leaf cs) (map is_chunk cs).
Proof.
  induction cs as [|c cs IH]; cbn [map]; [constructor|].
  constructor; [reflexivity|exact IH].
Qed.

Lemma fill_chunks d cs :
  N.of_nat d < 64 -> lenN cs <= 2 ^ N.of_nat d ->
  exists n, fill_to_contents zh (map Leaf cs) d = OK n /\ series zh d (map is_chunk cs) n.
Proof.
  intros Hd Hl. apply fill_series; [exact Hd| |apply leaves_chunks].
  rewrite lenN_map. exact Hl.
Qed.

Definition from_stmt (t : ty) : Prop :=
  wf_ty t = true -> small_params t = true -> small_fields t = true ->
  forall v, has_type v t = true -> exists n, from_val zh t v = OK n /\ repr zh t n v.

Lemma mapM_from e vs :
  (forall v, has_type v e = true -> exists n, from_val zh e v = OK n /\ repr zh e n v) ->
  forallb (fun x => has_type x e) vs = true ->
  exists ns, mapM (from_val zh e) vs = OK ns /\
             Forall2 (fun n (p : node -> Prop) => p n) ns (map (fun x m => repr zh e m x) vs) /\
             lenN ns = lenN vs.
Proof.
  intros IH. induction vs as [|v vs IHvs]; intros Hty.
  - exists []. repeat split. constructor.
  - cbn [forallb] in Hty. apply andb_prop in Hty. destruct Hty as [Hv Hvs].
    destruct (IH v Hv) as (n & En & Rn). destruct (IHvs Hvs) as (ns & Ens & Rns & Hl).
    exists (n :: ns). cbn [mapM map]. rewrite En. cbn [bind]. rewrite Ens. cbn [bind].
    repeat split; [constructor; assumption|]. unfold lenN in *. cbn [length]. lia.
Qed.

Lemma fields_from fs : Forall from_stmt fs ->
  forallb wf_ty fs = true -> forallb small_params fs = true -> forallb small_fields fs = true ->
  forall vs, rfields_ty fs vs = true ->
  exists ns, rfields_from zh fs vs = OK ns /\
             Forall2 (fun n (p : node -> Prop) => p n) ns (rfields_repr zh fs vs) /\
             lenN ns = lenN fs /\ length fs = length vs.
Proof.
  induction 1 as [|f fs Hf _ IH]; intros Hwf Hsp Hsf vs Hty.
  - destruct vs; [|discriminate Hty]. exists []. repeat split. constructor.
  - destruct vs as [|x vs]; [discriminate Hty|].
    cbn [forallb rfields_ty] in *.
    apply andb_prop in Hwf, Hsp, Hsf, Hty.
    destruct Hwf as [Hwf1 Hwf2], Hsp as [Hsp1 Hsp2], Hsf as [Hsf1 Hsf2], Hty as [Hty1 Hty2].
    destruct (IH Hwf2 Hsp2 Hsf2 vs Hty2) as (ns & Ens & Rns & Hl & Hl').
    destruct (Hf Hwf1 Hsp1 Hsf1 x Hty1) as (n & En & Rn).
    exists (n :: ns). cbn [rfields_from rfields_repr]. rewrite En. cbn [bind]. rewrite Ens.
    cbn [bind]. repeat split; [constructor; assumption| |cbn [length]; lia].
    unfold lenN in *. cbn [length]. lia.
Qed.

Ltac dval v Hty := destruct v; try (cbn [has_type] in Hty; discriminate Hty).

Theorem from_val_repr : forall t v,
  wf_ty t = true -> small_params t = true -> small_fields t = true -> has_type v t = true ->
  exists n, from_val zh t v = OK n /\ repr zh t n v.
Proof.
  intros t v Hwf Hsp Hsf Hty. revert t Hwf Hsp Hsf v Hty. fold from_stmt.
  induction t as [w| |k| |k|k|e k IHe|e k IHe|fs IHfs|none opts IHopts] using ty_nind;
    intros Hwf Hsp Hsf v Hty.
  - dval v Hty. eexists. split; reflexivity.
  - dval v Hty. cbn [from_val basic_chunk bind repr]. rewrite zh0'. eexists. split; reflexivity.
  - dval v Hty. eexists. split; reflexivity.
  - dval v Hty. eexists. split; reflexivity.
  - (* bitvector *)
    dval v Hty. cbn [small_params] in Hsp. apply N.leb_le in Hsp.
    cbn [has_type] in Hty. cbn [from_val repr]. rewrite Hty. cbn [negb].
    apply N.eqb_eq in Hty. fold (lenN bs) in Hty.
    fold (cdepth (TBitvector k)). fold (bit_chunks bs).
    rewrite cdepth_bitvector by exact Hsp.
    apply fill_chunks.
    + pose proof (depth_for_bound ((k + 255) / 256) 48 ltac:(lia)). lia.
    + rewrite bit_chunks_lenN, Hty. apply depth_for_ge.
  - (* bitlist *)
    dval v Hty. cbn [small_params] in Hsp. apply N.leb_le in Hsp.
    cbn [has_type] in Hty. apply N.leb_le in Hty.
    cbn [from_val repr]. rewrite (proj2 (N.ltb_ge k (N.of_nat (length bs))) Hty).
    fold (lenN bs) in *. fold (cdepth (TBitlist k)). fold (bit_chunks bs).
    destruct (fill_chunks (cdepth (TBitlist k)) (bit_chunks bs)) as (c & Ec & Sc).
    + rewrite cdepth_bitlist by exact Hsp.
      pose proof (depth_for_bound ((k + 255) / 256) 48 ltac:(lia)). lia.
    + rewrite cdepth_bitlist by exact Hsp. rewrite bit_chunks_lenN.
      pose proof (depth_for_ge ((k + 255) / 256)). lia.
    + rewrite Ec. cbn [bind]. eexists. split; [reflexivity|]. exists c. split; [reflexivity|exact Sc].
  - (* vector *)
    dval v Hty. cbn [wf_ty small_params small_fields has_type] in Hwf, Hsp, Hsf, Hty.
    apply andb_prop in Hwf, Hsp, Hty.
    destruct Hwf as [_ Hwfe], Hsp as [Hk Hspe], Hty as [Hlen Htys]. apply N.leb_le in Hk.
    destruct (elem_cases e) as [[w ->]|Hnb].
    + rewrite from_val_vector_uint.
      apply N.eqb_eq in Hlen. fold (lenN vs) in Hlen.
      fold (lenN vs). rewrite (proj2 (N.ltb_ge k (lenN vs))) by lia.
      rewrite pack_uints_typed by exact Htys. cbn [bind].
      cbn [wf_ty] in Hwfe.
      destruct (fill_chunks (cdepth (TVector (TUint w) k))
                            (chunkify (flat_map (spec_ser (TUint w)) vs))) as (c & Ec & Sc).
      * rewrite cdepth_vector_uint by assumption.
        pose proof (chunk_count_uint_bound w k Hwfe Hk).
        pose proof (depth_for_bound (chunk_count_basic (TUint w) k) 56 ltac:(lia)). lia.
      * rewrite cdepth_vector_uint by assumption.
        rewrite chunkify_lenN, lenN_flat_map_uint, Hlen by exact Htys.
        apply depth_for_ge.
      * exists c. split; [exact Ec|]. rewrite repr_vector. exact Sc.
    + assert (Hb : is_basic_elem e = false) by (destruct Hnb as [->|[Hb _]]; [reflexivity|exact Hb]).
      rewrite from_val_vector_nb by exact Hb. rewrite Hlen. cbn [negb].
      apply N.eqb_eq in Hlen. fold (lenN vs) in Hlen.
      destruct (mapM_from e vs (IHe Hwfe Hspe Hsf) Htys) as (ns & Ens & Rns & Hl).
      rewrite Ens. cbn [bind].
      pose proof (fun a b => fill_series (cdepth (TVector e k)) ns _ a b Rns) as Hfill.
      destruct Hfill as (c & Ec & Sc).
      * rewrite cdepth_vector_nb by assumption. pose proof (depth_for_bound k 56 Hk). lia.
      * rewrite cdepth_vector_nb by assumption. rewrite Hl, Hlen. apply depth_for_ge.
      * exists c. split; [exact Ec|]. rewrite repr_vector, Hb. exact Sc.
  - (* list *)
    dval v Hty. cbn [wf_ty small_params small_fields has_type] in Hwf, Hsp, Hsf, Hty.
    apply andb_prop in Hsp, Hty.
    destruct Hsp as [Hk Hspe], Hty as [Hlen Htys]. apply N.leb_le in Hk, Hlen.
    fold (lenN vs) in Hlen.
    destruct (elem_cases e) as [[w ->]|Hnb].
    + rewrite from_val_list_uint.
      fold (lenN vs). rewrite (proj2 (N.ltb_ge k (lenN vs))) by lia.
      rewrite pack_uints_typed by exact Htys. cbn [bind].
      cbn [wf_ty] in Hwf.
      destruct (fill_chunks (cdepth (TList (TUint w) k))
                            (chunkify (flat_map (spec_ser (TUint w)) vs))) as (c & Ec & Sc).
      * rewrite cdepth_list_uint by assumption.
        pose proof (chunk_count_uint_bound w k Hwf Hk).
        pose proof (depth_for_bound (chunk_count_basic (TUint w) k) 56 ltac:(lia)). lia.
      * rewrite cdepth_list_uint by assumption.
        rewrite chunkify_lenN, lenN_flat_map_uint by exact Htys.
        pose proof (depth_for_ge (chunk_count_basic (TUint w) k)) as Hge.
        unfold chunk_count_basic in *. cbn [spec_fixed_len] in *.
        assert (lenN vs * w <= k * w) by (apply N.mul_le_mono_r; exact Hlen).
        lia.
      * rewrite Ec. cbn [bind]. eexists. split; [reflexivity|]. rewrite repr_list.
        exists c. split; [reflexivity|exact Sc].
    + assert (Hb : is_basic_elem e = false) by (destruct Hnb as [->|[Hb _]]; [reflexivity|exact Hb]).
      rewrite from_val_list_nb by exact Hb.
      fold (lenN vs). rewrite (proj2 (N.ltb_ge k (lenN vs))) by lia.
      destruct (mapM_from e vs (IHe Hwf Hspe Hsf) Htys) as (ns & Ens & Rns & Hl).
      rewrite Ens. cbn [bind].
      pose proof (fun a b => fill_series (cdepth (TList e k)) ns _ a b Rns) as Hfill.
      destruct Hfill as (c & Ec & Sc).
      * rewrite cdepth_list_nb by assumption. pose proof (depth_for_bound k 56 Hk). lia.
      * rewrite cdepth_list_nb by assumption. pose proof (depth_for_ge k). lia.
      * rewrite Ec. cbn [bind]. eexists. split; [reflexivity|]. rewrite repr_list, Hb.
        exists c. split; [reflexivity|exact Sc].
  - (* container *)
    dval v Hty. rewrite has_type_cont in Hty. rewrite from_val_cont.
    cbn [wf_ty small_params small_fields] in Hwf, Hsp, Hsf.
    apply andb_prop in Hwf, Hsf. destruct Hwf as [_ Hwf], Hsf as [Hcnt Hsf].
    apply N.leb_le in Hcnt.
    destruct (fields_from fs IHfs Hwf Hsp Hsf vs Hty) as (ns & Ens & Rns & Hl & Hl').
    rewrite Hl', Nat.eqb_refl. cbn [negb]. rewrite Ens. cbn [bind].
    assert (Hd : cdepth (TContainer fs) = depth_for (lenN fs)).
    { change (cdepth (TContainer fs)) with (nat_of (cover_depth (lenN fs))).
      apply cover_depth_for. lia. }
    pose proof (fun a b => fill_series (cdepth (TContainer fs)) ns _ a b Rns) as Hfill.
      destruct Hfill as (c & Ec & Sc).
    + rewrite Hd. pose proof (depth_for_bound (lenN fs) 63 Hcnt). lia.
    + rewrite Hd, Hl. apply depth_for_ge.
    + exists c. split; [exact Ec|]. rewrite repr_cont. exact Sc.
  - (* union *)
    dval v Hty. rewrite has_type_union in Hty. rewrite from_val_union.
    cbn [wf_ty small_params small_fields] in Hwf, Hsp, Hsf.
    apply andb_prop in Hwf. destruct Hwf as [_ Hwfo].
    rewrite rpick_nth_error in Hty.
    destruct (none && (sel =? 0)) eqn:Enone.
    + destruct v as [x|]; [discriminate Hty|]. cbn [bind]. eexists. split; [reflexivity|].
      rewrite repr_union. eexists. split; reflexivity.
    + set (k := nat_of (if none then sel - 1 else sel)) in *.
      destruct (nth_error opts k) as [o|] eqn:Eo; [|discriminate Hty].
      destruct v as [x|]; [|discriminate Hty].
      assert (Hin : In o opts) by (eapply nth_error_In; exact Eo).
      rewrite Forall_forall in IHopts. rewrite forallb_forall in Hwfo, Hsp, Hsf.
      destruct (IHopts o Hin (Hwfo o Hin) (Hsp o Hin) (Hsf o Hin) x Hty) as (c & Ec & Rc).
      rewrite rpick_nth_error, Eo, Ec. cbn [bind]. eexists. split; [reflexivity|].
      rewrite repr_union. exists c. split; [reflexivity|].
      fold k. rewrite rpick_nth_error, Eo. exact Rc.
Qed.

End Build.

(* ------------------------------------------------------------------------------------ *)
(** * 6. Defaults *)

Section DefaultViews.
  Variable zh : nat -> chunk.
  Lemma default_node_vector e k :
    default_node zh (TVector e k) =
    if is_basic_elem e then OK (fill_to_depth (Leaf (zh 0)) (cdepth (TVector e k)))
    else do d <- default_node zh e; fill_to_length zh d (cdepth (TVector e k)) k.
  Proof. reflexivity. Qed.
  Lemma default_node_cont fs :
    default_node zh (TContainer fs) =
    do ns <- mapM (default_node zh) fs; fill_to_contents zh ns (cdepth (TContainer fs)).
  Proof. reflexivity. Qed.
  Lemma default_node_union none opts :
    default_node zh (TUnion none opts) =
    if none then OK (Pair (Leaf zero_chunk) (Leaf zero_chunk))
    else match opts with
         | o :: _ => do d <- default_node zh o; OK (Pair d (Leaf zero_chunk))
         | [] => Panic
         end.
  Proof. reflexivity. Qed.
End DefaultViews.

Lemma has_type_default t : wf_ty t = true -> has_type (default_val t) t = true.
Proof.
  induction t as [w| |k| |k|k|e k IHe|e k IHe|fs IHfs|none opts IHopts] using ty_nind;
    intros Hwf; cbn [default_val].
  - cbn [has_type]. apply N.ltb_lt. apply pow2_pos.
  - reflexivity.
  - cbn [has_type]. unfold zero_bytes, nat_of. rewrite repeat_length, N2Nat.id. apply N.eqb_refl.
  - reflexivity.
  - cbn [has_type]. unfold nat_of. rewrite repeat_length, N2Nat.id. apply N.eqb_refl.
  - cbn [has_type length]. apply N.leb_le. lia.
  - cbn [wf_ty] in Hwf. apply andb_prop in Hwf. destruct Hwf as [_ Hwfe].
    cbn [has_type]. unfold nat_of. rewrite repeat_length, N2Nat.id, N.eqb_refl. cbn [andb].
    apply forallb_forall. intros x Hx. apply repeat_spec in Hx. subst x. apply IHe, Hwfe.
  - cbn [has_type length forallb]. rewrite andb_true_r. apply N.leb_le. lia.
  - cbn [wf_ty] in Hwf. apply andb_prop in Hwf. destruct Hwf as [_ Hwf].
    rewrite has_type_cont. induction IHfs as [|f fs Hf _ IH]; [reflexivity|].
    cbn [forallb] in Hwf. apply andb_prop in Hwf. destruct Hwf as [Hwf1 Hwf2].
    cbn [map rfields_ty]. rewrite (Hf Hwf1), (IH Hwf2). reflexivity.
  - cbn [wf_ty] in Hwf. apply andb_prop in Hwf. destruct Hwf as [Hwf Hwfo].
    apply andb_prop in Hwf. destruct Hwf as [Hne _].
    destruct none; [reflexivity|].
    destruct opts as [|o opts]; [discriminate Hne|].
    rewrite has_type_union. cbn [andb]. change (nat_of 0) with O. cbn [rpick].
    inversion IHopts as [|? ? Ho _]; subst. apply Ho.
    cbn [forallb] in Hwfo. apply andb_prop in Hwfo. apply Hwfo.
Qed.

Section Default.
Variable H : chunk -> chunk -> chunk.
Variable zh : nat -> chunk.
Hypothesis Hzh : forall d, zh d = zero_hash H d.

Let zh0' : zh 0 = zero_chunk := zh0 H zh Hzh.

(* a fully materialised zero tree is a series of any predicates that hold of the zero chunk *)
Lemma series_fill_zeros d : forall ps : list (node -> Prop),
  lenN ps <= 2 ^ N.of_nat d -> Forall (fun p : node -> Prop => p (Leaf (zh 0))) ps ->
  series zh d ps (fill_to_depth (Leaf (zh 0)) d).
Proof.
  induction d as [|d IH]; intros ps Hl HF.
  - cbn [fill_to_depth]. destruct ps as [|p ps]; [apply series_nil, ztree_leaf|].
    apply series_0. rewrite pow2N_0 in Hl. unfold lenN in Hl. cbn [length] in Hl.
    destruct ps; [|cbn [length] in Hl; lia]. split; [reflexivity|]. inversion HF; assumption.
  - cbn [fill_to_depth]. apply series_pair.
    destruct (lenN ps <=? 2 ^ N.of_nat d) eqn:E.
    + apply N.leb_le in E. split; [apply IH; assumption|apply ztree_fill].
    + apply N.leb_gt in E. rewrite pow2N_S in Hl. unfold nat_of. split; apply IH.
      * rewrite lenN_firstn, N2Nat.id. lia.
      * apply Forall_firstn', HF.
      * rewrite lenN_skipn, N2Nat.id. lia.
      * apply Forall_skipn', HF.
Qed.

Lemma zero_chunks_preds cs : Forall (eq zero_chunk) cs ->
  Forall (fun p : node -> Prop => p (Leaf (zh 0))) (map is_chunk cs).
Proof.
  induction 1 as [|c cs Hc _ IH]; cbn [map]; constructor; [|exact IH].
  unfold is_chunk. rewrite zh0', Hc. reflexivity.
Qed.

Definition default_stmt (t : ty) : Prop :=
  wf_ty t = true -> small_params t = true -> small_fields t = true ->
  exists n, default_node zh t = OK n /\ repr zh t n (default_val t).

Lemma len_leaf_0 : len_leaf 0 = Leaf (zh 0).
Proof. rewrite zh0'. reflexivity. Qed.

Lemma fields_default fs : Forall default_stmt fs ->
  forallb wf_ty fs = true -> forallb small_params fs = true -> forallb small_fields fs = true ->
  exists ns, mapM (default_node zh) fs = OK ns /\
             Forall2 (fun n (p : node -> Prop) => p n) ns (rfields_repr zh fs (map default_val fs)) /\
             lenN ns = lenN fs.
Proof.
  induction 1 as [|f fs Hf _ IH]; intros Hwf Hsp Hsf.
  - exists []. repeat split. constructor.
  - cbn [forallb] in *. apply andb_prop in Hwf, Hsp, Hsf.
    destruct Hwf as [Hwf1 Hwf2], Hsp as [Hsp1 Hsp2], Hsf as [Hsf1 Hsf2].
    destruct (IH Hwf2 Hsp2 Hsf2) as (ns & Ens & Rns & Hl).
    destruct (Hf Hwf1 Hsp1 Hsf1) as (n & En & Rn).
    exists (n :: ns). cbn [mapM map rfields_repr]. rewrite En. cbn [bind]. rewrite Ens. cbn [bind].
    repeat split; [constructor; assumption|]. unfold lenN in *. cbn [length]. lia.
Qed.

Theorem default_repr : forall t,
  wf_ty t = true -> small_params t = true -> small_fields t = true ->
  exists n, default_node zh t = OK n /\ repr zh t n (default_val t).
Proof.
  fold default_stmt.
  induction t as [w| |k| |k|k|e k IHe|e k IHe|fs IHfs|none opts IHopts] using ty_nind;
    intros Hwf Hsp Hsf.
  - eexists. split; [reflexivity|]. cbn [default_val repr]. unfold zleaf.
    rewrite le_bytes_0, pad32_zeros. change (nat_of 0) with O. rewrite zh0'. reflexivity.
  - eexists. split; [reflexivity|]. cbn [default_val repr]. unfold zleaf.
    change (nat_of 0) with O. rewrite zh0'. reflexivity.
  - eexists. split; [reflexivity|]. cbn [default_val repr]. unfold zleaf, zero_bytes.
    rewrite pad32_zeros. change (nat_of 0) with O. rewrite zh0'. reflexivity.
  - eexists. split; [reflexivity|]. cbn [default_val repr]. unfold zleaf, zero_bytes.
    rewrite pad32_zeros. change (nat_of 0) with O. rewrite zh0'. reflexivity.
  - (* bitvector *)
    cbn [small_params] in Hsp. apply N.leb_le in Hsp.
    eexists. split; [reflexivity|]. cbn [default_val repr]. unfold zleaf.
    change (nat_of 0) with O. fold (cdepth (TBitvector k)).
    apply series_fill_zeros; [|apply zero_chunks_preds, bit_chunks_false].
    rewrite lenN_map, bit_chunks_lenN, lenN_repeat. unfold nat_of. rewrite N2Nat.id.
    rewrite cdepth_bitvector by exact Hsp. apply depth_for_ge.
  - (* bitlist *)
    eexists. split; [reflexivity|]. cbn [default_val repr].
    exists (zleaf zh (contents_depth (TBitlist k))). split.
    + unfold zleaf at 2. change (nat_of 0) with O. rewrite <- len_leaf_0. reflexivity.
    + apply series_nil. apply ztree_leaf.
  - (* vector *)
    cbn [wf_ty small_params small_fields] in Hwf, Hsp, Hsf.
    apply andb_prop in Hwf, Hsp.
    destruct Hwf as [Hk1 Hwfe], Hsp as [Hk Hspe]. apply N.leb_le in Hk, Hk1.
    rewrite default_node_vector. cbn [default_val].
    destruct (elem_cases e) as [[w ->]|Hnb].
    + cbn [is_basic_elem]. eexists. split; [reflexivity|]. rewrite repr_vector.
      cbn [is_basic_elem wf_ty] in *.
      apply series_fill_zeros.
      * rewrite lenN_map. unfold packed_chunks. rewrite chunkify_lenN.
        cbn [default_val].
        rewrite lenN_flat_map_uint.
        -- rewrite lenN_repeat. unfold nat_of. rewrite N2Nat.id.
           rewrite cdepth_vector_uint by assumption. apply depth_for_ge.
        -- apply forallb_forall. intros x Hx. apply repeat_spec in Hx. subst x.
           apply (has_type_default (TUint w)). exact Hwfe.
      * apply zero_chunks_preds. unfold packed_chunks. cbn [default_val].
        destruct (flat_map_uint0 w (nat_of k)) as [m ->]. apply chunkify_zeros.
    + assert (Hb : is_basic_elem e = false) by (destruct Hnb as [->|[Hb _]]; [reflexivity|exact Hb]).
      rewrite Hb. destruct (IHe Hwfe Hspe Hsf) as (d0 & Ed & Rd). rewrite Ed. cbn [bind].
      destruct (fill_to_length_series zh d0 (cdepth (TVector e k)) k) as (n & En & Sn).
      * rewrite cdepth_vector_nb by assumption. pose proof (depth_for_bound k 56 Hk). lia.
      * lia.
      * rewrite cdepth_vector_nb by assumption. apply depth_for_ge.
      * exists n. split; [exact En|]. rewrite repr_vector, Hb.
        eapply series_mono; [|exact Sn]. rewrite map_repeat'. apply Forall2_repeat'.
        intros m ->. exact Rd.
  - (* list *)
    eexists. split; [reflexivity|]. cbn [default_val]. rewrite repr_list.
    exists (zleaf zh (contents_depth (TList e k))). split.
    + unfold zleaf at 2. change (nat_of 0) with O. rewrite <- len_leaf_0. reflexivity.
    + cbn [map]. destruct (is_basic_elem e); apply series_nil, ztree_leaf.
  - (* container *)
    cbn [wf_ty small_params small_fields] in Hwf, Hsp, Hsf.
    apply andb_prop in Hwf, Hsf. destruct Hwf as [_ Hwf], Hsf as [Hcnt Hsf].
    apply N.leb_le in Hcnt.
    destruct (fields_default fs IHfs Hwf Hsp Hsf) as (ns & Ens & Rns & Hl).
    rewrite default_node_cont, Ens. cbn [bind default_val].
    assert (Hd : cdepth (TContainer fs) = depth_for (lenN fs)).
    { change (cdepth (TContainer fs)) with (nat_of (cover_depth (lenN fs))).
      apply cover_depth_for. lia. }
    pose proof (fun a b => fill_series zh (cdepth (TContainer fs)) ns _ a b Rns) as Hfill.
    destruct Hfill as (c & Ec & Sc).
    + rewrite Hd. pose proof (depth_for_bound (lenN fs) 63 Hcnt). lia.
    + rewrite Hd, Hl. apply depth_for_ge.
    + exists c. split; [exact Ec|]. rewrite repr_cont. exact Sc.
  - (* union *)
    cbn [wf_ty small_params small_fields] in Hwf, Hsp, Hsf.
    apply andb_prop in Hwf. destruct Hwf as [Hwf Hwfo].
    apply andb_prop in Hwf. destruct Hwf as [Hne _].
    rewrite default_node_union. cbn [default_val]. destruct none.
    + eexists. split; [reflexivity|]. rewrite repr_union. eexists. split; reflexivity.
    + destruct opts as [|o opts]; [discriminate Hne|].
      cbn [forallb] in Hwfo, Hsp, Hsf. apply andb_prop in Hwfo, Hsp, Hsf.
      inversion IHopts as [|? ? Ho _]; subst.
      destruct (Ho (proj1 Hwfo) (proj1 Hsp) (proj1 Hsf)) as (d0 & Ed & Rd).
      rewrite Ed. cbn [bind]. eexists. split; [reflexivity|]. rewrite repr_union.
      exists d0. split; [reflexivity|]. change (nat_of 0) with O. cbn [rpick]. exact Rd.
Qed.

End Default.

(* ------------------------------------------------------------------------------------ *)
(** * 7. Corollaries *)

Section Corollaries.
Variable H : chunk -> chunk -> chunk.
Variable zh : nat -> chunk.
Hypothesis Hzh : forall d, zh d = zero_hash H d.

(* the constructors succeed on every typed value and the resulting view has the spec root *)
Theorem from_val_root_ex t v :
  wf_ty t = true -> small_params t = true -> small_fields t = true -> no_bool_seq t = true ->
  has_type v t = true ->
  exists n, from_val zh t v = OK n /\ root_of H n = spec_htr H t v.
Proof.
  intros Hwf Hsp Hsf Hnb Hty.
  destruct (from_val_repr H zh Hzh t v Hwf Hsp Hsf Hty) as (n & En & Rn).
  exists n. split; [exact En|]. exact (repr_root H zh Hzh t v n Hwf Hsp Hnb Hty Rn).
Qed.

Theorem from_val_root t v n :
  wf_ty t = true -> small_params t = true -> small_fields t = true -> no_bool_seq t = true ->
  has_type v t = true ->
  from_val zh t v = OK n -> root_of H n = spec_htr H t v.
Proof.
  intros Hwf Hsp Hsf Hnb Hty E.
  destruct (from_val_root_ex t v Hwf Hsp Hsf Hnb Hty) as (n' & En & Rn).
  rewrite E in En. injection En as <-. exact Rn.
Qed.

Theorem default_root_ex t :
  wf_ty t = true -> small_params t = true -> small_fields t = true -> no_bool_seq t = true ->
  exists n, default_node zh t = OK n /\ root_of H n = spec_htr H t (default_val t).
Proof.
  intros Hwf Hsp Hsf Hnb.
  destruct (default_repr H zh Hzh t Hwf Hsp Hsf) as (n & En & Rn).
  exists n. split; [exact En|].
  exact (repr_root H zh Hzh t _ n Hwf Hsp Hnb (has_type_default t Hwf) Rn).
Qed.

Theorem default_root t n :
  wf_ty t = true -> small_params t = true -> small_fields t = true -> no_bool_seq t = true ->
  default_node zh t = OK n -> root_of H n = spec_htr H t (default_val t).
Proof.
  intros Hwf Hsp Hsf Hnb E.
  destruct (default_root_ex t Hwf Hsp Hsf Hnb) as (n' & En & Rn).
  rewrite E in En. injection En as <-. exact Rn.
Qed.

End Corollaries.

(* ---- why List/Vector[bool] is excluded (known finding D3): the code hashes one chunk per
        bool, the spec packs bools 32 to a chunk.  A concrete pair hash that tells them apart. *)
Definition refute_H (a b : chunk) : chunk := pad32 (firstn 16 a ++ firstn 16 b).

Theorem bool_seq_refuted :
  exists (H : chunk -> chunk -> chunk) t v n,
    wf_ty t = true /\ has_type v t = true /\
    from_val (zero_hash H) t v = OK n /\ root_of H n <> spec_htr H t v.
Proof.
  exists refute_H, (TList TBool 2), (VSeq [VBool true; VBool true]),
         (Pair (Pair (Leaf true_chunk) (Leaf true_chunk)) (len_leaf 2)).
  repeat split; try (vm_compute; reflexivity).
  intro E. vm_compute in E. discriminate E.
Qed.

(* the same with everything spelled out: only [no_bool_seq] fails *)
Theorem bool_seq_refuted_explicit :
  let t := TList TBool 2 in
  let v := VSeq [VBool true; VBool true] in
  let n := Pair (Pair (Leaf true_chunk) (Leaf true_chunk)) (len_leaf 2) in
  wf_ty t = true /\ small_params t = true /\ small_fields t = true /\ no_bool_seq t = false /\
  has_type v t = true /\ from_val (zero_hash refute_H) t v = OK n /\
  repr (zero_hash refute_H) t n v /\
  root_of refute_H n <> spec_htr refute_H t v.
Proof.
  cbv zeta. repeat split; try (vm_compute; reflexivity).
  - destruct (from_val_repr refute_H (zero_hash refute_H) (fun d => eq_refl)
                (TList TBool 2) (VSeq [VBool true; VBool true])) as (n & En & Rn);
      try (vm_compute; reflexivity).
    vm_compute in En. injection En as <-. exact Rn.
  - intro E. vm_compute in E. discriminate E.
Qed.

(* ---- why [small_fields] is needed for the constructors: a container type with 2^64+1 bool
        fields is wf and small_params, its all-false value is typed, but CoverDepth(2^64+1) = 1
        and SubtreeFillToContents refuses the nodes.  (Such a list cannot be evaluated; the
        proof is symbolic in the length K.) *)
Lemma many_fields_err K zh : N.of_nat K = 2 ^ 64 + 1 ->
  wf_ty (TContainer (repeat TBool K)) = true /\
  small_params (TContainer (repeat TBool K)) = true /\
  no_bool_seq (TContainer (repeat TBool K)) = true /\
  small_fields (TContainer (repeat TBool K)) = false /\
  has_type (VCont (repeat (VBool false) K)) (TContainer (repeat TBool K)) = true /\
  from_val zh (TContainer (repeat TBool K)) (VCont (repeat (VBool false) K)) = Err.
Proof.
  intros HK.
  assert (Hall : forall (p : ty -> bool), p TBool = true -> forallb p (repeat TBool K) = true).
  { intros p Hp. apply forallb_forall. intros x Hx. apply repeat_spec in Hx. subst x. exact Hp. }
  assert (HlenN : lenN (repeat TBool K) = 2 ^ 64 + 1) by (rewrite lenN_repeat; exact HK).
  repeat split.
  - cbn [wf_ty]. rewrite repeat_length, Hall by reflexivity.
    destruct K; [cbn in HK; lia|reflexivity].
  - cbn [small_params]. apply Hall. reflexivity.
  - cbn [no_bool_seq]. apply Hall. reflexivity.
  - cbn [small_fields]. rewrite HlenN. reflexivity.
  - rewrite has_type_cont. clear. induction K as [|K IH]; [reflexivity|].
    cbn [repeat rfields_ty]. rewrite IH. reflexivity.
  - rewrite from_val_cont. rewrite !repeat_length, Nat.eqb_refl. cbn [negb].
    assert (E : rfields_from zh (repeat TBool K) (repeat (VBool false) K)
                = OK (repeat (Leaf (zh 0%nat)) K)).
    { clear. induction K as [|K IH]; [reflexivity|].
      cbn [repeat rfields_from]. rewrite IH. reflexivity. }
    rewrite E. cbn [bind].
    change (cdepth (TContainer (repeat TBool K)))
      with (nat_of (cover_depth (lenN (repeat TBool K)))).
    rewrite HlenN. change (nat_of (cover_depth (2 ^ 64 + 1))) with 1%nat.
    apply fill_to_contents_err; [reflexivity|].
    rewrite repeat_length, HK. reflexivity.
Qed.

Theorem small_fields_needed : exists t v,
  wf_ty t = true /\ small_params t = true /\ no_bool_seq t = true /\ small_fields t = false /\
  has_type v t = true /\ forall zh, from_val zh t v = Err.
Proof.
  assert (HK : N.of_nat (N.to_nat (2 ^ 64 + 1)) = 2 ^ 64 + 1) by apply N2Nat.id.
  revert HK. generalize (N.to_nat (2 ^ 64 + 1)). intros K HK.
  exists (TContainer (repeat TBool K)), (VCont (repeat (VBool false) K)).
  destruct (many_fields_err K (fun _ => []) HK) as (A & B & C & D & E & _).
  repeat split; try assumption.
  intros zh. apply (many_fields_err K zh HK).
Qed.

(* ------------------------------------------------------------------------------------ *)
(** * 8. Examples: the hypotheses of the theorems are satisfiable (non-trivial input) *)

Definition ex_ty : ty :=
  TContainer [TUint 8; TList (TUint 2) 5; TVector TRoot 3; TBitlist 10; TBitvector 300;
              TUnion true [TBool; TBytes 4]; TList (TContainer [TBool; TUint 1]) 4].
Definition ex_val : val :=
  VCont [VUint 77; VSeq [VUint 1; VUint 65535; VUint 3];
         VSeq [VBytes (repeat Byte.x01 32); VBytes (repeat Byte.x02 32); VBytes (repeat Byte.x03 32)];
         VBits [true; false; true]; VBits (repeat true 300);
         VUnion 2 (Some (VBytes [Byte.x0a; Byte.x0b; Byte.x0c; Byte.x0d]));
         VSeq [VCont [VBool true; VUint 9]]].

Example ex_hyps :
  wf_ty ex_ty = true /\ small_params ex_ty = true /\ small_fields ex_ty = true /\
  no_bool_seq ex_ty = true /\ has_type ex_val ex_ty = true.
Proof. repeat split; vm_compute; reflexivity. Qed.

(* repr_root: a representing tree exists (and it is the one FromFields builds) *)
Example repr_root_ex : exists n, repr toy_zh ex_ty n ex_val /\ from_val toy_zh ex_ty ex_val = OK n.
Proof.
  destruct ex_hyps as (A & B & C & D & E).
  destruct (from_val_repr toy_H toy_zh (fun d => eq_refl) ex_ty ex_val A B C E) as (n & En & Rn).
  exists n. split; assumption.
Qed.

Example from_val_root_check :
  exists n, from_val toy_zh ex_ty ex_val = OK n /\ root_of toy_H n = spec_htr toy_H ex_ty ex_val.
Proof. eexists. split; vm_compute; reflexivity. Qed.

Example default_root_check :
  exists n, default_node toy_zh ex_ty = OK n /\
            root_of toy_H n = spec_htr toy_H ex_ty (default_val ex_ty).
Proof. eexists. split; vm_compute; reflexivity. Qed.

(* zero elements: empty list / bitlist *)
Example empty_list_check :
  exists n, from_val toy_zh (TList (TUint 8) 100) (VSeq []) = OK n /\
            root_of toy_H n = spec_htr toy_H (TList (TUint 8) 100) (VSeq []).
Proof. eexists. split; vm_compute; reflexivity. Qed.

Print Assumptions repr_root.
Print Assumptions from_val_repr.
Print Assumptions default_repr.
Print Assumptions has_type_default.
Print Assumptions from_val_root.
Print Assumptions from_val_root_ex.
Print Assumptions default_root.
Print Assumptions default_root_ex.
Print Assumptions bool_seq_refuted.
Print Assumptions bool_seq_refuted_explicit.
Print Assumptions small_fields_needed.
