(* BitfieldsProofs.v — C18: the packed-bitfield helpers of bitfields/*.go (model: Bitfields.v)
   agree with an unpacked bit-sequence model.

   ---------------------------------------------------------------------------------------
   SPEC (small, readable; used in the statements of Props/C18.v)

   A bit sequence is a [list bool].  Packing is [Base.bits_to_bytes] (8 bits per byte, least
   significant bit first, last byte zero padded):
     * a packed bitvector of [bits] is                [bits_to_bytes bits];
     * a packed bitlist  of [bits] is [pack_bitlist bits = bits_to_bytes (bits ++ [true])]
       (the delimiter bit follows the data bits).
   [lenN l] is the length of a list as an [N].
   [byte_bits]/[bytes_to_bits] is the inverse direction (unpacking), used for witnesses.
   --------------------------------------------------------------------------------------- *)
From Ztyp Require Import Base Bitfields.
From Coq Require Import ZArith Wf_nat ZifyN ZifyNat ZifyBool.
Open Scope N_scope.

Definition lenN {A} (l : list A) : N := N.of_nat (length l).

Definition pack_bitlist (bits : list bool) : list byte := bits_to_bytes (bits ++ [true]).

Definition byte_bits (b : byte) : list bool :=
  map (N.testbit (N_of_byte b)) [0;1;2;3;4;5;6;7].
Definition bytes_to_bits (bs : list byte) : list bool := flat_map byte_bits bs.

(* ------------------------------------------------------------------------------------- *)
(* lia with / and mod *)
Local Ltac Zify.zify_post_hook ::= Z.div_mod_to_equations.

Local Arguments N.pow : simpl never.
Local Arguments N.shiftl : simpl never.
Local Arguments N.shiftr : simpl never.
Local Arguments N.land : simpl never.
Local Arguments N.lor : simpl never.
Local Arguments N.lxor : simpl never.
Local Arguments N.ldiff : simpl never.
Local Arguments N.testbit : simpl never.
Local Arguments N.log2 : simpl never.
Local Arguments N.mul : simpl never.
Local Arguments N.add : simpl never.
Local Arguments N.sub : simpl never.
Local Arguments N.div : simpl never.
Local Arguments N.modulo : simpl never.
Local Arguments N.of_nat : simpl never.
Local Arguments N.to_nat : simpl never.

(* ===================================================================================== *)
(** * Bytes: round trips and exhaustive sweeps *)

Lemma N_of_byte_lt b : N_of_byte b < 256.
Proof. unfold N_of_byte. pose proof (Byte.to_N_bounded b). lia. Qed.

Lemma byte_of_N_of_byte b : byte_of_N (N_of_byte b) = b.
Proof.
  unfold byte_of_N, N_of_byte.
  rewrite N.mod_small by (pose proof (Byte.to_N_bounded b); lia).
  rewrite Byte.of_to_N. reflexivity.
Qed.

Lemma N_of_byte_of_N n : n < 256 -> N_of_byte (byte_of_N n) = n.
Proof.
  intros H. unfold byte_of_N, N_of_byte. rewrite N.mod_small by lia.
  destruct (Byte.of_N n) eqn:E.
  - apply Byte.to_of_N. exact E.
  - apply Byte.of_N_None_iff in E. lia.
Qed.

Lemma N_of_byte_inj a b : N_of_byte a = N_of_byte b -> a = b.
Proof. intros H. rewrite <- (byte_of_N_of_byte a), <- (byte_of_N_of_byte b), H. reflexivity. Qed.

Lemma N_of_byte_b0 : N_of_byte b0 = 0.
Proof. reflexivity. Qed.

Lemma N_of_byte_zero b : N_of_byte b = 0 <-> b = b0.
Proof. split; intros H; [apply N_of_byte_inj; rewrite H|subst]; reflexivity. Qed.

Definition all_bytes : list byte := map (fun n => byte_of_N (N.of_nat n)) (seq 0 256).

Lemma in_all_bytes b : In b all_bytes.
Proof.
  unfold all_bytes. apply in_map_iff. exists (N.to_nat (N_of_byte b)). split.
  - rewrite N2Nat.id. apply byte_of_N_of_byte.
  - apply in_seq. pose proof (N_of_byte_lt b). lia.
Qed.

(* Finite-domain sweep: a boolean predicate that evaluates to true on each of the 256 bytes
   holds for every byte. *)
Lemma byte_sweep (P : byte -> bool) : forallb P all_bytes = true -> forall b, P b = true.
Proof. intros H b. rewrite forallb_forall in H. apply H, in_all_bytes. Qed.

(* ===================================================================================== *)
(** * List helpers *)

Lemma lenN_app {A} (a b : list A) : lenN (a ++ b) = lenN a + lenN b.
Proof. unfold lenN. rewrite app_length. lia. Qed.

Lemma lenN_cons {A} (x : A) l : lenN (x :: l) = N.succ (lenN l).
Proof. unfold lenN. cbn [length]. lia. Qed.

Lemma skipn_add {A} : forall a b (l : list A), skipn (a + b) l = skipn b (skipn a l).
Proof.
  induction a as [|a IH]; intros b l; [reflexivity|].
  destruct l as [|x l]; [rewrite !skipn_nil; reflexivity|]. simpl. apply IH.
Qed.

Lemma nth_firstn_lt {A} (d : A) : forall m j l, (j < m)%nat -> nth j (firstn m l) d = nth j l d.
Proof.
  induction m as [|m IH]; intros j l H; [lia|].
  destruct l as [|x l]; [reflexivity|]. destruct j as [|j]; [reflexivity|].
  simpl. apply IH. lia.
Qed.

Lemma nth_skipn_add {A} (d : A) : forall m j l, nth j (skipn m l) d = nth (m + j) l d.
Proof.
  induction m as [|m IH]; intros j l; [reflexivity|].
  destruct l as [|x l]; [destruct j; reflexivity|]. simpl. apply IH.
Qed.

Lemma list_set_length {A} : forall (l : list A) i x, length (list_set l i x) = length l.
Proof.
  induction l as [|y l IH]; intros i x; [reflexivity|].
  destruct i; simpl; [reflexivity|]. f_equal. apply IH.
Qed.

Lemma list_set_app_r {A} : forall (P l : list A) j x,
  list_set (P ++ l) (length P + j) x = P ++ list_set l j x.
Proof. induction P as [|y P IH]; intros l j x; [reflexivity|]. simpl. f_equal. apply IH. Qed.

Lemma list_set_app_l {A} : forall (l T : list A) j x, (j < length l)%nat ->
  list_set (l ++ T) j x = list_set l j x ++ T.
Proof.
  induction l as [|y l IH]; intros T j x H; [simpl in H; lia|].
  destruct j as [|j]; simpl; [reflexivity|]. f_equal. apply IH. simpl in H. lia.
Qed.

Lemma firstn_list_set {A} : forall m (l : list A) j x, (j < m)%nat ->
  firstn m (list_set l j x) = list_set (firstn m l) j x.
Proof.
  induction m as [|m IH]; intros l j x H; [lia|].
  destruct l as [|y l]; [reflexivity|]. destruct j as [|j]; simpl; [reflexivity|].
  f_equal. apply IH. lia.
Qed.

Lemma skipn_list_set {A} : forall m (l : list A) j x, (j < m)%nat ->
  skipn m (list_set l j x) = skipn m l.
Proof.
  induction m as [|m IH]; intros l j x H; [lia|].
  destruct l as [|y l]; [reflexivity|]. destruct j as [|j]; simpl; [reflexivity|].
  apply IH. lia.
Qed.

Lemma nth_list_set {A} (d : A) : forall (l : list A) i x j, (i < length l)%nat ->
  nth j (list_set l i x) d = if Nat.eqb j i then x else nth j l d.
Proof.
  induction l as [|y l IH]; intros i x j H; [simpl in H; lia|].
  destruct i as [|i], j as [|j]; simpl; try reflexivity.
  apply IH. simpl in H. lia.
Qed.

Lemma combine_skipn {A B} : forall n (l : list A) (l' : list B),
  skipn n (combine l l') = combine (skipn n l) (skipn n l').
Proof.
  induction n as [|n IH]; intros l l'; [reflexivity|].
  destruct l as [|x l]; [reflexivity|]. destruct l' as [|y l']; simpl.
  - destruct (skipn n l); reflexivity.
  - apply IH.
Qed.

(* induction in steps of 8 *)
Lemma bits_ind8 (P : list bool -> Prop) :
  P [] -> (forall bits, bits <> [] -> P (skipn 8 bits) -> P bits) -> forall bits, P bits.
Proof.
  intros H0 HS bits. remember (length bits) as n eqn:En. revert bits En.
  induction n as [n IH] using lt_wf_ind. intros bits En.
  destruct bits as [|b bits]; [exact H0|].
  apply HS; [discriminate|].
  apply (IH (length (skipn 8 (b :: bits)))); [|reflexivity].
  rewrite skipn_length. subst n. cbn [length]. lia.
Qed.

(* split a bit sequence into full bytes and a remainder of fewer than 8 bits *)
Lemma split8 (bits : list bool) : exists A r q,
  bits = A ++ r /\ length A = (8 * q)%nat /\ (length r < 8)%nat.
Proof.
  exists (firstn (8 * (length bits / 8)) bits), (skipn (8 * (length bits / 8)) bits),
         (length bits / 8)%nat.
  split; [symmetry; apply firstn_skipn|]. rewrite firstn_length, skipn_length. lia.
Qed.

(* ===================================================================================== *)
(** * bits_val *)

Lemma bits_val_cons b r : bits_val (b :: r) = 2 * bits_val r + N.b2n b.
Proof. cbn [bits_val]. destruct b; cbn [N.b2n]; lia. Qed.

Lemma bits_val_bound X : bits_val X < 2 ^ lenN X.
Proof.
  induction X as [|b r IH]; [cbn; reflexivity|].
  rewrite bits_val_cons, lenN_cons, N.pow_succ_r'. destruct b; cbn [N.b2n]; lia.
Qed.

Lemma bits_val_lt256 X : (length X <= 8)%nat -> bits_val X < 256.
Proof.
  intros H. pose proof (bits_val_bound X) as B.
  assert (2 ^ lenN X <= 2 ^ 8) by (apply N.pow_le_mono_r; unfold lenN; lia).
  change (2 ^ 8) with 256 in *. lia.
Qed.

Lemma bits_val_testbit : forall X m, N.testbit (bits_val X) m = nth (N.to_nat m) X false.
Proof.
  induction X as [|b r IH]; intros m.
  - cbn [bits_val]. rewrite N.bits_0. destruct (N.to_nat m); reflexivity.
  - rewrite bits_val_cons. destruct (N.zero_or_succ m) as [->|[m' ->]].
    + rewrite N.testbit_0_r. reflexivity.
    + rewrite N.testbit_succ_r, N2Nat.inj_succ. cbn [nth]. apply IH.
Qed.

Lemma bits_val_app : forall X Y, bits_val (X ++ Y) = bits_val X + 2 ^ lenN X * bits_val Y.
Proof.
  induction X as [|b r IH]; intros Y.
  - cbn [app bits_val]. change (lenN (@nil bool)) with 0. rewrite N.pow_0_r. lia.
  - rewrite <- app_comm_cons, !bits_val_cons, IH, lenN_cons, N.pow_succ_r'. lia.
Qed.

Lemma bits_val_snoc_true X : bits_val (X ++ [true]) = bits_val X + 2 ^ lenN X.
Proof. rewrite bits_val_app. cbn [bits_val]. lia. Qed.

Lemma bits_val_zero : forall X, (bits_val X =? 0) = forallb negb X.
Proof.
  induction X as [|b r IH]; [reflexivity|].
  rewrite bits_val_cons. cbn [forallb]. rewrite <- IH.
  destruct b; cbn [N.b2n negb andb]; lia.
Qed.

Lemma N_of_byte_bits_val X : (length X <= 8)%nat -> N_of_byte (byte_of_N (bits_val X)) = bits_val X.
Proof. intros H. apply N_of_byte_of_N, bits_val_lt256, H. Qed.

(* ===================================================================================== *)
(** * bits_to_bytes *)

Lemma btb_fuel_irrel : forall f1 f2 bs, (length bs < f1)%nat -> (length bs < f2)%nat ->
  bits_to_bytes_fuel f1 bs = bits_to_bytes_fuel f2 bs.
Proof.
  induction f1 as [|f1 IH]; intros f2 bs H1 H2; [lia|].
  destruct f2 as [|f2]; [lia|].
  destruct bs as [|b bs]; [reflexivity|].
  cbn [bits_to_bytes_fuel]. f_equal.
  pose proof (skipn_length 8 (b :: bs)) as L. cbn [length] in *. apply IH; lia.
Qed.

Lemma btb_nil : bits_to_bytes [] = [].
Proof. reflexivity. Qed.

Lemma btb_cons bits : bits <> [] ->
  bits_to_bytes bits = byte_of_N (bits_val (firstn 8 bits)) :: bits_to_bytes (skipn 8 bits).
Proof.
  intros H. destruct bits as [|b bits]; [contradiction|].
  unfold bits_to_bytes at 1. cbn [bits_to_bytes_fuel]. f_equal.
  pose proof (skipn_length 8 (b :: bits)) as L. cbn [length] in *.
  apply btb_fuel_irrel; lia.
Qed.

Lemma btb_small X : (1 <= length X <= 8)%nat -> bits_to_bytes X = [byte_of_N (bits_val X)].
Proof.
  intros H. rewrite btb_cons by (destruct X; [simpl in H; lia|discriminate]).
  rewrite firstn_all2, skipn_all2 by lia. reflexivity.
Qed.

Lemma btb_app8 : forall q A X, length A = (8 * q)%nat ->
  bits_to_bytes (A ++ X) = bits_to_bytes A ++ bits_to_bytes X.
Proof.
  induction q as [|q IH]; intros A X H.
  - destruct A; [reflexivity|simpl in H; lia].
  - assert (A <> []) by (destruct A; [simpl in H; lia|discriminate]).
    rewrite (btb_cons (A ++ X)) by (destruct A; [contradiction|discriminate]).
    rewrite (btb_cons A) by assumption.
    rewrite firstn_app, skipn_app.
    replace (8 - length A)%nat with 0%nat by lia.
    rewrite firstn_O, skipn_O, app_nil_r, <- app_comm_cons. f_equal.
    apply IH. rewrite skipn_length. lia.
Qed.

Lemma btb_length8 : forall q A, length A = (8 * q)%nat -> length (bits_to_bytes A) = q.
Proof.
  induction q as [|q IH]; intros A H.
  - destruct A; [reflexivity|simpl in H; lia].
  - rewrite btb_cons by (destruct A; [simpl in H; lia|discriminate]).
    cbn [length]. f_equal. apply IH. rewrite skipn_length. lia.
Qed.

Lemma btb_length bits : length (bits_to_bytes bits) = ((length bits + 7) / 8)%nat.
Proof.
  induction bits as [|bits Hne IH] using bits_ind8; [reflexivity|].
  rewrite btb_cons by assumption. cbn [length]. rewrite IH, skipn_length.
  assert (length bits <> 0)%nat by (destruct bits; [contradiction|simpl; lia]).
  lia.
Qed.

Lemma btb_nth : forall k bits,
  nth k (bits_to_bytes bits) b0 = byte_of_N (bits_val (firstn 8 (skipn (8 * k) bits))).
Proof.
  induction k as [|k IH]; intros bits.
  - destruct bits as [|b bits]; [reflexivity|]. rewrite btb_cons by discriminate. reflexivity.
  - destruct bits as [|b bits].
    + rewrite skipn_nil. reflexivity.
    + rewrite btb_cons by discriminate. cbn [nth]. rewrite IH.
      replace (8 * S k)%nat with (8 + 8 * k)%nat by lia. rewrite skipn_add. reflexivity.
Qed.

(* the bit-level characterisation of packing *)
Lemma btb_testbit bits k j : (j < 8)%nat ->
  N.testbit (N_of_byte (nth k (bits_to_bytes bits) b0)) (N.of_nat j) = nth (8 * k + j) bits false.
Proof.
  intros Hj. rewrite btb_nth, N_of_byte_bits_val by (rewrite firstn_length; lia).
  rewrite bits_val_testbit, Nat2N.id, nth_firstn_lt by assumption. apply nth_skipn_add.
Qed.

(* ===================================================================================== *)
(** * Unpacking *)

Lemma byte_bits_length b : length (byte_bits b) = 8%nat.
Proof. reflexivity. Qed.

Lemma byte_bits_val b : byte_of_N (bits_val (byte_bits b)) = b.
Proof.
  apply Byte.byte_dec_bl. revert b. apply byte_sweep. vm_compute. reflexivity.
Qed.

Lemma bytes_to_bits_cons b bs : bytes_to_bits (b :: bs) = byte_bits b ++ bytes_to_bits bs.
Proof. reflexivity. Qed.

Lemma bytes_to_bits_length bs : length (bytes_to_bits bs) = (8 * length bs)%nat.
Proof.
  induction bs as [|b bs IH]; [reflexivity|].
  rewrite bytes_to_bits_cons, app_length, IH, byte_bits_length. cbn [length]. lia.
Qed.

Lemma btb_bytes_to_bits bs : bits_to_bytes (bytes_to_bits bs) = bs.
Proof.
  induction bs as [|b bs IH]; [reflexivity|].
  rewrite bytes_to_bits_cons, (btb_app8 1) by reflexivity.
  rewrite btb_small by (rewrite byte_bits_length; lia).
  rewrite byte_bits_val, IH. reflexivity.
Qed.

Lemma btb_bytes_to_bits_app bs X :
  bits_to_bytes (bytes_to_bits bs ++ X) = bs ++ bits_to_bytes X.
Proof.
  rewrite (btb_app8 (length bs)) by apply bytes_to_bits_length.
  rewrite btb_bytes_to_bits. reflexivity.
Qed.

(* ===================================================================================== *)
(** * 1. byte_bit_index = floor(log2) *)

Lemma byte_bit_index_sweep :
  forallb (fun b => (N_of_byte b =? 0) || (byte_bit_index b =? N.log2 (N_of_byte b))) all_bytes = true.
Proof. vm_compute. reflexivity. Qed.

Lemma byte_bit_index_log2 b : N_of_byte b <> 0 -> byte_bit_index b = N.log2 (N_of_byte b).
Proof.
  intros H. pose proof (byte_sweep _ byte_bit_index_sweep b) as S. cbv beta in S.
  apply orb_true_iff in S. destruct S as [S|S]; [apply N.eqb_eq in S; contradiction|].
  apply N.eqb_eq, S.
Qed.

Lemma byte_bit_index_b0 : byte_bit_index b0 = 0.
Proof. reflexivity. Qed.

Lemma byte_bit_index_lt8_sweep : forallb (fun b => byte_bit_index b <? 8) all_bytes = true.
Proof. vm_compute. reflexivity. Qed.

Lemma byte_bit_index_lt8 b : byte_bit_index b < 8.
Proof. apply N.ltb_lt. revert b. apply byte_sweep, byte_bit_index_lt8_sweep. Qed.

Lemma byte_bit_index_N_log2 l : l <> 0 -> l < 256 -> byte_bit_index_N l = N.log2 l.
Proof.
  intros H0 H. pose proof (byte_bit_index_log2 (byte_of_N l)) as E.
  unfold byte_bit_index in E. rewrite N_of_byte_of_N in E by assumption. apply E, H0.
Qed.

Example byte_bit_index_log2_ex : N_of_byte Byte.x22 <> 0 /\ byte_bit_index Byte.x22 = 5.
Proof. split; [discriminate|reflexivity]. Qed.

(* ===================================================================================== *)
(** * Structure of a packed bitlist: full data bytes, then the byte with the delimiter *)

Lemma delim_lt256 r : (length r < 8)%nat -> bits_val r + 2 ^ lenN r < 256.
Proof.
  intros H. rewrite <- bits_val_snoc_true. apply bits_val_lt256.
  rewrite app_length. cbn [length]. lia.
Qed.

Lemma delim_nonzero r : bits_val r + 2 ^ lenN r <> 0.
Proof. pose proof (N.pow_nonzero 2 (lenN r)). lia. Qed.

Lemma delim_log2 r : N.log2 (bits_val r + 2 ^ lenN r) = lenN r.
Proof.
  apply N.log2_unique' with (c := bits_val r); [lia| |lia].
  split; [lia|apply bits_val_bound].
Qed.

Lemma delim_index r : (length r < 8)%nat -> byte_bit_index_N (bits_val r + 2 ^ lenN r) = lenN r.
Proof.
  intros H. rewrite byte_bit_index_N_log2; [apply delim_log2|apply delim_nonzero|apply delim_lt256, H].
Qed.

Lemma delim_clear r : N.lxor (bits_val r + 2 ^ lenN r) (2 ^ lenN r) = bits_val r.
Proof.
  apply N.bits_inj. intros m.
  rewrite N.lxor_spec, <- bits_val_snoc_true, !bits_val_testbit, N.pow2_bits_eqb.
  destruct (lt_eq_lt_dec (N.to_nat m) (length r)) as [[H|H]|H].
  - rewrite app_nth1 by assumption.
    replace (lenN r =? m) with false by (symmetry; apply N.eqb_neq; unfold lenN; lia).
    apply xorb_false_r.
  - rewrite app_nth2 by lia. rewrite (nth_overflow r) by lia.
    rewrite H, Nat.sub_diag. cbn [nth].
    replace (lenN r =? m) with true by (symmetry; apply N.eqb_eq; unfold lenN; lia).
    reflexivity.
  - rewrite app_nth2 by lia. rewrite !nth_overflow by (cbn [length]; lia).
    replace (lenN r =? m) with false by (symmetry; apply N.eqb_neq; unfold lenN; lia).
    reflexivity.
Qed.

Lemma pack_bitlist_struct bits : exists A r q,
  bits = A ++ r /\ length A = (8 * q)%nat /\ (length r < 8)%nat /\
  length (bits_to_bytes A) = q /\
  pack_bitlist bits = bits_to_bytes A ++ [byte_of_N (bits_val r + 2 ^ lenN r)].
Proof.
  destruct (split8 bits) as (A & r & q & E & HA & Hr). exists A, r, q.
  repeat split; try assumption; [apply btb_length8, HA|].
  unfold pack_bitlist. rewrite E, <- app_assoc, (btb_app8 q) by assumption.
  rewrite (btb_small (r ++ [true])) by (rewrite app_length; cbn [length]; lia).
  rewrite bits_val_snoc_true. reflexivity.
Qed.

(* ===================================================================================== *)
(** * 2. bitlist_check *)

Lemma two64_eq : 2 ^ 64 = two64.
Proof. reflexivity. Qed.

Lemma shiftr3 a : N.shiftr a 3 = a / 8.
Proof. rewrite N.shiftr_div_pow2. reflexivity. Qed.

Lemma shiftl3 a : N.shiftl a 3 = 8 * a.
Proof. rewrite N.shiftl_mul_pow2. change (2 ^ 3) with 8. lia. Qed.

Lemma land7 a : N.land a 7 = a mod 8.
Proof. change 7 with (N.ones 3). rewrite N.land_ones. reflexivity. Qed.

Lemma lenN_zero {A} (l : list A) : lenN l = 0 <-> l = [].
Proof. unfold lenN. destruct l; cbn [length]; split; intros H; try reflexivity; try lia; discriminate. Qed.

(* normal form: non-empty, last byte non-zero, and the encoded bit length is within the limit *)
Lemma bitlist_check_spec bs limit : limit < 2 ^ 64 ->
  (bitlist_check bs limit = OK tt <->
   bs <> [] /\ N_of_byte (last bs b0) <> 0 /\
   8 * (lenN bs - 1) + byte_bit_index (last bs b0) <= limit).
Proof.
  rewrite two64_eq. intros Hl.
  unfold bitlist_check, bitlist_check_byte_len, bitlist_check_last_byte, blen, last_byte,
    sub64, wrap64.
  rewrite shiftr3, shiftl3. fold (lenN bs).
  pose proof (lenN_zero bs) as Z. pose proof (byte_bit_index_lt8 (last bs b0)) as I.
  set (n := lenN bs) in *. set (idx := byte_bit_index (last bs b0)) in *.
  set (v := N_of_byte (last bs b0)) in *.
  unfold two64 in *.
  destruct (N.eqb_spec n 0) as [E0|E0]; cbn [bind].
  { split; [discriminate|]. intros (H1 & _). apply Z in E0. contradiction. }
  destruct (N.ltb_spec (limit / 8 + 1) n) as [E1|E1]; cbn [bind].
  { split; [discriminate|]. intros (_ & _ & H). lia. }
  destruct (N.eqb_spec v 0) as [E2|E2].
  { split; [discriminate|]. intros (_ & H & _). contradiction. }
  assert (Hs : (limit + 18446744073709551616 - (8 * (n - 1)) mod 18446744073709551616 mod 18446744073709551616)
                 mod 18446744073709551616 = limit - 8 * (n - 1)) by lia.
  rewrite Hs.
  destruct (N.ltb_spec (limit - 8 * (n - 1)) idx) as [E3|E3].
  { split; [discriminate|]. intros (_ & _ & H). lia. }
  split; [intros _|reflexivity].
  split; [intros ->; apply E0, Z; reflexivity|]. split; [assumption|lia].
Qed.

Lemma bitlist_check_no_panic bs limit : bitlist_check bs limit <> Panic.
Proof.
  unfold bitlist_check, bitlist_check_byte_len, bitlist_check_last_byte.
  destruct (_ =? 0); cbn [bind]; [discriminate|].
  destruct (_ <? _); cbn [bind]; [discriminate|].
  destruct (_ =? 0); [discriminate|]. destruct (_ <? _); discriminate.
Qed.

Lemma delim_byte_sweep :
  forallb (fun l => (N_of_byte l =? 0) ||
     match bits_to_bytes (firstn (N.to_nat (byte_bit_index l)) (byte_bits l) ++ [true]) with
     | [x] => Byte.eqb x l | _ => false end) all_bytes = true.
Proof. vm_compute. reflexivity. Qed.

Lemma delim_byte l : N_of_byte l <> 0 ->
  bits_to_bytes (firstn (N.to_nat (byte_bit_index l)) (byte_bits l) ++ [true]) = [l].
Proof.
  intros H. pose proof (byte_sweep _ delim_byte_sweep l) as S. cbv beta in S.
  apply orb_true_iff in S. destruct S as [S|S]; [apply N.eqb_eq in S; contradiction|].
  destruct (bits_to_bytes _) as [|x [|y t]]; try discriminate S.
  apply Byte.byte_dec_bl in S. subst x. reflexivity.
Qed.

Lemma bitlist_check_sound bs limit : limit < 2 ^ 64 -> bitlist_check bs limit = OK tt ->
  exists bits, lenN bits <= limit /\ bs = pack_bitlist bits.
Proof.
  intros Hl H. apply bitlist_check_spec in H; [|assumption].
  destruct H as (Hne & Hv & Hlen).
  destruct (exists_last Hne) as (init & l & ->).
  rewrite last_last in *. rewrite lenN_app in Hlen. change (lenN [l]) with 1 in Hlen.
  exists (bytes_to_bits init ++ firstn (N.to_nat (byte_bit_index l)) (byte_bits l)). split.
  - rewrite lenN_app. unfold lenN in *. rewrite bytes_to_bits_length, firstn_length, byte_bits_length.
    lia.
  - unfold pack_bitlist. rewrite <- app_assoc, btb_bytes_to_bits_app, delim_byte by assumption.
    reflexivity.
Qed.

Lemma bitlist_check_complete bits limit : limit < 2 ^ 64 -> lenN bits <= limit ->
  bitlist_check (pack_bitlist bits) limit = OK tt.
Proof.
  intros Hl Hn. apply bitlist_check_spec; [assumption|].
  destruct (pack_bitlist_struct bits) as (A & r & q & E & HA & Hr & Hq & ->).
  rewrite last_last, lenN_app. change (lenN [_]) with 1.
  unfold byte_bit_index. rewrite N_of_byte_of_N by (apply delim_lt256, Hr).
  rewrite delim_index by assumption.
  split; [intros C; symmetry in C; revert C; apply app_cons_not_nil|].
  split; [apply delim_nonzero|].
  subst bits. rewrite lenN_app in Hn. unfold lenN in *. lia.
Qed.

Lemma bitlist_check_iff bs limit : limit < 2 ^ 64 ->
  (bitlist_check bs limit = OK tt <-> exists bits, lenN bits <= limit /\ bs = pack_bitlist bits).
Proof.
  intros Hl. split; [apply bitlist_check_sound, Hl|].
  intros (bits & Hn & ->). apply bitlist_check_complete; assumption.
Qed.

Example bitlist_check_ex :
  bitlist_check (pack_bitlist [true;false;true;true;false;false;true;false;true;true]) 10 = OK tt
  /\ bitlist_check (pack_bitlist [true;false;true;true;false;false;true;false;true;true]) 9 = Err.
Proof. split; vm_compute; reflexivity. Qed.

(* ===================================================================================== *)
(** * 3. bitvector_check *)

(* normal form: exact byte length, and the unused high bits of the last byte are zero.
   For n = 0 the only accepted string is the empty one (byte_len 0 -> OK). *)
Lemma bitvector_check_spec bs n : n < 2 ^ 64 - 7 ->
  (bitvector_check bs n = OK tt <->
   lenN bs = (n + 7) / 8 /\ (n mod 8 <> 0 -> N_of_byte (last bs b0) / 2 ^ (n mod 8) = 0)).
Proof.
  rewrite two64_eq. intros Hn.
  unfold bitvector_check, bitvector_check_byte_len, bitvector_check_last_byte, blen, last_byte,
    bool_res, wrap64.
  rewrite shiftr3, land7, N.shiftr_div_pow2. fold (lenN bs).
  set (len := lenN bs) in *. set (v := N_of_byte (last bs b0)) in *.
  unfold two64 in *.
  rewrite (N.mod_small (n + 7)) by lia.
  destruct (N.eqb_spec len ((n + 7) / 8)) as [E0|E0]; cbn [bind].
  2:{ split; [discriminate|]. intros (H & _). contradiction. }
  destruct (N.eqb_spec len 0) as [E1|E1].
  { split; [intros _|reflexivity]. split; [assumption|]. intros H. exfalso. lia. }
  destruct (N.eqb_spec n 0) as [E2|E2]; [exfalso; subst n; cbn in E0; lia|].
  destruct (N.eqb_spec (n mod 8) 0) as [E3|E3].
  { split; [intros _|reflexivity]. split; [assumption|]. intros H. contradiction. }
  destruct (N.eqb_spec (v / 2 ^ (n mod 8)) 0) as [E4|E4].
  - split; [intros _|reflexivity]. split; [assumption|]. intros _. assumption.
  - split; [discriminate|]. intros (_ & H). exfalso. apply E4, H, E3.
Qed.

Lemma bitvector_check_no_panic bs n : bitvector_check bs n <> Panic.
Proof.
  unfold bitvector_check, bitvector_check_byte_len, bitvector_check_last_byte, bool_res.
  destruct (_ =? _); cbn [bind]; [|discriminate].
  destruct (_ =? 0); [discriminate|]. destruct (_ =? 0); [discriminate|].
  destruct (_ =? 0); [discriminate|]. destruct (_ =? 0); discriminate.
Qed.

Definition one_to_eight : list nat := [1;2;3;4;5;6;7;8]%nat.

Lemma vec_byte_sweep :
  forallb (fun l => forallb (fun r =>
     (negb (Nat.eqb r 8) && negb (N_of_byte l / 2 ^ N.of_nat r =? 0)) ||
     match bits_to_bytes (firstn r (byte_bits l)) with
     | [x] => Byte.eqb x l | _ => false end) one_to_eight) all_bytes = true.
Proof. vm_compute. reflexivity. Qed.

Lemma vec_byte l r : (1 <= r <= 8)%nat -> (r <> 8%nat -> N_of_byte l / 2 ^ N.of_nat r = 0) ->
  bits_to_bytes (firstn r (byte_bits l)) = [l].
Proof.
  intros Hr Hz. pose proof (byte_sweep _ vec_byte_sweep l) as S. cbv beta in S.
  rewrite forallb_forall in S.
  assert (In r one_to_eight) as Hin by (unfold one_to_eight; cbn [In]; lia).
  specialize (S r Hin). apply orb_true_iff in S. destruct S as [S|S].
  - apply andb_true_iff in S. destruct S as [S1 S2].
    apply negb_true_iff, Nat.eqb_neq in S1. apply negb_true_iff, N.eqb_neq in S2.
    exfalso. apply S2, Hz, S1.
  - destruct (bits_to_bytes _) as [|x [|y t]]; try discriminate S.
    apply Byte.byte_dec_bl in S. subst x. reflexivity.
Qed.

Lemma bitvector_check_sound bs n : n < 2 ^ 64 - 7 -> bitvector_check bs n = OK tt ->
  exists bits, lenN bits = n /\ bs = bits_to_bytes bits.
Proof.
  intros Hn H. apply bitvector_check_spec in H; [|assumption]. destruct H as (Hlen & Hlast).
  destruct bs as [|b0' bs'].
  - exists []. change (lenN (@nil byte)) with 0 in Hlen. split; [|reflexivity].
    change (lenN (@nil bool)) with 0. lia.
  - destruct (@exists_last _ (b0' :: bs')) as (init & l & E); [discriminate|].
    rewrite E in *. clear E b0' bs'. rewrite last_last in Hlast.
    rewrite lenN_app in Hlen. change (lenN [l]) with 1 in Hlen.
    set (r := (N.to_nat n - 8 * length init)%nat).
    assert (Hr : (1 <= r <= 8)%nat) by (unfold r, lenN in *; lia).
    exists (bytes_to_bits init ++ firstn r (byte_bits l)). split.
    + rewrite lenN_app. unfold lenN in *.
      rewrite bytes_to_bits_length, firstn_length, byte_bits_length. lia.
    + rewrite btb_bytes_to_bits_app, vec_byte; [reflexivity|assumption|].
      intros Hr8. assert (n mod 8 = N.of_nat r) as Em by (unfold r, lenN in *; lia).
      rewrite <- Em. apply Hlast. lia.
Qed.

Lemma bitvector_check_complete bits :
  lenN bits < 2 ^ 64 - 7 -> bitvector_check (bits_to_bytes bits) (lenN bits) = OK tt.
Proof.
  intros Hn. apply bitvector_check_spec; [assumption|]. split.
  - unfold lenN. rewrite btb_length. lia.
  - intros Hm. destruct (split8 bits) as (A & r & q & E & HA & Hr). subst bits.
    rewrite lenN_app in *.
    assert (lenN A = 8 * N.of_nat q) as EA by (unfold lenN; lia).
    assert (Em : (lenN A + lenN r) mod 8 = lenN r) by (unfold lenN in *; lia).
    rewrite Em in *.
    rewrite (btb_app8 q) by assumption.
    rewrite (btb_small r) by (unfold lenN in *; lia).
    rewrite last_last, N_of_byte_bits_val by lia.
    apply N.div_small, bits_val_bound.
Qed.

Lemma bitvector_check_iff bs n : n < 2 ^ 64 - 7 ->
  (bitvector_check bs n = OK tt <-> exists bits, lenN bits = n /\ bs = bits_to_bytes bits).
Proof.
  intros Hn. split; [apply bitvector_check_sound, Hn|].
  intros (bits & <- & ->). apply bitvector_check_complete, Hn.
Qed.

Example bitvector_check_ex :
  bitvector_check (bits_to_bytes [true;false;true;true;false;false;true;false;true;true]) 10 = OK tt
  /\ bitvector_check (bits_to_bytes [true;false;true;true;false;false;true;false;true;true]) 11 = OK tt
  /\ bitvector_check (bits_to_bytes [true;false;true;true;false;false;true;false;true;true]) 9 = Err
  /\ bitvector_check [] 0 = OK tt /\ bitvector_check [b0] 0 = Err.
Proof. repeat split; vm_compute; reflexivity. Qed.

(* The bound [n < 2^64 - 7] is tight: for the seven largest uint64 lengths the Go expression
   (bitLength + 7) >> 3 wraps around, and the empty string is accepted. *)
Example bitvector_check_wrap : bitvector_check [] (2 ^ 64 - 7) = OK tt /\ bitvector_check [] (2 ^ 64 - 1) = OK tt.
Proof. split; vm_compute; reflexivity. Qed.

(* ===================================================================================== *)
(** * 4. bitlist_len *)

Lemma lor_8_small q r : r < 8 -> N.lor (8 * q) r = 8 * q + r.
Proof.
  intros H.
  assert (r = 0 \/ r = 1 \/ r = 2 \/ r = 3 \/ r = 4 \/ r = 5 \/ r = 6 \/ r = 7) as E by lia.
  decompose [or] E; subst r; destruct q; reflexivity.
Qed.

Lemma bitlist_len_nonempty bs : bs <> [] -> lenN bs <= 2 ^ 61 ->
  bitlist_len bs = 8 * (lenN bs - 1) + byte_bit_index (last bs b0).
Proof.
  intros Hne Hlen. change (2 ^ 61) with 2305843009213693952 in Hlen.
  unfold bitlist_len. destruct bs as [|x t] eqn:E; [contradiction|]. rewrite <- E in *.
  unfold blen, last_byte, wrap64. rewrite shiftl3. fold (lenN bs).
  rewrite N.mod_small by (unfold two64; lia).
  apply lor_8_small, byte_bit_index_lt8.
Qed.

Lemma bitlist_len_nil : bitlist_len [] = 0.
Proof. reflexivity. Qed.

Lemma bitlist_len_zero_last bs : bs <> [] -> last bs b0 = b0 -> lenN bs <= 2 ^ 61 ->
  bitlist_len bs = 8 * (lenN bs - 1).
Proof.
  intros Hne Hl Hlen. rewrite bitlist_len_nonempty, Hl by assumption.
  rewrite byte_bit_index_b0. lia.
Qed.

Lemma bitlist_len_pack bits : lenN bits < 2 ^ 64 -> bitlist_len (pack_bitlist bits) = lenN bits.
Proof.
  intros Hn. change (2 ^ 64) with 18446744073709551616 in Hn.
  destruct (pack_bitlist_struct bits) as (A & r & q & E & HA & Hr & Hq & ->).
  subst bits. rewrite lenN_app in Hn.
  rewrite bitlist_len_nonempty.
  - rewrite last_last, lenN_app. change (lenN [_]) with 1.
    unfold byte_bit_index. rewrite N_of_byte_of_N by (apply delim_lt256, Hr).
    rewrite delim_index by assumption. rewrite lenN_app. unfold lenN in *. lia.
  - intros C; symmetry in C; revert C; apply app_cons_not_nil.
  - change (2 ^ 61) with 2305843009213693952. rewrite lenN_app. change (lenN [_]) with 1.
    unfold lenN in *. lia.
Qed.

Example bitlist_len_ex :
  bitlist_len (pack_bitlist [true;false;true;true;false;false;true;false;true;true]) = 10
  /\ bitlist_len [Byte.xff; b0] = 8.
Proof. split; vm_compute; reflexivity. Qed.

(* ===================================================================================== *)
(** * 5. get_bit *)

Lemma get_bit_in_range bs i : (N.to_nat (i / 8) < length bs)%nat ->
  get_bit bs i = OK (N.testbit (N_of_byte (nth (N.to_nat (i / 8)) bs b0)) (i mod 8)).
Proof.
  intros H. unfold get_bit, nth_byte, nat_of, byte_testbit. rewrite shiftr3, land7.
  rewrite (nth_error_nth' bs b0 H). reflexivity.
Qed.

Lemma get_bit_panic bs i : get_bit bs i = Panic <-> lenN bs <= i / 8.
Proof.
  unfold get_bit, nth_byte, nat_of. rewrite shiftr3.
  destruct (nth_error bs (N.to_nat (i / 8))) eqn:E; cbn [bind].
  - split; [discriminate|]. intros H. exfalso.
    assert (nth_error bs (N.to_nat (i / 8)) <> None) as Hs by (rewrite E; discriminate).
    apply nth_error_Some in Hs. unfold lenN in H. lia.
  - split; [intros _|reflexivity]. apply nth_error_None in E. unfold lenN. lia.
Qed.

Lemma get_bit_btb bits i : i < lenN bits ->
  get_bit (bits_to_bytes bits) i = OK (nth (N.to_nat i) bits false).
Proof.
  intros H. unfold lenN in H. rewrite get_bit_in_range by (rewrite btb_length; lia).
  replace (i mod 8) with (N.of_nat (N.to_nat (i mod 8))) by lia.
  rewrite btb_testbit by lia. f_equal. f_equal. lia.
Qed.

Lemma get_bit_pack bits i : i < lenN bits ->
  get_bit (pack_bitlist bits) i = OK (nth (N.to_nat i) bits false).
Proof.
  intros H. unfold pack_bitlist. rewrite get_bit_btb by (rewrite lenN_app; lia).
  rewrite app_nth1 by (unfold lenN in H; lia). reflexivity.
Qed.

Example get_bit_ex :
  get_bit (bits_to_bytes [true;false;true;true;false;false;true;false;true;true]) 9 = OK true
  /\ get_bit (bits_to_bytes [true;false;true;true;false;false;true;false;true;true]) 16 = Panic.
Proof. split; vm_compute; reflexivity. Qed.

(* ===================================================================================== *)
(** * 6. set_bit *)

Lemma bits_val_list_set X j (v : bool) : (j < length X)%nat ->
  bits_val (list_set X j v) =
  if v then N.lor (bits_val X) (2 ^ N.of_nat j) else N.ldiff (bits_val X) (2 ^ N.of_nat j).
Proof.
  intros H. apply N.bits_inj. intros m.
  rewrite bits_val_testbit, (nth_list_set false) by assumption.
  destruct v.
  - rewrite N.lor_spec, N.pow2_bits_eqb, bits_val_testbit.
    destruct (Nat.eqb_spec (N.to_nat m) j) as [E|E].
    + replace (N.of_nat j =? m) with true by (symmetry; apply N.eqb_eq; lia).
      symmetry. apply orb_true_r.
    + replace (N.of_nat j =? m) with false by (symmetry; apply N.eqb_neq; lia).
      symmetry. apply orb_false_r.
  - rewrite N.ldiff_spec, N.pow2_bits_eqb, bits_val_testbit.
    destruct (Nat.eqb_spec (N.to_nat m) j) as [E|E].
    + replace (N.of_nat j =? m) with true by (symmetry; apply N.eqb_eq; lia).
      symmetry. apply andb_false_r.
    + replace (N.of_nat j =? m) with false by (symmetry; apply N.eqb_neq; lia).
      symmetry. apply andb_true_r.
Qed.

Lemma set_bit_app P b T i v : N.to_nat (i / 8) = length P ->
  set_bit (P ++ b :: T) i v =
  OK (P ++ byte_of_N (if v then N.lor (N_of_byte b) (2 ^ (i mod 8))
                       else N.ldiff (N_of_byte b) (2 ^ (i mod 8))) :: T).
Proof.
  intros H. unfold set_bit, nth_byte, nat_of. rewrite shiftr3, land7, H.
  rewrite nth_error_app2, Nat.sub_diag by lia. cbn [nth_error bind].
  f_equal. rewrite <- (Nat.add_0_r (length P)) at 1. rewrite list_set_app_r. reflexivity.
Qed.

Lemma set_bit_btb bits i v : i < lenN bits ->
  set_bit (bits_to_bytes bits) i v = OK (bits_to_bytes (list_set bits (N.to_nat i) v)).
Proof.
  intros Hi. unfold lenN in Hi.
  set (k := N.to_nat (i / 8)). set (j := N.to_nat (i mod 8)).
  assert (Ei : N.to_nat i = (8 * k + j)%nat) by (unfold k, j; lia).
  assert (Hj : (j < 8)%nat) by (unfold j; lia).
  pose proof (firstn_skipn (8 * k) bits) as E.
  set (A := firstn (8 * k) bits) in *. set (Y := skipn (8 * k) bits) in *.
  assert (HA : length A = (8 * k)%nat) by (unfold A; rewrite firstn_length; lia).
  assert (HY : (j < length Y)%nat) by (unfold Y; rewrite skipn_length; lia).
  assert (Yne : Y <> []) by (destruct Y; [cbn [length] in HY; lia|discriminate]).
  rewrite <- E, Ei, <- HA, list_set_app_r.
  rewrite !(btb_app8 k) by assumption.
  rewrite (btb_cons Y) by assumption.
  rewrite set_bit_app by (rewrite (btb_length8 k) by assumption; reflexivity).
  rewrite (btb_cons (list_set Y j v))
    by (intros C; apply (f_equal (@length bool)) in C; rewrite list_set_length in C;
        cbn [length] in C; lia).
  rewrite firstn_list_set, skipn_list_set by assumption.
  rewrite bits_val_list_set by (rewrite firstn_length; lia).
  rewrite N_of_byte_bits_val by (rewrite firstn_length; lia).
  replace (N.of_nat j) with (i mod 8) by (unfold j; lia). reflexivity.
Qed.

Lemma set_bit_pack bits i v : i < lenN bits ->
  set_bit (pack_bitlist bits) i v = OK (pack_bitlist (list_set bits (N.to_nat i) v)).
Proof.
  intros Hi. unfold pack_bitlist. rewrite set_bit_btb by (rewrite lenN_app; lia).
  rewrite list_set_app_l by (unfold lenN in Hi; lia). reflexivity.
Qed.

Lemma set_bit_panic bs i v : set_bit bs i v = Panic <-> lenN bs <= i / 8.
Proof.
  unfold set_bit, nth_byte, nat_of. rewrite shiftr3.
  destruct (nth_error bs (N.to_nat (i / 8))) eqn:E; cbn [bind].
  - split; [discriminate|]. intros H. exfalso.
    assert (nth_error bs (N.to_nat (i / 8)) <> None) as Hs by (rewrite E; discriminate).
    apply nth_error_Some in Hs. unfold lenN in H. lia.
  - split; [intros _|reflexivity]. apply nth_error_None in E. unfold lenN. lia.
Qed.

Example set_bit_ex :
  set_bit (pack_bitlist [true;false;true;true;false;false;true;false;true;true]) 9 false
  = OK (pack_bitlist [true;false;true;true;false;false;true;false;true;false]).
Proof. vm_compute. reflexivity. Qed.

(* ===================================================================================== *)
(** * 7. ones counts *)

Lemma fold_left_add {A} (f : A -> N) : forall l a,
  fold_left (fun acc b => acc + f b) l a = a + fold_left (fun acc b => acc + f b) l 0.
Proof.
  induction l as [|x l IH]; intros a; cbn [fold_left]; [lia|].
  rewrite IH, (IH (0 + f x)). lia.
Qed.

Ltac enum_bits X H n :=
  lazymatch n with
  | O => exfalso; cbn [length] in H; lia
  | S ?n' => destruct X as [|[|] X];
             [vm_compute; reflexivity | enum_bits X H n' | enum_bits X H n']
  end.

Lemma popcount_bits_val X : (length X <= 8)%nat -> popcount_N8 (bits_val X) = lenN (filter id X).
Proof. intros H. enum_bits X H 9%nat. Qed.

Lemma popcount8_bits_val X : (length X <= 8)%nat ->
  popcount8 (byte_of_N (bits_val X)) = lenN (filter id X).
Proof.
  intros H. rewrite <- popcount_bits_val by assumption.
  unfold popcount8. rewrite N_of_byte_bits_val by assumption. reflexivity.
Qed.

Lemma bitvector_ones_count_btb bits :
  bitvector_ones_count (bits_to_bytes bits) = lenN (filter id bits).
Proof.
  unfold bitvector_ones_count.
  induction bits as [|bits Hne IH] using bits_ind8; [reflexivity|].
  rewrite btb_cons by assumption. cbn [fold_left]. rewrite fold_left_add, IH.
  rewrite popcount8_bits_val by (rewrite firstn_length; lia).
  rewrite <- (firstn_skipn 8 bits) at 3. rewrite filter_app, lenN_app. lia.
Qed.

Definition delim_rest (x : byte) : N :=
  let l := N_of_byte x in if l =? 0 then 0 else N.lxor l (2 ^ byte_bit_index_N l).

Lemma bitlist_ones_count_snoc P x :
  bitlist_ones_count (P ++ [x]) = bitvector_ones_count P + popcount_N8 (delim_rest x).
Proof.
  unfold bitlist_ones_count, bitvector_ones_count, delim_rest.
  destruct (P ++ [x]) as [|y t] eqn:E; [symmetry in E; apply app_cons_not_nil in E; contradiction|].
  rewrite <- E. rewrite removelast_last. unfold last_byte. rewrite last_last.
  cbv zeta. destruct (N_of_byte x =? 0); [|reflexivity].
  change (popcount_N8 0) with 0. lia.
Qed.

Lemma delim_rest_pack r : (length r < 8)%nat ->
  delim_rest (byte_of_N (bits_val r + 2 ^ lenN r)) = bits_val r.
Proof.
  intros Hr. unfold delim_rest. rewrite N_of_byte_of_N by (apply delim_lt256, Hr). cbv zeta.
  destruct (N.eqb_spec (bits_val r + 2 ^ lenN r) 0) as [E|E]; [apply delim_nonzero in E; contradiction|].
  rewrite delim_index by assumption. apply delim_clear.
Qed.

Lemma bitlist_ones_count_pack bits :
  bitlist_ones_count (pack_bitlist bits) = lenN (filter id bits).
Proof.
  destruct (pack_bitlist_struct bits) as (A & r & q & E & HA & Hr & Hq & ->). subst bits.
  rewrite bitlist_ones_count_snoc, bitvector_ones_count_btb, delim_rest_pack by assumption.
  rewrite popcount_bits_val by lia. rewrite filter_app, lenN_app. reflexivity.
Qed.

(* ===================================================================================== *)
(** * 8. is_zero_bitlist *)

Lemma all_zero_btb bits : all_zero (bits_to_bytes bits) = forallb negb bits.
Proof.
  induction bits as [|bits Hne IH] using bits_ind8; [reflexivity|].
  rewrite btb_cons by assumption. unfold all_zero in *. cbn [forallb]. rewrite IH.
  rewrite N_of_byte_bits_val by (rewrite firstn_length; lia).
  rewrite bits_val_zero, <- forallb_app, firstn_skipn. reflexivity.
Qed.

Lemma is_zero_bitlist_snoc P x :
  is_zero_bitlist (P ++ [x]) = all_zero P && (delim_rest x =? 0).
Proof.
  unfold is_zero_bitlist, delim_rest.
  destruct (P ++ [x]) as [|y t] eqn:E; [symmetry in E; apply app_cons_not_nil in E; contradiction|].
  rewrite <- E. rewrite removelast_last. unfold last_byte. rewrite last_last. cbv zeta.
  destruct (all_zero P); cbn [negb andb]; [|reflexivity].
  destruct (N_of_byte x =? 0); reflexivity.
Qed.

Lemma is_zero_bitlist_pack bits : is_zero_bitlist (pack_bitlist bits) = forallb negb bits.
Proof.
  destruct (pack_bitlist_struct bits) as (A & r & q & E & HA & Hr & Hq & ->). subst bits.
  rewrite is_zero_bitlist_snoc, all_zero_btb, delim_rest_pack by assumption.
  rewrite bits_val_zero, forallb_app. reflexivity.
Qed.

Lemma is_zero_bitlist_nil : is_zero_bitlist [] = true.
Proof. reflexivity. Qed.

(* ===================================================================================== *)
(** * 9. covers *)

Lemma ldiff_double vy y vx x :
  N.ldiff (2 * vy + N.b2n y) (2 * vx + N.b2n x) = 2 * N.ldiff vy vx + N.b2n (y && negb x).
Proof.
  apply N.bits_inj. intros m. rewrite N.ldiff_spec.
  destruct (N.zero_or_succ m) as [->|[m' ->]].
  - rewrite !N.testbit_0_r. reflexivity.
  - rewrite !N.testbit_succ_r, N.ldiff_spec. reflexivity.
Qed.

Definition bit_covers (xy : bool * bool) : bool := implb (snd xy) (fst xy).

Lemma bits_val_ldiff : forall X Y, length X = length Y ->
  (N.ldiff (bits_val Y) (bits_val X) =? 0) = forallb bit_covers (combine X Y).
Proof.
  induction X as [|x X IH]; intros Y H; destruct Y as [|y Y]; try discriminate H.
  - reflexivity.
  - rewrite !bits_val_cons, ldiff_double. cbn [combine forallb]. rewrite <- IH by (cbn [length] in H; lia).
    unfold bit_covers. cbn [fst snd].
    destruct (N.eqb_spec (N.ldiff (bits_val Y) (bits_val X)) 0) as [E|E];
      destruct x, y; cbn [implb negb andb N.b2n]; lia.
Qed.

Lemma covers_body : forall a b, length a = length b ->
  forallb (fun ab => N.ldiff (N_of_byte (snd ab)) (N_of_byte (fst ab)) =? 0)
          (combine (bits_to_bytes a) (bits_to_bytes b))
  = forallb bit_covers (combine a b).
Proof.
  induction a as [|a Hne IH] using bits_ind8; intros b H.
  - destruct b; [reflexivity|discriminate H].
  - assert (b <> []) as Hb by (destruct a, b; try discriminate; contradiction).
    rewrite (btb_cons a), (btb_cons b) by assumption.
    cbn [combine forallb fst snd].
    rewrite !N_of_byte_bits_val by (rewrite firstn_length; lia).
    rewrite bits_val_ldiff by (rewrite !firstn_length, H; reflexivity).
    rewrite IH by (rewrite !skipn_length, H; reflexivity).
    rewrite <- (firstn_skipn 8 (combine a b)).
    rewrite forallb_app, combine_firstn, combine_skipn. reflexivity.
Qed.

Lemma covers_btb a b : length a = length b ->
  covers (bits_to_bytes a) (bits_to_bytes b)
  = OK (forallb (fun xy => implb (snd xy) (fst xy)) (combine a b)).
Proof.
  intros H. unfold covers. rewrite !btb_length, H, Nat.eqb_refl. cbn [negb].
  f_equal. apply covers_body, H.
Qed.

Lemma covers_pack a b : length a = length b ->
  covers (pack_bitlist a) (pack_bitlist b)
  = OK (forallb (fun xy => implb (snd xy) (fst xy)) (combine a b)).
Proof.
  intros H. unfold pack_bitlist. rewrite covers_btb by (rewrite !app_length, H; reflexivity).
  f_equal. clear -H. revert b H.
  induction a as [|x a IH]; intros b H; destruct b as [|y b]; try discriminate H.
  - reflexivity.
  - cbn [app combine forallb]. rewrite IH by (cbn [length] in H; lia). reflexivity.
Qed.

Lemma covers_err af bf : covers af bf = Err <-> length af <> length bf.
Proof.
  unfold covers. destruct (Nat.eqb_spec (length af) (length bf)) as [E|E]; cbn [negb].
  - split; [discriminate|]. intros H. contradiction.
  - split; [intros _; assumption|reflexivity].
Qed.

Lemma covers_no_panic af bf : covers af bf <> Panic.
Proof. unfold covers. destruct (negb _); discriminate. Qed.

Example covers_ex :
  covers (bits_to_bytes [true;true;false;true;false;false;true;false;true;true])
         (bits_to_bytes [true;false;false;true;false;false;false;false;true;false]) = OK true
  /\ covers (bits_to_bytes [true;false]) (bits_to_bytes [false;true]) = OK false.
Proof. split; vm_compute; reflexivity. Qed.

(* ===================================================================================== *)
(** * Corollaries stated in Props/C18.v *)

Lemma bitvector_check_zero bs : bitvector_check bs 0 = OK tt <-> bs = [].
Proof.
  rewrite bitvector_check_iff by (vm_compute; reflexivity). split.
  - intros (bits & Hl & ->). apply lenN_zero in Hl. subst bits. reflexivity.
  - intros ->. exists []. split; reflexivity.
Qed.

Lemma bitlist_len_pack_61 bits : lenN bits < 2 ^ 61 -> bitlist_len (pack_bitlist bits) = lenN bits.
Proof.
  intros H. apply bitlist_len_pack.
  change (2 ^ 61) with 2305843009213693952 in H. change (2 ^ 64) with 18446744073709551616. lia.
Qed.
