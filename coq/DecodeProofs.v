(* DecodeProofs.v — property C03: deserialization ([View.view_deser], the model of the
   Deserialize methods of view/*.go over codec.DecodingReader) never panics, accepts only
   canonical SSZ encodings, and accepts every canonical encoding below 2^32 bytes.

   Contents
     0. spec vocabulary used in the statements: [sizes_ok], [leaf_ok]
     1. no panic                         [view_deser_no_panic], [view_deserialize_no_panic]
     2. reader algebra                   [chain_ok], [rinv], [adv] (exactly k bytes consumed
                                         through a chain of limit counters), [dr_read_fwd/bwd],
                                         sub-scopes
     3. the slice decoder                [sdec : ty -> list byte -> option node] and its series
                                         helpers (plain firstn/skipn, no reader state)
     4. simulation                       [dec_fwd]/[dec_bwd]: an accepting decoder consumes
                                         exactly its scope and agrees with [sdec] on the slice;
                                         [sim_all], [view_deserialize_sdec]
     5. bytes and the layout of [ser_parts] ([pfield], [ser_parts_layout], [layout])
     6. canonicity / completeness of [sdec]   [sdec_sound], [sdec_complete]
     7. top-level theorems               [deser_no_panic], [deser_canonical], [deser_complete],
                                         [deser_rejects], [deser_local], [deser_local_conv];
                                         examples and counterexamples for the side conditions

   All ten type constructors are covered (nothing is restricted to a fragment). *)
From Coq Require Import PeanoNat ZArith ZifyN ZifyNat ZifyBool.
From Ztyp Require Import Base Bitlen Tree Types Spec Reader View Repr.
From Ztyp Require Import BitlenProofs SizeProofs MerkleProofs ReprProofs.
Open Scope N_scope.

#[local] Ltac Zify.zify_post_hook ::= Z.div_mod_to_equations.
Local Arguments N.pow : simpl never.
Local Arguments Nat.pow : simpl never.
Local Arguments N.of_nat : simpl never.
Local Arguments N.to_nat : simpl never.
Local Arguments N.div : simpl never.
Local Arguments N.modulo : simpl never.
Local Arguments N.log2_up : simpl never.
Local Arguments N.sub : simpl never.
Local Arguments N.mul : simpl never.
Local Arguments N.add : simpl never.
Local Opaque two64 two32.

(* ------------------------------------------------------------------------------------ *)
(** * 0. Spec vocabulary *)

(* Every type that occurs inside [t] (including [t]) has a maximal encoded length below 2^64,
   so that the uint64 size metadata of the Go constructors ([View.info]) is the spec's
   ([SizeProofs.info_sizes]).  For all constructors but [TList e 0] this follows from
   [spec_max_len t < 2^64] alone; a list of limit 0 hides the size of its element type. *)
Fixpoint sizes_ok (t : ty) : bool :=
  (spec_max_len t <? 2 ^ 64) &&
  match t with
  | TVector e _ | TList e _ => sizes_ok e
  | TContainer fs => forallb sizes_ok fs
  | TUnion _ opts => forallb sizes_ok opts
  | _ => true
  end.

(* The single-chunk leaf types (uintN, bool, small byte vectors, roots) read exactly their own
   size and do not look at the scope: the property hands them "exactly their fixed size".
   All other types check their scope themselves. *)
Definition leaf_ok (t : ty) (scope : N) : Prop :=
  match t with
  | TUint w => scope = w
  | TBool => scope = 1
  | TBytes n => scope = n
  | TRoot => scope = 32
  | _ => True
  end.

(* ------------------------------------------------------------------------------------ *)
(** * 1. No panic *)

Section NoPanic.
Variable zh : nat -> chunk.

Lemma np_bind {A B} (r : res A) (f : A -> res B) :
  r <> Panic -> (forall a, f a <> Panic) -> bind r f <> Panic.
Proof. intros Hr Hf. destruct r; cbn [bind]; [apply Hf|discriminate|congruence]. Qed.

Lemma dr_read_np st d k : dr_read st d k <> Panic.
Proof. unfold dr_read. repeat (destruct (_ : bool)); discriminate. Qed.

Lemma dr_sub_scope_np st d k : dr_sub_scope st d k <> Panic.
Proof. unfold dr_sub_scope. destruct (_ : bool); discriminate. Qed.

Lemma dr_read_byte_np st d : dr_read_byte st d <> Panic.
Proof.
  unfold dr_read_byte. apply np_bind; [apply dr_read_np|]. intros [[bs st'] d']. discriminate.
Qed.

Lemma dr_read_u32_np st d : dr_read_u32 st d <> Panic.
Proof.
  unfold dr_read_u32. apply np_bind; [apply dr_read_np|]. intros [[bs st'] d']. discriminate.
Qed.

(* SubtreeFillToContents never panics up to the depth of the zero-hash table *)
Lemma fill_to_contents_np d ns : N.of_nat d <= 64 -> fill_to_contents zh ns d <> Panic.
Proof.
  intros Hd. destruct (N.eq_dec (N.of_nat d) 64) as [E|NE].
  - destruct ns as [|n0 rest].
    + rewrite fill_to_contents_nil_ok by exact Hd. discriminate.
    + rewrite fill_to_contents_cons, shl64_1_high by lia.
      destruct (N.ltb_spec 0 (N.of_nat (length (n0 :: rest)))) as [_|Hge]; [discriminate|].
      cbn [length] in Hge. lia.
  - apply fill_to_contents_no_panic. lia.
Qed.

Lemma contents_depth_le64 t : contents_depth t <= 64.
Proof. destruct t; cbn [contents_depth]; try lia; try apply cover_depth_le64.
  - destruct (is_basic_elem t); apply cover_depth_le64.
  - destruct (is_basic_elem t); apply cover_depth_le64.
Qed.

Lemma fill_contents_np ns t : fill_contents zh ns t <> Panic.
Proof.
  unfold fill_contents. apply fill_to_contents_np. unfold nat_of. rewrite N2Nat.id.
  apply contents_depth_le64.
Qed.

Definition dec_np (dec : decoder) : Prop := forall st d, dec st d <> Panic.

Lemma deser_fixed_series_np dec : dec_np dec ->
  forall count size st d, deser_fixed_series dec count size st d <> Panic.
Proof.
  intros Hdec. induction count as [|k IH]; intros size st d; cbn [deser_fixed_series]; [discriminate|].
  apply np_bind; [apply dr_sub_scope_np|]. intros [st1 sd].
  apply np_bind; [apply Hdec|]. intros [n st2].
  apply np_bind; [apply IH|]. intros [ns st3]. discriminate.
Qed.

Lemma read_offsets_np : forall count prev st d, read_offsets count prev st d <> Panic.
Proof.
  induction count as [|k IH]; intros prev st d; cbn [read_offsets]; [discriminate|].
  apply np_bind; [apply dr_read_u32_np|]. intros [[off st1] d1].
  destruct (off <? prev); [discriminate|].
  apply np_bind; [apply IH|]. intros [[offs st2] d2]. discriminate.
Qed.

Lemma deser_var_elems_np dec : dec_np dec ->
  forall offs scope st d, deser_var_elems dec offs scope st d <> Panic.
Proof.
  intros Hdec. induction offs as [|o rest IH]; intros scope st d; cbn [deser_var_elems];
    [discriminate|].
  apply np_bind; [apply dr_sub_scope_np|]. intros [st1 sd].
  apply np_bind; [apply Hdec|]. intros [n st2].
  apply np_bind; [apply IH|]. intros [ns st3]. discriminate.
Qed.

Lemma deser_cont_fixed_np : forall (fs : list (tinfo * decoder)),
  Forall (fun p => dec_np (snd p)) fs ->
  forall first fp prev scope st d, deser_cont_fixed fs first fp prev scope st d <> Panic.
Proof.
  induction fs as [|[i dec] rest IH]; intros HF first fp prev scope st d;
    cbn [deser_cont_fixed]; [discriminate|].
  pose proof (Forall_inv HF) as Hdec. pose proof (Forall_inv_tail HF) as Hrest. cbn [snd] in Hdec.
  destruct (ti_fixed i).
  - apply np_bind; [apply dr_sub_scope_np|]. intros [st1 sd].
    apply np_bind; [apply Hdec|]. intros [n st2].
    apply np_bind; [apply IH; exact Hrest|]. intros [[cs st3] d3]. discriminate.
  - apply np_bind; [apply dr_read_u32_np|]. intros [[off st1] d1].
    destruct (off <? prev); [discriminate|].
    destruct (scope <? off); [discriminate|].
    destruct (first && negb (off =? fp)); [discriminate|].
    apply np_bind; [apply IH; exact Hrest|]. intros [[cs st3] d3]. discriminate.
Qed.

Lemma deser_cont_var_np : forall (fs : list (cfield * decoder)),
  Forall (fun p => dec_np (snd p)) fs ->
  forall scope st d, deser_cont_var fs scope st d <> Panic.
Proof.
  induction fs as [|[c dec] rest IH]; intros HF scope st d; cbn [deser_cont_var]; [discriminate|].
  pose proof (Forall_inv HF) as Hdec. pose proof (Forall_inv_tail HF) as Hrest. cbn [snd] in Hdec.
  destruct c as [n|off].
  - apply np_bind; [apply IH; exact Hrest|]. intros [ns st1]. discriminate.
  - apply np_bind; [apply dr_sub_scope_np|]. intros [st1 sd].
    apply np_bind; [apply Hdec|]. intros [n st2].
    apply np_bind; [apply IH; exact Hrest|]. intros [ns st3]. discriminate.
Qed.

Lemma Forall_combine_snd {A B} (P : B -> Prop) : forall (l : list A) (l' : list B),
  Forall P l' -> Forall (fun p => P (snd p)) (combine l l').
Proof.
  induction l as [|x l IH]; intros l' HF; [constructor|].
  destruct l' as [|y l']; [constructor|]. cbn [combine].
  constructor; [exact (Forall_inv HF)|apply IH, (Forall_inv_tail HF)].
Qed.

Lemma Forall_map' {A B} (f : A -> B) (P : B -> Prop) l :
  Forall (fun x => P (f x)) l -> Forall P (map f l).
Proof. induction 1; cbn [map]; constructor; assumption. Qed.

(* the option selected by an in-range selector exists: the [Panic] of [pick] is dead code *)
Lemma union_pick_in_range none (opts : list ty) sel :
  (wrap8 (union_count none opts) <=? sel) = false -> none && (sel =? 0) = false ->
  (nat_of (if none then sel - 1 else sel) < length opts)%nat.
Proof.
  intros Hsel Hnone. apply N.leb_gt in Hsel. unfold wrap8, union_count in Hsel.
  assert (Hm : forall x, x mod 256 <= x) by (intros x; apply N.mod_le; lia).
  unfold nat_of. destruct none.
  - cbn [andb] in Hnone. apply N.eqb_neq in Hnone.
    specialize (Hm (N.of_nat (length opts) + 1)). lia.
  - specialize (Hm (N.of_nat (length opts) + 0)). lia.
Qed.

Theorem view_deser_no_panic : forall t st d, view_deser zh t st d <> Panic.
Proof.
  induction t as [w| |n| |n|n|e n IHe|e n IHe|fs IHfs|none opts IHopts] using ty_ind';
    intros st d.
  - cbn [view_deser]. destruct (uint_width_ok w); [|discriminate].
    apply np_bind; [apply dr_read_np|]. intros [[bs st1] d1]. discriminate.
  - cbn [view_deser]. apply np_bind; [apply dr_read_byte_np|]. intros [[b st1] d1].
    destruct (1 <? b); discriminate.
  - cbn [view_deser]. apply np_bind; [apply dr_read_np|]. intros [[bs st1] d1]. discriminate.
  - cbn [view_deser]. apply np_bind; [apply dr_read_np|]. intros [[bs st1] d1]. discriminate.
  - cbn [view_deser]. destruct (negb _); [discriminate|].
    apply np_bind; [apply dr_read_np|]. intros [[bs st1] d1].
    destruct (_ && _); [discriminate|].
    apply np_bind; [apply fill_contents_np|]. intros root. discriminate.
  - cbn [view_deser]. destruct (dr_scope d =? 0); [discriminate|].
    destruct (_ <? _); [discriminate|].
    apply np_bind; [apply dr_read_np|]. intros [[bs st1] d1].
    destruct (_ =? 0); [discriminate|].
    destruct (_ && _); [cbn [default_node bind]; discriminate|].
    destruct (n <? _); [discriminate|].
    apply np_bind; [apply fill_contents_np|]. intros c. discriminate.
  - cbn [view_deser]. destruct (is_basic_elem e).
    + destruct (negb _); [discriminate|].
      apply np_bind; [apply dr_read_np|]. intros [[bs st1] d1].
      apply np_bind; [apply fill_contents_np|]. intros root. discriminate.
    + destruct (ti_fixed (info e)).
      * destruct (negb _); [discriminate|].
        apply np_bind; [apply deser_fixed_series_np; exact IHe|]. intros [ns st1].
        apply np_bind; [apply fill_contents_np|]. intros root. discriminate.
      * apply np_bind; [apply read_offsets_np|]. intros [[offs st1] d1].
        destruct (negb _); [discriminate|].
        apply np_bind; [apply deser_var_elems_np; exact IHe|]. intros [ns st2].
        apply np_bind; [apply fill_contents_np|]. intros root. discriminate.
  - cbn [view_deser]. destruct (is_basic_elem e).
    + destruct (n <? _); [discriminate|]. destruct (negb _); [discriminate|].
      destruct (_ =? 0); [cbn [default_node bind]; discriminate|].
      apply np_bind; [apply dr_read_np|]. intros [[bs st1] d1].
      apply np_bind; [apply fill_contents_np|]. intros c. discriminate.
    + destruct (dr_scope d =? 0); [cbn [default_node bind]; discriminate|].
      destruct (ti_fixed (info e)).
      * destruct (n <? _); [discriminate|]. destruct (negb _); [discriminate|].
        apply np_bind; [apply deser_fixed_series_np; exact IHe|]. intros [ns st1].
        apply np_bind; [apply fill_contents_np|]. intros c. discriminate.
      * apply np_bind; [apply dr_read_u32_np|]. intros [[first st1] d1].
        destruct (negb _); [discriminate|]. destruct (n <? _); [discriminate|].
        destruct (_ || _); [discriminate|].
        apply np_bind; [apply read_offsets_np|]. intros [[offs st2] d2].
        apply np_bind; [apply deser_var_elems_np; exact IHe|]. intros [ns st3].
        apply np_bind; [apply fill_contents_np|]. intros c. discriminate.
  - cbn [view_deser]. destruct (_ || _); [discriminate|].
    assert (Hdecs : Forall dec_np (map (view_deser zh) fs)).
    { apply Forall_map'. exact IHfs. }
    apply np_bind; [apply deser_cont_fixed_np, Forall_combine_snd, Hdecs|]. intros [[cfs st1] d1].
    apply np_bind; [apply deser_cont_var_np, Forall_combine_snd, Hdecs|]. intros [ns st2].
    apply np_bind; [apply fill_contents_np|]. intros root. discriminate.
  - cbn [view_deser]. destruct (dr_scope d =? 0); [discriminate|].
    apply np_bind; [apply dr_read_byte_np|]. intros [[sel st1] d1].
    destruct (wrap8 (union_count none opts) <=? sel) eqn:Hsel; [discriminate|].
    destruct (none && (sel =? 0)) eqn:Hnone.
    + destruct (negb _); discriminate.
    + pose proof (union_pick_in_range none opts sel Hsel Hnone) as Hk.
      change (pick_ty Panic (fun o =>
                if ti_fixed (info o) && negb (ti_size (info o) =? dr_scope d - 1) then Err else
                do r <- view_deser zh o st1 d1; let '(c, st2) := r in
                OK (Pair c (Leaf (pad32 [byte_of_N sel])), st2))
              opts (nat_of (if none then sel - 1 else sel)) <> Panic).
      rewrite pick_ty_nth_error.
      destruct (nth_error opts (nat_of (if none then sel - 1 else sel))) as [o|] eqn:Eo.
      * destruct (ti_fixed (info o) && negb (ti_size (info o) =? dr_scope d - 1)); [discriminate|].
        apply np_bind; [|intros [c st2]; discriminate].
        rewrite Forall_forall in IHopts. apply IHopts. eapply nth_error_In, Eo.
      * apply nth_error_None in Eo. lia.
Qed.

Theorem view_deserialize_no_panic t bs : view_deserialize zh t bs <> Panic.
Proof.
  unfold view_deserialize, view_deserialize_scoped, new_reader.
  apply np_bind; [apply view_deser_no_panic|]. intros r. discriminate.
Qed.

End NoPanic.

(* ------------------------------------------------------------------------------------ *)
(** * 2. Reader algebra *)

From Ztyp Require BitfieldsProofs.
Module BP := BitfieldsProofs.

Lemma two32_eq : two32 = 2 ^ 32.
Proof. reflexivity. Qed.
Lemma two32_lt_two64 : two32 < two64.
Proof. rewrite two32_eq, two64_eq. apply N.pow_lt_mono_r; lia. Qed.
Lemma two32_val : two32 = 4294967296.
Proof. reflexivity. Qed.

(* the chain of limit counters of a reader: distinct, existing counters *)
Definition chain_ok (st : rstate) (chain : list nat) : Prop :=
  NoDup chain /\ Forall (fun j => (j < length (r_lims st))%nat) chain.

(* reader invariant: valid chain, index within the scope, scope below 2^32 *)
Definition rinv (st : rstate) (d : dreader) : Prop :=
  chain_ok st (d_chain d) /\ d_i d <= d_max d /\ d_max d < two32.

(* [adv st chain k st']: from [st] to [st'] exactly [k] bytes were taken from the stream
   through the limit counters of [chain]: the stream lost its first k bytes, every counter of
   the chain went down by k, the other existing counters are untouched (new counters may
   have been added by sub-scopes) *)
Definition adv (st : rstate) (chain : list nat) (k : N) (st' : rstate) : Prop :=
  r_stream st' = skipn (nat_of k) (r_stream st) /\
  (length (r_lims st) <= length (r_lims st'))%nat /\
  forall j, (j < length (r_lims st))%nat ->
    (In j chain -> lim_get st' j = lim_get st j - k) /\
    (~ In j chain -> lim_get st' j = lim_get st j).

Lemma adv_refl st chain : adv st chain 0 st.
Proof.
  split; [reflexivity|]. split; [lia|]. intros j Hj. split; intros _; [lia|reflexivity].
Qed.

Lemma adv_trans st chain a st1 b st2 :
  adv st chain a st1 -> adv st1 chain b st2 -> adv st chain (a + b) st2.
Proof.
  intros (S1 & L1 & C1) (S2 & L2 & C2). repeat split.
  - rewrite S2, S1. unfold nat_of. rewrite N2Nat.inj_add, BitfieldsProofs.skipn_add. reflexivity.
  - lia.
  - intros Hin. destruct (C1 j H) as [C1a _]. destruct (C2 j ltac:(lia)) as [C2a _].
    rewrite (C2a Hin), (C1a Hin). lia.
  - intros Hin. destruct (C1 j H) as [_ C1b]. destruct (C2 j ltac:(lia)) as [_ C2b].
    rewrite (C2b Hin), (C1b Hin). reflexivity.
Qed.

Lemma adv_eq st chain a b st' : a = b -> adv st chain a st' -> adv st chain b st'.
Proof. intros ->. exact (fun H => H). Qed.

Lemma chain_ok_adv st chain c k st' : chain_ok st chain -> adv st c k st' -> chain_ok st' chain.
Proof.
  intros [Hnd HF] (_ & L & _). split; [exact Hnd|].
  eapply Forall_impl; [|exact HF]. cbv beta. intros j Hj. lia.
Qed.

Lemma lenN_skipn' {A} (l : list A) k : lenN (skipn (nat_of k) l) = lenN l - k.
Proof. rewrite lenN_skipn. unfold nat_of. rewrite N2Nat.id. reflexivity. Qed.

Lemma lenN_firstn' {A} (l : list A) k : lenN (firstn (nat_of k) l) = N.min k (lenN l).
Proof. rewrite lenN_firstn. unfold nat_of. rewrite N2Nat.id. reflexivity. Qed.

Lemma avail_le_stream st chain : avail st chain <= lenN (r_stream st).
Proof.
  unfold avail. induction chain as [|j c IH]; cbn [fold_right]; [unfold lenN; lia|]. lia.
Qed.

Lemma avail_adv st chain k st' :
  Forall (fun j => (j < length (r_lims st))%nat) chain ->
  adv st chain k st' -> avail st' chain = avail st chain - k.
Proof.
  intros HF (S & L & C). unfold avail.
  assert (Hin : forall j, In j chain -> In j chain) by auto.
  revert HF Hin. generalize chain at 1 2 4 5. intros c.
  induction c as [|j c IH]; intros HF Hin; cbn [fold_right].
  - rewrite S. fold (lenN (skipn (nat_of k) (r_stream st))). rewrite lenN_skipn'. reflexivity.
  - rewrite IH.
    + destruct (C j (Forall_inv HF)) as [Cj _]. rewrite (Cj (Hin j (or_introl eq_refl))). lia.
    + exact (Forall_inv_tail HF).
    + intros x Hx. apply Hin. right. exact Hx.
Qed.

(* the counters after [consume] *)
Definition dec_lims (lims : list N) (chain : list nat) (k : N) : list N :=
  fold_right (fun idx ls => list_set ls idx (nth idx ls 0 - k)) lims chain.

Lemma dec_lims_length lims k : forall chain, length (dec_lims lims chain k) = length lims.
Proof.
  induction chain as [|j c IH]; cbn [dec_lims fold_right]; [reflexivity|].
  fold (dec_lims lims c k). rewrite BitfieldsProofs.list_set_length. exact IH.
Qed.

Lemma dec_lims_nth lims k : forall chain,
  NoDup chain -> Forall (fun j => (j < length lims)%nat) chain ->
  forall j, (In j chain -> nth j (dec_lims lims chain k) 0 = nth j lims 0 - k) /\
            (~ In j chain -> nth j (dec_lims lims chain k) 0 = nth j lims 0).
Proof.
  induction chain as [|i c IH]; intros Hnd HF j.
  - split; [intros []|reflexivity].
  - cbn [dec_lims fold_right]. fold (dec_lims lims c k).
    pose proof (NoDup_cons_iff i c) as [Hnd' _]. destruct (Hnd' Hnd) as [Hni Hndc].
    specialize (IH Hndc (Forall_inv_tail HF)).
    rewrite BitfieldsProofs.nth_list_set by (rewrite dec_lims_length; exact (Forall_inv HF)).
    destruct (Nat.eqb_spec j i) as [->|Hne].
    + split; [intros _|intros Hn; exfalso; apply Hn; left; reflexivity].
      destruct (IH i) as [_ IHb]. rewrite (IHb Hni). reflexivity.
    + destruct (IH j) as [IHa IHb]. split.
      * intros [E|Hin]; [congruence|]. apply IHa, Hin.
      * intros Hn. apply IHb. intros Hin. apply Hn. right. exact Hin.
Qed.

Lemma adv_consume st chain k : chain_ok st chain -> adv st chain k (consume st chain k).
Proof.
  intros [Hnd HF]. unfold consume. fold (dec_lims (r_lims st) chain k).
  repeat split; cbn [r_stream r_lims]; unfold lim_get; cbn [r_lims].
  - rewrite dec_lims_length. lia.
  - apply (dec_lims_nth (r_lims st) k chain Hnd HF j).
  - apply (dec_lims_nth (r_lims st) k chain Hnd HF j).
Qed.

(* ---- dr_read ---- *)
Lemma dr_read_fwd st d k bs st' d' : rinv st d -> dr_read st d k = OK (bs, st', d') ->
  k <= dr_scope d /\ k <= avail st (d_chain d) /\ bs = firstn (nat_of k) (r_stream st) /\
  adv st (d_chain d) k st' /\
  d_chain d' = d_chain d /\ d_max d' = d_max d /\ d_i d' = d_i d + k.
Proof.
  intros (Hc & Hi & Hm) H. unfold dr_read in H. unfold dr_scope.
  destruct (N.eqb_spec k 0) as [->|Hk].
  - inversion H; subst. split; [lia|]. split; [lia|]. split; [reflexivity|].
    split; [apply adv_refl|]. repeat split; lia.
  - destruct (_ <? k); [discriminate H|].
    destruct (N.ltb_spec (d_max d) (d_i d + k)); [discriminate H|].
    destruct (N.ltb_spec (avail st (d_chain d)) k); [discriminate H|].
    inversion H; subst; cbn [d_chain d_max d_i]. split; [lia|]. split; [lia|].
    split; [reflexivity|]. split; [apply adv_consume, Hc|]. repeat split; lia.
Qed.

Lemma dr_read_bwd st d k : rinv st d -> k <= dr_scope d -> k <= avail st (d_chain d) ->
  exists st' d', dr_read st d k = OK (firstn (nat_of k) (r_stream st), st', d').
Proof.
  intros (Hc & Hi & Hm) Hs Ha. unfold dr_read. unfold dr_scope in Hs.
  pose proof two32_lt_two64 as H32.
  destruct (N.eqb_spec k 0) as [->|Hk]; [do 2 eexists; reflexivity|].
  destruct (N.ltb_spec (two64 - 1 - d_i d) k); [lia|].
  destruct (N.ltb_spec (d_max d) (d_i d + k)); [lia|].
  destruct (N.ltb_spec (avail st (d_chain d)) k); [lia|].
  do 2 eexists; reflexivity.
Qed.

Lemma rinv_read st d k st' d' : rinv st d -> k <= dr_scope d -> adv st (d_chain d) k st' ->
  d_chain d' = d_chain d -> d_max d' = d_max d -> d_i d' = d_i d + k ->
  rinv st' d' /\ dr_scope d' = dr_scope d - k.
Proof.
  intros (Hc & Hi & Hm) Hk Ha E1 E2 E3. unfold rinv, dr_scope in *. rewrite E1, E2, E3.
  split; [split; [eapply chain_ok_adv; eassumption|split; lia]|lia].
Qed.

(* ---- dr_sub_scope ---- *)
Definition sub_st (st : rstate) (count : N) : rstate :=
  mkRS (r_stream st) (r_lims st ++ [count]).
Definition sub_d (st : rstate) (d : dreader) (count : N) : dreader :=
  mkDR 0 count (length (r_lims st) :: d_chain d).

Lemma dr_sub_scope_inv st d count st1 sd : dr_sub_scope st d count = OK (st1, sd) ->
  count <= dr_scope d /\
  st1 = sub_st st count /\ sd = sub_d st d count.
Proof.
  unfold dr_sub_scope. destruct (N.ltb_spec (dr_scope d) count) as [Hlt|Hge]; [discriminate|].
  intros HH. inversion HH. repeat split. exact Hge.
Qed.

Lemma dr_sub_scope_ok st d count : count <= dr_scope d ->
  dr_sub_scope st d count = OK (sub_st st count, sub_d st d count).
Proof.
  intros H. unfold dr_sub_scope. destruct (N.ltb_spec (dr_scope d) count); [lia|reflexivity].
Qed.

Section SubScope.
Variables (st : rstate) (d : dreader) (count : N).
Notation st1 := (sub_st st count).
Notation sd := (sub_d st d count).

Lemma lim_get_sub_old j : (j < length (r_lims st))%nat -> lim_get st1 j = lim_get st j.
Proof. intros Hj. unfold lim_get, sub_st. cbn [r_lims]. apply app_nth1. exact Hj. Qed.

Lemma lim_get_sub_new : lim_get st1 (length (r_lims st)) = count.
Proof. unfold lim_get, sub_st. cbn [r_lims]. rewrite app_nth2, Nat.sub_diag by lia. reflexivity. Qed.

Lemma rinv_sub : rinv st d -> count <= dr_scope d -> rinv st1 sd /\ dr_scope sd = count.
Proof.
  intros ((Hnd & HF) & Hi & Hm) Hc. unfold rinv, chain_ok, dr_scope, sub_st, sub_d in *.
  cbn [d_chain d_i d_max r_lims]. rewrite app_length. cbn [length].
  repeat split; try lia.
  - constructor; [|exact Hnd]. intros Hin. rewrite Forall_forall in HF. specialize (HF _ Hin). lia.
  - constructor; [lia|]. eapply Forall_impl; [|exact HF]. cbv beta. intros; lia.
Qed.

Lemma avail_sub : rinv st d ->
  avail st1 (d_chain sd) = N.min count (avail st (d_chain d)).
Proof.
  intros ((Hnd & HF) & _). unfold sub_d. cbn [d_chain]. unfold avail at 1. cbn [fold_right].
  rewrite lim_get_sub_new. f_equal. fold (avail st1 (d_chain d)). unfold avail.
  clear Hnd. induction HF as [|j c Hj _ IH]; cbn [fold_right]; [reflexivity|].
  rewrite IH, lim_get_sub_old by exact Hj. reflexivity.
Qed.

Lemma adv_sub k st2 : rinv st d -> adv st1 (d_chain sd) k st2 -> adv st (d_chain d) k st2.
Proof.
  intros ((Hnd & HF) & _) (S & L & C). unfold sub_d, sub_st in S, L, C.
  cbn [r_stream r_lims d_chain] in *.
  rewrite app_length in L. cbn [length] in L. split; [exact S|]. split; [lia|].
  intros j Hj. split.
  - intros Hin. destruct (C j) as [Ca _]; [rewrite app_length; cbn [length]; lia|].
    rewrite Ca by (right; exact Hin). f_equal. apply lim_get_sub_old. exact Hj.
  - intros Hin. destruct (C j) as [_ Cb]; [rewrite app_length; cbn [length]; lia|].
    rewrite Cb; [apply lim_get_sub_old; exact Hj|].
    intros [E|Hin']; [lia|contradiction].
Qed.
End SubScope.

(* the parent's invariant survives whatever happened below *)
Lemma rinv_adv st d c k st' : rinv st d -> adv st c k st' -> rinv st' d.
Proof.
  intros (Hc & Hi & Hm) Ha. split; [|split; assumption]. eapply chain_ok_adv; eassumption.
Qed.

(* slices *)
Lemma firstn_firstn_le {A} (l : list A) a b : (a <= b)%nat -> firstn a (firstn b l) = firstn a l.
Proof. intros H. rewrite firstn_firstn. f_equal. lia. Qed.

Lemma skipn_firstn_sub {A} (l : list A) a b :
  skipn a (firstn b l) = firstn (b - a) (skipn a l).
Proof. apply skipn_firstn_comm. Qed.

Lemma firstnN_firstnN {A} (l : list A) a b : a <= b ->
  firstn (nat_of a) (firstn (nat_of b) l) = firstn (nat_of a) l.
Proof. intros H. apply firstn_firstn_le. unfold nat_of. lia. Qed.

Lemma skipnN_firstnN {A} (l : list A) a b :
  skipn (nat_of a) (firstn (nat_of b) l) = firstn (nat_of (b - a)) (skipn (nat_of a) l).
Proof. rewrite skipn_firstn_sub. f_equal. unfold nat_of. lia. Qed.

(* ------------------------------------------------------------------------------------ *)
(** * 3. The slice decoder

   [sdec t bs] decodes EXACTLY the byte string [bs] as a value of type [t].  It performs the
   checks of [view_deser] in the same order, but on plain slices ([firstn]/[skipn]) instead of
   reader states, and with exact arithmetic for the sizes of variable-size parts (a part
   that does not fit in the remaining bytes is rejected). *)

Definition sdecoder := list byte -> option node.
Definition r2o {A} (r : res A) : option A := match r with OK a => Some a | _ => None end.
Definition obind {A B} (o : option A) (f : A -> option B) : option B :=
  match o with Some a => f a | None => None end.
Notation "'odo' x <- r ; k" := (obind r (fun x => k))
  (at level 200, x pattern, r at level 100, k at level 200, right associativity).

(* [count] elements of [size] bytes each from the front of [bs] *)
Fixpoint s_fixed_series (dec : sdecoder) (count : nat) (size : N) (bs : list byte)
  : option (list node) :=
  match count with
  | O => Some []
  | S k =>
    if lenN bs <? size then None else
    odo n <- dec (firstn (nat_of size) bs);
    odo ns <- s_fixed_series dec k size (skipn (nat_of size) bs);
    Some (n :: ns)
  end.

(* [count] little-endian uint32 offsets, non-decreasing from [prev]; returns the rest *)
Fixpoint s_offsets (count : nat) (prev : N) (bs : list byte) : option (list N * list byte) :=
  match count with
  | O => Some ([], bs)
  | S k =>
    if lenN bs <? 4 then None else
    let off := le_val (firstn 4 bs) in
    if off <? prev then None else
    odo r <- s_offsets k off (skipn 4 bs); let '(offs, rest) := r in
    Some (off :: offs, rest)
  end.

(* elements between consecutive offsets; [bs] starts at the first offset; the last element
   ends at [scope] *)
Fixpoint s_var_elems (dec : sdecoder) (offs : list N) (scope : N) (bs : list byte)
  : option (list node) :=
  match offs with
  | [] => Some []
  | o :: rest =>
    let size := match rest with o' :: _ => o' - o | [] => scope - o end in
    if (match rest with _ :: _ => false | [] => scope <? o end) then None else
    if lenN bs <? size then None else
    odo n <- dec (firstn (nat_of size) bs);
    odo ns <- s_var_elems dec rest scope (skipn (nat_of size) bs);
    Some (n :: ns)
  end.

Fixpoint s_cont_fixed (fs : list (tinfo * sdecoder)) (first : bool) (fixed_part : N)
         (prev scope : N) (bs : list byte) : option (list cfield * list byte) :=
  match fs with
  | [] => Some ([], bs)
  | (i, dec) :: rest =>
    if ti_fixed i then
      if lenN bs <? ti_size i then None else
      odo n <- dec (firstn (nat_of (ti_size i)) bs);
      odo more <- s_cont_fixed rest first fixed_part prev scope (skipn (nat_of (ti_size i)) bs);
      let '(cs, bs') := more in Some (CFixed n :: cs, bs')
    else
      if lenN bs <? 4 then None else
      let off := le_val (firstn 4 bs) in
      if off <? prev then None else
      if scope <? off then None else
      if first && negb (off =? fixed_part) then None else
      odo more <- s_cont_fixed rest false fixed_part off scope (skipn 4 bs);
      let '(cs, bs') := more in Some (CVar off :: cs, bs')
  end.

(* the next offset in a list of container fields *)
Section CfNext.
Context {D : Type}.
Fixpoint cf_next (l : list (cfield * D)) : option N :=
  match l with
  | [] => None
  | (CVar o, _) :: _ => Some o
  | _ :: l' => cf_next l'
  end.
End CfNext.

Fixpoint s_cont_var (fs : list (cfield * sdecoder)) (scope : N) (bs : list byte)
  : option (list node) :=
  match fs with
  | [] => Some []
  | (CFixed n, _) :: rest => odo ns <- s_cont_var rest scope bs; Some (n :: ns)
  | (CVar off, dec) :: rest =>
    let size := match cf_next rest with Some o' => o' - off | None => scope - off end in
    if lenN bs <? size then None else
    odo n <- dec (firstn (nat_of size) bs);
    odo ns <- s_cont_var rest scope (skipn (nat_of size) bs);
    Some (n :: ns)
  end.

Section Sdec.
Variable zh : nat -> chunk.

Fixpoint sdec (t : ty) (bs : list byte) {struct t} : option node :=
  let scope := lenN bs in
  match t with
  | TUint w =>
    if uint_width_ok w then (if scope =? w then Some (Leaf (pad32 bs)) else None) else None
  | TBool =>
    if negb (scope =? 1) then None else
    let b := le_val bs in
    if 1 <? b then None else Some (Leaf (if b =? 1 then true_chunk else zh 0))
  | TBytes n => if scope =? n then Some (Leaf (pad32 bs)) else None
  | TRoot => if scope =? 32 then Some (Leaf (pad32 bs)) else None
  | TBitvector n =>
    if negb (ti_size (info t) =? scope) then None else
    if negb (scope =? 0) && negb (N.land n 7 =? 0)
       && negb (N.land (N_of_byte (last bs b0)) (2 ^ (N.land n 7) - 1) =? N_of_byte (last bs b0))
    then None else
    r2o (fill_contents zh (map Leaf (chunkify bs)) t)
  | TBitlist n =>
    if scope =? 0 then None else
    if ti_max (info t) <? scope then None else
    let lastb := N_of_byte (last bs b0) in
    if lastb =? 0 then None else
    if (scope =? 1) && (lastb =? 1) then r2o (default_node zh t) else
    let dbi := byte_bit_index_N lastb in
    let bit_len := wrap64 (N.shiftl (scope - 1) 3) + dbi in
    if n <? bit_len then None else
    let contents :=
        if dbi =? 0 then removelast bs
        else removelast bs ++ [byte_of_N (N.lxor lastb (2 ^ dbi))] in
    odo c <- r2o (fill_contents zh (map Leaf (chunkify contents)) t);
    Some (Pair c (len_leaf bit_len))
  | TVector e n =>
    let ie := info e in
    if is_basic_elem e then
      if negb (ti_size (info t) =? scope) then None else
      r2o (fill_contents zh (map Leaf (chunkify bs)) t)
    else if ti_fixed ie then
      if negb (ti_size (info t) =? scope) then None else
      odo ns <- s_fixed_series (sdec e) (nat_of n) (ti_size ie) bs;
      r2o (fill_contents zh ns t)
    else
      odo r <- s_offsets (nat_of n) 0 bs; let '(offs, rest) := r in
      if negb (hd 0 offs =? mul64 n 4) then None else
      odo ns <- s_var_elems (sdec e) offs scope rest;
      r2o (fill_contents zh ns t)
  | TList e n =>
    let ie := info e in
    if is_basic_elem e then
      let esz := ti_size ie in
      let len := scope / esz in
      if n <? len then None else
      if negb (mul64 len esz =? scope) then None else
      if len =? 0 then r2o (default_node zh t) else
      odo c <- r2o (fill_contents zh (map Leaf (chunkify bs)) t);
      Some (Pair c (len_leaf len))
    else if scope =? 0 then r2o (default_node zh t)
    else if ti_fixed ie then
      let esz := ti_size ie in
      let len := scope / esz in
      if n <? len then None else
      if negb (mul64 len esz =? scope) then None else
      odo ns <- s_fixed_series (sdec e) (nat_of len) esz bs;
      odo c <- r2o (fill_contents zh ns t);
      Some (Pair c (len_leaf len))
    else
      if scope <? 4 then None else
      let first := le_val (firstn 4 bs) in
      if negb (first mod 4 =? 0) then None else
      let len := first / 4 in
      if n <? len then None else
      if (first =? 0) || (scope <? first) then None else
      odo r <- s_offsets (nat_of (len - 1)) first (skipn 4 bs); let '(offs, rest) := r in
      odo ns <- s_var_elems (sdec e) (first :: offs) scope rest;
      odo c <- r2o (fill_contents zh ns t);
      Some (Pair c (len_leaf len))
  | TContainer fs =>
    let it := info t in
    if (scope <? ti_min it) || (ti_max it <? scope) then None else
    let fds := combine (map info fs) (map sdec fs) in
    let fp := fixed_part_size fs in
    odo r <- s_cont_fixed fds true fp (wrap32 fp) scope bs; let '(cfs, rest) := r in
    odo ns <- s_cont_var (combine cfs (map sdec fs)) scope rest;
    r2o (fill_contents zh ns t)
  | TUnion none opts =>
    if scope =? 0 then None else
    let sel := le_val (firstn 1 bs) in
    if wrap8 (union_count none opts) <=? sel then None else
    if none && (sel =? 0) then
      if negb (scope =? 1) then None else
      Some (Pair (Leaf zero_chunk) (Leaf (pad32 [byte_of_N sel])))
    else
      (fix pick (os : list ty) (k : nat) : option node :=
         match os, k with
         | [], _ => None
         | o :: _, O =>
           if ti_fixed (info o) && negb (ti_size (info o) =? scope - 1) then None else
           odo c <- sdec o (skipn 1 bs);
           Some (Pair c (Leaf (pad32 [byte_of_N sel])))
         | _ :: os', S k' => pick os' k'
         end) opts (nat_of (if none then sel - 1 else sel))
  end.

End Sdec.

(* sanity: the slice decoder agrees with the reader-based decoder on samples *)
Definition test_zh (d : nat) : chunk := repeat (byte_of_N (N.of_nat d)) 32.
Definition test_ty : ty :=
  TContainer [TUint 2; TList (TUint 1) 10; TVector (TList TBool 3) 2; TBitlist 9;
              TUnion true [TUint 1; TBitvector 3]; TVector (TBytes 2) 2].
Definition test_val : val :=
  VCont [VUint 513; VSeq [VUint 7; VUint 8]; VSeq [VSeq [VBool true]; VSeq []];
         VBits [true; false; true]; VUnion 2 (Some (VBits [true; true; false]));
         VSeq [VBytes [byte_of_N 1; byte_of_N 2]; VBytes [byte_of_N 3; byte_of_N 4]]].
Example test_sdec_agrees :
  let bs := spec_ser test_ty test_val in
  r2o (view_deserialize test_zh test_ty bs) = sdec test_zh test_ty bs /\
  is_ok (view_deserialize test_zh test_ty bs) = true /\
  r2o (view_deserialize test_zh test_ty (bs ++ [b0])) = sdec test_zh test_ty (bs ++ [b0]) /\
  r2o (view_deserialize test_zh test_ty (removelast bs)) = sdec test_zh test_ty (removelast bs).
Proof. vm_compute. repeat split. Qed.

(* ------------------------------------------------------------------------------------ *)
(** * 4. Simulation: the reader-based decoder and the slice decoder *)

Lemma leaf_ok_fixed t : ti_fixed (info t) = true -> leaf_ok t (ti_size (info t)).
Proof. destruct t; intros _; cbn [leaf_ok info ti_size]; auto. Qed.

Lemma leaf_ok_var t s : ti_fixed (info t) = false -> leaf_ok t s.
Proof. destruct t; cbn [leaf_ok info ti_fixed]; intros H; try discriminate H; auto. Qed.

(* the next k bytes of the stream *)
Definition slice (st : rstate) (k : N) : list byte := firstn (nat_of k) (r_stream st).

Lemma slice_len st c k : k <= avail st c -> lenN (slice st k) = k.
Proof.
  intros H. unfold slice. rewrite lenN_firstn'. pose proof (avail_le_stream st c). lia.
Qed.

Lemma slice_len_ge st c k X : k <= avail st c -> k <= X -> k <= lenN (slice st X).
Proof.
  intros H HX. unfold slice. rewrite lenN_firstn'. pose proof (avail_le_stream st c). lia.
Qed.

Lemma slice_firstn st a b : a <= b -> firstn (nat_of a) (slice st b) = slice st a.
Proof. intros H. unfold slice. apply firstnN_firstnN. exact H. Qed.

Lemma slice_skipn st c a st2 b : adv st c a st2 ->
  skipn (nat_of a) (slice st b) = slice st2 (b - a).
Proof. intros (S & _). unfold slice. rewrite skipnN_firstnN, S. reflexivity. Qed.

Lemma slice_0 st : slice st 0 = [].
Proof. reflexivity. Qed.

Definition dec_fwd (dec : decoder) (sd : sdecoder) (ok : N -> Prop) : Prop :=
  forall st d n st', rinv st d -> ok (dr_scope d) -> dec st d = OK (n, st') ->
    dr_scope d <= avail st (d_chain d) /\ adv st (d_chain d) (dr_scope d) st' /\
    sd (slice st (dr_scope d)) = Some n.

Definition dec_bwd (dec : decoder) (sd : sdecoder) (ok : N -> Prop) : Prop :=
  forall st d n, rinv st d -> ok (dr_scope d) -> dr_scope d <= avail st (d_chain d) ->
    sd (slice st (dr_scope d)) = Some n -> exists st', dec st d = OK (n, st').

Definition dec_sim dec sd ok : Prop := dec_fwd dec sd ok /\ dec_bwd dec sd ok.

(* a child decoder run in SubScope(size) *)
Lemma child_fwd dec sd ok st d size st1 sdr n st2 :
  dec_fwd dec sd ok -> rinv st d -> ok size ->
  dr_sub_scope st d size = OK (st1, sdr) -> dec st1 sdr = OK (n, st2) ->
  size <= dr_scope d /\ size <= avail st (d_chain d) /\ adv st (d_chain d) size st2 /\
  sd (slice st size) = Some n.
Proof.
  intros Hf Hinv Hok Hs Hd. apply dr_sub_scope_inv in Hs. destruct Hs as (Hle & -> & ->).
  destruct (rinv_sub st d size Hinv Hle) as [Hinv1 Hsc].
  destruct (Hf _ _ _ _ Hinv1 ltac:(rewrite Hsc; exact Hok) Hd) as (Ha & Hadv & Hsd).
  rewrite Hsc in *. rewrite avail_sub in Ha by exact Hinv.
  split; [exact Hle|]. split; [lia|]. split; [eapply adv_sub; eassumption|exact Hsd].
Qed.

Lemma child_bwd dec sd ok st d size n :
  dec_bwd dec sd ok -> rinv st d -> ok size ->
  size <= dr_scope d -> size <= avail st (d_chain d) -> sd (slice st size) = Some n ->
  dr_sub_scope st d size = OK (sub_st st size, sub_d st d size) /\
  exists st2, dec (sub_st st size) (sub_d st d size) = OK (n, st2).
Proof.
  intros Hb Hinv Hok Hle Ha Hsd. split; [apply dr_sub_scope_ok, Hle|].
  destruct (rinv_sub st d size Hinv Hle) as [Hinv1 Hsc].
  apply Hb; rewrite ?Hsc; try assumption.
  rewrite avail_sub by exact Hinv. lia.
Qed.

(* ---- small arithmetic facts about the uint32/uint64 helpers ---- *)
Lemma sub32_small a b : b <= a -> a < two32 -> sub32 a b = a - b.
Proof.
  intros H1 H2. unfold sub32, wrap32. rewrite (N.mod_small b) by lia.
  replace (a + two32 - b) with ((a - b) + 1 * two32) by lia.
  rewrite N.mod_add by (rewrite two32_val; lia). apply N.mod_small. lia.
Qed.

Lemma sub64_small a b : b <= a -> a < two64 -> sub64 a b = a - b.
Proof.
  intros H1 H2. pose proof two64_pos. unfold sub64, wrap64. rewrite (N.mod_small b) by lia.
  replace (a + two64 - b) with ((a - b) + 1 * two64) by lia.
  rewrite N.mod_add by lia. apply N.mod_small. lia.
Qed.

Lemma sub64_wrapped a b : a < b -> b < two64 -> sub64 a b = a + two64 - b.
Proof.
  intros H1 H2. unfold sub64, wrap64. rewrite (N.mod_small b) by lia. apply N.mod_small. lia.
Qed.

Lemma wrap32_small a : a < two32 -> wrap32 a = a.
Proof. apply N.mod_small. Qed.

Lemma mul64_small a b : a * b < two64 -> mul64 a b = a * b.
Proof. apply N.mod_small. Qed.

Lemma two32_two64_gap : two32 + two32 <= two64.
Proof. rewrite two32_eq, two64_eq. change (2 ^ 64) with (2 ^ 32 * 2 ^ 32). 
  assert (2 <= 2 ^ 32) by (change 2 with (2 ^ 1) at 1; apply N.pow_le_mono_r; lia). nia. Qed.

(* little-endian values *)
Lemma le_val_bound : forall bs, le_val bs < 256 ^ lenN bs.
Proof.
  induction bs as [|b bs IH]; [cbn; lia|].
  cbn [le_val]. rewrite lenN_cons, N.add_comm, N.pow_add_r, N.pow_1_r.
  pose proof (BitfieldsProofs.N_of_byte_lt b). nia.
Qed.

Lemma le_val_4_bound bs : lenN bs <= 4 -> le_val bs < two32.
Proof.
  intros H. pose proof (le_val_bound bs) as Hb.
  assert (256 ^ lenN bs <= 256 ^ 4) by (apply N.pow_le_mono_r; lia).
  change (256 ^ 4) with 4294967296 in *. rewrite two32_val. lia.
Qed.

(* offsets: non-decreasing from [prev] *)
Fixpoint sorted_from (prev : N) (l : list N) : Prop :=
  match l with [] => True | o :: r => prev <= o /\ sorted_from o r end.

Lemma sorted_from_last : forall l prev, sorted_from prev l -> prev <= last l prev.
Proof.
  induction l as [|o r IH]; intros prev H; [cbn; lia|].
  destruct H as [H1 H2]. specialize (IH o H2).
  destruct r as [|o' r']; [cbn; lia|].
  change (last (o :: o' :: r') prev) with (last (o' :: r') prev).
  assert (E : forall d1 d2, last (o' :: r') d1 = last (o' :: r') d2).
  { clear. revert o'. induction r' as [|x r IH]; intros o' d1 d2; [reflexivity|].
    change (last (o' :: x :: r) d1) with (last (x :: r) d1).
    change (last (o' :: x :: r) d2) with (last (x :: r) d2). apply IH. }
  rewrite (E prev o). lia.
Qed.

Lemma last_cons_cons {A} (a b : A) l d : last (a :: b :: l) d = last (b :: l) d.
Proof. reflexivity. Qed.

Lemma last_nonempty_default {A} (a : A) l d1 d2 : last (a :: l) d1 = last (a :: l) d2.
Proof.
  revert a. induction l as [|x r IH]; intros a; [reflexivity|].
  rewrite !last_cons_cons. apply IH.
Qed.

(* inversion helpers for the two monads *)
Ltac bindOK H E :=
  match type of H with
  | bind ?r _ = OK _ =>
    destruct r eqn:E; cbn [bind] in H; [|discriminate H|discriminate H]
  end.
Ltac obindS H E :=
  match type of H with
  | obind ?r _ = Some _ =>
    destruct r eqn:E; cbn [obind] in H; [|discriminate H]
  end.

Ltac ifErr H :=
  match type of H with
  | (if ?c then Err else _) = OK _ => destruct c eqn:?; [discriminate H|]
  | (if ?c then None else _) = Some _ => destruct c eqn:?; [discriminate H|]
  end.

(* ---- series of fixed-size elements ---- *)
Section FixedSeries.
Variables (dec : decoder) (sd : sdecoder) (ok : N -> Prop) (size : N).
Hypothesis Hok : ok size.

Lemma fixed_series_fwd : dec_fwd dec sd ok ->
  forall count st d ns st', rinv st d ->
  deser_fixed_series dec count size st d = OK (ns, st') ->
  N.of_nat count * size <= avail st (d_chain d) /\
  adv st (d_chain d) (N.of_nat count * size) st' /\
  s_fixed_series sd count size (slice st (N.of_nat count * size)) = Some ns.
Proof.
  intros Hf. induction count as [|k IH]; intros st d ns st' Hinv H.
  - cbn [deser_fixed_series] in H. inversion H; subst.
    change (N.of_nat 0 * size) with (0 * size). rewrite N.mul_0_l.
    split; [lia|]. split; [apply adv_refl|reflexivity].
  - cbn [deser_fixed_series] in H.
    bindOK H E1. destruct a as [st1 sdr]. bindOK H E2. destruct a as [n st2].
    bindOK H E3. destruct a as [ns' st3]. inversion H; subst. clear H.
    destruct (child_fwd _ _ _ _ _ _ _ _ _ _ Hf Hinv Hok E1 E2) as (Hle & Ha & Hadv & Hsd).
    pose proof (rinv_adv _ _ _ _ _ Hinv Hadv) as Hinv2.
    destruct (IH _ _ _ _ Hinv2 E3) as (Ha' & Hadv' & Hs').
    destruct Hinv as ((_ & HF) & _).
    rewrite (avail_adv _ _ _ _ HF Hadv) in Ha'.
    assert (Etot : N.of_nat (S k) * size = size + N.of_nat k * size) by lia.
    rewrite Etot. split; [lia|]. split; [eapply adv_trans; eassumption|].
    cbn [s_fixed_series].
    pose proof (slice_len_ge st (d_chain d) size (size + N.of_nat k * size) Ha ltac:(lia)) as Hlen.
    destruct (N.ltb_spec (lenN (slice st (size + N.of_nat k * size))) size); [lia|].
    rewrite slice_firstn by lia. rewrite Hsd. cbn [obind].
    rewrite (slice_skipn _ _ _ _ _ Hadv).
    replace (size + N.of_nat k * size - size) with (N.of_nat k * size) by lia.
    rewrite Hs'. reflexivity.
Qed.

Lemma fixed_series_bwd : dec_sim dec sd ok ->
  forall count st d ns, rinv st d -> size <= dr_scope d ->
  N.of_nat count * size <= avail st (d_chain d) ->
  s_fixed_series sd count size (slice st (N.of_nat count * size)) = Some ns ->
  exists st', deser_fixed_series dec count size st d = OK (ns, st').
Proof.
  intros [Hf Hb]. induction count as [|k IH]; intros st d ns Hinv Hsz Ha H.
  - cbn [s_fixed_series] in H. inversion H; subst. eexists; reflexivity.
  - assert (Etot : N.of_nat (S k) * size = size + N.of_nat k * size) by lia.
    rewrite Etot in *. cbn [s_fixed_series] in H.
    destruct (N.ltb_spec (lenN (slice st (size + N.of_nat k * size))) size); [discriminate H|].
    rewrite slice_firstn in H by lia.
    obindS H E1. obindS H E2. inversion H; subst; clear H.
    destruct (child_bwd _ _ _ _ _ _ _ Hb Hinv Hok Hsz ltac:(lia) E1) as (Es & st2 & Ed).
    destruct (child_fwd _ _ _ _ _ _ _ _ _ _ Hf Hinv Hok Es Ed) as (_ & _ & Hadv & _).
    pose proof (rinv_adv _ _ _ _ _ Hinv Hadv) as Hinv2.
    rewrite (slice_skipn _ _ _ _ _ Hadv) in E2.
    replace (size + N.of_nat k * size - size) with (N.of_nat k * size) in E2 by lia.
    destruct (IH st2 d l Hinv2 Hsz) as (st3 & E3); [|exact E2|].
    { destruct Hinv as ((_ & HF) & _). rewrite (avail_adv _ _ _ _ HF Hadv). lia. }
    exists st3. cbn [deser_fixed_series]. rewrite Es. cbn [bind]. rewrite Ed. cbn [bind].
    rewrite E3. reflexivity.
Qed.
End FixedSeries.

(* ---- reads of k bytes / one offset through the reader itself ---- *)
Lemma read_fwd st d k bs st' d' : rinv st d -> dr_read st d k = OK (bs, st', d') ->
  k <= dr_scope d /\ k <= avail st (d_chain d) /\ bs = slice st k /\
  adv st (d_chain d) k st' /\ rinv st' d' /\ dr_scope d' = dr_scope d - k /\
  d_chain d' = d_chain d.
Proof.
  intros Hinv H. destruct (dr_read_fwd _ _ _ _ _ _ Hinv H) as (H1 & H2 & H3 & H4 & H5 & H6 & H7).
  destruct (rinv_read _ _ _ _ _ Hinv H1 H4 H5 H6 H7) as [H8 H9].
  repeat (split; [assumption|]). assumption.
Qed.

Lemma read_u32_fwd st d off st' d' : rinv st d -> dr_read_u32 st d = OK (off, st', d') ->
  4 <= dr_scope d /\ 4 <= avail st (d_chain d) /\ off = le_val (slice st 4) /\
  adv st (d_chain d) 4 st' /\ rinv st' d' /\ dr_scope d' = dr_scope d - 4 /\
  d_chain d' = d_chain d.
Proof.
  intros Hinv H. unfold dr_read_u32 in H. bindOK H E. destruct a as [[bs st1] d1].
  inversion H; subst; clear H.
  destruct (read_fwd _ _ _ _ _ _ Hinv E) as (H1 & H2 & -> & H4). tauto.
Qed.

Lemma read_u32_bwd st d : rinv st d -> 4 <= dr_scope d -> 4 <= avail st (d_chain d) ->
  exists st' d', dr_read_u32 st d = OK (le_val (slice st 4), st', d').
Proof.
  intros Hinv H1 H2. destruct (dr_read_bwd _ _ _ Hinv H1 H2) as (st' & d' & E).
  exists st', d'. unfold dr_read_u32. rewrite E. reflexivity.
Qed.

Lemma read_byte_fwd st d b st' d' : rinv st d -> dr_read_byte st d = OK (b, st', d') ->
  1 <= dr_scope d /\ 1 <= avail st (d_chain d) /\ b = le_val (slice st 1) /\
  adv st (d_chain d) 1 st' /\ rinv st' d' /\ dr_scope d' = dr_scope d - 1 /\
  d_chain d' = d_chain d.
Proof.
  intros Hinv H. unfold dr_read_byte in H. bindOK H E. destruct a as [[bs st1] d1].
  inversion H; subst; clear H.
  destruct (read_fwd _ _ _ _ _ _ Hinv E) as (H1 & H2 & -> & H4). tauto.
Qed.

Lemma read_byte_bwd st d : rinv st d -> 1 <= dr_scope d -> 1 <= avail st (d_chain d) ->
  exists st' d', dr_read_byte st d = OK (le_val (slice st 1), st', d').
Proof.
  intros Hinv H1 H2. destruct (dr_read_bwd _ _ _ Hinv H1 H2) as (st' & d' & E).
  exists st', d'. unfold dr_read_byte. rewrite E. reflexivity.
Qed.

Lemma nat_of_4 : nat_of 4 = 4%nat. Proof. reflexivity. Qed.
Lemma nat_of_1 : nat_of 1 = 1%nat. Proof. reflexivity. Qed.

(* ---- offset tables ---- *)
Lemma read_offsets_fwd : forall count prev st d offs st' d', rinv st d ->
  read_offsets count prev st d = OK (offs, st', d') ->
  4 * N.of_nat count <= dr_scope d /\ 4 * N.of_nat count <= avail st (d_chain d) /\
  adv st (d_chain d) (4 * N.of_nat count) st' /\ rinv st' d' /\
  dr_scope d' = dr_scope d - 4 * N.of_nat count /\ d_chain d' = d_chain d /\
  length offs = count /\ sorted_from prev offs /\ Forall (fun o => o < two32) offs /\
  forall X, 4 * N.of_nat count <= X ->
    s_offsets count prev (slice st X) = Some (offs, slice st' (X - 4 * N.of_nat count)).
Proof.
  induction count as [|k IH]; intros prev st d offs st' d' Hinv H.
  - cbn [read_offsets] in H. inversion H; subst. change (4 * N.of_nat 0) with 0.
    rewrite N.sub_0_r. split; [lia|]. split; [lia|]. split; [apply adv_refl|].
    split; [exact Hinv|]. repeat split; try constructor.
    intros X _. rewrite N.sub_0_r. reflexivity.
  - cbn [read_offsets] in H. bindOK H E1. destruct a as [[off st1] d1].
    destruct (N.ltb_spec off prev) as [Hlt|Hge]; [discriminate H|].
    bindOK H E2. destruct a as [[offs' st2] d2]. inversion H; subst; clear H.
    destruct (read_u32_fwd _ _ _ _ _ Hinv E1) as (R1 & R2 & R3 & R4 & R5 & R6 & R7).
    destruct (IH _ _ _ _ _ _ R5 E2) as (I1 & I2 & I3 & I4 & I5 & I6 & I7 & I8 & I9 & I10).
    destruct Hinv as ((Hnd & HF) & Hinv').
    rewrite R7 in *. rewrite (avail_adv _ _ _ _ HF R4) in I2. rewrite R6 in *.
    assert (Etot : 4 * N.of_nat (S k) = 4 + 4 * N.of_nat k) by lia. rewrite Etot.
    split; [lia|]. split; [lia|]. split; [eapply adv_trans; eassumption|].
    split; [exact I4|]. split; [lia|]. split; [exact I6|]. split; [cbn [length]; lia|].
    split; [split; assumption|]. split.
    { constructor; [|exact I9]. rewrite R3. apply le_val_4_bound.
      unfold slice. rewrite lenN_firstn'. lia. }
    intros X HX. cbn [s_offsets].
    pose proof (slice_len_ge st (d_chain d) 4 X R2 ltac:(lia)) as Hlen.
    destruct (N.ltb_spec (lenN (slice st X)) 4); [lia|].
    rewrite <- nat_of_4, slice_firstn by lia. rewrite <- R3.
    destruct (N.ltb_spec off prev); [lia|].
    rewrite (slice_skipn _ _ _ _ _ R4), (I10 (X - 4)) by lia. cbn [obind].
    replace (X - 4 - 4 * N.of_nat k) with (X - (4 + 4 * N.of_nat k)) by lia. reflexivity.
Qed.

Lemma read_offsets_bwd : forall count prev st d offs rest X, rinv st d ->
  X <= dr_scope d -> X <= avail st (d_chain d) ->
  s_offsets count prev (slice st X) = Some (offs, rest) ->
  exists st' d', read_offsets count prev st d = OK (offs, st', d').
Proof.
  induction count as [|k IH]; intros prev st d offs rest X Hinv HX Ha H.
  - cbn [s_offsets] in H. inversion H; subst. do 2 eexists; reflexivity.
  - cbn [s_offsets] in H. rewrite (slice_len st (d_chain d) X Ha) in H.
    destruct (N.ltb_spec X 4); [discriminate H|].
    rewrite <- nat_of_4, slice_firstn in H by lia.
    destruct (N.ltb_spec (le_val (slice st 4)) prev) as [Hlt|Hge]; [discriminate H|].
    obindS H E. destruct p as [offs' rest']. inversion H; subst; clear H.
    destruct (read_u32_bwd st d Hinv ltac:(lia) ltac:(lia)) as (st1 & d1 & E1).
    destruct (read_u32_fwd _ _ _ _ _ Hinv E1) as (R1 & R2 & R3 & R4 & R5 & R6 & R7).
    rewrite (slice_skipn _ _ _ _ _ R4) in E.
    destruct (IH (le_val (slice st 4)) st1 d1 offs' rest (X - 4) R5) as (st2 & d2 & E2); [lia| |exact E|].
    { destruct Hinv as ((_ & HF) & _). rewrite R7, (avail_adv _ _ _ _ HF R4). lia. }
    exists st2, d2. cbn [read_offsets]. rewrite E1. cbn [bind].
    destruct (N.ltb_spec (le_val (slice st 4)) prev); [lia|]. rewrite E2. reflexivity.
Qed.

(* ---- series of variable-size elements ---- *)
Lemma sorted_head_le_last : forall l o d, sorted_from o l -> o <= last (o :: l) d.
Proof.
  induction l as [|o' r IH]; intros o d H; [cbn [last]; lia|].
  destruct H as [H1 H2]. rewrite last_cons_cons. specialize (IH o' d H2). lia.
Qed.

Lemma s_var_elems_last sd scope : forall offs bs ns, offs <> [] ->
  s_var_elems sd offs scope bs = Some ns -> last offs 0 <= scope.
Proof.
  induction offs as [|o rest IH]; intros bs ns Hne H; [congruence|].
  destruct rest as [|o' rest'].
  - cbn [s_var_elems] in H. destruct (N.ltb_spec scope o); [discriminate H|]. cbn [last]. lia.
  - rewrite last_cons_cons. cbn [s_var_elems] in H. fold s_var_elems in H.
    destruct (_ <? _); [discriminate H|]. obindS H E1. obindS H E2.
    eapply IH; [discriminate|exact E2].
Qed.

Lemma s_var_elems_cons2 sd o o' rest scope bs :
  s_var_elems sd (o :: o' :: rest) scope bs =
  if lenN bs <? o' - o then None else
  odo n <- sd (firstn (nat_of (o' - o)) bs);
  odo ns <- s_var_elems sd (o' :: rest) scope (skipn (nat_of (o' - o)) bs);
  Some (n :: ns).
Proof. reflexivity. Qed.

Lemma deser_var_elems_cons2 dec o o' rest scope st d :
  deser_var_elems dec (o :: o' :: rest) scope st d =
  do s <- dr_sub_scope st d (sub32 o' o); let '(st1, sd) := s in
  do r <- dec st1 sd; let '(n, st2) := r in
  do more <- deser_var_elems dec (o' :: rest) scope st2 d; let '(ns, st3) := more in
  OK (n :: ns, st3).
Proof. reflexivity. Qed.

Section VarSeries.
Variables (dec : decoder) (sd : sdecoder) (ok : N -> Prop).
Hypothesis Hok : forall s, ok s.

Lemma var_elems_fwd : dec_fwd dec sd ok ->
  forall offs o1 scope st d ns st', rinv st d -> scope < two32 ->
  sorted_from o1 offs -> Forall (fun o => o < two32) offs -> o1 < two32 ->
  deser_var_elems dec (o1 :: offs) scope st d = OK (ns, st') ->
  last (o1 :: offs) 0 <= scope /\ scope - o1 <= avail st (d_chain d) /\
  adv st (d_chain d) (scope - o1) st' /\
  s_var_elems sd (o1 :: offs) scope (slice st (scope - o1)) = Some ns.
Proof.
  intros Hf. induction offs as [|o' rest IH]; intros o1 scope st d ns st' Hinv Hsc Hso Hlt Ho1 H.
  - cbn [deser_var_elems] in H. bindOK H E1. destruct a as [st1 sdr].
    bindOK H E2. destruct a as [n st2]. inversion H; subst; clear H.
    pose proof E1 as E1'. apply dr_sub_scope_inv in E1'. destruct E1' as (Hle & _).
    assert (Hd : dr_scope d < two32) by (destruct Hinv as (_ & ? & ?); unfold dr_scope; lia).
    pose proof two32_lt_two64 as H3264. pose proof two32_two64_gap as Hgap.
    assert (Ho : o1 <= scope).
    { destruct (N.le_gt_cases o1 scope) as [|Hgt]; [assumption|].
      rewrite sub64_wrapped in Hle by lia. lia. }
    rewrite sub64_small in E1 by lia.
    destruct (child_fwd _ _ _ _ _ _ _ _ _ _ Hf Hinv (Hok _) E1 E2) as (_ & Ha & Hadv & Hsd).
    cbn [last]. split; [exact Ho|]. split; [exact Ha|]. split; [exact Hadv|].
    cbn [s_var_elems]. destruct (N.ltb_spec scope o1); [lia|].
    rewrite (slice_len st (d_chain d) _ Ha).
    destruct (N.ltb_spec (scope - o1) (scope - o1)); [lia|].
    rewrite slice_firstn by lia. rewrite Hsd. reflexivity.
  - destruct Hso as [Hle1 Hso]. pose proof (Forall_inv Hlt) as Ho'.
    pose proof (Forall_inv_tail Hlt) as Hlt'.
    rewrite deser_var_elems_cons2 in H.
    rewrite sub32_small in H by assumption.
    bindOK H E1. destruct a as [st1 sdr]. bindOK H E2. destruct a as [n st2].
    bindOK H E3. destruct a as [ns' st3]. inversion H; subst; clear H.
    destruct (child_fwd _ _ _ _ _ _ _ _ _ _ Hf Hinv (Hok _) E1 E2) as (_ & Ha & Hadv & Hsd).
    pose proof (rinv_adv _ _ _ _ _ Hinv Hadv) as Hinv2.
    destruct (IH o' scope st2 d ns' st' Hinv2 Hsc Hso Hlt' Ho' E3) as (I1 & I2 & I3 & I4).
    destruct Hinv as ((_ & HF) & _). rewrite (avail_adv _ _ _ _ HF Hadv) in I2.
    pose proof (sorted_head_le_last _ _ 0 Hso) as Hlast.
    assert (Ho's : o' <= scope) by lia.
    rewrite last_cons_cons.
    split; [exact I1|]. split; [lia|].
    assert (Etot : scope - o1 = (o' - o1) + (scope - o')) by lia.
    split; [rewrite Etot; eapply adv_trans; eassumption|].
    rewrite s_var_elems_cons2.
    pose proof (slice_len_ge st (d_chain d) (o' - o1) (scope - o1) Ha ltac:(lia)) as Hlen.
    destruct (N.ltb_spec (lenN (slice st (scope - o1))) (o' - o1)); [lia|].
    rewrite slice_firstn by lia. rewrite Hsd. cbn [obind].
    rewrite (slice_skipn _ _ _ _ _ Hadv).
    replace (scope - o1 - (o' - o1)) with (scope - o') by lia. rewrite I4. reflexivity.
Qed.

Lemma var_elems_bwd : dec_sim dec sd ok ->
  forall offs o1 scope st d ns, rinv st d -> scope < two32 ->
  sorted_from o1 offs -> Forall (fun o => o < two32) offs -> o1 < two32 ->
  scope - o1 <= dr_scope d -> scope - o1 <= avail st (d_chain d) ->
  s_var_elems sd (o1 :: offs) scope (slice st (scope - o1)) = Some ns ->
  exists st', deser_var_elems dec (o1 :: offs) scope st d = OK (ns, st').
Proof.
  intros [Hf Hb].
  induction offs as [|o' rest IH]; intros o1 scope st d ns Hinv Hsc Hso Hlt Ho1 Hds Ha H.
  - pose proof two32_lt_two64 as H3264.
    cbn [s_var_elems] in H. destruct (N.ltb_spec scope o1); [discriminate H|].
    destruct (_ <? _); [discriminate H|]. rewrite slice_firstn in H by lia.
    obindS H E1. inversion H; subst; clear H.
    destruct (child_bwd _ _ _ _ _ _ _ Hb Hinv (Hok _) Hds Ha E1) as (Es & st2 & Ed).
    exists st2. cbn [deser_var_elems]. rewrite sub64_small by lia. rewrite Es. cbn [bind].
    rewrite Ed. reflexivity.
  - assert (Hlast0 : last (o1 :: o' :: rest) 0 <= scope)
      by (eapply s_var_elems_last; [discriminate|exact H]).
    destruct Hso as [Hle1 Hso]. pose proof (Forall_inv Hlt) as Ho'.
    pose proof (Forall_inv_tail Hlt) as Hlt'.
    pose proof (sorted_head_le_last _ _ 0 Hso) as Hlast.
    rewrite last_cons_cons in Hlast0.
    assert (Ho's : o' <= scope) by lia.
    rewrite s_var_elems_cons2 in H.
    rewrite (slice_len st (d_chain d) _ Ha) in H.
    destruct (N.ltb_spec (scope - o1) (o' - o1)); [discriminate H|].
    rewrite slice_firstn in H by lia.
    obindS H E1. obindS H E2. inversion H; subst; clear H.
    destruct (child_bwd _ _ _ _ _ _ _ Hb Hinv (Hok (o' - o1)) ltac:(lia) ltac:(lia) E1)
      as (Es & st2 & Ed).
    destruct (child_fwd _ _ _ _ _ _ _ _ _ _ Hf Hinv (Hok _) Es Ed) as (_ & _ & Hadv & _).
    pose proof (rinv_adv _ _ _ _ _ Hinv Hadv) as Hinv2.
    rewrite (slice_skipn _ _ _ _ _ Hadv) in E2.
    replace (scope - o1 - (o' - o1)) with (scope - o') in E2 by lia.
    destruct (IH o' scope st2 d l Hinv2 Hsc Hso Hlt' Ho') as (st3 & E3); [lia| |exact E2|].
    { destruct Hinv as ((_ & HF) & _). rewrite (avail_adv _ _ _ _ HF Hadv). lia. }
    exists st3. rewrite deser_var_elems_cons2.
    rewrite sub32_small by assumption. rewrite Es. cbn [bind]. rewrite Ed. cbn [bind].
    rewrite E3. reflexivity.
Qed.
End VarSeries.

(* ---- containers ---- *)
Definition fld_len (f : ty) : N := if ti_fixed (info f) then ti_size (info f) else 4.
Definition fp_len (fs : list ty) : N := sumN (map fld_len fs).
Definition fld_nvar (f : ty) : N := if ti_fixed (info f) then 0 else 1.
Definition nvar (fs : list ty) : N := sumN (map fld_nvar fs).

Definition cf_shape1 (f : ty) (c : cfield) : Prop :=
  match c with CFixed _ => ti_fixed (info f) = true | CVar _ => ti_fixed (info f) = false end.
Definition cf_shape (fs : list ty) (cfs : list cfield) : Prop := Forall2 cf_shape1 fs cfs.

Fixpoint cf_offs (cfs : list cfield) : list N :=
  match cfs with
  | [] => []
  | CFixed _ :: r => cf_offs r
  | CVar o :: r => o :: cf_offs r
  end.

Lemma cf_next_offs {D} : forall cfs (l : list D), length cfs = length l ->
  cf_next (combine cfs l) = match cf_offs cfs with [] => None | o :: _ => Some o end.
Proof.
  induction cfs as [|c cfs IH]; intros l Hl; [reflexivity|].
  destruct l as [|x l]; [discriminate Hl|]. cbn [combine cf_next cf_offs].
  destruct c as [n|o]; [|reflexivity]. apply IH. cbn [length] in Hl. lia.
Qed.

Lemma deser_cont_var_cvar off (dec : decoder) rest scope st d :
  deser_cont_var ((CVar off, dec) :: rest) scope st d =
  do s <- dr_sub_scope st d
            (match cf_next rest with Some o' => sub32 o' off | None => sub32 (wrap32 scope) off end);
  let '(st1, sd) := s in
  do r <- dec st1 sd; let '(n, st2) := r in
  do more <- deser_cont_var rest scope st2 d; let '(ns, st3) := more in
  OK (n :: ns, st3).
Proof. reflexivity. Qed.

Section Sim.
Variable zh : nat -> chunk.

Notation vdec := (view_deser zh).
Notation sdc := (sdec zh).
Definition fwd_ty (f : ty) : Prop := dec_fwd (vdec f) (sdc f) (leaf_ok f).
Definition sim_ty (f : ty) : Prop := dec_sim (vdec f) (sdc f) (leaf_ok f).

Lemma cont_fixed_fwd : forall fs, Forall fwd_ty fs ->
  forall first fp prev scope st d cfs st' d', rinv st d ->
  deser_cont_fixed (combine (map info fs) (map vdec fs)) first fp prev scope st d
    = OK (cfs, st', d') ->
  fp_len fs <= avail st (d_chain d) /\ adv st (d_chain d) (fp_len fs) st' /\ rinv st' d' /\
  4 * nvar fs <= dr_scope d /\ dr_scope d' = dr_scope d - 4 * nvar fs /\
  d_chain d' = d_chain d /\
  cf_shape fs cfs /\ sorted_from prev (cf_offs cfs) /\
  Forall (fun o => o <= scope) (cf_offs cfs) /\
  (first = true -> match cf_offs cfs with o :: _ => o = fp | [] => True end) /\
  forall X, fp_len fs <= X ->
    s_cont_fixed (combine (map info fs) (map sdc fs)) first fp prev scope (slice st X)
    = Some (cfs, slice st' (X - fp_len fs)).
Proof.
  induction 1 as [|f fs Hf _ IH]; intros first fp prev scope st d cfs st' d' Hinv H.
  - cbn [map combine deser_cont_fixed] in H. inversion H; subst.
    unfold fp_len, nvar. cbn [map sumN fold_right]. rewrite N.mul_0_r, N.sub_0_r.
    split; [lia|]. split; [apply adv_refl|]. split; [exact Hinv|]. split; [lia|].
    split; [reflexivity|]. split; [reflexivity|]. split; [constructor|].
    split; [exact I|]. split; [constructor|]. split; [intros _; exact I|].
    intros X _. rewrite N.sub_0_r. reflexivity.
  - cbn [map combine deser_cont_fixed] in H.
    unfold fp_len, nvar. rewrite !map_cons, !sumN_cons. fold (fp_len fs) (nvar fs).
    unfold fld_len, fld_nvar.
    destruct (ti_fixed (info f)) eqn:Hfx.
    + bindOK H E1. destruct a as [st1 sdr]. bindOK H E2. destruct a as [n st2].
      bindOK H E3. destruct a as [[cs st3] d3]. inversion H; subst; clear H.
      destruct (child_fwd _ _ _ _ _ _ _ _ _ _ Hf Hinv (leaf_ok_fixed f Hfx) E1 E2)
        as (_ & Ha & Hadv & Hsd).
      pose proof (rinv_adv _ _ _ _ _ Hinv Hadv) as Hinv2.
      destruct (IH _ _ _ _ _ _ _ _ _ Hinv2 E3) as (I1 & I2 & I3 & I4 & I5 & I6 & I7 & I8 & I9 & I10 & I11).
      destruct Hinv as ((_ & HF) & _). rewrite (avail_adv _ _ _ _ HF Hadv) in I1.
      split; [lia|]. split; [eapply adv_trans; eassumption|]. split; [exact I3|].
      split; [lia|]. split; [rewrite I5; f_equal; lia|]. split; [exact I6|].
      split; [constructor; [exact Hfx|exact I7]|]. cbn [cf_offs].
      split; [exact I8|]. split; [exact I9|]. split; [exact I10|].
      intros X HX. cbn [map combine s_cont_fixed]. rewrite Hfx.
      pose proof (slice_len_ge st (d_chain d) _ X Ha ltac:(lia)) as Hlen.
      destruct (N.ltb_spec (lenN (slice st X)) (ti_size (info f))); [lia|].
      rewrite slice_firstn by lia. rewrite Hsd. cbn [obind].
      rewrite (slice_skipn _ _ _ _ _ Hadv), (I11 (X - ti_size (info f))) by lia. cbn [obind].
      replace (X - ti_size (info f) - fp_len fs) with (X - (ti_size (info f) + fp_len fs)) by lia.
      reflexivity.
    + bindOK H E1. destruct a as [[off st1] d1].
      destruct (N.ltb_spec off prev) as [|Hge]; [discriminate H|].
      destruct (N.ltb_spec scope off) as [|Hsc]; [discriminate H|].
      destruct (first && negb (off =? fp)) eqn:Hfirst; [discriminate H|].
      bindOK H E2. destruct a as [[cs st3] d3]. inversion H; subst; clear H.
      destruct (read_u32_fwd _ _ _ _ _ Hinv E1) as (R1 & R2 & R3 & R4 & R5 & R6 & R7).
      destruct (IH _ _ _ _ _ _ _ _ _ R5 E2) as (I1 & I2 & I3 & I4 & I5 & I6 & I7 & I8 & I9 & I10 & I11).
      destruct Hinv as ((_ & HF) & _). rewrite R7 in *. rewrite (avail_adv _ _ _ _ HF R4) in I1.
      rewrite R6 in *.
      split; [lia|]. split; [eapply adv_trans; eassumption|]. split; [exact I3|].
      split; [lia|]. split; [rewrite I5; lia|]. split; [exact I6|].
      split; [constructor; [exact Hfx|exact I7]|]. cbn [cf_offs].
      split; [split; assumption|]. split; [constructor; assumption|].
      split. { intros ->. cbn [andb] in Hfirst. apply negb_false_iff, N.eqb_eq in Hfirst. exact Hfirst. }
      intros X HX. cbn [map combine s_cont_fixed]. rewrite Hfx.
      pose proof (slice_len_ge st (d_chain d) 4 X R2 ltac:(lia)) as Hlen.
      destruct (N.ltb_spec (lenN (slice st X)) 4); [lia|].
      rewrite <- nat_of_4, slice_firstn by lia. rewrite <- R3.
      destruct (N.ltb_spec off prev); [lia|]. destruct (N.ltb_spec scope off); [lia|].
      rewrite Hfirst.
      rewrite (slice_skipn _ _ _ _ _ R4), (I11 (X - 4)) by lia. cbn [obind].
      replace (X - 4 - fp_len fs) with (X - (4 + fp_len fs)) by lia. reflexivity.
Qed.

Lemma cont_fixed_bwd : forall fs, Forall sim_ty fs ->
  forall first fp prev scope st d cfs rest X, rinv st d ->
  X <= dr_scope d -> X <= avail st (d_chain d) ->
  s_cont_fixed (combine (map info fs) (map sdc fs)) first fp prev scope (slice st X)
    = Some (cfs, rest) ->
  exists st' d',
    deser_cont_fixed (combine (map info fs) (map vdec fs)) first fp prev scope st d
    = OK (cfs, st', d').
Proof.
  induction 1 as [|f fs [Hf Hb] _ IH]; intros first fp prev scope st d cfs rest X Hinv HX Ha H.
  - cbn [map combine s_cont_fixed] in H. inversion H; subst. do 2 eexists; reflexivity.
  - cbn [map combine s_cont_fixed] in H. cbn [map combine deser_cont_fixed].
    rewrite (slice_len st (d_chain d) X Ha) in H.
    destruct (ti_fixed (info f)) eqn:Hfx.
    + destruct (N.ltb_spec X (ti_size (info f))); [discriminate H|].
      rewrite slice_firstn in H by lia. obindS H E1. obindS H E2.
      destruct p as [cs bs']. inversion H; subst; clear H.
      destruct (child_bwd _ _ _ _ _ _ _ Hb Hinv (leaf_ok_fixed f Hfx) ltac:(lia) ltac:(lia) E1)
        as (Es & st2 & Ed).
      destruct (child_fwd _ _ _ _ _ _ _ _ _ _ Hf Hinv (leaf_ok_fixed f Hfx) Es Ed)
        as (_ & _ & Hadv & _).
      pose proof (rinv_adv _ _ _ _ _ Hinv Hadv) as Hinv2.
      rewrite (slice_skipn _ _ _ _ _ Hadv) in E2.
      destruct (IH first fp prev scope st2 d cs rest (X - ti_size (info f)) Hinv2)
        as (st3 & d3 & E3); [lia| |exact E2|].
      { destruct Hinv as ((_ & HF) & _). rewrite (avail_adv _ _ _ _ HF Hadv). lia. }
      exists st3, d3. rewrite Es. cbn [bind]. rewrite Ed. cbn [bind]. rewrite E3. reflexivity.
    + destruct (N.ltb_spec X 4); [discriminate H|].
      rewrite <- nat_of_4, slice_firstn in H by lia.
      destruct (N.ltb_spec (le_val (slice st 4)) prev); [discriminate H|].
      destruct (N.ltb_spec scope (le_val (slice st 4))); [discriminate H|].
      destruct (first && negb (le_val (slice st 4) =? fp)) eqn:Hfirst; [discriminate H|].
      obindS H E2. destruct p as [cs bs']. inversion H; subst; clear H.
      destruct (read_u32_bwd st d Hinv ltac:(lia) ltac:(lia)) as (st1 & d1 & E1).
      destruct (read_u32_fwd _ _ _ _ _ Hinv E1) as (R1 & R2 & R3 & R4 & R5 & R6 & R7).
      rewrite (slice_skipn _ _ _ _ _ R4) in E2.
      destruct (IH false fp (le_val (slice st 4)) scope st1 d1 cs rest (X - 4) R5)
        as (st3 & d3 & E3); [lia| |exact E2|].
      { destruct Hinv as ((_ & HF) & _). rewrite R7, (avail_adv _ _ _ _ HF R4). lia. }
      exists st3, d3. rewrite E1. cbn [bind].
      destruct (N.ltb_spec (le_val (slice st 4)) prev); [lia|].
      destruct (N.ltb_spec scope (le_val (slice st 4))); [lia|].
      rewrite Hfirst, E3. reflexivity.
Qed.

Definition cf_tot (scope : N) (cfs : list cfield) : N :=
  match cf_offs cfs with [] => 0 | o1 :: _ => scope - o1 end.
Definition cf_sorted (cfs : list cfield) : Prop :=
  match cf_offs cfs with [] => True | o1 :: r => sorted_from o1 r end.

Lemma cf_shape_length fs cfs : cf_shape fs cfs -> length cfs = length fs.
Proof. intros H. symmetry. induction H; cbn [length]; congruence. Qed.

Lemma cont_var_fwd : forall fs cfs, cf_shape fs cfs -> Forall fwd_ty fs ->
  forall scope st d ns st', rinv st d -> scope < two32 ->
  cf_sorted cfs -> Forall (fun o => o <= scope) (cf_offs cfs) ->
  deser_cont_var (combine cfs (map vdec fs)) scope st d = OK (ns, st') ->
  cf_tot scope cfs <= avail st (d_chain d) /\ adv st (d_chain d) (cf_tot scope cfs) st' /\
  s_cont_var (combine cfs (map sdc fs)) scope (slice st (cf_tot scope cfs)) = Some ns.
Proof.
  induction 1 as [|f c fs cfs Hc Hsh IH]; intros HF scope st d ns st' Hinv Hsc Hso Hle H.
  - cbn [map combine deser_cont_var] in H. inversion H; subst. unfold cf_tot. cbn [cf_offs].
    split; [lia|]. split; [apply adv_refl|reflexivity].
  - pose proof (Forall_inv HF) as Hf. pose proof (Forall_inv_tail HF) as HF'.
    cbn [map combine] in H |- *. destruct c as [n|off].
    + cbn [deser_cont_var] in H. bindOK H E. destruct a as [ns' st1].
      inversion H; subst; clear H.
      unfold cf_tot, cf_sorted in *. cbn [cf_offs] in *.
      destruct (IH HF' _ _ _ _ _ Hinv Hsc Hso Hle E) as (I1 & I2 & I3).
      split; [exact I1|]. split; [exact I2|]. cbn [s_cont_var]. rewrite I3. reflexivity.
    + rewrite deser_cont_var_cvar in H.
      pose proof (cf_shape_length _ _ Hsh) as Hlen.
      rewrite cf_next_offs in H by (rewrite map_length; exact Hlen).
      unfold cf_tot, cf_sorted in *. cbn [cf_offs] in *. cbn [cf_shape1] in Hc.
      pose proof (Forall_inv Hle) as Hoff. cbv beta in Hoff. pose proof (Forall_inv_tail Hle) as Hle'.
      cbn [s_cont_var]. rewrite cf_next_offs by (rewrite map_length; exact Hlen).
      destruct (cf_offs cfs) as [|o' r] eqn:Eoffs.
      * rewrite wrap32_small, sub32_small in H by lia.
        bindOK H E1. destruct a as [st1 sdr]. bindOK H E2. destruct a as [n st2].
        bindOK H E3. destruct a as [ns' st3]. inversion H; subst; clear H.
        destruct (child_fwd _ _ _ _ _ _ _ _ _ _ Hf Hinv (leaf_ok_var f _ Hc) E1 E2)
          as (_ & Ha & Hadv & Hsd).
        pose proof (rinv_adv _ _ _ _ _ Hinv Hadv) as Hinv2.
        destruct (IH HF' _ _ _ _ _ Hinv2 Hsc I Hle' E3) as (I1 & I2 & I3).
        split; [exact Ha|].
        split; [apply (adv_eq _ _ (scope - off + 0)); [lia|]; eapply adv_trans; eassumption|].
        rewrite (slice_len st (d_chain d) _ Ha).
        destruct (N.ltb_spec (scope - off) (scope - off)); [lia|].
        rewrite slice_firstn by lia. rewrite Hsd. cbn [obind].
        rewrite (slice_skipn _ _ _ _ _ Hadv), N.sub_diag, I3. reflexivity.
      * destruct Hso as [Hoo' Hso]. pose proof (Forall_inv Hle') as Ho'. cbv beta in Ho'.
        rewrite sub32_small in H by lia.
        bindOK H E1. destruct a as [st1 sdr]. bindOK H E2. destruct a as [n st2].
        bindOK H E3. destruct a as [ns' st3]. inversion H; subst; clear H.
        destruct (child_fwd _ _ _ _ _ _ _ _ _ _ Hf Hinv (leaf_ok_var f _ Hc) E1 E2)
          as (_ & Ha & Hadv & Hsd).
        pose proof (rinv_adv _ _ _ _ _ Hinv Hadv) as Hinv2.
        destruct (IH HF' _ _ _ _ _ Hinv2 Hsc Hso Hle' E3) as (I1 & I2 & I3).
        destruct Hinv as ((_ & HF0) & _). rewrite (avail_adv _ _ _ _ HF0 Hadv) in I1.
        split; [lia|].
        split; [apply (adv_eq _ _ ((o' - off) + (scope - o'))); [lia|]; eapply adv_trans; eassumption|].
        pose proof (slice_len_ge st (d_chain d) (o' - off) (scope - off) Ha ltac:(lia)) as Hl.
        destruct (N.ltb_spec (lenN (slice st (scope - off))) (o' - off)); [lia|].
        rewrite slice_firstn by lia. rewrite Hsd. cbn [obind].
        rewrite (slice_skipn _ _ _ _ _ Hadv).
        replace (scope - off - (o' - off)) with (scope - o') by lia. rewrite I3. reflexivity.
Qed.

Lemma cont_var_bwd : forall fs cfs, cf_shape fs cfs -> Forall sim_ty fs ->
  forall scope st d ns, rinv st d -> scope < two32 ->
  cf_sorted cfs -> Forall (fun o => o <= scope) (cf_offs cfs) ->
  cf_tot scope cfs <= dr_scope d -> cf_tot scope cfs <= avail st (d_chain d) ->
  s_cont_var (combine cfs (map sdc fs)) scope (slice st (cf_tot scope cfs)) = Some ns ->
  exists st', deser_cont_var (combine cfs (map vdec fs)) scope st d = OK (ns, st').
Proof.
  induction 1 as [|f c fs cfs Hc Hsh IH]; intros HF scope st d ns Hinv Hsc Hso Hle Hds Ha H.
  - cbn [map combine s_cont_var] in H. inversion H; subst. eexists; reflexivity.
  - pose proof (Forall_inv HF) as [Hf Hb]. pose proof (Forall_inv_tail HF) as HF'.
    cbn [map combine] in H |- *. destruct c as [n|off].
    + cbn [s_cont_var] in H. obindS H E. inversion H; subst; clear H.
      unfold cf_tot, cf_sorted in *. cbn [cf_offs] in *.
      destruct (IH HF' _ _ _ _ Hinv Hsc Hso Hle Hds Ha E) as (st1 & E1).
      exists st1. cbn [deser_cont_var]. rewrite E1. reflexivity.
    + rewrite deser_cont_var_cvar.
      pose proof (cf_shape_length _ _ Hsh) as Hlen.
      rewrite cf_next_offs by (rewrite map_length; exact Hlen).
      cbn [s_cont_var] in H. rewrite cf_next_offs in H by (rewrite map_length; exact Hlen).
      unfold cf_tot, cf_sorted in *. cbn [cf_offs] in *. cbn [cf_shape1] in Hc.
      pose proof (Forall_inv Hle) as Hoff. cbv beta in Hoff. pose proof (Forall_inv_tail Hle) as Hle'.
      rewrite (slice_len st (d_chain d) _ Ha) in H.
      destruct (cf_offs cfs) as [|o' r] eqn:Eoffs.
      * rewrite wrap32_small, sub32_small by lia.
        destruct (N.ltb_spec (scope - off) (scope - off)); [lia|].
        rewrite slice_firstn in H by lia. obindS H E1. obindS H E2.
        inversion H; subst; clear H.
        destruct (child_bwd _ _ _ _ _ _ _ Hb Hinv (leaf_ok_var f _ Hc) Hds Ha E1)
          as (Es & st2 & Ed).
        destruct (child_fwd _ _ _ _ _ _ _ _ _ _ Hf Hinv (leaf_ok_var f _ Hc) Es Ed)
          as (_ & _ & Hadv & _).
        pose proof (rinv_adv _ _ _ _ _ Hinv Hadv) as Hinv2.
        rewrite (slice_skipn _ _ _ _ _ Hadv), N.sub_diag in E2.
        destruct (IH HF' scope st2 d l Hinv2 Hsc I Hle') as (st3 & E3); [lia|lia|exact E2|].
        exists st3. rewrite Es. cbn [bind]. rewrite Ed. cbn [bind]. rewrite E3. reflexivity.
      * destruct Hso as [Hoo' Hso]. pose proof (Forall_inv Hle') as Ho'. cbv beta in Ho'.
        rewrite sub32_small by lia.
        destruct (N.ltb_spec (scope - off) (o' - off)); [discriminate H|].
        rewrite slice_firstn in H by lia. obindS H E1. obindS H E2.
        inversion H; subst; clear H.
        destruct (child_bwd _ _ _ _ _ _ _ Hb Hinv (leaf_ok_var f (o' - off) Hc)
                            ltac:(lia) ltac:(lia) E1) as (Es & st2 & Ed).
        destruct (child_fwd _ _ _ _ _ _ _ _ _ _ Hf Hinv (leaf_ok_var f _ Hc) Es Ed)
          as (_ & _ & Hadv & _).
        pose proof (rinv_adv _ _ _ _ _ Hinv Hadv) as Hinv2.
        rewrite (slice_skipn _ _ _ _ _ Hadv) in E2.
        replace (scope - off - (o' - off)) with (scope - o') in E2 by lia.
        destruct (IH HF' scope st2 d l Hinv2 Hsc Hso Hle') as (st3 & E3); [lia| |exact E2|].
        { destruct Hinv as ((_ & HF0) & _). rewrite (avail_adv _ _ _ _ HF0 Hadv). lia. }
        exists st3. rewrite Es. cbn [bind]. rewrite Ed. cbn [bind]. rewrite E3. reflexivity.
Qed.

(* ---- single types ---- *)

Lemma r2o_some {A} (r : res A) a : r2o r = Some a -> r = OK a.
Proof. destruct r; cbn; intros H; inversion H; reflexivity. Qed.

Lemma sim_uint w : sim_ty (TUint w).
Proof.
  split.
  - intros st d n st' Hinv Hok H. cbn [leaf_ok] in Hok. rewrite Hok. cbn [view_deser] in H.
    destruct (uint_width_ok w) eqn:Hw; [|discriminate H].
    bindOK H E. destruct a as [[bs st1] d1]. injection H as <- <-.
    destruct (read_fwd _ _ _ _ _ _ Hinv E) as (R1 & R2 & R3 & R4 & _).
    split; [exact R2|]. split; [exact R4|]. cbn [sdec]. rewrite Hw.
    rewrite (slice_len _ _ _ R2), N.eqb_refl, R3. reflexivity.
  - intros st d n Hinv Hok Ha H. cbn [leaf_ok] in Hok. rewrite Hok in H, Ha. cbn [sdec] in H.
    destruct (uint_width_ok w) eqn:Hw; [|discriminate H].
    rewrite (slice_len _ _ _ Ha), N.eqb_refl in H. injection H as <-.
    destruct (dr_read_bwd st d w Hinv ltac:(lia) Ha) as (st' & d' & E).
    exists st'. cbn [view_deser]. rewrite Hw. unfold slice. rewrite E. reflexivity.
Qed.

Lemma sim_bool : sim_ty TBool.
Proof.
  split.
  - intros st d n st' Hinv Hok H. cbn [leaf_ok] in Hok. rewrite Hok. cbn [view_deser] in H.
    bindOK H E. destruct a as [[b st1] d1]. ifErr H. injection H as <- <-.
    destruct (read_byte_fwd _ _ _ _ _ Hinv E) as (R1 & R2 & R3 & R4 & _).
    split; [exact R2|]. split; [exact R4|]. cbn [sdec].
    rewrite (slice_len _ _ _ R2). cbn [N.eqb Pos.eqb negb]. rewrite <- R3, Heqb0. reflexivity.
  - intros st d n Hinv Hok Ha H. cbn [leaf_ok] in Hok. rewrite Hok in H, Ha. cbn [sdec] in H.
    rewrite (slice_len _ _ _ Ha) in H. cbn [N.eqb Pos.eqb negb] in H. ifErr H.
    injection H as <-.
    destruct (read_byte_bwd st d Hinv ltac:(lia) Ha) as (st' & d' & E).
    exists st'. cbn [view_deser]. rewrite E. cbn [bind]. rewrite Heqb. reflexivity.
Qed.

Lemma sim_bytes k : sim_ty (TBytes k).
Proof.
  split.
  - intros st d n st' Hinv Hok H. cbn [leaf_ok] in Hok. rewrite Hok. cbn [view_deser] in H.
    bindOK H E. destruct a as [[bs st1] d1]. injection H as <- <-.
    destruct (read_fwd _ _ _ _ _ _ Hinv E) as (R1 & R2 & R3 & R4 & _).
    split; [exact R2|]. split; [exact R4|]. cbn [sdec].
    rewrite (slice_len _ _ _ R2), N.eqb_refl, R3. reflexivity.
  - intros st d n Hinv Hok Ha H. cbn [leaf_ok] in Hok. rewrite Hok in H, Ha. cbn [sdec] in H.
    rewrite (slice_len _ _ _ Ha), N.eqb_refl in H. injection H as <-.
    destruct (dr_read_bwd st d k Hinv ltac:(lia) Ha) as (st' & d' & E).
    exists st'. cbn [view_deser]. unfold slice. rewrite E. reflexivity.
Qed.

Lemma sim_root : sim_ty TRoot.
Proof.
  split.
  - intros st d n st' Hinv Hok H. cbn [leaf_ok] in Hok. rewrite Hok. cbn [view_deser] in H.
    bindOK H E. destruct a as [[bs st1] d1]. injection H as <- <-.
    destruct (read_fwd _ _ _ _ _ _ Hinv E) as (R1 & R2 & R3 & R4 & _).
    split; [exact R2|]. split; [exact R4|]. cbn [sdec].
    rewrite (slice_len _ _ _ R2), N.eqb_refl, R3. reflexivity.
  - intros st d n Hinv Hok Ha H. cbn [leaf_ok] in Hok. rewrite Hok in H, Ha. cbn [sdec] in H.
    rewrite (slice_len _ _ _ Ha), N.eqb_refl in H. injection H as <-.
    destruct (dr_read_bwd st d 32 Hinv ltac:(lia) Ha) as (st' & d' & E).
    exists st'. cbn [view_deser]. unfold slice. rewrite E. reflexivity.
Qed.

Lemma sim_bitvector k : sim_ty (TBitvector k).
Proof.
  split.
  - intros st d n st' Hinv _ H. cbn [view_deser] in H. ifErr H.
    bindOK H E. destruct a as [[bs st1] d1]. ifErr H. bindOK H E2.
    injection H as <- <-.
    destruct (read_fwd _ _ _ _ _ _ Hinv E) as (R1 & R2 & R3 & R4 & _).
    split; [exact R2|]. split; [exact R4|]. cbn [sdec].
    rewrite (slice_len _ _ _ R2), <- R3, Heqb, Heqb0, E2. reflexivity.
  - intros st d n Hinv _ Ha H. cbn [sdec] in H.
    rewrite (slice_len _ _ _ Ha) in H. ifErr H. ifErr H. apply r2o_some in H.
    destruct (dr_read_bwd st d (dr_scope d) Hinv ltac:(lia) Ha) as (st' & d' & E).
    exists st'. cbn [view_deser]. rewrite Heqb, E. cbn [bind]. fold (slice st (dr_scope d)).
    rewrite Heqb0, H. reflexivity.
Qed.

Lemma sim_bitlist k : sim_ty (TBitlist k).
Proof.
  split.
  - intros st d n st' Hinv _ H. cbn [view_deser] in H. ifErr H. ifErr H.
    bindOK H E. destruct a as [[bs st1] d1]. ifErr H.
    destruct (read_fwd _ _ _ _ _ _ Hinv E) as (R1 & R2 & R3 & R4 & _).
    cbn [sdec]. rewrite (slice_len _ _ _ R2), <- R3, Heqb, Heqb0, Heqb1.
    destruct ((dr_scope d =? 1) && (N_of_byte (last bs b0) =? 1)).
    + bindOK H E2. injection H as <- <-.
      split; [exact R2|]. split; [exact R4|]. reflexivity.
    + ifErr H. bindOK H E2. injection H as <- <-.
      split; [exact R2|]. split; [exact R4|]. reflexivity.
  - intros st d n Hinv _ Ha H. cbn [sdec] in H.
    rewrite (slice_len _ _ _ Ha) in H. ifErr H. ifErr H. ifErr H.
    destruct (dr_read_bwd st d (dr_scope d) Hinv ltac:(lia) Ha) as (st' & d' & E).
    exists st'. cbn [view_deser]. rewrite Heqb, Heqb0, E. cbn [bind].
    fold (slice st (dr_scope d)). rewrite Heqb1.
    destruct ((dr_scope d =? 1) && (N_of_byte (last (slice st (dr_scope d)) b0) =? 1)).
    + apply r2o_some in H. rewrite H. reflexivity.
    + ifErr H. obindS H E2. apply r2o_some in E2. injection H as <-.
      rewrite E2. reflexivity.
Qed.

(* ---- size metadata facts ---- *)
Lemma sizes_ok_max t : sizes_ok t = true -> spec_max_len t < two64.
Proof.
  intros H. rewrite two64_eq. apply N.ltb_lt.
  destruct t; cbn [sizes_ok] in H; apply andb_prop in H; exact (proj1 H).
Qed.

Lemma info_ok_of t : small_params t = true -> sizes_ok t = true -> info_ok t.
Proof. intros H1 H2. apply info_sizes_gen; [exact H1|apply sizes_ok_max, H2]. Qed.

Lemma scope_lt32 st d : rinv st d -> dr_scope d < two32.
Proof. intros (_ & H1 & H2). unfold dr_scope. lia. Qed.

Lemma N_of_nat_of n : N.of_nat (nat_of n) = n.
Proof. apply N2Nat.id. Qed.

Lemma vector_fixed_size e n :
  small_params (TVector e n) = true -> sizes_ok (TVector e n) = true ->
  ti_fixed (info e) = true ->
  ti_size (info (TVector e n)) = n * ti_size (info e).
Proof.
  intros Hsp Hso Hfx. destruct (info_ok_of _ Hsp Hso) as (_ & _ & ->).
  cbn [small_params sizes_ok] in Hsp, Hso. apply andb_prop in Hsp, Hso.
  destruct (info_ok_of e (proj2 Hsp) (proj2 Hso)) as (_ & _ & ->).
  rewrite info_fixed_flag in Hfx. cbn [spec_fixed_len]. rewrite Hfx. reflexivity.
Qed.

Lemma pow56_lt : 4 * 2 ^ 56 < two64.
Proof. rewrite two64_eq. change (2 ^ 64) with (2 ^ 8 * 2 ^ 56). 
  assert (0 < 2 ^ 56) by (apply pow2_pos). change (2 ^ 8) with 256. lia. Qed.

Lemma mul64_4 n : n <= 2 ^ 56 -> mul64 n 4 = 4 * n.
Proof. intros H. pose proof pow56_lt. rewrite mul64_small by lia. lia. Qed.

Lemma sim_vector e n :
  wf_ty (TVector e n) = true -> small_params (TVector e n) = true ->
  sizes_ok (TVector e n) = true -> sim_ty e -> sim_ty (TVector e n).
Proof.
  intros Hwf Hsp Hso [Hfe Hbe].
  pose proof Hsp as Hsp'. cbn [small_params] in Hsp'. apply andb_prop in Hsp'.
  destruct Hsp' as [Hn56 _]. apply N.leb_le in Hn56.
  pose proof Hwf as Hwf'. cbn [wf_ty] in Hwf'. apply andb_prop in Hwf'.
  destruct Hwf' as [Hn1 _]. apply N.leb_le in Hn1.
  split.
  - intros st d nd st' Hinv _ H. pose proof (scope_lt32 _ _ Hinv) as Hs32.
    cbn [view_deser] in H. cbn [sdec].
    destruct (is_basic_elem e) eqn:Hbasic; [|destruct (ti_fixed (info e)) eqn:Hfx].
    + ifErr H. bindOK H E. destruct a as [[bs st1] d1]. bindOK H E2. injection H as <- <-.
      destruct (read_fwd _ _ _ _ _ _ Hinv E) as (R1 & R2 & R3 & R4 & _).
      split; [exact R2|]. split; [exact R4|].
      rewrite (slice_len _ _ _ R2), <- R3, Heqb, E2. reflexivity.
    + ifErr H. apply negb_false_iff, N.eqb_eq in Heqb.
      rewrite (vector_fixed_size e n Hsp Hso Hfx) in Heqb.
      bindOK H E. destruct a as [ns st1]. bindOK H E2. injection H as <- <-.
      destruct (fixed_series_fwd _ _ _ _ (leaf_ok_fixed e Hfx) Hfe _ _ _ _ _ Hinv E)
        as (F1 & F2 & F3).
      rewrite N_of_nat_of, Heqb in F1, F2, F3.
      split; [exact F1|]. split; [exact F2|].
      rewrite (slice_len _ _ _ F1). rewrite (vector_fixed_size e n Hsp Hso Hfx), Heqb, N.eqb_refl.
      cbn [negb]. rewrite F3. cbn [obind]. rewrite E2. reflexivity.
    + bindOK H E. destruct a as [[offs st1] d1]. ifErr H.
      apply negb_false_iff, N.eqb_eq in Heqb. rewrite mul64_4 in Heqb by exact Hn56.
      bindOK H E2. destruct a as [ns st2]. bindOK H E3. injection H as <- <-.
      destruct (read_offsets_fwd _ _ _ _ _ _ _ Hinv E)
        as (O1 & O2 & O3 & O4 & O5 & O6 & O7 & O8 & O9 & O10).
      rewrite N_of_nat_of in *.
      destruct offs as [|o1 offs]; [cbn [length] in O7; unfold nat_of in O7; lia|].
      cbn [hd] in Heqb. subst o1. destruct O8 as [_ O8].
      destruct (var_elems_fwd _ _ _ (fun s => leaf_ok_var e s Hfx) Hfe _ _ _ _ _ _ _ O4 Hs32 O8
                  (Forall_inv_tail O9) (Forall_inv O9) E2) as (V1 & V2 & V3 & V4).
      pose proof (sorted_head_le_last _ _ 0 O8) as Hl.
      destruct Hinv as ((Hnd & HF) & Hinv'). rewrite O6 in *.
      rewrite (avail_adv _ _ _ _ HF O3) in V2.
      split; [lia|].
      split; [apply (adv_eq _ _ (4 * n + (dr_scope d - 4 * n))); [lia|]; eapply adv_trans; eassumption|].
      rewrite (O10 (dr_scope d)) by lia. cbn [obind hd].
      rewrite mul64_4, N.eqb_refl by exact Hn56. cbn [negb].
      rewrite (slice_len st (d_chain d) (dr_scope d)) by lia.
      rewrite V4. cbn [obind]. rewrite E3. reflexivity.
  - intros st d nd Hinv _ Ha H. pose proof (scope_lt32 _ _ Hinv) as Hs32.
    cbn [sdec] in H. cbn [view_deser]. rewrite (slice_len _ _ _ Ha) in H.
    destruct (is_basic_elem e) eqn:Hbasic; [|destruct (ti_fixed (info e)) eqn:Hfx].
    + ifErr H. apply r2o_some in H.
      destruct (dr_read_bwd st d (dr_scope d) Hinv ltac:(lia) Ha) as (st' & d' & E).
      exists st'. rewrite E. cbn [bind]. fold (slice st (dr_scope d)). rewrite H. reflexivity.
    + ifErr H. pose proof Heqb as Heqb'. apply negb_false_iff, N.eqb_eq in Heqb.
      rewrite (vector_fixed_size e n Hsp Hso Hfx) in Heqb.
      obindS H E. apply r2o_some in H.
      destruct (fixed_series_bwd _ _ _ _ (leaf_ok_fixed e Hfx) (conj Hfe Hbe) (nat_of n) st d l Hinv)
        as (st1 & E1).
      * destruct (N.eq_dec n 0); [lia|]. nia.
      * rewrite N_of_nat_of, Heqb. exact Ha.
      * rewrite N_of_nat_of, Heqb. exact E.
      * exists st1. rewrite E1. cbn [bind]. rewrite H. reflexivity.
    + obindS H E. destruct p as [offs rest]. ifErr H.
      pose proof Heqb as Heqb'. apply negb_false_iff, N.eqb_eq in Heqb.
      rewrite mul64_4 in Heqb by exact Hn56.
      obindS H E2. apply r2o_some in H.
      destruct (read_offsets_bwd _ _ _ _ _ _ _ Hinv (N.le_refl _) Ha E) as (st1 & d1 & E1).
      destruct (read_offsets_fwd _ _ _ _ _ _ _ Hinv E1)
        as (O1 & O2 & O3 & O4 & O5 & O6 & O7 & O8 & O9 & O10).
      rewrite N_of_nat_of in *.
      destruct offs as [|o1 offs]; [cbn [length] in O7; unfold nat_of in O7; lia|].
      cbn [hd] in Heqb. subst o1. destruct O8 as [_ O8].
      rewrite (O10 (dr_scope d) O1) in E. injection E as <-.
      destruct Hinv as ((Hnd & HF) & Hinv'). 
      destruct (var_elems_bwd _ _ _ (fun s => leaf_ok_var e s Hfx) (conj Hfe Hbe) _ _ _ st1 d1 l O4 Hs32 O8
                  (Forall_inv_tail O9) (Forall_inv O9)) as (st2 & E3); [lia| |exact E2|].
      { rewrite O6, (avail_adv _ _ _ _ HF O3). lia. }
      exists st2. rewrite E1. cbn [bind]. rewrite Heqb'. rewrite E3. cbn [bind].
      rewrite H. reflexivity.
Qed.

Lemma list_len_exact scope esz : scope < two64 ->
  mul64 (scope / esz) esz = scope -> scope / esz * esz = scope.
Proof.
  intros Hs H. assert (Hle : scope / esz * esz <= scope).
  { destruct (N.eq_dec esz 0) as [->|Hz]; [lia|].
    rewrite N.mul_comm. apply N.mul_div_le. exact Hz. }
  rewrite mul64_small in H by lia. exact H.
Qed.

Lemma default_node_list e n :
  default_node zh (TList e n) = OK (Pair (zleaf zh (contents_depth (TList e n))) (zleaf zh 0)).
Proof. reflexivity. Qed.

Lemma sim_list e n :
  wf_ty (TList e n) = true -> small_params (TList e n) = true ->
  sizes_ok (TList e n) = true -> sim_ty e -> sim_ty (TList e n).
Proof.
  intros Hwf Hsp Hso [Hfe Hbe]. pose proof two32_lt_two64 as H3264.
  split.
  - intros st d nd st' Hinv _ H. pose proof (scope_lt32 _ _ Hinv) as Hs32.
    cbn [view_deser] in H. cbn [sdec]. rewrite default_node_list in *.
    destruct (is_basic_elem e) eqn:Hbasic;
      [|destruct (dr_scope d =? 0) eqn:Hs0; [|destruct (ti_fixed (info e)) eqn:Hfx]].
    + ifErr H. ifErr H. apply negb_false_iff, N.eqb_eq in Heqb0.
      destruct (dr_scope d / ti_size (info e) =? 0) eqn:Hlen0.
      * cbn [bind] in H. injection H as <- <-. apply N.eqb_eq in Hlen0.
        assert (Hsc0 : dr_scope d = 0) by (rewrite Hlen0, mul64_0_l in Heqb0; lia).
        rewrite Hsc0 in Heqb, Hlen0 |- *.
        split; [lia|]. split; [apply adv_refl|]. rewrite slice_0.
        change (lenN (@nil byte)) with 0. rewrite Heqb, Hlen0, mul64_0_l. reflexivity.
      * bindOK H E. destruct a as [[bs st1] d1]. bindOK H E2. injection H as <- <-.
        destruct (read_fwd _ _ _ _ _ _ Hinv E) as (R1 & R2 & R3 & R4 & _).
        split; [exact R2|]. split; [exact R4|].
        rewrite (slice_len _ _ _ R2), <- R3, Heqb, Heqb0, N.eqb_refl, Hlen0. cbn [negb].
        rewrite E2. reflexivity.
    + cbn [bind] in H. injection H as <- <-. apply N.eqb_eq in Hs0. rewrite Hs0.
      split; [lia|]. split; [apply adv_refl|]. reflexivity.
    + ifErr H. ifErr H. pose proof Heqb0 as Heqb0'. apply negb_false_iff, N.eqb_eq in Heqb0.
      apply list_len_exact in Heqb0; [|lia].
      bindOK H E. destruct a as [ns st1]. bindOK H E2. injection H as <- <-.
      destruct (fixed_series_fwd _ _ _ _ (leaf_ok_fixed e Hfx) Hfe _ _ _ _ _ Hinv E)
        as (F1 & F2 & F3).
      rewrite N_of_nat_of, Heqb0 in F1, F2, F3.
      split; [exact F1|]. split; [exact F2|].
      rewrite (slice_len _ _ _ F1), Hs0, Heqb, Heqb0', F3. cbn [obind]. rewrite E2. reflexivity.
    + bindOK H E. destruct a as [[first st1] d1]. ifErr H. ifErr H. ifErr H.
      apply negb_false_iff, N.eqb_eq in Heqb. apply orb_false_elim in Heqb1.
      destruct Heqb1 as [Hf0 Hfs]. apply N.eqb_neq in Hf0. apply N.ltb_ge in Hfs.
      bindOK H E2. destruct a as [[offs st2] d2]. bindOK H E3. destruct a as [ns st3].
      bindOK H E4. injection H as <- <-.
      destruct (read_u32_fwd _ _ _ _ _ Hinv E) as (R1 & R2 & R3 & R4 & R5 & R6 & R7).
      destruct (read_offsets_fwd _ _ _ _ _ _ _ R5 E2)
        as (O1 & O2 & O3 & O4 & O5 & O6 & O7 & O8 & O9 & O10).
      rewrite N_of_nat_of in *.
      assert (Hfirst : 4 + 4 * (first / 4 - 1) = first).
      { pose proof (N.div_mod first 4 ltac:(lia)) as Hdm. rewrite Heqb in Hdm.
        assert (first / 4 <> 0) by (intros Hz; rewrite Hz in Hdm; lia). lia. }
      destruct (var_elems_fwd _ _ _ (fun s => leaf_ok_var e s Hfx) Hfe _ _ _ _ _ _ _ O4 Hs32 O8 O9
                  ltac:(lia) E3) as (V1 & V2 & V3 & V4).
      destruct Hinv as ((Hnd & HF) & Hinv'). rewrite O6, R7 in *.
      pose proof (chain_ok_adv _ _ _ _ _ (conj Hnd HF) R4) as [_ HF1].
      rewrite (avail_adv _ _ _ _ HF1 O3), (avail_adv _ _ _ _ HF R4) in V2.
      rewrite (avail_adv _ _ _ _ HF R4) in O2.
      assert (Ha : dr_scope d <= avail st (d_chain d)) by lia.
      split; [exact Ha|].
      split.
      { apply (adv_eq _ _ (4 + (4 * (first / 4 - 1) + (dr_scope d - first)))); [lia|].
        eapply adv_trans; [exact R4|]. eapply adv_trans; eassumption. }
      rewrite (slice_len _ _ _ Ha), Hs0.
      destruct (N.ltb_spec (dr_scope d) 4); [lia|].
      rewrite <- nat_of_4, slice_firstn by lia. rewrite <- R3, Heqb, N.eqb_refl. cbn [negb].
      rewrite Heqb0.
      destruct (N.eqb_spec first 0); [lia|]. destruct (N.ltb_spec (dr_scope d) first); [lia|].
      cbn [orb].
      rewrite (slice_skipn _ _ _ _ _ R4), (O10 (dr_scope d - 4)) by lia. cbn [obind].
      replace (dr_scope d - 4 - 4 * (first / 4 - 1)) with (dr_scope d - first) by lia.
      rewrite V4. cbn [obind]. rewrite E4. reflexivity.
  - intros st d nd Hinv _ Ha H. pose proof (scope_lt32 _ _ Hinv) as Hs32.
    cbn [sdec] in H. cbn [view_deser]. rewrite (slice_len _ _ _ Ha) in H.
    rewrite default_node_list in *.
    destruct (is_basic_elem e) eqn:Hbasic;
      [|destruct (dr_scope d =? 0) eqn:Hs0; [|destruct (ti_fixed (info e)) eqn:Hfx]].
    + ifErr H. ifErr H.
      destruct (dr_scope d / ti_size (info e) =? 0) eqn:Hlen0.
      * cbn [r2o] in H. injection H as <-. exists st. reflexivity.
      * obindS H E. apply r2o_some in E. injection H as <-.
        destruct (dr_read_bwd st d (dr_scope d) Hinv ltac:(lia) Ha) as (st' & d' & E1).
        exists st'. rewrite E1. cbn [bind]. fold (slice st (dr_scope d)). rewrite E. reflexivity.
    + cbn [r2o] in H. injection H as <-. exists st. reflexivity.
    + ifErr H. ifErr H. pose proof Heqb0 as Heqb0'. apply negb_false_iff, N.eqb_eq in Heqb0.
      apply list_len_exact in Heqb0; [|lia].
      obindS H E. obindS H E2. apply r2o_some in E2. injection H as <-.
      apply N.eqb_neq in Hs0.
      destruct (fixed_series_bwd _ _ _ _ (leaf_ok_fixed e Hfx) (conj Hfe Hbe)
                  (nat_of (dr_scope d / ti_size (info e))) st d l Hinv) as (st1 & E1).
      * destruct (N.eq_dec (dr_scope d / ti_size (info e)) 0) as [Hz|Hz]; [rewrite Hz in Heqb0; lia|].
        nia.
      * rewrite N_of_nat_of, Heqb0. exact Ha.
      * rewrite N_of_nat_of, Heqb0. exact E.
      * exists st1. rewrite E1. cbn [bind]. rewrite E2. reflexivity.
    + destruct (N.ltb_spec (dr_scope d) 4) as [|Hs4]; [discriminate H|].
      rewrite <- nat_of_4, slice_firstn in H by lia.
      destruct (read_u32_bwd st d Hinv Hs4 ltac:(lia)) as (st1 & d1 & E1).
      destruct (read_u32_fwd _ _ _ _ _ Hinv E1) as (R1 & R2 & R3 & R4 & R5 & R6 & R7).
      rewrite E1. cbn [bind]. set (first := le_val (slice st 4)) in *.
      ifErr H. ifErr H. ifErr H.
      apply negb_false_iff, N.eqb_eq in Heqb. apply orb_false_elim in Heqb1.
      destruct Heqb1 as [Hf0 Hfs]. apply N.eqb_neq in Hf0. apply N.ltb_ge in Hfs.
      assert (Hfirst : 4 + 4 * (first / 4 - 1) = first).
      { pose proof (N.div_mod first 4 ltac:(lia)) as Hdm. rewrite Heqb in Hdm.
        assert (first / 4 <> 0) by (intros Hz; rewrite Hz in Hdm; lia). lia. }
      obindS H E2. destruct p as [offs rest]. obindS H E3. obindS H E4.
      apply r2o_some in E4. injection H as <-.
      rewrite (slice_skipn _ _ _ _ _ R4) in E2.
      destruct Hinv as ((Hnd & HF) & Hinv').
      destruct (read_offsets_bwd _ _ _ _ _ _ _ R5 ltac:(rewrite R6; apply N.le_refl)
                  ltac:(rewrite R7, (avail_adv _ _ _ _ HF R4); lia) E2) as (st2 & d2 & E2').
      destruct (read_offsets_fwd _ _ _ _ _ _ _ R5 E2')
        as (O1 & O2 & O3 & O4 & O5 & O6 & O7 & O8 & O9 & O10).
      rewrite N_of_nat_of in *.
      rewrite (O10 (dr_scope d - 4)) in E2 by lia. injection E2 as <-.
      replace (dr_scope d - 4 - 4 * (first / 4 - 1)) with (dr_scope d - first) in E3 by lia.
      pose proof (chain_ok_adv _ _ _ _ _ (conj Hnd HF) R4) as [_ HF1].
      destruct (var_elems_bwd _ _ _ (fun s => leaf_ok_var e s Hfx) (conj Hfe Hbe) _ _ _ st2 d2 l O4 Hs32 O8 O9
                  ltac:(lia)) as (st3 & E3'); [lia| |exact E3|].
      { rewrite R7 in O3, O6. rewrite O6, (avail_adv _ _ _ _ HF1 O3).
        rewrite (avail_adv _ _ _ _ HF R4). lia. }
      exists st3. rewrite E2'. cbn [bind]. rewrite E3'. cbn [bind]. rewrite E4. reflexivity.
Qed.

(* ---- unions ---- *)
Lemma view_deser_union none opts st d :
  view_deser zh (TUnion none opts) st d =
  if dr_scope d =? 0 then Err else
  do r <- dr_read_byte st d; let '(sel, st1, d1) := r in
  if wrap8 (union_count none opts) <=? sel then Err else
  if none && (sel =? 0) then
    if negb (dr_scope d =? 1) then Err else
    OK (Pair (Leaf zero_chunk) (Leaf (pad32 [byte_of_N sel])), st1)
  else
    pick_ty Panic (fun o =>
      if ti_fixed (info o) && negb (ti_size (info o) =? dr_scope d - 1) then Err else
      do r <- view_deser zh o st1 d1; let '(c, st2) := r in
      OK (Pair c (Leaf (pad32 [byte_of_N sel])), st2))
    opts (nat_of (if none then sel - 1 else sel)).
Proof. reflexivity. Qed.

Lemma sdec_union none opts bs :
  sdec zh (TUnion none opts) bs =
  if lenN bs =? 0 then None else
  let sel := le_val (firstn 1 bs) in
  if wrap8 (union_count none opts) <=? sel then None else
  if none && (sel =? 0) then
    if negb (lenN bs =? 1) then None else
    Some (Pair (Leaf zero_chunk) (Leaf (pad32 [byte_of_N sel])))
  else
    pick_ty None (fun o =>
      if ti_fixed (info o) && negb (ti_size (info o) =? lenN bs - 1) then None else
      odo c <- sdec zh o (skipn 1 bs);
      Some (Pair c (Leaf (pad32 [byte_of_N sel]))))
    opts (nat_of (if none then sel - 1 else sel)).
Proof. reflexivity. Qed.

Lemma sim_union none opts : Forall sim_ty opts -> sim_ty (TUnion none opts).
Proof.
  intros HF. rewrite Forall_forall in HF. split.
  - intros st d nd st' Hinv _ H. rewrite view_deser_union in H. rewrite sdec_union.
    ifErr H. bindOK H E. destruct a as [[sel st1] d1]. ifErr H.
    destruct (read_byte_fwd _ _ _ _ _ Hinv E) as (R1 & R2 & R3 & R4 & R5 & R6 & R7).
    destruct (none && (sel =? 0)) eqn:Hnone.
    + ifErr H. injection H as <- <-. apply negb_false_iff, N.eqb_eq in Heqb1. rewrite Heqb1.
      split; [exact R2|]. split; [exact R4|].
      rewrite (slice_len _ _ _ R2). cbn [N.eqb Pos.eqb negb]. cbv zeta.
      rewrite <- nat_of_1, slice_firstn by lia. rewrite <- R3, Heqb0, Hnone. reflexivity.
    + rewrite pick_ty_nth_error in H.
      destruct (nth_error opts (nat_of (if none then sel - 1 else sel))) as [o|] eqn:Eo;
        [|discriminate H].
      destruct (HF o (nth_error_In _ _ Eo)) as [Hfo _].
      destruct (ti_fixed (info o) && negb (ti_size (info o) =? dr_scope d - 1)) eqn:Hfx;
        [discriminate H|].
      bindOK H E2. destruct a as [c st2]. injection H as <- <-.
      assert (Hlo : leaf_ok o (dr_scope d1)).
      { rewrite R6. destruct (ti_fixed (info o)) eqn:Hf; [|apply leaf_ok_var; exact Hf].
        cbn [andb] in Hfx. apply negb_false_iff, N.eqb_eq in Hfx. rewrite <- Hfx.
        apply leaf_ok_fixed. exact Hf. }
      destruct (Hfo _ _ _ _ R5 Hlo E2) as (F1 & F2 & F3). rewrite R6, R7 in *.
      destruct Hinv as ((Hnd & HF0) & Hinv'). rewrite (avail_adv _ _ _ _ HF0 R4) in F1.
      assert (Ha : dr_scope d <= avail st (d_chain d)) by lia.
      split; [exact Ha|].
      split; [apply (adv_eq _ _ (1 + (dr_scope d - 1))); [lia|]; eapply adv_trans; eassumption|].
      rewrite (slice_len _ _ _ Ha), Heqb. cbv zeta.
      rewrite <- nat_of_1, slice_firstn by lia. rewrite <- R3, Heqb0, Hnone.
      rewrite pick_ty_nth_error, Eo, Hfx, (slice_skipn _ _ _ _ _ R4), F3. reflexivity.
  - intros st d nd Hinv _ Ha H. rewrite sdec_union in H. rewrite view_deser_union.
    rewrite (slice_len _ _ _ Ha) in H. ifErr H. cbv zeta in H.
    apply N.eqb_neq in Heqb.
    rewrite <- nat_of_1, slice_firstn in H by lia.
    destruct (read_byte_bwd st d Hinv ltac:(lia) ltac:(lia)) as (st1 & d1 & E).
    destruct (read_byte_fwd _ _ _ _ _ Hinv E) as (R1 & R2 & R3 & R4 & R5 & R6 & R7).
    rewrite E. cbn [bind]. ifErr H.
    destruct (none && (le_val (slice st 1) =? 0)) eqn:Hnone.
    + ifErr H. injection H as <-. exists st1. reflexivity.
    + rewrite pick_ty_nth_error in H. rewrite pick_ty_nth_error.
      destruct (nth_error opts (nat_of (if none then le_val (slice st 1) - 1 else le_val (slice st 1))))
        as [o|] eqn:Eo; [|discriminate H].
      destruct (HF o (nth_error_In _ _ Eo)) as [_ Hbo].
      destruct (ti_fixed (info o) && negb (ti_size (info o) =? dr_scope d - 1)) eqn:Hfx;
        [discriminate H|].
      obindS H E2. injection H as <-.
      assert (Hlo : leaf_ok o (dr_scope d1)).
      { rewrite R6. destruct (ti_fixed (info o)) eqn:Hf; [|apply leaf_ok_var; exact Hf].
        cbn [andb] in Hfx. apply negb_false_iff, N.eqb_eq in Hfx. rewrite <- Hfx.
        apply leaf_ok_fixed. exact Hf. }
      rewrite (slice_skipn _ _ _ _ _ R4) in E2.
      destruct Hinv as ((Hnd & HF0) & Hinv').
      destruct (Hbo st1 d1 n R5 Hlo) as (st2 & E3).
      * rewrite R6, R7, (avail_adv _ _ _ _ HF0 R4). lia.
      * rewrite R6. exact E2.
      * exists st2. rewrite E3. reflexivity.
Qed.

(* ---- containers: size metadata ---- *)
Lemma fld_len_spec f : info_ok f -> fld_len f = fld_fix f.
Proof.
  intros (_ & _ & Hs). unfold fld_len, fld_fix. rewrite info_fixed_flag, Hs. reflexivity.
Qed.

Lemma fp_len_spec fs : Forall info_ok fs -> fp_len fs = sumN (map fld_fix fs).
Proof.
  induction 1 as [|f fs Hf _ IH]; [reflexivity|].
  unfold fp_len in *. cbn [map]. rewrite !sumN_cons, IH, (fld_len_spec f Hf). reflexivity.
Qed.

Lemma fld_fix_le_max f : fld_fix f <= fld_max f.
Proof. unfold fld_fix, fld_max. destruct (spec_is_fixed f); lia. Qed.

Lemma container_fp fs : fs <> [] -> Forall info_ok fs -> spec_max_len (TContainer fs) < two64 ->
  fixed_part_size fs = fp_len fs.
Proof.
  intros Hne HF Hmax. unfold fixed_part_size, cont_acc. rewrite (cont_fold_spec fs HF).
  destruct fs as [|f fs]; [congruence|]. rewrite N.add_0_l, (fp_len_spec _ HF).
  apply wrap64_small. eapply N.le_lt_trans; [|exact Hmax].
  cbn [spec_max_len]. apply (sumN_map_le fld_fix fld_max).
  apply Forall_forall. intros x _. apply fld_fix_le_max.
Qed.

Lemma nvar_zero_fixed fs : nvar fs = 0 -> Forall (fun f => ti_fixed (info f) = true) fs.
Proof.
  induction fs as [|f fs IH]; intros H; [constructor|].
  unfold nvar in *. cbn [map] in H. rewrite sumN_cons in H. unfold fld_nvar at 1 in H.
  destruct (ti_fixed (info f)) eqn:Hf; [|lia].
  constructor; [exact Hf|apply IH; lia].
Qed.

Lemma container_fixed_minmax fs :
  Forall info_ok fs -> info_ok (TContainer fs) -> nvar fs = 0 ->
  ti_min (info (TContainer fs)) = fp_len fs /\ ti_max (info (TContainer fs)) = fp_len fs.
Proof.
  intros HF (Hmin & Hmax & _) Hnv. rewrite Hmin, Hmax, (fp_len_spec _ HF).
  cbn [spec_min_len spec_max_len]. apply nvar_zero_fixed in Hnv.
  split; apply sumN_map_ext; rewrite Forall_forall in *; intros f Hin;
    specialize (Hnv f Hin); rewrite info_fixed_flag in Hnv; unfold fld_fix; rewrite Hnv; reflexivity.
Qed.

Lemma nvar_le fs : 4 * nvar fs <= fp_len fs.
Proof.
  induction fs as [|f fs IH]; [cbn; lia|].
  unfold nvar, fp_len in *. cbn [map]. rewrite !sumN_cons. unfold fld_nvar at 1, fld_len at 1.
  destruct (ti_fixed (info f)); lia.
Qed.

Lemma cf_shape_no_offs fs cfs : cf_shape fs cfs -> cf_offs cfs = [] -> nvar fs = 0.
Proof.
  induction 1 as [|f c fs cfs Hc _ IH]; intros Ho; [reflexivity|].
  unfold nvar in *. cbn [map]. rewrite sumN_cons. destruct c as [n|o]; [|discriminate Ho].
  cbn [cf_shape1] in Hc. cbn [cf_offs] in Ho. unfold fld_nvar at 1. rewrite Hc, (IH Ho). reflexivity.
Qed.

Lemma forallb_Forall2 (p q : ty -> bool) fs :
  forallb p fs = true -> forallb q fs = true -> Forall (fun f => p f = true /\ q f = true) fs.
Proof.
  intros Hp Hq. rewrite forallb_forall in Hp, Hq. apply Forall_forall. intros x Hx.
  split; [apply Hp|apply Hq]; exact Hx.
Qed.

Lemma sim_container fs :
  wf_ty (TContainer fs) = true -> small_params (TContainer fs) = true ->
  sizes_ok (TContainer fs) = true -> Forall sim_ty fs -> sim_ty (TContainer fs).
Proof.
  intros Hwf Hsp Hso HF.
  assert (Hio : info_ok (TContainer fs)) by (apply info_ok_of; assumption).
  pose proof (sizes_ok_max _ Hso) as Hmax.
  assert (Hios : Forall info_ok fs).
  { cbn [small_params sizes_ok] in Hsp, Hso. apply andb_prop in Hso. destruct Hso as [_ Hso].
    pose proof (forallb_Forall2 _ _ _ Hsp Hso) as HH. eapply Forall_impl; [|exact HH].
    cbv beta. intros f [H1 H2]. apply info_ok_of; assumption. }
  assert (Hne : fs <> []).
  { cbn [wf_ty] in Hwf. apply andb_prop in Hwf. destruct Hwf as [Hwf _].
    destruct fs; [discriminate Hwf|discriminate]. }
  pose proof (container_fp fs Hne Hios Hmax) as Hfp.
  assert (HFf : Forall fwd_ty fs) by (eapply Forall_impl; [|exact HF]; intros f [Hf _]; exact Hf).
  split.
  - intros st d nd st' Hinv _ H. pose proof (scope_lt32 _ _ Hinv) as Hs32.
    cbn [view_deser] in H. cbn [sdec]. ifErr H. apply orb_false_elim in Heqb.
    destruct Heqb as [Hmin Hmx]. apply N.ltb_ge in Hmin, Hmx.
    bindOK H E. destruct a as [[cfs st1] d1]. bindOK H E2. destruct a as [ns st2].
    bindOK H E3. injection H as <- <-.
    destruct (cont_fixed_fwd fs HFf _ _ _ _ _ _ _ _ _ Hinv E)
      as (C1 & C2 & C3 & C4 & C5 & C6 & C7 & C8 & C9 & C10 & C11).
    assert (Hsorted : cf_sorted cfs).
    { unfold cf_sorted. destruct (cf_offs cfs); [exact I|]. exact (proj2 C8). }
    destruct (cont_var_fwd fs cfs C7 HFf _ _ _ _ _ C3 Hs32 Hsorted C9 E2) as (V1 & V2 & V3).
    assert (Htot : fp_len fs + cf_tot (dr_scope d) cfs = dr_scope d /\ fp_len fs <= dr_scope d).
    { unfold cf_tot in *. specialize (C10 eq_refl). destruct (cf_offs cfs) as [|o1 r] eqn:Eo.
      - destruct (container_fixed_minmax fs Hios Hio (cf_shape_no_offs _ _ C7 Eo)) as [M1 M2]. lia.
      - pose proof (Forall_inv C9) as Ho1. cbv beta in Ho1. rewrite Hfp in C10. lia. }
    destruct Htot as [Htot Hfl].
    destruct Hinv as ((Hnd & HF0) & Hinv'). rewrite C6 in *.
    rewrite (avail_adv _ _ _ _ HF0 C2) in V1.
    assert (Ha : dr_scope d <= avail st (d_chain d)) by lia.
    split; [exact Ha|].
    split; [apply (adv_eq _ _ (fp_len fs + cf_tot (dr_scope d) cfs)); [lia|]; eapply adv_trans; eassumption|].
    rewrite (slice_len _ _ _ Ha).
    destruct (N.ltb_spec (dr_scope d) (ti_min (info (TContainer fs)))); [lia|].
    destruct (N.ltb_spec (ti_max (info (TContainer fs))) (dr_scope d)); [lia|]. cbn [orb].
    rewrite (C11 (dr_scope d) Hfl). cbn [obind].
    replace (dr_scope d - fp_len fs) with (cf_tot (dr_scope d) cfs) by lia.
    rewrite V3. cbn [obind]. rewrite E3. reflexivity.
  - intros st d nd Hinv _ Ha H. pose proof (scope_lt32 _ _ Hinv) as Hs32.
    cbn [sdec] in H. cbn [view_deser]. rewrite (slice_len _ _ _ Ha) in H.
    ifErr H. apply orb_false_elim in Heqb.
    destruct Heqb as [Hmin Hmx]. apply N.ltb_ge in Hmin, Hmx.
    obindS H E. destruct p as [cfs rest]. obindS H E2. apply r2o_some in H.
    destruct (cont_fixed_bwd fs HF _ _ _ _ _ _ _ _ _ Hinv (N.le_refl _) Ha E) as (st1 & d1 & E1).
    destruct (cont_fixed_fwd fs HFf _ _ _ _ _ _ _ _ _ Hinv E1)
      as (C1 & C2 & C3 & C4 & C5 & C6 & C7 & C8 & C9 & C10 & C11).
    assert (Hsorted : cf_sorted cfs).
    { unfold cf_sorted. destruct (cf_offs cfs); [exact I|]. exact (proj2 C8). }
    assert (Htot : fp_len fs + cf_tot (dr_scope d) cfs = dr_scope d /\ fp_len fs <= dr_scope d).
    { unfold cf_tot in *. specialize (C10 eq_refl). destruct (cf_offs cfs) as [|o1 r] eqn:Eo.
      - destruct (container_fixed_minmax fs Hios Hio (cf_shape_no_offs _ _ C7 Eo)) as [M1 M2]. lia.
      - pose proof (Forall_inv C9) as Ho1. cbv beta in Ho1. rewrite Hfp in C10. lia. }
    destruct Htot as [Htot Hfl].
    rewrite (C11 (dr_scope d) Hfl) in E. injection E as <-.
    replace (dr_scope d - fp_len fs) with (cf_tot (dr_scope d) cfs) in E2 by lia.
    pose proof (nvar_le fs) as Hnv.
    destruct Hinv as ((Hnd & HF0) & Hinv').
    destruct (cont_var_bwd fs cfs C7 HF (dr_scope d) st1 d1 l C3 Hs32 Hsorted C9)
      as (st2 & E3); [lia| |exact E2|].
    { rewrite C6, (avail_adv _ _ _ _ HF0 C2). lia. }
    exists st2. rewrite E1. cbn [bind]. rewrite E3. cbn [bind]. rewrite H. reflexivity.
Qed.

(* ---- all types ---- *)
Theorem sim_all : forall t,
  wf_ty t = true -> small_params t = true -> sizes_ok t = true -> sim_ty t.
Proof.
  induction t as [w| |k| |k|k|e k IHe|e k IHe|fs IHfs|none opts IHopts] using ty_ind';
    intros Hwf Hsp Hso.
  - apply sim_uint.
  - apply sim_bool.
  - apply sim_bytes.
  - apply sim_root.
  - apply sim_bitvector.
  - apply sim_bitlist.
  - apply sim_vector; try assumption. cbn [wf_ty small_params sizes_ok] in Hwf, Hsp, Hso.
    apply andb_prop in Hwf, Hsp, Hso. apply IHe; tauto.
  - apply sim_list; try assumption. cbn [wf_ty small_params sizes_ok] in Hwf, Hsp, Hso.
    apply andb_prop in Hsp, Hso. apply IHe; tauto.
  - apply sim_container; try assumption. cbn [wf_ty small_params sizes_ok] in Hwf, Hsp, Hso.
    apply andb_prop in Hwf, Hso. destruct Hwf as [_ Hwf], Hso as [_ Hso].
    rewrite forallb_forall in Hwf, Hsp, Hso. rewrite Forall_forall in *.
    intros f Hin. apply IHfs; auto.
  - apply sim_union. cbn [wf_ty small_params sizes_ok] in Hwf, Hsp, Hso.
    apply andb_prop in Hwf, Hso. destruct Hwf as [_ Hwf], Hso as [_ Hso].
    rewrite forallb_forall in Hwf, Hsp, Hso. rewrite Forall_forall in *.
    intros f Hin. apply IHopts; auto.
Qed.

(* top level *)
Theorem view_deserialize_sdec t bs n :
  wf_ty t = true -> small_params t = true -> sizes_ok t = true ->
  lenN bs < two32 -> leaf_ok t (lenN bs) ->
  (view_deserialize zh t bs = OK n <-> sdec zh t bs = Some n).
Proof.
  intros Hwf Hsp Hso Hlen Hleaf. destruct (sim_all t Hwf Hsp Hso) as [Hf Hb].
  unfold view_deserialize, view_deserialize_scoped, new_reader. fold (lenN bs).
  set (st := mkRS bs [lenN bs]). set (d := mkDR 0 (lenN bs) [O]).
  assert (Hinv : rinv st d).
  { unfold st, d. split; [split|split]; cbn [d_chain d_i d_max r_lims length]; try lia.
    - constructor; [intros []|constructor].
    - constructor; [lia|constructor]. }
  assert (Hsc : dr_scope d = lenN bs) by (unfold dr_scope, d; cbn [d_max d_i]; lia).
  assert (Hav : avail st (d_chain d) = lenN bs).
  { unfold avail, lim_get, st, d. cbn [d_chain fold_right r_lims r_stream nth]. fold (lenN bs). lia. }
  assert (Hsl : slice st (dr_scope d) = bs).
  { unfold slice. rewrite Hsc. unfold st. cbn [r_stream]. unfold nat_of, lenN. rewrite Nat2N.id.
    apply firstn_all. }
  split.
  - intros H. bindOK H E. destruct a as [n' st']. injection H as <-.
    destruct (Hf st d n' st' Hinv ltac:(rewrite Hsc; exact Hleaf) E) as (_ & _ & Hs).
    rewrite Hsl in Hs. exact Hs.
  - intros H. destruct (Hb st d n Hinv ltac:(rewrite Hsc; exact Hleaf)
                           ltac:(rewrite Hsc, Hav; lia) ltac:(rewrite Hsl; exact H)) as (st' & E).
    rewrite E. reflexivity.
Qed.

End Sim.

(* ------------------------------------------------------------------------------------ *)
(** * 5. Bytes, bits, and the layout of [ser_parts] *)

Lemma byte_of_N_add256 a x : byte_of_N (a + 256 * x) = byte_of_N a.
Proof.
  unfold byte_of_N. replace ((a + 256 * x) mod 256) with (a mod 256); [reflexivity|].
  rewrite N.mul_comm, N.mod_add by discriminate. reflexivity.
Qed.

Lemma le_bytes_le_val : forall bs, le_bytes (length bs) (le_val bs) = bs.
Proof.
  induction bs as [|b bs IH]; [reflexivity|].
  cbn [length le_val le_bytes]. rewrite byte_of_N_add256, BitfieldsProofs.byte_of_N_of_byte. f_equal.
  pose proof (BitfieldsProofs.N_of_byte_lt b).
  replace ((N_of_byte b + 256 * le_val bs) / 256) with (le_val bs) by lia. exact IH.
Qed.

Lemma le_val_le_bytes_small k n : n < 256 ^ N.of_nat k -> le_val (le_bytes k n) = n.
Proof. intros H. rewrite le_val_le_bytes. apply N.mod_small, H. Qed.

Lemma le_val_u32 n : n < two32 -> le_val (le_bytes 4 n) = n.
Proof. intros H. apply le_val_le_bytes_small. exact H. Qed.

Lemma pow256 k : 256 ^ k = 2 ^ (8 * k).
Proof. change 256 with (2 ^ 8). rewrite <- N.pow_mul_r. reflexivity. Qed.

(* ---- layout of a series of parts ---- *)
Inductive pfield := PF (bs : list byte) | PV (off : N) (bs : list byte).
Definition pf_part (p : pfield) : part :=
  match p with PF b => (true, b) | PV _ b => (false, b) end.
Definition pf_fixed (p : pfield) : list byte :=
  match p with PF b => b | PV off _ => le_bytes 4 off end.
Definition pf_var (p : pfield) : list byte :=
  match p with PF _ => [] | PV _ b => b end.
Fixpoint offs_ok (cur : N) (l : list pfield) : Prop :=
  match l with
  | [] => True
  | PF _ :: r => offs_ok cur r
  | PV off b :: r => off = cur /\ offs_ok (cur + lenN b) r
  end.

Lemma ser_parts_go_layout : forall l cur, offs_ok cur l ->
  ser_parts_go (map pf_part l) cur = (flat_map pf_fixed l, flat_map pf_var l).
Proof.
  induction l as [|p l IH]; intros cur H; [reflexivity|].
  destruct p as [b|off b]; cbn [map pf_part ser_parts_go flat_map pf_fixed pf_var offs_ok] in *.
  - rewrite (IH cur H). reflexivity.
  - destruct H as [-> H]. rewrite (IH _ H). reflexivity.
Qed.

Lemma fixed_size_layout l :
  sumN (map part_fixed_size (map pf_part l)) = lenN (flat_map pf_fixed l).
Proof.
  induction l as [|p l IH]; [reflexivity|].
  cbn [map flat_map]. rewrite sumN_cons, lenN_app, IH. f_equal.
  destruct p as [b|off b]; cbn [pf_part pf_fixed part_fixed_size fst snd]; [reflexivity|].
  unfold lenN. rewrite le_bytes_length. reflexivity.
Qed.

Theorem ser_parts_layout l : offs_ok (lenN (flat_map pf_fixed l)) l ->
  ser_parts (map pf_part l) = flat_map pf_fixed l ++ flat_map pf_var l.
Proof.
  intros H. unfold ser_parts. rewrite fixed_size_layout, (ser_parts_go_layout _ _ H). reflexivity.
Qed.

(* every list of parts has a layout *)
Fixpoint layout (cur : N) (ps : list part) : list pfield :=
  match ps with
  | [] => []
  | (true, b) :: r => PF b :: layout cur r
  | (false, b) :: r => PV cur b :: layout (cur + lenN b) r
  end.

Lemma layout_parts : forall ps cur, map pf_part (layout cur ps) = ps.
Proof.
  induction ps as [|[[|] b] ps IH]; intros cur; cbn [layout map pf_part]; [reflexivity| |];
    rewrite IH; reflexivity.
Qed.

Lemma layout_ok : forall ps cur, offs_ok cur (layout cur ps).
Proof.
  induction ps as [|[[|] b] ps IH]; intros cur; cbn [layout offs_ok]; [exact I|apply IH|].
  split; [reflexivity|apply IH].
Qed.

Lemma ser_parts_all_fixed {A} (g : A -> list byte) vs :
  ser_parts (map (fun x => (true, g x)) vs) = concat (map g vs).
Proof.
  unfold ser_parts. generalize (sumN (map part_fixed_size (map (fun x => (true, g x)) vs))).
  intros off. assert (E : ser_parts_go (map (fun x => (true, g x)) vs) off = (concat (map g vs), [])).
  { induction vs as [|v vs IH]; [reflexivity|]. cbn [map ser_parts_go concat]. rewrite IH. reflexivity. }
  rewrite E. apply app_nil_r.
Qed.

(* ------------------------------------------------------------------------------------ *)
(** * 6. Canonicity and completeness of the slice decoder *)

Section Canon.
Variable zh : nat -> chunk.
Hypothesis zh0 : zh 0 = zero_chunk.

Notation sdc := (sdec zh).

Definition canon_ty (t : ty) : Prop :=
  forall bs n, sdc t bs = Some n ->
  exists v, has_type v t = true /\ bs = spec_ser t v /\ repr zh t n v.

Definition compl_ty (t : ty) : Prop :=
  forall v, has_type v t = true -> lenN (spec_ser t v) < two32 ->
  exists n, sdc t (spec_ser t v) = Some n /\ repr zh t n v.

(* ---- trees from decoded parts (shared by both directions) ---- *)
Lemma fill_contents_cdepth ns t : fill_contents zh ns t = fill_to_contents zh ns (cdepth t).
Proof. reflexivity. Qed.

Lemma len_leaf_0 : len_leaf 0 = Leaf (zh 0).
Proof. rewrite zh0. reflexivity. Qed.

Lemma build_bitvector k bits : k <= 2 ^ 56 -> lenN bits = k ->
  exists nd, fill_contents zh (map Leaf (chunkify (bits_to_bytes bits))) (TBitvector k) = OK nd /\
             repr zh (TBitvector k) nd (VBits bits).
Proof.
  intros Hk Hl. rewrite fill_contents_cdepth. cbn [repr]. fold (bit_chunks bits).
  rewrite cdepth_bitvector by exact Hk. apply fill_chunks.
  - pose proof (depth_for_bound ((k + 255) / 256) 48 ltac:(lia)). lia.
  - rewrite bit_chunks_lenN, Hl. apply depth_for_ge.
Qed.

Lemma build_bitlist k bits : k <= 2 ^ 56 -> lenN bits <= k ->
  exists c, fill_contents zh (map Leaf (chunkify (bits_to_bytes bits))) (TBitlist k) = OK c /\
            repr zh (TBitlist k) (Pair c (len_leaf (lenN bits))) (VBits bits).
Proof.
  intros Hk Hl. rewrite fill_contents_cdepth. fold (bit_chunks bits).
  destruct (fill_chunks zh (cdepth (TBitlist k)) (bit_chunks bits)) as (c & Ec & Sc).
  - rewrite cdepth_bitlist by exact Hk.
    pose proof (depth_for_bound ((k + 255) / 256) 48 ltac:(lia)). lia.
  - rewrite cdepth_bitlist by exact Hk. rewrite bit_chunks_lenN.
    pose proof (depth_for_ge ((k + 255) / 256)). lia.
  - exists c. split; [exact Ec|]. cbn [repr]. exists c. split; [reflexivity|exact Sc].
Qed.

Lemma build_vector_uint w k vs : uint_width_ok w = true -> k <= 2 ^ 56 -> lenN vs = k ->
  forallb (fun x => has_type x (TUint w)) vs = true ->
  exists nd, fill_contents zh (map Leaf (chunkify (flat_map (spec_ser (TUint w)) vs)))
                           (TVector (TUint w) k) = OK nd /\
             repr zh (TVector (TUint w) k) nd (VSeq vs).
Proof.
  intros Hw Hk Hl Hty. rewrite fill_contents_cdepth.
  destruct (fill_chunks zh (cdepth (TVector (TUint w) k))
                        (chunkify (flat_map (spec_ser (TUint w)) vs))) as (c & Ec & Sc).
  - rewrite cdepth_vector_uint by assumption.
    pose proof (chunk_count_uint_bound w k Hw Hk).
    pose proof (depth_for_bound (chunk_count_basic (TUint w) k) 56 ltac:(lia)). lia.
  - rewrite cdepth_vector_uint by assumption.
    rewrite chunkify_lenN, lenN_flat_map_uint, Hl by exact Hty. apply depth_for_ge.
  - exists c. split; [exact Ec|]. rewrite repr_vector. exact Sc.
Qed.

Lemma build_list_uint w k vs : uint_width_ok w = true -> k <= 2 ^ 56 -> lenN vs <= k ->
  forallb (fun x => has_type x (TUint w)) vs = true ->
  exists c, fill_contents zh (map Leaf (chunkify (flat_map (spec_ser (TUint w)) vs)))
                          (TList (TUint w) k) = OK c /\
            repr zh (TList (TUint w) k) (Pair c (len_leaf (lenN vs))) (VSeq vs).
Proof.
  intros Hw Hk Hl Hty. rewrite fill_contents_cdepth.
  destruct (fill_chunks zh (cdepth (TList (TUint w) k))
                        (chunkify (flat_map (spec_ser (TUint w)) vs))) as (c & Ec & Sc).
  - rewrite cdepth_list_uint by assumption.
    pose proof (chunk_count_uint_bound w k Hw Hk).
    pose proof (depth_for_bound (chunk_count_basic (TUint w) k) 56 ltac:(lia)). lia.
  - rewrite cdepth_list_uint by assumption.
    rewrite chunkify_lenN, lenN_flat_map_uint by exact Hty.
    pose proof (depth_for_ge (chunk_count_basic (TUint w) k)) as Hge.
    unfold chunk_count_basic in *. cbn [spec_fixed_len] in *.
    assert (lenN vs * w <= k * w) by (apply N.mul_le_mono_r; exact Hl). lia.
  - exists c. split; [exact Ec|]. rewrite repr_list. exists c. split; [reflexivity|exact Sc].
Qed.

Definition reprs (e : ty) (ns : list node) (vs : list val) : Prop :=
  Forall2 (fun n v => repr zh e n v) ns vs.

Lemma reprs_preds e ns vs : reprs e ns vs ->
  Forall2 (fun n (p : node -> Prop) => p n) ns (map (fun x m => repr zh e m x) vs).
Proof. induction 1; cbn [map]; constructor; assumption. Qed.

Lemma reprs_len e ns vs : reprs e ns vs -> lenN ns = lenN vs.
Proof. intros H. unfold lenN. f_equal. eapply Forall2_length'. exact H. Qed.

Lemma build_vector_nb e k ns vs : is_basic_elem e = false -> k <= 2 ^ 56 ->
  reprs e ns vs -> lenN vs = k ->
  exists nd, fill_contents zh ns (TVector e k) = OK nd /\ repr zh (TVector e k) nd (VSeq vs).
Proof.
  intros Hb Hk Hr Hl. rewrite fill_contents_cdepth.
  destruct (fun a b => fill_series zh (cdepth (TVector e k)) ns _ a b (reprs_preds _ _ _ Hr))
    as (c & Ec & Sc).
  - rewrite cdepth_vector_nb by assumption. pose proof (depth_for_bound k 56 Hk). lia.
  - rewrite cdepth_vector_nb by assumption. rewrite (reprs_len _ _ _ Hr), Hl. apply depth_for_ge.
  - exists c. split; [exact Ec|]. rewrite repr_vector, Hb. exact Sc.
Qed.

Lemma build_list_nb e k ns vs : is_basic_elem e = false -> k <= 2 ^ 56 ->
  reprs e ns vs -> lenN vs <= k ->
  exists c, fill_contents zh ns (TList e k) = OK c /\
            repr zh (TList e k) (Pair c (len_leaf (lenN vs))) (VSeq vs).
Proof.
  intros Hb Hk Hr Hl. rewrite fill_contents_cdepth.
  destruct (fun a b => fill_series zh (cdepth (TList e k)) ns _ a b (reprs_preds _ _ _ Hr))
    as (c & Ec & Sc).
  - rewrite cdepth_list_nb by assumption. pose proof (depth_for_bound k 56 Hk). lia.
  - rewrite cdepth_list_nb by assumption. rewrite (reprs_len _ _ _ Hr).
    pose proof (depth_for_ge k). lia.
  - exists c. split; [exact Ec|]. rewrite repr_list, Hb. exists c. split; [reflexivity|exact Sc].
Qed.

Lemma build_container fs ns vs : lenN fs <= 2 ^ 63 ->
  Forall2 (fun n (p : node -> Prop) => p n) ns (rfields_repr zh fs vs) -> lenN ns = lenN fs ->
  exists nd, fill_contents zh ns (TContainer fs) = OK nd /\ repr zh (TContainer fs) nd (VCont vs).
Proof.
  intros Hc Hr Hl. rewrite fill_contents_cdepth.
  assert (Hd : cdepth (TContainer fs) = depth_for (lenN fs)).
  { change (cdepth (TContainer fs)) with (nat_of (cover_depth (lenN fs))).
    apply cover_depth_for. assert (2 ^ 63 < 2 ^ 64) by (apply N.pow_lt_mono_r; lia). lia. }
  destruct (fun a b => fill_series zh (cdepth (TContainer fs)) ns _ a b Hr) as (c & Ec & Sc).
  - rewrite Hd. pose proof (depth_for_bound (lenN fs) 63 Hc). lia.
  - rewrite Hd, Hl. apply depth_for_ge.
  - exists c. split; [exact Ec|]. rewrite repr_cont. exact Sc.
Qed.

Lemma repr_empty_list e k :
  repr zh (TList e k) (Pair (zleaf zh (contents_depth (TList e k))) (zleaf zh 0)) (VSeq []).
Proof.
  rewrite repr_list. eexists. split.
  - unfold zleaf at 2. change (nat_of 0) with 0%nat. rewrite <- len_leaf_0. reflexivity.
  - assert (S : series zh (cdepth (TList e k)) [] (zleaf zh (contents_depth (TList e k))))
      by (apply series_nil, ztree_leaf).
    destruct (is_basic_elem e); exact S.
Qed.

(* ---- leaf types ---- *)
Lemma canon_uint w : canon_ty (TUint w).
Proof.
  intros bs n H. cbn [sdec] in H. destruct (uint_width_ok w) eqn:Hw; [|discriminate H].
  destruct (N.eqb_spec (lenN bs) w) as [Hl|]; [|discriminate H]. injection H as <-.
  exists (VUint (le_val bs)). cbn [has_type spec_ser repr].
  assert (E : le_bytes (nat_of w) (le_val bs) = bs).
  { rewrite <- Hl. unfold nat_of, lenN. rewrite Nat2N.id. apply le_bytes_le_val. }
  rewrite E. repeat split.
  apply N.ltb_lt. rewrite <- Hl, <- pow256. apply le_val_bound.
Qed.

Lemma compl_uint w : wf_ty (TUint w) = true -> compl_ty (TUint w).
Proof.
  intros Hwf v Hty _. destruct v; try discriminate Hty. cbn [wf_ty] in Hwf.
  cbn [spec_ser sdec]. rewrite Hwf, lenN_le_bytes, N.eqb_refl. eexists. split; reflexivity.
Qed.

Lemma bool_bytes b : N_of_byte b <= 1 ->
  [b] = [byte_of_N (if N_of_byte b =? 1 then 1 else 0)].
Proof.
  intros H. f_equal. destruct (N.eqb_spec (N_of_byte b) 1) as [E|NE].
  - rewrite <- E. symmetry. apply BitfieldsProofs.byte_of_N_of_byte.
  - assert (E : N_of_byte b = 0) by lia. rewrite <- E. symmetry.
    apply BitfieldsProofs.byte_of_N_of_byte.
Qed.

Lemma canon_bool : canon_ty TBool.
Proof.
  intros bs n H. cbn [sdec] in H.
  destruct (N.eqb_spec (lenN bs) 1) as [Hl|]; [|discriminate H]. cbn [negb] in H.
  destruct bs as [|b [|b' bs]]; try (unfold lenN in Hl; cbn [length] in Hl; lia).
  cbn [le_val] in H. rewrite N.mul_0_r, N.add_0_r in H.
  destruct (N.ltb_spec 1 (N_of_byte b)) as [|Hb]; [discriminate H|]. injection H as <-.
  exists (VBool (N_of_byte b =? 1)). cbn [has_type spec_ser repr].
  split; [reflexivity|]. split.
  - rewrite (bool_bytes b Hb). destruct (N_of_byte b =? 1); reflexivity.
  - rewrite zh0. reflexivity.
Qed.

Lemma compl_bool : compl_ty TBool.
Proof.
  intros v Hty _. destruct v; try discriminate Hty. cbn [spec_ser sdec].
  change (lenN [byte_of_N (if b then 1 else 0)]) with 1. cbn [N.eqb Pos.eqb negb le_val].
  rewrite BitfieldsProofs.N_of_byte_of_N by (destruct b; lia).
  rewrite N.mul_0_r, N.add_0_r. destruct b; cbn [N.ltb N.compare Pos.compare Pos.compare_cont N.eqb Pos.eqb].
  - eexists. split; reflexivity.
  - eexists. split; [reflexivity|]. cbn [repr]. rewrite zh0. reflexivity.
Qed.

Lemma canon_bytes k : canon_ty (TBytes k).
Proof.
  intros bs n H. cbn [sdec] in H.
  destruct (N.eqb_spec (lenN bs) k) as [Hl|]; [|discriminate H]. injection H as <-.
  exists (VBytes bs). cbn [has_type spec_ser repr]. repeat split. apply N.eqb_eq. exact Hl.
Qed.

Lemma compl_bytes k : compl_ty (TBytes k).
Proof.
  intros v Hty _. destruct v; try discriminate Hty. cbn [has_type] in Hty.
  cbn [spec_ser sdec]. unfold lenN. rewrite Hty. eexists. split; reflexivity.
Qed.

Lemma canon_root : canon_ty TRoot.
Proof.
  intros bs n H. cbn [sdec] in H.
  destruct (N.eqb_spec (lenN bs) 32) as [Hl|]; [|discriminate H]. injection H as <-.
  exists (VBytes bs). cbn [has_type spec_ser repr]. repeat split. apply N.eqb_eq. exact Hl.
Qed.

Lemma compl_root : compl_ty TRoot.
Proof.
  intros v Hty _. destruct v; try discriminate Hty. cbn [has_type] in Hty.
  cbn [spec_ser sdec]. unfold lenN. rewrite Hty. eexists. split; reflexivity.
Qed.

(* ---- bitvectors ---- *)
Lemma k56_bound : 2 ^ 56 + 8 <= 2 ^ 64 - 7.
Proof. vm_compute. discriminate. Qed.


Lemma land_low x j : N.land x (2 ^ j - 1) = x mod 2 ^ j.
Proof. rewrite N.sub_1_r, <- N.ones_equiv. apply N.land_ones. Qed.

Lemma bv_pad_check bs k : 1 <= lenN bs ->
  (negb (lenN bs =? 0) && negb (N.land k 7 =? 0)
   && negb (N.land (N_of_byte (last bs b0)) (2 ^ (N.land k 7) - 1) =? N_of_byte (last bs b0)) = false
   <-> (k mod 8 <> 0 -> N_of_byte (last bs b0) / 2 ^ (k mod 8) = 0)).
Proof.
  intros Hl. rewrite BP.land7, land_low. set (x := N_of_byte (last bs b0)).
  assert (Hp : 0 < 2 ^ (k mod 8)) by apply pow2_pos.
  destruct (N.eqb_spec (lenN bs) 0) as [|_]; [lia|]. cbn [negb andb].
  destruct (N.eqb_spec (k mod 8) 0) as [Hz|Hnz]; cbn [negb andb].
  - split; [intros _ C; contradiction|reflexivity].
  - destruct (N.eqb_spec (x mod 2 ^ (k mod 8)) x) as [E|NE]; cbn [negb].
    + split; [intros _ _|reflexivity]. apply N.div_small. rewrite <- E. apply N.mod_lt. lia.
    + split; [discriminate|]. intros H. exfalso. apply NE. apply N.mod_small.
      specialize (H Hnz). apply N.div_small_iff in H; lia.
Qed.

Lemma canon_bitvector k : wf_ty (TBitvector k) = true -> small_params (TBitvector k) = true ->
  canon_ty (TBitvector k).
Proof.
  intros Hwf Hsp bs n H. cbn [wf_ty small_params] in Hwf, Hsp. apply N.leb_le in Hwf, Hsp.
  pose proof small_plus8 as H56.
  cbn [sdec info ti_size] in H. rewrite wrap64_small in H by lia.
  destruct (N.eqb_spec ((k + 7) / 8) (lenN bs)) as [Hl|]; [|discriminate H]. cbn [negb] in H.
  match type of H with (if ?c then _ else _) = _ => destruct c eqn:Hpad; [discriminate H|] end.
  apply r2o_some in H.
  pose proof (proj1 (bv_pad_check bs k ltac:(lia)) Hpad) as Hpad'. clear Hpad. rename Hpad' into Hpad.
  assert (Hchk : Bitfields.bitvector_check bs k = OK tt).
  { apply BP.bitvector_check_spec.
    - pose proof k56_bound. lia.
    - split; [symmetry; exact Hl|exact Hpad]. }
  apply BP.bitvector_check_sound in Hchk;
    [|pose proof k56_bound; lia].
  destruct Hchk as (bits & Hbl & ->). fold (lenN bits) in Hbl.
  destruct (build_bitvector k bits Hsp Hbl) as (nd & E & R).
  rewrite E in H. injection H as <-.
  exists (VBits bits). cbn [has_type spec_ser]. split; [apply N.eqb_eq; exact Hbl|].
  split; [reflexivity|exact R].
Qed.

Lemma compl_bitvector k : wf_ty (TBitvector k) = true -> small_params (TBitvector k) = true ->
  compl_ty (TBitvector k).
Proof.
  intros Hwf Hsp v Hty _. cbn [wf_ty small_params] in Hwf, Hsp. apply N.leb_le in Hwf, Hsp.
  pose proof small_plus8 as H56.
  destruct v; try discriminate Hty. cbn [has_type] in Hty. apply N.eqb_eq in Hty.
  fold (lenN bs) in Hty. cbn [spec_ser].
  destruct (build_bitvector k bs Hsp Hty) as (nd & E & R). exists nd. split; [|exact R].
  cbn [sdec info ti_size]. rewrite wrap64_small by lia.
  rewrite SizeProofs.bits_to_bytes_lenN, Hty, N.eqb_refl. cbn [negb].
  assert (Hchk : Bitfields.bitvector_check (bits_to_bytes bs) (lenN bs) = OK tt).
  { apply BP.bitvector_check_complete. change (BP.lenN bs) with (lenN bs).
    pose proof k56_bound. lia. }
  apply BP.bitvector_check_spec in Hchk; [|pose proof k56_bound; lia].
  destruct Hchk as [Hl Hpad]. rewrite Hty in Hpad.
  pose proof (proj2 (bv_pad_check (bits_to_bytes bs) k
                  ltac:(rewrite SizeProofs.bits_to_bytes_lenN; lia)) Hpad) as Hpad'.
  clear Hpad. rename Hpad' into Hpad.
  rewrite SizeProofs.bits_to_bytes_lenN, Hty in Hpad. rewrite Hpad, E. reflexivity.
Qed.

(* ---- bitlists ---- *)
Lemma clear_byte_sweep :
  forallb (fun l =>
     let x := N_of_byte l in let dbi := byte_bit_index_N x in
     (x =? 0) || (dbi =? 0) ||
     match bits_to_bytes (firstn (N.to_nat dbi) (BP.byte_bits l)) with
     | [y] => Byte.eqb y (byte_of_N (N.lxor x (2 ^ dbi)))
     | _ => false
     end) BP.all_bytes = true.
Proof. vm_compute. reflexivity. Qed.

Lemma clear_byte l : N_of_byte l <> 0 -> byte_bit_index_N (N_of_byte l) <> 0 ->
  bits_to_bytes (firstn (N.to_nat (byte_bit_index_N (N_of_byte l))) (BP.byte_bits l)) =
  [byte_of_N (N.lxor (N_of_byte l) (2 ^ byte_bit_index_N (N_of_byte l)))].
Proof.
  intros H1 H2. pose proof (BP.byte_sweep _ clear_byte_sweep l) as S. cbv beta zeta in S.
  apply orb_true_iff in S. destruct S as [S|S].
  - apply orb_true_iff in S. destruct S as [S|S]; apply N.eqb_eq in S; contradiction.
  - destruct (bits_to_bytes _) as [|x [|y t]]; try discriminate S.
    apply Byte.byte_dec_bl in S. subst x. reflexivity.
Qed.

Lemma bitlist_decode init l : N_of_byte l <> 0 ->
  let dbi := byte_bit_index_N (N_of_byte l) in
  exists bits, init ++ [l] = ser_bitlist bits /\ lenN bits = 8 * lenN init + dbi /\
    bits_to_bytes bits =
    if dbi =? 0 then init else init ++ [byte_of_N (N.lxor (N_of_byte l) (2 ^ dbi))].
Proof.
  intros Hl dbi.
  assert (Hdbi : dbi < 8) by apply (BP.byte_bit_index_lt8 l).
  exists (BP.bytes_to_bits init ++ firstn (N.to_nat dbi) (BP.byte_bits l)). split; [|split].
  - unfold ser_bitlist. rewrite <- app_assoc, BP.btb_bytes_to_bits_app.
    f_equal. symmetry. apply (BP.delim_byte l Hl).
  - rewrite lenN_app. unfold lenN.
    rewrite BP.bytes_to_bits_length, firstn_length, BP.byte_bits_length. lia.
  - rewrite BP.btb_bytes_to_bits_app. destruct (N.eqb_spec dbi 0) as [E|NE].
    + rewrite E. change (N.to_nat 0) with 0%nat. cbn [firstn]. rewrite BP.btb_nil. apply app_nil_r.
    + f_equal. apply clear_byte; assumption.
Qed.

Lemma repr_empty_bitlist k :
  repr zh (TBitlist k) (Pair (zleaf zh (contents_depth (TBitlist k))) (zleaf zh 0)) (VBits []).
Proof.
  cbn [repr]. eexists. split.
  - unfold zleaf at 2. change (nat_of 0) with 0%nat. rewrite <- len_leaf_0. reflexivity.
  - apply series_nil, ztree_leaf.
Qed.

Lemma shiftl3_small a : 8 * a < two64 -> wrap64 (N.shiftl a 3) = 8 * a.
Proof. intros H. rewrite BP.shiftl3. apply wrap64_small, H. Qed.

Lemma canon_bitlist k : small_params (TBitlist k) = true -> canon_ty (TBitlist k).
Proof.
  intros Hsp bs n H. cbn [small_params] in Hsp. apply N.leb_le in Hsp.
  pose proof small_plus8 as H56.
  cbn [sdec info ti_max] in H. rewrite wrap64_small in H by lia.
  destruct (N.eqb_spec (lenN bs) 0) as [|Hne]; [discriminate H|].
  destruct (N.ltb_spec ((k + 8) / 8) (lenN bs)) as [|Hmax]; [discriminate H|].
  destruct (N.eqb_spec (N_of_byte (last bs b0)) 0) as [|Hl0]; [discriminate H|].
  assert (Hnn : bs <> []) by (intros ->; apply Hne; reflexivity).
  destruct (exists_last Hnn) as (init & l & ->).
  rewrite last_last in *. rewrite removelast_last in H.
  rewrite lenN_app in *. change (lenN [l]) with 1 in *.
  replace (lenN init + 1 - 1) with (lenN init) in H by lia.
  rewrite shiftl3_small in H by lia.
  destruct (bitlist_decode init l Hl0) as (bits & Hser & Hlen & Hbtb).
  set (dbi := byte_bit_index_N (N_of_byte l)) in *.
  exists (VBits bits). cbn [has_type spec_ser].
  destruct ((lenN init + 1 =? 1) && (N_of_byte l =? 1)) eqn:Hspecial.
  - apply andb_prop in Hspecial. destruct Hspecial as [S1 S2].
    apply N.eqb_eq in S1, S2. cbn [default_node r2o] in H. injection H as <-.
    assert (Hd0 : dbi = 0) by (unfold dbi; rewrite S2; reflexivity).
    assert (Hb0 : bits = []).
    { destruct bits; [reflexivity|]. rewrite lenN_cons in Hlen. lia. }
    subst bits. split; [apply N.leb_le; change (N.of_nat (length (@nil bool))) with 0; lia|].
    split; [exact Hser|apply repr_empty_bitlist].
  - destruct (N.ltb_spec k (8 * lenN init + dbi)) as [|Hle]; [discriminate H|].
    rewrite <- Hbtb in H. obindS H E. apply r2o_some in E. injection H as <-.
    rewrite <- Hlen in *.
    destruct (build_bitlist k bits Hsp Hle) as (c & Ec & Rc).
    rewrite Ec in E. injection E as <-.
    split; [apply N.leb_le; exact Hle|]. split; [exact Hser|exact Rc].
Qed.

Lemma compl_bitlist k : small_params (TBitlist k) = true -> compl_ty (TBitlist k).
Proof.
  intros Hsp v Hty _. cbn [small_params] in Hsp. apply N.leb_le in Hsp.
  pose proof small_plus8 as H56.
  destruct v; try discriminate Hty. cbn [has_type] in Hty. apply N.leb_le in Hty.
  fold (lenN bs) in Hty. rename bs into bits. cbn [spec_ser].
  destruct (BP.pack_bitlist_struct bits) as (A & r & q & E & HA & Hr & Hq & Hpack).
  change (BP.pack_bitlist bits) with (ser_bitlist bits) in Hpack. change (BP.lenN r) with (lenN r) in Hpack.
  assert (HlenA : lenN A = 8 * N.of_nat q) by (unfold lenN; lia).
  assert (Hlbits : lenN bits = 8 * N.of_nat q + lenN r) by (rewrite E, lenN_app; lia).
  assert (Hr8 : lenN r < 8) by (unfold lenN; lia).
  pose proof (BP.delim_lt256 r Hr) as Hd256. change (BP.lenN r) with (lenN r) in Hd256.
  pose proof (BP.delim_nonzero r) as Hdnz. change (BP.lenN r) with (lenN r) in Hdnz.
  pose proof (BP.delim_index r Hr) as Hdi.
  change (BP.lenN r) with (lenN r) in Hdi.
  change (Bitfields.byte_bit_index_N (bits_val r + 2 ^ lenN r))
    with (byte_bit_index_N (bits_val r + 2 ^ lenN r)) in Hdi.
  pose proof (BP.delim_clear r) as Hdc. change (BP.lenN r) with (lenN r) in Hdc.
  destruct (build_bitlist k bits Hsp Hty) as (c & Ec & Rc).
  cbn [sdec info ti_max]. rewrite wrap64_small by lia. rewrite Hpack.
  rewrite last_last, removelast_last, lenN_app.
  change (lenN [byte_of_N (bits_val r + 2 ^ lenN r)]) with 1.
  assert (HlA : lenN (bits_to_bytes A) = N.of_nat q) by (unfold lenN; rewrite Hq; reflexivity).
  rewrite HlA, BP.N_of_byte_of_N by exact Hd256.
  destruct (N.eqb_spec (N.of_nat q + 1) 0) as [|_]; [lia|].
  destruct (N.ltb_spec ((k + 8) / 8) (N.of_nat q + 1)) as [|_]; [lia|].
  destruct (N.eqb_spec (bits_val r + 2 ^ lenN r) 0) as [|_]; [contradiction|].
  replace (N.of_nat q + 1 - 1) with (N.of_nat q) by lia.
  rewrite shiftl3_small by lia. rewrite Hdi, Hdc.
  destruct ((N.of_nat q + 1 =? 1) && (bits_val r + 2 ^ lenN r =? 1)) eqn:Hspecial.
  - apply andb_prop in Hspecial. destruct Hspecial as [S1 S2]. apply N.eqb_eq in S1, S2.
    assert (Hr0 : r = []).
    { destruct r as [|b r']; [reflexivity|]. rewrite lenN_cons in S2.
      assert (2 <= 2 ^ (1 + lenN r')) by (rewrite N.pow_add_r; pose proof (pow2_pos (lenN r')); lia).
      lia. }
    assert (HA0 : A = []) by (destruct A; [reflexivity|cbn [length] in HA; lia]).
    subst r A. cbn [app] in E. subst bits.
    cbn [default_node r2o]. eexists. split; [reflexivity|apply repr_empty_bitlist].
  - destruct (N.ltb_spec k (8 * N.of_nat q + lenN r)) as [|_]; [lia|].
    assert (Hcont : (if lenN r =? 0 then bits_to_bytes A
                     else bits_to_bytes A ++ [byte_of_N (bits_val r)]) = bits_to_bytes bits).
    { rewrite E. destruct (N.eqb_spec (lenN r) 0) as [Hz|Hnz].
      - destruct r; [|rewrite lenN_cons in Hz; lia]. rewrite app_nil_r. reflexivity.
      - rewrite (BP.btb_app8 q) by exact HA. f_equal. symmetry. apply BP.btb_small.
        unfold lenN in *. lia. }
    rewrite Hcont, Ec. cbn [r2o obind]. rewrite <- Hlbits.
    eexists. split; [reflexivity|exact Rc].
Qed.

(* ---- series: shapes ---- *)
Definition decs (sd : sdecoder) (pieces : list (list byte)) (ns : list node) : Prop :=
  Forall2 (fun p n => sd p = Some n) pieces ns.

Lemma firstn_skipn_N {A} (l : list A) k : firstn (nat_of k) l ++ skipn (nat_of k) l = l.
Proof. apply firstn_skipn. Qed.

Lemma lenN_concat_const (pieces : list (list byte)) size :
  Forall (fun p => lenN p = size) pieces -> lenN (concat pieces) = lenN pieces * size.
Proof.
  induction 1 as [|p ps Hp _ IH]; [reflexivity|].
  cbn [concat]. rewrite lenN_app, lenN_cons, IH, Hp. lia.
Qed.

Lemma s_fixed_series_shape sd size : forall count bs ns,
  s_fixed_series sd count size bs = Some ns ->
  exists pieces rest, bs = concat pieces ++ rest /\ decs sd pieces ns /\
    Forall (fun p => lenN p = size) pieces /\ length pieces = count.
Proof.
  induction count as [|k IH]; intros bs ns H.
  - cbn [s_fixed_series] in H. injection H as <-. exists [], bs.
    repeat split; constructor.
  - cbn [s_fixed_series] in H. destruct (N.ltb_spec (lenN bs) size) as [|Hl]; [discriminate H|].
    obindS H E1. obindS H E2. injection H as <-.
    destruct (IH _ _ E2) as (pieces & rest & Hbs & Hd & Hsz & Hlen).
    exists (firstn (nat_of size) bs :: pieces), rest. repeat split.
    + cbn [concat]. rewrite <- app_assoc, <- Hbs. symmetry. apply firstn_skipn_N.
    + constructor; assumption.
    + constructor; [|exact Hsz]. rewrite lenN_firstn'. lia.
    + cbn [length]. lia.
Qed.

Lemma s_fixed_series_complete sd size : forall pieces ns rest,
  decs sd pieces ns -> Forall (fun p => lenN p = size) pieces ->
  s_fixed_series sd (length pieces) size (concat pieces ++ rest) = Some ns.
Proof.
  induction 1 as [|p n ps ns Hp _ IH]; intros Hsz; [reflexivity|].
  pose proof (Forall_inv Hsz) as Hp1. pose proof (Forall_inv_tail Hsz) as Hsz'. cbv beta in Hp1.
  cbn [length concat s_fixed_series]. rewrite <- app_assoc, lenN_app.
  destruct (N.ltb_spec (lenN p + lenN (concat ps ++ rest)) size); [lia|].
  assert (Hn : nat_of size = length p) by (unfold nat_of, lenN in *; lia).
  rewrite Hn, firstn_app, Nat.sub_diag, firstn_all, firstn_O, app_nil_r, Hp. cbn [obind].
  rewrite skipn_app, Nat.sub_diag, skipn_all, skipn_O. cbn [app].
  rewrite (IH Hsz'). reflexivity.
Qed.

(* elements decoded one by one *)
Lemma elems_canon e pieces ns : canon_ty e -> decs (sdc e) pieces ns ->
  exists vs, forallb (fun x => has_type x e) vs = true /\ pieces = map (spec_ser e) vs /\
             reprs e ns vs.
Proof.
  intros Hc. induction 1 as [|p n ps ns Hp _ IH].
  - exists []. repeat split. constructor.
  - destruct IH as (vs & Hty & Hps & Hr). destruct (Hc _ _ Hp) as (v & Hv & Hpv & Hrv).
    exists (v :: vs). cbn [forallb map]. rewrite Hv, Hty, <- Hpv, <- Hps.
    repeat split. constructor; assumption.
Qed.

Lemma elems_compl e vs : compl_ty e -> forallb (fun x => has_type x e) vs = true ->
  Forall (fun x => lenN (spec_ser e x) < two32) vs ->
  exists ns, decs (sdc e) (map (spec_ser e) vs) ns /\ reprs e ns vs.
Proof.
  intros Hc. induction vs as [|v vs IH]; intros Hty Hlt.
  - exists []. split; constructor.
  - cbn [forallb] in Hty. apply andb_prop in Hty. destruct Hty as [Hv Hty].
    destruct (IH Hty (Forall_inv_tail Hlt)) as (ns & Hd & Hr).
    destruct (Hc v Hv (Forall_inv Hlt)) as (n & Hn & Rn).
    exists (n :: ns). split; constructor; assumption.
Qed.

(* each element's encoding is a part of the whole *)
Lemma series_elem_len (fx : bool) (g : val -> list byte) vs :
  Forall (fun x => lenN (g x) <= lenN (ser_parts (map (fun x => (fx, g x)) vs))) vs.
Proof.
  apply Forall_forall. intros x Hin. rewrite ser_series_lenN.
  pose proof (sumN_map_In_le (fun x => if fx then lenN (g x) else 4 + lenN (g x)) vs x Hin) as H.
  cbv beta in H. destruct fx; lia.
Qed.

(* ---- uintN series ---- *)
Lemma uint_series_decode w : 1 <= w -> forall len bs, lenN bs = N.of_nat len * w ->
  exists vs, length vs = len /\ forallb (fun x => has_type x (TUint w)) vs = true /\
             bs = flat_map (spec_ser (TUint w)) vs.
Proof.
  intros Hw. induction len as [|len IH]; intros bs Hl.
  - exists []. repeat split. destruct bs; [reflexivity|]. rewrite lenN_cons in Hl. lia.
  - destruct (IH (skipn (nat_of w) bs)) as (vs & Hlen & Hty & Hbs).
    { rewrite lenN_skipn'. lia. }
    set (p := firstn (nat_of w) bs).
    assert (Hp : lenN p = w) by (unfold p; rewrite lenN_firstn'; lia).
    exists (VUint (le_val p) :: vs). split; [cbn [length]; lia|]. split.
    + cbn [forallb]. rewrite Hty, andb_true_r. cbn [has_type]. apply N.ltb_lt.
      rewrite <- pow256. pose proof (le_val_bound p) as Hb. rewrite Hp in Hb. exact Hb.
    + cbn [flat_map]. rewrite <- Hbs. cbn [spec_ser].
      replace (nat_of w) with (length p) at 1 by (unfold lenN, nat_of in *; lia).
      rewrite le_bytes_le_val. symmetry. apply firstn_skipn_N.
Qed.

Lemma ser_series_fixed e vs : spec_is_fixed e = true ->
  ser_parts (map (fun x => (spec_is_fixed e, spec_ser e x)) vs) = concat (map (spec_ser e) vs).
Proof. intros ->. apply ser_parts_all_fixed. Qed.

Lemma ser_series_uint w vs :
  ser_parts (map (fun x => (spec_is_fixed (TUint w), spec_ser (TUint w) x)) vs) =
  flat_map (spec_ser (TUint w)) vs.
Proof. rewrite ser_series_fixed by reflexivity. symmetry. apply flat_map_concat_map. Qed.

(* ---- series of variable-size parts ---- *)
Fixpoint offs_of (cur : N) (qs : list (list byte)) : list N :=
  match qs with [] => [] | q :: r => cur :: offs_of (cur + lenN q) r end.

Definition var_parts (qs : list (list byte)) : list part := map (fun q => (false, q)) qs.

Lemma layout_var_fixed : forall qs cur,
  flat_map pf_fixed (layout cur (var_parts qs)) = flat_map (le_bytes 4) (offs_of cur qs).
Proof.
  induction qs as [|q qs IH]; intros cur; [reflexivity|].
  cbn [var_parts map layout flat_map pf_fixed offs_of]. fold (var_parts qs). rewrite IH. reflexivity.
Qed.

Lemma layout_var_var : forall qs cur, flat_map pf_var (layout cur (var_parts qs)) = concat qs.
Proof.
  induction qs as [|q qs IH]; intros cur; [reflexivity|].
  cbn [var_parts map layout flat_map pf_var concat]. fold (var_parts qs). rewrite IH. reflexivity.
Qed.

Lemma offs_of_length : forall qs cur, length (offs_of cur qs) = length qs.
Proof. induction qs as [|q qs IH]; intros cur; cbn [offs_of length]; [reflexivity|]. rewrite IH. reflexivity. Qed.

Lemma lenN_flat_map_le4 offs : lenN (flat_map (le_bytes 4) offs) = 4 * lenN offs.
Proof.
  induction offs as [|o r IH]; [reflexivity|].
  cbn [flat_map]. rewrite lenN_app, IH, lenN_cons. unfold lenN at 1. rewrite le_bytes_length. lia.
Qed.

Lemma ser_parts_all_var qs :
  ser_parts (var_parts qs) = flat_map (le_bytes 4) (offs_of (4 * lenN qs) qs) ++ concat qs.
Proof.
  pose proof (ser_parts_layout (layout (4 * lenN qs) (var_parts qs))) as H.
  rewrite layout_parts, layout_var_fixed, layout_var_var in H. apply H.
  rewrite lenN_flat_map_le4. unfold lenN at 1. rewrite offs_of_length. apply layout_ok.
Qed.

Lemma ser_series_var e vs : spec_is_fixed e = false ->
  map (fun x => (spec_is_fixed e, spec_ser e x)) vs = var_parts (map (spec_ser e) vs).
Proof. intros ->. unfold var_parts. rewrite map_map. reflexivity. Qed.

Lemma flat_map_cons' {A B} (f : A -> list B) x l : flat_map f (x :: l) = f x ++ flat_map f l.
Proof. reflexivity. Qed.

Lemma s_offsets_S k prev bs :
  s_offsets (S k) prev bs =
  if lenN bs <? 4 then None else
  if le_val (firstn 4 bs) <? prev then None else
  odo r <- s_offsets k (le_val (firstn 4 bs)) (skipn 4 bs); let '(offs, rest) := r in
  Some (le_val (firstn 4 bs) :: offs, rest).
Proof. reflexivity. Qed.

Lemma s_offsets_shape : forall count prev bs offs rest,
  s_offsets count prev bs = Some (offs, rest) ->
  bs = flat_map (le_bytes 4) offs ++ rest /\ length offs = count /\
  sorted_from prev offs /\ Forall (fun o => o < two32) offs.
Proof.
  induction count as [|k IH]; intros prev bs offs rest H.
  - cbn [s_offsets] in H. injection H as <- <-. repeat split; constructor.
  - rewrite s_offsets_S in H. destruct (N.ltb_spec (lenN bs) 4) as [|Hl]; [discriminate H|].
    destruct (N.ltb_spec (le_val (firstn 4 bs)) prev) as [|Hp]; [discriminate H|].
    obindS H E. destruct p as [offs' rest'].
    assert (Ho : offs = le_val (firstn 4 bs) :: offs' /\ rest = rest') by (split; congruence).
    destruct Ho as [-> ->]. clear H.
    destruct (IH _ _ _ _ E) as (Hbs & Hlen & Hso & Hlt).
    assert (Hl4 : length (firstn 4 bs) = 4%nat) by (rewrite firstn_length; unfold lenN in Hl; lia).
    repeat split.
    + rewrite flat_map_cons', <- app_assoc, <- Hbs.
      replace (le_bytes 4 (le_val (firstn 4 bs))) with (firstn 4 bs)
        by (rewrite <- Hl4 at 2; symmetry; apply le_bytes_le_val).
      symmetry. apply firstn_skipn.
    + cbn [length]. lia.
    + exact Hp.
    + exact Hso.
    + constructor; [|exact Hlt]. apply le_val_4_bound. unfold lenN. lia.
Qed.

Lemma s_offsets_complete : forall offs prev rest,
  sorted_from prev offs -> Forall (fun o => o < two32) offs ->
  s_offsets (length offs) prev (flat_map (le_bytes 4) offs ++ rest) = Some (offs, rest).
Proof.
  induction offs as [|o r IH]; intros prev rest Hso Hlt; [reflexivity|].
  destruct Hso as [Hp Hso]. pose proof (Forall_inv Hlt) as Ho. cbv beta in Ho.
  cbn [length flat_map s_offsets]. rewrite <- app_assoc, lenN_app.
  unfold lenN at 1. rewrite le_bytes_length.
  destruct (N.ltb_spec (N.of_nat 4 + lenN (flat_map (le_bytes 4) r ++ rest)) 4); [lia|].
  assert (Hf : firstn 4 (le_bytes 4 o ++ flat_map (le_bytes 4) r ++ rest) = le_bytes 4 o).
  { rewrite firstn_app, le_bytes_length, Nat.sub_diag, firstn_O, app_nil_r.
    apply firstn_all2. rewrite le_bytes_length. lia. }
  assert (Hs : skipn 4 (le_bytes 4 o ++ flat_map (le_bytes 4) r ++ rest) = flat_map (le_bytes 4) r ++ rest).
  { rewrite skipn_app, le_bytes_length, Nat.sub_diag, skipn_O.
    rewrite skipn_all2 by (rewrite le_bytes_length; lia). reflexivity. }
  rewrite Hf, Hs, le_val_u32 by exact Ho.
  destruct (N.ltb_spec o prev); [lia|]. rewrite (IH _ _ Hso (Forall_inv_tail Hlt)). reflexivity.
Qed.

Lemma s_var_elems_shape sd scope : forall offs o1 R ns,
  sorted_from o1 offs -> lenN R = scope - o1 ->
  s_var_elems sd (o1 :: offs) scope R = Some ns ->
  exists qs, R = concat qs /\ decs sd qs ns /\ offs_of o1 qs = o1 :: offs /\
             o1 + lenN R = scope.
Proof.
  induction offs as [|o' rest IH]; intros o1 R ns Hso HR H.
  - cbn [s_var_elems] in H. destruct (N.ltb_spec scope o1) as [|Hs]; [discriminate H|].
    destruct (_ <? _); [discriminate H|]. obindS H E. injection H as <-.
    rewrite <- HR in E. unfold nat_of, lenN in E. rewrite Nat2N.id, firstn_all in E.
    exists [R]. cbn [concat offs_of]. rewrite app_nil_r. repeat split; [|lia].
    constructor; [exact E|constructor].
  - destruct Hso as [Hle Hso]. rewrite s_var_elems_cons2 in H.
    destruct (N.ltb_spec (lenN R) (o' - o1)) as [|Hl]; [discriminate H|].
    obindS H E1. obindS H E2. injection H as <-.
    assert (HR2 : lenN (skipn (nat_of (o' - o1)) R) = scope - o') by (rewrite lenN_skipn'; lia).
    destruct (IH o' (skipn (nat_of (o' - o1)) R) l Hso HR2 E2) as (qs & HR' & Hd & Hoffs & Hend).
    rewrite lenN_skipn' in Hend.
    exists (firstn (nat_of (o' - o1)) R :: qs). cbn [concat offs_of].
    rewrite lenN_firstn'. replace (o1 + N.min (o' - o1) (lenN R)) with o' by lia.
    rewrite <- HR', Hoffs. repeat split; [symmetry; apply firstn_skipn_N| |lia].
    constructor; assumption.
Qed.

Lemma s_var_elems_complete sd scope : forall qs ns,
  decs sd qs ns -> forall o1, qs <> [] -> o1 + lenN (concat qs) = scope ->
  s_var_elems sd (offs_of o1 qs) scope (concat qs) = Some ns.
Proof.
  induction 1 as [|q n qs ns Hq Hd IH]; intros o1 Hne Hend; [congruence|].
  cbn [concat] in *. rewrite lenN_app in Hend.
  assert (Hn : nat_of (lenN q) = length q) by (unfold nat_of, lenN; lia).
  destruct qs as [|q' qs'].
  - assert (ns = []) as -> by (inversion Hd; reflexivity).
    cbn [offs_of concat s_var_elems] in *. rewrite app_nil_r in *.
    change (lenN (@nil byte)) with 0 in Hend.
    destruct (N.ltb_spec scope o1); [lia|].
    replace (scope - o1) with (lenN q) by lia.
    destruct (N.ltb_spec (lenN q) (lenN q)); [lia|].
    rewrite Hn, firstn_all, Hq. reflexivity.
  - cbn [offs_of]. rewrite s_var_elems_cons2.
    replace (o1 + lenN q - o1) with (lenN q) by lia. rewrite lenN_app.
    destruct (N.ltb_spec (lenN q + lenN (concat (q' :: qs'))) (lenN q)); [lia|].
    rewrite Hn, firstn_app, Nat.sub_diag, firstn_all, firstn_O, app_nil_r, Hq. cbn [obind].
    rewrite skipn_app, Nat.sub_diag, skipn_all, skipn_O. cbn [app].
    change (o1 + lenN q :: offs_of (o1 + lenN q + lenN q') qs') with (offs_of (o1 + lenN q) (q' :: qs')).
    rewrite IH; [reflexivity|discriminate|lia].
Qed.

Lemma hd_offs_of qs cur : qs <> [] -> hd 0 (offs_of cur qs) = cur.
Proof. destruct qs; [congruence|reflexivity]. Qed.

Lemma offs_of_sorted : forall qs cur, sorted_from cur (offs_of cur qs).
Proof.
  induction qs as [|q qs IH]; intros cur; cbn [offs_of sorted_from]; [exact I|].
  split; [lia|]. destruct qs as [|q' qs']; [exact I|]. cbn [offs_of sorted_from].
  split; [lia|]. specialize (IH (cur + lenN q)). cbn [offs_of sorted_from] in IH. exact (proj2 IH).
Qed.

Lemma offs_of_bound : forall qs cur bound, cur + lenN (concat qs) <= bound ->
  Forall (fun o => o <= bound) (offs_of cur qs).
Proof.
  induction qs as [|q qs IH]; intros cur bound H; cbn [offs_of]; [constructor|].
  cbn [concat] in H. rewrite lenN_app in H. constructor; [lia|]. apply IH. lia.
Qed.

(* ---- vectors ---- *)
Lemma has_type_vector e n vs :
  has_type (VSeq vs) (TVector e n) = (lenN vs =? n) && forallb (fun x => has_type x e) vs.
Proof. reflexivity. Qed.
Lemma has_type_list e n vs :
  has_type (VSeq vs) (TList e n) = (lenN vs <=? n) && forallb (fun x => has_type x e) vs.
Proof. reflexivity. Qed.
Lemma spec_ser_vector e n vs :
  spec_ser (TVector e n) (VSeq vs) = ser_parts (map (fun x => (spec_is_fixed e, spec_ser e x)) vs).
Proof. reflexivity. Qed.
Lemma spec_ser_list e n vs :
  spec_ser (TList e n) (VSeq vs) = ser_parts (map (fun x => (spec_is_fixed e, spec_ser e x)) vs).
Proof. reflexivity. Qed.

Lemma is_basic_uint e : is_basic_elem e = true -> exists w, e = TUint w.
Proof. destruct e; intros H; try discriminate H. eexists; reflexivity. Qed.

Lemma uint_width_pos w : uint_width_ok w = true -> 1 <= w.
Proof.
  unfold uint_width_ok. intros H.
  repeat (apply orb_prop in H; destruct H as [H|H]); apply N.eqb_eq in H; lia.
Qed.

Lemma lenN_map' {A B} (f : A -> B) l : lenN (map f l) = lenN l.
Proof. unfold lenN. rewrite map_length. reflexivity. Qed.

Lemma lenN_nat_of {A} (l : list A) n : length l = nat_of n -> lenN l = n.
Proof. intros H. unfold lenN, nat_of in *. lia. Qed.

Lemma sorted_from_weaken l a b : b <= a -> sorted_from a l -> sorted_from b l.
Proof. destruct l as [|o r]; [auto|]. intros H [H1 H2]. split; [lia|exact H2]. Qed.

Lemma Forall_lt_of_le (l : list N) b c : b < c -> Forall (fun o => o <= b) l -> Forall (fun o => o < c) l.
Proof. intros H HF. eapply Forall_impl; [|exact HF]. cbv beta. intros; lia. Qed.

Lemma canon_vector e n :
  wf_ty (TVector e n) = true -> small_params (TVector e n) = true ->
  sizes_ok (TVector e n) = true -> canon_ty e -> canon_ty (TVector e n).
Proof.
  intros Hwf Hsp Hso Hce bs nd H.
  pose proof Hsp as Hsp'. cbn [small_params] in Hsp'. apply andb_prop in Hsp'.
  destruct Hsp' as [Hn56 _]. apply N.leb_le in Hn56.
  pose proof Hwf as Hwf'. cbn [wf_ty] in Hwf'. apply andb_prop in Hwf'.
  destruct Hwf' as [Hn1 Hwfe]. apply N.leb_le in Hn1.
  cbn [sdec] in H.
  destruct (is_basic_elem e) eqn:Hbasic; [|destruct (ti_fixed (info e)) eqn:Hfx].
  - destruct (is_basic_uint e Hbasic) as [w ->]. cbn [wf_ty] in Hwfe.
    ifErr H. apply negb_false_iff, N.eqb_eq in Heqb.
    rewrite (vector_fixed_size _ n Hsp Hso eq_refl) in Heqb. cbn [info ti_size] in Heqb.
    apply r2o_some in H.
    destruct (uint_series_decode w (uint_width_pos w Hwfe) (nat_of n) bs) as (vs & Hlen & Hty & ->).
    { rewrite N_of_nat_of. symmetry. exact Heqb. }
    apply lenN_nat_of in Hlen.
    destruct (build_vector_uint w n vs Hwfe Hn56 Hlen Hty) as (nd' & E & R).
    rewrite E in H. injection H as <-.
    exists (VSeq vs). split; [|split; [|exact R]].
    + rewrite has_type_vector, Hlen, N.eqb_refl, Hty. reflexivity.
    + rewrite spec_ser_vector, ser_series_uint. reflexivity.
  - ifErr H. apply negb_false_iff, N.eqb_eq in Heqb.
    rewrite (vector_fixed_size _ n Hsp Hso Hfx) in Heqb.
    obindS H E. apply r2o_some in H.
    destruct (s_fixed_series_shape _ _ _ _ _ E) as (pieces & rest & Hbs & Hd & Hsz & Hlen).
    apply lenN_nat_of in Hlen.
    assert (Hrest : rest = []).
    { assert (Hl : lenN bs = lenN (concat pieces) + lenN rest) by (rewrite Hbs, lenN_app; reflexivity).
      rewrite (lenN_concat_const _ _ Hsz), Hlen in Hl.
      destruct rest; [reflexivity|]. rewrite lenN_cons in Hl. lia. }
    subst rest. rewrite app_nil_r in Hbs. subst bs.
    destruct (elems_canon e pieces l Hce Hd) as (vs & Hty & -> & Hr).
    rewrite lenN_map' in Hlen.
    destruct (build_vector_nb e n l vs Hbasic Hn56 Hr Hlen) as (nd' & E' & R).
    rewrite E' in H. injection H as <-.
    exists (VSeq vs). split; [|split; [|exact R]].
    + rewrite has_type_vector, Hlen, N.eqb_refl, Hty. reflexivity.
    + rewrite spec_ser_vector, ser_series_fixed by (rewrite <- info_fixed_flag; exact Hfx). reflexivity.
  - obindS H E. destruct p as [offs rest]. ifErr H.
    apply negb_false_iff, N.eqb_eq in Heqb. rewrite mul64_4 in Heqb by exact Hn56.
    obindS H E2. apply r2o_some in H.
    destruct (s_offsets_shape _ _ _ _ _ E) as (Hbs & Hlen & Hsorted & Hlt).
    apply lenN_nat_of in Hlen.
    destruct offs as [|o1 offs]; [change (lenN (@nil N)) with 0 in Hlen; lia|].
    cbn [hd] in Heqb. subst o1. destruct Hsorted as [_ Hsorted].
    assert (HlenR : lenN rest = lenN bs - 4 * n).
    { rewrite Hbs, lenN_app, lenN_flat_map_le4, Hlen. lia. }
    destruct (s_var_elems_shape _ _ _ _ _ _ Hsorted HlenR E2) as (qs & HR & Hd & Hoffs & _).
    destruct (elems_canon e qs l Hce Hd) as (vs & Hty & -> & Hr).
    assert (Hlvs : lenN vs = n).
    { rewrite <- Hlen, <- Hoffs. unfold lenN. rewrite offs_of_length, map_length. reflexivity. }
    destruct (build_vector_nb e n l vs Hbasic Hn56 Hr Hlvs) as (nd' & E' & R).
    rewrite E' in H. injection H as <-.
    exists (VSeq vs). split; [|split; [|exact R]].
    + rewrite has_type_vector, Hlvs, N.eqb_refl, Hty. reflexivity.
    + rewrite spec_ser_vector, ser_series_var by (rewrite <- info_fixed_flag; exact Hfx).
      rewrite ser_parts_all_var, lenN_map', Hlvs, Hoffs, <- HR. exact Hbs.
Qed.

Lemma compl_vector e n :
  wf_ty (TVector e n) = true -> small_params (TVector e n) = true ->
  sizes_ok (TVector e n) = true -> compl_ty e -> compl_ty (TVector e n).
Proof.
  intros Hwf Hsp Hso Hce v Hty Hlt.
  pose proof Hsp as Hsp'. cbn [small_params] in Hsp'. apply andb_prop in Hsp'.
  destruct Hsp' as [Hn56 Hspe]. apply N.leb_le in Hn56.
  pose proof Hso as Hso'. cbn [sizes_ok] in Hso'. apply andb_prop in Hso'. destruct Hso' as [_ Hsoe].
  pose proof Hwf as Hwf'. cbn [wf_ty] in Hwf'. apply andb_prop in Hwf'.
  destruct Hwf' as [Hn1 Hwfe]. apply N.leb_le in Hn1.
  destruct v; try discriminate Hty. rewrite has_type_vector in Hty. apply andb_prop in Hty.
  destruct Hty as [Hlen Htys]. apply N.eqb_eq in Hlen.
  rewrite spec_ser_vector in *. cbn [sdec].
  destruct (is_basic_elem e) eqn:Hbasic; [|destruct (ti_fixed (info e)) eqn:Hfx].
  - destruct (is_basic_uint e Hbasic) as [w ->]. cbn [wf_ty] in Hwfe.
    rewrite ser_series_uint in *.
    rewrite (vector_fixed_size _ n Hsp Hso eq_refl). cbn [info ti_size].
    rewrite lenN_flat_map_uint, Hlen, N.eqb_refl by exact Htys. cbn [negb].
    destruct (build_vector_uint w n vs Hwfe Hn56 Hlen Htys) as (nd & E & R).
    exists nd. rewrite E. split; [reflexivity|exact R].
  - assert (Hsf : spec_is_fixed e = true) by (rewrite <- info_fixed_flag; exact Hfx).
    rewrite ser_series_fixed in * by exact Hsf.
    destruct (elems_compl e vs Hce Htys) as (ns & Hd & Hr).
    { pose proof (series_elem_len true (spec_ser e) vs) as HF.
      rewrite <- Hsf, ser_series_fixed in HF by exact Hsf.
      eapply Forall_impl; [|exact HF]. cbv beta. intros; lia. }
    assert (Hsz : Forall (fun p => lenN p = ti_size (info e)) (map (spec_ser e) vs)).
    { destruct (info_ok_of e Hspe Hsoe) as (_ & _ & ->). apply Forall_forall.
      intros p Hin. apply in_map_iff in Hin. destruct Hin as (x & <- & Hx).
      apply spec_ser_fixed_len; [exact Hsf|]. rewrite forallb_forall in Htys. apply Htys, Hx. }
    rewrite (vector_fixed_size _ n Hsp Hso Hfx).
    rewrite (lenN_concat_const _ _ Hsz), lenN_map', Hlen, N.eqb_refl. cbn [negb].
    pose proof (s_fixed_series_complete (sdc e) _ _ _ [] Hd Hsz) as Hser.
    rewrite app_nil_r, map_length in Hser.
    replace (nat_of n) with (length vs) by (unfold nat_of, lenN in *; lia).
    rewrite Hser. cbn [obind].
    destruct (build_vector_nb e n ns vs Hbasic Hn56 Hr Hlen) as (nd & E & R).
    exists nd. rewrite E. split; [reflexivity|exact R].
  - assert (Hsf : spec_is_fixed e = false) by (rewrite <- info_fixed_flag; exact Hfx).
    rewrite ser_series_var in * by exact Hsf. set (qs := map (spec_ser e) vs) in *.
    rewrite ser_parts_all_var in *.
    assert (Hlq : lenN qs = n) by (unfold qs; rewrite lenN_map'; exact Hlen).
    rewrite Hlq in *.
    destruct (elems_compl e vs Hce Htys) as (ns & Hd & Hr).
    { pose proof (series_elem_len false (spec_ser e) vs) as HF.
      rewrite <- Hsf, ser_series_var in HF by exact Hsf. fold qs in HF.
      rewrite ser_parts_all_var, Hlq in HF.
      eapply Forall_impl; [|exact HF]. cbv beta. intros; lia. }
    fold qs in Hd.
    set (offs := offs_of (4 * n) qs) in *.
    assert (Hlo : length offs = nat_of n).
    { unfold offs. rewrite offs_of_length. unfold nat_of, lenN in *. lia. }
    assert (Htot : lenN (flat_map (le_bytes 4) offs ++ concat qs) = 4 * n + lenN (concat qs)).
    { rewrite lenN_app, lenN_flat_map_le4. unfold lenN at 1. rewrite Hlo, N_of_nat_of. reflexivity. }
    rewrite Htot in Hlt.
    rewrite <- Hlo, s_offsets_complete.
    + cbn [obind].
      assert (Hne : qs <> []) by (intros Hq; rewrite Hq in Hlq; change (lenN (@nil (list byte))) with 0 in Hlq; lia).
      unfold offs at 1. rewrite (hd_offs_of _ _ Hne), mul64_4, N.eqb_refl by exact Hn56. cbn [negb].
      rewrite Htot. unfold offs.
      rewrite (s_var_elems_complete (sdc e) _ _ _ Hd); [|exact Hne|reflexivity].
      cbn [obind].
      destruct (build_vector_nb e n ns vs Hbasic Hn56 Hr Hlen) as (nd & E & R).
      exists nd. rewrite E. split; [reflexivity|exact R].
    + apply (sorted_from_weaken _ (4 * n)); [lia|apply offs_of_sorted].
    + apply (Forall_lt_of_le _ (4 * n + lenN (concat qs))); [exact Hlt|].
      apply offs_of_bound. lia.
Qed.

(* ---- lists ---- *)
Lemma sumN_pos_all {A} (g : A -> N) l : l <> [] -> Forall (fun x => 1 <= g x) l -> 1 <= sumN (map g l).
Proof.
  intros Hne HF. destruct l as [|x l]; [congruence|]. cbn [map]. rewrite sumN_cons.
  pose proof (Forall_inv HF) as Hx. cbv beta in Hx. lia.
Qed.

Lemma fixed_len_pos : forall t, wf_ty t = true -> spec_is_fixed t = true -> 1 <= spec_fixed_len t.
Proof.
  induction t as [w| |k| |k|k|e k IHe|e k IHe|fs IHfs|none opts IHopts] using ty_ind';
    intros Hwf Hfx; cbn [spec_is_fixed] in Hfx; try discriminate Hfx; cbn [spec_fixed_len wf_ty] in *.
  - apply uint_width_pos, Hwf.
  - lia.
  - apply andb_prop in Hwf. destruct Hwf as [H1 _]. apply N.leb_le in H1. exact H1.
  - lia.
  - apply N.leb_le in Hwf. lia.
  - apply andb_prop in Hwf. destruct Hwf as [H1 Hwfe]. apply N.leb_le in H1.
    rewrite Hfx. specialize (IHe Hwfe Hfx). nia.
  - rewrite Hfx. apply andb_prop in Hwf. destruct Hwf as [Hne Hwf].
    apply sumN_pos_all; [destruct fs; [discriminate Hne|discriminate]|].
    rewrite forallb_forall in Hwf, Hfx. rewrite Forall_forall in *. intros f Hin.
    apply IHfs; auto.
Qed.

Lemma lenN_zero_nil {A} (l : list A) : lenN l = 0 -> l = [].
Proof. destruct l; [reflexivity|]. rewrite lenN_cons. lia. Qed.

Lemma mul64_exact a b s : mul64 a b = s -> a * b <= s -> a * b = s.
Proof.
  unfold mul64, wrap64. intros H Hle. pose proof two64_pos.
  assert (s < two64) by (rewrite <- H; apply N.mod_lt; lia).
  rewrite N.mod_small in H by lia. exact H.
Qed.

Lemma div_mul_le a b : a / b * b <= a.
Proof.
  destruct (N.eq_dec b 0) as [->|Hz]; [lia|]. rewrite N.mul_comm. apply N.mul_div_le, Hz.
Qed.

Lemma has_type_empty_list e n : has_type (VSeq []) (TList e n) = true.
Proof.
  rewrite has_type_list. cbn [forallb]. rewrite andb_true_r. apply N.leb_le.
  change (lenN (@nil val)) with 0. lia.
Qed.

Lemma canon_list e n :
  wf_ty (TList e n) = true -> small_params (TList e n) = true ->
  sizes_ok (TList e n) = true -> canon_ty e -> canon_ty (TList e n).
Proof.
  intros Hwf Hsp Hso Hce bs nd H.
  pose proof Hsp as Hsp'. cbn [small_params] in Hsp'. apply andb_prop in Hsp'.
  destruct Hsp' as [Hn56 _]. apply N.leb_le in Hn56.
  cbn [wf_ty] in Hwf.
  cbn [sdec] in H. rewrite default_node_list in H. cbn [r2o] in H.
  destruct (is_basic_elem e) eqn:Hbasic;
    [|destruct (lenN bs =? 0) eqn:Hs0; [|destruct (ti_fixed (info e)) eqn:Hfx]].
  - destruct (is_basic_uint e Hbasic) as [w ->]. cbn [wf_ty] in Hwf. cbn [info ti_size] in H.
    pose proof (uint_width_pos w Hwf) as Hw1.
    ifErr H. apply N.ltb_ge in Heqb. ifErr H. apply negb_false_iff, N.eqb_eq in Heqb0.
    apply mul64_exact in Heqb0; [|apply div_mul_le].
    destruct (lenN bs / w =? 0) eqn:Hl0.
    + injection H as <-. apply N.eqb_eq in Hl0. rewrite Hl0 in Heqb0.
      assert (bs = []) as -> by (apply lenN_zero_nil; lia).
      exists (VSeq []). split; [apply has_type_empty_list|]. split; [reflexivity|apply repr_empty_list].
    + obindS H E. apply r2o_some in E. injection H as <-.
      destruct (uint_series_decode w Hw1 (nat_of (lenN bs / w)) bs) as (vs & Hlen & Hty & Hbs).
      { rewrite N_of_nat_of. symmetry. exact Heqb0. }
      apply lenN_nat_of in Hlen.
      destruct (build_list_uint w n vs Hwf Hn56 ltac:(lia) Hty) as (c & Ec & Rc).
      rewrite Hbs in E at 1. rewrite Ec in E. injection E as <-. rewrite <- Hlen.
      exists (VSeq vs). split; [|split; [|exact Rc]].
      * rewrite has_type_list, Hty, andb_true_r. apply N.leb_le. lia.
      * rewrite spec_ser_list, ser_series_uint. exact Hbs.
  - injection H as <-. apply N.eqb_eq in Hs0. apply lenN_zero_nil in Hs0. subst bs.
    exists (VSeq []). split; [apply has_type_empty_list|]. split; [reflexivity|apply repr_empty_list].
  - ifErr H. apply N.ltb_ge in Heqb. ifErr H. apply negb_false_iff, N.eqb_eq in Heqb0.
    apply mul64_exact in Heqb0; [|apply div_mul_le].
    obindS H E. obindS H E2. apply r2o_some in E2. injection H as <-.
    destruct (s_fixed_series_shape _ _ _ _ _ E) as (pieces & rest & Hbs & Hd & Hsz & Hlen).
    apply lenN_nat_of in Hlen.
    assert (Hrest : rest = []).
    { assert (Hl : lenN bs = lenN (concat pieces) + lenN rest) by (rewrite Hbs, lenN_app; reflexivity).
      rewrite (lenN_concat_const _ _ Hsz), Hlen in Hl.
      destruct rest; [reflexivity|]. rewrite lenN_cons in Hl. lia. }
    subst rest. rewrite app_nil_r in Hbs.
    destruct (elems_canon e pieces l Hce Hd) as (vs & Hty & -> & Hr).
    rewrite lenN_map' in Hlen.
    destruct (build_list_nb e n l vs Hbasic Hn56 Hr ltac:(lia)) as (c & Ec & Rc).
    rewrite Ec in E2. injection E2 as <-. rewrite <- Hlen.
    exists (VSeq vs). split; [|split; [|exact Rc]].
    + rewrite has_type_list, Hty, andb_true_r. apply N.leb_le. lia.
    + rewrite spec_ser_list, ser_series_fixed by (rewrite <- info_fixed_flag; exact Hfx). exact Hbs.
  - destruct (N.ltb_spec (lenN bs) 4) as [|Hs4]; [discriminate H|].
    set (first := le_val (firstn 4 bs)) in *.
    ifErr H. apply negb_false_iff, N.eqb_eq in Heqb. ifErr H. apply N.ltb_ge in Heqb0.
    ifErr H. apply orb_false_elim in Heqb1. destruct Heqb1 as [Hf0 Hfs].
    apply N.eqb_neq in Hf0. apply N.ltb_ge in Hfs.
    obindS H E. destruct p as [offs rest]. obindS H E2. obindS H E3. apply r2o_some in E3.
    injection H as <-.
    assert (Hfirst : 4 + 4 * (first / 4 - 1) = first /\ 1 <= first / 4).
    { pose proof (N.div_mod first 4 ltac:(lia)) as Hdm. rewrite Heqb in Hdm.
      assert (first / 4 <> 0) by (intros Hz; rewrite Hz in Hdm; lia). lia. }
    destruct Hfirst as [Hfirst Hlen1].
    destruct (s_offsets_shape _ _ _ _ _ E) as (Hbs & Hlen & Hsorted & Hlt).
    apply lenN_nat_of in Hlen.
    assert (Hl4 : length (firstn 4 bs) = 4%nat) by (rewrite firstn_length; unfold lenN in Hs4; lia).
    assert (Hbs' : bs = flat_map (le_bytes 4) (first :: offs) ++ rest).
    { rewrite flat_map_cons', <- app_assoc, <- Hbs. unfold first.
      replace (le_bytes 4 (le_val (firstn 4 bs))) with (firstn 4 bs)
        by (rewrite <- Hl4 at 2; symmetry; apply le_bytes_le_val).
      symmetry. apply firstn_skipn. }
    assert (HlenR : lenN rest = lenN bs - first).
    { assert (Hl : lenN bs = lenN (flat_map (le_bytes 4) (first :: offs) ++ rest))
        by (rewrite <- Hbs'; reflexivity).
      rewrite lenN_app, lenN_flat_map_le4, lenN_cons, Hlen in Hl. lia. }
    destruct (s_var_elems_shape _ _ _ _ _ _ Hsorted HlenR E2) as (qs & HR & Hd & Hoffs & _).
    destruct (elems_canon e qs l Hce Hd) as (vs & Hty & -> & Hr).
    assert (Hlvs : lenN vs = first / 4).
    { assert (Hq : lenN (offs_of first (map (spec_ser e) vs)) = lenN (first :: offs)) by (rewrite Hoffs; reflexivity).
      unfold lenN at 1 in Hq. rewrite offs_of_length, map_length in Hq. fold (lenN vs) in Hq.
      rewrite lenN_cons, Hlen in Hq. lia. }
    destruct (build_list_nb e n l vs Hbasic Hn56 Hr ltac:(lia)) as (c & Ec & Rc).
    rewrite Ec in E3. injection E3 as <-. rewrite <- Hlvs.
    exists (VSeq vs). split; [|split; [|exact Rc]].
    + rewrite has_type_list, Hty, andb_true_r. apply N.leb_le. lia.
    + rewrite spec_ser_list, ser_series_var by (rewrite <- info_fixed_flag; exact Hfx).
      rewrite ser_parts_all_var, lenN_map', Hlvs.
      replace (4 * (first / 4)) with first by lia. rewrite Hoffs, <- HR. exact Hbs'.
Qed.

Lemma ser_parts_nil : ser_parts [] = [].
Proof. reflexivity. Qed.

Lemma firstn_app_exact {A} (a b : list A) k : length a = k -> firstn k (a ++ b) = a.
Proof. intros <-. rewrite firstn_app, Nat.sub_diag, firstn_O, app_nil_r. apply firstn_all. Qed.

Lemma skipn_app_exact {A} (a b : list A) k : length a = k -> skipn k (a ++ b) = b.
Proof. intros <-. rewrite skipn_app, Nat.sub_diag, skipn_O, skipn_all. reflexivity. Qed.

Lemma compl_list e n :
  wf_ty (TList e n) = true -> small_params (TList e n) = true ->
  sizes_ok (TList e n) = true -> compl_ty e -> compl_ty (TList e n).
Proof.
  intros Hwf Hsp Hso Hce v Hty Hlt. pose proof two32_lt_two64 as H3264.
  pose proof Hsp as Hsp'. cbn [small_params] in Hsp'. apply andb_prop in Hsp'.
  destruct Hsp' as [Hn56 Hspe]. apply N.leb_le in Hn56.
  pose proof Hso as Hso'. cbn [sizes_ok] in Hso'. apply andb_prop in Hso'. destruct Hso' as [_ Hsoe].
  cbn [wf_ty] in Hwf.
  destruct v; try discriminate Hty. rewrite has_type_list in Hty. apply andb_prop in Hty.
  destruct Hty as [Hlen Htys]. apply N.leb_le in Hlen.
  rewrite spec_ser_list in *. cbn [sdec]. rewrite default_node_list. cbn [r2o].
  destruct (is_basic_elem e) eqn:Hbasic.
  - destruct (is_basic_uint e Hbasic) as [w ->]. cbn [wf_ty] in Hwf.
    pose proof (uint_width_pos w Hwf) as Hw1.
    rewrite ser_series_uint in *. cbn [info ti_size].
    rewrite lenN_flat_map_uint in * by exact Htys.
    rewrite N.div_mul by lia.
    destruct (N.ltb_spec n (lenN vs)); [lia|].
    rewrite mul64_small, N.eqb_refl by lia. cbn [negb].
    destruct (N.eqb_spec (lenN vs) 0) as [Hz|Hnz].
    + apply lenN_zero_nil in Hz. subst vs. eexists. split; [reflexivity|apply repr_empty_list].
    + destruct (build_list_uint w n vs Hwf Hn56 Hlen Htys) as (c & Ec & Rc).
      rewrite Ec. cbn [r2o obind]. eexists. split; [reflexivity|exact Rc].
  - destruct vs as [|v0 vs0].
    { cbn [map]. change (ser_parts []) with (@nil byte). change (lenN (@nil byte) =? 0) with true. cbv iota.
      eexists. split; [reflexivity|apply repr_empty_list]. }
    set (vs := v0 :: vs0) in *.
    assert (Hvs1 : 1 <= lenN vs) by (unfold vs; rewrite lenN_cons; lia).
    destruct (ti_fixed (info e)) eqn:Hfx.
    + assert (Hsf : spec_is_fixed e = true) by (rewrite <- info_fixed_flag; exact Hfx).
      rewrite ser_series_fixed in * by exact Hsf.
      destruct (elems_compl e vs Hce Htys) as (ns & Hd & Hr).
      { pose proof (series_elem_len true (spec_ser e) vs) as HF.
        rewrite <- Hsf, ser_series_fixed in HF by exact Hsf.
        eapply Forall_impl; [|exact HF]. cbv beta. intros; lia. }
      destruct (info_ok_of e Hspe Hsoe) as (_ & _ & Hsize).
      assert (Hsz : Forall (fun p => lenN p = ti_size (info e)) (map (spec_ser e) vs)).
      { rewrite Hsize. apply Forall_forall.
        intros p Hin. apply in_map_iff in Hin. destruct Hin as (x & <- & Hx).
        apply spec_ser_fixed_len; [exact Hsf|]. rewrite forallb_forall in Htys. apply Htys, Hx. }
      pose proof (fixed_len_pos e Hwf Hsf) as Hpos. rewrite <- Hsize in Hpos.
      rewrite (lenN_concat_const _ _ Hsz), lenN_map' in *.
      destruct (N.eqb_spec (lenN vs * ti_size (info e)) 0) as [Hz|_]; [nia|].
      rewrite N.div_mul by lia.
      destruct (N.ltb_spec n (lenN vs)); [lia|].
      rewrite mul64_small, N.eqb_refl by lia. cbn [negb].
      pose proof (s_fixed_series_complete (sdc e) _ _ _ [] Hd Hsz) as Hser.
      rewrite app_nil_r, map_length in Hser.
      replace (nat_of (lenN vs)) with (length vs) by (unfold nat_of, lenN; lia).
      rewrite Hser. cbn [obind].
      destruct (build_list_nb e n ns vs Hbasic Hn56 Hr Hlen) as (c & Ec & Rc).
      rewrite Ec. cbn [r2o obind]. eexists. split; [reflexivity|exact Rc].
    + assert (Hsf : spec_is_fixed e = false) by (rewrite <- info_fixed_flag; exact Hfx).
      rewrite ser_series_var in * by exact Hsf. set (qs := map (spec_ser e) vs) in *.
      rewrite ser_parts_all_var in *.
      assert (Hlq : lenN qs = lenN vs) by (unfold qs; apply lenN_map').
      rewrite Hlq in *.
      destruct (elems_compl e vs Hce Htys) as (ns & Hd & Hr).
      { pose proof (series_elem_len false (spec_ser e) vs) as HF.
        rewrite <- Hsf, ser_series_var in HF by exact Hsf. fold qs in HF.
        rewrite ser_parts_all_var, Hlq in HF.
        eapply Forall_impl; [|exact HF]. cbv beta. intros; lia. }
      fold qs in Hd.
      set (first := 4 * lenN vs) in *.
      assert (Hqs : qs = spec_ser e v0 :: map (spec_ser e) vs0) by reflexivity.
      assert (Hne : qs <> []) by (rewrite Hqs; discriminate).
      set (offs' := offs_of (first + lenN (spec_ser e v0)) (map (spec_ser e) vs0)).
      assert (Hoffs : offs_of first qs = first :: offs') by (rewrite Hqs; reflexivity).
      assert (Hlo : length offs' = nat_of (lenN vs - 1)).
      { unfold offs'. rewrite offs_of_length, map_length. unfold vs. rewrite lenN_cons.
        unfold nat_of, lenN. lia. }
      rewrite Hoffs in *. rewrite flat_map_cons', <- app_assoc in *.
      set (tail := flat_map (le_bytes 4) offs' ++ concat qs) in *.
      assert (Htot : lenN (le_bytes 4 first ++ tail) = first + lenN (concat qs)).
      { unfold tail. rewrite !lenN_app, lenN_flat_map_le4. unfold lenN at 1 2.
        rewrite le_bytes_length, Hlo, N_of_nat_of. unfold first. lia. }
      rewrite Htot in *.
      destruct (N.eqb_spec (first + lenN (concat qs)) 0) as [|_]; [unfold first in *; lia|].
      destruct (N.ltb_spec (first + lenN (concat qs)) 4); [unfold first in *; lia|].
      rewrite (firstn_app_exact (le_bytes 4 first) tail 4) by apply le_bytes_length.
      rewrite (skipn_app_exact (le_bytes 4 first) tail 4) by apply le_bytes_length.
      rewrite le_val_u32 by lia.
      assert (Hm : first mod 4 = 0) by (unfold first; rewrite N.mul_comm; apply N.mod_mul; lia).
      assert (Hdv : first / 4 = lenN vs) by (unfold first; rewrite N.mul_comm; apply N.div_mul; lia).
      rewrite Hm, Hdv. cbn [N.eqb negb].
      destruct (N.ltb_spec n (lenN vs)); [lia|].
      destruct (N.eqb_spec first 0) as [|_]; [unfold first in *; lia|].
      destruct (N.ltb_spec (first + lenN (concat qs)) first); [lia|]. cbn [orb].
      pose proof (offs_of_sorted qs first) as Hsorted. rewrite Hoffs in Hsorted.
      destruct Hsorted as [_ Hsorted].
      pose proof (offs_of_bound qs first (first + lenN (concat qs)) ltac:(lia)) as Hbound.
      rewrite Hoffs in Hbound. pose proof (Forall_inv_tail Hbound) as Hbound'.
      rewrite <- Hlo. unfold tail.
      rewrite (s_offsets_complete offs' first (concat qs) Hsorted
                 (Forall_lt_of_le _ _ _ Hlt Hbound')).
      cbn [obind]. rewrite <- Hoffs.
      rewrite (s_var_elems_complete (sdc e) _ _ _ Hd first Hne eq_refl). cbn [obind].
      destruct (build_list_nb e n ns vs Hbasic Hn56 Hr Hlen) as (c & Ec & Rc).
      rewrite Ec. cbn [r2o obind]. eexists. split; [reflexivity|exact Rc].
Qed.

(* ---- containers ---- *)
Inductive dec_fields : list ty -> list pfield -> list node -> Prop :=
| DF_nil : dec_fields [] [] []
| DF_fixed f b n fs ps ns :
    ti_fixed (info f) = true -> sdc f b = Some n -> lenN b = ti_size (info f) ->
    dec_fields fs ps ns -> dec_fields (f :: fs) (PF b :: ps) (n :: ns)
| DF_var f off b n fs ps ns :
    ti_fixed (info f) = false -> sdc f b = Some n ->
    dec_fields fs ps ns -> dec_fields (f :: fs) (PV off b :: ps) (n :: ns).

Definition var_start (cfs : list cfield) (scope : N) : N :=
  match cf_offs cfs with [] => scope | o :: _ => o end.

Notation sfds fs := (combine (map info fs) (map sdc fs)).

Lemma s_cont_fixed_facts : forall fs first fp prev scope bs cfs rest,
  s_cont_fixed (sfds fs) first fp prev scope bs = Some (cfs, rest) ->
  length cfs = length fs /\ sorted_from prev (cf_offs cfs) /\
  Forall (fun o => o <= scope) (cf_offs cfs) /\
  (first = true -> match cf_offs cfs with o :: _ => o = fp | [] => True end) /\
  lenN bs = fp_len fs + lenN rest.
Proof.
  induction fs as [|f fs IH]; intros first fp prev scope bs cfs rest H.
  - cbn [map combine s_cont_fixed] in H. injection H as <- <-.
    repeat split; try constructor.
  - cbn [map combine s_cont_fixed] in H. unfold fp_len. cbn [map]. rewrite sumN_cons.
    fold (fp_len fs). unfold fld_len.
    destruct (ti_fixed (info f)) eqn:Hfx.
    + destruct (N.ltb_spec (lenN bs) (ti_size (info f))) as [|Hl]; [discriminate H|].
      obindS H E1. obindS H E2. destruct p as [cs bs'].
      assert (Hc : cfs = CFixed n :: cs /\ rest = bs') by (split; congruence).
      destruct Hc as [-> ->]. clear H.
      destruct (IH _ _ _ _ _ _ _ E2) as (I1 & I2 & I3 & I4 & I5).
      rewrite lenN_skipn' in I5. cbn [length cf_offs].
      repeat split; try assumption; lia.
    + destruct (N.ltb_spec (lenN bs) 4) as [|Hl]; [discriminate H|].
      destruct (N.ltb_spec (le_val (firstn 4 bs)) prev) as [|Hp]; [discriminate H|].
      destruct (N.ltb_spec scope (le_val (firstn 4 bs))) as [|Hs]; [discriminate H|].
      destruct (first && negb (le_val (firstn 4 bs) =? fp)) eqn:Hfirst; [discriminate H|].
      obindS H E2. destruct p as [cs bs'].
      assert (Hc : cfs = CVar (le_val (firstn 4 bs)) :: cs /\ rest = bs') by (split; congruence).
      destruct Hc as [-> ->]. clear H.
      destruct (IH _ _ _ _ _ _ _ E2) as (I1 & I2 & I3 & I4 & I5).
      rewrite lenN_skipn in I5. cbn [length cf_offs].
      split; [lia|]. split; [split; assumption|]. split; [constructor; assumption|].
      split; [|change (N.of_nat 4) with 4 in I5; lia].
      intros ->. cbn [andb] in Hfirst. apply negb_false_iff, N.eqb_eq in Hfirst. exact Hfirst.
Qed.

Lemma var_start_le cfs scope prev :
  sorted_from prev (cf_offs cfs) -> prev <= scope -> prev <= var_start cfs scope.
Proof. unfold var_start. destruct (cf_offs cfs); [auto|]. intros [H _] _. exact H. Qed.

Lemma cont_slots : forall fs first fp prev scope bs cfs rest R ns,
  s_cont_fixed (sfds fs) first fp prev scope bs = Some (cfs, rest) ->
  s_cont_var (combine cfs (map sdc fs)) scope R = Some ns ->
  lenN R = scope - var_start cfs scope ->
  exists ps, dec_fields fs ps ns /\ bs = flat_map pf_fixed ps ++ rest /\
             R = flat_map pf_var ps /\ offs_ok (var_start cfs scope) ps.
Proof.
  induction fs as [|f fs IH]; intros first fp prev scope bs cfs rest R ns H1 H2 HR.
  - cbn [map combine s_cont_fixed] in H1. injection H1 as <- <-.
    cbn [combine s_cont_var] in H2. injection H2 as <-.
    unfold var_start in HR. cbn [cf_offs] in HR. rewrite N.sub_diag in HR.
    apply lenN_zero_nil in HR. subst R.
    exists []. repeat split; constructor.
  - cbn [map combine s_cont_fixed] in H1.
    destruct (ti_fixed (info f)) eqn:Hfx.
    + destruct (N.ltb_spec (lenN bs) (ti_size (info f))) as [|Hl]; [discriminate H1|].
      obindS H1 E1. obindS H1 E2. destruct p as [cs bs'].
      assert (Hc : cfs = CFixed n :: cs /\ rest = bs') by (split; congruence).
      destruct Hc as [-> ->]. clear H1.
      cbn [map combine s_cont_var] in H2. obindS H2 E3. injection H2 as <-.
      unfold var_start in *. cbn [cf_offs] in *.
      destruct (IH _ _ _ _ _ _ _ _ _ E2 E3 HR) as (ps & Hd & Hbs & HRv & Hok).
      exists (PF (firstn (nat_of (ti_size (info f))) bs) :: ps).
      cbn [flat_map pf_fixed pf_var offs_ok app]. repeat split; try assumption.
      * constructor; try assumption. rewrite lenN_firstn'. lia.
      * rewrite <- app_assoc, <- Hbs. symmetry. apply firstn_skipn_N.
    + destruct (N.ltb_spec (lenN bs) 4) as [|Hl]; [discriminate H1|].
      set (off := le_val (firstn 4 bs)) in *.
      destruct (N.ltb_spec off prev) as [|Hp]; [discriminate H1|].
      destruct (N.ltb_spec scope off) as [|Hs]; [discriminate H1|].
      destruct (first && negb (off =? fp)) eqn:Hfirst; [discriminate H1|].
      obindS H1 E2. destruct p as [cs bs'].
      assert (Hc : cfs = CVar off :: cs /\ rest = bs') by (split; congruence).
      destruct Hc as [-> ->]. clear H1.
      destruct (s_cont_fixed_facts _ _ _ _ _ _ _ _ E2) as (F1 & F2 & F3 & _ & _).
      cbn [map combine s_cont_var] in H2.
      rewrite cf_next_offs in H2 by (rewrite map_length; exact F1).
      fold (var_start cs scope) in H2.
      assert (Hvs : off <= var_start cs scope) by (apply var_start_le; assumption).
      assert (Hsz : match cf_offs cs with [] => scope - off | o' :: _ => o' - off end
                    = var_start cs scope - off) by (unfold var_start; destruct (cf_offs cs); reflexivity).
      assert (Hsz' : match match cf_offs cs with [] => None | o :: _ => Some o end with
                     | Some o' => o' - off | None => scope - off end = var_start cs scope - off)
        by (unfold var_start; destruct (cf_offs cs); reflexivity).
      rewrite Hsz' in H2. clear Hsz Hsz'.
      unfold var_start at 1 in HR. cbn [cf_offs] in HR.
      destruct (N.ltb_spec (lenN R) (var_start cs scope - off)) as [|HlR]; [discriminate H2|].
      obindS H2 E3. obindS H2 E4. injection H2 as <-.
      assert (HR' : lenN (skipn (nat_of (var_start cs scope - off)) R) = scope - var_start cs scope).
      { rewrite lenN_skipn'. lia. }
      destruct (IH _ _ _ _ _ _ _ _ _ E2 E4 HR') as (ps & Hd & Hbs & HRv & Hok).
      exists (PV off (firstn (nat_of (var_start cs scope - off)) R) :: ps).
      cbn [flat_map pf_fixed pf_var]. split; [|split; [|split]].
      * constructor; assumption.
      * rewrite <- app_assoc, <- Hbs.
        assert (Hl4 : length (firstn 4 bs) = 4%nat) by (rewrite firstn_length; unfold lenN in Hl; lia).
        replace (le_bytes 4 off) with (firstn 4 bs)
          by (unfold off; rewrite <- Hl4 at 2; symmetry; apply le_bytes_le_val).
        symmetry. apply firstn_skipn.
      * rewrite <- HRv. symmetry. apply firstn_skipn_N.
      * unfold var_start at 1. cbn [cf_offs offs_ok]. split; [reflexivity|].
        rewrite lenN_firstn'. replace (off + N.min (var_start cs scope - off) (lenN R))
          with (var_start cs scope) by lia. exact Hok.
Qed.

(* the decoded fields are the encodings of typed values *)
Lemma fields_canon : forall fs ps ns, Forall canon_ty fs -> dec_fields fs ps ns ->
  exists vs, rfields_ty fs vs = true /\ ser_fields fs vs = map pf_part ps /\
             Forall2 (fun n (p : node -> Prop) => p n) ns (rfields_repr zh fs vs) /\
             lenN ns = lenN fs.
Proof.
  intros fs ps ns HF Hd. induction Hd as [|f b n fs ps ns Hfx Hs Hl _ IH|f off b n fs ps ns Hfx Hs _ IH].
  - exists []. repeat split. constructor.
  - destruct (IH (Forall_inv_tail HF)) as (vs & Hty & Hser & Hr & Hlen).
    destruct (Forall_inv HF _ _ Hs) as (v & Hv & Hb & Rv).
    exists (v :: vs). cbn [rfields_ty ser_fields map pf_part rfields_repr].
    rewrite Hv, Hty, Hser, <- Hb, <- info_fixed_flag, Hfx. repeat split.
    + constructor; assumption.
    + rewrite !lenN_cons, Hlen. reflexivity.
  - destruct (IH (Forall_inv_tail HF)) as (vs & Hty & Hser & Hr & Hlen).
    destruct (Forall_inv HF _ _ Hs) as (v & Hv & Hb & Rv).
    exists (v :: vs). cbn [rfields_ty ser_fields map pf_part rfields_repr].
    rewrite Hv, Hty, Hser, <- Hb, <- info_fixed_flag, Hfx. repeat split.
    + constructor; assumption.
    + rewrite !lenN_cons, Hlen. reflexivity.
Qed.

Lemma dec_fields_fixed_len : forall fs ps ns, dec_fields fs ps ns ->
  lenN (flat_map pf_fixed ps) = fp_len fs.
Proof.
  induction 1 as [|f b n fs ps ns Hfx Hs Hl _ IH|f off b n fs ps ns Hfx Hs _ IH]; [reflexivity| |];
    cbn [flat_map pf_fixed]; unfold fp_len; cbn [map]; rewrite sumN_cons, lenN_app;
    fold (fp_len fs); rewrite IH; unfold fld_len; rewrite Hfx; [lia|].
  unfold lenN at 1. rewrite le_bytes_length. reflexivity.
Qed.

Lemma cf_offs_nil_nvar : forall fs first fp prev scope bs cfs rest,
  s_cont_fixed (sfds fs) first fp prev scope bs = Some (cfs, rest) ->
  cf_offs cfs = [] -> nvar fs = 0.
Proof.
  induction fs as [|f fs IH]; intros first fp prev scope bs cfs rest H Ho; [reflexivity|].
  cbn [map combine s_cont_fixed] in H. unfold nvar. cbn [map]. rewrite sumN_cons. fold (nvar fs).
  unfold fld_nvar. destruct (ti_fixed (info f)) eqn:Hfx.
  - ifErr H. obindS H E1. obindS H E2. destruct p as [cs bs'].
    assert (Hc : cfs = CFixed n :: cs) by congruence. subst cfs. cbn [cf_offs] in Ho.
    rewrite (IH _ _ _ _ _ _ _ E2 Ho). reflexivity.
  - ifErr H. ifErr H. ifErr H. ifErr H. obindS H E2. destruct p as [cs bs'].
    assert (Hc : cfs = CVar (le_val (firstn 4 bs)) :: cs) by congruence. subst cfs.
    discriminate Ho.
Qed.

Lemma canon_container fs :
  wf_ty (TContainer fs) = true -> small_params (TContainer fs) = true ->
  sizes_ok (TContainer fs) = true -> small_fields (TContainer fs) = true ->
  Forall canon_ty fs -> canon_ty (TContainer fs).
Proof.
  intros Hwf Hsp Hso Hsf HF bs nd H.
  assert (Hio : info_ok (TContainer fs)) by (apply info_ok_of; assumption).
  pose proof (sizes_ok_max _ Hso) as Hmax.
  assert (Hios : Forall info_ok fs).
  { cbn [small_params sizes_ok] in Hsp, Hso. apply andb_prop in Hso. destruct Hso as [_ Hso].
    pose proof (forallb_Forall2 _ _ _ Hsp Hso) as HH. eapply Forall_impl; [|exact HH].
    cbv beta. intros f [H1 H2]. apply info_ok_of; assumption. }
  assert (Hne : fs <> []).
  { cbn [wf_ty] in Hwf. apply andb_prop in Hwf. destruct Hwf as [Hwf _].
    destruct fs; [discriminate Hwf|discriminate]. }
  pose proof (container_fp fs Hne Hios Hmax) as Hfp.
  cbn [small_fields] in Hsf. apply andb_prop in Hsf. destruct Hsf as [Hcnt _]. apply N.leb_le in Hcnt.
  cbn [sdec] in H. ifErr H. apply orb_false_elim in Heqb.
  destruct Heqb as [Hmin Hmx]. apply N.ltb_ge in Hmin, Hmx.
  obindS H E1. destruct p as [cfs rest]. obindS H E2. apply r2o_some in H.
  destruct (s_cont_fixed_facts _ _ _ _ _ _ _ _ E1) as (F1 & F2 & F3 & F4 & F5).
  assert (Hvs : var_start cfs (lenN bs) = fp_len fs).
  { unfold var_start. specialize (F4 eq_refl). destruct (cf_offs cfs) as [|o1 r] eqn:Eo.
    - destruct (container_fixed_minmax fs Hios Hio (cf_offs_nil_nvar _ _ _ _ _ _ _ _ E1 Eo)) as [M1 M2].
      lia.
    - rewrite F4. exact Hfp. }
  destruct (cont_slots _ _ _ _ _ _ _ _ _ _ E1 E2 ltac:(rewrite Hvs; lia))
    as (ps & Hd & Hbs & HR & Hok).
  destruct (fields_canon _ _ _ HF Hd) as (vs & Hty & Hser & Hr & Hlen).
  destruct (build_container fs l vs Hcnt Hr Hlen) as (nd' & E & R).
  rewrite E in H. injection H as <-.
  exists (VCont vs). split; [rewrite has_type_cont; exact Hty|]. split; [|exact R].
  rewrite spec_ser_cont, Hser, ser_parts_layout.
  - rewrite <- HR. exact Hbs.
  - rewrite (dec_fields_fixed_len _ _ _ Hd), <- Hvs. exact Hok.
Qed.

Fixpoint cfs_of (ps : list pfield) (ns : list node) : list cfield :=
  match ps, ns with
  | PF _ :: ps', n :: ns' => CFixed n :: cfs_of ps' ns'
  | PV off _ :: ps', _ :: ns' => CVar off :: cfs_of ps' ns'
  | _, _ => []
  end.

Lemma cfs_of_length : forall fs ps ns, dec_fields fs ps ns -> length (cfs_of ps ns) = length fs.
Proof. induction 1; cbn [cfs_of length]; congruence. Qed.

Lemma cont_unslots : forall fs ps ns, dec_fields fs ps ns ->
  forall cur first fp prev scope rest,
  offs_ok cur ps -> cur + lenN (flat_map pf_var ps) = scope -> scope < two32 ->
  prev <= cur -> (first = true -> cur = fp) ->
  s_cont_fixed (sfds fs) first fp prev scope (flat_map pf_fixed ps ++ rest)
    = Some (cfs_of ps ns, rest) /\
  s_cont_var (combine (cfs_of ps ns) (map sdc fs)) scope (flat_map pf_var ps) = Some ns /\
  var_start (cfs_of ps ns) scope = cur.
Proof.
  induction 1 as [|f b n fs ps ns Hfx Hs Hl Hd IH|f off b n fs ps ns Hfx Hs Hd IH];
    intros cur first fp prev scope rest Hok Hend Hsc Hprev Hfirst.
  - cbn [flat_map] in Hend. change (lenN (@nil byte)) with 0 in Hend.
    repeat split. unfold var_start. cbn [cfs_of cf_offs]. lia.
  - cbn [offs_ok flat_map pf_fixed pf_var app] in *.
    destruct (IH cur first fp prev scope rest Hok Hend Hsc Hprev Hfirst) as (I1 & I2 & I3).
    cbn [map combine s_cont_fixed cfs_of s_cont_var]. rewrite Hfx, <- app_assoc, lenN_app.
    destruct (N.ltb_spec (lenN b + lenN (flat_map pf_fixed ps ++ rest)) (ti_size (info f))); [lia|].
    assert (Hn : nat_of (ti_size (info f)) = length b) by (unfold nat_of, lenN in *; lia).
    rewrite Hn, firstn_app_exact, skipn_app_exact, Hs, I1, I2 by reflexivity. cbn [obind].
    repeat split. exact I3.
  - cbn [offs_ok flat_map pf_fixed pf_var] in *. destruct Hok as [-> Hok].
    rewrite lenN_app in Hend.
    destruct (IH (cur + lenN b) false fp cur scope rest Hok ltac:(lia) Hsc ltac:(lia)
                 ltac:(discriminate)) as (I1 & I2 & I3).
    cbn [map combine s_cont_fixed cfs_of]. rewrite Hfx, <- app_assoc, lenN_app.
    unfold lenN at 1. rewrite le_bytes_length.
    destruct (N.ltb_spec (N.of_nat 4 + lenN (flat_map pf_fixed ps ++ rest)) 4); [lia|].
    rewrite (firstn_app_exact (le_bytes 4 cur)), (skipn_app_exact (le_bytes 4 cur))
      by apply le_bytes_length.
    rewrite le_val_u32 by lia.
    destruct (N.ltb_spec cur prev); [lia|]. destruct (N.ltb_spec scope cur); [lia|].
    assert (Hf : first && negb (cur =? fp) = false).
    { destruct first; [|reflexivity]. rewrite (Hfirst eq_refl), N.eqb_refl. reflexivity. }
    rewrite Hf, I1. cbn [obind]. split; [reflexivity|]. split.
    + cbn [s_cont_var].
      rewrite cf_next_offs by (rewrite map_length; apply (cfs_of_length _ _ _ Hd)).
      assert (Hsz' : match match cf_offs (cfs_of ps ns) with [] => None | o :: _ => Some o end with
                     | Some o' => o' - cur | None => scope - cur end
                     = var_start (cfs_of ps ns) scope - cur)
        by (unfold var_start; destruct (cf_offs (cfs_of ps ns)); reflexivity).
      rewrite Hsz', I3. replace (cur + lenN b - cur) with (lenN b) by lia.
      rewrite lenN_app. destruct (N.ltb_spec (lenN b + lenN (flat_map pf_var ps)) (lenN b)); [lia|].
      assert (Hn : nat_of (lenN b) = length b) by (unfold nat_of, lenN; lia).
      rewrite Hn, firstn_app_exact, skipn_app_exact, Hs, I2 by reflexivity. reflexivity.
    + reflexivity.
Qed.

Lemma part_len_ge (p : part) : lenN (snd p) <= part_len p.
Proof. unfold part_len. destruct (fst p); lia. Qed.

Lemma fields_compl : forall fs, Forall compl_ty fs -> Forall info_ok fs ->
  forall vs, rfields_ty fs vs = true ->
  sumN (map part_len (ser_fields fs vs)) < two32 -> forall cur,
  exists ns, dec_fields fs (layout cur (ser_fields fs vs)) ns /\
             Forall2 (fun n (p : node -> Prop) => p n) ns (rfields_repr zh fs vs) /\
             lenN ns = lenN fs.
Proof.
  induction fs as [|f fs IH]; intros HF Hio vs Hty Hlt cur.
  - destruct vs; [|discriminate Hty]. exists []. repeat split; constructor.
  - destruct vs as [|v vs]; [discriminate Hty|]. cbn [rfields_ty] in Hty.
    apply andb_prop in Hty. destruct Hty as [Hv Hty].
    cbn [ser_fields map] in Hlt. rewrite sumN_cons in Hlt.
    pose proof (part_len_ge (spec_is_fixed f, spec_ser f v)) as Hpl. cbn [snd] in Hpl.
    destruct (Forall_inv HF v Hv ltac:(lia)) as (n & Hn & Rn).
    destruct (Forall_inv Hio) as (_ & _ & Hsize).
    cbn [ser_fields layout rfields_repr]. destruct (spec_is_fixed f) eqn:Hsf.
    + destruct (IH (Forall_inv_tail HF) (Forall_inv_tail Hio) vs Hty ltac:(lia) cur)
        as (ns & Hd & Hr & Hlen).
      exists (n :: ns). split; [|split].
      * constructor; try assumption; [rewrite info_fixed_flag; exact Hsf|].
        rewrite Hsize. apply spec_ser_fixed_len; assumption.
      * constructor; assumption.
      * rewrite !lenN_cons, Hlen. reflexivity.
    + destruct (IH (Forall_inv_tail HF) (Forall_inv_tail Hio) vs Hty ltac:(lia)
                   (cur + lenN (spec_ser f v))) as (ns & Hd & Hr & Hlen).
      exists (n :: ns). split; [|split].
      * constructor; try assumption. rewrite info_fixed_flag; exact Hsf.
      * constructor; assumption.
      * rewrite !lenN_cons, Hlen. reflexivity.
Qed.

Lemma compl_container fs :
  wf_ty (TContainer fs) = true -> small_params (TContainer fs) = true ->
  sizes_ok (TContainer fs) = true -> small_fields (TContainer fs) = true ->
  Forall compl_ty fs -> compl_ty (TContainer fs).
Proof.
  intros Hwf Hsp Hso Hsf HF v Hty Hlt.
  assert (Hio : info_ok (TContainer fs)) by (apply info_ok_of; assumption).
  pose proof (sizes_ok_max _ Hso) as Hmax.
  assert (Hios : Forall info_ok fs).
  { cbn [small_params sizes_ok] in Hsp, Hso. apply andb_prop in Hso. destruct Hso as [_ Hso'].
    pose proof (forallb_Forall2 _ _ _ Hsp Hso') as HH. eapply Forall_impl; [|exact HH].
    cbv beta. intros f [H1 H2]. apply info_ok_of; assumption. }
  assert (Hne : fs <> []).
  { cbn [wf_ty] in Hwf. apply andb_prop in Hwf. destruct Hwf as [Hwf' _].
    destruct fs; [discriminate Hwf'|discriminate]. }
  pose proof (container_fp fs Hne Hios Hmax) as Hfp.
  cbn [small_fields] in Hsf. apply andb_prop in Hsf. destruct Hsf as [Hcnt _]. apply N.leb_le in Hcnt.
  pose proof (code_bounds (TContainer fs) v Hwf Hsp ltac:(rewrite <- two64_eq; exact Hmax) Hty)
    as [Hmin Hmx].
  destruct v; try discriminate Hty. rewrite has_type_cont in Hty.
  rewrite spec_ser_cont in *. set (parts := ser_fields fs vs) in *.
  set (F := sumN (map part_fixed_size parts)).
  set (ps := layout F parts).
  assert (Hparts : map pf_part ps = parts) by apply layout_parts.
  assert (HFB : lenN (flat_map pf_fixed ps) = F).
  { rewrite <- fixed_size_layout, Hparts. reflexivity. }
  assert (Hbs : ser_parts parts = flat_map pf_fixed ps ++ flat_map pf_var ps).
  { rewrite <- Hparts. apply ser_parts_layout. rewrite HFB. apply layout_ok. }
  destruct (fields_compl fs HF Hios vs Hty ltac:(rewrite <- ser_parts_lenN; exact Hlt) F)
    as (ns & Hd & Hr & Hlen).
  fold parts in Hd. fold ps in Hd.
  pose proof (dec_fields_fixed_len _ _ _ Hd) as HFp. rewrite HFB in HFp.
  assert (Hscope : lenN (ser_parts parts) = F + lenN (flat_map pf_var ps)).
  { rewrite Hbs, lenN_app, HFB. reflexivity. }
  destruct (cont_unslots _ _ _ Hd F true (fixed_part_size fs) (wrap32 (fixed_part_size fs))
              (lenN (ser_parts parts)) (flat_map pf_var ps)) as (U1 & U2 & _).
  - apply layout_ok.
  - symmetry. exact Hscope.
  - exact Hlt.
  - rewrite Hfp, <- HFp, wrap32_small by lia. lia.
  - intros _. rewrite Hfp. exact HFp.
  - destruct (build_container fs ns vs Hcnt Hr Hlen) as (nd & E & R).
    exists nd. split; [|exact R]. cbn [sdec].
    destruct (N.ltb_spec (lenN (ser_parts parts)) (ti_min (info (TContainer fs)))); [lia|].
    destruct (N.ltb_spec (ti_max (info (TContainer fs))) (lenN (ser_parts parts))); [lia|].
    cbn [orb]. rewrite Hbs at 1. rewrite <- Hbs at 1.
    rewrite Hbs at 2. rewrite U1. cbn [obind]. rewrite U2. cbn [obind]. rewrite E. reflexivity.
Qed.

(* ---- unions ---- *)
Lemma le_val_1 b : le_val [b] = N_of_byte b.
Proof. cbn [le_val]. lia. Qed.

Lemma canon_union none opts : Forall canon_ty opts -> canon_ty (TUnion none opts).
Proof.
  intros HF bs nd H. rewrite Forall_forall in HF. rewrite sdec_union in H.
  destruct (N.eqb_spec (lenN bs) 0) as [|Hne]; [discriminate H|].
  destruct bs as [|b rest]; [exfalso; apply Hne; reflexivity|].
  cbv zeta in H. cbn [firstn skipn] in H. rewrite le_val_1 in H.
  set (sel := N_of_byte b) in *. ifErr H.
  assert (Hb : byte_of_N sel = b) by apply BP.byte_of_N_of_byte.
  destruct (none && (sel =? 0)) eqn:Hnone.
  - destruct (N.eqb_spec (lenN (b :: rest)) 1) as [Hl1|]; [|discriminate H]. cbn [negb] in H.
    injection H as <-.
    rewrite lenN_cons in Hl1. assert (rest = []) as -> by (apply lenN_zero_nil; lia).
    exists (VUnion sel None). rewrite has_type_union, spec_ser_union, repr_union, Hnone, Hb.
    split; [reflexivity|]. split; [reflexivity|]. eexists. split; reflexivity.
  - rewrite pick_ty_nth_error in H.
    destruct (nth_error opts (nat_of (if none then sel - 1 else sel))) as [o|] eqn:Eo;
      [|discriminate H].
    ifErr H. obindS H E. injection H as <-.
    destruct (HF o (nth_error_In _ _ Eo) _ _ E) as (x & Hx & Hr & Rx).
    exists (VUnion sel (Some x)). rewrite has_type_union, spec_ser_union, repr_union, Hnone, Hb.
    rewrite rpick_nth_error, pick_ty_nth_error, Eo.
    split; [exact Hx|]. split; [rewrite Hr; reflexivity|].
    exists n. split; [reflexivity|]. rewrite rpick_nth_error, Eo. exact Rx.
Qed.

Lemma compl_union none opts :
  wf_ty (TUnion none opts) = true -> small_params (TUnion none opts) = true ->
  sizes_ok (TUnion none opts) = true ->
  Forall compl_ty opts -> compl_ty (TUnion none opts).
Proof.
  intros Hwf Hsp Hso HF v Hty Hlt. rewrite Forall_forall in HF.
  cbn [wf_ty] in Hwf. apply andb_prop in Hwf. destruct Hwf as [Hwf _].
  apply andb_prop in Hwf. destruct Hwf as [_ Hcnt]. apply N.leb_le in Hcnt.
  cbn [small_params sizes_ok] in Hsp, Hso. apply andb_prop in Hso. destruct Hso as [_ Hso].
  destruct v; try discriminate Hty. rewrite has_type_union in Hty.
  rewrite spec_ser_union in *. rewrite sdec_union. rewrite lenN_cons in *.
  destruct (N.eqb_spec (1 + lenN match v with
      | Some x => pick_ty [] (fun o : ty => spec_ser o x) opts (nat_of (if none then sel - 1 else sel))
      | None => [] end) 0) as [|_]; [lia|].
  cbv zeta. cbn [firstn skipn]. rewrite le_val_1.
  destruct (none && (sel =? 0)) eqn:Hnone.
  - destruct v as [x|]; [discriminate Hty|].
    apply andb_prop in Hnone. destruct Hnone as [-> Hs0]. apply N.eqb_eq in Hs0. subst sel.
    rewrite BP.N_of_byte_of_N by lia. unfold union_count, wrap8 in *.
    rewrite N.mod_small by lia.
    destruct (N.leb_spec (N.of_nat (length opts) + 1) 0) as [|_]; [lia|]. cbn [andb N.eqb].
    change (lenN (@nil byte)) with 0. cbn [N.add N.eqb Pos.eqb negb].
    eexists. split; [reflexivity|]. rewrite repr_union. eexists. split; reflexivity.
  - rewrite rpick_nth_error in Hty.
    destruct (nth_error opts (nat_of (if none then sel - 1 else sel))) as [o|] eqn:Eo;
      [|discriminate Hty].
    destruct v as [x|]; [|discriminate Hty].
    pose proof (nth_error_In _ _ Eo) as Hin.
    assert (Hk : (nat_of (if none then sel - 1 else sel) < length opts)%nat)
      by (apply nth_error_Some; rewrite Eo; discriminate).
    assert (Hsel : sel < union_count none opts).
    { unfold union_count, nat_of in *. destruct none.
      - cbn [andb] in Hnone. apply N.eqb_neq in Hnone. lia.
      - lia. }
    rewrite BP.N_of_byte_of_N by lia. unfold wrap8. rewrite N.mod_small by lia.
    destruct (N.leb_spec (union_count none opts) sel) as [|_]; [lia|]. rewrite Hnone.
    rewrite !pick_ty_nth_error, !Eo in *.
    rewrite forallb_forall in Hsp, Hso.
    destruct (info_ok_of o (Hsp o Hin) (Hso o Hin)) as (_ & _ & Hsize).
    replace (1 + lenN (spec_ser o x) - 1) with (lenN (spec_ser o x)) by lia.
    assert (Hfx : ti_fixed (info o) && negb (ti_size (info o) =? lenN (spec_ser o x)) = false).
    { destruct (ti_fixed (info o)) eqn:Hf; [|reflexivity]. cbn [andb].
      rewrite info_fixed_flag in Hf. rewrite Hsize, (spec_ser_fixed_len o x Hf Hty), N.eqb_refl.
      reflexivity. }
    rewrite Hfx.
    destruct (HF o Hin x Hty ltac:(lia)) as (c & Ec & Rc). rewrite Ec. cbn [obind].
    eexists. split; [reflexivity|]. rewrite repr_union. exists c. split; [reflexivity|].
    rewrite rpick_nth_error, Eo. exact Rc.
Qed.

(* ---- all types ---- *)
Theorem sdec_sound : forall t,
  wf_ty t = true -> small_params t = true -> sizes_ok t = true -> small_fields t = true ->
  canon_ty t.
Proof.
  induction t as [w| |k| |k|k|e k IHe|e k IHe|fs IHfs|none opts IHopts] using ty_ind';
    intros Hwf Hsp Hso Hsf.
  - apply canon_uint.
  - apply canon_bool.
  - apply canon_bytes.
  - apply canon_root.
  - apply canon_bitvector; assumption.
  - apply canon_bitlist; assumption.
  - apply canon_vector; try assumption. cbn [wf_ty small_params sizes_ok small_fields] in *.
    apply andb_prop in Hwf, Hsp, Hso. apply IHe; tauto.
  - apply canon_list; try assumption. cbn [wf_ty small_params sizes_ok small_fields] in *.
    apply andb_prop in Hsp, Hso. apply IHe; tauto.
  - apply canon_container; try assumption. cbn [wf_ty small_params sizes_ok small_fields] in *.
    apply andb_prop in Hwf, Hso, Hsf. destruct Hwf as [_ Hwf], Hso as [_ Hso], Hsf as [_ Hsf].
    rewrite forallb_forall in Hwf, Hsp, Hso, Hsf. rewrite Forall_forall in *.
    intros f Hin. apply IHfs; auto.
  - apply canon_union. cbn [wf_ty small_params sizes_ok small_fields] in *.
    apply andb_prop in Hwf, Hso. destruct Hwf as [_ Hwf], Hso as [_ Hso].
    rewrite forallb_forall in Hwf, Hsp, Hso, Hsf. rewrite Forall_forall in *.
    intros f Hin. apply IHopts; auto.
Qed.

Theorem sdec_complete : forall t,
  wf_ty t = true -> small_params t = true -> sizes_ok t = true -> small_fields t = true ->
  compl_ty t.
Proof.
  induction t as [w| |k| |k|k|e k IHe|e k IHe|fs IHfs|none opts IHopts] using ty_ind';
    intros Hwf Hsp Hso Hsf.
  - apply compl_uint; assumption.
  - apply compl_bool.
  - apply compl_bytes.
  - apply compl_root.
  - apply compl_bitvector; assumption.
  - apply compl_bitlist; assumption.
  - apply compl_vector; try assumption. cbn [wf_ty small_params sizes_ok small_fields] in *.
    apply andb_prop in Hwf, Hsp, Hso. apply IHe; tauto.
  - apply compl_list; try assumption. cbn [wf_ty small_params sizes_ok small_fields] in *.
    apply andb_prop in Hsp, Hso. apply IHe; tauto.
  - apply compl_container; try assumption. cbn [wf_ty small_params sizes_ok small_fields] in *.
    apply andb_prop in Hwf, Hso, Hsf. destruct Hwf as [_ Hwf], Hso as [_ Hso], Hsf as [_ Hsf].
    rewrite forallb_forall in Hwf, Hsp, Hso, Hsf. rewrite Forall_forall in *.
    intros f Hin. apply IHfs; auto.
  - apply compl_union; try assumption. cbn [wf_ty small_params sizes_ok small_fields] in *.
    apply andb_prop in Hwf, Hso. destruct Hwf as [_ Hwf], Hso as [_ Hso].
    rewrite forallb_forall in Hwf, Hsp, Hso, Hsf. rewrite Forall_forall in *.
    intros f Hin. apply IHopts; auto.
Qed.

End Canon.

(* ------------------------------------------------------------------------------------ *)
(** * 7. Top-level theorems *)

Section Top.
Variable zh : nat -> chunk.
Hypothesis zh0 : zh 0 = zero_chunk.

(* typed values of leaf types have the fixed size *)
Lemma leaf_ok_ser t v : has_type v t = true -> leaf_ok t (lenN (spec_ser t v)).
Proof.
  destruct t; cbn [leaf_ok]; try exact (fun _ => I); destruct v; intros H; try discriminate H.
  - cbn [spec_ser]. apply lenN_le_bytes.
  - reflexivity.
  - cbn [has_type] in H. apply N.eqb_eq in H. exact H.
  - cbn [has_type] in H. apply N.eqb_eq in H. exact H.
Qed.

Theorem deser_no_panic t bs : view_deserialize zh t bs <> Panic.
Proof. apply view_deserialize_no_panic. Qed.

Theorem deser_canonical t bs n :
  wf_ty t = true -> small_params t = true -> sizes_ok t = true -> small_fields t = true ->
  lenN bs < 2 ^ 32 -> leaf_ok t (lenN bs) ->
  view_deserialize zh t bs = OK n ->
  exists v, has_type v t = true /\ bs = spec_ser t v /\ repr zh t n v.
Proof.
  intros Hwf Hsp Hso Hsf Hlen Hleaf H. rewrite <- two32_eq in Hlen.
  apply (view_deserialize_sdec zh t bs n Hwf Hsp Hso Hlen Hleaf) in H.
  exact (sdec_sound zh zh0 t Hwf Hsp Hso Hsf bs n H).
Qed.

Theorem deser_complete t v :
  wf_ty t = true -> small_params t = true -> sizes_ok t = true -> small_fields t = true ->
  has_type v t = true -> lenN (spec_ser t v) < 2 ^ 32 ->
  exists n, view_deserialize zh t (spec_ser t v) = OK n /\ repr zh t n v.
Proof.
  intros Hwf Hsp Hso Hsf Hty Hlen. rewrite <- two32_eq in Hlen.
  destruct (sdec_complete zh zh0 t Hwf Hsp Hso Hsf v Hty Hlen) as (n & Hs & Hr).
  exists n. split; [|exact Hr].
  apply (view_deserialize_sdec zh t _ n Hwf Hsp Hso Hlen (leaf_ok_ser t v Hty)). exact Hs.
Qed.

(* whatever is not an encoding of a typed value is rejected with an error *)
Theorem deser_rejects t bs :
  wf_ty t = true -> small_params t = true -> sizes_ok t = true -> small_fields t = true ->
  lenN bs < 2 ^ 32 -> leaf_ok t (lenN bs) ->
  (forall v, has_type v t = true -> bs <> spec_ser t v) ->
  view_deserialize zh t bs = Err.
Proof.
  intros Hwf Hsp Hso Hsf Hlen Hleaf Hno.
  destruct (view_deserialize zh t bs) as [n| |] eqn:E; [|reflexivity|].
  - destruct (deser_canonical t bs n Hwf Hsp Hso Hsf Hlen Hleaf E) as (v & Hv & Hbs & _).
    exfalso. exact (Hno v Hv Hbs).
  - exfalso. exact (deser_no_panic t bs E).
Qed.

(* the decoded tree is unique: two accepted inputs with the same value are the same bytes,
   and an accepted input determines its value's encoding *)
Theorem deser_roundtrip t bs n :
  wf_ty t = true -> small_params t = true -> sizes_ok t = true -> small_fields t = true ->
  lenN bs < 2 ^ 32 -> leaf_ok t (lenN bs) ->
  view_deserialize zh t bs = OK n ->
  exists v, has_type v t = true /\ repr zh t n v /\ spec_ser t v = bs /\
            view_deserialize zh t (spec_ser t v) = OK n.
Proof.
  intros Hwf Hsp Hso Hsf Hlen Hleaf H.
  destruct (deser_canonical t bs n Hwf Hsp Hso Hsf Hlen Hleaf H) as (v & Hv & Hbs & Hr).
  exists v. split; [exact Hv|]. split; [exact Hr|]. split; [symmetry; exact Hbs|].
  rewrite <- Hbs. exact H.
Qed.

(* the reader discipline: decoding through any reader with a valid chain of limit counters
   is decoding the next [scope] bytes of the stream, and consumes exactly those bytes *)
Theorem deser_local t st d n st' :
  wf_ty t = true -> small_params t = true -> sizes_ok t = true ->
  rinv st d -> leaf_ok t (dr_scope d) ->
  view_deser zh t st d = OK (n, st') ->
  dr_scope d <= avail st (d_chain d) /\ adv st (d_chain d) (dr_scope d) st' /\
  view_deserialize zh t (firstn (nat_of (dr_scope d)) (r_stream st)) = OK n.
Proof.
  intros Hwf Hsp Hso Hinv Hleaf H. destruct (sim_all zh t Hwf Hsp Hso) as [Hf _].
  destruct (Hf st d n st' Hinv Hleaf H) as (Ha & Hadv & Hs).
  split; [exact Ha|]. split; [exact Hadv|]. fold (slice st (dr_scope d)).
  pose proof (slice_len st _ _ Ha) as Hl.
  apply (view_deserialize_sdec zh t _ n Hwf Hsp Hso); [| |exact Hs].
  - rewrite Hl. apply (scope_lt32 _ _ Hinv).
  - rewrite Hl. exact Hleaf.
Qed.

Theorem deser_local_conv t st d n :
  wf_ty t = true -> small_params t = true -> sizes_ok t = true ->
  rinv st d -> leaf_ok t (dr_scope d) -> dr_scope d <= avail st (d_chain d) ->
  view_deserialize zh t (firstn (nat_of (dr_scope d)) (r_stream st)) = OK n ->
  exists st', view_deser zh t st d = OK (n, st').
Proof.
  intros Hwf Hsp Hso Hinv Hleaf Ha H. destruct (sim_all zh t Hwf Hsp Hso) as [_ Hb].
  fold (slice st (dr_scope d)) in H. pose proof (slice_len st _ _ Ha) as Hl.
  apply (view_deserialize_sdec zh t _ n Hwf Hsp Hso) in H.
  - exact (Hb st d n Hinv Hleaf Ha H).
  - rewrite Hl. apply (scope_lt32 _ _ Hinv).
  - rewrite Hl. exact Hleaf.
Qed.

End Top.

(* In the domain of the theorems the divisions of the Go code (scope / elemSize in the list
   decoders) have a non-zero divisor, as in the model (where x / 0 = 0 would not panic). *)
Lemma elem_size_pos e :
  wf_ty e = true -> small_params e = true -> sizes_ok e = true ->
  ti_fixed (info e) = true -> 1 <= ti_size (info e).
Proof.
  intros Hwf Hsp Hso Hfx. destruct (info_ok_of e Hsp Hso) as (_ & _ & ->).
  apply fixed_len_pos; [exact Hwf|]. rewrite <- info_fixed_flag. exact Hfx.
Qed.

Definition ex_bytes : list byte := spec_ser test_ty test_val.

(* ---- examples: the hypotheses are satisfiable ---- *)
Example ex_canonical_hyps :
  test_zh 0 = zero_chunk /\
  wf_ty test_ty = true /\ small_params test_ty = true /\ sizes_ok test_ty = true /\
  small_fields test_ty = true /\ lenN ex_bytes < 2 ^ 32 /\ leaf_ok test_ty (lenN ex_bytes) /\
  is_ok (view_deserialize test_zh test_ty ex_bytes) = true /\ lenN ex_bytes = 36.
Proof. vm_compute. repeat split. Qed.

Example ex_complete_hyps :
  has_type test_val test_ty = true /\ lenN (spec_ser test_ty test_val) < 2 ^ 32.
Proof. vm_compute. repeat split. Qed.

(* a non-canonical input (first offset moved beyond the fixed part) is rejected *)
Example ex_rejects :
  view_deserialize test_zh (TContainer [TUint 1; TList (TUint 1) 4])
    [byte_of_N 7; byte_of_N 6; b0; b0; b0; byte_of_N 9] = Err /\
  is_ok (view_deserialize test_zh (TContainer [TUint 1; TList (TUint 1) 4])
    [byte_of_N 7; byte_of_N 5; b0; b0; b0; byte_of_N 9]) = true.
Proof. vm_compute. repeat split. Qed.

Example ex_local_hyps :
  let st := mkRS (ex_bytes ++ [b0; b0]) [40; 38] in
  let d := mkDR 0 36 [1%nat; 0%nat] in
  rinv st d /\ leaf_ok test_ty (dr_scope d) /\ is_ok (view_deser test_zh test_ty st d) = true.
Proof.
  split; [|split; [exact I|vm_compute; reflexivity]].
  split; [split|split]; cbn [d_chain d_i d_max r_lims length].
  - repeat constructor; cbn [In]; intuition discriminate.
  - repeat constructor.
  - lia.
  - rewrite two32_val. lia.
Qed.

(* ---- side conditions are necessary (in the model) ---- *)
(* (a) scope >= 2^32: ContainerTypeDef.Deserialize computes the size of the last dynamic field
   from uint32(scope); with a scope of 2^32 + 4 the field gets size 0 and the decoder returns
   after 4 bytes (here shown with the scoped entry point, the stream being shorter than the
   scope; with a real input of 2^32+4 bytes the last 2^32 bytes are silently ignored) *)
Example cex_scope_2_32 :
  is_ok (view_deserialize_scoped test_zh (TContainer [TList (TUint 1) (2 ^ 33)])
           [byte_of_N 4; b0; b0; b0] (2 ^ 32 + 4)) = true.
Proof. vm_compute. reflexivity. Qed.

(* (b) leaf types do not look at the scope *)
Example cex_leaf_scope :
  is_ok (view_deserialize test_zh (TUint 2) [b0; b0; b0]) = true.
Proof. vm_compute. reflexivity. Qed.

(* (c) outside [sizes_ok] the element size wraps to 0; the model's x / 0 = 0 yields Err where
   Go's scope / elemSize panics (integer divide by zero): a model discrepancy outside the
   domain of the theorems *)
Example cex_zero_elem_size :
  let t := TList (TVector (TVector (TBytes 32) (2 ^ 30)) (2 ^ 30)) 0 in
  wf_ty t = true /\ small_params t = true /\ spec_max_len t = 0 /\ sizes_ok t = false /\
  ti_size (info (TVector (TVector (TBytes 32) (2 ^ 30)) (2 ^ 30))) = 0 /\
  view_deserialize test_zh t [b0] = Err.
Proof. vm_compute. repeat split. Qed.

(* the premise of [deser_rejects] is satisfiable: no typed value encodes to the rejected
   input of [ex_rejects] (by completeness) *)
Example ex_rejects_hyp :
  let t := TContainer [TUint 1; TList (TUint 1) 4] in
  let bs := [byte_of_N 7; byte_of_N 6; b0; b0; b0; byte_of_N 9] in
  wf_ty t = true /\ small_params t = true /\ sizes_ok t = true /\ small_fields t = true /\
  lenN bs < 2 ^ 32 /\ leaf_ok t (lenN bs) /\
  forall v, has_type v t = true -> bs <> spec_ser t v.
Proof.
  cbv zeta. do 5 (split; [vm_compute; reflexivity|]). split; [exact I|].
  intros v Hty Hbs.
  destruct (deser_complete test_zh ltac:(vm_compute; reflexivity)
              (TContainer [TUint 1; TList (TUint 1) 4]) v
              ltac:(vm_compute; reflexivity) ltac:(vm_compute; reflexivity)
              ltac:(vm_compute; reflexivity) ltac:(vm_compute; reflexivity) Hty) as (n & Hn & _).
  - rewrite <- Hbs. vm_compute. reflexivity.
  - rewrite <- Hbs in Hn. vm_compute in Hn. discriminate Hn.
Qed.
