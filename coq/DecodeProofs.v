(* DecodeProofs.v — property C03: deserialization ([View.view_deser], the model of the
   Deserialize methods of view/*.go over codec.DecodingReader) never panics, accepts only
   canonical SSZ encodings, and accepts every canonical encoding below 2^32 bytes.

   Contents
     0. spec vocabulary used in the statements: [sizes_ok]
     1. no panic                                    ([view_deser_no_panic], [C03_no_panic])
     2. reader algebra: [adv], [rinv]
     3. the slice decoder [sdec]
     4. simulation  view_deser <-> sdec             ([sim_fwd], [sim_bwd], [view_deserialize_sdec])
     5. bytes / bits / ser_parts structure
     6. canonicity and completeness of [sdec]       ([sdec_sound], [sdec_complete])
     7. top-level theorems and examples *)
From Coq Require Import PeanoNat ZArith ZifyN ZifyNat ZifyBool.
From Ztyp Require Import Base Bitlen Tree Types Spec Reader View Repr.
From Ztyp Require Import BitlenProofs SizeProofs MerkleProofs ReprProofs.
Open Scope N_scope.

#[local] Ltac Zify.zify_post_hook ::= Z.div_mod_to_equations.
Local Arguments N.pow : simpl never.
Local Arguments Nat.pow : simpl never.
Local Arguments N.of_nat : simpl never.
Local Arguments N.to_nat : simpl never.
Local Arguments N.div : simpl never.
Local Arguments N.modulo : simpl never.
Local Arguments N.log2_up : simpl never.
Local Arguments N.sub : simpl never.
Local Arguments N.mul : simpl never.
Local Arguments N.add : simpl never.
Local Opaque two64 two32.

(* ------------------------------------------------------------------------------------ *)
(** * 0. Spec vocabulary *)

(* Every type that occurs inside [t] (including [t]) has a maximal encoded length below 2^64,
   so that the uint64 size metadata of the Go constructors ([View.info]) is the spec's
   ([SizeProofs.info_sizes]).  For all constructors but [TList e 0] this follows from
   [spec_max_len t < 2^64] alone; a list of limit 0 hides the size of its element type. *)
Fixpoint sizes_ok (t : ty) : bool :=
  (spec_max_len t <? 2 ^ 64) &&
  match t with
  | TVector e _ | TList e _ => sizes_ok e
  | TContainer fs => forallb sizes_ok fs
  | TUnion _ opts => forallb sizes_ok opts
  | _ => true
  end.

(* ------------------------------------------------------------------------------------ *)
(** * 1. No panic *)

Section NoPanic.
Variable zh : nat -> chunk.

Lemma np_bind {A B} (r : res A) (f : A -> res B) :
  r <> Panic -> (forall a, f a <> Panic) -> bind r f <> Panic.
Proof. intros Hr Hf. destruct r; cbn [bind]; [apply Hf|discriminate|congruence]. Qed.

Lemma dr_read_np st d k : dr_read st d k <> Panic.
Proof. unfold dr_read. repeat (destruct (_ : bool)); discriminate. Qed.

Lemma dr_sub_scope_np st d k : dr_sub_scope st d k <> Panic.
Proof. unfold dr_sub_scope. destruct (_ : bool); discriminate. Qed.

Lemma dr_read_byte_np st d : dr_read_byte st d <> Panic.
Proof.
  unfold dr_read_byte. apply np_bind; [apply dr_read_np|]. intros [[bs st'] d']. discriminate.
Qed.

Lemma dr_read_u32_np st d : dr_read_u32 st d <> Panic.
Proof.
  unfold dr_read_u32. apply np_bind; [apply dr_read_np|]. intros [[bs st'] d']. discriminate.
Qed.

(* SubtreeFillToContents never panics up to the depth of the zero-hash table *)
Lemma fill_to_contents_np d ns : N.of_nat d <= 64 -> fill_to_contents zh ns d <> Panic.
Proof.
  intros Hd. destruct (N.eq_dec (N.of_nat d) 64) as [E|NE].
  - destruct ns as [|n0 rest].
    + rewrite fill_to_contents_nil_ok by exact Hd. discriminate.
    + rewrite fill_to_contents_cons, shl64_1_high by lia.
      destruct (N.ltb_spec 0 (N.of_nat (length (n0 :: rest)))) as [_|Hge]; [discriminate|].
      cbn [length] in Hge. lia.
  - apply fill_to_contents_no_panic. lia.
Qed.

Lemma contents_depth_le64 t : contents_depth t <= 64.
Proof. destruct t; cbn [contents_depth]; try lia; try apply cover_depth_le64.
  - destruct (is_basic_elem t); apply cover_depth_le64.
  - destruct (is_basic_elem t); apply cover_depth_le64.
Qed.

Lemma fill_contents_np ns t : fill_contents zh ns t <> Panic.
Proof.
  unfold fill_contents. apply fill_to_contents_np. unfold nat_of. rewrite N2Nat.id.
  apply contents_depth_le64.
Qed.

Definition dec_np (dec : decoder) : Prop := forall st d, dec st d <> Panic.

Lemma deser_fixed_series_np dec : dec_np dec ->
  forall count size st d, deser_fixed_series dec count size st d <> Panic.
Proof.
  intros Hdec. induction count as [|k IH]; intros size st d; cbn [deser_fixed_series]; [discriminate|].
  apply np_bind; [apply dr_sub_scope_np|]. intros [st1 sd].
  apply np_bind; [apply Hdec|]. intros [n st2].
  apply np_bind; [apply IH|]. intros [ns st3]. discriminate.
Qed.

Lemma read_offsets_np : forall count prev st d, read_offsets count prev st d <> Panic.
Proof.
  induction count as [|k IH]; intros prev st d; cbn [read_offsets]; [discriminate|].
  apply np_bind; [apply dr_read_u32_np|]. intros [[off st1] d1].
  destruct (off <? prev); [discriminate|].
  apply np_bind; [apply IH|]. intros [[offs st2] d2]. discriminate.
Qed.

Lemma deser_var_elems_np dec : dec_np dec ->
  forall offs scope st d, deser_var_elems dec offs scope st d <> Panic.
Proof.
  intros Hdec. induction offs as [|o rest IH]; intros scope st d; cbn [deser_var_elems];
    [discriminate|].
  apply np_bind; [apply dr_sub_scope_np|]. intros [st1 sd].
  apply np_bind; [apply Hdec|]. intros [n st2].
  apply np_bind; [apply IH|]. intros [ns st3]. discriminate.
Qed.

Lemma deser_cont_fixed_np : forall (fs : list (tinfo * decoder)),
  Forall (fun p => dec_np (snd p)) fs ->
  forall first fp prev scope st d, deser_cont_fixed fs first fp prev scope st d <> Panic.
Proof.
  induction fs as [|[i dec] rest IH]; intros HF first fp prev scope st d;
    cbn [deser_cont_fixed]; [discriminate|].
  pose proof (Forall_inv HF) as Hdec. pose proof (Forall_inv_tail HF) as Hrest. cbn [snd] in Hdec.
  destruct (ti_fixed i).
  - apply np_bind; [apply dr_sub_scope_np|]. intros [st1 sd].
    apply np_bind; [apply Hdec|]. intros [n st2].
    apply np_bind; [apply IH; exact Hrest|]. intros [[cs st3] d3]. discriminate.
  - apply np_bind; [apply dr_read_u32_np|]. intros [[off st1] d1].
    destruct (off <? prev); [discriminate|].
    destruct (scope <? off); [discriminate|].
    destruct (first && negb (off =? fp)); [discriminate|].
    apply np_bind; [apply IH; exact Hrest|]. intros [[cs st3] d3]. discriminate.
Qed.

Lemma deser_cont_var_np : forall (fs : list (cfield * decoder)),
  Forall (fun p => dec_np (snd p)) fs ->
  forall scope st d, deser_cont_var fs scope st d <> Panic.
Proof.
  induction fs as [|[c dec] rest IH]; intros HF scope st d; cbn [deser_cont_var]; [discriminate|].
  pose proof (Forall_inv HF) as Hdec. pose proof (Forall_inv_tail HF) as Hrest. cbn [snd] in Hdec.
  destruct c as [n|off].
  - apply np_bind; [apply IH; exact Hrest|]. intros [ns st1]. discriminate.
  - apply np_bind; [apply dr_sub_scope_np|]. intros [st1 sd].
    apply np_bind; [apply Hdec|]. intros [n st2].
    apply np_bind; [apply IH; exact Hrest|]. intros [ns st3]. discriminate.
Qed.

Lemma Forall_combine_snd {A B} (P : B -> Prop) : forall (l : list A) (l' : list B),
  Forall P l' -> Forall (fun p => P (snd p)) (combine l l').
Proof.
  induction l as [|x l IH]; intros l' HF; [constructor|].
  destruct l' as [|y l']; [constructor|]. cbn [combine].
  constructor; [exact (Forall_inv HF)|apply IH, (Forall_inv_tail HF)].
Qed.

Lemma Forall_map' {A B} (f : A -> B) (P : B -> Prop) l :
  Forall (fun x => P (f x)) l -> Forall P (map f l).
Proof. induction 1; cbn [map]; constructor; assumption. Qed.

(* the option selected by an in-range selector exists: the [Panic] of [pick] is dead code *)
Lemma union_pick_in_range none (opts : list ty) sel :
  (wrap8 (union_count none opts) <=? sel) = false -> none && (sel =? 0) = false ->
  (nat_of (if none then sel - 1 else sel) < length opts)%nat.
Proof.
  intros Hsel Hnone. apply N.leb_gt in Hsel. unfold wrap8, union_count in Hsel.
  assert (Hm : forall x, x mod 256 <= x) by (intros x; apply N.mod_le; lia).
  unfold nat_of. destruct none.
  - cbn [andb] in Hnone. apply N.eqb_neq in Hnone.
    specialize (Hm (N.of_nat (length opts) + 1)). lia.
  - specialize (Hm (N.of_nat (length opts) + 0)). lia.
Qed.

Theorem view_deser_no_panic : forall t st d, view_deser zh t st d <> Panic.
Proof.
  induction t as [w| |n| |n|n|e n IHe|e n IHe|fs IHfs|none opts IHopts] using ty_ind';
    intros st d.
  - cbn [view_deser]. destruct (uint_width_ok w); [|discriminate].
    apply np_bind; [apply dr_read_np|]. intros [[bs st1] d1]. discriminate.
  - cbn [view_deser]. apply np_bind; [apply dr_read_byte_np|]. intros [[b st1] d1].
    destruct (1 <? b); discriminate.
  - cbn [view_deser]. apply np_bind; [apply dr_read_np|]. intros [[bs st1] d1]. discriminate.
  - cbn [view_deser]. apply np_bind; [apply dr_read_np|]. intros [[bs st1] d1]. discriminate.
  - cbn [view_deser]. destruct (negb _); [discriminate|].
    apply np_bind; [apply dr_read_np|]. intros [[bs st1] d1].
    destruct (_ && _); [discriminate|].
    apply np_bind; [apply fill_contents_np|]. intros root. discriminate.
  - cbn [view_deser]. destruct (dr_scope d =? 0); [discriminate|].
    destruct (_ <? _); [discriminate|].
    apply np_bind; [apply dr_read_np|]. intros [[bs st1] d1].
    destruct (_ =? 0); [discriminate|].
    destruct (_ && _); [cbn [default_node bind]; discriminate|].
    destruct (n <? _); [discriminate|].
    apply np_bind; [apply fill_contents_np|]. intros c. discriminate.
  - cbn [view_deser]. destruct (is_basic_elem e).
    + destruct (negb _); [discriminate|].
      apply np_bind; [apply dr_read_np|]. intros [[bs st1] d1].
      apply np_bind; [apply fill_contents_np|]. intros root. discriminate.
    + destruct (ti_fixed (info e)).
      * destruct (negb _); [discriminate|].
        apply np_bind; [apply deser_fixed_series_np; exact IHe|]. intros [ns st1].
        apply np_bind; [apply fill_contents_np|]. intros root. discriminate.
      * apply np_bind; [apply read_offsets_np|]. intros [[offs st1] d1].
        destruct (negb _); [discriminate|].
        apply np_bind; [apply deser_var_elems_np; exact IHe|]. intros [ns st2].
        apply np_bind; [apply fill_contents_np|]. intros root. discriminate.
  - cbn [view_deser]. destruct (is_basic_elem e).
    + destruct (n <? _); [discriminate|]. destruct (negb _); [discriminate|].
      destruct (_ =? 0); [cbn [default_node bind]; discriminate|].
      apply np_bind; [apply dr_read_np|]. intros [[bs st1] d1].
      apply np_bind; [apply fill_contents_np|]. intros c. discriminate.
    + destruct (dr_scope d =? 0); [cbn [default_node bind]; discriminate|].
      destruct (ti_fixed (info e)).
      * destruct (n <? _); [discriminate|]. destruct (negb _); [discriminate|].
        apply np_bind; [apply deser_fixed_series_np; exact IHe|]. intros [ns st1].
        apply np_bind; [apply fill_contents_np|]. intros c. discriminate.
      * apply np_bind; [apply dr_read_u32_np|]. intros [[first st1] d1].
        destruct (negb _); [discriminate|]. destruct (n <? _); [discriminate|].
        destruct (_ || _); [discriminate|].
        apply np_bind; [apply read_offsets_np|]. intros [[offs st2] d2].
        apply np_bind; [apply deser_var_elems_np; exact IHe|]. intros [ns st3].
        apply np_bind; [apply fill_contents_np|]. intros c. discriminate.
  - cbn [view_deser]. destruct (_ || _); [discriminate|].
    assert (Hdecs : Forall dec_np (map (view_deser zh) fs)).
    { apply Forall_map'. exact IHfs. }
    apply np_bind; [apply deser_cont_fixed_np, Forall_combine_snd, Hdecs|]. intros [[cfs st1] d1].
    apply np_bind; [apply deser_cont_var_np, Forall_combine_snd, Hdecs|]. intros [ns st2].
    apply np_bind; [apply fill_contents_np|]. intros root. discriminate.
  - cbn [view_deser]. destruct (dr_scope d =? 0); [discriminate|].
    apply np_bind; [apply dr_read_byte_np|]. intros [[sel st1] d1].
    destruct (wrap8 (union_count none opts) <=? sel) eqn:Hsel; [discriminate|].
    destruct (none && (sel =? 0)) eqn:Hnone.
    + destruct (negb _); discriminate.
    + pose proof (union_pick_in_range none opts sel Hsel Hnone) as Hk.
      change (pick_ty Panic (fun o =>
                if ti_fixed (info o) && negb (ti_size (info o) =? dr_scope d - 1) then Err else
                do r <- view_deser zh o st1 d1; let '(c, st2) := r in
                OK (Pair c (Leaf (pad32 [byte_of_N sel])), st2))
              opts (nat_of (if none then sel - 1 else sel)) <> Panic).
      rewrite pick_ty_nth_error.
      destruct (nth_error opts (nat_of (if none then sel - 1 else sel))) as [o|] eqn:Eo.
      * destruct (ti_fixed (info o) && negb (ti_size (info o) =? dr_scope d - 1)); [discriminate|].
        apply np_bind; [|intros [c st2]; discriminate].
        rewrite Forall_forall in IHopts. apply IHopts. eapply nth_error_In, Eo.
      * apply nth_error_None in Eo. lia.
Qed.

Theorem view_deserialize_no_panic t bs : view_deserialize zh t bs <> Panic.
Proof.
  unfold view_deserialize, view_deserialize_scoped, new_reader.
  apply np_bind; [apply view_deser_no_panic|]. intros r. discriminate.
Qed.

End NoPanic.

(* ------------------------------------------------------------------------------------ *)
(** * 2. Reader algebra *)

From Ztyp Require BitfieldsProofs.

Lemma two32_eq : two32 = 2 ^ 32.
Proof. reflexivity. Qed.
Lemma two32_lt_two64 : two32 < two64.
Proof. rewrite two32_eq, two64_eq. apply N.pow_lt_mono_r; lia. Qed.
Lemma two32_val : two32 = 4294967296.
Proof. reflexivity. Qed.

(* the chain of limit counters of a reader: distinct, existing counters *)
Definition chain_ok (st : rstate) (chain : list nat) : Prop :=
  NoDup chain /\ Forall (fun j => (j < length (r_lims st))%nat) chain.

(* reader invariant: valid chain, index within the scope, scope below 2^32 *)
Definition rinv (st : rstate) (d : dreader) : Prop :=
  chain_ok st (d_chain d) /\ d_i d <= d_max d /\ d_max d < two32.

(* [adv st chain k st']: from [st] to [st'] exactly [k] bytes were taken from the stream
   through the limit counters of [chain]: the stream lost its first k bytes, every counter of
   the chain went down by k, the other existing counters are untouched (new counters may
   have been added by sub-scopes) *)
Definition adv (st : rstate) (chain : list nat) (k : N) (st' : rstate) : Prop :=
  r_stream st' = skipn (nat_of k) (r_stream st) /\
  (length (r_lims st) <= length (r_lims st'))%nat /\
  forall j, (j < length (r_lims st))%nat ->
    (In j chain -> lim_get st' j = lim_get st j - k) /\
    (~ In j chain -> lim_get st' j = lim_get st j).

Lemma adv_refl st chain : adv st chain 0 st.
Proof.
  split; [reflexivity|]. split; [lia|]. intros j Hj. split; intros _; [lia|reflexivity].
Qed.

Lemma adv_trans st chain a st1 b st2 :
  adv st chain a st1 -> adv st1 chain b st2 -> adv st chain (a + b) st2.
Proof.
  intros (S1 & L1 & C1) (S2 & L2 & C2). repeat split.
  - rewrite S2, S1. unfold nat_of. rewrite N2Nat.inj_add, BitfieldsProofs.skipn_add. reflexivity.
  - lia.
  - intros Hin. destruct (C1 j H) as [C1a _]. destruct (C2 j ltac:(lia)) as [C2a _].
    rewrite (C2a Hin), (C1a Hin). lia.
  - intros Hin. destruct (C1 j H) as [_ C1b]. destruct (C2 j ltac:(lia)) as [_ C2b].
    rewrite (C2b Hin), (C1b Hin). reflexivity.
Qed.

Lemma adv_eq st chain a b st' : a = b -> adv st chain a st' -> adv st chain b st'.
Proof. intros ->. exact (fun H => H). Qed.

Lemma chain_ok_adv st chain c k st' : chain_ok st chain -> adv st c k st' -> chain_ok st' chain.
Proof.
  intros [Hnd HF] (_ & L & _). split; [exact Hnd|].
  eapply Forall_impl; [|exact HF]. cbv beta. intros j Hj. lia.
Qed.

Lemma lenN_skipn' {A} (l : list A) k : lenN (skipn (nat_of k) l) = lenN l - k.
Proof. rewrite lenN_skipn. unfold nat_of. rewrite N2Nat.id. reflexivity. Qed.

Lemma lenN_firstn' {A} (l : list A) k : lenN (firstn (nat_of k) l) = N.min k (lenN l).
Proof. rewrite lenN_firstn. unfold nat_of. rewrite N2Nat.id. reflexivity. Qed.

Lemma avail_le_stream st chain : avail st chain <= lenN (r_stream st).
Proof.
  unfold avail. induction chain as [|j c IH]; cbn [fold_right]; [unfold lenN; lia|]. lia.
Qed.

Lemma avail_adv st chain k st' :
  Forall (fun j => (j < length (r_lims st))%nat) chain ->
  adv st chain k st' -> avail st' chain = avail st chain - k.
Proof.
  intros HF (S & L & C). unfold avail.
  assert (Hin : forall j, In j chain -> In j chain) by auto.
  revert HF Hin. generalize chain at 1 2 4 5. intros c.
  induction c as [|j c IH]; intros HF Hin; cbn [fold_right].
  - rewrite S. fold (lenN (skipn (nat_of k) (r_stream st))). rewrite lenN_skipn'. reflexivity.
  - rewrite IH.
    + destruct (C j (Forall_inv HF)) as [Cj _]. rewrite (Cj (Hin j (or_introl eq_refl))). lia.
    + exact (Forall_inv_tail HF).
    + intros x Hx. apply Hin. right. exact Hx.
Qed.

(* the counters after [consume] *)
Definition dec_lims (lims : list N) (chain : list nat) (k : N) : list N :=
  fold_right (fun idx ls => list_set ls idx (nth idx ls 0 - k)) lims chain.

Lemma dec_lims_length lims k : forall chain, length (dec_lims lims chain k) = length lims.
Proof.
  induction chain as [|j c IH]; cbn [dec_lims fold_right]; [reflexivity|].
  fold (dec_lims lims c k). rewrite BitfieldsProofs.list_set_length. exact IH.
Qed.

Lemma dec_lims_nth lims k : forall chain,
  NoDup chain -> Forall (fun j => (j < length lims)%nat) chain ->
  forall j, (In j chain -> nth j (dec_lims lims chain k) 0 = nth j lims 0 - k) /\
            (~ In j chain -> nth j (dec_lims lims chain k) 0 = nth j lims 0).
Proof.
  induction chain as [|i c IH]; intros Hnd HF j.
  - split; [intros []|reflexivity].
  - cbn [dec_lims fold_right]. fold (dec_lims lims c k).
    pose proof (NoDup_cons_iff i c) as [Hnd' _]. destruct (Hnd' Hnd) as [Hni Hndc].
    specialize (IH Hndc (Forall_inv_tail HF)).
    rewrite BitfieldsProofs.nth_list_set by (rewrite dec_lims_length; exact (Forall_inv HF)).
    destruct (Nat.eqb_spec j i) as [->|Hne].
    + split; [intros _|intros Hn; exfalso; apply Hn; left; reflexivity].
      destruct (IH i) as [_ IHb]. rewrite (IHb Hni). reflexivity.
    + destruct (IH j) as [IHa IHb]. split.
      * intros [E|Hin]; [congruence|]. apply IHa, Hin.
      * intros Hn. apply IHb. intros Hin. apply Hn. right. exact Hin.
Qed.

Lemma adv_consume st chain k : chain_ok st chain -> adv st chain k (consume st chain k).
Proof.
  intros [Hnd HF]. unfold consume. fold (dec_lims (r_lims st) chain k).
  repeat split; cbn [r_stream r_lims]; unfold lim_get; cbn [r_lims].
  - rewrite dec_lims_length. lia.
  - apply (dec_lims_nth (r_lims st) k chain Hnd HF j).
  - apply (dec_lims_nth (r_lims st) k chain Hnd HF j).
Qed.

(* ---- dr_read ---- *)
Lemma dr_read_fwd st d k bs st' d' : rinv st d -> dr_read st d k = OK (bs, st', d') ->
  k <= dr_scope d /\ k <= avail st (d_chain d) /\ bs = firstn (nat_of k) (r_stream st) /\
  adv st (d_chain d) k st' /\
  d_chain d' = d_chain d /\ d_max d' = d_max d /\ d_i d' = d_i d + k.
Proof.
  intros (Hc & Hi & Hm) H. unfold dr_read in H. unfold dr_scope.
  destruct (N.eqb_spec k 0) as [->|Hk].
  - inversion H; subst. split; [lia|]. split; [lia|]. split; [reflexivity|].
    split; [apply adv_refl|]. repeat split; lia.
  - destruct (_ <? k); [discriminate H|].
    destruct (N.ltb_spec (d_max d) (d_i d + k)); [discriminate H|].
    destruct (N.ltb_spec (avail st (d_chain d)) k); [discriminate H|].
    inversion H; subst; cbn [d_chain d_max d_i]. split; [lia|]. split; [lia|].
    split; [reflexivity|]. split; [apply adv_consume, Hc|]. repeat split; lia.
Qed.

Lemma dr_read_bwd st d k : rinv st d -> k <= dr_scope d -> k <= avail st (d_chain d) ->
  exists st' d', dr_read st d k = OK (firstn (nat_of k) (r_stream st), st', d').
Proof.
  intros (Hc & Hi & Hm) Hs Ha. unfold dr_read. unfold dr_scope in Hs.
  pose proof two32_lt_two64 as H32.
  destruct (N.eqb_spec k 0) as [->|Hk]; [do 2 eexists; reflexivity|].
  destruct (N.ltb_spec (two64 - 1 - d_i d) k); [lia|].
  destruct (N.ltb_spec (d_max d) (d_i d + k)); [lia|].
  destruct (N.ltb_spec (avail st (d_chain d)) k); [lia|].
  do 2 eexists; reflexivity.
Qed.

Lemma rinv_read st d k st' d' : rinv st d -> k <= dr_scope d -> adv st (d_chain d) k st' ->
  d_chain d' = d_chain d -> d_max d' = d_max d -> d_i d' = d_i d + k ->
  rinv st' d' /\ dr_scope d' = dr_scope d - k.
Proof.
  intros (Hc & Hi & Hm) Hk Ha E1 E2 E3. unfold rinv, dr_scope in *. rewrite E1, E2, E3.
  split; [split; [eapply chain_ok_adv; eassumption|split; lia]|lia].
Qed.

(* ---- dr_sub_scope ---- *)
Definition sub_st (st : rstate) (count : N) : rstate :=
  mkRS (r_stream st) (r_lims st ++ [count]).
Definition sub_d (st : rstate) (d : dreader) (count : N) : dreader :=
  mkDR 0 count (length (r_lims st) :: d_chain d).

Lemma dr_sub_scope_inv st d count st1 sd : dr_sub_scope st d count = OK (st1, sd) ->
  count <= dr_scope d /\
  st1 = sub_st st count /\ sd = sub_d st d count.
Proof.
  unfold dr_sub_scope. destruct (N.ltb_spec (dr_scope d) count) as [Hlt|Hge]; [discriminate|].
  intros HH. inversion HH. repeat split. exact Hge.
Qed.

Lemma dr_sub_scope_ok st d count : count <= dr_scope d ->
  dr_sub_scope st d count = OK (sub_st st count, sub_d st d count).
Proof.
  intros H. unfold dr_sub_scope. destruct (N.ltb_spec (dr_scope d) count); [lia|reflexivity].
Qed.

Section SubScope.
Variables (st : rstate) (d : dreader) (count : N).
Notation st1 := (sub_st st count).
Notation sd := (sub_d st d count).

Lemma lim_get_sub_old j : (j < length (r_lims st))%nat -> lim_get st1 j = lim_get st j.
Proof. intros Hj. unfold lim_get, sub_st. cbn [r_lims]. apply app_nth1. exact Hj. Qed.

Lemma lim_get_sub_new : lim_get st1 (length (r_lims st)) = count.
Proof. unfold lim_get, sub_st. cbn [r_lims]. rewrite app_nth2, Nat.sub_diag by lia. reflexivity. Qed.

Lemma rinv_sub : rinv st d -> count <= dr_scope d -> rinv st1 sd /\ dr_scope sd = count.
Proof.
  intros ((Hnd & HF) & Hi & Hm) Hc. unfold rinv, chain_ok, dr_scope, sub_st, sub_d in *.
  cbn [d_chain d_i d_max r_lims]. rewrite app_length. cbn [length].
  repeat split; try lia.
  - constructor; [|exact Hnd]. intros Hin. rewrite Forall_forall in HF. specialize (HF _ Hin). lia.
  - constructor; [lia|]. eapply Forall_impl; [|exact HF]. cbv beta. intros; lia.
Qed.

Lemma avail_sub : rinv st d ->
  avail st1 (d_chain sd) = N.min count (avail st (d_chain d)).
Proof.
  intros ((Hnd & HF) & _). unfold sub_d. cbn [d_chain]. unfold avail at 1. cbn [fold_right].
  rewrite lim_get_sub_new. f_equal. fold (avail st1 (d_chain d)). unfold avail.
  clear Hnd. induction HF as [|j c Hj _ IH]; cbn [fold_right]; [reflexivity|].
  rewrite IH, lim_get_sub_old by exact Hj. reflexivity.
Qed.

Lemma adv_sub k st2 : rinv st d -> adv st1 (d_chain sd) k st2 -> adv st (d_chain d) k st2.
Proof.
  intros ((Hnd & HF) & _) (S & L & C). unfold sub_d, sub_st in S, L, C.
  cbn [r_stream r_lims d_chain] in *.
  rewrite app_length in L. cbn [length] in L. split; [exact S|]. split; [lia|].
  intros j Hj. split.
  - intros Hin. destruct (C j) as [Ca _]; [rewrite app_length; cbn [length]; lia|].
    rewrite Ca by (right; exact Hin). f_equal. apply lim_get_sub_old. exact Hj.
  - intros Hin. destruct (C j) as [_ Cb]; [rewrite app_length; cbn [length]; lia|].
    rewrite Cb; [apply lim_get_sub_old; exact Hj|].
    intros [E|Hin']; [lia|contradiction].
Qed.
End SubScope.

(* the parent's invariant survives whatever happened below *)
Lemma rinv_adv st d c k st' : rinv st d -> adv st c k st' -> rinv st' d.
Proof.
  intros (Hc & Hi & Hm) Ha. split; [|split; assumption]. eapply chain_ok_adv; eassumption.
Qed.

(* slices *)
Lemma firstn_firstn_le {A} (l : list A) a b : (a <= b)%nat -> firstn a (firstn b l) = firstn a l.
Proof. intros H. rewrite firstn_firstn. f_equal. lia. Qed.

Lemma skipn_firstn_sub {A} (l : list A) a b :
  skipn a (firstn b l) = firstn (b - a) (skipn a l).
Proof. apply skipn_firstn_comm. Qed.

Lemma firstnN_firstnN {A} (l : list A) a b : a <= b ->
  firstn (nat_of a) (firstn (nat_of b) l) = firstn (nat_of a) l.
Proof. intros H. apply firstn_firstn_le. unfold nat_of. lia. Qed.

Lemma skipnN_firstnN {A} (l : list A) a b :
  skipn (nat_of a) (firstn (nat_of b) l) = firstn (nat_of (b - a)) (skipn (nat_of a) l).
Proof. rewrite skipn_firstn_sub. f_equal. unfold nat_of. lia. Qed.

(* ------------------------------------------------------------------------------------ *)
(** * 3. The slice decoder

   [sdec t bs] decodes EXACTLY the byte string [bs] as a value of type [t].  It performs the
   checks of [view_deser] in the same order, but on plain slices ([firstn]/[skipn]) instead of
   reader states, and with exact arithmetic for the sizes of variable-size parts (a part
   that does not fit in the remaining bytes is rejected). *)

Definition sdecoder := list byte -> option node.
Definition r2o {A} (r : res A) : option A := match r with OK a => Some a | _ => None end.
Definition obind {A B} (o : option A) (f : A -> option B) : option B :=
  match o with Some a => f a | None => None end.
Notation "'odo' x <- r ; k" := (obind r (fun x => k))
  (at level 200, x pattern, r at level 100, k at level 200, right associativity).

(* [count] elements of [size] bytes each from the front of [bs] *)
Fixpoint s_fixed_series (dec : sdecoder) (count : nat) (size : N) (bs : list byte)
  : option (list node) :=
  match count with
  | O => Some []
  | S k =>
    if lenN bs <? size then None else
    odo n <- dec (firstn (nat_of size) bs);
    odo ns <- s_fixed_series dec k size (skipn (nat_of size) bs);
    Some (n :: ns)
  end.

(* [count] little-endian uint32 offsets, non-decreasing from [prev]; returns the rest *)
Fixpoint s_offsets (count : nat) (prev : N) (bs : list byte) : option (list N * list byte) :=
  match count with
  | O => Some ([], bs)
  | S k =>
    if lenN bs <? 4 then None else
    let off := le_val (firstn 4 bs) in
    if off <? prev then None else
    odo r <- s_offsets k off (skipn 4 bs); let '(offs, rest) := r in
    Some (off :: offs, rest)
  end.

(* elements between consecutive offsets; [bs] starts at the first offset; the last element
   ends at [scope] *)
Fixpoint s_var_elems (dec : sdecoder) (offs : list N) (scope : N) (bs : list byte)
  : option (list node) :=
  match offs with
  | [] => Some []
  | o :: rest =>
    let size := match rest with o' :: _ => o' - o | [] => scope - o end in
    if (match rest with _ :: _ => false | [] => scope <? o end) then None else
    if lenN bs <? size then None else
    odo n <- dec (firstn (nat_of size) bs);
    odo ns <- s_var_elems dec rest scope (skipn (nat_of size) bs);
    Some (n :: ns)
  end.

Fixpoint s_cont_fixed (fs : list (tinfo * sdecoder)) (first : bool) (fixed_part : N)
         (prev scope : N) (bs : list byte) : option (list cfield * list byte) :=
  match fs with
  | [] => Some ([], bs)
  | (i, dec) :: rest =>
    if ti_fixed i then
      if lenN bs <? ti_size i then None else
      odo n <- dec (firstn (nat_of (ti_size i)) bs);
      odo more <- s_cont_fixed rest first fixed_part prev scope (skipn (nat_of (ti_size i)) bs);
      let '(cs, bs') := more in Some (CFixed n :: cs, bs')
    else
      if lenN bs <? 4 then None else
      let off := le_val (firstn 4 bs) in
      if off <? prev then None else
      if scope <? off then None else
      if first && negb (off =? fixed_part) then None else
      odo more <- s_cont_fixed rest false fixed_part off scope (skipn 4 bs);
      let '(cs, bs') := more in Some (CVar off :: cs, bs')
  end.

(* the next offset in a list of container fields *)
Section CfNext.
Context {D : Type}.
Fixpoint cf_next (l : list (cfield * D)) : option N :=
  match l with
  | [] => None
  | (CVar o, _) :: _ => Some o
  | _ :: l' => cf_next l'
  end.
End CfNext.

Fixpoint s_cont_var (fs : list (cfield * sdecoder)) (scope : N) (bs : list byte)
  : option (list node) :=
  match fs with
  | [] => Some []
  | (CFixed n, _) :: rest => odo ns <- s_cont_var rest scope bs; Some (n :: ns)
  | (CVar off, dec) :: rest =>
    let size := match cf_next rest with Some o' => o' - off | None => scope - off end in
    if lenN bs <? size then None else
    odo n <- dec (firstn (nat_of size) bs);
    odo ns <- s_cont_var rest scope (skipn (nat_of size) bs);
    Some (n :: ns)
  end.

Section Sdec.
Variable zh : nat -> chunk.

Fixpoint sdec (t : ty) (bs : list byte) {struct t} : option node :=
  let scope := lenN bs in
  match t with
  | TUint w =>
    if uint_width_ok w then (if scope =? w then Some (Leaf (pad32 bs)) else None) else None
  | TBool =>
    if negb (scope =? 1) then None else
    let b := le_val bs in
    if 1 <? b then None else Some (Leaf (if b =? 1 then true_chunk else zh 0))
  | TBytes n => if scope =? n then Some (Leaf (pad32 bs)) else None
  | TRoot => if scope =? 32 then Some (Leaf (pad32 bs)) else None
  | TBitvector n =>
    if negb (ti_size (info t) =? scope) then None else
    if negb (scope =? 0) && negb (N.land n 7 =? 0)
       && negb (N.land (N_of_byte (last bs b0)) (2 ^ (N.land n 7) - 1) =? N_of_byte (last bs b0))
    then None else
    r2o (fill_contents zh (map Leaf (chunkify bs)) t)
  | TBitlist n =>
    if scope =? 0 then None else
    if ti_max (info t) <? scope then None else
    let lastb := N_of_byte (last bs b0) in
    if lastb =? 0 then None else
    if (scope =? 1) && (lastb =? 1) then r2o (default_node zh t) else
    let dbi := byte_bit_index_N lastb in
    let bit_len := wrap64 (N.shiftl (scope - 1) 3) + dbi in
    if n <? bit_len then None else
    let contents :=
        if dbi =? 0 then removelast bs
        else removelast bs ++ [byte_of_N (N.lxor lastb (2 ^ dbi))] in
    odo c <- r2o (fill_contents zh (map Leaf (chunkify contents)) t);
    Some (Pair c (len_leaf bit_len))
  | TVector e n =>
    let ie := info e in
    if is_basic_elem e then
      if negb (ti_size (info t) =? scope) then None else
      r2o (fill_contents zh (map Leaf (chunkify bs)) t)
    else if ti_fixed ie then
      if negb (ti_size (info t) =? scope) then None else
      odo ns <- s_fixed_series (sdec e) (nat_of n) (ti_size ie) bs;
      r2o (fill_contents zh ns t)
    else
      odo r <- s_offsets (nat_of n) 0 bs; let '(offs, rest) := r in
      if negb (hd 0 offs =? mul64 n 4) then None else
      odo ns <- s_var_elems (sdec e) offs scope rest;
      r2o (fill_contents zh ns t)
  | TList e n =>
    let ie := info e in
    if is_basic_elem e then
      let esz := ti_size ie in
      let len := scope / esz in
      if n <? len then None else
      if negb (mul64 len esz =? scope) then None else
      if len =? 0 then r2o (default_node zh t) else
      odo c <- r2o (fill_contents zh (map Leaf (chunkify bs)) t);
      Some (Pair c (len_leaf len))
    else if scope =? 0 then r2o (default_node zh t)
    else if ti_fixed ie then
      let esz := ti_size ie in
      let len := scope / esz in
      if n <? len then None else
      if negb (mul64 len esz =? scope) then None else
      odo ns <- s_fixed_series (sdec e) (nat_of len) esz bs;
      odo c <- r2o (fill_contents zh ns t);
      Some (Pair c (len_leaf len))
    else
      if scope <? 4 then None else
      let first := le_val (firstn 4 bs) in
      if negb (first mod 4 =? 0) then None else
      let len := first / 4 in
      if n <? len then None else
      if (first =? 0) || (scope <? first) then None else
      odo r <- s_offsets (nat_of (len - 1)) first (skipn 4 bs); let '(offs, rest) := r in
      odo ns <- s_var_elems (sdec e) (first :: offs) scope rest;
      odo c <- r2o (fill_contents zh ns t);
      Some (Pair c (len_leaf len))
  | TContainer fs =>
    let it := info t in
    if (scope <? ti_min it) || (ti_max it <? scope) then None else
    let fds := combine (map info fs) (map sdec fs) in
    let fp := fixed_part_size fs in
    odo r <- s_cont_fixed fds true fp (wrap32 fp) scope bs; let '(cfs, rest) := r in
    odo ns <- s_cont_var (combine cfs (map sdec fs)) scope rest;
    r2o (fill_contents zh ns t)
  | TUnion none opts =>
    if scope =? 0 then None else
    let sel := le_val (firstn 1 bs) in
    if wrap8 (union_count none opts) <=? sel then None else
    if none && (sel =? 0) then
      if negb (scope =? 1) then None else
      Some (Pair (Leaf zero_chunk) (Leaf (pad32 [byte_of_N sel])))
    else
      (fix pick (os : list ty) (k : nat) : option node :=
         match os, k with
         | [], _ => None
         | o :: _, O =>
           if ti_fixed (info o) && negb (ti_size (info o) =? scope - 1) then None else
           odo c <- sdec o (skipn 1 bs);
           Some (Pair c (Leaf (pad32 [byte_of_N sel])))
         | _ :: os', S k' => pick os' k'
         end) opts (nat_of (if none then sel - 1 else sel))
  end.

End Sdec.

(* sanity: the slice decoder agrees with the reader-based decoder on samples *)
Definition test_zh (d : nat) : chunk := repeat (byte_of_N (N.of_nat d)) 32.
Definition test_ty : ty :=
  TContainer [TUint 2; TList (TUint 1) 10; TVector (TList TBool 3) 2; TBitlist 9;
              TUnion true [TUint 1; TBitvector 3]; TVector (TBytes 2) 2].
Definition test_val : val :=
  VCont [VUint 513; VSeq [VUint 7; VUint 8]; VSeq [VSeq [VBool true]; VSeq []];
         VBits [true; false; true]; VUnion 2 (Some (VBits [true; true; false]));
         VSeq [VBytes [byte_of_N 1; byte_of_N 2]; VBytes [byte_of_N 3; byte_of_N 4]]].
Example test_sdec_agrees :
  let bs := spec_ser test_ty test_val in
  r2o (view_deserialize test_zh test_ty bs) = sdec test_zh test_ty bs /\
  is_ok (view_deserialize test_zh test_ty bs) = true /\
  r2o (view_deserialize test_zh test_ty (bs ++ [b0])) = sdec test_zh test_ty (bs ++ [b0]) /\
  r2o (view_deserialize test_zh test_ty (removelast bs)) = sdec test_zh test_ty (removelast bs).
Proof. vm_compute. repeat split. Qed.

(* ------------------------------------------------------------------------------------ *)
(** * 4. Simulation: the reader-based decoder and the slice decoder *)

(* single-chunk leaf types are handed exactly their size *)
Definition leaf_ok (t : ty) (scope : N) : Prop :=
  match t with
  | TUint w => scope = w
  | TBool => scope = 1
  | TBytes n => scope = n
  | TRoot => scope = 32
  | _ => True
  end.

Lemma leaf_ok_fixed t : ti_fixed (info t) = true -> leaf_ok t (ti_size (info t)).
Proof. destruct t; intros _; cbn [leaf_ok info ti_size]; auto. Qed.

Lemma leaf_ok_var t s : ti_fixed (info t) = false -> leaf_ok t s.
Proof. destruct t; cbn [leaf_ok info ti_fixed]; intros H; try discriminate H; auto. Qed.

(* the next k bytes of the stream *)
Definition slice (st : rstate) (k : N) : list byte := firstn (nat_of k) (r_stream st).

Lemma slice_len st c k : k <= avail st c -> lenN (slice st k) = k.
Proof.
  intros H. unfold slice. rewrite lenN_firstn'. pose proof (avail_le_stream st c). lia.
Qed.

Lemma slice_len_ge st c k X : k <= avail st c -> k <= X -> k <= lenN (slice st X).
Proof.
  intros H HX. unfold slice. rewrite lenN_firstn'. pose proof (avail_le_stream st c). lia.
Qed.

Lemma slice_firstn st a b : a <= b -> firstn (nat_of a) (slice st b) = slice st a.
Proof. intros H. unfold slice. apply firstnN_firstnN. exact H. Qed.

Lemma slice_skipn st c a st2 b : adv st c a st2 ->
  skipn (nat_of a) (slice st b) = slice st2 (b - a).
Proof. intros (S & _). unfold slice. rewrite skipnN_firstnN, S. reflexivity. Qed.

Lemma slice_0 st : slice st 0 = [].
Proof. reflexivity. Qed.

Definition dec_fwd (dec : decoder) (sd : sdecoder) (ok : N -> Prop) : Prop :=
  forall st d n st', rinv st d -> ok (dr_scope d) -> dec st d = OK (n, st') ->
    dr_scope d <= avail st (d_chain d) /\ adv st (d_chain d) (dr_scope d) st' /\
    sd (slice st (dr_scope d)) = Some n.

Definition dec_bwd (dec : decoder) (sd : sdecoder) (ok : N -> Prop) : Prop :=
  forall st d n, rinv st d -> ok (dr_scope d) -> dr_scope d <= avail st (d_chain d) ->
    sd (slice st (dr_scope d)) = Some n -> exists st', dec st d = OK (n, st').

Definition dec_sim dec sd ok : Prop := dec_fwd dec sd ok /\ dec_bwd dec sd ok.

(* a child decoder run in SubScope(size) *)
Lemma child_fwd dec sd ok st d size st1 sdr n st2 :
  dec_fwd dec sd ok -> rinv st d -> ok size ->
  dr_sub_scope st d size = OK (st1, sdr) -> dec st1 sdr = OK (n, st2) ->
  size <= dr_scope d /\ size <= avail st (d_chain d) /\ adv st (d_chain d) size st2 /\
  sd (slice st size) = Some n.
Proof.
  intros Hf Hinv Hok Hs Hd. apply dr_sub_scope_inv in Hs. destruct Hs as (Hle & -> & ->).
  destruct (rinv_sub st d size Hinv Hle) as [Hinv1 Hsc].
  destruct (Hf _ _ _ _ Hinv1 ltac:(rewrite Hsc; exact Hok) Hd) as (Ha & Hadv & Hsd).
  rewrite Hsc in *. rewrite avail_sub in Ha by exact Hinv.
  split; [exact Hle|]. split; [lia|]. split; [eapply adv_sub; eassumption|exact Hsd].
Qed.

Lemma child_bwd dec sd ok st d size n :
  dec_bwd dec sd ok -> rinv st d -> ok size ->
  size <= dr_scope d -> size <= avail st (d_chain d) -> sd (slice st size) = Some n ->
  dr_sub_scope st d size = OK (sub_st st size, sub_d st d size) /\
  exists st2, dec (sub_st st size) (sub_d st d size) = OK (n, st2).
Proof.
  intros Hb Hinv Hok Hle Ha Hsd. split; [apply dr_sub_scope_ok, Hle|].
  destruct (rinv_sub st d size Hinv Hle) as [Hinv1 Hsc].
  apply Hb; rewrite ?Hsc; try assumption.
  rewrite avail_sub by exact Hinv. lia.
Qed.

(* ---- small arithmetic facts about the uint32/uint64 helpers ---- *)
Lemma sub32_small a b : b <= a -> a < two32 -> sub32 a b = a - b.
Proof.
  intros H1 H2. unfold sub32, wrap32. rewrite (N.mod_small b) by lia.
  replace (a + two32 - b) with ((a - b) + 1 * two32) by lia.
  rewrite N.mod_add by (rewrite two32_val; lia). apply N.mod_small. lia.
Qed.

Lemma sub64_small a b : b <= a -> a < two64 -> sub64 a b = a - b.
Proof.
  intros H1 H2. pose proof two64_pos. unfold sub64, wrap64. rewrite (N.mod_small b) by lia.
  replace (a + two64 - b) with ((a - b) + 1 * two64) by lia.
  rewrite N.mod_add by lia. apply N.mod_small. lia.
Qed.

Lemma sub64_wrapped a b : a < b -> b < two64 -> sub64 a b = a + two64 - b.
Proof.
  intros H1 H2. unfold sub64, wrap64. rewrite (N.mod_small b) by lia. apply N.mod_small. lia.
Qed.

Lemma wrap32_small a : a < two32 -> wrap32 a = a.
Proof. apply N.mod_small. Qed.

Lemma mul64_small a b : a * b < two64 -> mul64 a b = a * b.
Proof. apply N.mod_small. Qed.

Lemma two32_two64_gap : two32 + two32 <= two64.
Proof. rewrite two32_eq, two64_eq. change (2 ^ 64) with (2 ^ 32 * 2 ^ 32). 
  assert (2 <= 2 ^ 32) by (change 2 with (2 ^ 1) at 1; apply N.pow_le_mono_r; lia). nia. Qed.

(* little-endian values *)
Lemma le_val_bound : forall bs, le_val bs < 256 ^ lenN bs.
Proof.
  induction bs as [|b bs IH]; [cbn; lia|].
  cbn [le_val]. rewrite lenN_cons, N.add_comm, N.pow_add_r, N.pow_1_r.
  pose proof (BitfieldsProofs.N_of_byte_lt b). nia.
Qed.

Lemma le_val_4_bound bs : lenN bs <= 4 -> le_val bs < two32.
Proof.
  intros H. pose proof (le_val_bound bs) as Hb.
  assert (256 ^ lenN bs <= 256 ^ 4) by (apply N.pow_le_mono_r; lia).
  change (256 ^ 4) with 4294967296 in *. rewrite two32_val. lia.
Qed.

(* offsets: non-decreasing from [prev] *)
Fixpoint sorted_from (prev : N) (l : list N) : Prop :=
  match l with [] => True | o :: r => prev <= o /\ sorted_from o r end.

Lemma sorted_from_last : forall l prev, sorted_from prev l -> prev <= last l prev.
Proof.
  induction l as [|o r IH]; intros prev H; [cbn; lia|].
  destruct H as [H1 H2]. specialize (IH o H2).
  destruct r as [|o' r']; [cbn; lia|].
  change (last (o :: o' :: r') prev) with (last (o' :: r') prev).
  assert (E : forall d1 d2, last (o' :: r') d1 = last (o' :: r') d2).
  { clear. revert o'. induction r' as [|x r IH]; intros o' d1 d2; [reflexivity|].
    change (last (o' :: x :: r) d1) with (last (x :: r) d1).
    change (last (o' :: x :: r) d2) with (last (x :: r) d2). apply IH. }
  rewrite (E prev o). lia.
Qed.

Lemma last_cons_cons {A} (a b : A) l d : last (a :: b :: l) d = last (b :: l) d.
Proof. reflexivity. Qed.

Lemma last_nonempty_default {A} (a : A) l d1 d2 : last (a :: l) d1 = last (a :: l) d2.
Proof.
  revert a. induction l as [|x r IH]; intros a; [reflexivity|].
  rewrite !last_cons_cons. apply IH.
Qed.

(* inversion helpers for the two monads *)
Ltac bindOK H E :=
  match type of H with
  | bind ?r _ = OK _ =>
    destruct r eqn:E; cbn [bind] in H; [|discriminate H|discriminate H]
  end.
Ltac obindS H E :=
  match type of H with
  | obind ?r _ = Some _ =>
    destruct r eqn:E; cbn [obind] in H; [|discriminate H]
  end.

(* ---- series of fixed-size elements ---- *)
Section FixedSeries.
Variables (dec : decoder) (sd : sdecoder) (ok : N -> Prop) (size : N).
Hypothesis Hok : ok size.

Lemma fixed_series_fwd : dec_fwd dec sd ok ->
  forall count st d ns st', rinv st d ->
  deser_fixed_series dec count size st d = OK (ns, st') ->
  N.of_nat count * size <= avail st (d_chain d) /\
  adv st (d_chain d) (N.of_nat count * size) st' /\
  s_fixed_series sd count size (slice st (N.of_nat count * size)) = Some ns.
Proof.
  intros Hf. induction count as [|k IH]; intros st d ns st' Hinv H.
  - cbn [deser_fixed_series] in H. inversion H; subst.
    change (N.of_nat 0 * size) with (0 * size). rewrite N.mul_0_l.
    split; [lia|]. split; [apply adv_refl|reflexivity].
  - cbn [deser_fixed_series] in H.
    bindOK H E1. destruct a as [st1 sdr]. bindOK H E2. destruct a as [n st2].
    bindOK H E3. destruct a as [ns' st3]. inversion H; subst. clear H.
    destruct (child_fwd _ _ _ _ _ _ _ _ _ _ Hf Hinv Hok E1 E2) as (Hle & Ha & Hadv & Hsd).
    pose proof (rinv_adv _ _ _ _ _ Hinv Hadv) as Hinv2.
    destruct (IH _ _ _ _ Hinv2 E3) as (Ha' & Hadv' & Hs').
    destruct Hinv as ((_ & HF) & _).
    rewrite (avail_adv _ _ _ _ HF Hadv) in Ha'.
    assert (Etot : N.of_nat (S k) * size = size + N.of_nat k * size) by lia.
    rewrite Etot. split; [lia|]. split; [eapply adv_trans; eassumption|].
    cbn [s_fixed_series].
    pose proof (slice_len_ge st (d_chain d) size (size + N.of_nat k * size) Ha ltac:(lia)) as Hlen.
    destruct (N.ltb_spec (lenN (slice st (size + N.of_nat k * size))) size); [lia|].
    rewrite slice_firstn by lia. rewrite Hsd. cbn [obind].
    rewrite (slice_skipn _ _ _ _ _ Hadv).
    replace (size + N.of_nat k * size - size) with (N.of_nat k * size) by lia.
    rewrite Hs'. reflexivity.
Qed.

Lemma fixed_series_bwd : dec_sim dec sd ok ->
  forall count st d ns, rinv st d -> size <= dr_scope d ->
  N.of_nat count * size <= avail st (d_chain d) ->
  s_fixed_series sd count size (slice st (N.of_nat count * size)) = Some ns ->
  exists st', deser_fixed_series dec count size st d = OK (ns, st').
Proof.
  intros [Hf Hb]. induction count as [|k IH]; intros st d ns Hinv Hsz Ha H.
  - cbn [s_fixed_series] in H. inversion H; subst. eexists; reflexivity.
  - assert (Etot : N.of_nat (S k) * size = size + N.of_nat k * size) by lia.
    rewrite Etot in *. cbn [s_fixed_series] in H.
    destruct (N.ltb_spec (lenN (slice st (size + N.of_nat k * size))) size); [discriminate H|].
    rewrite slice_firstn in H by lia.
    obindS H E1. obindS H E2. inversion H; subst; clear H.
    destruct (child_bwd _ _ _ _ _ _ _ Hb Hinv Hok Hsz ltac:(lia) E1) as (Es & st2 & Ed).
    destruct (child_fwd _ _ _ _ _ _ _ _ _ _ Hf Hinv Hok Es Ed) as (_ & _ & Hadv & _).
    pose proof (rinv_adv _ _ _ _ _ Hinv Hadv) as Hinv2.
    rewrite (slice_skipn _ _ _ _ _ Hadv) in E2.
    replace (size + N.of_nat k * size - size) with (N.of_nat k * size) in E2 by lia.
    destruct (IH st2 d l Hinv2 Hsz) as (st3 & E3); [|exact E2|].
    { destruct Hinv as ((_ & HF) & _). rewrite (avail_adv _ _ _ _ HF Hadv). lia. }
    exists st3. cbn [deser_fixed_series]. rewrite Es. cbn [bind]. rewrite Ed. cbn [bind].
    rewrite E3. reflexivity.
Qed.
End FixedSeries.

(* ---- reads of k bytes / one offset through the reader itself ---- *)
Lemma read_fwd st d k bs st' d' : rinv st d -> dr_read st d k = OK (bs, st', d') ->
  k <= dr_scope d /\ k <= avail st (d_chain d) /\ bs = slice st k /\
  adv st (d_chain d) k st' /\ rinv st' d' /\ dr_scope d' = dr_scope d - k /\
  d_chain d' = d_chain d.
Proof.
  intros Hinv H. destruct (dr_read_fwd _ _ _ _ _ _ Hinv H) as (H1 & H2 & H3 & H4 & H5 & H6 & H7).
  destruct (rinv_read _ _ _ _ _ Hinv H1 H4 H5 H6 H7) as [H8 H9].
  repeat (split; [assumption|]). assumption.
Qed.

Lemma read_u32_fwd st d off st' d' : rinv st d -> dr_read_u32 st d = OK (off, st', d') ->
  4 <= dr_scope d /\ 4 <= avail st (d_chain d) /\ off = le_val (slice st 4) /\
  adv st (d_chain d) 4 st' /\ rinv st' d' /\ dr_scope d' = dr_scope d - 4 /\
  d_chain d' = d_chain d.
Proof.
  intros Hinv H. unfold dr_read_u32 in H. bindOK H E. destruct a as [[bs st1] d1].
  inversion H; subst; clear H.
  destruct (read_fwd _ _ _ _ _ _ Hinv E) as (H1 & H2 & -> & H4). tauto.
Qed.

Lemma read_u32_bwd st d : rinv st d -> 4 <= dr_scope d -> 4 <= avail st (d_chain d) ->
  exists st' d', dr_read_u32 st d = OK (le_val (slice st 4), st', d').
Proof.
  intros Hinv H1 H2. destruct (dr_read_bwd _ _ _ Hinv H1 H2) as (st' & d' & E).
  exists st', d'. unfold dr_read_u32. rewrite E. reflexivity.
Qed.

Lemma read_byte_fwd st d b st' d' : rinv st d -> dr_read_byte st d = OK (b, st', d') ->
  1 <= dr_scope d /\ 1 <= avail st (d_chain d) /\ b = le_val (slice st 1) /\
  adv st (d_chain d) 1 st' /\ rinv st' d' /\ dr_scope d' = dr_scope d - 1 /\
  d_chain d' = d_chain d.
Proof.
  intros Hinv H. unfold dr_read_byte in H. bindOK H E. destruct a as [[bs st1] d1].
  inversion H; subst; clear H.
  destruct (read_fwd _ _ _ _ _ _ Hinv E) as (H1 & H2 & -> & H4). tauto.
Qed.

Lemma read_byte_bwd st d : rinv st d -> 1 <= dr_scope d -> 1 <= avail st (d_chain d) ->
  exists st' d', dr_read_byte st d = OK (le_val (slice st 1), st', d').
Proof.
  intros Hinv H1 H2. destruct (dr_read_bwd _ _ _ Hinv H1 H2) as (st' & d' & E).
  exists st', d'. unfold dr_read_byte. rewrite E. reflexivity.
Qed.

Lemma nat_of_4 : nat_of 4 = 4%nat. Proof. reflexivity. Qed.
Lemma nat_of_1 : nat_of 1 = 1%nat. Proof. reflexivity. Qed.

(* ---- offset tables ---- *)
Lemma read_offsets_fwd : forall count prev st d offs st' d', rinv st d ->
  read_offsets count prev st d = OK (offs, st', d') ->
  4 * N.of_nat count <= dr_scope d /\ 4 * N.of_nat count <= avail st (d_chain d) /\
  adv st (d_chain d) (4 * N.of_nat count) st' /\ rinv st' d' /\
  dr_scope d' = dr_scope d - 4 * N.of_nat count /\ d_chain d' = d_chain d /\
  length offs = count /\ sorted_from prev offs /\ Forall (fun o => o < two32) offs /\
  forall X, 4 * N.of_nat count <= X ->
    s_offsets count prev (slice st X) = Some (offs, slice st' (X - 4 * N.of_nat count)).
Proof.
  induction count as [|k IH]; intros prev st d offs st' d' Hinv H.
  - cbn [read_offsets] in H. inversion H; subst. change (4 * N.of_nat 0) with 0.
    rewrite N.sub_0_r. split; [lia|]. split; [lia|]. split; [apply adv_refl|].
    split; [exact Hinv|]. repeat split; try constructor.
    intros X _. rewrite N.sub_0_r. reflexivity.
  - cbn [read_offsets] in H. bindOK H E1. destruct a as [[off st1] d1].
    destruct (N.ltb_spec off prev) as [Hlt|Hge]; [discriminate H|].
    bindOK H E2. destruct a as [[offs' st2] d2]. inversion H; subst; clear H.
    destruct (read_u32_fwd _ _ _ _ _ Hinv E1) as (R1 & R2 & R3 & R4 & R5 & R6 & R7).
    destruct (IH _ _ _ _ _ _ R5 E2) as (I1 & I2 & I3 & I4 & I5 & I6 & I7 & I8 & I9 & I10).
    destruct Hinv as ((Hnd & HF) & Hinv').
    rewrite R7 in *. rewrite (avail_adv _ _ _ _ HF R4) in I2. rewrite R6 in *.
    assert (Etot : 4 * N.of_nat (S k) = 4 + 4 * N.of_nat k) by lia. rewrite Etot.
    split; [lia|]. split; [lia|]. split; [eapply adv_trans; eassumption|].
    split; [exact I4|]. split; [lia|]. split; [exact I6|]. split; [cbn [length]; lia|].
    split; [split; assumption|]. split.
    { constructor; [|exact I9]. rewrite R3. apply le_val_4_bound.
      unfold slice. rewrite lenN_firstn'. lia. }
    intros X HX. cbn [s_offsets].
    pose proof (slice_len_ge st (d_chain d) 4 X R2 ltac:(lia)) as Hlen.
    destruct (N.ltb_spec (lenN (slice st X)) 4); [lia|].
    rewrite <- nat_of_4, slice_firstn by lia. rewrite <- R3.
    destruct (N.ltb_spec off prev); [lia|].
    rewrite (slice_skipn _ _ _ _ _ R4), (I10 (X - 4)) by lia. cbn [obind].
    replace (X - 4 - 4 * N.of_nat k) with (X - (4 + 4 * N.of_nat k)) by lia. reflexivity.
Qed.

Lemma read_offsets_bwd : forall count prev st d offs rest X, rinv st d ->
  X <= dr_scope d -> X <= avail st (d_chain d) ->
  s_offsets count prev (slice st X) = Some (offs, rest) ->
  exists st' d', read_offsets count prev st d = OK (offs, st', d').
Proof.
  induction count as [|k IH]; intros prev st d offs rest X Hinv HX Ha H.
  - cbn [s_offsets] in H. inversion H; subst. do 2 eexists; reflexivity.
  - cbn [s_offsets] in H. rewrite (slice_len st (d_chain d) X Ha) in H.
    destruct (N.ltb_spec X 4); [discriminate H|].
    rewrite <- nat_of_4, slice_firstn in H by lia.
    destruct (N.ltb_spec (le_val (slice st 4)) prev) as [Hlt|Hge]; [discriminate H|].
    obindS H E. destruct p as [offs' rest']. inversion H; subst; clear H.
    destruct (read_u32_bwd st d Hinv ltac:(lia) ltac:(lia)) as (st1 & d1 & E1).
    destruct (read_u32_fwd _ _ _ _ _ Hinv E1) as (R1 & R2 & R3 & R4 & R5 & R6 & R7).
    rewrite (slice_skipn _ _ _ _ _ R4) in E.
    destruct (IH (le_val (slice st 4)) st1 d1 offs' rest (X - 4) R5) as (st2 & d2 & E2); [lia| |exact E|].
    { destruct Hinv as ((_ & HF) & _). rewrite R7, (avail_adv _ _ _ _ HF R4). lia. }
    exists st2, d2. cbn [read_offsets]. rewrite E1. cbn [bind].
    destruct (N.ltb_spec (le_val (slice st 4)) prev); [lia|]. rewrite E2. reflexivity.
Qed.

(* ---- series of variable-size elements ---- *)
Lemma sorted_head_le_last : forall l o d, sorted_from o l -> o <= last (o :: l) d.
Proof.
  induction l as [|o' r IH]; intros o d H; [cbn [last]; lia|].
  destruct H as [H1 H2]. rewrite last_cons_cons. specialize (IH o' d H2). lia.
Qed.

Lemma s_var_elems_last sd scope : forall offs bs ns, offs <> [] ->
  s_var_elems sd offs scope bs = Some ns -> last offs 0 <= scope.
Proof.
  induction offs as [|o rest IH]; intros bs ns Hne H; [congruence|].
  destruct rest as [|o' rest'].
  - cbn [s_var_elems] in H. destruct (N.ltb_spec scope o); [discriminate H|]. cbn [last]. lia.
  - rewrite last_cons_cons. cbn [s_var_elems] in H. fold s_var_elems in H.
    destruct (_ <? _); [discriminate H|]. obindS H E1. obindS H E2.
    eapply IH; [discriminate|exact E2].
Qed.

Lemma s_var_elems_cons2 sd o o' rest scope bs :
  s_var_elems sd (o :: o' :: rest) scope bs =
  if lenN bs <? o' - o then None else
  odo n <- sd (firstn (nat_of (o' - o)) bs);
  odo ns <- s_var_elems sd (o' :: rest) scope (skipn (nat_of (o' - o)) bs);
  Some (n :: ns).
Proof. reflexivity. Qed.

Lemma deser_var_elems_cons2 dec o o' rest scope st d :
  deser_var_elems dec (o :: o' :: rest) scope st d =
  do s <- dr_sub_scope st d (sub32 o' o); let '(st1, sd) := s in
  do r <- dec st1 sd; let '(n, st2) := r in
  do more <- deser_var_elems dec (o' :: rest) scope st2 d; let '(ns, st3) := more in
  OK (n :: ns, st3).
Proof. reflexivity. Qed.

Section VarSeries.
Variables (dec : decoder) (sd : sdecoder) (ok : N -> Prop).
Hypothesis Hok : forall s, ok s.

Lemma var_elems_fwd : dec_fwd dec sd ok ->
  forall offs o1 scope st d ns st', rinv st d -> scope < two32 ->
  sorted_from o1 offs -> Forall (fun o => o < two32) offs -> o1 < two32 ->
  deser_var_elems dec (o1 :: offs) scope st d = OK (ns, st') ->
  last (o1 :: offs) 0 <= scope /\ scope - o1 <= avail st (d_chain d) /\
  adv st (d_chain d) (scope - o1) st' /\
  s_var_elems sd (o1 :: offs) scope (slice st (scope - o1)) = Some ns.
Proof.
  intros Hf. induction offs as [|o' rest IH]; intros o1 scope st d ns st' Hinv Hsc Hso Hlt Ho1 H.
  - cbn [deser_var_elems] in H. bindOK H E1. destruct a as [st1 sdr].
    bindOK H E2. destruct a as [n st2]. inversion H; subst; clear H.
    pose proof E1 as E1'. apply dr_sub_scope_inv in E1'. destruct E1' as (Hle & _).
    assert (Hd : dr_scope d < two32) by (destruct Hinv as (_ & ? & ?); unfold dr_scope; lia).
    pose proof two32_lt_two64 as H3264. pose proof two32_two64_gap as Hgap.
    assert (Ho : o1 <= scope).
    { destruct (N.le_gt_cases o1 scope) as [|Hgt]; [assumption|].
      rewrite sub64_wrapped in Hle by lia. lia. }
    rewrite sub64_small in E1 by lia.
    destruct (child_fwd _ _ _ _ _ _ _ _ _ _ Hf Hinv (Hok _) E1 E2) as (_ & Ha & Hadv & Hsd).
    cbn [last]. split; [exact Ho|]. split; [exact Ha|]. split; [exact Hadv|].
    cbn [s_var_elems]. destruct (N.ltb_spec scope o1); [lia|].
    rewrite (slice_len st (d_chain d) _ Ha).
    destruct (N.ltb_spec (scope - o1) (scope - o1)); [lia|].
    rewrite slice_firstn by lia. rewrite Hsd. reflexivity.
  - destruct Hso as [Hle1 Hso]. pose proof (Forall_inv Hlt) as Ho'.
    pose proof (Forall_inv_tail Hlt) as Hlt'.
    rewrite deser_var_elems_cons2 in H.
    rewrite sub32_small in H by assumption.
    bindOK H E1. destruct a as [st1 sdr]. bindOK H E2. destruct a as [n st2].
    bindOK H E3. destruct a as [ns' st3]. inversion H; subst; clear H.
    destruct (child_fwd _ _ _ _ _ _ _ _ _ _ Hf Hinv (Hok _) E1 E2) as (_ & Ha & Hadv & Hsd).
    pose proof (rinv_adv _ _ _ _ _ Hinv Hadv) as Hinv2.
    destruct (IH o' scope st2 d ns' st' Hinv2 Hsc Hso Hlt' Ho' E3) as (I1 & I2 & I3 & I4).
    destruct Hinv as ((_ & HF) & _). rewrite (avail_adv _ _ _ _ HF Hadv) in I2.
    pose proof (sorted_head_le_last _ _ 0 Hso) as Hlast.
    assert (Ho's : o' <= scope) by lia.
    rewrite last_cons_cons.
    split; [exact I1|]. split; [lia|].
    assert (Etot : scope - o1 = (o' - o1) + (scope - o')) by lia.
    split; [rewrite Etot; eapply adv_trans; eassumption|].
    rewrite s_var_elems_cons2.
    pose proof (slice_len_ge st (d_chain d) (o' - o1) (scope - o1) Ha ltac:(lia)) as Hlen.
    destruct (N.ltb_spec (lenN (slice st (scope - o1))) (o' - o1)); [lia|].
    rewrite slice_firstn by lia. rewrite Hsd. cbn [obind].
    rewrite (slice_skipn _ _ _ _ _ Hadv).
    replace (scope - o1 - (o' - o1)) with (scope - o') by lia. rewrite I4. reflexivity.
Qed.

Lemma var_elems_bwd : dec_sim dec sd ok ->
  forall offs o1 scope st d ns, rinv st d -> scope < two32 ->
  sorted_from o1 offs -> Forall (fun o => o < two32) offs -> o1 < two32 ->
  scope - o1 <= dr_scope d -> scope - o1 <= avail st (d_chain d) ->
  s_var_elems sd (o1 :: offs) scope (slice st (scope - o1)) = Some ns ->
  exists st', deser_var_elems dec (o1 :: offs) scope st d = OK (ns, st').
Proof.
  intros [Hf Hb].
  induction offs as [|o' rest IH]; intros o1 scope st d ns Hinv Hsc Hso Hlt Ho1 Hds Ha H.
  - pose proof two32_lt_two64 as H3264.
    cbn [s_var_elems] in H. destruct (N.ltb_spec scope o1); [discriminate H|].
    destruct (_ <? _); [discriminate H|]. rewrite slice_firstn in H by lia.
    obindS H E1. inversion H; subst; clear H.
    destruct (child_bwd _ _ _ _ _ _ _ Hb Hinv (Hok _) Hds Ha E1) as (Es & st2 & Ed).
    exists st2. cbn [deser_var_elems]. rewrite sub64_small by lia. rewrite Es. cbn [bind].
    rewrite Ed. reflexivity.
  - assert (Hlast0 : last (o1 :: o' :: rest) 0 <= scope)
      by (eapply s_var_elems_last; [discriminate|exact H]).
    destruct Hso as [Hle1 Hso]. pose proof (Forall_inv Hlt) as Ho'.
    pose proof (Forall_inv_tail Hlt) as Hlt'.
    pose proof (sorted_head_le_last _ _ 0 Hso) as Hlast.
    rewrite last_cons_cons in Hlast0.
    assert (Ho's : o' <= scope) by lia.
    rewrite s_var_elems_cons2 in H.
    rewrite (slice_len st (d_chain d) _ Ha) in H.
    destruct (N.ltb_spec (scope - o1) (o' - o1)); [discriminate H|].
    rewrite slice_firstn in H by lia.
    obindS H E1. obindS H E2. inversion H; subst; clear H.
    destruct (child_bwd _ _ _ _ _ _ _ Hb Hinv (Hok (o' - o1)) ltac:(lia) ltac:(lia) E1)
      as (Es & st2 & Ed).
    destruct (child_fwd _ _ _ _ _ _ _ _ _ _ Hf Hinv (Hok _) Es Ed) as (_ & _ & Hadv & _).
    pose proof (rinv_adv _ _ _ _ _ Hinv Hadv) as Hinv2.
    rewrite (slice_skipn _ _ _ _ _ Hadv) in E2.
    replace (scope - o1 - (o' - o1)) with (scope - o') in E2 by lia.
    destruct (IH o' scope st2 d l Hinv2 Hsc Hso Hlt' Ho') as (st3 & E3); [lia| |exact E2|].
    { destruct Hinv as ((_ & HF) & _). rewrite (avail_adv _ _ _ _ HF Hadv). lia. }
    exists st3. rewrite deser_var_elems_cons2.
    rewrite sub32_small by assumption. rewrite Es. cbn [bind]. rewrite Ed. cbn [bind].
    rewrite E3. reflexivity.
Qed.
End VarSeries.

(* ---- containers ---- *)
Definition fld_len (f : ty) : N := if ti_fixed (info f) then ti_size (info f) else 4.
Definition fp_len (fs : list ty) : N := sumN (map fld_len fs).
Definition fld_nvar (f : ty) : N := if ti_fixed (info f) then 0 else 1.
Definition nvar (fs : list ty) : N := sumN (map fld_nvar fs).

Definition cf_shape1 (f : ty) (c : cfield) : Prop :=
  match c with CFixed _ => ti_fixed (info f) = true | CVar _ => ti_fixed (info f) = false end.
Definition cf_shape (fs : list ty) (cfs : list cfield) : Prop := Forall2 cf_shape1 fs cfs.

Fixpoint cf_offs (cfs : list cfield) : list N :=
  match cfs with
  | [] => []
  | CFixed _ :: r => cf_offs r
  | CVar o :: r => o :: cf_offs r
  end.

Lemma cf_next_offs {D} : forall cfs (l : list D), length cfs = length l ->
  cf_next (combine cfs l) = match cf_offs cfs with [] => None | o :: _ => Some o end.
Proof.
  induction cfs as [|c cfs IH]; intros l Hl; [reflexivity|].
  destruct l as [|x l]; [discriminate Hl|]. cbn [combine cf_next cf_offs].
  destruct c as [n|o]; [|reflexivity]. apply IH. cbn [length] in Hl. lia.
Qed.

Lemma deser_cont_var_cvar off (dec : decoder) rest scope st d :
  deser_cont_var ((CVar off, dec) :: rest) scope st d =
  do s <- dr_sub_scope st d
            (match cf_next rest with Some o' => sub32 o' off | None => sub32 (wrap32 scope) off end);
  let '(st1, sd) := s in
  do r <- dec st1 sd; let '(n, st2) := r in
  do more <- deser_cont_var rest scope st2 d; let '(ns, st3) := more in
  OK (n :: ns, st3).
Proof. reflexivity. Qed.

Section Sim.
Variable zh : nat -> chunk.

Notation vdec := (view_deser zh).
Notation sdc := (sdec zh).
Definition fwd_ty (f : ty) : Prop := dec_fwd (vdec f) (sdc f) (leaf_ok f).
Definition sim_ty (f : ty) : Prop := dec_sim (vdec f) (sdc f) (leaf_ok f).

Lemma cont_fixed_fwd : forall fs, Forall fwd_ty fs ->
  forall first fp prev scope st d cfs st' d', rinv st d ->
  deser_cont_fixed (combine (map info fs) (map vdec fs)) first fp prev scope st d
    = OK (cfs, st', d') ->
  fp_len fs <= avail st (d_chain d) /\ adv st (d_chain d) (fp_len fs) st' /\ rinv st' d' /\
  4 * nvar fs <= dr_scope d /\ dr_scope d' = dr_scope d - 4 * nvar fs /\
  d_chain d' = d_chain d /\
  cf_shape fs cfs /\ sorted_from prev (cf_offs cfs) /\
  Forall (fun o => o <= scope) (cf_offs cfs) /\
  (first = true -> match cf_offs cfs with o :: _ => o = fp | [] => True end) /\
  forall X, fp_len fs <= X ->
    s_cont_fixed (combine (map info fs) (map sdc fs)) first fp prev scope (slice st X)
    = Some (cfs, slice st' (X - fp_len fs)).
Proof.
  induction 1 as [|f fs Hf _ IH]; intros first fp prev scope st d cfs st' d' Hinv H.
  - cbn [map combine deser_cont_fixed] in H. inversion H; subst.
    unfold fp_len, nvar. cbn [map sumN fold_right]. rewrite N.mul_0_r, N.sub_0_r.
    split; [lia|]. split; [apply adv_refl|]. split; [exact Hinv|]. split; [lia|].
    split; [reflexivity|]. split; [reflexivity|]. split; [constructor|].
    split; [exact I|]. split; [constructor|]. split; [intros _; exact I|].
    intros X _. rewrite N.sub_0_r. reflexivity.
  - cbn [map combine deser_cont_fixed] in H.
    unfold fp_len, nvar. rewrite !map_cons, !sumN_cons. fold (fp_len fs) (nvar fs).
    unfold fld_len, fld_nvar.
    destruct (ti_fixed (info f)) eqn:Hfx.
    + bindOK H E1. destruct a as [st1 sdr]. bindOK H E2. destruct a as [n st2].
      bindOK H E3. destruct a as [[cs st3] d3]. inversion H; subst; clear H.
      destruct (child_fwd _ _ _ _ _ _ _ _ _ _ Hf Hinv (leaf_ok_fixed f Hfx) E1 E2)
        as (_ & Ha & Hadv & Hsd).
      pose proof (rinv_adv _ _ _ _ _ Hinv Hadv) as Hinv2.
      destruct (IH _ _ _ _ _ _ _ _ _ Hinv2 E3) as (I1 & I2 & I3 & I4 & I5 & I6 & I7 & I8 & I9 & I10 & I11).
      destruct Hinv as ((_ & HF) & _). rewrite (avail_adv _ _ _ _ HF Hadv) in I1.
      split; [lia|]. split; [eapply adv_trans; eassumption|]. split; [exact I3|].
      split; [lia|]. split; [rewrite I5; f_equal; lia|]. split; [exact I6|].
      split; [constructor; [exact Hfx|exact I7]|]. cbn [cf_offs].
      split; [exact I8|]. split; [exact I9|]. split; [exact I10|].
      intros X HX. cbn [map combine s_cont_fixed]. rewrite Hfx.
      pose proof (slice_len_ge st (d_chain d) _ X Ha ltac:(lia)) as Hlen.
      destruct (N.ltb_spec (lenN (slice st X)) (ti_size (info f))); [lia|].
      rewrite slice_firstn by lia. rewrite Hsd. cbn [obind].
      rewrite (slice_skipn _ _ _ _ _ Hadv), (I11 (X - ti_size (info f))) by lia. cbn [obind].
      replace (X - ti_size (info f) - fp_len fs) with (X - (ti_size (info f) + fp_len fs)) by lia.
      reflexivity.
    + bindOK H E1. destruct a as [[off st1] d1].
      destruct (N.ltb_spec off prev) as [|Hge]; [discriminate H|].
      destruct (N.ltb_spec scope off) as [|Hsc]; [discriminate H|].
      destruct (first && negb (off =? fp)) eqn:Hfirst; [discriminate H|].
      bindOK H E2. destruct a as [[cs st3] d3]. inversion H; subst; clear H.
      destruct (read_u32_fwd _ _ _ _ _ Hinv E1) as (R1 & R2 & R3 & R4 & R5 & R6 & R7).
      destruct (IH _ _ _ _ _ _ _ _ _ R5 E2) as (I1 & I2 & I3 & I4 & I5 & I6 & I7 & I8 & I9 & I10 & I11).
      destruct Hinv as ((_ & HF) & _). rewrite R7 in *. rewrite (avail_adv _ _ _ _ HF R4) in I1.
      rewrite R6 in *.
      split; [lia|]. split; [eapply adv_trans; eassumption|]. split; [exact I3|].
      split; [lia|]. split; [rewrite I5; lia|]. split; [exact I6|].
      split; [constructor; [exact Hfx|exact I7]|]. cbn [cf_offs].
      split; [split; assumption|]. split; [constructor; assumption|].
      split. { intros ->. cbn [andb] in Hfirst. apply negb_false_iff, N.eqb_eq in Hfirst. exact Hfirst. }
      intros X HX. cbn [map combine s_cont_fixed]. rewrite Hfx.
      pose proof (slice_len_ge st (d_chain d) 4 X R2 ltac:(lia)) as Hlen.
      destruct (N.ltb_spec (lenN (slice st X)) 4); [lia|].
      rewrite <- nat_of_4, slice_firstn by lia. rewrite <- R3.
      destruct (N.ltb_spec off prev); [lia|]. destruct (N.ltb_spec scope off); [lia|].
      rewrite Hfirst.
      rewrite (slice_skipn _ _ _ _ _ R4), (I11 (X - 4)) by lia. cbn [obind].
      replace (X - 4 - fp_len fs) with (X - (4 + fp_len fs)) by lia. reflexivity.
Qed.

Lemma cont_fixed_bwd : forall fs, Forall sim_ty fs ->
  forall first fp prev scope st d cfs rest X, rinv st d ->
  X <= dr_scope d -> X <= avail st (d_chain d) ->
  s_cont_fixed (combine (map info fs) (map sdc fs)) first fp prev scope (slice st X)
    = Some (cfs, rest) ->
  exists st' d',
    deser_cont_fixed (combine (map info fs) (map vdec fs)) first fp prev scope st d
    = OK (cfs, st', d').
Proof.
  induction 1 as [|f fs [Hf Hb] _ IH]; intros first fp prev scope st d cfs rest X Hinv HX Ha H.
  - cbn [map combine s_cont_fixed] in H. inversion H; subst. do 2 eexists; reflexivity.
  - cbn [map combine s_cont_fixed] in H. cbn [map combine deser_cont_fixed].
    rewrite (slice_len st (d_chain d) X Ha) in H.
    destruct (ti_fixed (info f)) eqn:Hfx.
    + destruct (N.ltb_spec X (ti_size (info f))); [discriminate H|].
      rewrite slice_firstn in H by lia. obindS H E1. obindS H E2.
      destruct p as [cs bs']. inversion H; subst; clear H.
      destruct (child_bwd _ _ _ _ _ _ _ Hb Hinv (leaf_ok_fixed f Hfx) ltac:(lia) ltac:(lia) E1)
        as (Es & st2 & Ed).
      destruct (child_fwd _ _ _ _ _ _ _ _ _ _ Hf Hinv (leaf_ok_fixed f Hfx) Es Ed)
        as (_ & _ & Hadv & _).
      pose proof (rinv_adv _ _ _ _ _ Hinv Hadv) as Hinv2.
      rewrite (slice_skipn _ _ _ _ _ Hadv) in E2.
      destruct (IH first fp prev scope st2 d cs rest (X - ti_size (info f)) Hinv2)
        as (st3 & d3 & E3); [lia| |exact E2|].
      { destruct Hinv as ((_ & HF) & _). rewrite (avail_adv _ _ _ _ HF Hadv). lia. }
      exists st3, d3. rewrite Es. cbn [bind]. rewrite Ed. cbn [bind]. rewrite E3. reflexivity.
    + destruct (N.ltb_spec X 4); [discriminate H|].
      rewrite <- nat_of_4, slice_firstn in H by lia.
      destruct (N.ltb_spec (le_val (slice st 4)) prev); [discriminate H|].
      destruct (N.ltb_spec scope (le_val (slice st 4))); [discriminate H|].
      destruct (first && negb (le_val (slice st 4) =? fp)) eqn:Hfirst; [discriminate H|].
      obindS H E2. destruct p as [cs bs']. inversion H; subst; clear H.
      destruct (read_u32_bwd st d Hinv ltac:(lia) ltac:(lia)) as (st1 & d1 & E1).
      destruct (read_u32_fwd _ _ _ _ _ Hinv E1) as (R1 & R2 & R3 & R4 & R5 & R6 & R7).
      rewrite (slice_skipn _ _ _ _ _ R4) in E2.
      destruct (IH false fp (le_val (slice st 4)) scope st1 d1 cs rest (X - 4) R5)
        as (st3 & d3 & E3); [lia| |exact E2|].
      { destruct Hinv as ((_ & HF) & _). rewrite R7, (avail_adv _ _ _ _ HF R4). lia. }
      exists st3, d3. rewrite E1. cbn [bind].
      destruct (N.ltb_spec (le_val (slice st 4)) prev); [lia|].
      destruct (N.ltb_spec scope (le_val (slice st 4))); [lia|].
      rewrite Hfirst, E3. reflexivity.
Qed.

Definition cf_tot (scope : N) (cfs : list cfield) : N :=
  match cf_offs cfs with [] => 0 | o1 :: _ => scope - o1 end.
Definition cf_sorted (cfs : list cfield) : Prop :=
  match cf_offs cfs with [] => True | o1 :: r => sorted_from o1 r end.

Lemma cf_shape_length fs cfs : cf_shape fs cfs -> length cfs = length fs.
Proof. intros H. symmetry. induction H; cbn [length]; congruence. Qed.

Lemma cont_var_fwd : forall fs cfs, cf_shape fs cfs -> Forall fwd_ty fs ->
  forall scope st d ns st', rinv st d -> scope < two32 ->
  cf_sorted cfs -> Forall (fun o => o <= scope) (cf_offs cfs) ->
  deser_cont_var (combine cfs (map vdec fs)) scope st d = OK (ns, st') ->
  cf_tot scope cfs <= avail st (d_chain d) /\ adv st (d_chain d) (cf_tot scope cfs) st' /\
  s_cont_var (combine cfs (map sdc fs)) scope (slice st (cf_tot scope cfs)) = Some ns.
Proof.
  induction 1 as [|f c fs cfs Hc Hsh IH]; intros HF scope st d ns st' Hinv Hsc Hso Hle H.
  - cbn [map combine deser_cont_var] in H. inversion H; subst. unfold cf_tot. cbn [cf_offs].
    split; [lia|]. split; [apply adv_refl|reflexivity].
  - pose proof (Forall_inv HF) as Hf. pose proof (Forall_inv_tail HF) as HF'.
    cbn [map combine] in H |- *. destruct c as [n|off].
    + cbn [deser_cont_var] in H. bindOK H E. destruct a as [ns' st1].
      inversion H; subst; clear H.
      unfold cf_tot, cf_sorted in *. cbn [cf_offs] in *.
      destruct (IH HF' _ _ _ _ _ Hinv Hsc Hso Hle E) as (I1 & I2 & I3).
      split; [exact I1|]. split; [exact I2|]. cbn [s_cont_var]. rewrite I3. reflexivity.
    + rewrite deser_cont_var_cvar in H.
      pose proof (cf_shape_length _ _ Hsh) as Hlen.
      rewrite cf_next_offs in H by (rewrite map_length; exact Hlen).
      unfold cf_tot, cf_sorted in *. cbn [cf_offs] in *. cbn [cf_shape1] in Hc.
      pose proof (Forall_inv Hle) as Hoff. cbv beta in Hoff. pose proof (Forall_inv_tail Hle) as Hle'.
      cbn [s_cont_var]. rewrite cf_next_offs by (rewrite map_length; exact Hlen).
      destruct (cf_offs cfs) as [|o' r] eqn:Eoffs.
      * rewrite wrap32_small, sub32_small in H by lia.
        bindOK H E1. destruct a as [st1 sdr]. bindOK H E2. destruct a as [n st2].
        bindOK H E3. destruct a as [ns' st3]. inversion H; subst; clear H.
        destruct (child_fwd _ _ _ _ _ _ _ _ _ _ Hf Hinv (leaf_ok_var f _ Hc) E1 E2)
          as (_ & Ha & Hadv & Hsd).
        pose proof (rinv_adv _ _ _ _ _ Hinv Hadv) as Hinv2.
        destruct (IH HF' _ _ _ _ _ Hinv2 Hsc I Hle' E3) as (I1 & I2 & I3).
        split; [exact Ha|].
        split; [apply (adv_eq _ _ (scope - off + 0)); [lia|]; eapply adv_trans; eassumption|].
        rewrite (slice_len st (d_chain d) _ Ha).
        destruct (N.ltb_spec (scope - off) (scope - off)); [lia|].
        rewrite slice_firstn by lia. rewrite Hsd. cbn [obind].
        rewrite (slice_skipn _ _ _ _ _ Hadv), N.sub_diag, I3. reflexivity.
      * destruct Hso as [Hoo' Hso]. pose proof (Forall_inv Hle') as Ho'. cbv beta in Ho'.
        rewrite sub32_small in H by lia.
        bindOK H E1. destruct a as [st1 sdr]. bindOK H E2. destruct a as [n st2].
        bindOK H E3. destruct a as [ns' st3]. inversion H; subst; clear H.
        destruct (child_fwd _ _ _ _ _ _ _ _ _ _ Hf Hinv (leaf_ok_var f _ Hc) E1 E2)
          as (_ & Ha & Hadv & Hsd).
        pose proof (rinv_adv _ _ _ _ _ Hinv Hadv) as Hinv2.
        destruct (IH HF' _ _ _ _ _ Hinv2 Hsc Hso Hle' E3) as (I1 & I2 & I3).
        destruct Hinv as ((_ & HF0) & _). rewrite (avail_adv _ _ _ _ HF0 Hadv) in I1.
        split; [lia|].
        split; [apply (adv_eq _ _ ((o' - off) + (scope - o'))); [lia|]; eapply adv_trans; eassumption|].
        pose proof (slice_len_ge st (d_chain d) (o' - off) (scope - off) Ha ltac:(lia)) as Hl.
        destruct (N.ltb_spec (lenN (slice st (scope - off))) (o' - off)); [lia|].
        rewrite slice_firstn by lia. rewrite Hsd. cbn [obind].
        rewrite (slice_skipn _ _ _ _ _ Hadv).
        replace (scope - off - (o' - off)) with (scope - o') by lia. rewrite I3. reflexivity.
Qed.

Lemma cont_var_bwd : forall fs cfs, cf_shape fs cfs -> Forall sim_ty fs ->
  forall scope st d ns, rinv st d -> scope < two32 ->
  cf_sorted cfs -> Forall (fun o => o <= scope) (cf_offs cfs) ->
  cf_tot scope cfs <= dr_scope d -> cf_tot scope cfs <= avail st (d_chain d) ->
  s_cont_var (combine cfs (map sdc fs)) scope (slice st (cf_tot scope cfs)) = Some ns ->
  exists st', deser_cont_var (combine cfs (map vdec fs)) scope st d = OK (ns, st').
Proof.
  induction 1 as [|f c fs cfs Hc Hsh IH]; intros HF scope st d ns Hinv Hsc Hso Hle Hds Ha H.
  - cbn [map combine s_cont_var] in H. inversion H; subst. eexists; reflexivity.
  - pose proof (Forall_inv HF) as [Hf Hb]. pose proof (Forall_inv_tail HF) as HF'.
    cbn [map combine] in H |- *. destruct c as [n|off].
    + cbn [s_cont_var] in H. obindS H E. inversion H; subst; clear H.
      unfold cf_tot, cf_sorted in *. cbn [cf_offs] in *.
      destruct (IH HF' _ _ _ _ Hinv Hsc Hso Hle Hds Ha E) as (st1 & E1).
      exists st1. cbn [deser_cont_var]. rewrite E1. reflexivity.
    + rewrite deser_cont_var_cvar.
      pose proof (cf_shape_length _ _ Hsh) as Hlen.
      rewrite cf_next_offs by (rewrite map_length; exact Hlen).
      cbn [s_cont_var] in H. rewrite cf_next_offs in H by (rewrite map_length; exact Hlen).
      unfold cf_tot, cf_sorted in *. cbn [cf_offs] in *. cbn [cf_shape1] in Hc.
      pose proof (Forall_inv Hle) as Hoff. cbv beta in Hoff. pose proof (Forall_inv_tail Hle) as Hle'.
      rewrite (slice_len st (d_chain d) _ Ha) in H.
      destruct (cf_offs cfs) as [|o' r] eqn:Eoffs.
      * rewrite wrap32_small, sub32_small by lia.
        destruct (N.ltb_spec (scope - off) (scope - off)); [lia|].
        rewrite slice_firstn in H by lia. obindS H E1. obindS H E2.
        inversion H; subst; clear H.
        destruct (child_bwd _ _ _ _ _ _ _ Hb Hinv (leaf_ok_var f _ Hc) Hds Ha E1)
          as (Es & st2 & Ed).
        destruct (child_fwd _ _ _ _ _ _ _ _ _ _ Hf Hinv (leaf_ok_var f _ Hc) Es Ed)
          as (_ & _ & Hadv & _).
        pose proof (rinv_adv _ _ _ _ _ Hinv Hadv) as Hinv2.
        rewrite (slice_skipn _ _ _ _ _ Hadv), N.sub_diag in E2.
        destruct (IH HF' scope st2 d l Hinv2 Hsc I Hle') as (st3 & E3); [lia|lia|exact E2|].
        exists st3. rewrite Es. cbn [bind]. rewrite Ed. cbn [bind]. rewrite E3. reflexivity.
      * destruct Hso as [Hoo' Hso]. pose proof (Forall_inv Hle') as Ho'. cbv beta in Ho'.
        rewrite sub32_small by lia.
        destruct (N.ltb_spec (scope - off) (o' - off)); [discriminate H|].
        rewrite slice_firstn in H by lia. obindS H E1. obindS H E2.
        inversion H; subst; clear H.
        destruct (child_bwd _ _ _ _ _ _ _ Hb Hinv (leaf_ok_var f (o' - off) Hc)
                            ltac:(lia) ltac:(lia) E1) as (Es & st2 & Ed).
        destruct (child_fwd _ _ _ _ _ _ _ _ _ _ Hf Hinv (leaf_ok_var f _ Hc) Es Ed)
          as (_ & _ & Hadv & _).
        pose proof (rinv_adv _ _ _ _ _ Hinv Hadv) as Hinv2.
        rewrite (slice_skipn _ _ _ _ _ Hadv) in E2.
        replace (scope - off - (o' - off)) with (scope - o') in E2 by lia.
        destruct (IH HF' scope st2 d l Hinv2 Hsc Hso Hle') as (st3 & E3); [lia| |exact E2|].
        { destruct Hinv as ((_ & HF0) & _). rewrite (avail_adv _ _ _ _ HF0 Hadv). lia. }
        exists st3. rewrite Es. cbn [bind]. rewrite Ed. cbn [bind]. rewrite E3. reflexivity.
Qed.

(* ---- single types ---- *)
Ltac ifErr H :=
  match type of H with
  | (if ?c then Err else _) = OK _ => destruct c eqn:?; [discriminate H|]
  | (if ?c then None else _) = Some _ => destruct c eqn:?; [discriminate H|]
  end.

Lemma r2o_some {A} (r : res A) a : r2o r = Some a -> r = OK a.
Proof. destruct r; cbn; intros H; inversion H; reflexivity. Qed.

Lemma sim_uint w : sim_ty (TUint w).
Proof.
  split.
  - intros st d n st' Hinv Hok H. cbn [leaf_ok] in Hok. rewrite Hok. cbn [view_deser] in H.
    destruct (uint_width_ok w) eqn:Hw; [|discriminate H].
    bindOK H E. destruct a as [[bs st1] d1]. injection H as <- <-.
    destruct (read_fwd _ _ _ _ _ _ Hinv E) as (R1 & R2 & R3 & R4 & _).
    split; [exact R2|]. split; [exact R4|]. cbn [sdec]. rewrite Hw.
    rewrite (slice_len _ _ _ R2), N.eqb_refl, R3. reflexivity.
  - intros st d n Hinv Hok Ha H. cbn [leaf_ok] in Hok. rewrite Hok in H, Ha. cbn [sdec] in H.
    destruct (uint_width_ok w) eqn:Hw; [|discriminate H].
    rewrite (slice_len _ _ _ Ha), N.eqb_refl in H. injection H as <-.
    destruct (dr_read_bwd st d w Hinv ltac:(lia) Ha) as (st' & d' & E).
    exists st'. cbn [view_deser]. rewrite Hw. unfold slice. rewrite E. reflexivity.
Qed.

Lemma sim_bool : sim_ty TBool.
Proof.
  split.
  - intros st d n st' Hinv Hok H. cbn [leaf_ok] in Hok. rewrite Hok. cbn [view_deser] in H.
    bindOK H E. destruct a as [[b st1] d1]. ifErr H. injection H as <- <-.
    destruct (read_byte_fwd _ _ _ _ _ Hinv E) as (R1 & R2 & R3 & R4 & _).
    split; [exact R2|]. split; [exact R4|]. cbn [sdec].
    rewrite (slice_len _ _ _ R2). cbn [N.eqb Pos.eqb negb]. rewrite <- R3, Heqb0. reflexivity.
  - intros st d n Hinv Hok Ha H. cbn [leaf_ok] in Hok. rewrite Hok in H, Ha. cbn [sdec] in H.
    rewrite (slice_len _ _ _ Ha) in H. cbn [N.eqb Pos.eqb negb] in H. ifErr H.
    injection H as <-.
    destruct (read_byte_bwd st d Hinv ltac:(lia) Ha) as (st' & d' & E).
    exists st'. cbn [view_deser]. rewrite E. cbn [bind]. rewrite Heqb. reflexivity.
Qed.

Lemma sim_bytes k : sim_ty (TBytes k).
Proof.
  split.
  - intros st d n st' Hinv Hok H. cbn [leaf_ok] in Hok. rewrite Hok. cbn [view_deser] in H.
    bindOK H E. destruct a as [[bs st1] d1]. injection H as <- <-.
    destruct (read_fwd _ _ _ _ _ _ Hinv E) as (R1 & R2 & R3 & R4 & _).
    split; [exact R2|]. split; [exact R4|]. cbn [sdec].
    rewrite (slice_len _ _ _ R2), N.eqb_refl, R3. reflexivity.
  - intros st d n Hinv Hok Ha H. cbn [leaf_ok] in Hok. rewrite Hok in H, Ha. cbn [sdec] in H.
    rewrite (slice_len _ _ _ Ha), N.eqb_refl in H. injection H as <-.
    destruct (dr_read_bwd st d k Hinv ltac:(lia) Ha) as (st' & d' & E).
    exists st'. cbn [view_deser]. unfold slice. rewrite E. reflexivity.
Qed.

Lemma sim_root : sim_ty TRoot.
Proof.
  split.
  - intros st d n st' Hinv Hok H. cbn [leaf_ok] in Hok. rewrite Hok. cbn [view_deser] in H.
    bindOK H E. destruct a as [[bs st1] d1]. injection H as <- <-.
    destruct (read_fwd _ _ _ _ _ _ Hinv E) as (R1 & R2 & R3 & R4 & _).
    split; [exact R2|]. split; [exact R4|]. cbn [sdec].
    rewrite (slice_len _ _ _ R2), N.eqb_refl, R3. reflexivity.
  - intros st d n Hinv Hok Ha H. cbn [leaf_ok] in Hok. rewrite Hok in H, Ha. cbn [sdec] in H.
    rewrite (slice_len _ _ _ Ha), N.eqb_refl in H. injection H as <-.
    destruct (dr_read_bwd st d 32 Hinv ltac:(lia) Ha) as (st' & d' & E).
    exists st'. cbn [view_deser]. unfold slice. rewrite E. reflexivity.
Qed.

Lemma sim_bitvector k : sim_ty (TBitvector k).
Proof.
  split.
  - intros st d n st' Hinv _ H. cbn [view_deser] in H. ifErr H.
    bindOK H E. destruct a as [[bs st1] d1]. ifErr H. bindOK H E2.
    injection H as <- <-.
    destruct (read_fwd _ _ _ _ _ _ Hinv E) as (R1 & R2 & R3 & R4 & _).
    split; [exact R2|]. split; [exact R4|]. cbn [sdec].
    rewrite (slice_len _ _ _ R2), <- R3, Heqb, Heqb0, E2. reflexivity.
  - intros st d n Hinv _ Ha H. cbn [sdec] in H.
    rewrite (slice_len _ _ _ Ha) in H. ifErr H. ifErr H. apply r2o_some in H.
    destruct (dr_read_bwd st d (dr_scope d) Hinv ltac:(lia) Ha) as (st' & d' & E).
    exists st'. cbn [view_deser]. rewrite Heqb, E. cbn [bind]. fold (slice st (dr_scope d)).
    rewrite Heqb0, H. reflexivity.
Qed.

Lemma sim_bitlist k : sim_ty (TBitlist k).
Proof.
  split.
  - intros st d n st' Hinv _ H. cbn [view_deser] in H. ifErr H. ifErr H.
    bindOK H E. destruct a as [[bs st1] d1]. ifErr H.
    destruct (read_fwd _ _ _ _ _ _ Hinv E) as (R1 & R2 & R3 & R4 & _).
    split; [exact R2|]. split; [exact R4|]. cbn [sdec].
    rewrite (slice_len _ _ _ R2), <- R3, Heqb, Heqb0, Heqb1.
    destruct ((dr_scope d =? 1) && (N_of_byte (last bs b0) =? 1)).
    + bindOK H E2. injection H as <- <-. rewrite E2. reflexivity.
    + ifErr H. bindOK H E2. injection H as <- <-. rewrite E2. reflexivity.
  - intros st d n Hinv _ Ha H. cbn [sdec] in H.
    rewrite (slice_len _ _ _ Ha) in H. ifErr H. ifErr H. ifErr H.
    destruct (dr_read_bwd st d (dr_scope d) Hinv ltac:(lia) Ha) as (st' & d' & E).
    exists st'. cbn [view_deser]. rewrite Heqb, Heqb0, E. cbn [bind].
    fold (slice st (dr_scope d)). rewrite Heqb1.
    destruct ((dr_scope d =? 1) && (N_of_byte (last (slice st (dr_scope d)) b0) =? 1)).
    + apply r2o_some in H. rewrite H. reflexivity.
    + ifErr H. obindS H E2. apply r2o_some in E2. injection H as <-.
      rewrite E2. reflexivity.
Qed.
