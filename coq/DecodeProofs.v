(* DecodeProofs.v — property C03: deserialization ([View.view_deser], the model of the
   Deserialize methods of view/*.go over codec.DecodingReader) never panics, accepts only
   canonical SSZ encodings, and accepts every canonical encoding below 2^32 bytes.

   Contents
     0. spec vocabulary used in the statements: [sizes_ok]
     1. no panic                                    ([view_deser_no_panic], [C03_no_panic])
     2. reader algebra: [adv], [rinv]
     3. the slice decoder [sdec]
     4. simulation  view_deser <-> sdec             ([sim_fwd], [sim_bwd], [view_deserialize_sdec])
     5. bytes / bits / ser_parts structure
     6. canonicity and completeness of [sdec]       ([sdec_sound], [sdec_complete])
     7. top-level theorems and examples *)
From Coq Require Import PeanoNat ZArith ZifyN ZifyNat ZifyBool.
From Ztyp Require Import Base Bitlen Tree Types Spec Reader View Repr.
From Ztyp Require Import BitlenProofs SizeProofs MerkleProofs ReprProofs.
Open Scope N_scope.

#[local] Ltac Zify.zify_post_hook ::= Z.div_mod_to_equations.
Local Arguments N.pow : simpl never.
Local Arguments Nat.pow : simpl never.
Local Arguments N.of_nat : simpl never.
Local Arguments N.to_nat : simpl never.
Local Arguments N.div : simpl never.
Local Arguments N.modulo : simpl never.
Local Arguments N.log2_up : simpl never.
Local Arguments N.sub : simpl never.
Local Arguments N.mul : simpl never.
Local Arguments N.add : simpl never.
Local Opaque two64 two32.

(* ------------------------------------------------------------------------------------ *)
(** * 0. Spec vocabulary *)

(* Every type that occurs inside [t] (including [t]) has a maximal encoded length below 2^64,
   so that the uint64 size metadata of the Go constructors ([View.info]) is the spec's
   ([SizeProofs.info_sizes]).  For all constructors but [TList e 0] this follows from
   [spec_max_len t < 2^64] alone; a list of limit 0 hides the size of its element type. *)
Fixpoint sizes_ok (t : ty) : bool :=
  (spec_max_len t <? 2 ^ 64) &&
  match t with
  | TVector e _ | TList e _ => sizes_ok e
  | TContainer fs => forallb sizes_ok fs
  | TUnion _ opts => forallb sizes_ok opts
  | _ => true
  end.

(* ------------------------------------------------------------------------------------ *)
(** * 1. No panic *)

Section NoPanic.
Variable zh : nat -> chunk.

Lemma np_bind {A B} (r : res A) (f : A -> res B) :
  r <> Panic -> (forall a, f a <> Panic) -> bind r f <> Panic.
Proof. intros Hr Hf. destruct r; cbn [bind]; [apply Hf|discriminate|congruence]. Qed.

Lemma dr_read_np st d k : dr_read st d k <> Panic.
Proof. unfold dr_read. repeat (destruct (_ : bool)); discriminate. Qed.

Lemma dr_sub_scope_np st d k : dr_sub_scope st d k <> Panic.
Proof. unfold dr_sub_scope. destruct (_ : bool); discriminate. Qed.

Lemma dr_read_byte_np st d : dr_read_byte st d <> Panic.
Proof.
  unfold dr_read_byte. apply np_bind; [apply dr_read_np|]. intros [[bs st'] d']. discriminate.
Qed.

Lemma dr_read_u32_np st d : dr_read_u32 st d <> Panic.
Proof.
  unfold dr_read_u32. apply np_bind; [apply dr_read_np|]. intros [[bs st'] d']. discriminate.
Qed.

(* SubtreeFillToContents never panics up to the depth of the zero-hash table *)
Lemma fill_to_contents_np d ns : N.of_nat d <= 64 -> fill_to_contents zh ns d <> Panic.
Proof.
  intros Hd. destruct (N.eq_dec (N.of_nat d) 64) as [E|NE].
  - destruct ns as [|n0 rest].
    + rewrite fill_to_contents_nil_ok by exact Hd. discriminate.
    + rewrite fill_to_contents_cons, shl64_1_high by lia.
      destruct (N.ltb_spec 0 (N.of_nat (length (n0 :: rest)))) as [_|Hge]; [discriminate|].
      cbn [length] in Hge. lia.
  - apply fill_to_contents_no_panic. lia.
Qed.

Lemma contents_depth_le64 t : contents_depth t <= 64.
Proof. destruct t; cbn [contents_depth]; try lia; try apply cover_depth_le64.
  - destruct (is_basic_elem t); apply cover_depth_le64.
  - destruct (is_basic_elem t); apply cover_depth_le64.
Qed.

Lemma fill_contents_np ns t : fill_contents zh ns t <> Panic.
Proof.
  unfold fill_contents. apply fill_to_contents_np. unfold nat_of. rewrite N2Nat.id.
  apply contents_depth_le64.
Qed.

Definition dec_np (dec : decoder) : Prop := forall st d, dec st d <> Panic.

Lemma deser_fixed_series_np dec : dec_np dec ->
  forall count size st d, deser_fixed_series dec count size st d <> Panic.
Proof.
  intros Hdec. induction count as [|k IH]; intros size st d; cbn [deser_fixed_series]; [discriminate|].
  apply np_bind; [apply dr_sub_scope_np|]. intros [st1 sd].
  apply np_bind; [apply Hdec|]. intros [n st2].
  apply np_bind; [apply IH|]. intros [ns st3]. discriminate.
Qed.

Lemma read_offsets_np : forall count prev st d, read_offsets count prev st d <> Panic.
Proof.
  induction count as [|k IH]; intros prev st d; cbn [read_offsets]; [discriminate|].
  apply np_bind; [apply dr_read_u32_np|]. intros [[off st1] d1].
  destruct (off <? prev); [discriminate|].
  apply np_bind; [apply IH|]. intros [[offs st2] d2]. discriminate.
Qed.

Lemma deser_var_elems_np dec : dec_np dec ->
  forall offs scope st d, deser_var_elems dec offs scope st d <> Panic.
Proof.
  intros Hdec. induction offs as [|o rest IH]; intros scope st d; cbn [deser_var_elems];
    [discriminate|].
  apply np_bind; [apply dr_sub_scope_np|]. intros [st1 sd].
  apply np_bind; [apply Hdec|]. intros [n st2].
  apply np_bind; [apply IH|]. intros [ns st3]. discriminate.
Qed.

Lemma deser_cont_fixed_np : forall (fs : list (tinfo * decoder)),
  Forall (fun p => dec_np (snd p)) fs ->
  forall first fp prev scope st d, deser_cont_fixed fs first fp prev scope st d <> Panic.
Proof.
  induction fs as [|[i dec] rest IH]; intros HF first fp prev scope st d;
    cbn [deser_cont_fixed]; [discriminate|].
  pose proof (Forall_inv HF) as Hdec. pose proof (Forall_inv_tail HF) as Hrest. cbn [snd] in Hdec.
  destruct (ti_fixed i).
  - apply np_bind; [apply dr_sub_scope_np|]. intros [st1 sd].
    apply np_bind; [apply Hdec|]. intros [n st2].
    apply np_bind; [apply IH; exact Hrest|]. intros [[cs st3] d3]. discriminate.
  - apply np_bind; [apply dr_read_u32_np|]. intros [[off st1] d1].
    destruct (off <? prev); [discriminate|].
    destruct (scope <? off); [discriminate|].
    destruct (first && negb (off =? fp)); [discriminate|].
    apply np_bind; [apply IH; exact Hrest|]. intros [[cs st3] d3]. discriminate.
Qed.

Lemma deser_cont_var_np : forall (fs : list (cfield * decoder)),
  Forall (fun p => dec_np (snd p)) fs ->
  forall scope st d, deser_cont_var fs scope st d <> Panic.
Proof.
  induction fs as [|[c dec] rest IH]; intros HF scope st d; cbn [deser_cont_var]; [discriminate|].
  pose proof (Forall_inv HF) as Hdec. pose proof (Forall_inv_tail HF) as Hrest. cbn [snd] in Hdec.
  destruct c as [n|off].
  - apply np_bind; [apply IH; exact Hrest|]. intros [ns st1]. discriminate.
  - apply np_bind; [apply dr_sub_scope_np|]. intros [st1 sd].
    apply np_bind; [apply Hdec|]. intros [n st2].
    apply np_bind; [apply IH; exact Hrest|]. intros [ns st3]. discriminate.
Qed.

Lemma Forall_combine_snd {A B} (P : B -> Prop) : forall (l : list A) (l' : list B),
  Forall P l' -> Forall (fun p => P (snd p)) (combine l l').
Proof.
  induction l as [|x l IH]; intros l' HF; [constructor|].
  destruct l' as [|y l']; [constructor|]. cbn [combine].
  constructor; [exact (Forall_inv HF)|apply IH, (Forall_inv_tail HF)].
Qed.

Lemma Forall_map' {A B} (f : A -> B) (P : B -> Prop) l :
  Forall (fun x => P (f x)) l -> Forall P (map f l).
Proof. induction 1; cbn [map]; constructor; assumption. Qed.

(* the option selected by an in-range selector exists: the [Panic] of [pick] is dead code *)
Lemma union_pick_in_range none (opts : list ty) sel :
  (wrap8 (union_count none opts) <=? sel) = false -> none && (sel =? 0) = false ->
  (nat_of (if none then sel - 1 else sel) < length opts)%nat.
Proof.
  intros Hsel Hnone. apply N.leb_gt in Hsel. unfold wrap8, union_count in Hsel.
  assert (Hm : forall x, x mod 256 <= x) by (intros x; apply N.mod_le; lia).
  unfold nat_of. destruct none.
  - cbn [andb] in Hnone. apply N.eqb_neq in Hnone.
    specialize (Hm (N.of_nat (length opts) + 1)). lia.
  - specialize (Hm (N.of_nat (length opts) + 0)). lia.
Qed.

Theorem view_deser_no_panic : forall t st d, view_deser zh t st d <> Panic.
Proof.
  induction t as [w| |n| |n|n|e n IHe|e n IHe|fs IHfs|none opts IHopts] using ty_ind';
    intros st d.
  - cbn [view_deser]. destruct (uint_width_ok w); [|discriminate].
    apply np_bind; [apply dr_read_np|]. intros [[bs st1] d1]. discriminate.
  - cbn [view_deser]. apply np_bind; [apply dr_read_byte_np|]. intros [[b st1] d1].
    destruct (1 <? b); discriminate.
  - cbn [view_deser]. apply np_bind; [apply dr_read_np|]. intros [[bs st1] d1]. discriminate.
  - cbn [view_deser]. apply np_bind; [apply dr_read_np|]. intros [[bs st1] d1]. discriminate.
  - cbn [view_deser]. destruct (negb _); [discriminate|].
    apply np_bind; [apply dr_read_np|]. intros [[bs st1] d1].
    destruct (_ && _); [discriminate|].
    apply np_bind; [apply fill_contents_np|]. intros root. discriminate.
  - cbn [view_deser]. destruct (dr_scope d =? 0); [discriminate|].
    destruct (_ <? _); [discriminate|].
    apply np_bind; [apply dr_read_np|]. intros [[bs st1] d1].
    destruct (_ =? 0); [discriminate|].
    destruct (_ && _); [cbn [default_node bind]; discriminate|].
    destruct (n <? _); [discriminate|].
    apply np_bind; [apply fill_contents_np|]. intros c. discriminate.
  - cbn [view_deser]. destruct (is_basic_elem e).
    + destruct (negb _); [discriminate|].
      apply np_bind; [apply dr_read_np|]. intros [[bs st1] d1].
      apply np_bind; [apply fill_contents_np|]. intros root. discriminate.
    + destruct (ti_fixed (info e)).
      * destruct (negb _); [discriminate|].
        apply np_bind; [apply deser_fixed_series_np; exact IHe|]. intros [ns st1].
        apply np_bind; [apply fill_contents_np|]. intros root. discriminate.
      * apply np_bind; [apply read_offsets_np|]. intros [[offs st1] d1].
        destruct (negb _); [discriminate|].
        apply np_bind; [apply deser_var_elems_np; exact IHe|]. intros [ns st2].
        apply np_bind; [apply fill_contents_np|]. intros root. discriminate.
  - cbn [view_deser]. destruct (is_basic_elem e).
    + destruct (n <? _); [discriminate|]. destruct (negb _); [discriminate|].
      destruct (_ =? 0); [cbn [default_node bind]; discriminate|].
      apply np_bind; [apply dr_read_np|]. intros [[bs st1] d1].
      apply np_bind; [apply fill_contents_np|]. intros c. discriminate.
    + destruct (dr_scope d =? 0); [cbn [default_node bind]; discriminate|].
      destruct (ti_fixed (info e)).
      * destruct (n <? _); [discriminate|]. destruct (negb _); [discriminate|].
        apply np_bind; [apply deser_fixed_series_np; exact IHe|]. intros [ns st1].
        apply np_bind; [apply fill_contents_np|]. intros c. discriminate.
      * apply np_bind; [apply dr_read_u32_np|]. intros [[first st1] d1].
        destruct (negb _); [discriminate|]. destruct (n <? _); [discriminate|].
        destruct (_ || _); [discriminate|].
        apply np_bind; [apply read_offsets_np|]. intros [[offs st2] d2].
        apply np_bind; [apply deser_var_elems_np; exact IHe|]. intros [ns st3].
        apply np_bind; [apply fill_contents_np|]. intros c. discriminate.
  - cbn [view_deser]. destruct (_ || _); [discriminate|].
    assert (Hdecs : Forall dec_np (map (view_deser zh) fs)).
    { apply Forall_map'. exact IHfs. }
    apply np_bind; [apply deser_cont_fixed_np, Forall_combine_snd, Hdecs|]. intros [[cfs st1] d1].
    apply np_bind; [apply deser_cont_var_np, Forall_combine_snd, Hdecs|]. intros [ns st2].
    apply np_bind; [apply fill_contents_np|]. intros root. discriminate.
  - cbn [view_deser]. destruct (dr_scope d =? 0); [discriminate|].
    apply np_bind; [apply dr_read_byte_np|]. intros [[sel st1] d1].
    destruct (wrap8 (union_count none opts) <=? sel) eqn:Hsel; [discriminate|].
    destruct (none && (sel =? 0)) eqn:Hnone.
    + destruct (negb _); discriminate.
    + pose proof (union_pick_in_range none opts sel Hsel Hnone) as Hk.
      change (pick_ty Panic (fun o =>
                if ti_fixed (info o) && negb (ti_size (info o) =? dr_scope d - 1) then Err else
                do r <- view_deser zh o st1 d1; let '(c, st2) := r in
                OK (Pair c (Leaf (pad32 [byte_of_N sel])), st2))
              opts (nat_of (if none then sel - 1 else sel)) <> Panic).
      rewrite pick_ty_nth_error.
      destruct (nth_error opts (nat_of (if none then sel - 1 else sel))) as [o|] eqn:Eo.
      * destruct (ti_fixed (info o) && negb (ti_size (info o) =? dr_scope d - 1)); [discriminate|].
        apply np_bind; [|intros [c st2]; discriminate].
        rewrite Forall_forall in IHopts. apply IHopts. eapply nth_error_In, Eo.
      * apply nth_error_None in Eo. lia.
Qed.

Theorem view_deserialize_no_panic t bs : view_deserialize zh t bs <> Panic.
Proof.
  unfold view_deserialize, view_deserialize_scoped, new_reader.
  apply np_bind; [apply view_deser_no_panic|]. intros r. discriminate.
Qed.

End NoPanic.
