(* Spec.v — the SSZ specification, written naively so that it can be read against the
   SSZ document (simple-serialize.md): sizes, serialization, merkleization, hash-tree-root.
   Nothing here mirrors ztyp's control flow. *)
From Ztyp Require Import Base Types.
Open Scope N_scope.

Definition sumN (l : list N) : N := fold_right N.add 0 l.
Definition lenN {A} (l : list A) : N := N.of_nat (length l).

(* ---- sizes ---- *)
Fixpoint spec_is_fixed (t : ty) : bool :=
  match t with
  | TUint _ | TBool | TBytes _ | TRoot | TBitvector _ => true
  | TBitlist _ | TList _ _ | TUnion _ _ => false
  | TVector e _ => spec_is_fixed e
  | TContainer fs => forallb spec_is_fixed fs
  end.

(* byte length of a fixed-size type (0 for variable-size types) *)
Fixpoint spec_fixed_len (t : ty) : N :=
  match t with
  | TUint w => w
  | TBool => 1
  | TBytes n => n
  | TRoot => 32
  | TBitvector n => (n + 7) / 8
  | TVector e n => if spec_is_fixed e then n * spec_fixed_len e else 0
  | TContainer fs => if forallb spec_is_fixed fs then sumN (map spec_fixed_len fs) else 0
  | _ => 0
  end.

Definition minN (l : list N) : N := match l with [] => 0 | x :: r => fold_right N.min x r end.
Definition maxN (l : list N) : N := fold_right N.max 0 l.

(* minimum / maximum encoded length over all values of the type (unbounded N) *)
Fixpoint spec_min_len (t : ty) : N :=
  match t with
  | TUint w => w | TBool => 1 | TBytes n => n | TRoot => 32
  | TBitvector n => (n + 7) / 8
  | TBitlist _ => 1
  | TVector e n => if spec_is_fixed e then n * spec_fixed_len e else n * (4 + spec_min_len e)
  | TList _ _ => 0
  | TContainer fs =>
    sumN (map (fun f => if spec_is_fixed f then spec_fixed_len f else 4 + spec_min_len f) fs)
  | TUnion none opts => 1 + (if none then 0 else minN (map spec_min_len opts))
  end.
Fixpoint spec_max_len (t : ty) : N :=
  match t with
  | TUint w => w | TBool => 1 | TBytes n => n | TRoot => 32
  | TBitvector n => (n + 7) / 8
  | TBitlist n => n / 8 + 1
  | TVector e n => if spec_is_fixed e then n * spec_fixed_len e else n * (4 + spec_max_len e)
  | TList e n => if spec_is_fixed e then n * spec_fixed_len e else n * (4 + spec_max_len e)
  | TContainer fs =>
    sumN (map (fun f => if spec_is_fixed f then spec_fixed_len f else 4 + spec_max_len f) fs)
  | TUnion _ opts => 1 + maxN (map spec_max_len opts)
  end.

(* ---- serialization ---- *)
(* a series of parts, each fixed-size (inlined) or variable-size (offset + heap) *)
Definition part := (bool * list byte)%type.
Definition part_fixed_size (p : part) : N := if fst p then lenN (snd p) else 4.
Fixpoint ser_parts_go (ps : list part) (off : N) : list byte * list byte :=
  match ps with
  | [] => ([], [])
  | (true, bs) :: r => let '(f, v) := ser_parts_go r off in (bs ++ f, v)
  | (false, bs) :: r => let '(f, v) := ser_parts_go r (off + lenN bs) in
                        (le_bytes 4 off ++ f, bs ++ v)
  end.
Definition ser_parts (ps : list part) : list byte :=
  let '(f, v) := ser_parts_go ps (sumN (map part_fixed_size ps)) in f ++ v.

(* a bitlist: the bits, then the delimiter bit *)
Definition ser_bitlist (bits : list bool) : list byte := bits_to_bytes (bits ++ [true]).

Fixpoint spec_ser (t : ty) (v : val) {struct t} : list byte :=
  match t, v with
  | TUint w, VUint n => le_bytes (nat_of w) n
  | TBool, VBool b => [byte_of_N (if b then 1 else 0)]
  | TBytes _, VBytes bs => bs
  | TRoot, VBytes bs => bs
  | TBitvector _, VBits bs => bits_to_bytes bs
  | TBitlist _, VBits bs => ser_bitlist bs
  | TVector e _, VSeq vs => ser_parts (map (fun x => (spec_is_fixed e, spec_ser e x)) vs)
  | TList e _, VSeq vs => ser_parts (map (fun x => (spec_is_fixed e, spec_ser e x)) vs)
  | TContainer fs, VCont vs =>
    ser_parts
      ((fix go (fs : list ty) (vs : list val) : list part :=
          match fs, vs with
          | f :: fs', x :: vs' => (spec_is_fixed f, spec_ser f x) :: go fs' vs'
          | _, _ => []
          end) fs vs)
  | TUnion none opts, VUnion sel ov =>
    byte_of_N sel ::
    match ov with
    | None => []
    | Some x =>
      (fix pick (os : list ty) (k : nat) : list byte :=
         match os, k with
         | [], _ => []
         | o :: _, O => spec_ser o x
         | _ :: os', S k' => pick os' k'
         end) opts (nat_of (if none then sel - 1 else sel))
    end
  | _, _ => []
  end.

(* ---- merkleization ---- *)
Section WithHash.
Variable H : chunk -> chunk -> chunk.

Notation zero_hash := (zero_hash H).

(* The document's definition: pad the chunks with zero chunks to 2^d and hash the full
   binary tree.  (Only read and reasoned about; never run for large d.) *)
Fixpoint merkle_full (d : nat) (cs : list chunk) : chunk :=
  match d with
  | O => hd zero_chunk cs
  | S d' => H (merkle_full d' (firstn (Nat.pow 2 d') cs)) (merkle_full d' (skipn (Nat.pow 2 d') cs))
  end.

(* The same root with virtual padding: an empty right part is the zero hash of its
   height.  This is the form that is run.  [merkle_virtual_eq_full] relates the two. *)
Fixpoint merkle_virtual (d : nat) (cs : list chunk) : chunk :=
  match cs with
  | [] => zero_hash d
  | c0 :: _ =>
    match d with
    | O => c0
    | S d' =>
      let half := 2 ^ N.of_nat d' in
      if lenN cs <=? half then H (merkle_virtual d' cs) (zero_hash d')
      else H (merkle_virtual d' (firstn (nat_of half) cs))
             (merkle_virtual d' (skipn (nat_of half) cs))
    end
  end.

(* smallest d with 2^d >= n (0 for n <= 1) *)
Definition depth_for (n : N) : nat := nat_of (N.log2_up n).

(* merkleize(chunks, limit): limit = chunk limit (for vectors/containers: the chunk count) *)
Definition merkleize_spec (cs : list chunk) (limit : N) : chunk :=
  merkle_virtual (depth_for limit) cs.

Definition mix_in_length (root : chunk) (len : N) : chunk := H root (pad32 (le_bytes 32 len)).
Definition mix_in_selector (root : chunk) (sel : N) : chunk := H root (pad32 (le_bytes 32 sel)).

(* pack: serialized basic values / bits into 32-byte chunks, zero padded *)
Definition pack (bs : list byte) : list chunk := chunkify bs.
Definition pack_bits (bits : list bool) : list chunk := chunkify (bits_to_bytes bits).

Definition spec_basic (t : ty) : bool :=
  match t with TUint _ | TBool => true | _ => false end.

Definition chunk_count_basic (e : ty) (n : N) : N := (n * spec_fixed_len e + 31) / 32.

Fixpoint spec_htr (t : ty) (v : val) {struct t} : chunk :=
  match t, v with
  | TUint _, _ | TBool, _ => pad32 (spec_ser t v)
  | TBytes _, VBytes bs => pad32 bs
  | TRoot, VBytes bs => pad32 bs
  | TBitvector n, VBits bs => merkleize_spec (pack_bits bs) ((n + 255) / 256)
  | TBitlist n, VBits bs =>
    mix_in_length (merkleize_spec (pack_bits bs) ((n + 255) / 256)) (lenN bs)
  | TVector e n, VSeq vs =>
    if spec_basic e then
      merkleize_spec (pack (flat_map (spec_ser e) vs)) (chunk_count_basic e n)
    else merkleize_spec (map (spec_htr e) vs) n
  | TList e n, VSeq vs =>
    if spec_basic e then
      mix_in_length (merkleize_spec (pack (flat_map (spec_ser e) vs)) (chunk_count_basic e n))
                    (lenN vs)
    else mix_in_length (merkleize_spec (map (spec_htr e) vs) n) (lenN vs)
  | TContainer fs, VCont vs =>
    merkleize_spec
      ((fix go (fs : list ty) (vs : list val) : list chunk :=
          match fs, vs with
          | f :: fs', x :: vs' => spec_htr f x :: go fs' vs'
          | _, _ => []
          end) fs vs)
      (lenN fs)
  | TUnion none opts, VUnion sel ov =>
    mix_in_selector
      match ov with
      | None => zero_chunk
      | Some x =>
        (fix pick (os : list ty) (k : nat) : chunk :=
           match os, k with
           | [], _ => zero_chunk
           | o :: _, O => spec_htr o x
           | _ :: os', S k' => pick os' k'
           end) opts (nat_of (if none then sel - 1 else sel))
      end
      sel
  | _, _ => zero_chunk
  end.

End WithHash.
