(* IterProofs.v — proofs for property C17 (read-only iterators, index iterators, getters)
   about the model files View.v (iter_seek, node_iter_next etc.) and Iter.v.

   ==== small specification vocabulary used by Props/C17.v ====

   [index_path depth i]   the [depth] path bits of bottom position i, most significant first
                          (false = left); equals [g_path (2^depth + i)] for depth < 64
                          ([index_path_g_path]).
   [bottom n depth i]     bottom node number i of the subtree of depth [depth] below n:
                          [get_path n (index_path depth i)] = [getter n (2^depth + i)]
                          ([bottom_getter]); [Err] when a leaf sits on the way.
   [steps_of f rs extra]  how a drained iterator renders a list of per-index results
                          [rs : list (res A)]: [f a] for every [OK a] up to the first
                          failure, which is rendered [IErr] / [IPanic] and ends the drain;
                          if there is no failure, [extra] times [IEnd] follow.
   [is_comp s]            the step s is a component ([IVal] or [INode]), not end / error.
   [packed_elem], [bit_elem], [node_elem]  the result expected for index k of a packed
                          series / a bitfield / a series of subtrees. *)
From Coq Require Import List NArith ZArith Bool Lia PeanoNat ZifyN ZifyNat ZifyBool.
From Ztyp Require Import Base Bitlen Tree Types Spec View Iter Repr BitlenProofs MerkleProofs.
Import ListNotations.
Open Scope N_scope.

(* ------------------------------------------------------------------------------------- *)
(* spec definitions                                                                      *)
(* ------------------------------------------------------------------------------------- *)

Definition index_path (depth i : N) : list bool :=
  map (fun k => N.testbit i (depth - 1 - N.of_nat k)) (seq 0 (N.to_nat depth)).

Definition bottom (n : node) (depth i : N) : res node := get_path n (index_path depth i).

Fixpoint steps_of {A} (f : A -> istep) (rs : list (res A)) (extra : nat) : list istep :=
  match rs with
  | [] => repeat IEnd extra
  | OK a :: r => f a :: steps_of f r extra
  | Err :: _ => [IErr]
  | Panic :: _ => [IPanic]
  end.

Definition is_comp (s : istep) : bool :=
  match s with IVal _ | INode _ _ => true | _ => false end.

(* element k of a packed series of basic type e stored below [anchor] *)
Definition packed_elem (e : ty) (anchor : node) (depth : N) (k : nat) : res val :=
  let p := per_node e in
  do b <- bottom anchor depth (N.of_nat k / p); do c <- leaf_chunk b;
  packed_val e c (N.of_nat k mod p).

(* bit k of a bitfield stored below [anchor] *)
Definition bit_elem (anchor : node) (depth : N) (k : nat) : res bool :=
  do b <- bottom anchor depth (N.of_nat k / 256); do c <- leaf_chunk b;
  OK (chunk_get_bit c (N.of_nat k mod 256)).

(* subtree k of a series of subtrees, typed by [tys] (elemReadonlyIter / fieldReadonlyIter) *)
Definition node_elem (tys : nat -> option ty) (anchor : node) (depth : N) (k : nat) : res istep :=
  do m <- bottom anchor depth (N.of_nat k);
  match tys k with
  | Some t => if view_from_backing_ok t m then OK (INode t m) else Err
  | None => Err
  end.

(* ------------------------------------------------------------------------------------- *)
(* 0. small list / result helpers                                                        *)
(* ------------------------------------------------------------------------------------- *)

Local Ltac Zify.zify_post_hook ::= Z.div_mod_to_equations.

Lemma nth_error_list_set_eq {A} : forall (l : list A) i x, (i < length l)%nat ->
  nth_error (list_set l i x) i = Some x.
Proof.
  induction l as [|y l IH]; intros i x Hi; cbn in Hi; [lia|].
  destruct i; cbn; [reflexivity|]. apply IH. lia.
Qed.

Lemma nth_error_list_set_neq {A} : forall (l : list A) i j x, i <> j ->
  nth_error (list_set l i x) j = nth_error l j.
Proof.
  induction l as [|y l IH]; intros i j x Hij; [destruct i; reflexivity|].
  destruct i, j; cbn; try reflexivity; try lia. apply IH. lia.
Qed.

Lemma list_set_length' {A} : forall (l : list A) i x, length (list_set l i x) = length l.
Proof. induction l as [|y l IH]; intros [|i] x; cbn; auto. Qed.

Lemma mapM_nth {A B} (f : A -> res B) : forall l ys i y,
  mapM f l = OK ys -> nth_error ys i = Some y ->
  exists x, nth_error l i = Some x /\ f x = OK y.
Proof.
  induction l as [|x l IH]; intros ys i y Hm Hn; cbn in Hm.
  - injection Hm as <-. destruct i; discriminate.
  - destruct (f x) as [b| |] eqn:Hf; cbn in Hm; try discriminate.
    destruct (mapM f l) as [bs| |] eqn:Hl; cbn in Hm; try discriminate.
    injection Hm as <-. destruct i; cbn in Hn.
    + injection Hn as <-. exists x. split; [reflexivity|exact Hf].
    + apply (IH bs i y eq_refl Hn).
Qed.

Lemma mapM_all_ok {A B} (f : A -> res B) (g : A -> B) : forall l,
  (forall x, In x l -> f x = OK (g x)) -> mapM f l = OK (map g l).
Proof.
  induction l as [|x l IH]; intros Hall; [reflexivity|].
  cbn. rewrite (Hall x (or_introl eq_refl)). cbn. rewrite IH; [reflexivity|].
  intros y Hy. apply Hall. now right.
Qed.

Lemma mapM_length {A B} (f : A -> res B) : forall l ys, mapM f l = OK ys -> length ys = length l.
Proof.
  induction l as [|x l IH]; intros ys Hm; cbn in Hm.
  - now injection Hm as <-.
  - destruct (f x); cbn in Hm; try discriminate.
    destruct (mapM f l) eqn:Hl; cbn in Hm; try discriminate.
    injection Hm as <-. cbn. f_equal. now apply IH.
Qed.

(* ------------------------------------------------------------------------------------- *)
(* 1. paths, ancestors                                                                   *)
(* ------------------------------------------------------------------------------------- *)

Definition child (b : bool) (n : node) : res node :=
  match n with Leaf _ => Err | Pair l r => OK (if b then r else l) end.

Lemma node_left_child n : node_left n = child false n.
Proof. destruct n; reflexivity. Qed.
Lemma node_right_child n : node_right n = child true n.
Proof. destruct n; reflexivity. Qed.

Lemma get_path_nil' n : get_path n [] = OK n.
Proof. destruct n; reflexivity. Qed.

Lemma get_path_not_panic : forall p n, get_path n p <> Panic.
Proof.
  induction p as [|b p IH]; intros n.
  - rewrite get_path_nil'. discriminate.
  - destruct n as [c|l r]; cbn; [discriminate|apply IH].
Qed.

Lemma get_path_snoc : forall p n b,
  get_path n (p ++ [b]) = do a <- get_path n p; child b a.
Proof.
  induction p as [|x p IH]; intros n b.
  - rewrite get_path_nil'. cbn [app bind]. destruct n as [c|l r]; cbn; [reflexivity|].
    apply get_path_nil'.
  - destruct n as [c|l r]; cbn; [reflexivity|apply IH].
Qed.

(* the ancestor at depth k of bottom position j (only the top k of the depth bits of j matter) *)
Fixpoint anc (anchor : node) (depth j : N) (k : nat) : res node :=
  match k with
  | O => OK anchor
  | S k' => do a <- anc anchor depth j k'; child (N.testbit j (depth - 1 - N.of_nat k')) a
  end.

Lemma anc_path anchor depth j k :
  anc anchor depth j k =
  get_path anchor (map (fun i => N.testbit j (depth - 1 - N.of_nat i)) (seq 0 k)).
Proof.
  induction k as [|k IH]; [symmetry; apply get_path_nil'|].
  rewrite seq_S, map_app. cbn [map Nat.add]. rewrite get_path_snoc, <- IH. reflexivity.
Qed.

Lemma anc_bottom anchor depth j : anc anchor depth j (N.to_nat depth) = bottom anchor depth j.
Proof. apply anc_path. Qed.

Lemma bottom_not_panic anchor depth j : bottom anchor depth j <> Panic.
Proof. apply get_path_not_panic. Qed.

Lemma anc_not_panic anchor depth j k : anc anchor depth j k <> Panic.
Proof. rewrite anc_path. apply get_path_not_panic. Qed.

Lemma anc_err_mono anchor depth j : forall k k', (k <= k')%nat ->
  anc anchor depth j k = Err -> anc anchor depth j k' = Err.
Proof.
  intros k k' Hle He. induction Hle as [|k' Hle IH]; [exact He|].
  cbn [anc]. rewrite IH. reflexivity.
Qed.

Lemma anc_ext anchor depth j j' : forall k, (k <= N.to_nat depth)%nat ->
  (forall b, depth - N.of_nat k <= b -> b < depth -> N.testbit j b = N.testbit j' b) ->
  anc anchor depth j k = anc anchor depth j' k.
Proof.
  induction k as [|k IH]; intros Hk Hb; [reflexivity|].
  cbn [anc]. rewrite IH by (try lia; intros b H1 H2; apply Hb; lia).
  rewrite (Hb (depth - 1 - N.of_nat k)) by lia. reflexivity.
Qed.

Lemma index_path_g_path d i : d < 64 -> i < 2 ^ d -> index_path d i = g_path (2 ^ d + i).
Proof. intros Hd Hi. symmetry. apply g_path_spec; assumption. Qed.

Lemma bottom_getter n d i : d < 64 -> i < 2 ^ d -> bottom n d i = getter n (2 ^ d + i).
Proof. intros Hd Hi. unfold bottom, getter. now rewrite index_path_g_path. Qed.

(* ------------------------------------------------------------------------------------- *)
(* 2. trailing zeros: i xor (i-1)                                                        *)
(* ------------------------------------------------------------------------------------- *)

Fixpoint tzp (p : positive) : N :=
  match p with xO p' => N.succ (tzp p') | _ => 0 end.
Definition tz (j : N) : N := match j with 0 => 0 | N.pos p => tzp p end.

Lemma tzp_spec p :
  let j := N.pos p in let t := tzp p in
  N.testbit j t = true /\
  (forall b, b < t -> N.testbit j b = false /\ N.testbit (j - 1) b = true) /\
  N.testbit (j - 1) t = false /\
  (forall b, t < b -> N.testbit (j - 1) b = N.testbit j b).
Proof.
  induction p as [p IH|p IH|]; cbn zeta; cbn [tzp].
  - (* 2a+1 *)
    change (N.pos p~1) with (2 * N.pos p + 1).
    replace (2 * N.pos p + 1 - 1) with (2 * N.pos p) by lia.
    split; [apply N.testbit_odd_0|]. split; [intros b Hb; lia|].
    split; [apply N.testbit_even_0|].
    intros b Hb. destruct (N.zero_or_succ b) as [->|[b' ->]]; [lia|].
    now rewrite N.testbit_even_succ, N.testbit_odd_succ by lia.
  - (* 2a *)
    cbn zeta in IH. destruct IH as (I1 & I2 & I3 & I4).
    change (N.pos p~0) with (2 * N.pos p).
    replace (2 * N.pos p - 1) with (2 * (N.pos p - 1) + 1) by lia.
    split; [rewrite N.testbit_even_succ by lia; exact I1|].
    split; [|split].
    + intros b Hb. destruct (N.zero_or_succ b) as [->|[b' ->]].
      * split; [apply N.testbit_even_0|apply N.testbit_odd_0].
      * rewrite N.testbit_even_succ, N.testbit_odd_succ by lia. apply I2. lia.
    + rewrite N.testbit_odd_succ by lia. exact I3.
    + intros b Hb. destruct (N.zero_or_succ b) as [->|[b' ->]]; [lia|].
      rewrite N.testbit_even_succ, N.testbit_odd_succ by lia. apply I4. lia.
  - change (N.pos 1 - 1) with 0.
    split; [reflexivity|]. split; [intros b Hb; lia|]. split; [reflexivity|].
    intros b Hb. destruct (N.zero_or_succ b) as [->|[b' ->]]; [lia|].
    change 1 with (2 * 0 + 1). rewrite N.testbit_odd_succ by lia.
    now rewrite !N.bits_0.
Qed.

Lemma tz_spec j : j <> 0 ->
  N.testbit j (tz j) = true /\
  (forall b, b < tz j -> N.testbit j b = false /\ N.testbit (j - 1) b = true) /\
  N.testbit (j - 1) (tz j) = false /\
  (forall b, tz j < b -> N.testbit (j - 1) b = N.testbit j b).
Proof. destruct j as [|p]; [congruence|]. intros _. apply (tzp_spec p). Qed.

Lemma tz_lt j d : j <> 0 -> j < 2 ^ d -> tz j < d.
Proof.
  intros Hj Hd. destruct (tz_spec j Hj) as (H1 & _).
  destruct (N.lt_ge_cases (tz j) d) as [H|H]; [exact H|].
  rewrite (testbit_small j d (tz j) Hd H) in H1. discriminate.
Qed.

Lemma lxor_pred_ones j : j <> 0 -> N.lxor j (j - 1) = N.ones (tz j + 1).
Proof.
  intros Hj. destruct (tz_spec j Hj) as (H1 & H2 & H3 & H4).
  apply N.bits_inj. intros b. rewrite N.lxor_spec.
  destruct (N.lt_trichotomy b (tz j)) as [Hb|[->|Hb]].
  - destruct (H2 b Hb) as [-> ->]. rewrite N.ones_spec_low by lia. reflexivity.
  - rewrite H1, H3. rewrite N.ones_spec_low by lia. reflexivity.
  - rewrite (H4 b Hb), N.ones_spec_high by lia. apply xorb_nilpotent.
Qed.

Lemma size_ones k : N.size (N.ones (k + 1)) = k + 1.
Proof.
  rewrite N.ones_equiv.
  assert (H2 : 2 <= 2 ^ (k + 1)).
  { change 2 with (2 ^ 1) at 1. apply N.pow_le_mono_r; lia. }
  rewrite N.size_log2 by lia.
  rewrite N.log2_pred_pow2 by lia. lia.
Qed.

Lemma bit_length_xor j : j <> 0 -> j < 2 ^ 64 ->
  bit_length (N.lxor j (j - 1)) = tz j + 1.
Proof.
  intros Hj H64. rewrite lxor_pred_ones by exact Hj.
  pose proof (tz_lt j 64 Hj H64) as Ht.
  rewrite bit_length_size; [apply size_ones|].
  rewrite N.ones_equiv.
  assert (2 ^ (tz j + 1) <= 2 ^ 64) by (apply N.pow_le_mono_r; lia).
  pose proof (pow2_pos (tz j + 1)). lia.
Qed.

(* ------------------------------------------------------------------------------------- *)
(* 3. the stack machine: descend_left and iter_seek                                      *)
(* ------------------------------------------------------------------------------------- *)

(* entries 0 .. upto-1 of the stack hold the ancestors of bottom position j *)
Definition stack_inv (anchor : node) (depth j : N) (upto : nat) (stk : list (option node)) : Prop :=
  forall k, (k < upto)%nat ->
    exists a, anc anchor depth j k = OK a /\ nth_error stk k = Some (Some a).

Lemma descend_left_done fuel n si depth stk : depth <= si ->
  descend_left fuel n si depth stk = OK (n, stk).
Proof.
  intros H. destruct fuel; cbn [descend_left]; rewrite (proj2 (N.leb_le depth si) H); reflexivity.
Qed.

Lemma descend_left_step fuel n si depth stk : si < depth ->
  descend_left (S fuel) n si depth stk =
  do l <- node_left n; descend_left fuel l (si + 1) depth (list_set stk (nat_of si) (Some n)).
Proof.
  intros H. cbn [descend_left]. rewrite (proj2 (N.leb_gt depth si) H). reflexivity.
Qed.

Lemma descend_spec anchor depth j : forall (m : nat) fuel si stk n,
  N.to_nat depth = (N.to_nat si + m)%nat ->
  (m < fuel)%nat ->
  length stk = N.to_nat depth ->
  anc anchor depth j (N.to_nat si) = OK n ->
  (forall b, b < depth - si -> N.testbit j b = false) ->
  stack_inv anchor depth j (N.to_nat si) stk ->
  match bottom anchor depth j with
  | OK b => exists stk', descend_left fuel n si depth stk = OK (b, stk') /\
                       length stk' = N.to_nat depth /\
                       stack_inv anchor depth j (N.to_nat depth) stk'
  | Err => descend_left fuel n si depth stk = Err
  | Panic => False
  end.
Proof.
  induction m as [|m IH]; intros fuel si stk n Hd Hf Hlen Hanc Hlow Hinv.
  - assert (E : N.to_nat depth = N.to_nat si) by lia.
    rewrite <- anc_bottom, E, Hanc. exists stk. split; [apply descend_left_done; lia|].
    split; [lia|exact Hinv].
  - destruct fuel as [|fuel]; [lia|].
    rewrite descend_left_step by lia. rewrite node_left_child.
    assert (Hnext : anc anchor depth j (S (N.to_nat si)) = child false n).
    { cbn [anc]. rewrite Hanc. cbn [bind]. rewrite N2Nat.id.
      rewrite (Hlow (depth - 1 - si)) by lia. reflexivity. }
    destruct n as [c|l r].
    + cbn [child bind]. cbn [child] in Hnext.
      rewrite <- anc_bottom.
      rewrite (anc_err_mono anchor depth j (S (N.to_nat si)) (N.to_nat depth)) by (lia || exact Hnext).
      reflexivity.
    + cbn [child bind]. cbn [child] in Hnext.
      apply IH.
      * lia.
      * lia.
      * rewrite list_set_length'. exact Hlen.
      * replace (N.to_nat (si + 1)) with (S (N.to_nat si)) by lia. exact Hnext.
      * intros b Hb. apply Hlow. lia.
      * replace (N.to_nat (si + 1)) with (S (N.to_nat si)) by lia.
        intros k Hk. unfold nat_of.
        destruct (Nat.eq_dec k (N.to_nat si)) as [->|Hne].
        -- exists (Pair l r). split; [exact Hanc|]. apply nth_error_list_set_eq. lia.
        -- destruct (Hinv k) as (a & Ha1 & Ha2); [lia|].
           exists a. split; [exact Ha1|]. rewrite nth_error_list_set_neq by lia. exact Ha2.
Qed.

(* state of the seek part of an iterator before looking for bottom node [ri] *)
Definition seek_inv (anchor : node) (depth ri : N) (stk : list (option node)) : Prop :=
  length stk = N.to_nat depth /\
  (ri <> 0 -> stack_inv anchor depth (ri - 1) (N.to_nat depth) stk).

Lemma seek_inv_init anchor depth : seek_inv anchor depth 0 (repeat None (nat_of depth)).
Proof. split; [apply repeat_length|congruence]. Qed.

Lemma seek_spec anchor depth j stk :
  depth < 256 -> j < 2 ^ depth -> j < 2 ^ 64 ->
  seek_inv anchor depth j stk ->
  match bottom anchor depth j with
  | OK b => exists stk', iter_seek anchor depth j stk = OK (b, stk') /\
                       seek_inv anchor depth (j + 1) stk'
  | Err => iter_seek anchor depth j stk = Err
  | Panic => False
  end.
Proof.
  intros Hd Hj H64 [Hlen Hinv]. unfold iter_seek.
  destruct (N.eqb_spec j 0) as [->|Hj0].
  - cbn [bind].
    pose proof (descend_spec anchor depth 0 (N.to_nat depth) (S (nat_of depth)) 0 stk anchor) as HD.
    cbn [N.to_nat Nat.add anc] in HD. unfold nat_of in *.
    specialize (HD eq_refl (Nat.lt_succ_diag_r _) Hlen eq_refl (fun b _ => N.bits_0 b)
                   (fun k Hk => ltac:(lia))).
    destruct (bottom anchor depth 0) as [b| |]; [|exact HD|exact HD].
    destruct HD as (stk' & H1 & H2 & H3). exists stk'. split; [exact H1|].
    split; [exact H2|]. intros _. replace (0 + 1 - 1) with 0 by lia. exact H3.
  - specialize (Hinv Hj0).
    destruct (tz_spec j Hj0) as (T1 & T2 & T3 & T4).
    pose proof (tz_lt j depth Hj0 Hj) as Ht.
    rewrite (bit_length_xor j Hj0 H64).
    set (t := tz j) in *.
    assert (Hsi : wrap8 (depth + 256 - (t + 1)) = depth - (t + 1)).
    { unfold wrap8. lia. }
    rewrite Hsi. set (si := depth - (t + 1)).
    destruct (Hinv (N.to_nat si)) as (a & Ha1 & Ha2); [unfold si; lia|].
    unfold nat_of. rewrite Ha2.
    assert (Hsame : forall k, (k <= N.to_nat si)%nat ->
              anc anchor depth j k = anc anchor depth (j - 1) k).
    { intros k Hk. apply anc_ext; [unfold si in Hk; lia|].
      intros b Hb1 Hb2. symmetry. apply T4. unfold si in Hk. lia. }
    rewrite node_right_child.
    assert (Hnext : anc anchor depth j (S (N.to_nat si)) = child true a).
    { cbn [anc]. rewrite Hsame, Ha1 by lia. cbn [bind]. rewrite N2Nat.id.
      replace (depth - 1 - si) with t by (unfold si; lia). rewrite T1. reflexivity. }
    destruct a as [c|l r].
    + cbn [child bind]. cbn [child] in Hnext. rewrite <- anc_bottom.
      rewrite (anc_err_mono anchor depth j (S (N.to_nat si)) (N.to_nat depth))
        by ((unfold si; lia) || exact Hnext).
      reflexivity.
    + cbn [child bind]. cbn [child] in Hnext.
      assert (Hw : wrap8 (si + 1) = si + 1) by (unfold wrap8, si; lia).
      rewrite Hw.
      pose proof (descend_spec anchor depth j (N.to_nat t) (S (N.to_nat depth)) (si + 1) stk r) as HD.
      assert (HD' := HD ltac:(unfold si; lia) ltac:(lia) Hlen
                ltac:(replace (N.to_nat (si + 1)) with (S (N.to_nat si)) by lia; exact Hnext)
                ltac:(intros b Hb; apply T2; unfold si in Hb; lia)).
      clear HD.
      assert (Hstack : stack_inv anchor depth j (N.to_nat (si + 1)) stk).
      { intros k Hk. destruct (Hinv k) as (x & Hx1 & Hx2); [unfold si in Hk; lia|].
        exists x. split; [|exact Hx2]. rewrite Hsame by lia. exact Hx1. }
      specialize (HD' Hstack).
      destruct (bottom anchor depth j) as [b| |]; [|exact HD'|exact HD'].
      destruct HD' as (stk' & H1 & H2 & H3). exists stk'. split; [exact H1|].
      split; [exact H2|]. intros _. replace (j + 1 - 1) with j by lia. exact H3.
Qed.

(* ------------------------------------------------------------------------------------- *)
(* 4. nodeReadonlyIter                                                                   *)
(* ------------------------------------------------------------------------------------- *)

Lemma node_iter_next_end anchor len depth it : len <= ni_i it ->
  node_iter_next anchor len depth it = OK (None, it).
Proof. intros H. unfold node_iter_next. now rewrite (proj2 (N.leb_le _ _) H). Qed.

Lemma node_iter_next_spec anchor len depth i stk :
  depth < 256 -> len <= 2 ^ depth -> len <= 2 ^ 64 -> i < len ->
  seek_inv anchor depth i stk ->
  match bottom anchor depth i with
  | OK b => exists stk', node_iter_next anchor len depth (mkNI i stk) = OK (Some b, mkNI (i + 1) stk') /\
                         seek_inv anchor depth (i + 1) stk'
  | Err => node_iter_next anchor len depth (mkNI i stk) = Err
  | Panic => False
  end.
Proof.
  intros Hd Hl H64 Hi Hinv. unfold node_iter_next. cbn [ni_i ni_stack].
  rewrite (proj2 (N.leb_gt _ _) Hi).
  pose proof (seek_spec anchor depth i stk Hd ltac:(lia) ltac:(lia) Hinv) as HS.
  destruct (bottom anchor depth i) as [b| |]; [|now rewrite HS|exact HS].
  destruct HS as (stk' & H1 & H2). exists stk'. rewrite H1. split; [reflexivity|exact H2].
Qed.

(* node_iter_take: the first [c] results, as a mapM over the expected bottom nodes *)
Lemma node_iter_take_spec anchor len depth :
  depth < 256 -> len <= 2 ^ depth -> len <= 2 ^ 64 ->
  forall c i stk, (i + c <= N.to_nat len)%nat ->
  seek_inv anchor depth (N.of_nat i) stk ->
  node_iter_take anchor len depth c (mkNI (N.of_nat i) stk) =
  mapM (fun k => bottom anchor depth (N.of_nat k)) (seq i c).
Proof.
  intros Hd Hl H64. induction c as [|c IH]; intros i stk Hic Hinv; [reflexivity|].
  cbn [node_iter_take seq mapM].
  pose proof (node_iter_next_spec anchor len depth (N.of_nat i) stk Hd Hl H64 ltac:(lia) Hinv) as HN.
  destruct (bottom anchor depth (N.of_nat i)) as [b| |]; [|now rewrite HN|destruct HN].
  destruct HN as (stk' & H1 & H2). rewrite H1. cbn [bind].
  replace (N.of_nat i + 1) with (N.of_nat (S i)) in * by lia.
  rewrite (IH (S i) stk') by (lia || exact H2). reflexivity.
Qed.

(* asking for more than [len] nodes is an error ("unexpected early iter end") *)
Lemma node_iter_take_over anchor len depth :
  depth < 256 -> len <= 2 ^ depth -> len <= 2 ^ 64 ->
  forall c i stk, (i <= N.to_nat len)%nat -> (N.to_nat len < i + c)%nat ->
  seek_inv anchor depth (N.of_nat i) stk ->
  node_iter_take anchor len depth c (mkNI (N.of_nat i) stk) = Err.
Proof.
  intros Hd Hl H64. induction c as [|c IH]; intros i stk Hi Hic Hinv; [lia|].
  cbn [node_iter_take].
  destruct (Nat.eq_dec i (N.to_nat len)) as [->|Hne].
  - rewrite node_iter_next_end by (cbn [ni_i]; lia). reflexivity.
  - pose proof (node_iter_next_spec anchor len depth (N.of_nat i) stk Hd Hl H64 ltac:(lia) Hinv) as HN.
    destruct (bottom anchor depth (N.of_nat i)) as [b| |]; [|now rewrite HN|destruct HN].
    destruct HN as (stk' & H1 & H2). rewrite H1. cbn [bind].
    replace (N.of_nat i + 1) with (N.of_nat (S i)) in * by lia.
    rewrite (IH (S i) stk') by (lia || exact H2). reflexivity.
Qed.

Lemma node_iter_ok_spec depth len : depth < 64 ->
  node_iter_ok depth len = true <-> len <= 2 ^ depth.
Proof.
  intros Hd. unfold node_iter_ok. rewrite (shl64_1 depth Hd), negb_true_iff, N.ltb_ge. reflexivity.
Qed.

(* Go: uint64(1) << 64 = 0, so a subtree of depth >= 64 can only be iterated with length 0 *)
Lemma node_iter_ok_high depth len : 64 <= depth ->
  node_iter_ok depth len = true <-> len = 0.
Proof.
  intros Hd. unfold node_iter_ok. rewrite (shl64_1_high depth Hd), negb_true_iff, N.ltb_ge. lia.
Qed.

Lemma pow2_le_64 depth : depth < 64 -> 2 ^ depth <= 2 ^ 64.
Proof. intros H. apply N.pow_le_mono_r; lia. Qed.

(* the complete characterisation: success and failure *)
Theorem node_iter_all_spec anchor depth len :
  depth < 64 -> len <= 2 ^ depth ->
  node_iter_all anchor len depth =
  mapM (fun k => bottom anchor depth (N.of_nat k)) (seq 0 (N.to_nat len)).
Proof.
  intros Hd Hl. unfold node_iter_all.
  rewrite (proj2 (node_iter_ok_spec depth len Hd) Hl). unfold ni_init, nat_of.
  pose proof (pow2_le_64 depth Hd).
  apply (node_iter_take_spec anchor len depth ltac:(lia) Hl ltac:(lia) (N.to_nat len) 0%nat);
    [lia|apply seek_inv_init].
Qed.

Lemma mapM_Forall2 {A B} (f : A -> res B) : forall l ys,
  mapM f l = OK ys <-> Forall2 (fun x y => f x = OK y) l ys.
Proof.
  induction l as [|x l IH]; intros ys; cbn; split; intros H.
  - injection H as <-. constructor.
  - inversion H. reflexivity.
  - destruct (f x) as [y| |] eqn:Hf; cbn in H; try discriminate.
    destruct (mapM f l) as [r| |] eqn:Hl; cbn in H; try discriminate.
    injection H as <-. constructor; [exact Hf|]. now apply IH.
  - inversion H as [|x' y l' r Hf Hr]; subst. rewrite Hf. cbn.
    rewrite (proj2 (IH r) Hr). reflexivity.
Qed.

(* success: the drain returns exactly the bottom nodes 0 .. len-1, in order *)
Theorem node_iter_seq anchor depth len ms :
  depth < 64 -> len <= 2 ^ depth ->
  (node_iter_all anchor len depth = OK ms <->
   Forall2 (fun k m => bottom anchor depth (N.of_nat k) = OK m) (seq 0 (N.to_nat len)) ms).
Proof.
  intros Hd Hl. rewrite node_iter_all_spec by assumption. apply mapM_Forall2.
Qed.

Theorem node_iter_seq_ex anchor depth len :
  depth < 64 -> len <= 2 ^ depth ->
  (forall i, i < len -> exists m, bottom anchor depth i = OK m) ->
  exists ms, node_iter_all anchor len depth = OK ms /\
    Forall2 (fun k m => bottom anchor depth (N.of_nat k) = OK m) (seq 0 (N.to_nat len)) ms.
Proof.
  intros Hd Hl Hall.
  set (g := fun k : nat => match bottom anchor depth (N.of_nat k) with OK m => m | _ => anchor end).
  assert (HM : mapM (fun k => bottom anchor depth (N.of_nat k)) (seq 0 (N.to_nat len)) =
               OK (map g (seq 0 (N.to_nat len)))).
  { apply mapM_all_ok. intros k Hk. apply in_seq in Hk. unfold g.
    destruct (Hall (N.of_nat k)) as [m Hm]; [lia|]. now rewrite Hm. }
  exists (map g (seq 0 (N.to_nat len))). rewrite node_iter_all_spec by assumption.
  split; [exact HM|]. apply mapM_Forall2. exact HM.
Qed.

(* never a wrong node: whatever comes out at position i is bottom node i *)
Theorem node_iter_take_sound anchor depth len count ns i m :
  depth < 256 -> len <= 2 ^ depth -> len <= 2 ^ 64 ->
  node_iter_take anchor len depth count (ni_init depth) = OK ns ->
  nth_error ns i = Some m ->
  bottom anchor depth (N.of_nat i) = OK m /\ N.of_nat i < len.
Proof.
  intros Hd Hl H64 Ht Hn. unfold ni_init in Ht.
  destruct (Nat.le_gt_cases count (N.to_nat len)) as [Hc|Hc].
  - change 0 with (N.of_nat 0) in Ht.
    rewrite (node_iter_take_spec anchor len depth Hd Hl H64 count 0%nat) in Ht
      by (lia || apply seek_inv_init).
    destruct (mapM_nth _ _ _ _ _ Ht Hn) as (x & Hx1 & Hx2).
    pose proof (mapM_length _ _ _ Ht) as Hlen. rewrite seq_length in Hlen.
    assert (Hi : (i < count)%nat) by (rewrite <- Hlen; apply nth_error_Some; congruence).
    rewrite (nth_error_nth' _ 0%nat) in Hx1 by (rewrite seq_length; lia).
    rewrite seq_nth in Hx1 by lia. injection Hx1 as <-. split; [exact Hx2|lia].
  - change 0 with (N.of_nat 0) in Ht.
    rewrite (node_iter_take_over anchor len depth Hd Hl H64 count 0%nat) in Ht
      by (lia || apply seek_inv_init).
    discriminate.
Qed.

Theorem node_iter_sound anchor depth len ns i m :
  depth < 64 ->
  node_iter_all anchor len depth = OK ns -> nth_error ns i = Some m ->
  bottom anchor depth (N.of_nat i) = OK m /\ N.of_nat i < len.
Proof.
  intros Hd Ha Hn. unfold node_iter_all in Ha.
  destruct (node_iter_ok depth len) eqn:Hok; [|discriminate].
  apply (node_iter_ok_spec depth len Hd) in Hok.
  pose proof (pow2_le_64 depth Hd).
  apply (node_iter_take_sound anchor depth len (nat_of len) ns i m); (lia || assumption).
Qed.

(* the first missing bottom node makes the whole drain fail: no partial / wrong result *)
Theorem node_iter_all_err anchor depth len k :
  depth < 64 -> len <= 2 ^ depth -> k < len -> bottom anchor depth k = Err ->
  node_iter_all anchor len depth = Err.
Proof.
  intros Hd Hl Hk He. rewrite node_iter_all_spec by assumption.
  destruct (mapM _ _) as [ns| |] eqn:HM; [|reflexivity|].
  - exfalso. pose proof (mapM_length _ _ _ HM) as Hlen. rewrite seq_length in Hlen.
    destruct (nth_error ns (N.to_nat k)) as [m|] eqn:Hn.
    + destruct (mapM_nth _ _ _ _ _ HM Hn) as (x & Hx1 & Hx2).
      rewrite (nth_error_nth' _ 0%nat) in Hx1 by (rewrite seq_length; lia).
      rewrite seq_nth in Hx1 by lia. injection Hx1 as <-. cbn [Nat.add] in Hx2.
      rewrite N2Nat.id in Hx2. congruence.
    + apply nth_error_None in Hn. lia.
  - exfalso. revert HM. generalize (seq 0 (N.to_nat len)). intros l.
    induction l as [|x l IH]; cbn; [discriminate|].
    pose proof (bottom_not_panic anchor depth (N.of_nat x)).
    destruct (bottom anchor depth (N.of_nat x)); cbn; try congruence.
    destruct (mapM _ l); cbn; try discriminate. intros _. now apply IH.
Qed.

(* the k-th call (k = 0, 1, ...) of Next() starting from state [it] *)
Fixpoint node_iter_calls (anchor : node) (len depth : N) (k : nat) (it : niter)
  : res (option node * niter) :=
  match k with
  | O => node_iter_next anchor len depth it
  | S k' => do r <- node_iter_next anchor len depth it; node_iter_calls anchor len depth k' (snd r)
  end.

Lemma node_iter_calls_spec anchor len depth :
  depth < 256 -> len <= 2 ^ depth -> len <= 2 ^ 64 ->
  forall k i stk, (i <= N.to_nat len)%nat ->
  seek_inv anchor depth (N.of_nat i) stk ->
  (forall x, (i <= x < i + k)%nat -> (x < N.to_nat len)%nat ->
             exists m, bottom anchor depth (N.of_nat x) = OK m) ->
  ((i + k < N.to_nat len)%nat ->
     match bottom anchor depth (N.of_nat (i + k)) with
     | OK m => exists stk', node_iter_calls anchor len depth k (mkNI (N.of_nat i) stk) =
                            OK (Some m, mkNI (N.of_nat (i + k) + 1) stk')
     | Err => node_iter_calls anchor len depth k (mkNI (N.of_nat i) stk) = Err
     | Panic => False
     end) /\
  ((N.to_nat len <= i + k)%nat ->
     exists stk', node_iter_calls anchor len depth k (mkNI (N.of_nat i) stk) = OK (None, mkNI len stk')).
Proof.
  intros Hd Hl H64. induction k as [|k IH]; intros i stk Hi Hinv Hall.
  - cbn [node_iter_calls]. rewrite Nat.add_0_r. split; intros Hk.
    + pose proof (node_iter_next_spec anchor len depth (N.of_nat i) stk Hd Hl H64 ltac:(lia) Hinv) as HN.
      destruct (bottom anchor depth (N.of_nat i)) as [b| |]; [|exact HN|exact HN].
      destruct HN as (stk' & H1 & _). exists stk'. exact H1.
    + exists stk. replace len with (N.of_nat i) at 2 by lia.
      apply node_iter_next_end. cbn [ni_i]. lia.
  - cbn [node_iter_calls].
    destruct (Nat.eq_dec i (N.to_nat len)) as [Heq|Hne].
    + rewrite node_iter_next_end by (cbn [ni_i]; lia). cbn [bind snd].
      destruct (IH i stk Hi Hinv) as [_ I2]; [intros x Hx1 Hx2; lia|].
      split; intros Hk; [lia|]. apply I2. lia.
    + pose proof (node_iter_next_spec anchor len depth (N.of_nat i) stk Hd Hl H64 ltac:(lia) Hinv) as HN.
      destruct (Hall i) as [m Hm]; [lia|lia|]. rewrite Hm in HN.
      destruct HN as (stk' & H1 & H2). rewrite H1. cbn [bind snd].
      replace (N.of_nat i + 1) with (N.of_nat (S i)) in * by lia.
      replace (i + S k)%nat with (S i + k)%nat by lia.
      apply (IH (S i) stk'); [lia|exact H2|]. intros x Hx1 Hx2. apply Hall; lia.
Qed.

(* elemReadonlyIter / fieldReadonlyIter drained *)
Lemma node_iter_drain_end tys anchor len depth : forall extra it idx, len <= ni_i it ->
  node_iter_drain extra tys anchor len depth it idx = repeat IEnd extra.
Proof.
  induction extra as [|x IH]; intros it idx H; [reflexivity|].
  cbn [node_iter_drain repeat]. rewrite node_iter_next_end by exact H. f_equal. now apply IH.
Qed.

Lemma node_iter_drain_spec tys anchor len depth :
  depth < 256 -> len <= 2 ^ depth -> len <= 2 ^ 64 ->
  forall c extra i stk, (i + c = N.to_nat len)%nat ->
  seek_inv anchor depth (N.of_nat i) stk ->
  node_iter_drain (c + extra) tys anchor len depth (mkNI (N.of_nat i) stk) i =
  steps_of (fun s => s) (map (node_elem tys anchor depth) (seq i c)) extra.
Proof.
  intros Hd Hl H64. induction c as [|c IH]; intros extra i stk Hic Hinv.
  - cbn [Nat.add seq map steps_of]. apply node_iter_drain_end. cbn [ni_i]. lia.
  - cbn [Nat.add node_iter_drain seq map steps_of]. unfold node_elem at 1.
    pose proof (node_iter_next_spec anchor len depth (N.of_nat i) stk Hd Hl H64 ltac:(lia) Hinv) as HN.
    destruct (bottom anchor depth (N.of_nat i)) as [b| |]; [|now rewrite HN|destruct HN].
    destruct HN as (stk' & H1 & H2). rewrite H1. cbn [bind].
    destruct (tys i) as [t|]; [|reflexivity].
    destruct (view_from_backing_ok t b); [|reflexivity].
    replace (N.of_nat i + 1) with (N.of_nat (S i)) in * by lia.
    rewrite (IH extra (S i) stk') by (lia || exact H2). reflexivity.
Qed.

Theorem node_iter_drain_init tys anchor len depth extra :
  depth < 256 -> len <= 2 ^ depth -> len <= 2 ^ 64 ->
  node_iter_drain (N.to_nat len + extra) tys anchor len depth (ni_init depth) 0 =
  steps_of (fun s => s) (map (node_elem tys anchor depth) (seq 0 (N.to_nat len))) extra.
Proof.
  intros Hd Hl H64.
  apply (node_iter_drain_spec tys anchor len depth Hd Hl H64 (N.to_nat len) extra 0%nat);
    [lia|apply seek_inv_init].
Qed.

(* ------------------------------------------------------------------------------------- *)
(* 5. the two packed iterators as instances of one machine                               *)
(* ------------------------------------------------------------------------------------- *)

Section Gen.
Context {A : Type}.
Variable P : N.                       (* components per bottom node *)
Variable mid : N -> bool.             (* "in the middle of a node" test on j *)
Variable nxt : N -> N.                (* j += 1 (uint8) *)
Variable off : N -> N.                (* the position in the node that j stands for, 1..P *)
Variable dec : chunk -> N -> res A.
Variables (anchor : node) (len depth : N).

Definition gen_next (it : eiter) : res (option A * eiter) :=
  if len <=? ei_i it then OK (None, it) else
  if mid (ei_j it) then
    do v <- dec (ei_cur it) (ei_j it);
    OK (Some v, mkEI (ei_i it + 1) (nxt (ei_j it)) (ei_cur it) (ei_ri it) (ei_stack it))
  else
    do r <- iter_seek anchor depth (ei_ri it) (ei_stack it); let '(n, stack) := r in
    do c <- leaf_chunk n;
    do v <- dec c 0;
    OK (Some v, mkEI (ei_i it + 1) 1 c (ei_ri it + 1) stack).

Fixpoint gen_drain (f : A -> istep) (calls : nat) (it : eiter) : list istep :=
  match calls with
  | O => []
  | S k =>
    match gen_next it with
    | OK (Some v, it') => f v :: gen_drain f k it'
    | OK (None, it') => IEnd :: gen_drain f k it'
    | Err => [IErr]
    | Panic => [IPanic]
    end
  end.

Definition gen_elem (k : nat) : res A :=
  do b <- bottom anchor depth (N.of_nat k / P); do c <- leaf_chunk b; dec c (N.of_nat k mod P).

Hypothesis HP : 1 <= P.
Hypothesis Hmid : forall j, j < 256 -> mid j = (off j <? P).
Hypothesis Hoff : forall j, j < 256 -> off j < P -> off j = j.
Hypothesis Hnxt : forall j, j < 256 -> off j < P -> off (nxt j) = off j + 1 /\ nxt j < 256.
Hypothesis Hoff1 : off 1 = 1.
Hypothesis Hdepth : depth < 256.
Hypothesis Hlen : len <= 2 ^ depth * P.
Hypothesis Hlen64 : len <= 2 ^ 64.

Definition gen_inv (it : eiter) : Prop :=
  ei_j it < 256 /\ 1 <= off (ei_j it) <= P /\
  ei_i it + P = ei_ri it * P + off (ei_j it) /\
  seek_inv anchor depth (ei_ri it) (ei_stack it) /\
  (off (ei_j it) < P ->
     exists b, bottom anchor depth (ei_ri it - 1) = OK b /\ leaf_chunk b = OK (ei_cur it)).

Lemma gen_next_end it : len <= ei_i it -> gen_next it = OK (None, it).
Proof. intros H. unfold gen_next. now rewrite (proj2 (N.leb_le _ _) H). Qed.

Lemma gen_drain_end f : forall extra it, len <= ei_i it -> gen_drain f extra it = repeat IEnd extra.
Proof.
  induction extra as [|x IH]; intros it H; [reflexivity|].
  cbn [gen_drain repeat]. rewrite gen_next_end by exact H. f_equal. now apply IH.
Qed.

Lemma gen_next_spec it : gen_inv it -> ei_i it < len ->
  match gen_elem (N.to_nat (ei_i it)) with
  | OK v => exists it', gen_next it = OK (Some v, it') /\ ei_i it' = ei_i it + 1 /\ gen_inv it'
  | Err => gen_next it = Err
  | Panic => gen_next it = Panic
  end.
Proof.
  destruct it as [i j cur ri stk]. cbn [ei_i ei_j ei_cur ei_ri ei_stack].
  intros (Hj & Hoj & Heq & Hseek & Hcur) Hi. cbn [ei_i ei_j ei_cur ei_ri ei_stack] in *.
  unfold gen_next, gen_elem. cbn [ei_i ei_j ei_cur ei_ri ei_stack].
  rewrite N2Nat.id. rewrite (proj2 (N.leb_gt _ _) Hi). rewrite (Hmid j Hj).
  destruct (N.ltb_spec (off j) P) as [Hlt|Hge].
  - (* in the middle of bottom node ri-1 *)
    destruct (Hcur Hlt) as (b & Hb1 & Hb2).
    assert (Hri : ri <> 0) by (intros ->; lia).
    assert (Hdiv : i / P = ri - 1 /\ i mod P = off j).
    { assert (E : i = P * (ri - 1) + off j).
      { replace ri with ((ri - 1) + 1) in Heq at 1 by lia. lia. }
      split; [symmetry; apply (N.div_unique i P (ri - 1) (off j)); assumption|
              symmetry; apply (N.mod_unique i P (ri - 1) (off j)); assumption]. }
    destruct Hdiv as [-> ->]. rewrite Hb1. cbn [bind]. rewrite Hb2. cbn [bind].
    rewrite (Hoff j Hj Hlt).
    destruct (dec cur j) as [v| |]; cbn [bind]; try reflexivity.
    eexists. split; [reflexivity|]. unfold gen_inv. cbn [ei_i ei_j ei_cur ei_ri ei_stack].
    split; [reflexivity|].
    destruct (Hnxt j Hj Hlt) as [Hn1 Hn2].
    split; [exact Hn2|]. split; [lia|]. split; [lia|]. split; [exact Hseek|].
    intros _. exists b. split; assumption.
  - (* next bottom node: ri *)
    assert (Hoj' : off j = P) by lia.
    assert (Hdiv : i / P = ri /\ i mod P = 0).
    { assert (E : i = P * ri + 0) by lia.
      split; [symmetry; apply (N.div_unique i P ri 0); lia|
              symmetry; apply (N.mod_unique i P ri 0); lia]. }
    destruct Hdiv as [-> ->].
    assert (Hri : ri < 2 ^ depth /\ ri < 2 ^ 64).
    { assert (ri * P < 2 ^ depth * P) by lia.
      split; [apply (N.mul_lt_mono_pos_r P); lia|].
      assert (ri * 1 <= ri * P) by (apply N.mul_le_mono_l; lia). lia. }
    pose proof (seek_spec anchor depth ri stk Hdepth (proj1 Hri) (proj2 Hri) Hseek) as HS.
    destruct (bottom anchor depth ri) as [b| |] eqn:Hb; [|now rewrite HS|destruct HS].
    destruct HS as (stk' & H1 & H2). rewrite H1. cbn [bind].
    destruct (leaf_chunk b) as [c| |] eqn:Hc; cbn [bind]; try reflexivity.
    destruct (dec c 0) as [v| |]; cbn [bind]; try reflexivity.
    eexists. split; [reflexivity|]. unfold gen_inv. cbn [ei_i ei_j ei_cur ei_ri ei_stack].
    split; [reflexivity|]. rewrite Hoff1.
    split; [lia|]. split; [lia|]. split; [lia|]. split; [exact H2|].
    intros _. exists b. replace (ri + 1 - 1) with ri by lia. split; assumption.
Qed.

Lemma gen_drain_spec f : forall c extra it i,
  ei_i it = N.of_nat i -> (i + c = N.to_nat len)%nat -> gen_inv it ->
  gen_drain f (c + extra) it = steps_of f (map gen_elem (seq i c)) extra.
Proof.
  induction c as [|c IH]; intros extra it i Hi Hic Hinv.
  - cbn [Nat.add seq map steps_of]. apply gen_drain_end. lia.
  - cbn [Nat.add gen_drain seq map steps_of].
    pose proof (gen_next_spec it Hinv ltac:(lia)) as HN.
    rewrite Hi, Nat2N.id in HN.
    destruct (gen_elem i) as [v| |]; [|now rewrite HN|now rewrite HN].
    destruct HN as (it' & H1 & H2 & H3). rewrite H1.
    rewrite (IH extra it' (S i)) by (lia || exact H3). reflexivity.
Qed.

End Gen.

(* ---- basicElemReadonlyIter ---- *)

Lemma per_node_le_32 e : per_node e <= 32.
Proof.
  unfold per_node. destruct (ti_size (info e)) as [|p]; [cbv; discriminate|].
  apply N.div_le_upper_bound; [discriminate|].
  assert (1 * 32 <= N.pos p * 32) by (apply N.mul_le_mono_r; lia). lia.
Qed.

Lemma basic_iter_next_gen e anchor len depth it :
  basic_iter_next e anchor len depth it =
  gen_next (fun j => j <? per_node e) (fun j => wrap8 (j + 1)) (packed_val e) anchor len depth it.
Proof. reflexivity. Qed.

Lemma basic_iter_drain_gen e anchor len depth : forall calls it,
  basic_iter_drain calls e anchor len depth it =
  gen_drain (fun j => j <? per_node e) (fun j => wrap8 (j + 1)) (packed_val e) anchor len depth
            IVal calls it.
Proof.
  induction calls as [|k IH]; intros it; [reflexivity|].
  cbn [basic_iter_drain gen_drain]. rewrite basic_iter_next_gen.
  destruct (gen_next _ _ _ _ _ _ it) as [[[v|] it']| |]; try reflexivity; now rewrite IH.
Qed.

Theorem basic_iter_drain_spec e anchor depth len extra :
  1 <= per_node e -> depth < 256 -> len <= 2 ^ depth * per_node e -> len <= 2 ^ 64 ->
  basic_iter_drain (N.to_nat len + extra) e anchor len depth (basic_iter_init e depth) =
  steps_of IVal (map (packed_elem e anchor depth) (seq 0 (N.to_nat len))) extra.
Proof.
  intros HP Hd Hl H64. rewrite basic_iter_drain_gen.
  pose proof (per_node_le_32 e) as H32.
  change (packed_elem e anchor depth) with (gen_elem (per_node e) (packed_val e) anchor depth).
  apply (gen_drain_spec (per_node e) (fun j => j <? per_node e) (fun j => wrap8 (j + 1))
           (fun j => j) (packed_val e) anchor len depth HP).
  - reflexivity.
  - reflexivity.
  - intros j Hj Hlt. unfold wrap8. split; [|apply N.mod_lt; lia].
    rewrite N.mod_small by lia. reflexivity.
  - reflexivity.
  - exact Hd.
  - exact Hl.
  - exact H64.
  - reflexivity.
  - lia.
  - unfold gen_inv, basic_iter_init. cbn [ei_i ei_j ei_cur ei_ri ei_stack].
    split; [lia|]. split; [lia|]. split; [lia|]. split; [apply seek_inv_init|]. lia.
Qed.

(* ---- bitReadonlyIter ---- *)

Lemma bit_iter_next_gen anchor len depth it :
  bit_iter_next anchor len depth it =
  gen_next (fun j => 0 <? j) (fun j => wrap8 (j + 1)) (fun c j => OK (chunk_get_bit c j))
           anchor len depth it.
Proof.
  unfold bit_iter_next, gen_next. destruct (len <=? ei_i it); [reflexivity|].
  destruct (0 <? ei_j it); [reflexivity|].
  destruct (iter_seek anchor depth (ei_ri it) (ei_stack it)) as [[n stk]| |]; reflexivity.
Qed.

Lemma bit_iter_drain_gen anchor len depth : forall calls it,
  bit_iter_drain calls anchor len depth it =
  gen_drain (fun j => 0 <? j) (fun j => wrap8 (j + 1)) (fun c j => OK (chunk_get_bit c j))
            anchor len depth (fun b => IVal (VBool b)) calls it.
Proof.
  induction calls as [|k IH]; intros it; [reflexivity|].
  cbn [bit_iter_drain gen_drain]. rewrite bit_iter_next_gen.
  destruct (gen_next _ _ _ _ _ _ it) as [[[v|] it']| |]; try reflexivity; now rewrite IH.
Qed.

Theorem bit_iter_drain_spec anchor depth len extra :
  depth < 256 -> len <= 2 ^ depth * 256 -> len <= 2 ^ 64 ->
  bit_iter_drain (N.to_nat len + extra) anchor len depth (bit_iter_init depth) =
  steps_of (fun b => IVal (VBool b)) (map (bit_elem anchor depth) (seq 0 (N.to_nat len))) extra.
Proof.
  intros Hd Hl H64. rewrite bit_iter_drain_gen.
  change (bit_elem anchor depth)
    with (gen_elem 256 (fun c j => OK (chunk_get_bit c j)) anchor depth).
  apply (gen_drain_spec 256 (fun j => 0 <? j) (fun j => wrap8 (j + 1))
           (fun j => if j =? 0 then 256 else j) (fun c j => OK (chunk_get_bit c j))
           anchor len depth).
  - lia.
  - intros j Hj. destruct (N.eqb_spec j 0) as [->|Hne]; [reflexivity|].
    rewrite (proj2 (N.ltb_lt 0 j)) by lia. symmetry. apply N.ltb_lt. exact Hj.
  - intros j Hj. destruct (N.eqb_spec j 0) as [->|Hne]; [lia|reflexivity].
  - intros j Hj. destruct (N.eqb_spec j 0) as [->|Hne]; [lia|]. intros _.
    unfold wrap8. split; [|apply N.mod_lt; lia].
    destruct (N.eq_dec j 255) as [->|H255]; [reflexivity|].
    rewrite N.mod_small by lia. destruct (N.eqb_spec (j + 1) 0); [lia|reflexivity].
  - reflexivity.
  - exact Hd.
  - exact Hl.
  - exact H64.
  - reflexivity.
  - lia.
  - unfold gen_inv, bit_iter_init. cbn [ei_i ei_j ei_cur ei_ri ei_stack].
    split; [lia|]. split; [cbn; lia|]. split; [cbn; lia|]. split; [apply seek_inv_init|].
    cbn. lia.
Qed.

(* ---- the length checks of the constructors ---- *)

Lemma basic_iter_ok_le e depth len : depth < 64 -> basic_iter_ok e depth len = true ->
  len <= 2 ^ depth * per_node e /\ len < 2 ^ 64.
Proof.
  intros Hd H. unfold basic_iter_ok in H. rewrite negb_true_iff, N.ltb_ge in H.
  rewrite (shl64_1 depth Hd) in H. unfold mul64, wrap64 in H. rewrite two64_eq in H.
  pose proof (N.mod_le (2 ^ depth * per_node e) (2 ^ 64) ltac:(lia)).
  pose proof (N.mod_lt (2 ^ depth * per_node e) (2 ^ 64) ltac:(lia)). lia.
Qed.

Lemma basic_iter_ok_high e depth len : 64 <= depth -> basic_iter_ok e depth len = true -> len = 0.
Proof.
  intros Hd H. unfold basic_iter_ok in H. rewrite negb_true_iff, N.ltb_ge in H.
  rewrite (shl64_1_high depth Hd) in H. cbn in H. lia.
Qed.

Lemma bit_iter_ok_le depth len : depth < 64 -> bit_iter_ok depth len = true ->
  len <= 2 ^ depth * 256 /\ len < 2 ^ 64.
Proof.
  intros Hd H. unfold bit_iter_ok in H. rewrite negb_true_iff, N.ltb_ge in H.
  rewrite (shl64_1 depth Hd) in H. unfold shl64, wrap64 in H. rewrite two64_eq in H.
  rewrite N.shiftl_mul_pow2 in H. change (2 ^ 8) with 256 in H.
  pose proof (N.mod_le (2 ^ depth * 256) (2 ^ 64) ltac:(lia)).
  pose proof (N.mod_lt (2 ^ depth * 256) (2 ^ 64) ltac:(lia)). lia.
Qed.

Lemma bit_iter_ok_high depth len : 64 <= depth -> bit_iter_ok depth len = true -> len = 0.
Proof.
  intros Hd H. unfold bit_iter_ok in H. rewrite negb_true_iff, N.ltb_ge in H.
  rewrite (shl64_1_high depth Hd) in H. cbn in H. lia.
Qed.

(* ------------------------------------------------------------------------------------- *)
(* 6. the three access paths agree                                                       *)
(* ------------------------------------------------------------------------------------- *)

(* [agree ro ga extra]: [ro] (a drained read-only iterator) against [ga] (the indexed
   getters, one entry per index): if ro shows no failure it is ga followed by the end
   reports, and in any case a component at position i of ro is entry i of ga. *)
Definition agree (ro ga : list istep) (extra : nat) : Prop :=
  ~ In IPanic ro /\
  (~ In IErr ro ->
     ro = ga ++ repeat IEnd extra /\ Forall (fun s => is_comp s = true) ga) /\
  (forall i s, nth_error ro i = Some s -> is_comp s = true -> nth_error ga i = Some s).

Lemma agree_err ga extra : agree [IErr] ga extra.
Proof.
  split; [|split].
  - intros [H|[]]. discriminate.
  - intros H. exfalso. apply H. now left.
  - intros [|[|i]] s Hn Hc; cbn in Hn; try discriminate. injection Hn as <-. discriminate.
Qed.

Lemma agree_steps {A} (f : A -> istep) (el : nat -> res A) (g : nat -> istep) extra : forall l,
  (forall k, In k l -> el k <> Panic) ->
  (forall k a, In k l -> el k = OK a -> g k = f a /\ is_comp (f a) = true) ->
  agree (steps_of f (map el l) extra) (map g l) extra.
Proof.
  induction l as [|k l IH]; intros Hnp Hel.
  - cbn [map steps_of app]. split; [|split].
    + intros Hin. apply repeat_spec in Hin. discriminate.
    + intros _. split; [reflexivity|constructor].
    + intros i s Hn Hc. apply nth_error_In, repeat_spec in Hn. subst s. discriminate.
  - cbn [map steps_of].
    destruct (el k) as [a| |] eqn:Hk;
      [|apply agree_err|exfalso; exact (Hnp k (or_introl eq_refl) Hk)].
    destruct (Hel k a (or_introl eq_refl) Hk) as [Hg Hc].
    destruct IH as (I0 & I1 & I2);
      [intros k' Hin; apply Hnp; now right|intros k' a' Hin; apply Hel; now right|].
    split; [|split].
    + intros [Hin|Hin]; [rewrite Hin in Hc; discriminate|now apply I0].
    + intros Hclean. destruct I1 as [E F]; [intros Hs; apply Hclean; now right|].
      split; [cbn [app]; now rewrite Hg, <- E|].
      constructor; [now rewrite Hg|exact F].
    + intros [|i] s Hn Hcs; cbn [nth_error] in *.
      * now rewrite Hg.
      * now apply I2.
Qed.

Lemma leaf_chunk_not_panic n : leaf_chunk n <> Panic.
Proof. destruct n; discriminate. Qed.

Lemma packed_val_not_panic e c i : packed_val e c i <> Panic.
Proof.
  unfold packed_val. destruct e; try discriminate.
  destruct (32 / w <=? i); [discriminate|].
  destruct ((w =? 1) || (w =? 2) || (w =? 4) || (w =? 8)); [discriminate|].
  destruct (w =? 32); discriminate.
Qed.

Lemma bit_elem_not_panic anchor d k : bit_elem anchor d k <> Panic.
Proof.
  unfold bit_elem. pose proof (bottom_not_panic anchor d (N.of_nat k / 256)).
  destruct (bottom anchor d (N.of_nat k / 256)) as [b| |]; cbn [bind]; try congruence.
  pose proof (leaf_chunk_not_panic b). destruct (leaf_chunk b); cbn [bind]; congruence.
Qed.

Lemma packed_elem_not_panic e anchor d k : packed_elem e anchor d k <> Panic.
Proof.
  unfold packed_elem. pose proof (bottom_not_panic anchor d (N.of_nat k / per_node e)).
  destruct (bottom anchor d (N.of_nat k / per_node e)) as [b| |]; cbn [bind]; try congruence.
  pose proof (leaf_chunk_not_panic b). destruct (leaf_chunk b); cbn [bind]; try congruence.
  apply packed_val_not_panic.
Qed.

Lemma node_elem_not_panic tys anchor d k : node_elem tys anchor d k <> Panic.
Proof.
  unfold node_elem. pose proof (bottom_not_panic anchor d (N.of_nat k)).
  destruct (bottom anchor d (N.of_nat k)) as [m| |]; cbn [bind]; try congruence.
  destruct (tys k) as [t|]; [|discriminate]. destruct (view_from_backing_ok t m); discriminate.
Qed.

(* ---- the getters in terms of [bottom] ---- *)

Lemma get_node_bottom t n q : view_depth t < 64 -> q < 2 ^ view_depth t ->
  get_node t n q = bottom n (view_depth t) q.
Proof.
  intros Hd Hq. unfold get_node. rewrite to_gindex64_spec.
  rewrite (proj2 (N.ltb_lt _ _) Hd), (proj2 (N.ltb_lt _ _) Hq). cbn [andb bind].
  symmetry. now apply bottom_getter.
Qed.

Lemma index_path_succ d q : q < 2 ^ d -> index_path (d + 1) q = false :: index_path d q.
Proof.
  intros Hq. unfold index_path.
  replace (N.to_nat (d + 1)) with (S (N.to_nat d)) by lia.
  cbn [seq map]. f_equal.
  - apply (testbit_small q d); [exact Hq|lia].
  - rewrite <- seq_shift, map_map. apply map_ext. intros k. f_equal. lia.
Qed.

(* lists: the contents sit under the left child, one level down *)
Lemma get_node_bottom_list t c r q d : view_depth t = d + 1 -> d + 1 < 64 -> q < 2 ^ d ->
  get_node t (Pair c r) q = bottom c d q.
Proof.
  intros Hv Hd Hq.
  assert (Hq' : q < 2 ^ (d + 1)) by (rewrite N.pow_add_r; change (2 ^ 1) with 2; lia).
  rewrite get_node_bottom by (rewrite Hv; assumption).
  rewrite Hv. unfold bottom. rewrite (index_path_succ d q Hq). reflexivity.
Qed.

Lemma list_length_not_panic k n : list_length k n <> Panic.
Proof.
  unfold list_length. destruct n as [c|l [c|a b]]; try discriminate.
  destruct (k <? _); discriminate.
Qed.

Lemma list_length_ok k n ll : list_length k n = OK ll ->
  exists c r, n = Pair c r /\ ll <= k.
Proof.
  unfold list_length. destruct n as [c|l [c|a b]]; try discriminate.
  destruct (N.ltb_spec k (le_val (firstn 8 c))) as [H|H]; [discriminate|].
  intros E. injection E as <-. eauto.
Qed.

Lemma check_index_ok t n ll i : list_length (list_limit t) n = OK ll -> i < ll ->
  check_index t n i = OK tt.
Proof.
  intros Hl Hi. unfold check_index. rewrite Hl. cbn [bind].
  destruct (list_length_ok _ _ _ Hl) as (c & r & _ & Hle).
  rewrite (proj2 (N.leb_gt ll i)) by lia. rewrite (proj2 (N.leb_gt (list_limit t) i)) by lia.
  reflexivity.
Qed.

(* per_node of a well-formed basic element is a power of two, at most 32 *)
Lemma per_node_uint w : uint_width_ok w = true ->
  exists s, per_node (TUint w) = 2 ^ s /\ s <= 5.
Proof.
  unfold uint_width_ok. rewrite !orb_true_iff, !N.eqb_eq.
  intros [[[[->| ->]| ->]| ->]| ->]; [exists 5|exists 4|exists 3|exists 2|exists 0]; split;
    (reflexivity || lia).
Qed.

Lemma land_pow2_pred i s : N.land i (2 ^ s - 1) = i mod 2 ^ s.
Proof. rewrite N.sub_1_r, <- N.ones_equiv. apply N.land_ones. Qed.

Lemma packed_index e i : is_basic_elem e = true -> wf_ty e = true ->
  1 <= per_node e /\ wrap8 (N.land i (per_node e - 1)) = i mod per_node e.
Proof.
  destruct e; try discriminate. intros _ Hwf. cbn [wf_ty] in Hwf.
  destruct (per_node_uint w Hwf) as (s & -> & Hs).
  pose proof (pow2_pos s). split; [lia|].
  rewrite land_pow2_pred. unfold wrap8. apply N.mod_small.
  assert (2 ^ s <= 2 ^ 5) by (apply N.pow_le_mono_r; lia). change (2 ^ 5) with 32 in *.
  pose proof (N.mod_lt i (2 ^ s)). lia.
Qed.

Lemma div_lt_bound i p d len : 1 <= p -> i < len -> len <= 2 ^ d * p -> i / p < 2 ^ d.
Proof.
  intros Hp Hi Hl. apply N.div_lt_upper_bound; [lia|]. rewrite N.mul_comm. lia.
Qed.

Lemma seq_in_lt k len : In k (seq 0 (N.to_nat len)) -> N.of_nat k < len.
Proof. intros H. apply in_seq in H. lia. Qed.

Lemma packed_tail e anchor d k gn a :
  is_basic_elem e = true -> wf_ty e = true ->
  gn = bottom anchor d (N.of_nat k / per_node e) ->
  packed_elem e anchor d k = OK a ->
  got_step (do b <- gn; do c <- leaf_chunk b;
            do v <- packed_val e c (wrap8 (N.land (N.of_nat k) (per_node e - 1))); OK (GVal v)) = IVal a.
Proof.
  intros Hb Hwf -> He. destruct (packed_index e (N.of_nat k) Hb Hwf) as [_ ->].
  unfold packed_elem in He.
  destruct (bottom anchor d (N.of_nat k / per_node e)) as [b| |]; cbn [bind] in *; try discriminate.
  destruct (leaf_chunk b) as [c| |]; cbn [bind] in *; try discriminate.
  rewrite He. reflexivity.
Qed.

Lemma bit_tail anchor d k gn a :
  gn = bottom anchor d (N.of_nat k / 256) ->
  bit_elem anchor d k = OK a ->
  got_step (do b <- gn; do c <- leaf_chunk b;
            OK (GVal (VBool (chunk_get_bit c (wrap8 (N.of_nat k)))))) = IVal (VBool a).
Proof.
  intros -> He. unfold bit_elem in He. unfold wrap8.
  destruct (bottom anchor d (N.of_nat k / 256)) as [b| |]; cbn [bind] in *; try discriminate.
  destruct (leaf_chunk b) as [c| |]; cbn [bind] in *; try discriminate.
  injection He as <-. reflexivity.
Qed.

Lemma node_tail tys anchor d k gn t0 a :
  gn = bottom anchor d (N.of_nat k) -> tys k = Some t0 ->
  node_elem tys anchor d k = OK a ->
  got_step (do c <- gn; OK (GNode t0 c)) = a /\ is_comp a = true.
Proof.
  intros -> Ht He. unfold node_elem in He. rewrite Ht in He.
  destruct (bottom anchor d (N.of_nat k)) as [m| |]; cbn [bind] in *; try discriminate.
  destruct (view_from_backing_ok t0 m); [|discriminate]. injection He as <-. split; reflexivity.
Qed.

Lemma shiftr8 i : N.shiftr i 8 = i / 256.
Proof. rewrite N.shiftr_div_pow2. reflexivity. Qed.

Local Ltac solve_np :=
  first [apply bit_elem_not_panic | apply packed_elem_not_panic | apply node_elem_not_panic].

Theorem ro_get_agree t n extra :
  wf_ty t = true -> view_depth t < 64 ->
  agree (ro_iter t n extra) (get_all t n) extra.
Proof.
  intros Hwf Hvd. destruct t as [w| |k| |k|k|e k|e k|fs|none opts]; try apply agree_err.
  - (* Bitvector *)
    cbn [ro_iter]. unfold get_all. cbn [series_len]. unfold nat_of.
    set (t := TBitvector k) in *. set (d := view_depth t) in *.
    destruct (bit_iter_ok d k) eqn:Hok; [|apply agree_err].
    destruct (bit_iter_ok_le d k Hvd Hok) as [Hl H64].
    rewrite bit_iter_drain_spec by lia.
    apply agree_steps; [intros i _; solve_np|]. intros i a Hin He. apply seq_in_lt in Hin. split; [|reflexivity].
    unfold view_get, t; fold t. rewrite (proj2 (N.leb_gt k (N.of_nat i)) Hin). rewrite shiftr8.
    apply (bit_tail n d i); [|exact He].
    apply get_node_bottom; [exact Hvd|]. apply (div_lt_bound _ 256 d k); lia.
  - (* Bitlist *)
    cbn [ro_iter]. unfold get_all. cbn [series_len]. unfold nat_of.
    set (t := TBitlist k) in *.
    destruct (list_length k n) as [ll| |] eqn:Hll;
      [|destruct n; apply agree_err|exfalso; exact (list_length_not_panic _ _ Hll)].
    destruct (list_length_ok _ _ _ Hll) as (c & r & -> & Hle). cbn [node_left].
    set (d := contents_depth t) in *.
    assert (Hd : view_depth t = d + 1) by reflexivity.
    destruct (bit_iter_ok d ll) eqn:Hok; [|apply agree_err].
    destruct (bit_iter_ok_le d ll ltac:(lia) Hok) as [Hl H64].
    rewrite bit_iter_drain_spec by lia.
    apply agree_steps; [intros i _; solve_np|]. intros i a Hin He. apply seq_in_lt in Hin. split; [|reflexivity].
    unfold view_get, t; fold t. rewrite (check_index_ok t _ ll) by assumption. cbn [bind].
    rewrite shiftr8.
    apply (bit_tail c d i); [|exact He].
    apply get_node_bottom_list; [exact Hd|lia|]. apply (div_lt_bound _ 256 d ll); lia.
  - (* Vector *)
    cbn [wf_ty] in Hwf. apply andb_true_iff in Hwf. destruct Hwf as [_ Hwfe].
    cbn [ro_iter]. unfold get_all. cbn [series_len]. unfold nat_of.
    set (t := TVector e k) in *. set (d := view_depth t) in *.
    destruct (is_basic_elem e) eqn:Hb.
    + destruct (basic_iter_ok e d k) eqn:Hok; [|apply agree_err].
      destruct (basic_iter_ok_le e d k Hvd Hok) as [Hl H64].
      destruct (packed_index e 0 Hb Hwfe) as [Hp _].
      rewrite basic_iter_drain_spec by lia.
      apply agree_steps; [intros i _; solve_np|]. intros i a Hin He. apply seq_in_lt in Hin. split; [|reflexivity].
      unfold view_get, t; fold t. rewrite (proj2 (N.leb_gt k (N.of_nat i)) Hin). rewrite Hb.
      cbv zeta. apply (packed_tail e n d i); try assumption.
      apply get_node_bottom; [exact Hvd|]. apply (div_lt_bound _ (per_node e) d k); lia.
    + destruct (node_iter_ok d k) eqn:Hok; [|apply agree_err].
      apply (node_iter_ok_spec d k Hvd) in Hok. pose proof (pow2_le_64 d Hvd).
      rewrite node_iter_drain_init by lia.
      apply agree_steps; [intros i _; solve_np|]. intros i a Hin He. apply seq_in_lt in Hin.
      unfold view_get, t; fold t. rewrite (proj2 (N.leb_gt k (N.of_nat i)) Hin). rewrite Hb.
      apply (node_tail (fun _ => Some e) n d i); [|reflexivity|exact He].
      apply get_node_bottom; [exact Hvd|fold d; lia].
  - (* List *)
    cbn [wf_ty] in Hwf. rename Hwf into Hwfe.
    cbn [ro_iter]. unfold get_all. cbn [series_len]. unfold nat_of.
    set (t := TList e k) in *.
    destruct (list_length k n) as [ll| |] eqn:Hll;
      [|destruct n; apply agree_err|exfalso; exact (list_length_not_panic _ _ Hll)].
    destruct (list_length_ok _ _ _ Hll) as (c & r & -> & Hle). cbn [node_left].
    set (d := contents_depth t) in *.
    assert (Hd : view_depth t = d + 1) by reflexivity.
    cbv zeta.
    destruct (is_basic_elem e) eqn:Hb.
    + destruct (basic_iter_ok e d ll) eqn:Hok; [|apply agree_err].
      destruct (basic_iter_ok_le e d ll ltac:(lia) Hok) as [Hl H64].
      destruct (packed_index e 0 Hb Hwfe) as [Hp _].
      rewrite basic_iter_drain_spec by lia.
      apply agree_steps; [intros i _; solve_np|]. intros i a Hin He. apply seq_in_lt in Hin. split; [|reflexivity].
      unfold view_get, t; fold t. rewrite (check_index_ok t _ ll) by assumption. cbn [bind].
      rewrite Hb. cbv zeta. apply (packed_tail e c d i); try assumption.
      apply get_node_bottom_list; [exact Hd|lia|].
      apply (div_lt_bound _ (per_node e) d ll); lia.
    + destruct (node_iter_ok d ll) eqn:Hok; [|apply agree_err].
      apply (node_iter_ok_spec d ll ltac:(lia)) in Hok. pose proof (pow2_le_64 d ltac:(lia)).
      rewrite node_iter_drain_init by lia.
      apply agree_steps; [intros i _; solve_np|]. intros i a Hin He. apply seq_in_lt in Hin.
      unfold view_get, t; fold t. rewrite (check_index_ok t _ ll) by assumption. cbn [bind].
      rewrite Hb.
      apply (node_tail (fun _ => Some e) c d i); [|reflexivity|exact He].
      apply get_node_bottom_list; [exact Hd|lia|lia].
  - (* Container *)
    cbn [ro_iter]. unfold get_all. cbn [series_len]. unfold nat_of.
    set (t := TContainer fs) in *. set (d := view_depth t) in *.
    destruct (node_iter_ok d (N.of_nat (length fs))) eqn:Hok; [|apply agree_err].
    apply (node_iter_ok_spec d _ Hvd) in Hok. pose proof (pow2_le_64 d Hvd).
    rewrite <- (Nat2N.id (length fs)) at 1.
    rewrite node_iter_drain_init by lia.
    apply agree_steps; [intros i _; solve_np|]. intros i a Hin He. apply seq_in_lt in Hin.
    unfold view_get, t; fold t. unfold nat_of. rewrite Nat2N.id.
    destruct (nth_error fs i) as [f|] eqn:Hf.
    + apply (node_tail (fun i => nth_error fs i) n d i); [|exact Hf|exact He].
      apply get_node_bottom; [exact Hvd|fold d; lia].
    + exfalso. unfold node_elem in He. rewrite Hf in He.
      destruct (bottom n d (N.of_nat i)); discriminate.
Qed.

(* ---- the user-facing corollaries ---- *)

Lemma get_all_length t n len : series_len t n = OK len -> length (get_all t n) = N.to_nat len.
Proof. intros H. unfold get_all, nat_of. rewrite H. now rewrite map_length, seq_length. Qed.

Lemma get_all_comp_len t n :
  Forall (fun s => is_comp s = true) (get_all t n) -> get_all t n <> [] ->
  exists len, series_len t n = OK len.
Proof.
  unfold get_all. destruct (series_len t n) as [len| |]; [eauto| |];
    intros HF _; inversion HF; discriminate.
Qed.

Theorem ix_eq_get t n extra len : series_len t n = OK len ->
  ix_iter t n extra = get_all t n ++ repeat IEnd extra /\
  length (get_all t n) = N.to_nat len.
Proof.
  intros H. split; [|now apply get_all_length]. unfold ix_iter, get_all. now rewrite H.
Qed.

Theorem ro_no_panic t n extra : wf_ty t = true -> view_depth t < 64 ->
  ~ In IPanic (ro_iter t n extra).
Proof. intros Hwf Hvd. apply (ro_get_agree t n extra Hwf Hvd). Qed.

(* ro_iter of a non-series type or of a broken list is [IErr]; so "no IErr" gives a length *)
Lemma ro_iter_series_len t n extra : ~ In IErr (ro_iter t n extra) ->
  exists len, series_len t n = OK len.
Proof.
  intros H. destruct t; cbn [series_len]; eauto; try (exfalso; apply H; now left).
  - cbn [ro_iter] in H. destruct (list_length n0 n) as [ll| |] eqn:Hll; [eauto| |].
    + exfalso. apply H. destruct n; now left.
    + exfalso. exact (list_length_not_panic _ _ Hll).
  - cbn [ro_iter] in H. destruct (list_length n0 n) as [ll| |] eqn:Hll; [eauto| |].
    + exfalso. apply H. destruct n; now left.
    + exfalso. exact (list_length_not_panic _ _ Hll).
Qed.

Theorem ro_eq_get t n extra : wf_ty t = true -> view_depth t < 64 ->
  ~ In IErr (ro_iter t n extra) ->
  exists len, series_len t n = OK len /\
    ro_iter t n extra = get_all t n ++ repeat IEnd extra /\
    length (get_all t n) = N.to_nat len /\
    Forall (fun s => is_comp s = true) (get_all t n).
Proof.
  intros Hwf Hvd Hclean.
  destruct (ro_get_agree t n extra Hwf Hvd) as (_ & H1 & _).
  destruct (H1 Hclean) as [E F].
  destruct (ro_iter_series_len t n extra Hclean) as [len Hlen].
  exists len. split; [exact Hlen|]. split; [exact E|]. split; [now apply get_all_length|exact F].
Qed.

Theorem ro_sound t n extra i s : wf_ty t = true -> view_depth t < 64 ->
  nth_error (ro_iter t n extra) i = Some s -> is_comp s = true ->
  nth_error (get_all t n) i = Some s /\
  exists len, series_len t n = OK len /\ N.of_nat i < len.
Proof.
  intros Hwf Hvd Hn Hc.
  destruct (ro_get_agree t n extra Hwf Hvd) as (_ & _ & H2).
  pose proof (H2 i s Hn Hc) as Hg. split; [exact Hg|].
  assert (Hi : (i < length (get_all t n))%nat) by (apply nth_error_Some; congruence).
  revert Hg Hi. unfold get_all. destruct (series_len t n) as [len| |].
  - intros _ Hi. rewrite map_length, seq_length in Hi. unfold nat_of in Hi.
    exists len. split; [reflexivity|lia].
  - intros Hg _. destruct i as [|[|i]]; cbn in Hg; try discriminate.
    injection Hg as <-. discriminate.
  - intros Hg _. destruct i as [|[|i]]; cbn in Hg; try discriminate.
    injection Hg as <-. discriminate.
Qed.

(* the end is reported exactly from the length on, and keeps being reported *)
Theorem ro_end_exact t n extra i : wf_ty t = true -> view_depth t < 64 ->
  ~ In IErr (ro_iter t n extra) ->
  exists len, series_len t n = OK len /\
    (nth_error (ro_iter t n extra) i = Some IEnd <->
     (N.to_nat len <= i < N.to_nat len + extra)%nat) /\
    ((i < N.to_nat len)%nat ->
     exists s, nth_error (ro_iter t n extra) i = Some s /\ is_comp s = true).
Proof.
  intros Hwf Hvd Hclean.
  destruct (ro_eq_get t n extra Hwf Hvd Hclean) as (len & Hlen & E & L & F).
  exists len. split; [exact Hlen|]. rewrite E.
  destruct (Nat.lt_ge_cases i (N.to_nat len)) as [Hi|Hi].
  - rewrite nth_error_app1 by lia.
    destruct (nth_error (get_all t n) i) as [s|] eqn:Hs;
      [|apply nth_error_None in Hs; lia].
    assert (Hc : is_comp s = true).
    { rewrite Forall_forall in F. apply F. eapply nth_error_In; eassumption. }
    split.
    + split; [intros Hs'; injection Hs' as ->; discriminate|lia].
    + intros _. exists s. split; [reflexivity|exact Hc].
  - rewrite nth_error_app2 by lia. rewrite L. split; [|lia].
    split.
    + intros Hs. assert (i - N.to_nat len < extra)%nat; [|lia].
      rewrite <- (repeat_length IEnd extra). apply nth_error_Some. congruence.
    + intros Hr. rewrite (nth_error_nth' _ IEnd) by (rewrite repeat_length; lia).
      f_equal. apply (repeat_spec extra IEnd). apply nth_In. rewrite repeat_length. lia.
Qed.

(* ------------------------------------------------------------------------------------- *)
(* 7. examples (hypotheses are satisfiable) and counterexamples (hypotheses are needed)  *)
(* ------------------------------------------------------------------------------------- *)

Definition xzh : nat -> chunk := zero_hash (fun a b => a).
Definition xc (k : N) : chunk := pad32 [byte_of_N k].
(* a left spine of depth d with chunk c at the bottom-left position *)
Fixpoint spine (d : nat) (c : chunk) : node :=
  match d with O => Leaf c | S d' => Pair (spine d' c) (Leaf zero_chunk) end.

(* depth 2, three of the four bottom nodes in use *)
Definition ex_anchor : node := Pair (Pair (Leaf (xc 1)) (Leaf (xc 2))) (Pair (Leaf (xc 3)) (Leaf zero_chunk)).
(* the right half is a summary leaf: bottom nodes 2 and 3 are missing *)
Definition ex_missing : node := Pair (Pair (Leaf (xc 1)) (Leaf (xc 2))) (Leaf (xzh 1)).

Example ex_node_iter_seq :
  2 < 64 /\ 3 <= 2 ^ 2 /\
  (forall i, i < 3 -> exists m, bottom ex_anchor 2 i = OK m) /\
  node_iter_all ex_anchor 3 2 = OK [Leaf (xc 1); Leaf (xc 2); Leaf (xc 3)].
Proof.
  split; [lia|]. split; [vm_compute; discriminate|]. split; [|vm_compute; reflexivity].
  intros i Hi.
  assert (Hc : i = 0 \/ i = 1 \/ i = 2) by lia.
  destruct Hc as [->|[->| ->]]; eexists; vm_compute; reflexivity.
Qed.

Example ex_node_iter_missing :
  bottom ex_missing 2 2 = Err /\
  node_iter_all ex_missing 3 2 = Err /\
  node_iter_take ex_missing 3 2 2 (ni_init 2) = OK [Leaf (xc 1); Leaf (xc 2)] /\
  node_iter_drain 4 (fun _ => Some TRoot) ex_missing 3 2 (ni_init 2) 0 =
    [INode TRoot (Leaf (xc 1)); INode TRoot (Leaf (xc 2)); IErr].
Proof. repeat split; vm_compute; reflexivity. Qed.

Definition fst_ok {A B} (r : res (A * B)) : option A :=
  match r with OK (a, _) => Some a | _ => None end.

(* the end is sticky *)
Example ex_node_iter_calls :
  node_iter_calls ex_anchor 3 2 2 (ni_init 2) =
    OK (Some (Leaf (xc 3)),
        mkNI 3 [Some ex_anchor; Some (Pair (Leaf (xc 3)) (Leaf zero_chunk))]) /\
  fst_ok (node_iter_calls ex_anchor 3 2 3 (ni_init 2)) = Some None /\
  fst_ok (node_iter_calls ex_anchor 3 2 7 (ni_init 2)) = Some None.
Proof. repeat split; vm_compute; reflexivity. Qed.

(* COUNTEREXAMPLE (depth = 64): uint64(1) << 64 = 0 in Go and in the model, so the length
   check of nodeReadonlyIter rejects every non-zero length although bottom node 0 exists:
   [node_iter_seq] needs depth < 64, not depth <= 64. *)
Example cex_depth64 :
  node_iter_all (spine 64 (xc 7)) 1 64 = Err /\
  bottom (spine 64 (xc 7)) 64 0 = OK (Leaf (xc 7)) /\ 1 <= 2 ^ 64.
Proof. split; [|split]; vm_compute; (reflexivity || discriminate). Qed.

(* a list of 20 uint16 (limit 40): 16 per bottom node, contents depth 2 *)
Definition ex_ty : ty := TList (TUint 2) 40.
Definition ex_val : val :=
  VSeq (map VUint [1;2;3;4;5;6;7;8;9;10;11;12;13;14;15;16;17;18;19;20]).
Definition ex_node : node :=
  match from_val xzh ex_ty ex_val with OK n => n | _ => Leaf zero_chunk end.

Example ex_ro_eq_get :
  wf_ty ex_ty = true /\ view_depth ex_ty < 64 /\ ~ In IErr (ro_iter ex_ty ex_node 2) /\
  series_len ex_ty ex_node = OK 20 /\
  ro_iter ex_ty ex_node 2 = map (fun x => IVal (VUint x))
      [1;2;3;4;5;6;7;8;9;10;11;12;13;14;15;16;17;18;19;20] ++ [IEnd; IEnd].
Proof.
  split; [reflexivity|]. split; [vm_compute; reflexivity|].
  split; [|split; vm_compute; reflexivity].
  vm_compute. intros H.
  repeat (destruct H as [H|H]; [discriminate|]). exact H.
Qed.

(* a bitvector of 300 bits over two bottom nodes whose second node is missing:
   256 correct bits, then an error (never a wrong bit) *)
Definition ex_bv : ty := TBitvector 300.
Definition ex_bv_node : node := Pair (Leaf (xc 5)) (Pair (Leaf (xc 1)) (Leaf (xc 1))).
Example ex_ro_sound_err :
  wf_ty ex_bv = true /\ view_depth ex_bv < 64 /\
  nth_error (ro_iter ex_bv ex_bv_node 1) 2 = Some (IVal (VBool true)) /\
  nth_error (ro_iter ex_bv ex_bv_node 1) 256 = Some IErr /\
  length (ro_iter ex_bv ex_bv_node 1) = 257%nat.
Proof. repeat split; vm_compute; reflexivity. Qed.

(* COUNTEREXAMPLE (view_depth = 64): a list type whose contents subtree has depth 63
   (limit 2^63 uint256 elements).  The read-only iterator works (it navigates with the
   stack, depth 63 < 64), but the indexed getter fails: SubtreeView.GetNode calls
   ToGindex64(i, depth = 64), which rejects depth >= 64.  So [view_depth t < 64] is needed
   for the agreement of iterator and getters; this is the behaviour of the Go code too. *)
Definition cex_t63 : ty := TList (TUint 32) (2 ^ 63).
Definition cex_n63 : node := Pair (spine 63 (xc 7)) (len_leaf 1).
Example cex_view_depth64 :
  wf_ty cex_t63 = true /\ view_depth cex_t63 = 64 /\
  ro_iter cex_t63 cex_n63 1 = [IVal (VUint 7); IEnd] /\
  get_all cex_t63 cex_n63 = [IErr] /\
  ix_iter cex_t63 cex_n63 1 = [IErr; IEnd].
Proof. repeat split; vm_compute; reflexivity. Qed.

(* ------------------------------------------------------------------------------------- *)
(* 8. step-wise and soundness corollaries in closed form                                 *)
(* ------------------------------------------------------------------------------------- *)

Theorem node_iter_step anchor len depth k :
  depth < 256 -> len <= 2 ^ depth -> len <= 2 ^ 64 ->
  (forall x, x < N.of_nat k -> x < len -> exists m, bottom anchor depth x = OK m) ->
  (N.of_nat k < len ->
     match bottom anchor depth (N.of_nat k) with
     | OK m => exists it', node_iter_calls anchor len depth k (ni_init depth) = OK (Some m, it')
     | Err => node_iter_calls anchor len depth k (ni_init depth) = Err
     | Panic => False
     end) /\
  (len <= N.of_nat k ->
     exists it', node_iter_calls anchor len depth k (ni_init depth) = OK (None, it') /\
                 node_iter_next anchor len depth it' = OK (None, it')).
Proof.
  intros Hd Hl H64 Hall.
  destruct (node_iter_calls_spec anchor len depth Hd Hl H64 k 0%nat (repeat None (nat_of depth)))
    as [S1 S2]; [lia|apply seek_inv_init| |].
  - intros x Hx1 Hx2. apply Hall; lia.
  - cbn [Nat.add N.of_nat] in *. split.
    + intros Hk. specialize (S1 ltac:(lia)). unfold ni_init.
      destruct (bottom anchor depth (N.of_nat k)) as [m| |]; [|exact S1|exact S1].
      destruct S1 as [stk' E]. eexists. exact E.
    + intros Hk. destruct (S2 ltac:(lia)) as [stk' E]. unfold ni_init.
      eexists. split; [exact E|]. apply node_iter_next_end. cbn [ni_i]. lia.
Qed.

Lemma steps_of_nth_comp {A} (f : A -> istep) extra : forall rs i s,
  nth_error (steps_of f rs extra) i = Some s -> is_comp s = true ->
  exists a, nth_error rs i = Some (OK a) /\ s = f a.
Proof.
  induction rs as [|r rs IH]; intros i s Hn Hc.
  - cbn [steps_of] in Hn. apply nth_error_In, repeat_spec in Hn. subst s. discriminate.
  - destruct r as [a| |]; cbn [steps_of] in Hn.
    + destruct i as [|i]; cbn [nth_error] in *.
      * injection Hn as <-. exists a. split; reflexivity.
      * now apply IH.
    + destruct i as [|[|i]]; cbn in Hn; try discriminate. injection Hn as <-. discriminate.
    + destruct i as [|[|i]]; cbn in Hn; try discriminate. injection Hn as <-. discriminate.
Qed.

Lemma nth_error_map_seq {A} (g : nat -> A) len i x :
  nth_error (map g (seq 0 len)) i = Some x -> (i < len)%nat /\ x = g i.
Proof.
  intros H.
  assert (Hi : (i < len)%nat).
  { rewrite <- (seq_length len 0), <- (map_length g). apply nth_error_Some. congruence. }
  split; [exact Hi|].
  rewrite nth_error_map, (nth_error_nth' _ 0%nat) in H by (rewrite seq_length; lia).
  rewrite seq_nth in H by lia. cbn in H. congruence.
Qed.

(* never a wrong component: what a packed iterator yields at position i is element i *)
Theorem basic_iter_sound e anchor depth len extra i s :
  1 <= per_node e -> depth < 256 -> len <= 2 ^ depth * per_node e -> len <= 2 ^ 64 ->
  nth_error (basic_iter_drain (N.to_nat len + extra) e anchor len depth (basic_iter_init e depth)) i
    = Some s ->
  is_comp s = true ->
  exists v, s = IVal v /\ packed_elem e anchor depth i = OK v /\ N.of_nat i < len.
Proof.
  intros HP Hd Hl H64 Hn Hc. rewrite basic_iter_drain_spec in Hn by assumption.
  destruct (steps_of_nth_comp _ _ _ _ _ Hn Hc) as (v & Hv & ->).
  apply nth_error_map_seq in Hv. destruct Hv as [Hi Hv]. exists v. repeat split; [now symmetry|lia].
Qed.

Theorem bit_iter_sound anchor depth len extra i s :
  depth < 256 -> len <= 2 ^ depth * 256 -> len <= 2 ^ 64 ->
  nth_error (bit_iter_drain (N.to_nat len + extra) anchor len depth (bit_iter_init depth)) i = Some s ->
  is_comp s = true ->
  exists b, s = IVal (VBool b) /\ bit_elem anchor depth i = OK b /\ N.of_nat i < len.
Proof.
  intros Hd Hl H64 Hn Hc. rewrite bit_iter_drain_spec in Hn by assumption.
  destruct (steps_of_nth_comp _ _ _ _ _ Hn Hc) as (v & Hv & ->).
  apply nth_error_map_seq in Hv. destruct Hv as [Hi Hv]. exists v. repeat split; [now symmetry|lia].
Qed.

(* the per_node values of the legal basic element types *)
Lemma per_node_values :
  per_node (TUint 1) = 32 /\ per_node (TUint 2) = 16 /\ per_node (TUint 4) = 8 /\
  per_node (TUint 8) = 4 /\ per_node (TUint 32) = 1.
Proof. repeat split; reflexivity. Qed.

Lemma basic_iter_ok_spec e depth len : depth < 64 -> 2 ^ depth * per_node e < 2 ^ 64 ->
  (basic_iter_ok e depth len = true <-> len <= 2 ^ depth * per_node e).
Proof.
  intros Hd Hs. unfold basic_iter_ok. rewrite negb_true_iff, N.ltb_ge.
  rewrite (shl64_1 depth Hd). unfold mul64, wrap64. rewrite two64_eq.
  rewrite N.mod_small by exact Hs. reflexivity.
Qed.

Lemma bit_iter_ok_spec depth len : depth < 56 ->
  (bit_iter_ok depth len = true <-> len <= 2 ^ depth * 256).
Proof.
  intros Hd. unfold bit_iter_ok. rewrite negb_true_iff, N.ltb_ge.
  rewrite (shl64_1 depth) by lia. unfold shl64, wrap64. rewrite two64_eq.
  rewrite N.shiftl_mul_pow2. change (2 ^ 8) with 256.
  assert (2 ^ depth * 256 < 2 ^ 64).
  { change 256 with (2 ^ 8). rewrite <- N.pow_add_r. apply N.pow_lt_mono_r; lia. }
  rewrite N.mod_small by assumption. reflexivity.
Qed.

(* ------------------------------------------------------------------------------------- *)
(* 9. trees that represent a value                                                       *)
(* ------------------------------------------------------------------------------------- *)

Lemma index_path_cons d q : index_path (d + 1) q = N.testbit q d :: index_path d q.
Proof.
  unfold index_path.
  replace (N.to_nat (d + 1)) with (S (N.to_nat d)) by lia.
  cbn [seq map]. f_equal.
  - f_equal. lia.
  - rewrite <- seq_shift, map_map. apply map_ext. intros k. f_equal. lia.
Qed.

Lemma index_path_mod d q : index_path d (q mod 2 ^ d) = index_path d q.
Proof.
  unfold index_path. apply map_ext_in. intros k Hk. apply in_seq in Hk.
  apply N.mod_pow2_bits_low. lia.
Qed.

Lemma nth_error_firstn' {A} : forall (l : list A) k i, (i < k)%nat ->
  nth_error (firstn k l) i = nth_error l i.
Proof.
  induction l as [|x l IH]; intros k i Hi; [now rewrite firstn_nil|].
  destruct k; [lia|]. destruct i; cbn; [reflexivity|]. apply IH. lia.
Qed.

Lemma nth_error_skipn' {A} : forall k (l : list A) i,
  nth_error (skipn k l) i = nth_error l (k + i).
Proof.
  induction k as [|k IH]; intros l i; [reflexivity|].
  destruct l as [|x l]; [now destruct i|]. cbn. apply IH.
Qed.

Section WithZeroTable.
Variable zh : nat -> chunk.

Lemma series_bottom : forall d ps n i p,
  series zh d ps n -> nth_error ps i = Some p ->
  exists m, bottom n (N.of_nat d) (N.of_nat i) = OK m /\ p m.
Proof.
  induction d as [|d IH]; intros ps n i p Hs Hn.
  - destruct ps as [|p0 rest]; [destruct i; discriminate|].
    apply (proj1 (series_0 zh p0 rest n)) in Hs. destruct Hs as [-> Hp].
    destruct i as [|i]; [|destruct i; discriminate]. injection Hn as <-.
    exists n. split; [|exact Hp]. unfold bottom, index_path. cbn. apply get_path_nil'.
  - pose proof (series_length zh _ _ _ Hs) as Hlen.
    assert (Hi : N.of_nat i < lenN ps).
    { unfold lenN.
      assert (i < length ps)%nat by (apply nth_error_Some; congruence). lia. }
    replace (N.of_nat (S d)) with (N.of_nat d + 1) in * by lia.
    rewrite N.pow_add_r in Hlen. change (2 ^ 1) with 2 in Hlen.
    destruct n as [c|a b].
    + apply (proj1 (series_leaf zh d ps c)) in Hs. destruct Hs as [-> _]. destruct i; discriminate.
    + rewrite series_pair in Hs. unfold bottom. rewrite index_path_cons.
      set (h := 2 ^ N.of_nat d) in *.
      destruct (N.leb_spec (lenN ps) h) as [Hle|Hgt].
      * destruct Hs as [Ha _].
        rewrite (testbit_small (N.of_nat i) (N.of_nat d) (N.of_nat d)) by (fold h; lia).
        cbn [get_path]. apply (IH ps a i p Ha Hn).
      * destruct Hs as [Ha Hb]. unfold nat_of in *.
        destruct (N.lt_ge_cases (N.of_nat i) h) as [Hlo|Hhi].
        -- rewrite (testbit_small (N.of_nat i) (N.of_nat d) (N.of_nat d)) by (fold h; lia).
           cbn [get_path]. apply (IH _ a i p Ha).
           rewrite nth_error_firstn' by lia. exact Hn.
        -- pose proof (testbit_top (N.of_nat d + 1) (N.of_nat i)) as Ht.
           replace (N.of_nat d + 1 - 1) with (N.of_nat d) in Ht by lia. fold h in Ht.
           rewrite Ht by (try lia; rewrite N.pow_add_r; change (2 ^ 1) with 2; fold h; lia).
           rewrite (proj2 (N.ltb_ge _ _) Hhi). cbn [negb get_path].
           rewrite <- index_path_mod. fold h.
           assert (Hm : N.of_nat i mod h = N.of_nat (i - N.to_nat h)).
           { symmetry. apply (N.mod_unique _ h 1); lia. }
           rewrite Hm. apply (IH _ b (i - N.to_nat h)%nat p Hb).
           rewrite nth_error_skipn'. replace (N.to_nat h + (i - N.to_nat h))%nat with i by lia.
           exact Hn.
Qed.

End WithZeroTable.

(* ---- generic: all results present ---- *)

Lemma steps_of_all_ok {A} (f : A -> istep) (el : nat -> res A) (g : nat -> A) extra : forall l,
  (forall k, In k l -> el k = OK (g k)) ->
  steps_of f (map el l) extra = map (fun k => f (g k)) l ++ repeat IEnd extra.
Proof.
  induction l as [|k l IH]; intros Hall; [reflexivity|].
  cbn [map steps_of app]. rewrite (Hall k (or_introl eq_refl)). f_equal.
  apply IH. intros k' Hk'. apply Hall. now right.
Qed.

Lemma steps_of_forall2 {A X} (f : A -> istep) (R : istep -> X -> Prop) (el : nat -> res A) extra :
  forall l xs,
  Forall2 (fun k x => exists a, el k = OK a /\ R (f a) x) l xs ->
  exists steps, steps_of f (map el l) extra = steps ++ repeat IEnd extra /\ Forall2 R steps xs.
Proof.
  intros l xs HF. induction HF as [|k x l xs (a & Ha & HR) _ (steps & E & F)].
  - exists []. split; [reflexivity|constructor].
  - exists (f a :: steps). cbn [map steps_of app]. rewrite Ha, E. split; [reflexivity|].
    constructor; assumption.
Qed.

Lemma Forall2_seq_nth {X} (P : nat -> X -> Prop) : forall xs s,
  (forall i x, nth_error xs i = Some x -> P (s + i)%nat x) ->
  Forall2 P (seq s (length xs)) xs.
Proof.
  induction xs as [|x xs IH]; intros s Hall; [constructor|].
  cbn [length seq]. constructor.
  - specialize (Hall 0%nat x eq_refl). now rewrite Nat.add_0_r in Hall.
  - apply IH. intros i y Hy. replace (S s + i)%nat with (s + S i)%nat by lia. now apply Hall.
Qed.

(* ---- depth bounds from small parameters ---- *)

Lemma cover_depth_small v b : v <= 2 ^ b -> b < 64 -> cover_depth v <= b.
Proof.
  intros Hv Hb.
  assert (H64 : 2 ^ b < 2 ^ 64) by (apply N.pow_lt_mono_r; lia).
  rewrite cover_depth_log2_up by lia.
  destruct (N.eq_dec v 0) as [->|Hnz]; [cbn; lia|].
  apply N.log2_up_le_pow2; lia.
Qed.

Lemma bits_bottom_count_small k : k <= 2 ^ 56 -> bits_bottom_count k <= 2 ^ 48.
Proof.
  intros Hk. unfold bits_bottom_count, wrap64. rewrite two64_eq, shiftr8.
  change (2 ^ 56) with 72057594037927936 in Hk. change (2 ^ 64) with 18446744073709551616.
  change (2 ^ 48) with 281474976710656.
  rewrite N.mod_small by lia. lia.
Qed.

Lemma bottom_count_small e k : k <= 2 ^ 56 -> bottom_count e k <= 2 ^ 57.
Proof.
  intros Hk. unfold bottom_count. cbv zeta. pose proof (per_node_le_32 e) as Hp.
  unfold wrap64. rewrite two64_eq.
  change (2 ^ 56) with 72057594037927936 in Hk. change (2 ^ 64) with 18446744073709551616.
  change (2 ^ 57) with 144115188075855872.
  rewrite N.mod_small by lia.
  destruct (N.eq_dec (per_node e) 0) as [->|Hnz]; [cbn; lia|].
  etransitivity; [apply (N.div_le_upper_bound _ _ (k + per_node e)); [exact Hnz|]|lia].
  assert (1 * (k + per_node e) <= per_node e * (k + per_node e)) by (apply N.mul_le_mono_r; lia).
  lia.
Qed.

(* bitfields: contents depth <= 48; packed: <= 57; others: <= 56 *)
Lemma small_contents_depth t : small_params t = true ->
  match t with
  | TBitvector _ | TBitlist _ => contents_depth t <= 48
  | TVector _ _ | TList _ _ => contents_depth t <= 57
  | TContainer _ => True
  | _ => contents_depth t = 0
  end.
Proof.
  destruct t; cbn [small_params contents_depth]; intros Hs; try reflexivity; try exact I.
  - apply N.leb_le in Hs. apply cover_depth_small; [now apply bits_bottom_count_small|lia].
  - apply N.leb_le in Hs. apply cover_depth_small; [now apply bits_bottom_count_small|lia].
  - apply andb_true_iff in Hs. destruct Hs as [Hs _]. apply N.leb_le in Hs.
    destruct (is_basic_elem t); apply cover_depth_small; try lia.
    now apply bottom_count_small.
  - apply andb_true_iff in Hs. destruct Hs as [Hs _]. apply N.leb_le in Hs.
    destruct (is_basic_elem t); apply cover_depth_small; try lia.
    now apply bottom_count_small.
Qed.

Lemma small_view_depth t : small_params t = true ->
  (forall fs, t = TContainer fs -> N.of_nat (length fs) <= 2 ^ 62) ->
  view_depth t < 64.
Proof.
  intros Hs Hc. pose proof (small_contents_depth t Hs) as H.
  unfold view_depth. destruct t; cbn [is_list_ty]; try lia.
  cbn [contents_depth]. pose proof (cover_depth_small (N.of_nat (length fs)) 62 (Hc fs eq_refl)). lia.
Qed.

Section WithZeroTable2.
Variable zh : nat -> chunk.

Lemma repr_vfb e m x : wf_ty e = true -> repr zh e m x -> view_from_backing_ok e m = true.
Proof.
  intros Hwf Hr. destruct e; destruct x; cbn [repr] in Hr; try contradiction;
    try (subst m; cbn [view_from_backing_ok]); try reflexivity;
    try (destruct m; reflexivity).
  cbn [wf_ty] in Hwf. apply andb_true_iff in Hwf. exact (proj2 Hwf).
Qed.

Lemma cdepth_N t : N.of_nat (cdepth t) = contents_depth t.
Proof. unfold cdepth, nat_of. apply N2Nat.id. Qed.

(* the bottom nodes of a series of subtrees represent the components *)
Lemma series_node_elems (e : ty) d (vs : list val) anchor tys :
  wf_ty e = true -> (forall i, (i < length vs)%nat -> tys i = Some e) ->
  series zh d (map (fun x m => repr zh e m x) vs) anchor ->
  Forall2 (fun k x => exists a, node_elem tys anchor (N.of_nat d) k = OK a /\
                                 (exists m, a = INode e m /\ repr zh e m x))
          (seq 0 (length vs)) vs.
Proof.
  intros Hwf Htys Hs. apply Forall2_seq_nth. intros i x Hx. cbn [Nat.add].
  destruct (series_bottom zh d _ anchor i (fun m => repr zh e m x) Hs) as (m & Hm & Hr).
  { now rewrite nth_error_map, Hx. }
  exists (INode e m). split; [|exists m; split; [reflexivity|exact Hr]].
  unfold node_elem. rewrite Hm. cbn [bind].
  rewrite Htys by (apply nth_error_Some; congruence).
  now rewrite (repr_vfb e m x Hwf Hr).
Qed.

Theorem repr_ro_complex_vector e k n vs extra :
  is_basic_elem e = false -> wf_ty (TVector e k) = true -> small_params (TVector e k) = true ->
  repr zh (TVector e k) n (VSeq vs) -> has_type (VSeq vs) (TVector e k) = true ->
  exists steps, ro_iter (TVector e k) n extra = steps ++ repeat IEnd extra /\
    Forall2 (fun step x => exists m, step = INode e m /\ repr zh e m x) steps vs.
Proof.
  intros Hb Hwf Hsm Hr Ht.
  pose proof (small_contents_depth _ Hsm) as Hd. cbv beta iota in Hd.
  cbn [wf_ty] in Hwf. apply andb_true_iff in Hwf. destruct Hwf as [_ Hwfe].
  cbn [has_type] in Ht. apply andb_true_iff in Ht. destruct Ht as [Hlen _]. apply N.eqb_eq in Hlen.
  cbn [repr] in Hr. rewrite Hb in Hr.
  cbn [ro_iter]. rewrite Hb.
  set (t := TVector e k) in *.
  assert (Hvd : view_depth t = contents_depth t) by (unfold view_depth; cbn [is_list_ty t]; lia).
  rewrite Hvd.
  pose proof (series_length zh _ _ _ Hr) as Hsl. unfold lenN in Hsl.
  rewrite map_length, Hlen, cdepth_N in Hsl.
  rewrite (proj2 (node_iter_ok_spec (contents_depth t) k ltac:(lia)) Hsl).
  pose proof (pow2_le_64 (contents_depth t) ltac:(lia)).
  unfold nat_of. rewrite node_iter_drain_init by lia.
  apply steps_of_forall2. replace (N.to_nat k) with (length vs) by lia.
  rewrite <- cdepth_N.
  apply (series_node_elems e (cdepth t) vs n (fun _ => Some e) Hwfe); [reflexivity|exact Hr].
Qed.

Theorem repr_ro_complex_list e k n vs extra :
  is_basic_elem e = false -> wf_ty (TList e k) = true -> small_params (TList e k) = true ->
  repr zh (TList e k) n (VSeq vs) -> has_type (VSeq vs) (TList e k) = true ->
  exists steps, ro_iter (TList e k) n extra = steps ++ repeat IEnd extra /\
    Forall2 (fun step x => exists m, step = INode e m /\ repr zh e m x) steps vs.
Proof.
  intros Hb Hwf Hsm Hr Ht.
  pose proof (small_contents_depth _ Hsm) as Hd. cbv beta iota in Hd.
  cbn [wf_ty] in Hwf. rename Hwf into Hwfe.
  cbn [has_type] in Ht. apply andb_true_iff in Ht. destruct Ht as [Hlen _]. apply N.leb_le in Hlen.
  cbn [repr] in Hr. destruct Hr as (c & -> & Hr). rewrite Hb in Hr.
  cbn [ro_iter]. rewrite Hb.
  set (t := TList e k) in *.
  assert (H56 : k <= 2 ^ 56).
  { cbn [small_params] in Hsm. apply andb_true_iff in Hsm. now apply N.leb_le. }
  assert (Hll : list_length k (Pair c (len_leaf (lenN vs))) = OK (lenN vs)).
  { unfold list_length, len_leaf, lenN.
    assert (N.of_nat (length vs) < 2 ^ 64).
    { assert (2 ^ 56 < 2 ^ 64) by (apply N.pow_lt_mono_r; lia). lia. }
    assert (E : le_val (firstn 8 (pad32 (le_bytes 8 (N.of_nat (length vs))))) = N.of_nat (length vs)).
    { change (firstn 8 (pad32 (le_bytes 8 (N.of_nat (length vs)))))
        with (le_bytes 8 (N.of_nat (length vs))).
      rewrite le_val_le_bytes. rewrite pow256. apply N.mod_small. exact H. }
    rewrite E. rewrite (proj2 (N.ltb_ge _ _) Hlen). reflexivity. }
  rewrite Hll. cbn [node_left]. cbv zeta.
  pose proof (series_length zh _ _ _ Hr) as Hsl. unfold lenN in Hsl.
  rewrite map_length, cdepth_N in Hsl. fold (lenN vs) in Hsl.
  rewrite (proj2 (node_iter_ok_spec (contents_depth t) (lenN vs) ltac:(lia)) Hsl).
  pose proof (pow2_le_64 (contents_depth t) ltac:(lia)).
  unfold nat_of. rewrite node_iter_drain_init by lia.
  apply steps_of_forall2. replace (N.to_nat (lenN vs)) with (length vs) by (unfold lenN; lia).
  rewrite <- cdepth_N.
  apply (series_node_elems e (cdepth t) vs c (fun _ => Some e) Hwfe); [reflexivity|exact Hr].
Qed.

End WithZeroTable2.

Lemma list_length_len_leaf k c L : L <= k -> L < 2 ^ 64 ->
  list_length k (Pair c (len_leaf L)) = OK L.
Proof.
  intros Hk H64. unfold list_length, len_leaf.
  change (firstn 8 (pad32 (le_bytes 8 L))) with (le_bytes 8 L).
  rewrite le_val_le_bytes, pow256. change (8 * N.of_nat 8) with 64.
  rewrite N.mod_small by exact H64. now rewrite (proj2 (N.ltb_ge _ _) Hk).
Qed.

Lemma combine_nth_error {A B} : forall (l : list A) (r : list B) i a b,
  nth_error (combine l r) i = Some (a, b) -> nth_error l i = Some a /\ nth_error r i = Some b.
Proof.
  induction l as [|x l IH]; intros r i a b H; [destruct i; discriminate|].
  destruct r as [|y r]; [destruct i; discriminate|].
  destruct i; cbn in *; [injection H as -> ->; split; reflexivity|now apply IH].
Qed.

Section WithZeroTable3.
Variable zh : nat -> chunk.

Definition cont_preds : list ty -> list val -> list (node -> Prop) :=
  fix go (fs : list ty) (vs : list val) : list (node -> Prop) :=
    match fs, vs with
    | f :: fs', x :: vs' => (fun m => repr zh f m x) :: go fs' vs'
    | _, _ => []
    end.

Lemma repr_container fs n vs :
  repr zh (TContainer fs) n (VCont vs) = series zh (cdepth (TContainer fs)) (cont_preds fs vs) n.
Proof. reflexivity. Qed.

Lemma cont_preds_nth : forall fs vs i f x,
  nth_error fs i = Some f -> nth_error vs i = Some x ->
  nth_error (cont_preds fs vs) i = Some (fun m => repr zh f m x).
Proof.
  induction fs as [|f0 fs IH]; intros vs i f x Hf Hx; [destruct i; discriminate|].
  destruct vs as [|x0 vs]; [destruct i; discriminate|].
  destruct i; cbn in *; [injection Hf as ->; injection Hx as ->; reflexivity|now apply IH].
Qed.

Lemma has_type_cont_length : forall fs vs,
  has_type (VCont vs) (TContainer fs) = true -> length vs = length fs.
Proof.
  induction fs as [|f fs IH]; intros [|x vs] H; cbn in H; try discriminate; [reflexivity|].
  apply andb_true_iff in H. destruct H as [_ H]. cbn [length]. f_equal. apply IH. exact H.
Qed.

Theorem repr_ro_container fs n vs extra :
  wf_ty (TContainer fs) = true -> view_depth (TContainer fs) < 64 ->
  repr zh (TContainer fs) n (VCont vs) -> has_type (VCont vs) (TContainer fs) = true ->
  exists steps, ro_iter (TContainer fs) n extra = steps ++ repeat IEnd extra /\
    Forall2 (fun step fx => exists m, step = INode (fst fx) m /\ repr zh (fst fx) m (snd fx))
            steps (combine fs vs).
Proof.
  intros Hwf Hvd Hr Ht.
  pose proof (has_type_cont_length fs vs Ht) as Hlen.
  cbn [wf_ty] in Hwf. apply andb_true_iff in Hwf. destruct Hwf as [_ Hwfs].
  rewrite repr_container in Hr.
  cbn [ro_iter].
  set (t := TContainer fs) in *.
  assert (Hvd' : view_depth t = contents_depth t) by (unfold view_depth; cbn [is_list_ty t]; lia).
  rewrite Hvd' in *.
  assert (Hcl : length (combine fs vs) = length fs) by (rewrite combine_length; lia).
  assert (Hpl : length (cont_preds fs vs) = length fs).
  { clear -Hlen. revert vs Hlen. induction fs as [|f fs IH]; intros [|x vs] H; cbn in *;
      try lia. f_equal. apply IH. lia. }
  pose proof (series_length zh _ _ _ Hr) as Hsl. unfold lenN in Hsl.
  rewrite Hpl, cdepth_N in Hsl.
  rewrite (proj2 (node_iter_ok_spec (contents_depth t) _ Hvd) Hsl).
  pose proof (pow2_le_64 (contents_depth t) Hvd).
  pose proof (node_iter_drain_init (fun i => nth_error fs i) n (N.of_nat (length fs))
                (contents_depth t) extra ltac:(lia) Hsl ltac:(lia)) as E.
  rewrite Nat2N.id in E. rewrite E. clear E.
  apply steps_of_forall2. rewrite <- Hcl.
  apply Forall2_seq_nth. intros i [f x] Hfx. cbn [Nat.add fst snd].
  destruct (combine_nth_error _ _ _ _ _ Hfx) as [Hf Hx].
  destruct (series_bottom zh _ _ n i _ Hr (cont_preds_nth fs vs i f x Hf Hx)) as (m & Hm & Hrm).
  rewrite cdepth_N in Hm.
  assert (Hwff : wf_ty f = true).
  { rewrite forallb_forall in Hwfs. apply Hwfs. eapply nth_error_In; eassumption. }
  exists (INode f m). split; [|exists m; split; [reflexivity|exact Hrm]].
  unfold node_elem. rewrite Hm. cbn [bind]. rewrite Hf.
  now rewrite (repr_vfb zh f m x Hwff Hrm).
Qed.

End WithZeroTable3.

(* ---- byte strings and bit strings in chunks ---- *)

Lemma skipn_add' {A} : forall a b (l : list A), skipn (a + b) l = skipn b (skipn a l).
Proof.
  induction a as [|a IH]; intros b l; [reflexivity|].
  destruct l as [|x l]; [now rewrite !skipn_nil|]. cbn. apply IH.
Qed.

Lemma chunkify_fuel_spec' : forall fuel bs, (length bs < fuel)%nat ->
  chunkify_fuel fuel bs =
  map (fun i => pad32 (firstn 32 (skipn (32 * i) bs))) (seq 0 ((length bs + 31) / 32)).
Proof.
  induction fuel as [|f IH]; intros bs Hf; [lia|].
  destruct bs as [|b bs]; [reflexivity|].
  cbn [chunkify_fuel]. set (l := b :: bs) in *.
  assert (Hl : (0 < length l)%nat) by (subst l; cbn [length]; lia).
  replace ((length l + 31) / 32)%nat with (S ((length (skipn 32 l) + 31) / 32)).
  2:{ rewrite skipn_length; lia. }
  cbn [seq map]. rewrite Nat.mul_0_r. change (skipn 0 l) with l. f_equal.
  rewrite IH by (rewrite skipn_length; lia).
  rewrite <- seq_shift, map_map. apply map_ext. intros i.
  replace (32 * S i)%nat with (32 + 32 * i)%nat by lia. rewrite skipn_add'. reflexivity.
Qed.

Lemma chunkify_spec bs :
  chunkify bs =
  map (fun i => pad32 (firstn 32 (skipn (32 * i) bs))) (seq 0 ((length bs + 31) / 32)).
Proof. unfold chunkify. apply chunkify_fuel_spec'. lia. Qed.

Lemma btb_fuel_spec : forall fuel bs, (length bs < fuel)%nat ->
  bits_to_bytes_fuel fuel bs =
  map (fun i => byte_of_N (bits_val (firstn 8 (skipn (8 * i) bs)))) (seq 0 ((length bs + 7) / 8)).
Proof.
  induction fuel as [|f IH]; intros bs Hf; [lia|].
  destruct bs as [|b bs]; [reflexivity|].
  cbn [bits_to_bytes_fuel]. set (l := b :: bs) in *.
  assert (Hl : (0 < length l)%nat) by (subst l; cbn [length]; lia).
  replace ((length l + 7) / 8)%nat with (S ((length (skipn 8 l) + 7) / 8))
    by (rewrite skipn_length; lia).
  cbn [seq map]. rewrite Nat.mul_0_r. change (skipn 0 l) with l. f_equal.
  rewrite IH by (rewrite skipn_length; lia).
  rewrite <- seq_shift, map_map. apply map_ext. intros i.
  replace (8 * S i)%nat with (8 + 8 * i)%nat by lia. rewrite skipn_add'. reflexivity.
Qed.

Lemma btb_spec bs :
  bits_to_bytes bs =
  map (fun i => byte_of_N (bits_val (firstn 8 (skipn (8 * i) bs)))) (seq 0 ((length bs + 7) / 8)).
Proof. unfold bits_to_bytes. apply btb_fuel_spec. lia. Qed.

Lemma nth_map_seq {A} (g : nat -> A) d len i : (i < len)%nat -> nth i (map g (seq 0 len)) d = g i.
Proof.
  intros Hi. rewrite (nth_indep _ d (g 0%nat)) by (now rewrite map_length, seq_length).
  rewrite map_nth, seq_nth by lia. reflexivity.
Qed.

Lemma nth_skipn' {A} (d : A) : forall s l r, nth r (skipn s l) d = nth (s + r) l d.
Proof.
  induction s as [|s IH]; intros l r; [reflexivity|].
  destruct l as [|x l]; [now destruct r|]. cbn. apply IH.
Qed.

Lemma nth_firstn' {A} (d : A) : forall m l r, (r < m)%nat -> nth r (firstn m l) d = nth r l d.
Proof.
  induction m as [|m IH]; intros l r Hr; [lia|].
  destruct l as [|x l]; [reflexivity|]. destruct r; cbn; [reflexivity|]. apply IH. lia.
Qed.

Lemma nth_pad32 l r : (r < 32)%nat -> nth r (pad32 l) b0 = nth r l b0.
Proof.
  intros Hr. unfold pad32, pad_to. rewrite nth_firstn' by exact Hr.
  destruct (Nat.lt_ge_cases r (length l)) as [H|H].
  - now rewrite app_nth1.
  - rewrite app_nth2 by exact H. rewrite (nth_overflow l) by exact H.
    unfold zero_bytes. destruct (Nat.lt_ge_cases (r - length l) 32) as [H'|H'].
    + now rewrite nth_repeat.
    + apply nth_overflow. now rewrite repeat_length.
Qed.

(* byte j of chunk q is byte 32q + j of the string *)
Lemma chunkify_byte bs q j : (j < 32)%nat ->
  nth j (nth q (chunkify bs) zero_chunk) b0 = nth (32 * q + j) bs b0.
Proof.
  intros Hj. rewrite chunkify_spec.
  destruct (Nat.lt_ge_cases q ((length bs + 31) / 32)) as [Hq|Hq].
  - rewrite nth_map_seq by exact Hq.
    rewrite nth_pad32, nth_firstn', nth_skipn' by exact Hj. reflexivity.
  - rewrite (nth_overflow (map _ _)) by (now rewrite map_length, seq_length).
    rewrite (nth_overflow bs) by lia.
    unfold zero_chunk, zero_bytes. now rewrite nth_repeat.
Qed.

Lemma testbit_bits_val : forall l b, N.testbit (bits_val l) (N.of_nat b) = nth b l false.
Proof.
  induction l as [|x l IH]; intros b; [cbn; now destruct b|].
  cbn [bits_val]. destruct b as [|b].
  - cbn [nth N.of_nat]. destruct x.
    + replace (1 + 2 * bits_val l) with (2 * bits_val l + 1) by lia. apply N.testbit_odd_0.
    + rewrite N.add_0_l. apply N.testbit_even_0.
  - rewrite Nat2N.inj_succ. cbn [nth]. destruct x.
    + replace (1 + 2 * bits_val l) with (2 * bits_val l + 1) by lia.
      rewrite N.testbit_odd_succ by lia. apply IH.
    + rewrite N.add_0_l. rewrite N.testbit_even_succ by lia. apply IH.
Qed.

Lemma bits_val_bound : forall l, bits_val l < 2 ^ N.of_nat (length l).
Proof.
  induction l as [|x l IH]; [cbn; lia|].
  cbn [bits_val length]. rewrite Nat2N.inj_succ, N.pow_succ_r'. destruct x; lia.
Qed.

(* bit b of byte j of the packed bits is bit 8j + b *)
Lemma btb_bit bs j b : (b < 8)%nat ->
  byte_testbit (nth j (bits_to_bytes bs) b0) (N.of_nat b) = nth (8 * j + b) bs false.
Proof.
  intros Hb. rewrite btb_spec. unfold byte_testbit.
  destruct (Nat.lt_ge_cases j ((length bs + 7) / 8)) as [Hj|Hj].
  - rewrite nth_map_seq by exact Hj. rewrite N_of_byte_of_N.
    set (l := firstn 8 (skipn (8 * j) bs)).
    assert (Hl : bits_val l < 256).
    { pose proof (bits_val_bound l) as HB.
      assert (length l <= 8)%nat by (unfold l; rewrite firstn_length; lia).
      assert (2 ^ N.of_nat (length l) <= 2 ^ 8) by (apply N.pow_le_mono_r; lia).
      change (2 ^ 8) with 256 in *. lia. }
    rewrite N.mod_small by exact Hl. rewrite testbit_bits_val. unfold l.
    rewrite nth_firstn', nth_skipn' by exact Hb. reflexivity.
  - rewrite (nth_overflow (map _ _)) by (now rewrite map_length, seq_length).
    rewrite (nth_overflow bs) by lia. apply N.bits_0.
Qed.

Lemma btb_length' bs : length (bits_to_bytes bs) = ((length bs + 7) / 8)%nat.
Proof. now rewrite btb_spec, map_length, seq_length. Qed.

Lemma chunkify_length' bs : length (chunkify bs) = ((length bs + 31) / 32)%nat.
Proof. now rewrite chunkify_spec, map_length, seq_length. Qed.

(* bit r (< 256) of chunk q of the packed bits is bit 256q + r *)
Lemma bit_chunks_bit bs q r : r < 256 ->
  chunk_get_bit (nth q (bit_chunks bs) zero_chunk) r = nth (256 * q + N.to_nat r) bs false.
Proof.
  intros Hr. unfold chunk_get_bit, bit_chunks, nat_of.
  rewrite N.shiftr_div_pow2. change (2 ^ 3) with 8.
  change 7 with (N.ones 3). rewrite N.land_ones. change (2 ^ 3) with 8.
  rewrite chunkify_byte by lia.
  replace (r mod 8) with (N.of_nat (N.to_nat (r mod 8))) by lia.
  rewrite btb_bit by lia. f_equal. lia.
Qed.

Lemma map_nth_seq {A B} (f : A -> B) (d : A) : forall l,
  map (fun k => f (nth k l d)) (seq 0 (length l)) = map f l.
Proof.
  induction l as [|x l IH]; [reflexivity|].
  cbn [length seq map nth]. f_equal. rewrite <- seq_shift, map_map. exact IH.
Qed.

Section WithZeroTable4.
Variable zh : nat -> chunk.

(* the bit iterator over the chunks of a bit string *)
Lemma bits_drain anchor d bs extra :
  d < 56 -> series zh (N.to_nat d) (map is_chunk (bit_chunks bs)) anchor ->
  bit_iter_ok d (lenN bs) = true /\
  bit_iter_drain (nat_of (lenN bs) + extra) anchor (lenN bs) d (bit_iter_init d) =
  map (fun b => IVal (VBool b)) bs ++ repeat IEnd extra.
Proof.
  intros Hd Hs.
  pose proof (series_length zh _ _ _ Hs) as Hsl. unfold lenN in Hsl.
  rewrite map_length, N2Nat.id in Hsl. unfold bit_chunks in Hsl.
  rewrite chunkify_length', btb_length' in Hsl.
  assert (Hk : lenN bs <= 2 ^ d * 256).
  { unfold lenN. set (c := 2 ^ d) in *. lia. }
  assert (H64 : 2 ^ d * 256 < 2 ^ 64).
  { change 256 with (2 ^ 8). rewrite <- N.pow_add_r. apply N.pow_lt_mono_r; lia. }
  split; [apply bit_iter_ok_spec; assumption|].
  unfold nat_of. rewrite bit_iter_drain_spec by lia.
  rewrite (steps_of_all_ok _ _ (fun i => nth i bs false)).
  - f_equal. unfold lenN. rewrite Nat2N.id.
    apply (map_nth_seq (fun b => IVal (VBool b)) false bs).
  - intros i Hi. apply in_seq in Hi. unfold lenN in Hi. rewrite Nat2N.id in Hi.
    unfold bit_elem.
    set (q := (i / 256)%nat).
    assert (Hq : (q < length (bit_chunks bs))%nat).
    { unfold bit_chunks. rewrite chunkify_length', btb_length'. unfold q. lia. }
    destruct (series_bottom zh _ _ anchor q (is_chunk (nth q (bit_chunks bs) zero_chunk)) Hs)
      as (m & Hm & Hc).
    { rewrite nth_error_map, (nth_error_nth' _ zero_chunk) by exact Hq. reflexivity. }
    rewrite N2Nat.id in Hm.
    replace (N.of_nat i / 256) with (N.of_nat q) by (unfold q; lia).
    rewrite Hm. cbn [bind]. unfold is_chunk in Hc. subst m. cbn [leaf_chunk bind].
    rewrite bit_chunks_bit by (apply N.mod_lt; lia). do 3 f_equal. unfold q. lia.
Qed.

Theorem repr_ro_bitvector k n bs extra :
  small_params (TBitvector k) = true ->
  repr zh (TBitvector k) n (VBits bs) -> has_type (VBits bs) (TBitvector k) = true ->
  ro_iter (TBitvector k) n extra = map (fun b => IVal (VBool b)) bs ++ repeat IEnd extra.
Proof.
  intros Hsm Hr Ht.
  pose proof (small_contents_depth _ Hsm) as Hd. cbv beta iota in Hd.
  cbn [has_type] in Ht. apply N.eqb_eq in Ht.
  cbn [repr] in Hr. cbn [ro_iter].
  set (t := TBitvector k) in *.
  assert (Hvd : view_depth t = contents_depth t) by (unfold view_depth; cbn [is_list_ty t]; lia).
  rewrite Hvd. fold (lenN bs) in Ht. rewrite <- Ht.
  destruct (bits_drain n (contents_depth t) bs extra ltac:(lia) Hr) as [Hok E].
  rewrite Hok. exact E.
Qed.

Theorem repr_ro_bitlist k n bs extra :
  small_params (TBitlist k) = true ->
  repr zh (TBitlist k) n (VBits bs) -> has_type (VBits bs) (TBitlist k) = true ->
  ro_iter (TBitlist k) n extra = map (fun b => IVal (VBool b)) bs ++ repeat IEnd extra.
Proof.
  intros Hsm Hr Ht.
  pose proof (small_contents_depth _ Hsm) as Hd. cbv beta iota in Hd.
  cbn [has_type] in Ht. apply N.leb_le in Ht. fold (lenN bs) in Ht.
  cbn [small_params] in Hsm. apply N.leb_le in Hsm.
  cbn [repr] in Hr. destruct Hr as (c & -> & Hr). cbn [ro_iter].
  set (t := TBitlist k) in *.
  assert (H64 : lenN bs < 2 ^ 64).
  { assert (2 ^ 56 < 2 ^ 64) by (apply N.pow_lt_mono_r; lia). lia. }
  rewrite (list_length_len_leaf k c (lenN bs) Ht H64). cbn [node_left].
  destruct (bits_drain c (contents_depth t) bs extra ltac:(lia) Hr) as [Hok E].
  rewrite Hok. exact E.
Qed.

End WithZeroTable4.

(* ---- packed basic values ---- *)

Lemma pad32_length l : length (pad32 l) = 32%nat.
Proof.
  unfold pad32, pad_to, zero_bytes. rewrite firstn_length, app_length, repeat_length. lia.
Qed.

Lemma chunk_slice B q a m : (a + m <= 32)%nat -> (32 * q + a + m <= length B)%nat ->
  firstn m (skipn a (nth q (chunkify B) zero_chunk)) = firstn m (skipn (32 * q + a) B).
Proof.
  intros Ham HB.
  assert (Hq : (m = 0)%nat \/ (q < (length B + 31) / 32)%nat) by lia.
  destruct Hq as [->|Hq]; [reflexivity|].
  assert (Hc : length (nth q (chunkify B) zero_chunk) = 32%nat).
  { rewrite chunkify_spec, nth_map_seq by exact Hq. apply pad32_length. }
  apply (nth_ext _ _ b0 b0).
  - rewrite !firstn_length, !skipn_length, Hc. lia.
  - intros j Hj. rewrite firstn_length, skipn_length, Hc in Hj.
    rewrite !nth_firstn', !nth_skipn' by lia.
    rewrite chunkify_byte by lia. f_equal. lia.
Qed.

Lemma flat_map_slice {A} (f : A -> list byte) W d : forall vs i,
  (forall v, In v vs -> length (f v) = W) -> (i < length vs)%nat ->
  firstn W (skipn (W * i) (flat_map f vs)) = f (nth i vs d).
Proof.
  induction vs as [|v vs IH]; intros i Hall Hi; [cbn in Hi; lia|].
  pose proof (Hall v (or_introl eq_refl)) as Hv.
  cbn [flat_map]. destruct i as [|i].
  - rewrite Nat.mul_0_r. cbn [skipn nth].
    rewrite firstn_app, Hv, Nat.sub_diag. cbn [firstn]. rewrite app_nil_r.
    apply firstn_all2. lia.
  - replace (W * S i)%nat with (W + W * i)%nat by lia. rewrite skipn_add'.
    rewrite skipn_app, Hv, Nat.sub_diag. cbn [skipn nth].
    rewrite (skipn_all2 (f v)) by lia. cbn [app].
    apply IH; [intros v' Hv'; apply Hall; now right|cbn in Hi; lia].
Qed.

Lemma flat_map_length_const {A} (f : A -> list byte) W : forall vs,
  (forall v, In v vs -> length (f v) = W) -> length (flat_map f vs) = (W * length vs)%nat.
Proof.
  induction vs as [|v vs IH]; intros Hall; [cbn; lia|].
  cbn [flat_map length]. rewrite app_length, (Hall v (or_introl eq_refl)), IH; [lia|].
  intros v' Hv'. apply Hall. now right.
Qed.

Lemma has_type_uint v w : has_type v (TUint w) = true -> exists x, v = VUint x /\ x < 2 ^ (8 * w).
Proof.
  destruct v; cbn [has_type]; try discriminate. intros H. apply N.ltb_lt in H. eauto.
Qed.

Lemma spec_ser_uint_length w v : has_type v (TUint w) = true ->
  length (spec_ser (TUint w) v) = N.to_nat w.
Proof.
  intros H. destruct (has_type_uint v w H) as (x & -> & _). cbn [spec_ser]. apply le_bytes_length.
Qed.

Section WithZeroTable5.
Variable zh : nat -> chunk.

Local Ltac eval_per :=
  match goal with
  | |- context [per_node (TUint ?w)] =>
    let v := eval vm_compute in (per_node (TUint w)) in change (per_node (TUint w)) with v
  end.

Lemma packed_drain w anchor d vs extra :
  uint_width_ok w = true -> d < 58 ->
  series zh (N.to_nat d) (map is_chunk (packed_chunks (TUint w) vs)) anchor ->
  forallb (fun x => has_type x (TUint w)) vs = true ->
  basic_iter_ok (TUint w) d (lenN vs) = true /\
  basic_iter_drain (nat_of (lenN vs) + extra) (TUint w) anchor (lenN vs) d
                   (basic_iter_init (TUint w) d) =
  map IVal vs ++ repeat IEnd extra.
Proof.
  intros Hw Hd Hs Hty. rewrite forallb_forall in Hty.
  set (e := TUint w) in *.
  set (B := flat_map (spec_ser e) vs) in *.
  assert (Hall : forall v, In v vs -> length (spec_ser e v) = N.to_nat w).
  { intros v Hv. apply spec_ser_uint_length. now apply Hty. }
  pose proof (flat_map_length_const (spec_ser e) (N.to_nat w) vs Hall) as HB. fold B in HB.
  pose proof (series_length zh _ _ _ Hs) as Hsl. unfold lenN in Hsl.
  rewrite map_length, N2Nat.id in Hsl. unfold packed_chunks in Hsl. fold e B in Hsl.
  rewrite chunkify_length', HB in Hsl.
  assert (H32 : 2 ^ d * 32 < 2 ^ 64).
  { change 32 with (2 ^ 5). rewrite <- N.pow_add_r. apply N.pow_lt_mono_r; lia. }
  pose proof (per_node_le_32 e) as Hp32.
  destruct (per_node_uint w Hw) as (s & Hps & Hs5). fold e in Hps.
  assert (Hwp : w * per_node e = 32).
  { unfold e. clear -Hw. unfold uint_width_ok in Hw. rewrite !orb_true_iff, !N.eqb_eq in Hw.
    destruct Hw as [[[[->| ->]| ->]| ->]| ->]; reflexivity. }
  assert (Hp1 : 1 <= per_node e) by (rewrite Hps; pose proof (pow2_pos s); lia).
  assert (Hk : lenN vs <= 2 ^ d * per_node e).
  { unfold lenN. set (c := 2 ^ d) in *. set (p := per_node e) in *.
    set (L := length vs) in *.
    assert (N.of_nat (N.to_nat w * L) <= 32 * c) by lia.
    assert (w * N.of_nat L <= w * (c * p)); [|apply (N.mul_le_mono_pos_l _ _ w); lia].
    replace (w * (c * p)) with (c * (w * p)) by lia. rewrite Hwp. lia. }
  assert (Hlt : 2 ^ d * per_node e < 2 ^ 64).
  { assert (2 ^ d * per_node e <= 2 ^ d * 32) by (apply N.mul_le_mono_l; exact Hp32). lia. }
  split; [apply basic_iter_ok_spec; (lia || assumption)|].
  unfold nat_of. rewrite basic_iter_drain_spec by lia.
  rewrite (steps_of_all_ok _ _ (fun i => nth i vs (VUint 0))).
  - f_equal. unfold lenN. rewrite Nat2N.id. apply (map_nth_seq IVal (VUint 0) vs).
  - intros i Hi. apply in_seq in Hi. unfold lenN in Hi. rewrite Nat2N.id in Hi.
    unfold packed_elem. cbv zeta.
    set (p := per_node e) in *.
    set (q := N.to_nat (N.of_nat i / p)). set (r := N.of_nat i mod p).
    assert (Hir : N.of_nat i = p * N.of_nat q + r /\ r < p).
    { unfold q, r. rewrite N2Nat.id. split; [apply N.div_mod; lia|apply N.mod_lt; lia]. }
    destruct Hir as [Hir Hrp].
    (* 32 q + w r = w i *)
    assert (Hoff : (32 * q + N.to_nat (w * r) = N.to_nat w * i)%nat).
    { assert (32 * N.of_nat q + w * r = w * N.of_nat i); [|lia].
      rewrite Hir, <- Hwp. lia. }
    assert (Hwr : w * r + w <= 32).
    { rewrite <- Hwp. replace (w * r + w) with (w * (r + 1)) by lia.
      apply N.mul_le_mono_l. lia. }
    assert (Hend : (N.to_nat w * i + N.to_nat w <= length B)%nat).
    { rewrite HB. replace (N.to_nat w * i + N.to_nat w)%nat with (N.to_nat w * (i + 1))%nat by lia.
      apply Nat.mul_le_mono_l. lia. }
    assert (Hwpos : 1 <= w) by (destruct w; [discriminate|lia]).
    assert (Hq : (q < length (packed_chunks e vs))%nat).
    { unfold packed_chunks. fold B. rewrite chunkify_length'. lia. }
    destruct (series_bottom zh _ _ anchor q (is_chunk (nth q (packed_chunks e vs) zero_chunk)) Hs)
      as (m & Hm & Hc).
    { rewrite nth_error_map, (nth_error_nth' _ zero_chunk) by exact Hq. reflexivity. }
    rewrite N2Nat.id in Hm. unfold q in Hm. rewrite N2Nat.id in Hm. rewrite Hm. cbn [bind].
    unfold is_chunk in Hc. subst m. cbn [leaf_chunk bind].
    unfold packed_chunks. fold B. fold q.
    (* the slice of the chunk is the encoding of element i *)
    pose proof (chunk_slice B q (N.to_nat (w * r)) (N.to_nat w) ltac:(lia) ltac:(lia)) as Hsl'.
    rewrite Hoff in Hsl'.
    pose proof (flat_map_slice (spec_ser e) (N.to_nat w) (VUint 0) vs i Hall ltac:(lia)) as Hfs.
    fold B in Hfs. rewrite Hfs in Hsl'. clear Hfs.
    assert (Hin : In (nth i vs (VUint 0)) vs) by (apply nth_In; lia).
    destruct (has_type_uint _ w (Hty _ Hin)) as (x & Hx & Hxb). rewrite Hx in *.
    cbn [spec_ser e] in Hsl'. fold (nat_of w) in Hsl'. unfold e. cbn [packed_val].
    fold e. fold p. rewrite <- Hwp. fold p.
    assert (Hdiv : w * p / w = p) by (rewrite N.mul_comm; apply N.div_mul; lia).
    rewrite Hdiv. rewrite (proj2 (N.leb_gt p r) Hrp).
    assert (Hval : le_val (le_bytes (nat_of w) x) = x).
    { rewrite le_val_le_bytes, pow256. unfold nat_of. rewrite N2Nat.id. now apply N.mod_small. }
    destruct ((w =? 1) || (w =? 2) || (w =? 4) || (w =? 8)) eqn:Hsmall.
    + unfold nat_of in *. rewrite Hsl', Hval. reflexivity.
    + assert (Hw32 : w = 32).
      { unfold uint_width_ok in Hw. rewrite Hsmall in Hw. cbn [orb] in Hw. now apply N.eqb_eq. }
      rewrite Hwp, (proj2 (N.eqb_eq w 32) Hw32). f_equal. f_equal.
      assert (Hr0 : r = 0).
      { subst w. unfold p, e in Hrp. change (per_node (TUint 32)) with 1 in Hrp. lia. }
      rewrite Hr0, Hw32 in Hsl'. change (N.to_nat (32 * 0)) with 0%nat in Hsl'.
      cbn [skipn] in Hsl'. rewrite firstn_all2 in Hsl'.
      * rewrite Hsl', <- Hw32. exact Hval.
      * rewrite chunkify_spec, nth_map_seq, pad32_length; [unfold nat_of; lia|].
        fold B in Hq. unfold packed_chunks in Hq. now rewrite chunkify_length' in Hq.
Qed.

End WithZeroTable5.

Section WithZeroTable6.
Variable zh : nat -> chunk.

Theorem repr_ro_packed_vector w k n vs extra :
  wf_ty (TVector (TUint w) k) = true -> small_params (TVector (TUint w) k) = true ->
  repr zh (TVector (TUint w) k) n (VSeq vs) -> has_type (VSeq vs) (TVector (TUint w) k) = true ->
  ro_iter (TVector (TUint w) k) n extra = map IVal vs ++ repeat IEnd extra.
Proof.
  intros Hwf Hsm Hr Ht.
  pose proof (small_contents_depth _ Hsm) as Hd. cbv beta iota in Hd.
  cbn [wf_ty] in Hwf. apply andb_true_iff in Hwf. destruct Hwf as [_ Hw].
  cbn [has_type] in Ht. apply andb_true_iff in Ht. destruct Ht as [Hlen Hty]. apply N.eqb_eq in Hlen.
  cbn [repr is_basic_elem] in Hr. cbn [ro_iter is_basic_elem].
  set (t := TVector (TUint w) k) in *.
  assert (Hvd : view_depth t = contents_depth t) by (unfold view_depth; cbn [is_list_ty t]; lia).
  rewrite Hvd. fold (lenN vs) in Hlen. rewrite <- Hlen.
  destruct (packed_drain zh w n (contents_depth t) vs extra Hw ltac:(lia) Hr Hty) as [Hok E].
  rewrite Hok. exact E.
Qed.

Theorem repr_ro_packed_list w k n vs extra :
  wf_ty (TList (TUint w) k) = true -> small_params (TList (TUint w) k) = true ->
  repr zh (TList (TUint w) k) n (VSeq vs) -> has_type (VSeq vs) (TList (TUint w) k) = true ->
  ro_iter (TList (TUint w) k) n extra = map IVal vs ++ repeat IEnd extra.
Proof.
  intros Hwf Hsm Hr Ht.
  pose proof (small_contents_depth _ Hsm) as Hd. cbv beta iota in Hd.
  cbn [wf_ty] in Hwf. rename Hwf into Hw.
  cbn [has_type] in Ht. apply andb_true_iff in Ht. destruct Ht as [Hlen Hty]. apply N.leb_le in Hlen.
  fold (lenN vs) in Hlen.
  cbn [small_params] in Hsm. apply andb_true_iff in Hsm. destruct Hsm as [H56 _]. apply N.leb_le in H56.
  cbn [repr is_basic_elem] in Hr. destruct Hr as (c & -> & Hr). cbn [ro_iter is_basic_elem].
  set (t := TList (TUint w) k) in *.
  assert (H64 : lenN vs < 2 ^ 64).
  { assert (2 ^ 56 < 2 ^ 64) by (apply N.pow_lt_mono_r; lia). lia. }
  rewrite (list_length_len_leaf k c (lenN vs) Hlen H64). cbn [node_left]. cbv zeta.
  destruct (packed_drain zh w c (contents_depth t) vs extra Hw ltac:(lia) Hr Hty) as [Hok E].
  rewrite Hok. exact E.
Qed.

End WithZeroTable6.

(* on a representing tree the getters and the index iterator yield the same components *)
Corollary repr_get_all_eq t n extra steps len :
  wf_ty t = true -> view_depth t < 64 ->
  ro_iter t n extra = steps ++ repeat IEnd extra -> ~ In IErr steps ->
  Forall (fun s => is_comp s = true) steps ->
  series_len t n = OK len ->
  get_all t n = steps /\ ix_iter t n extra = steps ++ repeat IEnd extra /\
  length steps = N.to_nat len.
Proof.
  intros Hwf Hvd Hro Hclean Hcomp Hlen.
  assert (Hc : ~ In IErr (ro_iter t n extra)).
  { rewrite Hro. intros Hin. apply in_app_or in Hin. destruct Hin as [Hin|Hin]; [now apply Hclean|].
    apply repeat_spec in Hin. discriminate. }
  destruct (ro_eq_get t n extra Hwf Hvd Hc) as (len' & Hlen' & E & L & F).
  rewrite Hlen in Hlen'. injection Hlen' as <-.
  assert (Hga : get_all t n = steps).
  { rewrite Hro in E.
    assert (Hl : length steps = length (get_all t n)).
    { apply (f_equal (@length istep)) in E. rewrite !app_length in E. lia. }
    apply (f_equal (firstn (length steps))) in E.
    rewrite firstn_app, Nat.sub_diag, firstn_all in E. cbn [firstn] in E. rewrite app_nil_r in E.
    rewrite Hl, firstn_app, Nat.sub_diag, firstn_all in E. cbn [firstn] in E.
    rewrite app_nil_r in E. now symmetry. }
  split; [exact Hga|]. split; [|now rewrite <- Hga].
  destruct (ix_eq_get t n extra len Hlen) as [Eix _]. now rewrite Eix, Hga.
Qed.


(* the hypotheses of the representation theorems are satisfiable *)
Example ex_repr_ro :
  wf_ty ex_ty = true /\ small_params ex_ty = true /\ has_type ex_val ex_ty = true /\
  from_val xzh ex_ty ex_val = OK ex_node.
Proof. repeat split; vm_compute; reflexivity. Qed.

Example ex_repr : repr xzh ex_ty ex_node ex_val.
Proof.
  unfold ex_ty, ex_val. cbn [repr map is_basic_elem].
  eexists. split; [vm_compute; reflexivity|].
  vm_compute. repeat split. left. reflexivity.
Qed.
