(* IterProofs.v — proofs for property C17 (read-only iterators, index iterators, getters)
   about the model files View.v (iter_seek, node_iter_next etc.) and Iter.v.

   ==== small specification vocabulary used by Props/C17.v ====

   [index_path depth i]   the [depth] path bits of bottom position i, most significant first
                          (false = left); equals [g_path (2^depth + i)] for depth < 64
                          ([index_path_g_path]).
   [bottom n depth i]     bottom node number i of the subtree of depth [depth] below n:
                          [get_path n (index_path depth i)] = [getter n (2^depth + i)]
                          ([bottom_getter]); [Err] when a leaf sits on the way.
   [steps_of f rs extra]  how a drained iterator renders a list of per-index results
                          [rs : list (res A)]: [f a] for every [OK a] up to the first
                          failure, which is rendered [IErr] / [IPanic] and ends the drain;
                          if there is no failure, [extra] times [IEnd] follow.
   [is_comp s]            the step s is a component ([IVal] or [INode]), not end / error.
   [packed_elem], [bit_elem], [node_elem]  the result expected for index k of a packed
                          series / a bitfield / a series of subtrees. *)
From Coq Require Import List NArith ZArith Bool Lia PeanoNat ZifyN ZifyNat ZifyBool.
From Ztyp Require Import Base Bitlen Tree Types View Iter BitlenProofs.
Import ListNotations.
Open Scope N_scope.

(* ------------------------------------------------------------------------------------- *)
(* spec definitions                                                                      *)
(* ------------------------------------------------------------------------------------- *)

Definition index_path (depth i : N) : list bool :=
  map (fun k => N.testbit i (depth - 1 - N.of_nat k)) (seq 0 (N.to_nat depth)).

Definition bottom (n : node) (depth i : N) : res node := get_path n (index_path depth i).

Fixpoint steps_of {A} (f : A -> istep) (rs : list (res A)) (extra : nat) : list istep :=
  match rs with
  | [] => repeat IEnd extra
  | OK a :: r => f a :: steps_of f r extra
  | Err :: _ => [IErr]
  | Panic :: _ => [IPanic]
  end.

Definition is_comp (s : istep) : bool :=
  match s with IVal _ | INode _ _ => true | _ => false end.

(* element k of a packed series of basic type e stored below [anchor] *)
Definition packed_elem (e : ty) (anchor : node) (depth : N) (k : nat) : res val :=
  let p := per_node e in
  do b <- bottom anchor depth (N.of_nat k / p); do c <- leaf_chunk b;
  packed_val e c (N.of_nat k mod p).

(* bit k of a bitfield stored below [anchor] *)
Definition bit_elem (anchor : node) (depth : N) (k : nat) : res bool :=
  do b <- bottom anchor depth (N.of_nat k / 256); do c <- leaf_chunk b;
  OK (chunk_get_bit c (N.of_nat k mod 256)).

(* subtree k of a series of subtrees, typed by [tys] (elemReadonlyIter / fieldReadonlyIter) *)
Definition node_elem (tys : nat -> option ty) (anchor : node) (depth : N) (k : nat) : res istep :=
  do m <- bottom anchor depth (N.of_nat k);
  match tys k with
  | Some t => if view_from_backing_ok t m then OK (INode t m) else Err
  | None => Err
  end.

(* ------------------------------------------------------------------------------------- *)
(* 0. small list / result helpers                                                        *)
(* ------------------------------------------------------------------------------------- *)

Local Ltac Zify.zify_post_hook ::= Z.div_mod_to_equations.

Lemma nth_error_list_set_eq {A} : forall (l : list A) i x, (i < length l)%nat ->
  nth_error (list_set l i x) i = Some x.
Proof.
  induction l as [|y l IH]; intros i x Hi; cbn in Hi; [lia|].
  destruct i; cbn; [reflexivity|]. apply IH. lia.
Qed.

Lemma nth_error_list_set_neq {A} : forall (l : list A) i j x, i <> j ->
  nth_error (list_set l i x) j = nth_error l j.
Proof.
  induction l as [|y l IH]; intros i j x Hij; [destruct i; reflexivity|].
  destruct i, j; cbn; try reflexivity; try lia. apply IH. lia.
Qed.

Lemma list_set_length' {A} : forall (l : list A) i x, length (list_set l i x) = length l.
Proof. induction l as [|y l IH]; intros [|i] x; cbn; auto. Qed.

Lemma mapM_nth {A B} (f : A -> res B) : forall l ys i y,
  mapM f l = OK ys -> nth_error ys i = Some y ->
  exists x, nth_error l i = Some x /\ f x = OK y.
Proof.
  induction l as [|x l IH]; intros ys i y Hm Hn; cbn in Hm.
  - injection Hm as <-. destruct i; discriminate.
  - destruct (f x) as [b| |] eqn:Hf; cbn in Hm; try discriminate.
    destruct (mapM f l) as [bs| |] eqn:Hl; cbn in Hm; try discriminate.
    injection Hm as <-. destruct i; cbn in Hn.
    + injection Hn as <-. exists x. split; [reflexivity|exact Hf].
    + apply (IH bs i y eq_refl Hn).
Qed.

Lemma mapM_all_ok {A B} (f : A -> res B) (g : A -> B) : forall l,
  (forall x, In x l -> f x = OK (g x)) -> mapM f l = OK (map g l).
Proof.
  induction l as [|x l IH]; intros Hall; [reflexivity|].
  cbn. rewrite (Hall x (or_introl eq_refl)). cbn. rewrite IH; [reflexivity|].
  intros y Hy. apply Hall. now right.
Qed.

Lemma mapM_length {A B} (f : A -> res B) : forall l ys, mapM f l = OK ys -> length ys = length l.
Proof.
  induction l as [|x l IH]; intros ys Hm; cbn in Hm.
  - now injection Hm as <-.
  - destruct (f x); cbn in Hm; try discriminate.
    destruct (mapM f l) eqn:Hl; cbn in Hm; try discriminate.
    injection Hm as <-. cbn. f_equal. now apply IH.
Qed.

(* ------------------------------------------------------------------------------------- *)
(* 1. paths, ancestors                                                                   *)
(* ------------------------------------------------------------------------------------- *)

Definition child (b : bool) (n : node) : res node :=
  match n with Leaf _ => Err | Pair l r => OK (if b then r else l) end.

Lemma node_left_child n : node_left n = child false n.
Proof. destruct n; reflexivity. Qed.
Lemma node_right_child n : node_right n = child true n.
Proof. destruct n; reflexivity. Qed.

Lemma get_path_nil' n : get_path n [] = OK n.
Proof. destruct n; reflexivity. Qed.

Lemma get_path_not_panic : forall p n, get_path n p <> Panic.
Proof.
  induction p as [|b p IH]; intros n.
  - rewrite get_path_nil'. discriminate.
  - destruct n as [c|l r]; cbn; [discriminate|apply IH].
Qed.

Lemma get_path_snoc : forall p n b,
  get_path n (p ++ [b]) = do a <- get_path n p; child b a.
Proof.
  induction p as [|x p IH]; intros n b.
  - rewrite get_path_nil'. cbn [app bind]. destruct n as [c|l r]; cbn; [reflexivity|].
    apply get_path_nil'.
  - destruct n as [c|l r]; cbn; [reflexivity|apply IH].
Qed.

(* the ancestor at depth k of bottom position j (only the top k of the depth bits of j matter) *)
Fixpoint anc (anchor : node) (depth j : N) (k : nat) : res node :=
  match k with
  | O => OK anchor
  | S k' => do a <- anc anchor depth j k'; child (N.testbit j (depth - 1 - N.of_nat k')) a
  end.

Lemma anc_path anchor depth j k :
  anc anchor depth j k =
  get_path anchor (map (fun i => N.testbit j (depth - 1 - N.of_nat i)) (seq 0 k)).
Proof.
  induction k as [|k IH]; [symmetry; apply get_path_nil'|].
  rewrite seq_S, map_app. cbn [map Nat.add]. rewrite get_path_snoc, <- IH. reflexivity.
Qed.

Lemma anc_bottom anchor depth j : anc anchor depth j (N.to_nat depth) = bottom anchor depth j.
Proof. apply anc_path. Qed.

Lemma bottom_not_panic anchor depth j : bottom anchor depth j <> Panic.
Proof. apply get_path_not_panic. Qed.

Lemma anc_not_panic anchor depth j k : anc anchor depth j k <> Panic.
Proof. rewrite anc_path. apply get_path_not_panic. Qed.

Lemma anc_err_mono anchor depth j : forall k k', (k <= k')%nat ->
  anc anchor depth j k = Err -> anc anchor depth j k' = Err.
Proof.
  intros k k' Hle He. induction Hle as [|k' Hle IH]; [exact He|].
  cbn [anc]. rewrite IH. reflexivity.
Qed.

Lemma anc_ext anchor depth j j' : forall k, (k <= N.to_nat depth)%nat ->
  (forall b, depth - N.of_nat k <= b -> b < depth -> N.testbit j b = N.testbit j' b) ->
  anc anchor depth j k = anc anchor depth j' k.
Proof.
  induction k as [|k IH]; intros Hk Hb; [reflexivity|].
  cbn [anc]. rewrite IH by (try lia; intros b H1 H2; apply Hb; lia).
  rewrite (Hb (depth - 1 - N.of_nat k)) by lia. reflexivity.
Qed.

Lemma index_path_g_path d i : d < 64 -> i < 2 ^ d -> index_path d i = g_path (2 ^ d + i).
Proof. intros Hd Hi. symmetry. apply g_path_spec; assumption. Qed.

Lemma bottom_getter n d i : d < 64 -> i < 2 ^ d -> bottom n d i = getter n (2 ^ d + i).
Proof. intros Hd Hi. unfold bottom, getter. now rewrite index_path_g_path. Qed.

(* ------------------------------------------------------------------------------------- *)
(* 2. trailing zeros: i xor (i-1)                                                        *)
(* ------------------------------------------------------------------------------------- *)

Fixpoint tzp (p : positive) : N :=
  match p with xO p' => N.succ (tzp p') | _ => 0 end.
Definition tz (j : N) : N := match j with 0 => 0 | N.pos p => tzp p end.

Lemma tzp_spec p :
  let j := N.pos p in let t := tzp p in
  N.testbit j t = true /\
  (forall b, b < t -> N.testbit j b = false /\ N.testbit (j - 1) b = true) /\
  N.testbit (j - 1) t = false /\
  (forall b, t < b -> N.testbit (j - 1) b = N.testbit j b).
Proof.
  induction p as [p IH|p IH|]; cbn zeta; cbn [tzp].
  - (* 2a+1 *)
    change (N.pos p~1) with (2 * N.pos p + 1).
    replace (2 * N.pos p + 1 - 1) with (2 * N.pos p) by lia.
    split; [apply N.testbit_odd_0|]. split; [intros b Hb; lia|].
    split; [apply N.testbit_even_0|].
    intros b Hb. destruct (N.zero_or_succ b) as [->|[b' ->]]; [lia|].
    now rewrite N.testbit_even_succ, N.testbit_odd_succ by lia.
  - (* 2a *)
    cbn zeta in IH. destruct IH as (I1 & I2 & I3 & I4).
    change (N.pos p~0) with (2 * N.pos p).
    replace (2 * N.pos p - 1) with (2 * (N.pos p - 1) + 1) by lia.
    split; [rewrite N.testbit_even_succ by lia; exact I1|].
    split; [|split].
    + intros b Hb. destruct (N.zero_or_succ b) as [->|[b' ->]].
      * split; [apply N.testbit_even_0|apply N.testbit_odd_0].
      * rewrite N.testbit_even_succ, N.testbit_odd_succ by lia. apply I2. lia.
    + rewrite N.testbit_odd_succ by lia. exact I3.
    + intros b Hb. destruct (N.zero_or_succ b) as [->|[b' ->]]; [lia|].
      rewrite N.testbit_even_succ, N.testbit_odd_succ by lia. apply I4. lia.
  - change (N.pos 1 - 1) with 0.
    split; [reflexivity|]. split; [intros b Hb; lia|]. split; [reflexivity|].
    intros b Hb. destruct (N.zero_or_succ b) as [->|[b' ->]]; [lia|].
    change 1 with (2 * 0 + 1). rewrite N.testbit_odd_succ by lia.
    now rewrite !N.bits_0.
Qed.

Lemma tz_spec j : j <> 0 ->
  N.testbit j (tz j) = true /\
  (forall b, b < tz j -> N.testbit j b = false /\ N.testbit (j - 1) b = true) /\
  N.testbit (j - 1) (tz j) = false /\
  (forall b, tz j < b -> N.testbit (j - 1) b = N.testbit j b).
Proof. destruct j as [|p]; [congruence|]. intros _. apply (tzp_spec p). Qed.

Lemma tz_lt j d : j <> 0 -> j < 2 ^ d -> tz j < d.
Proof.
  intros Hj Hd. destruct (tz_spec j Hj) as (H1 & _).
  destruct (N.lt_ge_cases (tz j) d) as [H|H]; [exact H|].
  rewrite (testbit_small j d (tz j) Hd H) in H1. discriminate.
Qed.

Lemma lxor_pred_ones j : j <> 0 -> N.lxor j (j - 1) = N.ones (tz j + 1).
Proof.
  intros Hj. destruct (tz_spec j Hj) as (H1 & H2 & H3 & H4).
  apply N.bits_inj. intros b. rewrite N.lxor_spec.
  destruct (N.lt_trichotomy b (tz j)) as [Hb|[->|Hb]].
  - destruct (H2 b Hb) as [-> ->]. rewrite N.ones_spec_low by lia. reflexivity.
  - rewrite H1, H3. rewrite N.ones_spec_low by lia. reflexivity.
  - rewrite (H4 b Hb), N.ones_spec_high by lia. apply xorb_nilpotent.
Qed.

Lemma size_ones k : N.size (N.ones (k + 1)) = k + 1.
Proof.
  rewrite N.ones_equiv.
  assert (H2 : 2 <= 2 ^ (k + 1)).
  { change 2 with (2 ^ 1) at 1. apply N.pow_le_mono_r; lia. }
  rewrite N.size_log2 by lia.
  rewrite N.log2_pred_pow2 by lia. lia.
Qed.

Lemma bit_length_xor j : j <> 0 -> j < 2 ^ 64 ->
  bit_length (N.lxor j (j - 1)) = tz j + 1.
Proof.
  intros Hj H64. rewrite lxor_pred_ones by exact Hj.
  pose proof (tz_lt j 64 Hj H64) as Ht.
  rewrite bit_length_size; [apply size_ones|].
  rewrite N.ones_equiv.
  assert (2 ^ (tz j + 1) <= 2 ^ 64) by (apply N.pow_le_mono_r; lia).
  pose proof (pow2_pos (tz j + 1)). lia.
Qed.

(* ------------------------------------------------------------------------------------- *)
(* 3. the stack machine: descend_left and iter_seek                                      *)
(* ------------------------------------------------------------------------------------- *)

(* entries 0 .. upto-1 of the stack hold the ancestors of bottom position j *)
Definition stack_inv (anchor : node) (depth j : N) (upto : nat) (stk : list (option node)) : Prop :=
  forall k, (k < upto)%nat ->
    exists a, anc anchor depth j k = OK a /\ nth_error stk k = Some (Some a).

Lemma descend_left_done fuel n si depth stk : depth <= si ->
  descend_left fuel n si depth stk = OK (n, stk).
Proof.
  intros H. destruct fuel; cbn [descend_left]; rewrite (proj2 (N.leb_le depth si) H); reflexivity.
Qed.

Lemma descend_left_step fuel n si depth stk : si < depth ->
  descend_left (S fuel) n si depth stk =
  do l <- node_left n; descend_left fuel l (si + 1) depth (list_set stk (nat_of si) (Some n)).
Proof.
  intros H. cbn [descend_left]. rewrite (proj2 (N.leb_gt depth si) H). reflexivity.
Qed.

Lemma descend_spec anchor depth j : forall (m : nat) fuel si stk n,
  N.to_nat depth = (N.to_nat si + m)%nat ->
  (m < fuel)%nat ->
  length stk = N.to_nat depth ->
  anc anchor depth j (N.to_nat si) = OK n ->
  (forall b, b < depth - si -> N.testbit j b = false) ->
  stack_inv anchor depth j (N.to_nat si) stk ->
  match bottom anchor depth j with
  | OK b => exists stk', descend_left fuel n si depth stk = OK (b, stk') /\
                       length stk' = N.to_nat depth /\
                       stack_inv anchor depth j (N.to_nat depth) stk'
  | Err => descend_left fuel n si depth stk = Err
  | Panic => False
  end.
Proof.
  induction m as [|m IH]; intros fuel si stk n Hd Hf Hlen Hanc Hlow Hinv.
  - assert (E : N.to_nat depth = N.to_nat si) by lia.
    rewrite <- anc_bottom, E, Hanc. exists stk. split; [apply descend_left_done; lia|].
    split; [lia|exact Hinv].
  - destruct fuel as [|fuel]; [lia|].
    rewrite descend_left_step by lia. rewrite node_left_child.
    assert (Hnext : anc anchor depth j (S (N.to_nat si)) = child false n).
    { cbn [anc]. rewrite Hanc. cbn [bind]. rewrite N2Nat.id.
      rewrite (Hlow (depth - 1 - si)) by lia. reflexivity. }
    destruct n as [c|l r].
    + cbn [child bind]. cbn [child] in Hnext.
      rewrite <- anc_bottom.
      rewrite (anc_err_mono anchor depth j (S (N.to_nat si)) (N.to_nat depth)) by (lia || exact Hnext).
      reflexivity.
    + cbn [child bind]. cbn [child] in Hnext.
      apply IH.
      * lia.
      * lia.
      * rewrite list_set_length'. exact Hlen.
      * replace (N.to_nat (si + 1)) with (S (N.to_nat si)) by lia. exact Hnext.
      * intros b Hb. apply Hlow. lia.
      * replace (N.to_nat (si + 1)) with (S (N.to_nat si)) by lia.
        intros k Hk. unfold nat_of.
        destruct (Nat.eq_dec k (N.to_nat si)) as [->|Hne].
        -- exists (Pair l r). split; [exact Hanc|]. apply nth_error_list_set_eq. lia.
        -- destruct (Hinv k) as (a & Ha1 & Ha2); [lia|].
           exists a. split; [exact Ha1|]. rewrite nth_error_list_set_neq by lia. exact Ha2.
Qed.

(* state of the seek part of an iterator before looking for bottom node [ri] *)
Definition seek_inv (anchor : node) (depth ri : N) (stk : list (option node)) : Prop :=
  length stk = N.to_nat depth /\
  (ri <> 0 -> stack_inv anchor depth (ri - 1) (N.to_nat depth) stk).

Lemma seek_inv_init anchor depth : seek_inv anchor depth 0 (repeat None (nat_of depth)).
Proof. split; [apply repeat_length|congruence]. Qed.

Lemma seek_spec anchor depth j stk :
  depth < 256 -> j < 2 ^ depth -> j < 2 ^ 64 ->
  seek_inv anchor depth j stk ->
  match bottom anchor depth j with
  | OK b => exists stk', iter_seek anchor depth j stk = OK (b, stk') /\
                       seek_inv anchor depth (j + 1) stk'
  | Err => iter_seek anchor depth j stk = Err
  | Panic => False
  end.
Proof.
  intros Hd Hj H64 [Hlen Hinv]. unfold iter_seek.
  destruct (N.eqb_spec j 0) as [->|Hj0].
  - cbn [bind].
    pose proof (descend_spec anchor depth 0 (N.to_nat depth) (S (nat_of depth)) 0 stk anchor) as HD.
    cbn [N.to_nat Nat.add anc] in HD. unfold nat_of in *.
    specialize (HD eq_refl (Nat.lt_succ_diag_r _) Hlen eq_refl (fun b _ => N.bits_0 b)
                   (fun k Hk => ltac:(lia))).
    destruct (bottom anchor depth 0) as [b| |]; [|exact HD|exact HD].
    destruct HD as (stk' & H1 & H2 & H3). exists stk'. split; [exact H1|].
    split; [exact H2|]. intros _. replace (0 + 1 - 1) with 0 by lia. exact H3.
  - specialize (Hinv Hj0).
    destruct (tz_spec j Hj0) as (T1 & T2 & T3 & T4).
    pose proof (tz_lt j depth Hj0 Hj) as Ht.
    rewrite (bit_length_xor j Hj0 H64).
    set (t := tz j) in *.
    assert (Hsi : wrap8 (depth + 256 - (t + 1)) = depth - (t + 1)).
    { unfold wrap8. lia. }
    rewrite Hsi. set (si := depth - (t + 1)).
    destruct (Hinv (N.to_nat si)) as (a & Ha1 & Ha2); [unfold si; lia|].
    unfold nat_of. rewrite Ha2.
    assert (Hsame : forall k, (k <= N.to_nat si)%nat ->
              anc anchor depth j k = anc anchor depth (j - 1) k).
    { intros k Hk. apply anc_ext; [unfold si in Hk; lia|].
      intros b Hb1 Hb2. symmetry. apply T4. unfold si in Hk. lia. }
    rewrite node_right_child.
    assert (Hnext : anc anchor depth j (S (N.to_nat si)) = child true a).
    { cbn [anc]. rewrite Hsame, Ha1 by lia. cbn [bind]. rewrite N2Nat.id.
      replace (depth - 1 - si) with t by (unfold si; lia). rewrite T1. reflexivity. }
    destruct a as [c|l r].
    + cbn [child bind]. cbn [child] in Hnext. rewrite <- anc_bottom.
      rewrite (anc_err_mono anchor depth j (S (N.to_nat si)) (N.to_nat depth))
        by ((unfold si; lia) || exact Hnext).
      reflexivity.
    + cbn [child bind]. cbn [child] in Hnext.
      assert (Hw : wrap8 (si + 1) = si + 1) by (unfold wrap8, si; lia).
      rewrite Hw.
      pose proof (descend_spec anchor depth j (N.to_nat t) (S (N.to_nat depth)) (si + 1) stk r) as HD.
      assert (HD' := HD ltac:(unfold si; lia) ltac:(lia) Hlen
                ltac:(replace (N.to_nat (si + 1)) with (S (N.to_nat si)) by lia; exact Hnext)
                ltac:(intros b Hb; apply T2; unfold si in Hb; lia)).
      clear HD.
      assert (Hstack : stack_inv anchor depth j (N.to_nat (si + 1)) stk).
      { intros k Hk. destruct (Hinv k) as (x & Hx1 & Hx2); [unfold si in Hk; lia|].
        exists x. split; [|exact Hx2]. rewrite Hsame by lia. exact Hx1. }
      specialize (HD' Hstack).
      destruct (bottom anchor depth j) as [b| |]; [|exact HD'|exact HD'].
      destruct HD' as (stk' & H1 & H2 & H3). exists stk'. split; [exact H1|].
      split; [exact H2|]. intros _. replace (j + 1 - 1) with j by lia. exact H3.
Qed.

(* ------------------------------------------------------------------------------------- *)
(* 4. nodeReadonlyIter                                                                   *)
(* ------------------------------------------------------------------------------------- *)

Lemma node_iter_next_end anchor len depth it : len <= ni_i it ->
  node_iter_next anchor len depth it = OK (None, it).
Proof. intros H. unfold node_iter_next. now rewrite (proj2 (N.leb_le _ _) H). Qed.

Lemma node_iter_next_spec anchor len depth i stk :
  depth < 256 -> len <= 2 ^ depth -> len <= 2 ^ 64 -> i < len ->
  seek_inv anchor depth i stk ->
  match bottom anchor depth i with
  | OK b => exists stk', node_iter_next anchor len depth (mkNI i stk) = OK (Some b, mkNI (i + 1) stk') /\
                         seek_inv anchor depth (i + 1) stk'
  | Err => node_iter_next anchor len depth (mkNI i stk) = Err
  | Panic => False
  end.
Proof.
  intros Hd Hl H64 Hi Hinv. unfold node_iter_next. cbn [ni_i ni_stack].
  rewrite (proj2 (N.leb_gt _ _) Hi).
  pose proof (seek_spec anchor depth i stk Hd ltac:(lia) ltac:(lia) Hinv) as HS.
  destruct (bottom anchor depth i) as [b| |]; [|now rewrite HS|exact HS].
  destruct HS as (stk' & H1 & H2). exists stk'. rewrite H1. split; [reflexivity|exact H2].
Qed.

(* node_iter_take: the first [c] results, as a mapM over the expected bottom nodes *)
Lemma node_iter_take_spec anchor len depth :
  depth < 256 -> len <= 2 ^ depth -> len <= 2 ^ 64 ->
  forall c i stk, (i + c <= N.to_nat len)%nat ->
  seek_inv anchor depth (N.of_nat i) stk ->
  node_iter_take anchor len depth c (mkNI (N.of_nat i) stk) =
  mapM (fun k => bottom anchor depth (N.of_nat k)) (seq i c).
Proof.
  intros Hd Hl H64. induction c as [|c IH]; intros i stk Hic Hinv; [reflexivity|].
  cbn [node_iter_take seq mapM].
  pose proof (node_iter_next_spec anchor len depth (N.of_nat i) stk Hd Hl H64 ltac:(lia) Hinv) as HN.
  destruct (bottom anchor depth (N.of_nat i)) as [b| |]; [|now rewrite HN|destruct HN].
  destruct HN as (stk' & H1 & H2). rewrite H1. cbn [bind].
  replace (N.of_nat i + 1) with (N.of_nat (S i)) in * by lia.
  rewrite (IH (S i) stk') by (lia || exact H2). reflexivity.
Qed.

(* asking for more than [len] nodes is an error ("unexpected early iter end") *)
Lemma node_iter_take_over anchor len depth :
  depth < 256 -> len <= 2 ^ depth -> len <= 2 ^ 64 ->
  forall c i stk, (i <= N.to_nat len)%nat -> (N.to_nat len < i + c)%nat ->
  seek_inv anchor depth (N.of_nat i) stk ->
  node_iter_take anchor len depth c (mkNI (N.of_nat i) stk) = Err.
Proof.
  intros Hd Hl H64. induction c as [|c IH]; intros i stk Hi Hic Hinv; [lia|].
  cbn [node_iter_take].
  destruct (Nat.eq_dec i (N.to_nat len)) as [->|Hne].
  - rewrite node_iter_next_end by (cbn [ni_i]; lia). reflexivity.
  - pose proof (node_iter_next_spec anchor len depth (N.of_nat i) stk Hd Hl H64 ltac:(lia) Hinv) as HN.
    destruct (bottom anchor depth (N.of_nat i)) as [b| |]; [|now rewrite HN|destruct HN].
    destruct HN as (stk' & H1 & H2). rewrite H1. cbn [bind].
    replace (N.of_nat i + 1) with (N.of_nat (S i)) in * by lia.
    rewrite (IH (S i) stk') by (lia || exact H2). reflexivity.
Qed.

Lemma node_iter_ok_spec depth len : depth < 64 ->
  node_iter_ok depth len = true <-> len <= 2 ^ depth.
Proof.
  intros Hd. unfold node_iter_ok. rewrite (shl64_1 depth Hd), negb_true_iff, N.ltb_ge. reflexivity.
Qed.

(* Go: uint64(1) << 64 = 0, so a subtree of depth >= 64 can only be iterated with length 0 *)
Lemma node_iter_ok_high depth len : 64 <= depth ->
  node_iter_ok depth len = true <-> len = 0.
Proof.
  intros Hd. unfold node_iter_ok. rewrite (shl64_1_high depth Hd), negb_true_iff, N.ltb_ge. lia.
Qed.

Lemma pow2_le_64 depth : depth < 64 -> 2 ^ depth <= 2 ^ 64.
Proof. intros H. apply N.pow_le_mono_r; lia. Qed.

(* the complete characterisation: success and failure *)
Theorem node_iter_all_spec anchor depth len :
  depth < 64 -> len <= 2 ^ depth ->
  node_iter_all anchor len depth =
  mapM (fun k => bottom anchor depth (N.of_nat k)) (seq 0 (N.to_nat len)).
Proof.
  intros Hd Hl. unfold node_iter_all.
  rewrite (proj2 (node_iter_ok_spec depth len Hd) Hl). unfold ni_init, nat_of.
  pose proof (pow2_le_64 depth Hd).
  apply (node_iter_take_spec anchor len depth ltac:(lia) Hl ltac:(lia) (N.to_nat len) 0%nat);
    [lia|apply seek_inv_init].
Qed.

Lemma mapM_Forall2 {A B} (f : A -> res B) : forall l ys,
  mapM f l = OK ys <-> Forall2 (fun x y => f x = OK y) l ys.
Proof.
  induction l as [|x l IH]; intros ys; cbn; split; intros H.
  - injection H as <-. constructor.
  - inversion H. reflexivity.
  - destruct (f x) as [y| |] eqn:Hf; cbn in H; try discriminate.
    destruct (mapM f l) as [r| |] eqn:Hl; cbn in H; try discriminate.
    injection H as <-. constructor; [exact Hf|]. now apply IH.
  - inversion H as [|x' y l' r Hf Hr]; subst. rewrite Hf. cbn.
    rewrite (proj2 (IH r) Hr). reflexivity.
Qed.

(* success: the drain returns exactly the bottom nodes 0 .. len-1, in order *)
Theorem node_iter_seq anchor depth len ms :
  depth < 64 -> len <= 2 ^ depth ->
  (node_iter_all anchor len depth = OK ms <->
   Forall2 (fun k m => bottom anchor depth (N.of_nat k) = OK m) (seq 0 (N.to_nat len)) ms).
Proof.
  intros Hd Hl. rewrite node_iter_all_spec by assumption. apply mapM_Forall2.
Qed.

Theorem node_iter_seq_ex anchor depth len :
  depth < 64 -> len <= 2 ^ depth ->
  (forall i, i < len -> exists m, bottom anchor depth i = OK m) ->
  exists ms, node_iter_all anchor len depth = OK ms /\
    Forall2 (fun k m => bottom anchor depth (N.of_nat k) = OK m) (seq 0 (N.to_nat len)) ms.
Proof.
  intros Hd Hl Hall.
  set (g := fun k : nat => match bottom anchor depth (N.of_nat k) with OK m => m | _ => anchor end).
  assert (HM : mapM (fun k => bottom anchor depth (N.of_nat k)) (seq 0 (N.to_nat len)) =
               OK (map g (seq 0 (N.to_nat len)))).
  { apply mapM_all_ok. intros k Hk. apply in_seq in Hk. unfold g.
    destruct (Hall (N.of_nat k)) as [m Hm]; [lia|]. now rewrite Hm. }
  exists (map g (seq 0 (N.to_nat len))). rewrite node_iter_all_spec by assumption.
  split; [exact HM|]. apply mapM_Forall2. exact HM.
Qed.

(* never a wrong node: whatever comes out at position i is bottom node i *)
Theorem node_iter_take_sound anchor depth len count ns i m :
  depth < 256 -> len <= 2 ^ depth -> len <= 2 ^ 64 ->
  node_iter_take anchor len depth count (ni_init depth) = OK ns ->
  nth_error ns i = Some m ->
  bottom anchor depth (N.of_nat i) = OK m /\ N.of_nat i < len.
Proof.
  intros Hd Hl H64 Ht Hn. unfold ni_init in Ht.
  destruct (Nat.le_gt_cases count (N.to_nat len)) as [Hc|Hc].
  - change 0 with (N.of_nat 0) in Ht.
    rewrite (node_iter_take_spec anchor len depth Hd Hl H64 count 0%nat) in Ht
      by (lia || apply seek_inv_init).
    destruct (mapM_nth _ _ _ _ _ Ht Hn) as (x & Hx1 & Hx2).
    pose proof (mapM_length _ _ _ Ht) as Hlen. rewrite seq_length in Hlen.
    assert (Hi : (i < count)%nat) by (rewrite <- Hlen; apply nth_error_Some; congruence).
    rewrite (nth_error_nth' _ 0%nat) in Hx1 by (rewrite seq_length; lia).
    rewrite seq_nth in Hx1 by lia. injection Hx1 as <-. split; [exact Hx2|lia].
  - change 0 with (N.of_nat 0) in Ht.
    rewrite (node_iter_take_over anchor len depth Hd Hl H64 count 0%nat) in Ht
      by (lia || apply seek_inv_init).
    discriminate.
Qed.

Theorem node_iter_sound anchor depth len ns i m :
  depth < 64 ->
  node_iter_all anchor len depth = OK ns -> nth_error ns i = Some m ->
  bottom anchor depth (N.of_nat i) = OK m /\ N.of_nat i < len.
Proof.
  intros Hd Ha Hn. unfold node_iter_all in Ha.
  destruct (node_iter_ok depth len) eqn:Hok; [|discriminate].
  apply (node_iter_ok_spec depth len Hd) in Hok.
  pose proof (pow2_le_64 depth Hd).
  apply (node_iter_take_sound anchor depth len (nat_of len) ns i m); (lia || assumption).
Qed.

(* the first missing bottom node makes the whole drain fail: no partial / wrong result *)
Theorem node_iter_all_err anchor depth len k :
  depth < 64 -> len <= 2 ^ depth -> k < len -> bottom anchor depth k = Err ->
  node_iter_all anchor len depth = Err.
Proof.
  intros Hd Hl Hk He. rewrite node_iter_all_spec by assumption.
  destruct (mapM _ _) as [ns| |] eqn:HM; [|reflexivity|].
  - exfalso. pose proof (mapM_length _ _ _ HM) as Hlen. rewrite seq_length in Hlen.
    destruct (nth_error ns (N.to_nat k)) as [m|] eqn:Hn.
    + destruct (mapM_nth _ _ _ _ _ HM Hn) as (x & Hx1 & Hx2).
      rewrite (nth_error_nth' _ 0%nat) in Hx1 by (rewrite seq_length; lia).
      rewrite seq_nth in Hx1 by lia. injection Hx1 as <-. cbn [Nat.add] in Hx2.
      rewrite N2Nat.id in Hx2. congruence.
    + apply nth_error_None in Hn. lia.
  - exfalso. revert HM. generalize (seq 0 (N.to_nat len)). intros l.
    induction l as [|x l IH]; cbn; [discriminate|].
    pose proof (bottom_not_panic anchor depth (N.of_nat x)).
    destruct (bottom anchor depth (N.of_nat x)); cbn; try congruence.
    destruct (mapM _ l); cbn; try discriminate. intros _. now apply IH.
Qed.

(* the k-th call (k = 0, 1, ...) of Next() starting from state [it] *)
Fixpoint node_iter_calls (anchor : node) (len depth : N) (k : nat) (it : niter)
  : res (option node * niter) :=
  match k with
  | O => node_iter_next anchor len depth it
  | S k' => do r <- node_iter_next anchor len depth it; node_iter_calls anchor len depth k' (snd r)
  end.

Lemma node_iter_calls_spec anchor len depth :
  depth < 256 -> len <= 2 ^ depth -> len <= 2 ^ 64 ->
  forall k i stk, (i <= N.to_nat len)%nat ->
  seek_inv anchor depth (N.of_nat i) stk ->
  (forall x, (i <= x < i + k)%nat -> (x < N.to_nat len)%nat ->
             exists m, bottom anchor depth (N.of_nat x) = OK m) ->
  ((i + k < N.to_nat len)%nat ->
     match bottom anchor depth (N.of_nat (i + k)) with
     | OK m => exists stk', node_iter_calls anchor len depth k (mkNI (N.of_nat i) stk) =
                            OK (Some m, mkNI (N.of_nat (i + k) + 1) stk')
     | Err => node_iter_calls anchor len depth k (mkNI (N.of_nat i) stk) = Err
     | Panic => False
     end) /\
  ((N.to_nat len <= i + k)%nat ->
     exists stk', node_iter_calls anchor len depth k (mkNI (N.of_nat i) stk) = OK (None, mkNI len stk')).
Proof.
  intros Hd Hl H64. induction k as [|k IH]; intros i stk Hi Hinv Hall.
  - cbn [node_iter_calls]. rewrite Nat.add_0_r. split; intros Hk.
    + pose proof (node_iter_next_spec anchor len depth (N.of_nat i) stk Hd Hl H64 ltac:(lia) Hinv) as HN.
      destruct (bottom anchor depth (N.of_nat i)) as [b| |]; [|exact HN|exact HN].
      destruct HN as (stk' & H1 & _). exists stk'. exact H1.
    + exists stk. replace len with (N.of_nat i) at 2 by lia.
      apply node_iter_next_end. cbn [ni_i]. lia.
  - cbn [node_iter_calls].
    destruct (Nat.eq_dec i (N.to_nat len)) as [Heq|Hne].
    + rewrite node_iter_next_end by (cbn [ni_i]; lia). cbn [bind snd].
      destruct (IH i stk Hi Hinv) as [_ I2]; [intros x Hx1 Hx2; lia|].
      split; intros Hk; [lia|]. apply I2. lia.
    + pose proof (node_iter_next_spec anchor len depth (N.of_nat i) stk Hd Hl H64 ltac:(lia) Hinv) as HN.
      destruct (Hall i) as [m Hm]; [lia|lia|]. rewrite Hm in HN.
      destruct HN as (stk' & H1 & H2). rewrite H1. cbn [bind snd].
      replace (N.of_nat i + 1) with (N.of_nat (S i)) in * by lia.
      replace (i + S k)%nat with (S i + k)%nat by lia.
      apply (IH (S i) stk'); [lia|exact H2|]. intros x Hx1 Hx2. apply Hall; lia.
Qed.

(* elemReadonlyIter / fieldReadonlyIter drained *)
Lemma node_iter_drain_end tys anchor len depth : forall extra it idx, len <= ni_i it ->
  node_iter_drain extra tys anchor len depth it idx = repeat IEnd extra.
Proof.
  induction extra as [|x IH]; intros it idx H; [reflexivity|].
  cbn [node_iter_drain repeat]. rewrite node_iter_next_end by exact H. f_equal. now apply IH.
Qed.

Lemma node_iter_drain_spec tys anchor len depth :
  depth < 256 -> len <= 2 ^ depth -> len <= 2 ^ 64 ->
  forall c extra i stk, (i + c = N.to_nat len)%nat ->
  seek_inv anchor depth (N.of_nat i) stk ->
  node_iter_drain (c + extra) tys anchor len depth (mkNI (N.of_nat i) stk) i =
  steps_of (fun s => s) (map (node_elem tys anchor depth) (seq i c)) extra.
Proof.
  intros Hd Hl H64. induction c as [|c IH]; intros extra i stk Hic Hinv.
  - cbn [Nat.add seq map steps_of]. apply node_iter_drain_end. cbn [ni_i]. lia.
  - cbn [Nat.add node_iter_drain seq map steps_of]. unfold node_elem at 1.
    pose proof (node_iter_next_spec anchor len depth (N.of_nat i) stk Hd Hl H64 ltac:(lia) Hinv) as HN.
    destruct (bottom anchor depth (N.of_nat i)) as [b| |]; [|now rewrite HN|destruct HN].
    destruct HN as (stk' & H1 & H2). rewrite H1. cbn [bind].
    destruct (tys i) as [t|]; [|reflexivity].
    destruct (view_from_backing_ok t b); [|reflexivity].
    replace (N.of_nat i + 1) with (N.of_nat (S i)) in * by lia.
    rewrite (IH extra (S i) stk') by (lia || exact H2). reflexivity.
Qed.

Theorem node_iter_drain_init tys anchor len depth extra :
  depth < 256 -> len <= 2 ^ depth -> len <= 2 ^ 64 ->
  node_iter_drain (N.to_nat len + extra) tys anchor len depth (ni_init depth) 0 =
  steps_of (fun s => s) (map (node_elem tys anchor depth) (seq 0 (N.to_nat len))) extra.
Proof.
  intros Hd Hl H64.
  apply (node_iter_drain_spec tys anchor len depth Hd Hl H64 (N.to_nat len) extra 0%nat);
    [lia|apply seek_inv_init].
Qed.

(* ------------------------------------------------------------------------------------- *)
(* 5. the two packed iterators as instances of one machine                               *)
(* ------------------------------------------------------------------------------------- *)

Section Gen.
Context {A : Type}.
Variable P : N.                       (* components per bottom node *)
Variable mid : N -> bool.             (* "in the middle of a node" test on j *)
Variable nxt : N -> N.                (* j += 1 (uint8) *)
Variable off : N -> N.                (* the position in the node that j stands for, 1..P *)
Variable dec : chunk -> N -> res A.
Variables (anchor : node) (len depth : N).

Definition gen_next (it : eiter) : res (option A * eiter) :=
  if len <=? ei_i it then OK (None, it) else
  if mid (ei_j it) then
    do v <- dec (ei_cur it) (ei_j it);
    OK (Some v, mkEI (ei_i it + 1) (nxt (ei_j it)) (ei_cur it) (ei_ri it) (ei_stack it))
  else
    do r <- iter_seek anchor depth (ei_ri it) (ei_stack it); let '(n, stack) := r in
    do c <- leaf_chunk n;
    do v <- dec c 0;
    OK (Some v, mkEI (ei_i it + 1) 1 c (ei_ri it + 1) stack).

Fixpoint gen_drain (f : A -> istep) (calls : nat) (it : eiter) : list istep :=
  match calls with
  | O => []
  | S k =>
    match gen_next it with
    | OK (Some v, it') => f v :: gen_drain f k it'
    | OK (None, it') => IEnd :: gen_drain f k it'
    | Err => [IErr]
    | Panic => [IPanic]
    end
  end.

Definition gen_elem (k : nat) : res A :=
  do b <- bottom anchor depth (N.of_nat k / P); do c <- leaf_chunk b; dec c (N.of_nat k mod P).

Hypothesis HP : 1 <= P.
Hypothesis Hmid : forall j, j < 256 -> mid j = (off j <? P).
Hypothesis Hoff : forall j, j < 256 -> off j < P -> off j = j.
Hypothesis Hnxt : forall j, j < 256 -> off j < P -> off (nxt j) = off j + 1 /\ nxt j < 256.
Hypothesis Hoff1 : off 1 = 1.
Hypothesis Hdepth : depth < 256.
Hypothesis Hlen : len <= 2 ^ depth * P.
Hypothesis Hlen64 : len <= 2 ^ 64.

Definition gen_inv (it : eiter) : Prop :=
  ei_j it < 256 /\ 1 <= off (ei_j it) <= P /\
  ei_i it + P = ei_ri it * P + off (ei_j it) /\
  seek_inv anchor depth (ei_ri it) (ei_stack it) /\
  (off (ei_j it) < P ->
     exists b, bottom anchor depth (ei_ri it - 1) = OK b /\ leaf_chunk b = OK (ei_cur it)).

Lemma gen_next_end it : len <= ei_i it -> gen_next it = OK (None, it).
Proof. intros H. unfold gen_next. now rewrite (proj2 (N.leb_le _ _) H). Qed.

Lemma gen_drain_end f : forall extra it, len <= ei_i it -> gen_drain f extra it = repeat IEnd extra.
Proof.
  induction extra as [|x IH]; intros it H; [reflexivity|].
  cbn [gen_drain repeat]. rewrite gen_next_end by exact H. f_equal. now apply IH.
Qed.

Lemma gen_next_spec it : gen_inv it -> ei_i it < len ->
  match gen_elem (N.to_nat (ei_i it)) with
  | OK v => exists it', gen_next it = OK (Some v, it') /\ ei_i it' = ei_i it + 1 /\ gen_inv it'
  | Err => gen_next it = Err
  | Panic => gen_next it = Panic
  end.
Proof.
  destruct it as [i j cur ri stk]. cbn [ei_i ei_j ei_cur ei_ri ei_stack].
  intros (Hj & Hoj & Heq & Hseek & Hcur) Hi. cbn [ei_i ei_j ei_cur ei_ri ei_stack] in *.
  unfold gen_next, gen_elem. cbn [ei_i ei_j ei_cur ei_ri ei_stack].
  rewrite N2Nat.id. rewrite (proj2 (N.leb_gt _ _) Hi). rewrite (Hmid j Hj).
  destruct (N.ltb_spec (off j) P) as [Hlt|Hge].
  - (* in the middle of bottom node ri-1 *)
    destruct (Hcur Hlt) as (b & Hb1 & Hb2).
    assert (Hri : ri <> 0) by (intros ->; lia).
    assert (Hdiv : i / P = ri - 1 /\ i mod P = off j).
    { assert (E : i = P * (ri - 1) + off j).
      { replace ri with ((ri - 1) + 1) in Heq at 1 by lia. lia. }
      split; [symmetry; apply (N.div_unique i P (ri - 1) (off j)); assumption|
              symmetry; apply (N.mod_unique i P (ri - 1) (off j)); assumption]. }
    destruct Hdiv as [-> ->]. rewrite Hb1. cbn [bind]. rewrite Hb2. cbn [bind].
    rewrite (Hoff j Hj Hlt).
    destruct (dec cur j) as [v| |]; cbn [bind]; try reflexivity.
    eexists. split; [reflexivity|]. cbn [ei_i ei_j ei_cur ei_ri ei_stack].
    split; [reflexivity|].
    destruct (Hnxt j Hj Hlt) as [Hn1 Hn2].
    split; [exact Hn2|]. split; [lia|]. split; [lia|]. split; [exact Hseek|].
    intros _. exists b. split; assumption.
  - (* next bottom node: ri *)
    assert (Hoj' : off j = P) by lia.
    assert (Hdiv : i / P = ri /\ i mod P = 0).
    { assert (E : i = P * ri + 0) by lia.
      split; [symmetry; apply (N.div_unique i P ri 0); lia|
              symmetry; apply (N.mod_unique i P ri 0); lia]. }
    destruct Hdiv as [-> ->].
    assert (Hri : ri < 2 ^ depth /\ ri < 2 ^ 64).
    { assert (ri * P < 2 ^ depth * P) by lia.
      split; [apply (N.mul_lt_mono_pos_r P); lia|].
      assert (ri * 1 <= ri * P) by (apply N.mul_le_mono_l; lia). lia. }
    pose proof (seek_spec anchor depth ri stk Hdepth (proj1 Hri) (proj2 Hri) Hseek) as HS.
    destruct (bottom anchor depth ri) as [b| |] eqn:Hb; [|now rewrite HS|destruct HS].
    destruct HS as (stk' & H1 & H2). rewrite H1. cbn [bind].
    destruct (leaf_chunk b) as [c| |] eqn:Hc; cbn [bind]; try reflexivity.
    destruct (dec c 0) as [v| |]; cbn [bind]; try reflexivity.
    eexists. split; [reflexivity|]. cbn [ei_i ei_j ei_cur ei_ri ei_stack].
    split; [reflexivity|]. rewrite Hoff1.
    split; [lia|]. split; [lia|]. split; [lia|]. split; [exact H2|].
    intros _. exists b. replace (ri + 1 - 1) with ri by lia. split; assumption.
Qed.

Lemma gen_drain_spec f : forall c extra it i,
  ei_i it = N.of_nat i -> (i + c = N.to_nat len)%nat -> gen_inv it ->
  gen_drain f (c + extra) it = steps_of f (map gen_elem (seq i c)) extra.
Proof.
  induction c as [|c IH]; intros extra it i Hi Hic Hinv.
  - cbn [Nat.add seq map steps_of]. apply gen_drain_end. lia.
  - cbn [Nat.add gen_drain seq map steps_of].
    pose proof (gen_next_spec it Hinv ltac:(lia)) as HN.
    rewrite Hi, Nat2N.id in HN.
    destruct (gen_elem i) as [v| |]; [|now rewrite HN|now rewrite HN].
    destruct HN as (it' & H1 & H2 & H3). rewrite H1.
    rewrite (IH extra it' (S i)) by (lia || exact H3). reflexivity.
Qed.

End Gen.
