(* AllocProofs.v — proofs about the allocation-instrumented view decoder Alloc.v (C20).

   Small spec definitions used in the statements of Props/C20.v:
   * [Spec.lenN l]     the length of a list as an [N];
   * [list_table e n st d]  (section 6) the number of entries of the element / offset table
                       that ComplexListType.Deserialize allocates for List[e, n] in reader
                       state (st, d): the guards of the decoder written out, None when it
                       returns before allocating a table;
   * [erase_limits t]  (section 8) t with every list / bitlist limit replaced by 0.
   Internal vocabulary: [slen st] = bytes left in the stream; [okres P F st d r] = the outcome
   r has allocated <= P * scope + P * slen st + F, and if it is a success, <= P * (bytes it
   consumed) + F; [strictres] = a success consumed >= 1 byte; [tinv t] = the invariant proved
   by induction on t: okres (perbyte t) (foot t) for every state, and strictres for
   fixed-size types of non-zero size (this is what bounds the number of elements of a list
   of fixed-size elements by the bytes consumed).

   Contents
     1. the instrumentation monad; faithfulness  fst (view_deser_a ..) = view_deser ..
     2. reader facts (reads consume the stream, scopes shrink)
     3. the cost calculus: [okres], [good], series of elements
     4. cost helpers, one lemma [tinv_<constructor>] per type constructor
     5. [tinv_all]
     6. the statements of Props/C20.v (bound, top level, list-table lemma)
     7. Examples (hostile inputs; counterexample to the pure-scope bound in a reader state
        without limit reader)
     8. [perbyte] / [foot] do not depend on list limits *)
From Coq Require Import PeanoNat ZArith ZifyN ZifyNat ZifyBool.
From Ztyp Require Import Base Bitlen Tree Types Reader View Alloc SizeProofs ReprProofs.
Open Scope N_scope.

#[local] Ltac Zify.zify_post_hook ::= Z.div_mod_to_equations.

(* ------------------------------------------------------------------------------------ *)
(** * 1. the instrumentation monad *)

Lemma fst_abind {A B} (x : ares A) (f : A -> ares B) :
  fst (abind x f) = bind (fst x) (fun a => fst (f a)).
Proof. destruct x as [[a| |] c]; cbn; [destruct (f a); reflexivity | reflexivity | reflexivity]. Qed.

Lemma snd_abind {A B} (x : ares A) (f : A -> ares B) :
  snd (abind x f) = snd x + match fst x with OK a => snd (f a) | _ => 0 end.
Proof. destruct x as [[a| |] c]; cbn; [destruct (f a); reflexivity | lia | lia]. Qed.

Lemma fst_abind_cong {A B} (x : ares A) (f : A -> ares B) y g :
  fst x = y -> (forall a, fst (f a) = g a) -> fst (abind x f) = bind y g.
Proof. intros H1 H2. rewrite fst_abind, H1. destruct y; cbn; auto. Qed.

Lemma fst_charge_bind {B} k (f : unit -> ares B) : fst (abind (charge k) f) = fst (f tt).
Proof. cbn. destruct (f tt); reflexivity. Qed.

Definition faithful (da : adecoder) (dd : decoder) : Prop := forall st d, fst (da st d) = dd st d.

Ltac faith_step :=
  match goal with
  | |- fst (alift _) = _ => reflexivity
  | |- fst (abind (charge _) _) = _ => rewrite fst_charge_bind
  | |- fst (abind _ _) = bind _ _ =>
      apply fst_abind_cong; [ try reflexivity | intros ?; cbv beta ]
  | |- fst (if ?c then _ else _) = _ => destruct c
  | |- fst (match ?x with _ => _ end) = _ => destruct x
  end.

Lemma fixed_series_faithful da dd : faithful da dd -> forall count size st d,
  fst (deser_fixed_series_a da count size st d) = deser_fixed_series dd count size st d.
Proof.
  intros H; induction count as [|k IH]; intros size st d;
    cbn [deser_fixed_series_a deser_fixed_series]; [reflexivity|].
  repeat faith_step. - apply H. - repeat faith_step. apply IH.
Qed.

Lemma var_elems_faithful da dd : faithful da dd -> forall offs scope st d,
  fst (deser_var_elems_a da offs scope st d) = deser_var_elems dd offs scope st d.
Proof.
  intros H; induction offs as [|o rest IH]; intros scope st d;
    cbn [deser_var_elems_a deser_var_elems]; [reflexivity|].
  repeat faith_step. - apply H. - repeat faith_step. apply IH.
Qed.

Definition next_a := fix nxt (l : list (cfield * adecoder)) : option N :=
  match l with [] => None | (CVar o, _) :: _ => Some o | _ :: l' => nxt l' end.
Definition next_d := fix nxt (l : list (cfield * decoder)) : option N :=
  match l with [] => None | (CVar o, _) :: _ => Some o | _ :: l' => nxt l' end.

Definition frel {I} (a : I * adecoder) (b : I * decoder) : Prop :=
  fst a = fst b /\ faithful (snd a) (snd b).

Lemma next_faithful la ld : Forall2 frel la ld -> next_a la = next_d ld.
Proof.
  induction 1 as [|[ca da] [cd dd] la ld [E _] _ IH]; [reflexivity|].
  cbn [fst] in E. subst cd. cbn [next_a next_d]. destruct ca; [exact IH|reflexivity].
Qed.

Lemma cont_fixed_faithful la ld : Forall2 frel la ld -> forall first fp prev scope st d,
  fst (deser_cont_fixed_a la first fp prev scope st d) = deser_cont_fixed ld first fp prev scope st d.
Proof.
  induction 1 as [|[ia da] [id dd] la ld [E F] _ IH]; intros first fp prev scope st d;
    cbn [deser_cont_fixed_a deser_cont_fixed]; [reflexivity|].
  cbn [fst snd] in E, F. subst id. destruct (ti_fixed ia).
  - repeat faith_step. + apply F. + repeat faith_step. apply IH.
  - repeat faith_step. apply IH.
Qed.

Lemma cont_var_faithful la ld : Forall2 frel la ld -> forall scope st d,
  fst (deser_cont_var_a la scope st d) = deser_cont_var ld scope st d.
Proof.
  induction 1 as [|[ca da] [cd dd] la ld [E F] HR IH]; intros scope st d;
    cbn [deser_cont_var_a deser_cont_var]; [reflexivity|].
  cbn [fst snd] in E, F. subst cd. destruct ca as [n|off].
  - repeat faith_step. apply IH.
  - change (fix nxt (l : list (cfield * adecoder)) : option N :=
              match l with [] => None | (CVar o, _) :: _ => Some o | _ :: l' => nxt l' end)
      with next_a.
    change (fix nxt (l : list (cfield * decoder)) : option N :=
              match l with [] => None | (CVar o, _) :: _ => Some o | _ :: l' => nxt l' end)
      with next_d.
    rewrite (next_faithful _ _ HR).
    repeat faith_step. + apply F. + repeat faith_step. apply IH.
Qed.

Lemma frel_combine {I} (is : list I) (fa : ty -> adecoder) (fd : ty -> decoder) : forall fs (js : list I),
  Forall (fun f => faithful (fa f) (fd f)) fs ->
  Forall2 frel (combine js (map fa fs)) (combine js (map fd fs)).
Proof.
  induction fs as [|f fs IH]; intros js H.
  - destruct js; constructor.
  - destruct js as [|j js]; [constructor|]. inversion H; subst. cbn [map combine].
    constructor; [split; [reflexivity|assumption]|]. now apply IH.
Qed.

Section Faithful.
Variable zh : nat -> chunk.

Lemma union_pick_faithful (sel : N) (scope : N) st1 d1 : forall opts k,
  Forall (fun o => faithful (view_deser_a zh o) (view_deser zh o)) opts ->
  fst ((fix pick (os : list ty) (k : nat) : ares (node * rstate) :=
         match os, k with
         | [], _ => alift Panic
         | o :: _, O =>
           if ti_fixed (info o) && negb (ti_size (info o) =? scope - 1) then alift Err else
           ado r <- view_deser_a zh o st1 d1; let '(c, st2) := r in
           ado _ <- charge (c_leaf + c_pair + c_view);
           alift (OK (Pair c (Leaf (pad32 [byte_of_N sel])), st2))
         | _ :: os', S k' => pick os' k'
         end) opts k)
  = (fix pick (os : list ty) (k : nat) : res (node * rstate) :=
         match os, k with
         | [], _ => Panic
         | o :: _, O =>
           if ti_fixed (info o) && negb (ti_size (info o) =? scope - 1) then Err else
           do r <- view_deser zh o st1 d1; let '(c, st2) := r in
           OK (Pair c (Leaf (pad32 [byte_of_N sel])), st2)
         | _ :: os', S k' => pick os' k'
         end) opts k.
Proof.
  induction opts as [|o os IH]; intros k H; [destruct k; reflexivity|].
  inversion H as [|? ? Ho Hos]; subst. destruct k as [|k]; [|apply IH, Hos].
  repeat faith_step. apply Ho.
Qed.

Theorem instrumentation_faithful : forall t st d,
  fst (view_deser_a zh t st d) = view_deser zh t st d.
Proof.
  induction t using ty_ind'; intros st d; cbn [view_deser_a view_deser].
  - repeat faith_step.
  - repeat faith_step.
  - repeat faith_step.
  - repeat faith_step.
  - repeat faith_step.
  - repeat faith_step.
  - (* vector *)
    destruct (is_basic_elem t); [repeat faith_step|].
    destruct (ti_fixed (info t)).
    + repeat faith_step. apply fixed_series_faithful. exact IHt.
    + repeat faith_step. apply var_elems_faithful. exact IHt.
  - (* list *)
    destruct (is_basic_elem t); [repeat faith_step|].
    destruct (dr_scope d =? 0); [repeat faith_step|].
    destruct (ti_fixed (info t)).
    + repeat faith_step. apply fixed_series_faithful. exact IHt.
    + repeat faith_step. apply var_elems_faithful. exact IHt.
  - (* container *)
    repeat faith_step.
    + apply cont_fixed_faithful, frel_combine; [exact []|exact H].
    + repeat faith_step. apply cont_var_faithful, frel_combine; [exact []|exact H].
  - (* union *)
    repeat faith_step. apply union_pick_faithful. exact H.
Qed.
End Faithful.

(* ------------------------------------------------------------------------------------ *)
(** * 2. reader facts: reads consume the stream, scopes only shrink *)

(* number of bytes left in the input stream *)
Definition slen (st : rstate) : N := N.of_nat (length (r_stream st)).

Lemma avail_le_slen st chain : avail st chain <= slen st.
Proof.
  unfold avail, slen. induction chain as [|k c IH]; cbn [fold_right]; lia.
Qed.

Lemma dr_read_facts st d k bs st' d' :
  dr_read st d k = OK (bs, st', d') ->
  slen st' + k = slen st /\ dr_scope d' + k = dr_scope d.
Proof.
  unfold dr_read. destruct (N.eqb_spec k 0) as [K|K].
  { intros H; injection H as <- <- <-. lia. }
  destruct (two64 - 1 - d_i d <? k); [discriminate|].
  destruct (N.ltb_spec (d_max d) (d_i d + k)) as [M|M]; [discriminate|].
  destruct (N.ltb_spec (avail st (d_chain d)) k) as [A|A]; [discriminate|].
  intros H; injection H as <- <- <-.
  pose proof (avail_le_slen st (d_chain d)).
  unfold slen, consume, dr_scope in *. cbn [r_stream d_max d_i]. rewrite skipn_length.
  unfold nat_of. lia.
Qed.

Lemma dr_sub_scope_facts st d c st1 sd :
  dr_sub_scope st d c = OK (st1, sd) ->
  slen st1 = slen st /\ dr_scope sd = c /\ c <= dr_scope d.
Proof.
  unfold dr_sub_scope. destruct (N.ltb_spec (dr_scope d) c) as [C|C]; [discriminate|].
  intros H; injection H as <- <-. unfold slen, dr_scope; cbn [r_stream d_max d_i]. unfold dr_scope in C. lia.
Qed.

Lemma dr_read_u32_facts st d v st' d' :
  dr_read_u32 st d = OK (v, st', d') -> slen st' + 4 = slen st /\ dr_scope d' + 4 = dr_scope d.
Proof.
  unfold dr_read_u32. destruct (dr_read st d 4) as [[[bs s] dd]| |] eqn:E; cbn [bind]; try discriminate.
  intros H; injection H as <- <- <-. exact (dr_read_facts _ _ _ _ _ _ E).
Qed.

Lemma dr_read_byte_facts st d v st' d' :
  dr_read_byte st d = OK (v, st', d') -> slen st' + 1 = slen st /\ dr_scope d' + 1 = dr_scope d.
Proof.
  unfold dr_read_byte. destruct (dr_read st d 1) as [[[bs s] dd]| |] eqn:E; cbn [bind]; try discriminate.
  intros H; injection H as <- <- <-. exact (dr_read_facts _ _ _ _ _ _ E).
Qed.

Lemma read_offsets_facts : forall count prev st d offs st' d',
  read_offsets count prev st d = OK (offs, st', d') ->
  slen st' + 4 * N.of_nat count = slen st /\ dr_scope d' + 4 * N.of_nat count = dr_scope d /\
  length offs = count.
Proof.
  induction count as [|k IH]; intros prev st d offs st' d' H; cbn [read_offsets] in H.
  - injection H as <- <- <-. cbn. lia.
  - destruct (dr_read_u32 st d) as [[[off st1] d1]| |] eqn:E; cbn [bind] in H; try discriminate.
    destruct (off <? prev); [discriminate|].
    destruct (read_offsets k off st1 d1) as [[[offs2 st2] d2]| |] eqn:E2; cbn [bind] in H;
      try discriminate.
    injection H as <- <- <-. apply IH in E2. apply dr_read_u32_facts in E.
    cbn [length]. lia.
Qed.

(* ------------------------------------------------------------------------------------ *)
(** * 3. the cost calculus *)

Lemma abind_ret {A B} (a : A) (f : A -> ares B) : abind (alift (OK a)) f = f a.
Proof. cbn. destruct (f a). reflexivity. Qed.
Lemma abind_err {A B} (f : A -> ares B) : abind (alift Err) f = (Err, 0).
Proof. reflexivity. Qed.
Lemma abind_panic {A B} (f : A -> ares B) : abind (alift Panic) f = (Panic, 0).
Proof. reflexivity. Qed.
Lemma abind_OK {A B} (a : A) c (f : A -> ares B) : abind (OK a, c) f = (fst (f a), c + snd (f a)).
Proof. cbn. destruct (f a). reflexivity. Qed.
Lemma abind_Err' {A B} c (f : A -> ares B) : abind (Err, c) f = (Err, c).
Proof. reflexivity. Qed.
Lemma abind_Panic' {A B} c (f : A -> ares B) : abind (Panic, c) f = (Panic, c).
Proof. reflexivity. Qed.
Lemma abind_charge {B} k (f : unit -> ares B) : abind (charge k) f = (fst (f tt), k + snd (f tt)).
Proof. cbn. destruct (f tt). reflexivity. Qed.

(* [okres P F st d r]: the outcome r of a decoder started in state st with reader d has
   allocated at most P bytes per byte of scope plus P bytes per byte left in the stream plus
   F; if it is a success, at most P bytes per consumed byte plus F (and nothing is un-read) *)
Definition okres {A} (P F : N) (st : rstate) (d : dreader) (r : ares (A * rstate)) : Prop :=
  snd r <= P * dr_scope d + P * slen st + F /\
  (forall n st', fst r = OK (n, st') ->
     slen st' <= slen st /\ snd r + P * slen st' <= P * slen st + F).
(* a successful outcome has consumed at least one byte *)
Definition strictres {A} (st : rstate) (r : ares (A * rstate)) : Prop :=
  forall n st', fst r = OK (n, st') -> slen st' + 1 <= slen st.

Definition good (P F : N) (dec : adecoder) : Prop := forall st d, okres P F st d (dec st d).
Definition strict (dec : adecoder) : Prop := forall st d, strictres st (dec st d).

Lemma good_mono P F P' F' dec : P <= P' -> F <= F' -> good P F dec -> good P' F' dec.
Proof.
  intros HP HF G st d. destruct (G st d) as [G1 G2]. split.
  - pose proof (N.mul_le_mono_r _ _ (dr_scope d) HP). pose proof (N.mul_le_mono_r _ _ (slen st) HP).
    lia.
  - intros n st' E. destruct (G2 n st' E) as [L C]. split; [exact L|].
    assert (exists c, slen st = slen st' + c) as [c Hc] by (exists (slen st - slen st'); lia).
    rewrite Hc in *. rewrite N.mul_add_distr_l in *.
    pose proof (N.mul_le_mono_r _ _ c HP). lia.
Qed.

Section Series.
Variables (P F : N) (dec : adecoder).
Hypothesis Hg : good P F dec.

Lemma fixed_series_good : forall count size st d,
  let r := deser_fixed_series_a dec count size st d in
  snd r <= P * dr_scope d + P * slen st + N.of_nat count * F /\
  (forall ns st', fst r = OK (ns, st') ->
     slen st' <= slen st /\ snd r + P * slen st' <= P * slen st + N.of_nat count * F).
Proof.
  induction count as [|k IH]; intros size st d; cbn zeta; cbn [deser_fixed_series_a].
  { cbn. split; [lia|]. intros ns st' H; injection H as <- <-. lia. }
  rewrite Nat2N.inj_succ, N.mul_succ_l.
  destruct (dr_sub_scope st d size) as [[st1 sd]| |] eqn:Hs.
  2,3: cbn; split; [lia|discriminate].
  rewrite abind_ret. destruct (dr_sub_scope_facts _ _ _ _ _ Hs) as (L1 & S1 & S2).
  pose proof (N.mul_le_mono_l _ _ P S2) as M.
  destruct (Hg st1 sd) as [G1 G2]. rewrite S1, L1 in G1. rewrite L1 in G2.
  destruct (dec st1 sd) as [[[n st2]| |] c1] eqn:Hd; cbn [fst snd] in G1, G2.
  2,3: cbn; split; [lia|discriminate].
  rewrite abind_OK. destruct (G2 _ _ eq_refl) as [G2a G2b].
  destruct (IH size st2 d) as [I1 I2].
  destruct (deser_fixed_series_a dec k size st2 d) as [[[ns st3]| |] c2] eqn:Hr;
    cbn [fst snd abind alift] in *.
  2,3: split; [lia|discriminate].
  destruct (I2 _ _ eq_refl) as [I2a I2b]. split; [lia|].
  intros ns' st' H; injection H as <- <-. lia.
Qed.

Lemma fixed_series_strict : strict dec -> forall count size st d ns st',
  fst (deser_fixed_series_a dec count size st d) = OK (ns, st') ->
  slen st' + N.of_nat count <= slen st.
Proof.
  intros Hs. induction count as [|k IH]; intros size st d ns st'; cbn [deser_fixed_series_a].
  { cbn. intros H; injection H as <- <-. lia. }
  destruct (dr_sub_scope st d size) as [[st1 sd]| |] eqn:Hss; [|cbn; discriminate..].
  rewrite abind_ret. destruct (dr_sub_scope_facts _ _ _ _ _ Hss) as (L1 & _).
  pose proof (Hs st1 sd) as S1.
  destruct (dec st1 sd) as [[[n st2]| |] c1] eqn:Hd; [|cbn; discriminate..].
  rewrite abind_OK. specialize (S1 _ _ eq_refl). specialize (IH size st2 d).
  destruct (deser_fixed_series_a dec k size st2 d) as [[[ns2 st3]| |] c2] eqn:Hr;
    cbn [fst snd abind alift] in *; try discriminate.
  intros H; injection H as <- <-. specialize (IH _ _ eq_refl). lia.
Qed.

Lemma var_elems_good : forall offs scope st d,
  let r := deser_var_elems_a dec offs scope st d in
  snd r <= P * dr_scope d + P * slen st + N.of_nat (length offs) * F /\
  (forall ns st', fst r = OK (ns, st') ->
     slen st' <= slen st /\ snd r + P * slen st' <= P * slen st + N.of_nat (length offs) * F).
Proof.
  induction offs as [|o rest IH]; intros scope st d; cbn zeta; cbn [deser_var_elems_a].
  { cbn. split; [lia|]. intros ns st' H; injection H as <- <-. lia. }
  cbn [length]. rewrite Nat2N.inj_succ, N.mul_succ_l.
  set (size := match rest with o' :: _ => sub32 o' o | [] => sub64 scope o end).
  destruct (dr_sub_scope st d size) as [[st1 sd]| |] eqn:Hs.
  2,3: cbn; split; [lia|discriminate].
  rewrite abind_ret. destruct (dr_sub_scope_facts _ _ _ _ _ Hs) as (L1 & S1 & S2).
  pose proof (N.mul_le_mono_l _ _ P S2) as M.
  destruct (Hg st1 sd) as [G1 G2]. rewrite S1, L1 in G1. rewrite L1 in G2.
  destruct (dec st1 sd) as [[[n st2]| |] c1] eqn:Hd; cbn [fst snd] in G1, G2.
  2,3: cbn; split; [lia|discriminate].
  rewrite abind_OK. destruct (G2 _ _ eq_refl) as [G2a G2b].
  destruct (IH scope st2 d) as [I1 I2].
  destruct (deser_var_elems_a dec rest scope st2 d) as [[[ns st3]| |] c2] eqn:Hr;
    cbn [fst snd abind alift] in *.
  2,3: split; [lia|discriminate].
  destruct (I2 _ _ eq_refl) as [I2a I2b]. split; [lia|].
  intros ns' st' H; injection H as <- <-. lia.
Qed.
End Series.

(* ------------------------------------------------------------------------------------ *)
(** * 4. cost helpers *)

Lemma contents_depth_le64 t : contents_depth t <= 64.
Proof.
  destruct t; cbn [contents_depth]; try lia; try apply cover_depth_le64.
  all: destruct (is_basic_elem t); apply cover_depth_le64.
Qed.

Lemma cost_chunks_le k dp : dp <= 64 -> cost_chunks k dp <= 4 * k + 5244.
Proof. intros H. unfold cost_chunks, c_iface, c_leaf, c_pair. lia. Qed.

Lemma cost_fill_le count dp : dp <= 64 -> cost_fill count dp <= 96 * count + 5120.
Proof. intros H. unfold cost_fill, c_iface, c_pair. lia. Qed.

Ltac simp_abind :=
  repeat (first [ rewrite abind_charge | rewrite abind_ret | rewrite abind_err
                | rewrite abind_panic | rewrite abind_OK | rewrite abind_Err'
                | rewrite abind_Panic' ]); cbn [fst snd alift].

Ltac destr_pairs :=
  repeat match goal with
         | |- context [match ?p with pair _ _ => _ end] => is_var p; destruct p
         end.

(* case split on the next lifted result *)
Ltac dres :=
  match goal with
  | |- context [abind (alift ?x) _] => let E := fresh "E" in destruct x eqn:E
  end; simp_abind; destr_pairs; simp_abind.

Ltac facts :=
  repeat match goal with
         | H : dr_read _ _ _ = OK _ |- _ => apply dr_read_facts in H; destruct H as [? ?]
         | H : dr_read_byte _ _ = OK _ |- _ => apply dr_read_byte_facts in H; destruct H as [? ?]
         | H : dr_read_u32 _ _ = OK _ |- _ => apply dr_read_u32_facts in H; destruct H as [? ?]
         | H : dr_sub_scope _ _ _ = OK _ |- _ =>
             apply dr_sub_scope_facts in H; destruct H as (? & ? & ?)
         | H : read_offsets _ _ _ _ = OK _ |- _ =>
             apply read_offsets_facts in H; destruct H as (? & ? & ?)
         end.

Ltac consts := unfold c_leaf, c_pair, c_view, c_iface in *.

(* close a goal  okres .. (r, c) /\ (.. -> strictres st (r, c))  whose r is a constructor *)
Ltac fin :=
  unfold okres, strictres; cbn [fst snd alift]; facts; consts;
  split; [ split; [ try lia | intros ? ? HH; try discriminate HH; injection HH as <- <-; try lia ]
         | intros ? ? ? ? HH; try discriminate HH; injection HH as <- <-; try lia ].

Section Bound.
Variable zh : nat -> chunk.

Definition tinv (t : ty) : Prop := forall st d,
  okres (perbyte t) (foot t) st d (view_deser_a zh t st d) /\
  (ti_fixed (info t) = true -> ti_size (info t) <> 0 -> strictres st (view_deser_a zh t st d)).

Lemma tinv_uint w : tinv (TUint w).
Proof.
  intros st d. cbn [view_deser_a perbyte foot info ti_size ti_fixed].
  destruct (uint_width_ok w); simp_abind; [|fin]. dres; fin.
Qed.

Lemma tinv_bool : tinv TBool.
Proof.
  intros st d. cbn [view_deser_a perbyte foot info ti_size ti_fixed].
  dres; [|fin..]. destruct (1 <? n); fin.
Qed.

Lemma tinv_bytes n : tinv (TBytes n).
Proof.
  intros st d. cbn [view_deser_a perbyte foot info ti_size ti_fixed]. simp_abind. dres; fin.
Qed.

Lemma tinv_root : tinv TRoot.
Proof.
  intros st d. cbn [view_deser_a perbyte foot info ti_size ti_fixed]. simp_abind. dres; fin.
Qed.

Ltac dif := match goal with |- context [if ?c then _ else _] => destruct c eqn:? end.

Lemma tinv_bitvector n : tinv (TBitvector n).
Proof.
  intros st d. cbn [view_deser_a perbyte foot].
  pose proof (cost_chunks_le (dr_scope d) _ (contents_depth_le64 (TBitvector n))) as CC.
  destruct (N.eqb_spec (ti_size (info (TBitvector n))) (dr_scope d)) as [Es|Es]; cbn [negb]; [|fin].
  simp_abind. dres; [|fin..].
  dif; [fin|]. simp_abind. dres; fin.
Qed.

Lemma tinv_bitlist n : tinv (TBitlist n).
Proof.
  intros st d. cbn [view_deser_a perbyte foot info ti_fixed].
  pose proof (cost_chunks_le (dr_scope d) _ (contents_depth_le64 (TBitlist n))) as CC.
  destruct (dr_scope d =? 0); [fin|]. dif; [fin|]. simp_abind. dres; [|fin..].
  dif; [fin|]. dif; [simp_abind; dres; fin|]. dif; [fin|]. simp_abind. dres; fin.
Qed.

Lemma mul64_nz a b : mul64 a b <> 0 -> a <> 0 /\ b <> 0.
Proof.
  unfold mul64, wrap64. intros H.
  split; intros ->; apply H; [rewrite N.mul_0_l | rewrite N.mul_0_r]; reflexivity.
Qed.

Ltac mono P a b := assert (P * a <= P * b) by (apply N.mul_le_mono_l; lia).

Lemma tinv_vector e n : tinv e -> tinv (TVector e n).
Proof.
  intros IH st d. cbn [view_deser_a perbyte foot].
  pose proof (contents_depth_le64 (TVector e n)) as DL.
  pose proof (cost_chunks_le (dr_scope d) _ DL) as CC.
  pose proof (cost_fill_le n _ DL) as CF.
  assert (Ge : good (perbyte e) (foot e) (view_deser_a zh e)) by (intros s1 d1; apply IH).
  destruct (is_basic_elem e) eqn:B.
  - (* packed basic elements: one read of the whole scope *)
    destruct (N.eqb_spec (ti_size (info (TVector e n))) (dr_scope d)) as [Es|Es]; cbn [negb]; [|fin].
    simp_abind. dres; [|fin..]. simp_abind. dres; fin.
  - destruct (ti_fixed (info e)) eqn:Fx.
    + (* fixed-size elements *)
      destruct (N.eqb_spec (ti_size (info (TVector e n))) (dr_scope d)) as [Es|Es]; cbn [negb]; [|fin].
      simp_abind.
      destruct (fixed_series_good _ _ _ Ge (nat_of n) (ti_size (info e)) st d) as [S1 S2].
      pose proof (fun H => fixed_series_strict (view_deser_a zh e) H (nat_of n) (ti_size (info e)) st d) as S3.
      unfold nat_of in S1, S2, S3. rewrite N2Nat.id in S1, S2, S3. fold (nat_of n) in S1, S2, S3.
      assert (Hst : ti_size (info (TVector e n)) <> 0 -> strict (view_deser_a zh e) /\ n <> 0).
      { cbn [info]. rewrite B, Fx. cbn [ti_size]. intros Hz. apply mul64_nz in Hz.
        split; [|apply Hz]. intros s1 d1. apply IH; [exact Fx|apply Hz]. }
      destruct (deser_fixed_series_a (view_deser_a zh e) (nat_of n) (ti_size (info e)) st d)
        as [[[ns st1]| |] c] eqn:Hser; cbn [fst snd] in S1, S2; simp_abind; [|fin..].
      destruct (S2 _ _ eq_refl) as [S2a S2b].
      dres; fin.
      all: destruct (Hst ltac:(assumption)) as [Hs Hn]; specialize (S3 Hs _ _ eq_refl); lia.
    + (* variable-size elements: offsets first *)
      assert (NF : ti_fixed (info (TVector e n)) = false) by (cbn [info]; now rewrite B, Fx).
      rewrite NF.
      simp_abind. dres; [|fin..]. dif; [fin|]. simp_abind.
      match goal with |- context [deser_var_elems_a ?a ?b ?c ?s ?dd] =>
        destruct (var_elems_good _ _ _ Ge b c s dd) as [S1 S2];
        destruct (deser_var_elems_a a b c s dd) as [[[ns st2]| |] c2] eqn:Hser
      end; cbn [fst snd] in S1, S2; simp_abind.
      2,3: facts; match goal with H : length _ = _ |- _ => rewrite H in * end;
           unfold nat_of in *; rewrite N2Nat.id in *; fold (nat_of n) in *;
           mono (perbyte e) (dr_scope d0) (dr_scope d); mono (perbyte e) (slen r) (slen st); fin.
      destruct (S2 _ _ eq_refl) as [S2a S2b].
      facts; match goal with H : length _ = _ |- _ => rewrite H in * end;
           unfold nat_of in *; rewrite N2Nat.id in *; fold (nat_of n) in *;
           mono (perbyte e) (dr_scope d0) (dr_scope d); mono (perbyte e) (slen r) (slen st).
      dres; fin.
Qed.

Lemma Ndiv_le a b : a / b <= a.
Proof.
  destruct (N.eq_dec b 0) as [->|Hb]; [destruct a; cbn; lia|].
  apply N.div_le_upper_bound; [exact Hb|].
  replace a with (1 * a) at 1 by lia. apply N.mul_le_mono_r. lia.
Qed.

Lemma arith_listvar_1 (Pe Fe s s2 L L2 len : N) :
  s2 <= s -> L2 <= L -> 4 * len <= s ->
  Pe * s2 + Pe * L2 + len * Fe + 116 * len <= (Fe + Pe + 120) * s + (Fe + Pe + 120) * L.
Proof.
  intros H1 H2 H3.
  pose proof (N.mul_le_mono_l s2 s Pe H1). pose proof (N.mul_le_mono_l L2 L Pe H2).
  assert (H4 : len <= s) by lia. pose proof (N.mul_le_mono_r len s Fe H4).
  pose proof (N.le_0_l (Fe * L)). lia.
Qed.

Lemma arith_listvar_2 (Pe Fe L L2 L3 len c2 : N) :
  L = L2 + 4 * len -> L3 <= L2 -> c2 + Pe * L3 <= Pe * L2 + len * Fe ->
  c2 + 116 * len + (Fe + Pe + 120) * L3 <= (Fe + Pe + 120) * L.
Proof.
  intros -> H2 H3.
  assert (exists x, L2 = L3 + x) as [x ->] by (exists (L2 - L3); lia).
  pose proof (N.le_0_l (Fe * x)). pose proof (N.le_0_l (Fe * len)). pose proof (N.le_0_l (Pe * len)).
  lia.
Qed.

Lemma tinv_list e n : tinv e -> tinv (TList e n).
Proof.
  intros IH st d.
  assert (NF : ti_fixed (info (TList e n)) = false)
    by (cbn [info]; destruct (is_basic_elem e), (ti_fixed (info e)); reflexivity).
  rewrite NF. cbn [view_deser_a perbyte foot].
  pose proof (contents_depth_le64 (TList e n)) as DL.
  pose proof (cost_chunks_le (dr_scope d) _ DL) as CC.
  assert (Ge : good (perbyte e) (foot e) (view_deser_a zh e)) by (intros s1 d1; apply IH).
  destruct (is_basic_elem e) eqn:B.
  - (* packed basic elements *)
    dif; [fin|]. dif; [fin|]. dif; [simp_abind; dres; fin|].
    simp_abind. dres; [|fin..]. simp_abind. dres; fin.
  - destruct (N.eqb_spec (dr_scope d) 0) as [Z|Z]; [simp_abind; dres; fin|].
    destruct (ti_fixed (info e)) eqn:Fx.
    + (* fixed-size elements *)
      dif; [fin|]. dif; [fin|]. simp_abind.
      set (esz := ti_size (info e)) in *. set (len := dr_scope d / esz) in *.
      pose proof (cost_fill_le len _ DL) as CF.
      assert (Hlen : len <= dr_scope d) by apply Ndiv_le.
      assert (Hesz : esz <> 0).
      { intros Hz. unfold len in *. rewrite Hz in *.
        assert (dr_scope d / 0 = 0) as Hd by (destruct (dr_scope d); reflexivity).
        rewrite Hd in Heqb0. change (mul64 0 0) with 0 in Heqb0. lia. }
      pose proof (N.mul_le_mono_r _ _ (foot e) Hlen) as M1.
      destruct (fixed_series_good _ _ _ Ge (nat_of len) esz st d) as [S1 S2].
      assert (Hs : strict (view_deser_a zh e)) by (intros s1 d1; apply IH; assumption).
      pose proof (fixed_series_strict (view_deser_a zh e) Hs (nat_of len) esz st d) as S3.
      unfold nat_of in S1, S2, S3. rewrite N2Nat.id in S1, S2, S3. fold (nat_of len) in S1, S2, S3.
      destruct (deser_fixed_series_a (view_deser_a zh e) (nat_of len) esz st d)
        as [[[ns st1]| |] c] eqn:Hser; cbn [fst snd] in S1, S2; simp_abind; [|fin; nia..].
      destruct (S2 _ _ eq_refl) as [S2a S2b]. specialize (S3 _ _ eq_refl).
      assert (exists x, slen st = slen st1 + len + x) as [x Hx]
        by (exists (slen st - slen st1 - len); lia).
      dres; fin; rewrite ?Hx in *; nia.
    + (* variable-size elements: the first offset gives the length *)
      dres; [|fin..]. rename n0 into first, r into st1, d0 into d1.
      dif; [fin|]. dif; [fin|]. dif; [fin|]. simp_abind.
      set (len := first / 4) in *.
      assert (Hfirst : first = 4 * len /\ 1 <= len /\ first <= dr_scope d) by (unfold len; lia).
      pose proof (cost_fill_le len _ DL) as CF.
      pose proof (arith_listvar_1 (perbyte e) (foot e) (dr_scope d) 0 (slen st) 0 len
                    ltac:(lia) ltac:(lia) ltac:(lia)) as A0.
      dres.
      2,3: fin.
      rename l into offs, r into st2, d0 into d2. simp_abind.
      match goal with |- context [deser_var_elems_a ?a ?b ?c ?s ?dd] =>
        destruct (var_elems_good _ _ _ Ge b c s dd) as [S1 S2];
        destruct (deser_var_elems_a a b c s dd) as [[[ns st3]| |] c2] eqn:Hser
      end; cbn [fst snd] in S1, S2; simp_abind; facts.
      all: assert (HL : N.of_nat (length (first :: offs)) = len)
             by (cbn [length]; match goal with H : length _ = nat_of _ |- _ => rewrite H end;
                 unfold nat_of; lia);
           rewrite HL in *; unfold nat_of in *;
           pose proof (arith_listvar_1 (perbyte e) (foot e) (dr_scope d) (dr_scope d2)
                         (slen st) (slen st2) len ltac:(lia) ltac:(lia) ltac:(lia)) as A1.
      2,3: fin.
      destruct (S2 _ _ eq_refl) as [S2a S2b].
      pose proof (arith_listvar_2 (perbyte e) (foot e) (slen st) (slen st2) (slen st3) len c2
                    ltac:(lia) S2a S2b) as A2.
      dres; fin.
Qed.

(* ---- containers ---- *)
Lemma okres_mono {A} P F P' F' st d (r : ares (A * rstate)) :
  P <= P' -> F <= F' -> okres P F st d r -> okres P' F' st d r.
Proof.
  intros HP HF [G1 G2]. split.
  - pose proof (N.mul_le_mono_r _ _ (dr_scope d) HP). pose proof (N.mul_le_mono_r _ _ (slen st) HP).
    lia.
  - intros n st' E. destruct (G2 n st' E) as [L C]. split; [exact L|].
    assert (exists c, slen st = slen st' + c) as [c Hc] by (exists (slen st - slen st'); lia).
    rewrite Hc in *. rewrite N.mul_add_distr_l in *.
    pose proof (N.mul_le_mono_r _ _ c HP). lia.
Qed.

Definition maxP (fs : list ty) : N := fold_right (fun f acc => N.max (perbyte f) acc) 0 fs.
Definition maxF (fs : list ty) : N := fold_right (fun f acc => N.max (foot f) acc) 0 fs.
Definition sumF (fs : list ty) : N := fold_right (fun f acc => foot f + acc) 0 fs.
Definition sumFix (fs : list ty) : N :=
  fold_right (fun f acc => (if ti_fixed (info f) then foot f else 0) + acc) 0 fs.
Definition sumVar (fs : list ty) : N :=
  fold_right (fun f acc => (if ti_fixed (info f) then 0 else foot f) + acc) 0 fs.

Lemma sumFix_sumVar fs : sumFix fs + sumVar fs = sumF fs.
Proof.
  induction fs as [|f fs IH]; [reflexivity|]. cbn [sumFix sumVar sumF fold_right].
  fold (sumFix fs) (sumVar fs) (sumF fs). destruct (ti_fixed (info f)); lia.
Qed.

Lemma maxP_In fs f : In f fs -> perbyte f <= maxP fs.
Proof.
  induction fs as [|g fs IH]; [intros []|]. cbn [maxP fold_right In]. fold (maxP fs).
  intros [->|H]; [lia|]. specialize (IH H). lia.
Qed.
Lemma maxF_In fs f : In f fs -> foot f <= maxF fs.
Proof.
  induction fs as [|g fs IH]; [intros []|]. cbn [maxF fold_right In]. fold (maxF fs).
  intros [->|H]; [lia|]. specialize (IH H). lia.
Qed.

Lemma Forall_good_max fs : Forall tinv fs ->
  Forall (fun f => good (maxP fs) (foot f) (view_deser_a zh f)) fs.
Proof.
  intros H. apply Forall_forall. intros f Hin. rewrite Forall_forall in H.
  intros st d. eapply okres_mono; [apply maxP_In, Hin | apply N.le_refl | apply (H f Hin)].
Qed.

Definition shape (cfs : list cfield) (fs : list ty) : Prop :=
  Forall2 (fun cf f => match cf with
                       | CFixed _ => ti_fixed (info f) = true
                       | CVar _ => ti_fixed (info f) = false
                       end) cfs fs.

Section Cont.
Variable Pm : N.

Lemma cont_fixed_good : forall fs,
  Forall (fun f => good Pm (foot f) (view_deser_a zh f)) fs ->
  forall first fp prev scope st d,
  let r := deser_cont_fixed_a (combine (map info fs) (map (view_deser_a zh) fs))
                              first fp prev scope st d in
  snd r <= Pm * dr_scope d + Pm * slen st + sumFix fs /\
  (forall cfs st' d', fst r = OK (cfs, st', d') ->
     slen st' <= slen st /\ dr_scope d' <= dr_scope d /\
     snd r + Pm * slen st' <= Pm * slen st + sumFix fs /\ shape cfs fs).
Proof.
  induction fs as [|f fs IH]; intros HF first fp prev scope st d; cbn zeta;
    cbn [map combine deser_cont_fixed_a sumFix fold_right].
  { cbn. split; [lia|]. intros cfs st' d' H; injection H as <- <- <-.
    repeat split; try lia. constructor. }
  fold (sumFix fs). inversion HF as [|? ? Gf HF']; subst.
  destruct (ti_fixed (info f)) eqn:Fx.
  - destruct (dr_sub_scope st d (ti_size (info f))) as [[st1 sd]| |] eqn:Hs.
    2,3: cbn; split; [lia|discriminate].
    rewrite abind_ret. destruct (dr_sub_scope_facts _ _ _ _ _ Hs) as (L1 & S1 & S2).
    pose proof (N.mul_le_mono_l _ _ Pm S2) as M.
    destruct (Gf st1 sd) as [G1 G2]. rewrite S1, L1 in G1. rewrite L1 in G2.
    destruct (view_deser_a zh f st1 sd) as [[[n st2]| |] c1] eqn:Hd; cbn [fst snd] in G1, G2.
    2,3: cbn; split; [lia|discriminate].
    rewrite abind_OK. destruct (G2 _ _ eq_refl) as [G2a G2b].
    destruct (IH HF' first fp prev scope st2 d) as [I1 I2].
    destruct (deser_cont_fixed_a _ first fp prev scope st2 d) as [[[[cs st3] d3]| |] c2] eqn:Hr;
      cbn [fst snd abind alift] in *.
    2,3: split; [lia|discriminate].
    destruct (I2 _ _ _ eq_refl) as (I2a & I2b & I2c & I2d). split; [lia|].
    intros cfs st' d' H; injection H as <- <- <-. repeat split; try lia.
    constructor; assumption.
  - destruct (dr_read_u32 st d) as [[[off st1] d1]| |] eqn:Hr.
    2,3: cbn; split; [lia|discriminate].
    rewrite abind_ret. cbn beta iota. apply dr_read_u32_facts in Hr. destruct Hr as [R1 R2].
    destruct (off <? prev); [cbn; split; [lia|discriminate]|].
    destruct (scope <? off); [cbn; split; [lia|discriminate]|].
    destruct (first && negb (off =? fp)); [cbn; split; [lia|discriminate]|].
    destruct (IH HF' false fp off scope st1 d1) as [I1 I2].
    assert (M1 : Pm * dr_scope d1 <= Pm * dr_scope d) by (apply N.mul_le_mono_l; lia).
    assert (M2 : Pm * slen st1 <= Pm * slen st) by (apply N.mul_le_mono_l; lia).
    destruct (deser_cont_fixed_a _ false fp off scope st1 d1) as [[[[cs st3] d3]| |] c2] eqn:Hrr;
      cbn [fst snd abind alift] in *.
    2,3: split; [lia|discriminate].
    destruct (I2 _ _ _ eq_refl) as (I2a & I2b & I2c & I2d). split; [lia|].
    intros cfs st' d' H; injection H as <- <- <-. repeat split; try lia.
    constructor; assumption.
Qed.

Lemma cont_var_good : forall fs cfs,
  Forall (fun f => good Pm (foot f) (view_deser_a zh f)) fs -> shape cfs fs ->
  forall scope st d,
  let r := deser_cont_var_a (combine cfs (map (view_deser_a zh) fs)) scope st d in
  snd r <= Pm * dr_scope d + Pm * slen st + sumVar fs /\
  (forall ns st', fst r = OK (ns, st') ->
     slen st' <= slen st /\ snd r + Pm * slen st' <= Pm * slen st + sumVar fs).
Proof.
  intros fs cfs HF HS. revert HF.
  induction HS as [|cf f cfs fs Hcf HS IH]; intros HF scope st d; cbn zeta;
    cbn [map combine deser_cont_var_a sumVar fold_right].
  { cbn. split; [lia|]. intros ns st' H; injection H as <- <-. lia. }
  fold (sumVar fs). inversion HF as [|? ? Gf HF']; subst.
  destruct cf as [nd|off].
  - rewrite Hcf. destruct (IH HF' scope st d) as [I1 I2].
    destruct (deser_cont_var_a _ scope st d) as [[[ns st1]| |] c] eqn:Hr;
      cbn [fst snd abind alift] in *.
    2,3: split; [lia|discriminate].
    destruct (I2 _ _ eq_refl) as [I2a I2b]. split; [lia|].
    intros ns' st' H; injection H as <- <-. lia.
  - rewrite Hcf.
    match goal with |- context [dr_sub_scope st d ?sz] => set (size := sz) end.
    destruct (dr_sub_scope st d size) as [[st1 sd]| |] eqn:Hs.
    2,3: cbn; split; [lia|discriminate].
    rewrite abind_ret. destruct (dr_sub_scope_facts _ _ _ _ _ Hs) as (L1 & S1 & S2).
    pose proof (N.mul_le_mono_l _ _ Pm S2) as M.
    destruct (Gf st1 sd) as [G1 G2]. rewrite S1, L1 in G1. rewrite L1 in G2.
    destruct (view_deser_a zh f st1 sd) as [[[n st2]| |] c1] eqn:Hd; cbn [fst snd] in G1, G2.
    2,3: cbn; split; [lia|discriminate].
    rewrite abind_OK. destruct (G2 _ _ eq_refl) as [G2a G2b].
    destruct (IH HF' scope st2 d) as [I1 I2].
    destruct (deser_cont_var_a _ scope st2 d) as [[[ns st3]| |] c2] eqn:Hr;
      cbn [fst snd abind alift] in *.
    2,3: split; [lia|discriminate].
    destruct (I2 _ _ eq_refl) as [I2a I2b]. split; [lia|].
    intros ns' st' H; injection H as <- <-. lia.
Qed.

(* a fixed-size field of non-zero size makes the fixed pass consume at least one byte *)
Lemma cont_fixed_strict : forall fs,
  Forall (fun f => good Pm (foot f) (view_deser_a zh f)) fs ->
  Forall (fun f => ti_fixed (info f) = true -> ti_size (info f) <> 0 ->
                   strict (view_deser_a zh f)) fs ->
  Exists (fun f => ti_fixed (info f) = true /\ ti_size (info f) <> 0) fs ->
  forall first fp prev scope st d cfs st' d',
  fst (deser_cont_fixed_a (combine (map info fs) (map (view_deser_a zh) fs))
                          first fp prev scope st d) = OK (cfs, st', d') ->
  slen st' + 1 <= slen st.
Proof.
  induction fs as [|f fs IH]; intros HF HS HE first fp prev scope st d cfs st' d';
    [inversion HE|].
  cbn [map combine deser_cont_fixed_a].
  inversion HF as [|? ? Gf HF']; subst. inversion HS as [|? ? Sf HS']; subst.
  destruct (ti_fixed (info f)) eqn:Fx.
  - destruct (dr_sub_scope st d (ti_size (info f))) as [[st1 sd]| |] eqn:Hs; [|cbn; discriminate..].
    rewrite abind_ret. destruct (dr_sub_scope_facts _ _ _ _ _ Hs) as (L1 & _).
    destruct (Gf st1 sd) as [_ G2]. pose proof (fun H1 H2 => Sf H1 H2 st1 sd) as Sf'.
    destruct (view_deser_a zh f st1 sd) as [[[n st2]| |] c1] eqn:Hd; [|cbn; discriminate..].
    rewrite abind_OK. cbn [fst snd] in G2, Sf'. destruct (G2 _ _ eq_refl) as [G2a _].
    destruct (cont_fixed_good fs HF' first fp prev scope st2 d) as [_ I2].
    pose proof (fun HE' => IH HF' HS' HE' first fp prev scope st2 d) as IH'.
    destruct (deser_cont_fixed_a _ first fp prev scope st2 d) as [[[[cs st3] d3]| |] c2] eqn:Hr;
      cbn [fst snd abind alift] in *; try discriminate.
    intros H; injection H as <- <- <-. destruct (I2 _ _ _ eq_refl) as (I2a & _).
    inversion HE as [? ? [_ Hz]|? ? HE']; subst.
    + specialize (Sf' eq_refl Hz _ _ eq_refl). lia.
    + specialize (IH' HE' _ _ _ eq_refl). lia.
  - destruct (dr_read_u32 st d) as [[[off st1] d1]| |] eqn:Hr; [|cbn; discriminate..].
    rewrite abind_ret. cbn beta iota. apply dr_read_u32_facts in Hr. destruct Hr as [R1 R2].
    destruct (off <? prev); [cbn; discriminate|].
    destruct (scope <? off); [cbn; discriminate|].
    destruct (first && negb (off =? fp)); [cbn; discriminate|].
    destruct (cont_fixed_good fs HF' false fp off scope st1 d1) as [_ I2].
    destruct (deser_cont_fixed_a _ false fp off scope st1 d1) as [[[[cs st3] d3]| |] c2] eqn:Hrr;
      cbn [fst snd abind alift] in *; try discriminate.
    intros H; injection H as <- <- <-. destruct (I2 _ _ _ eq_refl) as (I2a & _). lia.
Qed.
End Cont.

(* the fixed part size of an all-fixed container is non-zero only if some field's is *)
Lemma cont_acc_exists : forall (is : list tinfo) fp0 mn0 mx0 offs0,
  let '(fp, _, _, offs) := fold_left cont_step is (fp0, mn0, mx0, offs0) in
  offs0 <= offs /\
  (fp <> 0 -> offs = offs0 ->
   fp0 <> 0 \/ Exists (fun i => ti_fixed i = true /\ ti_size i <> 0) is).
Proof.
  induction is as [|i is IH]; intros fp0 mn0 mx0 offs0; cbn [fold_left].
  { split; [lia|]. intros H _. now left. }
  unfold cont_step at 2. destruct (ti_fixed i) eqn:Fx.
  - specialize (IH (add64 fp0 (ti_size i)) (add64 mn0 (ti_size i)) (add64 mx0 (ti_size i)) offs0).
    destruct (fold_left cont_step is _) as [[[fp mn] mx] offs]. destruct IH as [I1 I2].
    split; [exact I1|]. intros Hfp Ho. destruct (I2 Hfp Ho) as [H|H].
    + destruct (N.eq_dec fp0 0) as [Z0|Z0]; [|now left].
      destruct (N.eq_dec (ti_size i) 0) as [Z1|Z1]; [|right; left; now split].
      exfalso. apply H. rewrite Z0, Z1. reflexivity.
    + right. now right.
  - specialize (IH (add64 fp0 4) (add64 mn0 (add64 4 (ti_min i))) (add64 mx0 (add64 4 (ti_max i)))
                   (offs0 + 1)).
    destruct (fold_left cont_step is _) as [[[fp mn] mx] offs]. destruct IH as [I1 I2].
    split; [lia|]. intros _ Ho. lia.
Qed.

Lemma Exists_map_inv {A B} (f : A -> B) (Q : B -> Prop) l :
  Exists Q (map f l) -> Exists (fun x => Q (f x)) l.
Proof. induction l as [|x l IH]; cbn [map]; inversion 1; subst; [now left|right; auto]. Qed.

Lemma container_fixed_exists fs :
  ti_fixed (info (TContainer fs)) = true -> ti_size (info (TContainer fs)) <> 0 ->
  Exists (fun f => ti_fixed (info f) = true /\ ti_size (info f) <> 0) fs.
Proof.
  cbn [info]. unfold cont_acc. pose proof (cont_acc_exists (map info fs) 0 0 0 0) as H.
  destruct (fold_left cont_step (map info fs) (0, 0, 0, 0)) as [[[fp mn] mx] offs].
  destruct H as [_ H]. destruct (N.eqb_spec offs 0) as [Z|Z]; cbn [ti_fixed ti_size].
  - intros _ Hfp. destruct (H Hfp Z) as [C|E]; [congruence|].
    apply Exists_map_inv in E. exact E.
  - discriminate.
Qed.

Lemma tinv_container fs : Forall tinv fs -> tinv (TContainer fs).
Proof.
  intros IH st d. cbn [view_deser_a perbyte foot]. fold (maxP fs) (sumF fs).
  pose proof (contents_depth_le64 (TContainer fs)) as DL.
  pose proof (cost_fill_le (lenNn fs) _ DL) as CF.
  pose proof (Forall_good_max fs IH) as HG.
  assert (HS : Forall (fun f => ti_fixed (info f) = true -> ti_size (info f) <> 0 ->
                               strict (view_deser_a zh f)) fs).
  { rewrite Forall_forall in *. intros f Hin Hx Hz s1 d1. apply (IH f Hin); assumption. }
  pose proof (sumFix_sumVar fs) as HSum.
  simp_abind. dif; [fin|].
  set (fp := fixed_part_size fs).
  destruct (cont_fixed_good (maxP fs) fs HG true fp (wrap32 fp) (dr_scope d) st d) as [A1 A2].
  pose proof (fun HE => cont_fixed_strict (maxP fs) fs HG HS HE true fp (wrap32 fp) (dr_scope d) st d)
    as A3.
  destruct (deser_cont_fixed_a _ true fp (wrap32 fp) (dr_scope d) st d)
    as [[[[cfs st1] d1]| |] c1] eqn:H1; cbn [fst snd] in A1, A2, A3; simp_abind; [|fin..].
  destruct (A2 _ _ _ eq_refl) as (A2a & A2b & A2c & A2d).
  destruct (cont_var_good (maxP fs) fs cfs HG A2d (dr_scope d) st1 d1) as [B1 B2].
  mono (maxP fs) (dr_scope d1) (dr_scope d).
  destruct (deser_cont_var_a _ (dr_scope d) st1 d1) as [[[ns st2]| |] c2] eqn:H2;
    cbn [fst snd] in B1, B2; simp_abind; [|fin..].
  destruct (B2 _ _ eq_refl) as [B2a B2b].
  dres; fin.
  all: specialize (A3 (container_fixed_exists fs ltac:(assumption) ltac:(assumption)) _ _ _ eq_refl);
       lia.
Qed.

(* ---- unions ---- *)
Lemma union_not_fixed none opts : ti_fixed (info (TUnion none opts)) = false.
Proof.
  cbn [info]. destruct none; [reflexivity|]. destruct (map info opts); reflexivity.
Qed.

Lemma union_pick_good (sel scope : N) st1 d1 : forall opts k,
  Forall tinv opts ->
  okres (maxP opts) (maxF opts + (c_leaf + c_pair + c_view)) st1 d1
    ((fix pick (os : list ty) (k : nat) : ares (node * rstate) :=
         match os, k with
         | [], _ => alift Panic
         | o :: _, O =>
           if ti_fixed (info o) && negb (ti_size (info o) =? scope - 1) then alift Err else
           ado r <- view_deser_a zh o st1 d1; let '(c, st2) := r in
           ado _ <- charge (c_leaf + c_pair + c_view);
           alift (OK (Pair c (Leaf (pad32 [byte_of_N sel])), st2))
         | _ :: os', S k' => pick os' k'
         end) opts k).
Proof.
  induction opts as [|o os IH]; intros k H.
  { destruct k; (split; cbn [fst snd alift]; [lia|discriminate]). }
  inversion H as [|? ? Ho Hos]; subst.
  cbn [maxP maxF fold_right]. fold (maxP os) (maxF os).
  destruct k as [|k].
  - destruct (ti_fixed (info o) && negb (ti_size (info o) =? scope - 1)).
    { split; cbn [fst snd alift]; [lia|discriminate]. }
    destruct (Ho st1 d1) as [[G1 G2] _].
    eapply (okres_mono (N.max (perbyte o) (maxP os)) _ _ _ st1 d1); [apply N.le_refl| |].
    2:{ assert (M1 : perbyte o <= N.max (perbyte o) (maxP os)) by lia.
        pose proof (N.mul_le_mono_r _ _ (dr_scope d1) M1).
        pose proof (N.mul_le_mono_r _ _ (slen st1) M1).
        destruct (view_deser_a zh o st1 d1) as [[[c st2]| |] c1] eqn:Hd; cbn [fst snd] in G1, G2;
          simp_abind.
        - destruct (G2 _ _ eq_refl) as [G2a G2b].
          assert (exists x, slen st1 = slen st2 + x) as [x Hx] by (exists (slen st1 - slen st2); lia).
          split; cbn [fst snd].
          + instantiate (1 := foot o + (c_leaf + c_pair + c_view)). lia.
          + intros n st' HH; injection HH as <- <-. split; [lia|].
            rewrite Hx in *. rewrite N.mul_add_distr_l in *.
            pose proof (N.mul_le_mono_r _ _ x M1). lia.
        - split; cbn [fst snd]; [lia|discriminate].
        - split; cbn [fst snd]; [lia|discriminate]. }
    lia.
  - eapply okres_mono; [| |apply IH, Hos]; lia.
Qed.

Lemma tinv_union none opts : Forall tinv opts -> tinv (TUnion none opts).
Proof.
  intros IH st d. rewrite union_not_fixed. cbn [view_deser_a perbyte foot].
  fold (maxP opts) (maxF opts).
  destruct (dr_scope d =? 0); [fin|].
  dres; [|fin..]. rename n into sel, r into st1, d0 into d1.
  dif; [fin|]. dif; [dif; [fin|]; simp_abind; fin|].
  pose proof (union_pick_good sel (dr_scope d) st1 d1 opts
                (nat_of (if none then sel - 1 else sel)) IH) as [G1 G2].
  facts.
  mono (maxP opts) (dr_scope d1) (dr_scope d). mono (maxP opts) (slen st1) (slen st).
  match goal with |- context [okres _ _ st d ?r] => set (res := r) in * end.
  split; [split|intros HH; discriminate HH].
  - consts. lia.
  - intros n st' HH. destruct (G2 _ _ HH) as [G2a G2b]. consts. lia.
Qed.

(** * 5. the bound for every type *)
Theorem tinv_all : forall t, tinv t.
Proof.
  induction t using ty_ind'.
  - apply tinv_uint. - apply tinv_bool. - apply tinv_bytes. - apply tinv_root.
  - apply tinv_bitvector. - apply tinv_bitlist.
  - now apply tinv_vector. - now apply tinv_list.
  - now apply tinv_container. - now apply tinv_union.
Qed.
End Bound.

(* ------------------------------------------------------------------------------------ *)
(** * 6. the statements of Props/C20.v *)

Section Final.
Variable zh : nat -> chunk.

Notation lenN := Spec.lenN.

(* a. the instrumented decoder computes the same result: [instrumentation_faithful] above *)

(* b. the bound: no list limit occurs in [perbyte] / [foot] *)
Theorem alloc_bound t st d :
  snd (view_deser_a zh t st d) <= perbyte t * (dr_scope d + lenN (r_stream st)) + foot t.
Proof.
  destruct (tinv_all zh t st d) as [[H _] _]. rewrite N.mul_add_distr_l. exact H.
Qed.

(* on success the allocation is bounded by the bytes actually consumed *)
Theorem alloc_bound_success t st d n st' :
  fst (view_deser_a zh t st d) = OK (n, st') ->
  lenN (r_stream st') <= lenN (r_stream st) /\
  snd (view_deser_a zh t st d)
    <= perbyte t * (lenN (r_stream st) - lenN (r_stream st')) + foot t.
Proof.
  intros E. destruct (tinv_all zh t st d) as [[_ H] _]. destruct (H _ _ E) as [L C].
  split; [exact L|]. change (lenN (r_stream st)) with (slen st). change (lenN (r_stream st')) with (slen st').
  assert (exists x, slen st = slen st' + x) as [x Hx] by (exists (slen st - slen st'); lia).
  rewrite Hx in *. replace (slen st' + x - slen st') with x by lia.
  rewrite N.mul_add_distr_l in C. lia.
Qed.

Theorem alloc_bound_top t bs :
  snd (view_deserialize_a zh t bs) <= 2 * perbyte t * lenN bs + foot t.
Proof.
  unfold view_deserialize_a, new_reader.
  pose proof (alloc_bound t (mkRS bs [N.of_nat (length bs)]) (mkDR 0 (N.of_nat (length bs)) [0%nat])) as H.
  unfold dr_scope in H. cbn [d_max d_i r_stream] in H. unfold Spec.lenN in *.
  rewrite snd_abind.
  destruct (fst (view_deser_a zh t _ _)); cbn [snd alift]; lia.
Qed.

(* the lemma that carries the property: the length of the offset / element tables that the
   list decoder allocates is bounded by the scope.
   [list_table e n st d] is the number of entries of the table (make([]View, length), and
   make([]uint32, length) for variable-size elements) that ComplexListType.Deserialize
   allocates for List[e, n] in state (st, d), i.e. its guards written out:
   None when the decoder returns before allocating a table. *)
Definition list_table (e : ty) (n : N) (st : rstate) (d : dreader) : option N :=
  let scope := dr_scope d in
  if is_basic_elem e then None else
  if scope =? 0 then None else
  if ti_fixed (info e) then
    let esz := ti_size (info e) in
    let len := scope / esz in
    if n <? len then None else
    if negb (mul64 len esz =? scope) then None else Some len
  else
    match dr_read_u32 st d with
    | OK (first, _, _) =>
      if negb (first mod 4 =? 0) then None else
      let len := first / 4 in
      if n <? len then None else
      if (first =? 0) || (scope <? first) then None else Some len
    | _ => None
    end.

Theorem list_table_bounded e n st d len :
  list_table e n st d = Some len ->
  1 <= len /\ len <= n /\ len <= dr_scope d /\
  (if ti_fixed (info e) then len * ti_size (info e) = dr_scope d else 4 * len <= dr_scope d).
Proof.
  unfold list_table. destruct (is_basic_elem e); [discriminate|].
  destruct (N.eqb_spec (dr_scope d) 0) as [Z|Z]; [discriminate|].
  destruct (ti_fixed (info e)).
  - set (esz := ti_size (info e)). set (s := dr_scope d) in *.
    destruct (N.ltb_spec n (s / esz)) as [L|L]; [discriminate|].
    destruct (N.eqb_spec (mul64 (s / esz) esz) s) as [M|M]; cbn [negb]; [|discriminate].
    intros H; injection H as <-.
    destruct (N.eq_dec esz 0) as [E0|E0].
    { exfalso. rewrite E0 in M. assert (s / 0 = 0) as Hd by (destruct s; reflexivity).
      rewrite Hd in M. change (mul64 0 0) with 0 in M. lia. }
    pose proof (N.mul_div_le s esz E0) as D1.
    unfold mul64, wrap64 in M.
    assert (s < two64) by (rewrite <- M; apply N.mod_lt; unfold two64; lia).
    rewrite N.mod_small in M by lia.
    pose proof (Ndiv_le s esz). split; [|split; [exact L|split; [lia|exact M]]].
    destruct (N.eq_dec (s / esz) 0) as [Q|Q]; [rewrite Q in M; lia|lia].
  - destruct (dr_read_u32 st d) as [[[first st1] d1]| |]; try discriminate.
    destruct (N.eqb_spec (first mod 4) 0) as [M|M]; cbn [negb]; [|discriminate].
    destruct (N.ltb_spec n (first / 4)) as [L|L]; [discriminate|].
    destruct (N.eqb_spec first 0) as [F0|F0]; cbn [orb]; [discriminate|].
    destruct (N.ltb_spec (dr_scope d) first) as [S|S]; [discriminate|].
    intros H; injection H as <-. lia.
Qed.

Theorem list_table_none e n st d :
  is_basic_elem e = false -> list_table e n st d = None ->
  snd (view_deser_a zh (TList e n) st d) <= c_pair + c_view.
Proof.
  intros B. unfold list_table. cbn [view_deser_a]. rewrite B.
  destruct (dr_scope d =? 0).
  { intros _. simp_abind. destruct (default_node zh (TList e n)); simp_abind; lia. }
  destruct (ti_fixed (info e)).
  - destruct (n <? dr_scope d / ti_size (info e)); [intros _; cbn; lia|].
    destruct (negb _); [intros _; cbn; lia|discriminate].
  - destruct (dr_read_u32 st d) as [[[first st1] d1]| |]; simp_abind; try (intros _; lia).
    destruct (negb (first mod 4 =? 0)); [intros _; cbn; lia|].
    destruct (n <? first / 4); [intros _; cbn; lia|].
    destruct ((first =? 0) || (dr_scope d <? first)); [intros _; cbn; lia|discriminate].
Qed.

Theorem list_table_charged e n st d len :
  list_table e n st d = Some len ->
  (if ti_fixed (info e) then len * c_iface else len * 4)
    <= snd (view_deser_a zh (TList e n) st d).
Proof.
  unfold list_table. cbn [view_deser_a].
  destruct (is_basic_elem e); [discriminate|].
  destruct (dr_scope d =? 0); [discriminate|].
  destruct (ti_fixed (info e)).
  - destruct (n <? dr_scope d / ti_size (info e)); [discriminate|].
    destruct (negb _); [discriminate|]. intros H; injection H as <-.
    rewrite abind_charge. cbn [snd]. lia.
  - destruct (dr_read_u32 st d) as [[[first st1] d1]| |]; try discriminate. simp_abind.
    destruct (negb (first mod 4 =? 0)); [discriminate|].
    destruct (n <? first / 4); [discriminate|].
    destruct ((first =? 0) || (dr_scope d <? first)); [discriminate|].
    intros H; injection H as <-. cbn [snd]. lia.
Qed.
End Final.

(* ------------------------------------------------------------------------------------ *)
(** * 7. Examples (non-vacuity) *)

Definition zh0 : nat -> chunk := fun _ => zero_chunk.
(* a list of byte lists, both limits 2^40 *)
Definition ex_T2 : ty := TList (TList (TUint 1) (2 ^ 40)) (2 ^ 40).
(* first offset 0x0ffffffc: claims 2^26 - 1 elements *)
Definition ex_hostile : list byte := [Byte.xfc; Byte.xff; Byte.xff; Byte.x0f].
(* two empty inner lists *)
Definition ex_two_empty : list byte :=
  [Byte.x08; Byte.x00; Byte.x00; Byte.x00; Byte.x08; Byte.x00; Byte.x00; Byte.x00].
(* second offset 0xffffffff: the first element claims 4 GiB *)
Definition ex_lying : list byte :=
  [Byte.x08; Byte.x00; Byte.x00; Byte.x00; Byte.xff; Byte.xff; Byte.xff; Byte.xff; Byte.x01].

Example ex_hostile_alloc :
  view_deserialize_a zh0 ex_T2 ex_hostile = (Err, 0) /\
  list_table (TList (TUint 1) (2 ^ 40)) (2 ^ 40) (mkRS ex_hostile [4]) (mkDR 0 4 [0%nat]) = None.
Proof. vm_compute. split; reflexivity. Qed.

Example ex_lying_alloc : view_deserialize_a zh0 ex_T2 ex_lying = (Err, 40).
Proof. vm_compute. reflexivity. Qed.

Example ex_two_empty_alloc :
  snd (view_deserialize_a zh0 ex_T2 ex_two_empty) = 3992 /\
  is_ok (fst (view_deserialize_a zh0 ex_T2 ex_two_empty)) = true /\
  list_table (TList (TUint 1) (2 ^ 40)) (2 ^ 40) (mkRS ex_two_empty [8]) (mkDR 0 8 [0%nat]) = Some 2.
Proof. vm_compute. repeat split; reflexivity. Qed.

(* the bound for this type: 5664 bytes per input byte (twice at top level) + 5536 *)
Example ex_bound_value :
  perbyte ex_T2 = 5664 /\ foot ex_T2 = 5536 /\
  2 * perbyte ex_T2 * Spec.lenN ex_hostile + foot ex_T2 = 50848.
Proof. vm_compute. repeat split; reflexivity. Qed.

Example ex_uint64_list_alloc :
  snd (view_deserialize_a zh0 (TList (TUint 8) (2 ^ 60)) ex_two_empty) = 4984 /\
  snd (view_deserialize_a zh0 (TBitlist (2 ^ 60)) ex_hostile) = 4500.
Proof. vm_compute. split; reflexivity. Qed.

(* a container with a uint64, a list of lists and a bitlist, all limits huge *)
Definition ex_T3 : ty :=
  TContainer [TUint 8; TList (TList (TUint 1) (2 ^ 40)) (2 ^ 50); TBitlist (2 ^ 45)].
Definition ex_c3 : list byte :=
  [Byte.x01; Byte.x00; Byte.x00; Byte.x00; Byte.x00; Byte.x00; Byte.x00; Byte.x00;
   Byte.x10; Byte.x00; Byte.x00; Byte.x00; Byte.x10; Byte.x00; Byte.x00; Byte.x00; Byte.x01].
Example ex_container_alloc :
  snd (view_deserialize_a zh0 ex_T3 ex_c3) = 1001 /\
  is_ok (fst (view_deserialize_a zh0 ex_T3 ex_c3)) = true /\
  2 * perbyte ex_T3 * Spec.lenN ex_c3 + foot ex_T3 = 209544.
Proof. vm_compute. repeat split; reflexivity. Qed.

(* hypotheses of [list_table_bounded] / [alloc_bound_success] are satisfiable *)
Example ex_success_hyp :
  exists n st', fst (view_deser_a zh0 ex_T2 (mkRS ex_two_empty [8]) (mkDR 0 8 [0%nat])) = OK (n, st').
Proof. eexists _, _. vm_compute. reflexivity. Qed.

(* Why the bound mentions the bytes left in the stream and not only the scope: the statement
   quantifies over ALL reader states, including one without any limit reader (empty chain)
   over a stream longer than the scope, which [new_reader] never produces.  There the
   children of a series can each consume up to the parent's scope (reads through a child do
   not advance the parent's index) and the pure bound  perbyte t * scope + foot t  fails: *)
Definition ex_T4 : ty := TVector (TList (TUint 1) (2 ^ 40)) 3.
Definition ex_s4 : list byte :=
  [Byte.x0c; Byte.x00; Byte.x00; Byte.x00; Byte.x10; Byte.x27; Byte.x00; Byte.x00;
   Byte.x14; Byte.x4e; Byte.x00; Byte.x00] ++ repeat b0 (nat_of 20000).
Example ex_pure_scope_bound_fails_without_limit :
  snd (view_deser_a zh0 ex_T4 (mkRS ex_s4 []) (mkDR 0 10000 [])) = 106180 /\
  perbyte ex_T4 * dr_scope (mkDR 0 10000 []) + foot ex_T4 = 102428.
Proof. vm_compute. split; reflexivity. Qed.
(* with the limit reader that NewDecodingReader installs the same input stays below it *)
Example ex_pure_scope_with_limit :
  snd (view_deser_a zh0 ex_T4 (mkRS ex_s4 [10000]) (mkDR 0 10000 [0%nat])) = 63108.
Proof. vm_compute. reflexivity. Qed.

Section Final2.
Variable zh : nat -> chunk.
(* whenever the stream holds no more than the scope (as at top level) *)
Theorem alloc_bound_scope t st d :
  Spec.lenN (r_stream st) <= dr_scope d ->
  snd (view_deser_a zh t st d) <= 2 * perbyte t * dr_scope d + foot t.
Proof.
  intros H. pose proof (alloc_bound zh t st d) as B.
  assert (M : perbyte t * (dr_scope d + Spec.lenN (r_stream st)) <= perbyte t * (dr_scope d + dr_scope d))
    by (apply N.mul_le_mono_l; lia).
  lia.
Qed.
End Final2.

(* ------------------------------------------------------------------------------------ *)
(** * 8. the bound functions do not depend on any list limit *)

(* the same type with every list / bitlist limit replaced by 0 *)
Fixpoint erase_limits (t : ty) : ty :=
  match t with
  | TBitlist _ => TBitlist 0
  | TList e _ => TList (erase_limits e) 0
  | TVector e n => TVector (erase_limits e) n
  | TContainer fs => TContainer (map erase_limits fs)
  | TUnion none opts => TUnion none (map erase_limits opts)
  | _ => t
  end.

Lemma erase_basic e : is_basic_elem (erase_limits e) = is_basic_elem e.
Proof. destruct e; reflexivity. Qed.

Theorem bound_limit_free : forall t,
  perbyte (erase_limits t) = perbyte t /\ foot (erase_limits t) = foot t.
Proof.
  induction t using ty_ind'; cbn [erase_limits perbyte foot]; try (split; reflexivity).
  - rewrite erase_basic. destruct IHt as [-> ->]. split; reflexivity.
  - rewrite erase_basic. destruct IHt as [-> ->]. split; reflexivity.
  - unfold lenNn. rewrite map_length. induction H as [|f fs [Hp Hf] _ IH]; [split; reflexivity|].
    cbn [map fold_right length]. destruct IH as [IH1 IH2]. rewrite Hp, Hf, IH1. split; [reflexivity|].
    unfold lenNn in IH2. cbn [length] in *. lia.
  - induction H as [|f fs [Hp Hf] _ IH]; [split; reflexivity|].
    cbn [map fold_right]. destruct IH as [IH1 IH2]. rewrite Hp, Hf, IH1. split; [reflexivity|]. lia.
Qed.
