(* Extras.v — model of the remaining small entry points that the properties quantify over but
   that the main model files do not need: Encode()/Decode() of the basic values (C09),
   codec.Sum (C09), DecodingReader.Skip (C13), conv.DynamicBytesUnmarshalText and BytesString
   (C19).  Definitions with their (short) proofs in ExtrasProofs.v. *)
From Ztyp Require Import Base Types Spec Reader Conv.
Open Scope N_scope.

(* UintNView.Encode / BoolView.Encode: the little-endian bytes of the value *)
Definition basic_encode (t : ty) (v : val) : res (list byte) :=
  match t, v with
  | TUint w, VUint n => OK (le_bytes (nat_of w) n)
  | TBool, VBool b => OK [byte_of_N (if b then 1 else 0)]
  | _, _ => Err
  end.

(* UintNView.Decode(x) / BoolView.Decode(x): the length must be exactly the size; a bool must
   be 0 or 1 *)
Definition basic_decode (t : ty) (bs : list byte) : res val :=
  match t with
  | TUint w => if N.of_nat (length bs) =? w then OK (VUint (le_val bs)) else Err
  | TBool =>
    match bs with
    | [b] => if 1 <? N_of_byte b then Err else OK (VBool (0 <? N_of_byte b))
    | _ => Err
    end
  | _ => Err
  end.

(* codec.Sum(values...) over the byte lengths *)
Definition codec_sum (lens : list N) : N := fold_left add64 lens 0.

(* DecodingReader.Skip(count) on a non-seekable input: index update, then io.CopyN to
   ioutil.Discard — the bytes are consumed like a read of count bytes, the data is dropped.
   (Skip(0) goes through checkedIndexUpdate(0) and copies nothing.) *)
Definition dr_skip (st : rstate) (d : dreader) (k : N) : res (rstate * dreader) :=
  if k =? 0 then OK (st, d) else
  do r <- dr_read st d k; let '(_, st', d') := r in OK (st', d').

(* conv.DynamicBytesUnmarshalText(dst, text): optional 0x/0X prefix; size = len/2 (an odd
   length is rejected by hex.Decode); returns the decoded bytes *)
Definition dynamic_bytes_unmarshal (text : list byte) : option (list byte) :=
  hex_decode (strip_0x text).

(* conv.BytesString = BytesMarshalText as a string *)
Definition bytes_string (bs : list byte) : list byte := bytes_marshal_text bs.

(* An "eager" failing writer: it accepts [budget] bytes and reports its failure in the very
   call that reaches the budget, also when that call's slice was accepted completely
   (n = len(p) together with a non-nil error is legal for an io.Writer).
   EncodingWriter.Write does not call the writer for an empty slice. *)
From Ztyp Require Import IO.
Definition ew_write_eager (w : wstate) (p : list byte) : wstate * bool :=
  let len := N.of_nat (length p) in
  if len =? 0 then (w, true) else
  match w_budget w with
  | None => ew_write w p
  | Some b =>
    if len <? b then (mkW (Some (b - len)) (w_accepted w ++ p) (w_n w + len), true)
    else (mkW (Some 0) (w_accepted w ++ firstn (nat_of b) p) (w_n w + b), false)
  end.
Fixpoint ew_write_all_eager (w : wstate) (chunks : list (list byte)) : wstate * bool :=
  match chunks with
  | [] => (w, true)
  | p :: r => let '(w', ok) := ew_write_eager w p in
              if ok then ew_write_all_eager w' r else (w', false)
  end.

(* value.Deserialize(codec.NewDecodingReader(stream, scope)) for a flat value, where the stream
   holds [delivered] (possibly fewer bytes than the declared scope) *)
From Ztyp Require Import Codec.
Definition flat_decode_scoped (t : ty) (c : ctree) (delivered : list byte) (scope : N)
  : res (val * ctree) :=
  let '(st, d) := new_reader delivered scope in
  do r <- flat_dec t c st d; let '(v, c', _, _) := r in OK (v, c').

(* BoolView.BackingFromBase(base, i) / BoolMeta.SubViewFromBacking(root, i): the byte-per-bool
   packing helpers (exported; the library's own series do not use them, bool not being a
   BasicTypeDef).  None = nil. *)
Definition bool_backing_from_base (c : chunk) (i : N) (b : bool) : option chunk :=
  if 32 <=? i then None else Some (list_set c (nat_of i) (byte_of_N (if b then 1 else 0))).
Definition bool_subview (c : chunk) (i : N) : option bool :=
  if 32 <=? i then None else
  let x := N_of_byte (nth (nat_of i) c b0) in
  if 1 <? x then None else Some (x =? 1).

(* ---- EncodingWriter.Write over a writer that makes SHORT writes: at most [chunk] >= 1 bytes per
   call with a nil error (io.Writer forbids it, but Write's loop  for n < len(p) { d, err :=
   w.Write(p[n:]); ew.n += d; if err != nil { return err }; n += d }  is there to tolerate it),
   and that fails once its budget is used up, accepting the part that still fits.
   [cw_n] is the EncodingWriter's own counter, [cw_accepted] what the underlying writer took.
   The loop is modelled with fuel (length p + 1 calls always suffice when chunk >= 1; running
   out of fuel, which only chunk = 0 can do, is reported as a failure). ---- *)
Record cwstate := mkCW { cw_budget : option N; cw_chunk : N; cw_accepted : list byte; cw_n : N }.

(* one call of the underlying writer on slice p: (bytes taken, error?) *)
Definition cw_call (w : cwstate) (p : list byte) : N * bool (* ok *) :=
  let m := N.min (lenN p) (cw_chunk w) in
  match cw_budget w with
  | None => (m, true)
  | Some b => if b <? m then (b, false) else (m, true)
  end.

Fixpoint cw_write_loop (fuel : nat) (w : cwstate) (p : list byte) : cwstate * bool :=
  match p with
  | [] => (w, true)
  | _ =>
    match fuel with
    | O => (w, false)
    | S f =>
      let '(d, ok) := cw_call w p in
      let w' := mkCW (match cw_budget w with None => None | Some b => Some (b - d) end) (cw_chunk w)
                     (cw_accepted w ++ firstn (nat_of d) p) (cw_n w + d) in
      if ok then cw_write_loop f w' (skipn (nat_of d) p) else (w', false)
    end
  end.
Definition cw_write (w : cwstate) (p : list byte) : cwstate * bool :=
  cw_write_loop (S (length p)) w p.
Fixpoint cw_write_all (w : cwstate) (chunks : list (list byte)) : cwstate * bool :=
  match chunks with
  | [] => (w, true)
  | p :: r => let '(w', ok) := cw_write w p in if ok then cw_write_all w' r else (w', false)
  end.
