(* Codec.v — model of the flat codec (codec/encoder.go, codec/decoder.go, the
   tree.ReadRoots/WriteRoots helpers) and of a generic flat value assembled from those
   helpers the way downstream users (zrnt) do; plus the flat hash-tree-root helpers
   composed the same way (C08).  Definitions only.
   Model of the repaired code (fix: D13 Vector item index, D14 BitList byte limit, D15
   ByteList reslice, D16 List empty items / Vector first offset / Union trailing bytes,
   D17 List offset table before scope check).

   Which helper serves which type (harness/flat_test.go makes the same choice):
     uintN, bool            view.UintNView / view.BoolView
     Root                   tree.Root
     BytesN, Vector[u8,n]   DecodingReader.ByteVector / EncodingWriter.Write
     List[u8,n]             ByteList
     Bitvector / Bitlist    BitVector / BitList
     List[Root,n]           tree.ReadRootsLimited / tree.WriteRoots
     other Vector / List    Vector / List with per-item codecs
     Container              FixedLenContainer if every field is fixed-size, else Container
     Union                  Union                                                        *)
From Ztyp Require Import Base Bitlen Bitfields Merkleize Types Spec Reader.
Open Scope N_scope.

(* FixedLength(): 0 for variable-size values *)
Definition flat_fixed_len (t : ty) : N := if spec_is_fixed t then spec_fixed_len t else 0.

(* prior state of a destination: only byte slices have state that the library looks at *)
Inductive ctree := CFresh | CBytes (len cap : N) | CNodes (cs : list ctree).
Definition ct_child (c : ctree) (i : nat) : ctree :=
  match c with CNodes cs => nth i cs CFresh | _ => CFresh end.
Definition ct_bytes (c : ctree) : N * N :=
  match c with CBytes l k => (l, k) | _ => (0, 0) end.

(* grow-or-reslice of ByteVector / BitVector / BitList / (repaired) ByteList *)
Definition reslice (c : ctree) (n : N) : ctree :=
  let '(_, k) := ct_bytes c in if k <? n then CBytes n n else CBytes n k.

Definition is_byte_elem (e : ty) : bool := match e with TUint w => w =? 1 | _ => false end.
Definition is_root_elem (e : ty) : bool := match e with TRoot => true | _ => false end.

(* ---------------- encoder ---------------- *)
Definition w_offset (prev_off prev_size : N) : res (N * list byte) :=
  if two32 <=? prev_off then Panic else
  if two32 <=? prev_size then Panic else
  let off := prev_off + prev_size in
  if two32 <=? off then Panic else OK (off, le_bytes 4 off).

Fixpoint w_offsets (lens : list N) (prev_off prev_size : N) : res (list byte) :=
  match lens with
  | [] => OK []
  | l :: rest =>
    do r <- w_offset prev_off prev_size; let '(off, bs) := r in
    do more <- w_offsets rest off l; OK (bs ++ more)
  end.

(* EncodingWriter.List / Vector: offsets (if the items are variable-size), then the items *)
Definition w_list (fixed_elem_size : N) (items : list (list byte)) : res (list byte) :=
  if fixed_elem_size =? 0 then
    do offs <- w_offsets (map lenN items) (mul64 4 (lenN items)) 0;
    OK (offs ++ concat items)
  else OK (concat items).

(* EncodingWriter.Container over (FixedLength, encoding) pairs *)
Fixpoint w_cont_fixed (fs : list (N * list byte)) (prev_off prev_size : N) : res (list byte) :=
  match fs with
  | [] => OK []
  | (fix_len, bs) :: rest =>
    if negb (fix_len =? 0) then do more <- w_cont_fixed rest prev_off prev_size; OK (bs ++ more)
    else
      do r <- w_offset prev_off prev_size; let '(off, obs) := r in
      do more <- w_cont_fixed rest off (lenN bs); OK (obs ++ more)
  end.
Definition w_container (fs : list (N * list byte)) : res (list byte) :=
  let fixed_len := fold_left (fun a f => add64 a (if fst f =? 0 then 4 else fst f)) fs 0 in
  do fixed <- w_cont_fixed fs fixed_len 0;
  OK (fixed ++ concat (map snd (filter (fun f => fst f =? 0) fs))).

Fixpoint flat_enc (t : ty) (v : val) {struct t} : res (list byte) :=
  match t, v with
  | TUint w, VUint n => OK (le_bytes (nat_of w) n)
  | TBool, VBool b => OK [byte_of_N (if b then 1 else 0)]
  | TBytes _, VBytes bs | TRoot, VBytes bs => OK bs
  | TBitvector _, VBits bs =>
    let p := bits_to_bytes bs in if lenN p =? 0 then Err else OK p          (* ew.BitVector *)
  | TBitlist _, VBits bs =>
    let p := bits_to_bytes (bs ++ [true]) in
    if (lenN p =? 0) || (N_of_byte (last p b0) =? 0) then Err else OK p      (* ew.BitList *)
  | TVector e _, VSeq vs | TList e _, VSeq vs =>
    do items <- (fix go (vs : list val) : res (list (list byte)) :=
                   match vs with
                   | [] => OK []
                   | x :: r => do b <- flat_enc e x; do bs <- go r; OK (b :: bs)
                   end) vs;
    if is_byte_elem e || is_root_elem e then OK (concat items)
    else w_list (flat_fixed_len e) items
  | TContainer fs, VCont vs =>
    do parts <- (fix go (fs : list ty) (vs : list val) : res (list (N * list byte)) :=
                   match fs, vs with
                   | f :: fs', x :: vs' =>
                     do b <- flat_enc f x; do r <- go fs' vs'; OK ((flat_fixed_len f, b) :: r)
                   | _, _ => OK []
                   end) fs vs;
    if spec_is_fixed t then OK (concat (map snd parts))   (* FixedLenContainer *)
    else w_container parts
  | TUnion none opts, VUnion sel ov =>
    match ov with
    | None => if negb (sel =? 0) then Err else OK [byte_of_N sel]
    | Some x =>
      (fix pick (os : list ty) (k : nat) : res (list byte) :=
         match os, k with
         | [], _ => Err
         | o :: _, O => do b <- flat_enc o x; OK (byte_of_N sel :: b)
         | _ :: os', S k' => pick os' k'
         end) opts (nat_of (if none then sel - 1 else sel))
    end
  | _, _ => Err
  end.

(* ByteLength() as the flat values report it: codec.ContainerLength for containers, the
   usual zrnt formulas for the rest *)
Fixpoint flat_len (t : ty) (v : val) {struct t} : N :=
  match t, v with
  | TUint w, _ => w
  | TBool, _ => 1
  | TBytes n, _ => n
  | TRoot, _ => 32
  | TBitvector n, _ => (n + 7) / 8
  | TBitlist _, VBits bs => lenN bs / 8 + 1
  | TVector e _, VSeq vs | TList e _, VSeq vs =>
    if spec_is_fixed e then mul64 (lenN vs) (spec_fixed_len e)
    else fold_left (fun a x => add64 a (add64 4 (flat_len e x))) vs 0
  | TContainer fs, VCont vs =>
    (fix go (fs : list ty) (vs : list val) (acc : N) : N :=
       match fs, vs with
       | f :: fs', x :: vs' =>
         go fs' vs' (add64 acc (if flat_fixed_len f =? 0 then add64 (flat_len f x) 4
                                else flat_fixed_len f))
       | _, _ => acc
       end) fs vs 0
  | TUnion none opts, VUnion sel ov =>
    match ov with
    | None => 1
    | Some x =>
      (fix pick (os : list ty) (k : nat) : N :=
         match os, k with
         | [], _ => 1
         | o :: _, O => 1 + flat_len o x
         | _ :: os', S k' => pick os' k'
         end) opts (nat_of (if none then sel - 1 else sel))
    end
  | _, _ => 0
  end.

(* ---------------- decoder ---------------- *)
Definition fdecoder := ctree -> rstate -> dreader -> res (val * ctree * rstate * dreader).

(* a decoder run inside SubScope(size) of d: the parent reader d is returned unchanged *)
Definition in_sub_scope (dec : fdecoder) (c : ctree) (size : N) (st : rstate) (d : dreader)
  : res (val * ctree * rstate) :=
  do s <- dr_sub_scope st d size; let '(st1, sd) := s in
  do r <- dec c st1 sd; let '(v, c', st2, _) := r in OK (v, c', st2).

(* DecodingReader.Vector, fixed-size items *)
Fixpoint d_vector_fixed (dec : fdecoder) (cs : ctree) (i count : nat) (size : N)
         (st : rstate) (d : dreader) : res (list val * list ctree * rstate) :=
  match count with
  | O => OK ([], [], st)
  | S k =>
    do r <- in_sub_scope dec (ct_child cs i) size st d; let '(v, c, st1) := r in
    do more <- d_vector_fixed dec cs (S i) k size st1 d; let '(vs, cs', st2) := more in
    OK (v :: vs, c :: cs', st2)
  end.

Fixpoint d_read_offsets (count : nat) (st : rstate) (d : dreader)
  : res (list N * rstate * dreader) :=
  match count with
  | O => OK ([], st, d)
  | S k =>
    do r <- dr_read_u32 st d; let '(off, st1, d1) := r in
    do more <- d_read_offsets k st1 d1; let '(offs, st2, d2) := more in
    OK (off :: offs, st2, d2)
  end.

(* the item loop shared by Vector and List (variable-size items):
   [prev] as Go updates it (Vector: prev = next; List: prev = off) *)
Fixpoint d_var_items (dec : nat -> fdecoder) (cs : ctree) (i : nat) (offs : list N)
         (scope prev : N) (vector_style : bool) (st : rstate) (d : dreader)
  : res (list val * list ctree * rstate) :=
  match offs with
  | [] => OK ([], [], st)
  | off :: rest =>
    if off <? prev then Err else
    let next := match rest with o' :: _ => o' | [] => scope end in
    do r <- in_sub_scope (dec i) (ct_child cs i) (sub64 next off) st d; let '(v, c, st1) := r in
    do more <- d_var_items dec cs (S i) rest scope (if vector_style then next else off)
                           vector_style st1 d;
    let '(vs, cs', st2) := more in
    OK (v :: vs, c :: cs', st2)
  end.

(* DecodingReader.Container over (FixedLength, decoder) fields *)
Inductive dfield := DFixed (v : val) (c : ctree) | DVar (off : N).
Fixpoint d_cont_fixed (fs : list (N * fdecoder)) (cs : ctree) (i : nat) (prev : N)
         (st : rstate) (d : dreader) : res (list dfield * N * rstate * dreader) :=
  match fs with
  | [] => OK ([], prev, st, d)
  | (fix_len, dec) :: rest =>
    if negb (fix_len =? 0) then
      do r <- in_sub_scope dec (ct_child cs i) fix_len st d; let '(v, c, st1) := r in
      do more <- d_cont_fixed rest cs (S i) (add64 prev fix_len) st1 d;
      let '(dfs, p, st2, d2) := more in OK (DFixed v c :: dfs, p, st2, d2)
    else
      do r <- dr_read_u32 st d; let '(off, st1, d1) := r in
      do more <- d_cont_fixed rest cs (S i) (add64 prev 4) st1 d1;
      let '(dfs, p, st2, d2) := more in OK (DVar off :: dfs, p, st2, d2)
  end.
Fixpoint d_cont_var (fs : list (dfield * fdecoder)) (cs : ctree) (i : nat) (scope : N)
         (st : rstate) (d : dreader) : res (list val * list ctree * rstate) :=
  match fs with
  | [] => OK ([], [], st)
  | (DFixed v c, _) :: rest =>
    do more <- d_cont_var rest cs (S i) scope st d; let '(vs, cs', st1) := more in
    OK (v :: vs, c :: cs', st1)
  | (DVar off, dec) :: rest =>
    let next := (fix nxt (l : list (dfield * fdecoder)) : N :=
                   match l with
                   | [] => scope
                   | (DVar o, _) :: _ => o
                   | _ :: l' => nxt l'
                   end) rest in
    if next <? off then Err else
    do r <- in_sub_scope dec (ct_child cs i) (next - off) st d; let '(v, c, st1) := r in
    do more <- d_cont_var rest cs (S i) scope st1 d; let '(vs, cs', st2) := more in
    OK (v :: vs, c :: cs', st2)
  end.
Definition first_var_off (dfs : list dfield) : option N :=
  (fix go (l : list dfield) : option N :=
     match l with [] => None | DVar o :: _ => Some o | _ :: r => go r end) dfs.

(* dr.Read into a byte-slice destination of the given prior state *)
Definition d_bytes (c : ctree) (n : N) (st : rstate) (d : dreader)
  : res (list byte * ctree * rstate * dreader) :=
  do r <- dr_read st d n; let '(bs, st1, d1) := r in OK (bs, reslice c n, st1, d1).

Definition bytes_to_bits (bs : list byte) (n : N) : list bool :=
  map (fun i => byte_testbit (nth (Nat.div i 8) bs b0) (N.of_nat (Nat.modulo i 8))) (seq 0 (nat_of n)).

Fixpoint flat_dec (t : ty) (c : ctree) (st : rstate) (d : dreader) {struct t}
  : res (val * ctree * rstate * dreader) :=
  match t with
  | TUint w =>
    do r <- dr_read st d w; let '(bs, st1, d1) := r in OK (VUint (le_val bs), CFresh, st1, d1)
  | TBool =>
    do r <- dr_read_byte st d; let '(b, st1, d1) := r in
    if 1 <? b then Err else OK (VBool (b =? 1), CFresh, st1, d1)
  | TRoot =>
    do r <- dr_read st d 32; let '(bs, st1, d1) := r in OK (VBytes bs, CFresh, st1, d1)
  | TBytes n =>
    do r <- d_bytes c n st d; let '(bs, c', st1, d1) := r in OK (VBytes bs, c', st1, d1)
  | TBitvector n =>
    do r <- d_bytes c (N.shiftr (wrap64 (n + 7)) 3) st d; let '(bs, c', st1, d1) := r in
    do _ <- bitvector_check bs n;
    OK (VBits (bytes_to_bits bs n), c', st1, d1)
  | TBitlist n =>
    let byte_len := dr_scope d in
    if (N.shiftr n 3) + 1 <? byte_len then Err else        (* repaired (D14) *)
    do r <- d_bytes c byte_len st d; let '(bs, c', st1, d1) := r in
    do _ <- bitlist_check bs n;
    OK (VBits (bytes_to_bits bs (bitlist_len bs)), c', st1, d1)
  | TVector e n =>
    if is_byte_elem e then
      do r <- d_bytes c n st d; let '(bs, c', st1, d1) := r in
      OK (VSeq (map (fun b => VUint (N_of_byte b)) bs), c', st1, d1)
    else
      let fsz := flat_fixed_len e in
      if negb (fsz =? 0) then
        do r <- d_vector_fixed (flat_dec e) c O (nat_of n) fsz st d; let '(vs, cs, st1) := r in
        OK (VSeq vs, CNodes cs, st1, d)
      else
        let scope := dr_scope d in
        do r <- d_read_offsets (nat_of n) st d; let '(offs, st1, d1) := r in
        (* repaired (D16b): the first offset is the size of the offset table *)
        if negb (hd (mul64 4 n) offs =? mul64 4 n) then Err else
        do r2 <- d_var_items (fun _ => flat_dec e) c O offs scope 0 true st1 d1;
        let '(vs, cs, st2) := r2 in
        OK (VSeq vs, CNodes cs, st2, d1)
  | TList e n =>
    let scope := dr_scope d in
    if is_byte_elem e then
      if n <? scope then Err else
      do r <- d_bytes c scope st d; let '(bs, c', st1, d1) := r in     (* repaired (D15) *)
      OK (VSeq (map (fun b => VUint (N_of_byte b)) bs), c', st1, d1)
    else if is_root_elem e then
      (* tree.ReadRootsLimited *)
      if negb (scope mod 32 =? 0) then Err else
      let len := scope / 32 in
      if n <? len then Err else
      (fix roots (k : nat) (st : rstate) (d : dreader) : res (val * ctree * rstate * dreader) :=
         match k with
         | O => OK (VSeq [], CFresh, st, d)
         | S k' =>
           do r <- dr_read st d 32; let '(bs, st1, d1) := r in
           do more <- roots k' st1 d1;
           match more with
           | (VSeq vs, c', st2, d2) => OK (VSeq (VBytes bs :: vs), c', st2, d2)
           | _ => Err
           end
         end) (nat_of len) st d
    else if scope =? 0 then OK (VSeq [], CFresh, st, d)
    else
      let fsz := flat_fixed_len e in
      if negb (fsz =? 0) then
        if negb (scope mod fsz =? 0) then Err else
        let len := scope / fsz in
        if n <? len then Err else
        do r <- d_vector_fixed (flat_dec e) CFresh O (nat_of len) fsz st d; let '(vs, _, st1) := r in
        OK (VSeq vs, CFresh, st1, d)
      else
        do r <- dr_read_u32 st d; let '(first, st1, d1) := r in
        if negb (first mod 4 =? 0) then Err else
        let len := first / 4 in
        if n <? len then Err else
        (* repaired (D17): the offsets must fit in the scope before the table is made *)
        if (first =? 0) || (scope <? first) then Err else
        do r2 <- d_read_offsets (nat_of (len - 1)) st1 d1; let '(offs, st2, d2) := r2 in
        (* repaired (D16a): every item is decoded, also an empty one *)
        do r3 <- d_var_items (fun _ => flat_dec e) CFresh O (first :: offs) scope 0 false st2 d2;
        let '(vs, _, st3) := r3 in
        OK (VSeq vs, CFresh, st3, d2)
  | TContainer fs =>
    if spec_is_fixed t then
      (* FixedLenContainer: fields read straight from d *)
      do x <- (fix go (fs : list ty) (i : nat) (st : rstate) (d : dreader)
                 : res (list val * list ctree * rstate * dreader) :=
                 match fs with
                 | [] => OK ([], [], st, d)
                 | f :: fs' =>
                   do r <- flat_dec f (ct_child c i) st d; let '(v, c1, st1, d1) := r in
                   do more <- go fs' (S i) st1 d1; let '(vs, cs, st2, d2) := more in
                   OK (v :: vs, c1 :: cs, st2, d2)
                 end) fs O st d;
      let '(vs, cs, st1, d1) := x in OK (VCont vs, CNodes cs, st1, d1)
    else
      let scope := dr_scope d in
      let decs := map (fun f => (flat_fixed_len f, flat_dec f)) fs in
      do r <- d_cont_fixed decs c O 0 st d; let '(dfs, prev, st1, d1) := r in
      match first_var_off dfs with
      | None => Err
      | Some o0 =>
        if negb (prev =? o0) then Err else
        do r2 <- d_cont_var (combine dfs (map flat_dec fs)) c O scope st1 d1;
        let '(vs, cs, st2) := r2 in
        OK (VCont vs, CNodes cs, st2, d1)
      end
  | TUnion none opts =>
    do r <- dr_read_byte st d; let '(sel, st1, d1) := r in
    if none && (sel =? 0) then
      (* repaired (D16c): nothing may follow a None value *)
      if negb (dr_scope d1 =? 0) then Err else OK (VUnion 0 None, CFresh, st1, d1)
    else
      (fix pick (os : list ty) (k : nat) : res (val * ctree * rstate * dreader) :=
         match os, k with
         | [], _ => Err                               (* selectFn: unknown selector *)
         | o :: _, O =>
           (* repaired (D16c): a fixed-size value fills the remaining scope exactly *)
           if negb (flat_fixed_len o =? 0) && negb (flat_fixed_len o =? dr_scope d1) then Err else
           do r <- flat_dec o CFresh st1 d1; let '(v, _, st2, d2) := r in
           OK (VUnion sel (Some v), CFresh, st2, d2)
         | _ :: os', S k' => pick os' k'
         end) opts (nat_of (if none then sel - 1 else sel))
  end.

(* top level: value.Deserialize(codec.NewDecodingReader(bytes.NewReader(bs), len(bs))) *)
Definition flat_decode (t : ty) (c : ctree) (bs : list byte) : res (val * ctree) :=
  let '(st, d) := new_reader bs (lenN bs) in
  do r <- flat_dec t c st d; let '(v, c', _, _) := r in OK (v, c').

(* ---------------- flat hash-tree-root (C08) ---------------- *)
Section WithHash.
Variable H : chunk -> chunk -> chunk.
Variable zh : nat -> chunk.

Definition basic_root (t : ty) (v : val) : chunk := pad32 (spec_ser t v).

Fixpoint flat_htr (t : ty) (v : val) {struct t} : res chunk :=
  match t, v with
  | TUint _, _ | TBool, _ => OK (basic_root t v)
  | TRoot, VBytes bs => OK (pad32 bs)
  | TBytes _, VBytes bs => byte_vector_htr H zh bs
  | TBitvector _, VBits bs => bit_vector_htr H zh (bits_to_bytes bs)
  | TBitlist n, VBits bs => bit_list_htr H zh (bits_to_bytes (bs ++ [true])) n
  | TVector e n, VSeq vs =>
    match e with
    | TUint w =>
      if w =? 1 then byte_vector_htr H zh (flat_map (spec_ser e) vs)
      else if w =? 8 then
        uint64_vector_htr H zh (map (fun x => match x with VUint k => k | _ => 0 end) vs)
      else (* user-side packing through ChunksHTR *)
        let bs := flat_map (spec_ser e) vs in
        let chunks := (lenN bs + 31) / 32 in
        chunks_htr H zh (bytes_chunk bs) chunks chunks
    | TBool =>
      let bs := flat_map (spec_ser e) vs in
      let chunks := (lenN bs + 31) / 32 in
      chunks_htr H zh (bytes_chunk bs) chunks chunks
    | _ =>
      do rs <- (fix go (vs : list val) : res (list chunk) :=
                  match vs with
                  | [] => OK []
                  | x :: r => do c <- flat_htr e x; do cs <- go r; OK (c :: cs)
                  end) vs;
      complex_vector_htr H zh (fun i => nth (nat_of i) rs zero_chunk) (lenN vs)
    end
  | TList e n, VSeq vs =>
    match e with
    | TUint w =>
      if w =? 1 then
        byte_list_htr H zh (flat_map (spec_ser e) vs) n
      else if w =? 8 then
        uint64_list_htr H zh (map (fun x => match x with VUint k => k | _ => 0 end) vs) n
      else
        let bs := flat_map (spec_ser e) vs in
        let chunks := (lenN bs + 31) / 32 in
        do r <- chunks_htr H zh (bytes_chunk bs) chunks ((n * w + 31) / 32);
        OK (mixin H r (lenN vs))
    | TBool =>
      let bs := flat_map (spec_ser e) vs in
      let chunks := (lenN bs + 31) / 32 in
      do r <- chunks_htr H zh (bytes_chunk bs) chunks ((n + 31) / 32);
      OK (mixin H r (lenN vs))
    | _ =>
      do rs <- (fix go (vs : list val) : res (list chunk) :=
                  match vs with
                  | [] => OK []
                  | x :: r => do c <- flat_htr e x; do cs <- go r; OK (c :: cs)
                  end) vs;
      complex_list_htr H zh (fun i => nth (nat_of i) rs zero_chunk) (lenN vs) n
    end
  | TContainer fs, VCont vs =>
    do rs <- (fix go (fs : list ty) (vs : list val) : res (list chunk) :=
                match fs, vs with
                | f :: fs', x :: vs' => do c <- flat_htr f x; do cs <- go fs' vs'; OK (c :: cs)
                | _, _ => OK []
                end) fs vs;
    fields_htr H zh rs
  | TUnion none opts, VUnion sel ov =>
    match ov with
    | None => OK (union_htr H sel None)
    | Some x =>
      (fix pick (os : list ty) (k : nat) : res chunk :=
         match os, k with
         | [], _ => Err
         | o :: _, O => do c <- flat_htr o x; OK (union_htr H sel (Some c))
         | _ :: os', S k' => pick os' k'
         end) opts (nat_of (if none then sel - 1 else sel))
    end
  | _, _ => Err
  end.
End WithHash.
