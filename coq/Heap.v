(* Heap.v — node identity and the memoised root (tree.PairNode.Value), as an explicit
   append-only heap.  Definitions only.
   A cell is a *Root (CLeaf) or a *PairNode (CPair memo left right); memo = zero_chunk
   means "not computed" — the Go convention [c.Value != Root{}].  Cells are only ever
   added; the only in-place write is h_merkle storing a memo that was unset. *)
From Coq Require Import FMapPositive.
From Ztyp Require Import Base Bitlen Tree Types View Mut.
Open Scope N_scope.

Definition addr := positive.
Inductive cell := CLeaf (c : chunk) | CPair (memo : chunk) (l r : addr).
Record heap := mkHeap { hp_next : positive; hp_cells : PositiveMap.t cell }.

Definition h_cell (h : heap) (a : addr) : option cell := PositiveMap.find a (hp_cells h).
Definition h_alloc (h : heap) (c : cell) : addr * heap :=
  (hp_next h, mkHeap (Pos.succ (hp_next h)) (PositiveMap.add (hp_next h) c (hp_cells h))).

Section WithZero.
Variable zh : nat -> chunk.

(* the process-wide nodes: &ZeroHashes[d] at address d+1 (d = 0..64), view.trueRoot at 66 *)
Definition zero_addr (d : nat) : addr := Pos.of_succ_nat d.
Definition true_addr : addr := 66%positive.
Fixpoint init_cells (k : nat) (h : heap) : heap :=
  match k with
  | O => h
  | S k' => let h' := init_cells k' h in snd (h_alloc h' (CLeaf (zh k')))
  end.
Definition heap_init : heap :=
  snd (h_alloc (init_cells 65 (mkHeap 1%positive (PositiveMap.empty cell))) (CLeaf true_chunk)).

Definition h_leaf (h : heap) (c : chunk) : addr * heap := h_alloc h (CLeaf c).
Definition h_pair (h : heap) (l r : addr) : addr * heap := h_alloc h (CPair zero_chunk l r).
Definition h_chunk (h : heap) (a : addr) : res chunk :=
  match h_cell h a with Some (CLeaf c) => OK c | Some (CPair _ _ _) => Err | None => Panic end.

(* Getter *)
Fixpoint h_get_path (h : heap) (a : addr) (p : list bool) : res addr :=
  match p with
  | [] => OK a
  | b :: p' =>
    match h_cell h a with
    | Some (CPair _ l r) => h_get_path h (if b then r else l) p'
    | Some (CLeaf _) => Err
    | None => Panic
    end
  end.
Definition h_getter (h : heap) (a : addr) (g : N) : res addr := h_get_path h a (g_path g).

(* Setter: path copy.  Same rule as Tree.set_path; expansion children are the shared zero
   leaves, every rebound pair is a fresh cell with an unset memo. *)
Fixpoint h_set_path (h : heap) (a : addr) (p : list bool) (expand : bool) (v : addr)
  : res (addr * heap) :=
  match p with
  | [] => OK (v, h)
  | b :: p' =>
    do lr <- match h_cell h a with
             | Some (CPair _ l r) => OK (l, r)
             | Some (CLeaf c) =>
               if expand then
                 if chunk_eqb c (zh (S (length p'))) then
                   if N.of_nat (length p') <=? 64 then
                     OK (zero_addr (length p'), zero_addr (length p'))
                   else Panic
                 else Err
               else Err
             | None => Panic
             end;
    let '(l, r) := lr in
    if b then do x <- h_set_path h r p' expand v; let '(r', h1) := x in OK (h_pair h1 l r')
    else do x <- h_set_path h l p' expand v; let '(l', h1) := x in OK (h_pair h1 l' r)
  end.
Definition h_setter (h : heap) (a : addr) (g : N) (expand : bool) (v : addr)
  : res (addr * heap) := h_set_path h a (g_path g) expand v.

(* MerkleRoot(h): returns the root, the heap with the new memos, and the number of
   pair-hash invocations.  Fuel bounds the recursion depth (children are older cells). *)
Section WithHash.
Variable H : chunk -> chunk -> chunk.
Fixpoint h_merkle (fuel : nat) (h : heap) (a : addr) : res (chunk * heap * N) :=
  match fuel with
  | O => Panic
  | S f =>
    match h_cell h a with
    | None => Panic
    | Some (CLeaf c) => OK (c, h, 0)
    | Some (CPair memo l r) =>
      if negb (chunk_eqb memo zero_chunk) then OK (memo, h, 0) else
      do x <- h_merkle f h l; let '(rl, h1, c1) := x in
      do y <- h_merkle f h1 r; let '(rr, h2, c2) := y in
      let v := H rl rr in
      OK (v, mkHeap (hp_next h2) (PositiveMap.add a (CPair v l r) (hp_cells h2)), c1 + c2 + 1)
    end
  end.
End WithHash.

(* abstraction: the pure tree a cell stands for *)
Fixpoint h_abs (fuel : nat) (h : heap) (a : addr) : option node :=
  match fuel with
  | O => None
  | S f =>
    match h_cell h a with
    | None => None
    | Some (CLeaf c) => Some (Leaf c)
    | Some (CPair _ l r) =>
      match h_abs f h l, h_abs f h r with
      | Some x, Some y => Some (Pair x y)
      | _, _ => None
      end
    end
  end.

(* ---- the heap instance of the view machine: HM ---- *)
Definition hm_state := mstate addr heap.
Definition hm_step : hm_state -> op -> hm_state * res mout :=
  step addr heap h_getter h_setter h_leaf h_pair h_chunk zero_addr true_addr zh.
Definition hm_alloc : heap -> node -> addr * heap := alloc_node addr heap h_leaf h_pair.

End WithZero.
