(* ==================================================================================== *)
(** * Part A. Paths of bottom positions; reading, writing, appending, popping in a series *)
(* ==================================================================================== *)
From Coq Require Import PeanoNat ZArith ZifyN ZifyNat ZifyBool.
From Ztyp Require Import Base Bitlen Tree Types Spec View Mut Repr VMach
     BitlenProofs TreeProofs MerkleProofs ReprProofs.
Open Scope N_scope.

#[local] Ltac Zify.zify_post_hook ::= Z.div_mod_to_equations.
Local Arguments N.pow : simpl never.
Local Arguments Nat.pow : simpl never.
Local Arguments N.of_nat : simpl never.
Local Arguments N.to_nat : simpl never.
Local Arguments N.div : simpl never.
Local Arguments N.modulo : simpl never.
Local Arguments N.log2_up : simpl never.
Local Opaque two64.

(* ---- generic list facts ---- *)
Lemma lenN_app' {A} (a b : list A) : lenN (a ++ b) = lenN a + lenN b.
Proof. unfold lenN. rewrite app_length. lia. Qed.

Lemma lenN_nil' {A} : lenN (@nil A) = 0.
Proof. reflexivity. Qed.

Lemma lenN_one {A} (x : A) : lenN [x] = 1.
Proof. reflexivity. Qed.

Lemma lenN_zero' {A} (l : list A) : lenN l = 0 -> l = [].
Proof. destruct l; [reflexivity|]. unfold lenN. cbn [length]. lia. Qed.

Lemma lenN_list_set {A} (l : list A) i x : lenN (list_set l i x) = lenN l.
Proof.
  unfold lenN. f_equal. revert i. induction l as [|y l IH]; intros [|i]; cbn [list_set length]; auto.
Qed.

Lemma list_set_app_lt {A} : forall (l r : list A) j x, (j < length l)%nat ->
  list_set (l ++ r) j x = list_set l j x ++ r.
Proof.
  induction l as [|y l IH]; intros r j x Hj; cbn [length] in Hj; [lia|].
  destruct j as [|j]; cbn [list_set app]; [reflexivity|]. rewrite IH by lia. reflexivity.
Qed.

Lemma list_set_app_ge {A} : forall (l r : list A) j x, (length l <= j)%nat ->
  list_set (l ++ r) j x = l ++ list_set r (j - length l) x.
Proof.
  induction l as [|y l IH]; intros r j x Hj; cbn [length] in *.
  - rewrite Nat.sub_0_r. reflexivity.
  - destruct j as [|j]; [lia|]. cbn [list_set app]. rewrite IH by lia. reflexivity.
Qed.

Lemma nth_list_set_eq {A} (d : A) : forall (l : list A) i x, (i < length l)%nat ->
  nth i (list_set l i x) d = x.
Proof.
  induction l as [|y l IH]; intros [|i] x Hi; cbn [length] in Hi; try lia; cbn [list_set nth]; auto.
  apply IH. lia.
Qed.

Lemma nth_list_set_neq {A} (d : A) : forall (l : list A) i j x, i <> j ->
  nth j (list_set l i x) d = nth j l d.
Proof.
  induction l as [|y l IH]; intros [|i] [|j] x Hne; cbn [list_set nth]; auto; try lia.
Qed.

Lemma list_set_last {A} (l : list A) x y : list_set (l ++ [x]) (length l) y = l ++ [y].
Proof. rewrite list_set_app_ge by lia. rewrite Nat.sub_diag. reflexivity. Qed.

Lemma map_list_set {A B} (f : A -> B) : forall l i x,
  map f (list_set l i x) = list_set (map f l) i (f x).
Proof. induction l as [|y l IH]; intros [|i] x; cbn [list_set map]; auto. rewrite IH. reflexivity. Qed.

Lemma map_removelast {A B} (f : A -> B) : forall l, map f (removelast l) = removelast (map f l).
Proof.
  induction l as [|y l IH]; [reflexivity|]. destruct l as [|z l]; [reflexivity|].
  cbn [removelast map] in *. rewrite IH. reflexivity.
Qed.

Lemma snoc_cases {A} (l : list A) : l = [] \/ exists l' x, l = l' ++ [x].
Proof.
  destruct l as [|a l]; [left; reflexivity|right].
  destruct (exists_last (l := a :: l)) as (l' & x & E); [discriminate|]. eauto.
Qed.

Lemma lenN_removelast {A} (l : list A) : lenN (removelast l) = lenN l - 1.
Proof.
  destruct (snoc_cases l) as [->|(l' & x & ->)]; [reflexivity|].
  rewrite removelast_last, lenN_app', lenN_one. lia.
Qed.

(* ---- the path of bottom position i at depth d ---- *)
Lemma bits_msb_S d i : bits_msb (S d) i = N.testbit i (N.of_nat d) :: bits_msb d i.
Proof. reflexivity. Qed.

Lemma bits_msb_length d i : length (bits_msb d i) = d.
Proof. induction d as [|d IH]; cbn [bits_msb length]; auto. Qed.

Lemma bits_msb_sub d : forall k i, (k <= d)%nat -> i < 2 ^ N.of_nat d ->
  bits_msb k (2 ^ N.of_nat d + i) = bits_msb k i.
Proof.
  induction k as [|k IH]; intros i Hk Hi; [reflexivity|].
  cbn [bits_msb]. rewrite IH by (lia || assumption). f_equal.
  apply testbit_anchor_low; [exact Hi|lia].
Qed.

Lemma bits_msb_left d i : i < 2 ^ N.of_nat d -> bits_msb (S d) i = false :: bits_msb d i.
Proof.
  intros Hi. rewrite bits_msb_S. f_equal. apply (testbit_small i (N.of_nat d)); [exact Hi|lia].
Qed.

Lemma bits_msb_right d i : 2 ^ N.of_nat d <= i -> i < 2 ^ N.of_nat (S d) ->
  bits_msb (S d) i = true :: bits_msb d (i - 2 ^ N.of_nat d).
Proof.
  intros Hlo Hhi. rewrite pow2N_S in Hhi. rewrite bits_msb_S.
  replace i with (2 ^ N.of_nat d + (i - 2 ^ N.of_nat d)) at 1 2 by lia.
  rewrite bits_msb_sub by lia. f_equal.
  replace (2 ^ N.of_nat d + (i - 2 ^ N.of_nat d)) with ((i - 2 ^ N.of_nat d) + 1 * 2 ^ N.of_nat d) by lia.
  rewrite N.testbit_eqb. rewrite N.div_add by apply pow2_nz.
  rewrite N.div_small by lia. reflexivity.
Qed.

Lemma g_path_bits d i : N.of_nat d < 64 -> i < 2 ^ N.of_nat d ->
  g_path (2 ^ N.of_nat d + i) = bits_msb d i.
Proof.
  intros Hd Hi. rewrite g_path_spec by assumption. rewrite bits_msb_map, Nat2N.id.
  apply map_ext_in. intros k Hk. apply in_seq in Hk. f_equal. lia.
Qed.

Section Series.
Variable zh : nat -> chunk.

Notation series := (series zh).
Notation ztree := (ztree zh).

(* split a series at the pivot: left part, right part; the right part is empty unless the
   left part is full *)
Lemma series_split d ps a b :
  series (S d) ps (Pair a b) ->
  exists psa psb, ps = psa ++ psb /\ series d psa a /\ series d psb b /\
                  (psb = [] \/ lenN psa = 2 ^ N.of_nat d).
Proof.
  intros Hs. apply series_pair in Hs.
  destruct (N.leb_spec (lenN ps) (2 ^ N.of_nat d)) as [Hle|Hgt].
  - destruct Hs as [Ha Hb]. exists ps, []. rewrite app_nil_r.
    repeat split; auto. apply series_nil. exact Hb.
  - destruct Hs as [Ha Hb].
    exists (firstn (nat_of (2 ^ N.of_nat d)) ps), (skipn (nat_of (2 ^ N.of_nat d)) ps).
    rewrite firstn_skipn. repeat split; auto. right.
    rewrite lenN_firstn. unfold nat_of. lia.
Qed.

Lemma series_join d psa psb a b :
  series d psa a -> series d psb b -> (psb = [] \/ lenN psa = 2 ^ N.of_nat d) ->
  series (S d) (psa ++ psb) (Pair a b).
Proof.
  intros Ha Hb Hc. apply series_pair.
  pose proof (series_length zh d psa a Ha) as Hla.
  destruct (N.leb_spec (lenN (psa ++ psb)) (2 ^ N.of_nat d)) as [Hle|Hgt].
  - rewrite lenN_app' in Hle. destruct Hc as [->|Hfull].
    + rewrite app_nil_r. split; [exact Ha|]. apply series_nil. exact Hb.
    + assert (Hz : lenN psb = 0) by lia. apply lenN_zero' in Hz. subst psb.
      rewrite app_nil_r. split; [exact Ha|]. apply series_nil. exact Hb.
  - rewrite lenN_app' in Hgt. destruct Hc as [->|Hfull].
    + rewrite lenN_nil' in Hgt. lia.
    + assert (Hn : nat_of (2 ^ N.of_nat d) = length psa) by (unfold lenN, nat_of in *; lia).
      rewrite Hn, firstn_app, skipn_app, Nat.sub_diag, firstn_all, skipn_all.
      cbn [firstn skipn]. rewrite app_nil_r. cbn [app]. split; assumption.
Qed.

Lemma series_nonempty_pair d ps n : series (S d) ps n -> ps <> [] -> exists a b, n = Pair a b.
Proof.
  intros Hs Hne. destruct n as [c|a b]; [|eauto].
  apply (proj1 (series_leaf zh _ _ _)) in Hs. destruct Hs as [-> _]. contradiction.
Qed.

(* ---- read ---- *)
Lemma series_get d : forall ps n i, series d ps n -> i < lenN ps ->
  exists m, get_path n (bits_msb d i) = OK m /\ nth (nat_of i) ps (fun _ => False) m.
Proof.
  induction d as [|d IH]; intros ps n i Hs Hi.
  - destruct ps as [|p ps]; [rewrite lenN_nil' in Hi; lia|].
    apply (proj1 (series_0 zh _ _ _)) in Hs. destruct Hs as [-> Hp]. rewrite lenN_one in Hi.
    assert (i = 0) by lia. subst i. exists n. split; [apply get_path_nil|exact Hp].
  - destruct (series_nonempty_pair d ps n Hs) as (a & b & ->).
    { intros ->. rewrite lenN_nil' in Hi. lia. }
    pose proof (series_length zh _ _ _ Hs) as Hlen.
    destruct (series_split d ps a b Hs) as (psa & psb & -> & Ha & Hb & Hc).
    pose proof (series_length zh _ _ _ Ha) as Hla.
    rewrite lenN_app' in Hi, Hlen.
    destruct (N.lt_ge_cases i (lenN psa)) as [Hlt|Hge].
    + rewrite bits_msb_left by lia. rewrite get_path_pair.
      destruct (IH psa a i Ha Hlt) as (m & Hg & Hn). exists m. split; [exact Hg|].
      rewrite app_nth1 by (unfold lenN, nat_of in *; lia). exact Hn.
    + destruct Hc as [->|Hfull]; [rewrite lenN_nil' in Hi; lia|].
      rewrite bits_msb_right by lia. rewrite get_path_pair.
      destruct (IH psb b (i - 2 ^ N.of_nat d) Hb) as (m & Hg & Hn); [lia|].
      exists m. split; [exact Hg|].
      rewrite app_nth2 by (unfold lenN, nat_of in *; lia).
      replace (nat_of i - length psa)%nat with (nat_of (i - 2 ^ N.of_nat d))
        by (unfold lenN, nat_of in *; lia).
      exact Hn.
Qed.

(* ---- write on a present position (the expand flag is irrelevant) ---- *)
Lemma series_set d : forall ps n i e v (q : node -> Prop), series d ps n -> i < lenN ps -> q v ->
  exists n', set_path zh n (bits_msb d i) e v = OK n' /\
             series d (list_set ps (nat_of i) q) n'.
Proof.
  induction d as [|d IH]; intros ps n i e v q Hs Hi Hq.
  - destruct ps as [|p ps]; [rewrite lenN_nil' in Hi; lia|].
    apply (proj1 (series_0 zh _ _ _)) in Hs. destruct Hs as [-> Hp]. rewrite lenN_one in Hi.
    assert (i = 0) by lia. subst i. exists v. split; [reflexivity|].
    change (nat_of 0) with O. cbn [list_set]. apply series_0. split; [reflexivity|exact Hq].
  - destruct (series_nonempty_pair d ps n Hs) as (a & b & ->).
    { intros ->. rewrite lenN_nil' in Hi. lia. }
    pose proof (series_length zh _ _ _ Hs) as Hlen.
    destruct (series_split d ps a b Hs) as (psa & psb & -> & Ha & Hb & Hc).
    pose proof (series_length zh _ _ _ Ha) as Hla.
    rewrite lenN_app' in Hi, Hlen.
    destruct (N.lt_ge_cases i (lenN psa)) as [Hlt|Hge].
    + rewrite bits_msb_left by lia. rewrite set_path_cons, step_children_pair. cbn [bind].
      destruct (IH psa a i e v q Ha Hlt Hq) as (a' & Hg & Hn). rewrite Hg. cbn [bind].
      exists (Pair a' b). split; [reflexivity|].
      rewrite list_set_app_lt by (unfold lenN, nat_of in *; lia).
      apply series_join; auto. rewrite lenN_list_set. exact Hc.
    + destruct Hc as [->|Hfull]; [rewrite lenN_nil' in Hi; lia|].
      rewrite bits_msb_right by lia. rewrite set_path_cons, step_children_pair. cbn [bind].
      destruct (IH psb b (i - 2 ^ N.of_nat d) e v q Hb) as (b' & Hg & Hn); [lia|exact Hq|].
      rewrite Hg. cbn [bind]. exists (Pair a b'). split; [reflexivity|].
      rewrite list_set_app_ge by (unfold lenN, nat_of in *; lia).
      replace (nat_of i - length psa)%nat with (nat_of (i - 2 ^ N.of_nat d))
        by (unfold lenN, nat_of in *; lia).
      apply series_join; auto.
Qed.

(* ---- append: the first absent position; the expansion meets zero summaries only ---- *)
Lemma set_path_expand_zero b p v : (length p <= 64)%nat ->
  set_path zh (Leaf (zh (S (length p)))) (b :: p) true v =
  set_path zh (Pair (Leaf (zh (length p))) (Leaf (zh (length p)))) (b :: p) true v.
Proof.
  intros Hl. rewrite !set_path_cons. cbn [step_children]. rewrite chunk_eqb_refl.
  unfold zero_node. destruct (N.leb_spec (N.of_nat (length p)) 64) as [_|Hgt]; [|lia].
  unfold nat_of. rewrite Nat2N.id. reflexivity.
Qed.

Lemma series_append d : forall ps n v (q : node -> Prop),
  (d <= 64)%nat -> series d ps n -> lenN ps < 2 ^ N.of_nat d -> q v ->
  exists n', set_path zh n (bits_msb d (lenN ps)) true v = OK n' /\
             series d (ps ++ [q]) n'.
Proof.
  induction d as [|d IH]; intros ps n v q Hd Hs Hl Hq.
  - rewrite pow2N_0 in Hl. assert (Hz : lenN ps = 0) by lia. apply lenN_zero' in Hz. subst ps.
    exists v. split; [reflexivity|]. cbn [app]. apply series_0. split; [reflexivity|exact Hq].
  - assert (Hpair : exists a b, series (S d) ps (Pair a b) /\
              set_path zh n (bits_msb (S d) (lenN ps)) true v =
              set_path zh (Pair a b) (bits_msb (S d) (lenN ps)) true v).
    { destruct n as [c|a b]; [|eauto].
      apply (proj1 (series_leaf zh _ _ _)) in Hs. destruct Hs as [-> ->].
      exists (Leaf (zh d)), (Leaf (zh d)). split.
      - apply series_nil, ztree_S_pair. split; apply ztree_leaf.
      - rewrite bits_msb_S.
        pose proof (set_path_expand_zero (N.testbit (lenN (@nil (node -> Prop))) (N.of_nat d))
                      (bits_msb d (lenN (@nil (node -> Prop)))) v) as E.
        rewrite bits_msb_length in E. apply E. lia. }
    destruct Hpair as (a & b & Hs' & ->). clear Hs n.
    destruct (series_split d ps a b Hs') as (psa & psb & -> & Ha & Hb & Hc).
    pose proof (series_length zh _ _ _ Ha) as Hla.
    pose proof (series_length zh _ _ _ Hb) as Hlb.
    rewrite lenN_app' in *. rewrite pow2N_S in Hl.
    destruct Hc as [->|Hfull].
    + rewrite lenN_nil', N.add_0_r in *. rewrite app_nil_r.
      destruct (N.lt_ge_cases (lenN psa) (2 ^ N.of_nat d)) as [Hlt|Hge].
      * rewrite bits_msb_left by lia. rewrite set_path_cons, step_children_pair. cbn [bind].
        destruct (IH psa a v q ltac:(lia) Ha Hlt Hq) as (a' & Hg & Hn). rewrite Hg. cbn [bind].
        exists (Pair a' b). split; [reflexivity|].
        rewrite <- (app_nil_r (psa ++ [q])). apply series_join; auto.
      * assert (Hfull : lenN psa = 2 ^ N.of_nat d) by lia.
        rewrite bits_msb_right by (rewrite ?pow2N_S; lia).
        rewrite set_path_cons, step_children_pair. cbn [bind].
        rewrite Hfull, N.sub_diag. change 0 with (lenN (@nil (node -> Prop))).
        destruct (IH [] b v q ltac:(lia) Hb) as (b' & Hg & Hn);
          [rewrite lenN_nil'; apply pow2N_pos|exact Hq|].
        rewrite Hg. cbn [bind]. exists (Pair a b'). split; [reflexivity|].
        apply series_join; auto.
    + rewrite bits_msb_right by (rewrite ?pow2N_S; lia).
      rewrite set_path_cons, step_children_pair. cbn [bind].
      replace (lenN psa + lenN psb - 2 ^ N.of_nat d) with (lenN psb) by lia.
      destruct (IH psb b v q ltac:(lia) Hb ltac:(lia) Hq) as (b' & Hg & Hn).
      rewrite Hg. cbn [bind]. exists (Pair a b'). split; [reflexivity|].
      rewrite <- app_assoc. apply series_join; auto.
Qed.

(* ---- a trailing zero position is padding ---- *)
Lemma series_drop_last d : forall ps (q : node -> Prop) n,
  (forall m, q m -> m = Leaf (zh 0)) -> series d (ps ++ [q]) n -> series d ps n.
Proof.
  induction d as [|d IH]; intros ps q n Hq Hs.
  - destruct ps as [|p ps].
    + cbn [app] in Hs. apply (proj1 (series_0 zh _ _ _)) in Hs. destruct Hs as [_ Hn].
      apply series_nil, ztree_0. apply Hq, Hn.
    + cbn [app] in Hs. apply (proj1 (series_0 zh _ _ _)) in Hs. destruct Hs as [Hnil _].
      destruct ps; discriminate.
  - destruct (series_nonempty_pair d _ n Hs) as (a & b & ->).
    { destruct ps; discriminate. }
    destruct (series_split d _ a b Hs) as (psa & psb & E & Ha & Hb & Hc).
    destruct (snoc_cases psb) as [->|(psb' & x & ->)].
    + rewrite app_nil_r in E. subst psa.
      rewrite <- (app_nil_r ps). apply series_join; auto.
      apply (IH ps q a Hq Ha).
    + rewrite app_assoc in E. apply app_inj_tail in E. destruct E as [-> ->].
      destruct Hc as [Hc|Hfull]; [destruct psb'; discriminate|].
      apply series_join; auto. apply (IH psb' x b Hq Hb).
Qed.

Lemma series_drop_zeros d (ps : list (node -> Prop)) k n :
  series d (ps ++ repeat (is_chunk (zh 0)) k) n -> series d ps n.
Proof.
  revert ps. induction k as [|k IH]; intros ps Hs.
  - cbn [repeat] in Hs. rewrite app_nil_r in Hs. exact Hs.
  - apply IH. apply (series_drop_last d _ (is_chunk (zh 0)) n).
    + intros m Hm. exact Hm.
    + rewrite <- app_assoc. rewrite repeat_snoc. exact Hs.
Qed.

(* pop of the last position: overwrite it with the zero leaf *)
Lemma series_pop d ps n e : series d ps n -> ps <> [] ->
  exists n', set_path zh n (bits_msb d (lenN ps - 1)) e (Leaf (zh 0)) = OK n' /\
             series d (removelast ps) n'.
Proof.
  intros Hs Hne. destruct (snoc_cases ps) as [->|(ps' & x & ->)]; [contradiction|].
  rewrite removelast_last.
  destruct (series_set d _ n (lenN (ps' ++ [x]) - 1) e (Leaf (zh 0)) (fun m => m = Leaf (zh 0)) Hs)
    as (n' & Hset & Hs').
  { rewrite lenN_app', lenN_one. lia. }
  { reflexivity. }
  exists n'. split; [exact Hset|].
  replace (nat_of (lenN (ps' ++ [x]) - 1)) with (length ps') in Hs'
    by (rewrite lenN_app', lenN_one; unfold lenN, nat_of; lia).
  rewrite list_set_last in Hs'.
  apply (series_drop_last d ps' _ n' (fun m H => H) Hs').
Qed.

End Series.
