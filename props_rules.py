"""props_rules.py — per-property comparison rules of the correspondence check.

Observations are either free text or space-separated key=value tokens.  The implementation's
observation (harness) and the model's observation (driver) are compared key by key on the
keys both print.  Keys the model prints as spec_<k> are the SSZ specification's value for
key <k>: model <k> != spec_<k> means the property itself fails on the (faithful) model
for that input.
"""
import collections, random, re


def parse_kv(s):
    toks = s.split(" ")
    if not toks or any("=" not in t for t in toks):
        return None
    d = collections.OrderedDict()
    for t in toks:
        k, _, v = t.partition("=")
        d[k] = v
    return d


def tag_of(cid):
    parts = cid.split(":")
    return parts[1] if len(parts) > 2 else ""


# what makes a case non-trivial, per property (default: the implementation did not just
# reject it)
def nontrivial_default(inp, obs):
    return not (obs.startswith("ERR") or obs.startswith("PANIC"))


def _kv(s):
    return dict(t.split("=", 1) for t in s.split(" ") if "=" in t)


def c12_component_ok(full, part):
    """error-or-same: the partial view's result equals the full view's, or is an error;
    iterator results may stop with an error after a correct prefix; a mutation result is
    (root, serialization): the root must be the same, serializing may fail."""
    if part == full or part == "ERR":
        return True
    if "PANIC" in part:
        return False
    if full.startswith("OK_") and part.startswith("OK_") and full.count("_") == 2 and part.count("_") == 2:
        _, fr, fs = full.split("_")
        _, pr, ps = part.split("_")
        return fr == pr and (ps == fs or ps == "ERR")
    ft, pt = full.split(","), part.split(",")
    for k, x in enumerate(pt):
        if x == "ERR":
            continue
        if k >= len(ft) or ft[k] != x:
            return False
    return True


def extra_c12(inp, o, m):
    d = _kv(o)
    if d.get("summ") == "PANIC":
        return "summarising panicked"
    if d.get("summ") != "OK":
        return None
    if not c12_component_ok(d.get("full", ""), d.get("part", "")):
        return "partial view answered %s where the full view answers %s" % (d.get("part", "")[:80], d.get("full", "")[:80])
    dm = _kv(m)
    if dm.get("summ") == "OK" and not c12_component_ok(dm.get("full", ""), dm.get("part", "")):
        return "model: partial answer differs from full answer"
    return None


def extra_c20(inp, o, m):
    d, dm = _kv(o), _kv(m)
    if inp.split("\t")[0] == "c20r":
        try:
            fa, fma, fb = int(d["falloc"], 16), int(dm["fmalloc"], 16), int(dm["fbound"], 16)
        except (KeyError, ValueError):
            return "unparsable allocation figures"
        if fma > fb:
            return "flat model allocation %d exceeds the proved bound %d" % (fma, fb)
        if fa > 4 * fma + 16384:
            return "flat decoder allocated %d bytes into a recycled destination, model charges %d (limit 4x + 16KiB)" % (fa, fma)
        return None
    try:
        ga, fa = int(d["alloc"], 16), int(d["falloc"], 16)
        ma, b = int(dm["malloc"], 16), int(dm["bound"], 16)
    except (KeyError, ValueError):
        return "unparsable allocation figures"
    if ma > b:
        return "model allocation %d exceeds the proved bound %d" % (ma, b)
    if ga > 4 * ma + 16384:
        return "view decoder allocated %d bytes, model charges %d (limit 4x + 16KiB)" % (ga, ma)
    try:
        fma, fb = int(dm["fmalloc"], 16), int(dm["fbound"], 16)
    except (KeyError, ValueError):
        return "unparsable flat allocation figures"
    if fma > fb:
        return "flat model allocation %d exceeds the proved bound %d" % (fma, fb)
    if d.get("fres") and fa > 4 * fma + 16384:
        return "flat decoder allocated %d bytes, model charges %d (limit 4x + 16KiB)" % (fa, fma)
    return None


def extra_c13(inp, o, m):
    # a short or failing stream must never produce a value
    f = inp.split("\t")
    if f[0] == "c13r" and f[-1] != "full" and o.startswith("OK"):
        return "a value was decoded although the stream stopped after 0x%s bytes" % f[-1]
    return None


def rejudge_c07(inp, ko, km):
    """only hash counts differ: the property is violated if the implementation hashed more
    than the model (whose count is proved <= one per level)"""
    if not isinstance(ko, dict):
        return True
    for k, v in ko.items():
        mv = km.get(k)
        if mv is None or mv == v:
            continue
        if "_n" in v and "_n" in mv and v.split("_n")[0] == mv.split("_n")[0]:
            try:
                if int(v.split("_n")[1], 16) > int(mv.split("_n")[1], 16):
                    return True
            except ValueError:
                return True
            continue
        return True
    return False


HIST_NT = lambda inp, obs: obs.count("=OK") >= 3
RULES = {
    "C01": dict(what="hash-tree-root of views built by default / constructors / deserialization / mutation chain, DefaultNode root; both hash configurations; model root vs SSZ spec root"),
    "C02": dict(what="Serialize bytes, ValueByteLength, deserialize -> bytes / root / value read back through the typed getters"),
    "C03": dict(what="view Deserialize accept/reject/panic and re-serialization on exhaustive small strings and structure-aware corruptions",
                nontrivial=lambda inp, obs: obs.startswith("res=OK"),
                nontrivial_text="the implementation accepted the input (the accepted share is reported in outcome_classes)"),
    "C04": dict(what="operation histories on views (incl. retained and nested sub-views): step outcomes, root, bytes, lengths, element reads vs TM, HM and the plain-value machine VM", nontrivial=HIST_NT,
                nontrivial_text="at least three steps of the history succeeded"),
    "C05": dict(what="histories with snapshots before steps and copies: every snapshot re-derived from the raw node structure after every later step", nontrivial=HIST_NT,
                nontrivial_text="at least three steps of the history succeeded"),
    "C06": dict(what="histories with hash-tree-root requests at every subset of positions; every reachable memoised pair re-derived from its children", nontrivial=HIST_NT,
                nontrivial_text="at least three steps of the history succeeded"),
    "C07": dict(what="pair-hash invocation counts: second request, single mutations with pre-hashed values, expanding appends at limits 2^20..2^40", nontrivial=HIST_NT,
                rejudge=rejudge_c07, nontrivial_text="at least three steps of the history succeeded"),
    "C08": dict(what="tree.Merkleize on (count, limit) grids and every flat HashFn helper through a generic flat value; model root vs SSZ spec root; the helpers again from several goroutines on shared read-only values under the race detector",
                race_extra="TestC08Race"),
    "C09": dict(what="flat codec: encoding, ByteLength, decoding into fresh / reused destinations"),
    "C10": dict(what="flat codec decoding accept/reject/panic and re-encoding on exhaustive small strings and corruptions",
                nontrivial=lambda inp, obs: obs.startswith("res=OK"),
                nontrivial_text="the implementation accepted the input"),
    "C11": dict(what="Getter / Setter(expand) / SummarizeInto on enumerated and random trees: outcome, resulting root, pointer identity of every node (canonical numbering), original tree afterwards",
                nontrivial=lambda inp, obs: obs.startswith("res=OK"), nontrivial_text="the navigation succeeded"),
    "C12": dict(what="reads and single mutations on views with 1..3 summarised positions vs the full view (error-or-same)", extra=extra_c12,
                nontrivial=lambda inp, obs: obs.startswith("summ=OK"), nontrivial_text="the positions could be summarised"),
    "C13": dict(what="DecodingReader over scheduled / failing / short readers, EncodingWriter over failing writers (view and flat codecs)", extra=extra_c13,
                nontrivial=lambda inp, obs: True),
    "C14": dict(what="2..16 goroutines each running a history on its own Copy of a fully hashed ancestor under the race detector; per-goroutine observations vs the sequential model", race=True,
                nontrivial=HIST_NT, nontrivial_text="at least three steps of the goroutine's history succeeded",
                trusted=["the Go race detector and memory model (not modelled): data races are detected by go test -race, not proved absent"]),
    "C15": dict(what="IsFixedByteLength / TypeByteLength / MinByteLength / MaxByteLength vs model and SSZ spec sizes",
                nontrivial=lambda inp, obs: True),
    "C16": dict(
        fresh_tests=["TestFirstBitIter", "TestFirstDepth", "TestFirstBitIndex", "TestFirstBitLength", "TestFirstCoverDepth",
                     "TestFirstToGindex", "TestFirstLeftAligned", "TestFirstGetter", "TestFirstSetter", "TestFirstZeroNode"],
        what="every Gindex64 / bit-length method on generated 64-bit values; ToGindex64 on an (index, depth) grid; each entry point again as the first call of a fresh process",
        nontrivial=lambda inp, obs: True,
        assumptions=["uint64 inputs; gindex 0 is included for the arithmetic helpers (documented as invalid)"]),
    "C17": dict(race_extra="TestC17Race", what="ReadonlyIter / Iter (3 extra Next calls each) / Get(i) on every kind of series view; the same reads of ONE view object from six goroutines under the race detector"),
    "C18": dict(
        what="bitlist/bitvector checks and helpers on byte strings x limits",
        nontrivial=lambda inp, obs: True,
        assumptions=["GetBit/SetBit are called only with in-range indices except in the panic stream"]),
    "C19": dict(race_extra="TestC19Race", what="MarshalText/JSON, UnmarshalText/JSON of every uint width, hex marshalling and fixed-size hex decoding; the conversions again from several goroutines under the race detector",
                nontrivial=lambda inp, obs: True),
    "C20": dict(what="bytes allocated per decode call (runtime.MemStats.TotalAlloc) by view and flat decoders on hostile and corrupted inputs vs the model's charge and the proved bound", extra=extra_c20,
                nontrivial=lambda inp, obs: True,
                trusted=["the Go allocator and runtime.MemStats accounting (not modelled): the measured figure is compared with 4x the model's charge + 16KiB"]),
}


def compare(pid, rule, order, ins, obs, mod, known):
    violations, known_hits = [], []
    known_seen = set()
    mism = 0
    agree = 0
    distinct = set()
    nontriv = set()
    tags = collections.Counter()
    classes = collections.Counter()
    nt = rule.get("nontrivial", nontrivial_default)
    rejudge = rule.get("rejudge")
    for cid in order:
        o = obs[cid]
        i = ins.get(cid, "")
        tags[tag_of(cid)] += 1
        classes[o.split(" ")[0] if o.startswith(("OK", "ERR", "PANIC")) else "obs"] += 1
        if i not in distinct:
            distinct.add(i)
            if nt(i, o):
                nontriv.add(i)
        m = mod.get(cid)
        if m is None:
            violations.append(("glue", "model driver produced no output for %s" % cid,
                               dict(kind="driver-missing", case=cid, input=i)))
            continue
        if m.startswith("DRIVER-ERROR"):
            violations.append(("glue", "model driver error on %s: %s" % (cid, m),
                               dict(kind="driver-error", case=cid, input=i, model=m)))
            continue
        diffs = []
        spec_diffs = []
        ko, km = parse_kv(o), parse_kv(m)
        if ko is not None and km is not None:
            for k, v in ko.items():
                if k in km and km[k] != v:
                    diffs.append((k, v, km[k]))
            for k, v in km.items():
                if k.startswith("spec_") and k[5:] in km and km[k[5:]] != v:
                    spec_diffs.append((k[5:], km[k[5:]], v))
        elif o != m:
            diffs.append(("obs", o, m))
        extra = rule.get("extra")
        extra_msg = extra(i, o, m) if extra else None
        if extra_msg:
            mism += 1
            if len(violations) < 25:
                violations.append(("property", "case %s  %s  =>  %s" % (cid, i[:300], extra_msg),
                                   dict(kind="property-relation", case=cid, input=i, implementation=o, model=m,
                                        failing_input=True, note=extra_msg)))
            continue
        if not diffs and not spec_diffs:
            agree += 1
            continue
        mism += 1
        tag = tag_of(cid)
        # known findings: a case generated in the stream of a listed finding, disagreeing in
        # exactly the way the finding describes
        hit = None
        for kf in known:
            if tag == "kf-" + kf["id"] and all(k in kf.get("keys", [k]) for k, _, _ in diffs + spec_diffs):
                hit = kf
        if hit is not None:
            if hit["id"] not in known_seen:
                known_seen.add(hit["id"])
                known_hits.append("%s %s (e.g. %s)" % (hit["id"], hit["what"], i[:160]))
            continue
        failing = True
        if diffs and not spec_diffs and rejudge is not None:
            failing = rejudge(i, ko or o, km or m)
        what = "; ".join("%s: impl=%s model=%s" % d for d in diffs[:4])
        if spec_diffs:
            what += " | model vs SSZ spec: " + "; ".join("%s: model=%s spec=%s" % d for d in spec_diffs[:4])
        if len(violations) < 25:
            violations.append(("mismatch", "case %s  %s  =>  %s" % (cid, i[:300], what[:600]),
                               dict(kind="correspondence" if diffs else "model-vs-spec", case=cid, input=i,
                                    implementation=o, model=m, failing_input=failing,
                                    note="replay: rerun the check with the recorded seed and tier; "
                                         "the case id is stable for a given seed")))
    rnd = random.Random(1)
    samples = [dict(case=c, input=ins.get(c, "")[:2000], implementation=obs[c][:400]) for c in
               (order[:2] + rnd.sample(order, min(4, len(order))))]
    cov = dict(
        evaluations=len(order),
        distinct_nontrivial=len(nontriv),
        distinct_inputs=len(distinct),
        rule="cases are generated by harness/*.go from VERIF_SEED (streams: %s); distinct = distinct "
             "(op, arguments) lines; non-trivial = %s" % (
                 ", ".join("%s:%d" % kv for kv in sorted(tags.items())),
                 rule.get("nontrivial_text", "the implementation accepted the input (observation is not a bare ERR/PANIC)"
                          if "nontrivial" not in rule else "every case (each exercises the compared arithmetic)")),
        samples=samples,
        outcome_classes=dict(classes),
        streams=dict(tags),
        agreements=agree,
        disagreements_checked=mism,
        compared=rule.get("what", ""),
    )
    return dict(coverage=cov, violations=violations, known_hits=known_hits)
