"""props_rules.py — per-property comparison rules of the correspondence check.

Observations are either free text or space-separated key=value tokens.  The implementation's
observation (harness) and the model's observation (driver) are compared key by key on the
keys both print.  Keys the model prints as spec_<k> are the SSZ specification's value for
key <k>: model <k> != spec_<k> means the property itself fails on the (faithful) model
for that input.
"""
import collections, random, re


def parse_kv(s):
    toks = s.split(" ")
    if not toks or any("=" not in t for t in toks):
        return None
    d = collections.OrderedDict()
    for t in toks:
        k, _, v = t.partition("=")
        d[k] = v
    return d


def tag_of(cid):
    parts = cid.split(":")
    return parts[1] if len(parts) > 2 else ""


# what makes a case non-trivial, per property (default: the implementation did not just
# reject it)
def nontrivial_default(inp, obs):
    return not (obs.startswith("ERR") or obs.startswith("PANIC"))


RULES = {
    "C16": dict(
        what="every Gindex64 / bit-length method on generated 64-bit values; ToGindex64 on an (index, depth) grid",
        nontrivial=lambda inp, obs: True,
        assumptions=["uint64 inputs; gindex 0 is included for the arithmetic helpers (documented as invalid)"]),
    "C18": dict(
        what="bitlist/bitvector checks and helpers on byte strings x limits",
        nontrivial=lambda inp, obs: True,
        assumptions=["GetBit/SetBit are called only with in-range indices except in the panic stream"]),
}


def compare(pid, rule, order, ins, obs, mod, known):
    violations, known_hits = [], []
    known_seen = set()
    mism = 0
    agree = 0
    distinct = set()
    nontriv = set()
    tags = collections.Counter()
    classes = collections.Counter()
    nt = rule.get("nontrivial", nontrivial_default)
    rejudge = rule.get("rejudge")
    for cid in order:
        o = obs[cid]
        i = ins.get(cid, "")
        tags[tag_of(cid)] += 1
        classes[o.split(" ")[0] if o.startswith(("OK", "ERR", "PANIC")) else "obs"] += 1
        if i not in distinct:
            distinct.add(i)
            if nt(i, o):
                nontriv.add(i)
        m = mod.get(cid)
        if m is None:
            violations.append(("glue", "model driver produced no output for %s" % cid,
                               dict(kind="driver-missing", case=cid, input=i)))
            continue
        if m.startswith("DRIVER-ERROR"):
            violations.append(("glue", "model driver error on %s: %s" % (cid, m),
                               dict(kind="driver-error", case=cid, input=i, model=m)))
            continue
        diffs = []
        spec_diffs = []
        ko, km = parse_kv(o), parse_kv(m)
        if ko is not None and km is not None:
            for k, v in ko.items():
                if k in km and km[k] != v:
                    diffs.append((k, v, km[k]))
            for k, v in km.items():
                if k.startswith("spec_") and k[5:] in km and km[k[5:]] != v:
                    spec_diffs.append((k[5:], km[k[5:]], v))
        elif o != m:
            diffs.append(("obs", o, m))
        if not diffs and not spec_diffs:
            agree += 1
            continue
        mism += 1
        tag = tag_of(cid)
        # known findings: a case generated in the stream of a listed finding, disagreeing in
        # exactly the way the finding describes
        hit = None
        for kf in known:
            if tag == "kf-" + kf["id"] and all(k in kf.get("keys", [k]) for k, _, _ in diffs + spec_diffs):
                hit = kf
        if hit is not None:
            if hit["id"] not in known_seen:
                known_seen.add(hit["id"])
                known_hits.append("%s %s (e.g. %s)" % (hit["id"], hit["what"], i[:160]))
            continue
        failing = True
        if diffs and not spec_diffs and rejudge is not None:
            failing = rejudge(i, ko or o, km or m)
        what = "; ".join("%s: impl=%s model=%s" % d for d in diffs[:4])
        if spec_diffs:
            what += " | model vs SSZ spec: " + "; ".join("%s: model=%s spec=%s" % d for d in spec_diffs[:4])
        if len(violations) < 25:
            violations.append(("mismatch", "case %s  %s  =>  %s" % (cid, i[:300], what[:600]),
                               dict(kind="correspondence" if diffs else "model-vs-spec", case=cid, input=i,
                                    implementation=o, model=m, failing_input=failing,
                                    note="replay: rerun the check with the recorded seed and tier; "
                                         "the case id is stable for a given seed")))
    rnd = random.Random(1)
    samples = [dict(case=c, input=ins.get(c, ""), implementation=obs[c][:400]) for c in
               (order[:2] + rnd.sample(order, min(4, len(order))))]
    cov = dict(
        evaluations=len(order),
        distinct_nontrivial=len(nontriv),
        distinct_inputs=len(distinct),
        rule="cases are generated by harness/*.go from VERIF_SEED (streams: %s); distinct = distinct "
             "(op, arguments) lines; non-trivial = %s" % (
                 ", ".join("%s:%d" % kv for kv in sorted(tags.items())),
                 rule.get("nontrivial_text", "the implementation accepted the input (observation is not a bare ERR/PANIC)"
                          if "nontrivial" not in rule else "every case (each exercises the compared arithmetic)")),
        samples=samples,
        outcome_classes=dict(classes),
        streams=dict(tags),
        agreements=agree,
        disagreements_checked=mism,
        compared=rule.get("what", ""),
    )
    return dict(coverage=cov, violations=violations, known_hits=known_hits)
