//go:build verif

// Package first: what an entry point of the tree package answers when it is the FIRST thing a
// process asks of the library (nothing else has run that could have warmed a lazily built
// table).  Every test here is run in a process of its own (check.py, rule "fresh_tests");
// this package imports nothing but tree.  The expected answers are the integer definitions the
// C16 theorems state (bit length, binary expansion), written out independently below.
package first

import (
	"testing"

	"github.com/protolambda/ztyp/tree"
)

var values = []uint64{1, 2, 3, 4, 5, 6, 7, 12, 13, 255, 256, 257, 1 << 20, 1<<20 + 12345, 1<<40 + 7, 1 << 62, 1<<63 + 5, ^uint64(0)}

func bitLen(v uint64) (n uint32) {
	for ; v != 0; v >>= 1 {
		n++
	}
	return
}

func pathBits(v uint64) (out []bool) {
	for i := int(bitLen(v)) - 2; i >= 0; i-- {
		out = append(out, v&(uint64(1)<<uint(i)) != 0)
	}
	return
}

func TestFirstBitIter(t *testing.T) {
	for _, v := range values {
		it, d := tree.Gindex64(v).BitIter()
		want := pathBits(v)
		if int(d) != len(want) {
			t.Fatalf("BitIter(%x): depth %d, want %d", v, d, len(want))
		}
		for i, w := range want {
			r, ok := it.Next()
			if !ok || r != w {
				t.Fatalf("BitIter(%x): bit %d = (%v,%v), want (%v,true)", v, i, r, ok, w)
			}
		}
		if _, ok := it.Next(); ok {
			t.Fatalf("BitIter(%x): no end after %d bits", v, len(want))
		}
	}
}

func leaf(b byte) *tree.Root { return &tree.Root{b} }

func TestFirstGetter(t *testing.T) {
	l := []*tree.Root{leaf(1), leaf(2), leaf(3), leaf(4)}
	n := tree.NewPairNode(tree.NewPairNode(l[0], l[1]), tree.NewPairNode(l[2], l[3]))
	for g := uint64(4); g < 8; g++ {
		got, err := n.Getter(tree.Gindex64(g))
		if err != nil || got != tree.Node(l[g-4]) {
			t.Fatalf("Getter(%d) = %v, %v", g, got, err)
		}
	}
}

func TestFirstSetter(t *testing.T) {
	l := []*tree.Root{leaf(1), leaf(2), leaf(3), leaf(4)}
	n := tree.NewPairNode(tree.NewPairNode(l[0], l[1]), tree.NewPairNode(l[2], l[3]))
	v := leaf(9)
	link, err := n.Setter(tree.Gindex64(6), false)
	if err != nil {
		t.Fatal(err)
	}
	n2, err := link(v)
	if err != nil {
		t.Fatal(err)
	}
	if got, err := n2.Getter(tree.Gindex64(6)); err != nil || got != tree.Node(v) {
		t.Fatalf("read-back after Setter(6): %v, %v", got, err)
	}
	if got, err := n2.Getter(tree.Gindex64(5)); err != nil || got != tree.Node(l[1]) {
		t.Fatalf("off-path node after Setter(6): %v, %v", got, err)
	}
}

func TestFirstDepth(t *testing.T) {
	for _, v := range values {
		if d := tree.Gindex64(v).Depth(); d != bitLen(v)-1 {
			t.Fatalf("Depth(%x) = %d", v, d)
		}
	}
}

func TestFirstBitIndex(t *testing.T) {
	for _, v := range values {
		if d := tree.BitIndex(v); uint32(d) != bitLen(v)-1 {
			t.Fatalf("BitIndex(%x) = %d", v, d)
		}
	}
}

func TestFirstBitLength(t *testing.T) {
	for _, v := range append([]uint64{0}, values...) {
		if d := tree.BitLength(v); uint32(d) != bitLen(v) {
			t.Fatalf("BitLength(%x) = %d", v, d)
		}
	}
}

func TestFirstCoverDepth(t *testing.T) {
	for _, v := range append([]uint64{0}, values...) {
		want := uint32(0)
		if v > 1 {
			want = bitLen(v - 1)
		}
		if d := tree.CoverDepth(v); uint32(d) != want {
			t.Fatalf("CoverDepth(%x) = %d, want %d", v, d, want)
		}
	}
}

func TestFirstToGindex(t *testing.T) {
	for d := uint8(0); d < 64; d++ {
		for _, i := range []uint64{0, 1, 5, 1<<d - 1} {
			if i >= uint64(1)<<d {
				continue
			}
			g, err := tree.ToGindex64(i, d)
			if err != nil || uint64(g) != uint64(1)<<d|i {
				t.Fatalf("ToGindex64(%d, %d) = %x, %v", i, d, uint64(g), err)
			}
		}
	}
}

func TestFirstLeftAligned(t *testing.T) {
	for _, v := range values {
		data, n := tree.Gindex64(v).LeftAlignedBigEndian()
		if n != bitLen(v) || len(data) != int(n+7)/8 {
			t.Fatalf("LeftAlignedBigEndian(%x): %x, %d", v, data, n)
		}
		for i := uint32(0); i < n; i++ {
			want := v&(uint64(1)<<(n-1-i)) != 0
			if got := data[i>>3]&(0x80>>(i&7)) != 0; got != want {
				t.Fatalf("LeftAlignedBigEndian(%x): bit %d", v, i)
			}
		}
	}
}

func TestFirstZeroNode(t *testing.T) {
	h := tree.GetHashFn()
	z := tree.Root{}
	for d := uint32(0); d < 10; d++ {
		if got := tree.ZeroNode(d).MerkleRoot(h); got != z {
			t.Fatalf("ZeroNode(%d)", d)
		}
		z = h(z, z)
	}
}
