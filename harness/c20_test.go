//go:build verif

package verifharness

import (
	"encoding/binary"
	"runtime"
	"testing"
)

func measureOnce(f func()) uint64 {
	var a, b runtime.MemStats
	runtime.ReadMemStats(&a)
	f()
	runtime.ReadMemStats(&b)
	return b.TotalAlloc - a.TotalAlloc
}

// measure returns the bytes allocated by f.  TotalAlloc is process-wide, so allocations of the
// runtime's own background work (GC workers starting, profiling buffers) can land inside the
// window; decoding is deterministic, so the minimum over a few repetitions removes them.  A
// call that allocates more than 1 MiB is not repeated.
func measure(f func()) uint64 {
	m := measureOnce(f)
	for i := 0; i < 3 && m > 64 && m <= 1<<20; i++ {
		if x := measureOnce(f); x < m {
			m = x
		}
	}
	return m
}

func TestC20(t *testing.T) {
	out := openOut(t, "C20")
	defer out.close()
	blown := 0
	do := func(tag string, ty *Ty, data []byte) {
		if isLeafTy(ty) {
			return
		}
		// once a few decodes have allocated hundreds of megabytes the finding is made: do not
		// keep allocating gigabytes for the rest of the stream
		if blown >= 3 {
			return
		}
		var res string
		va := measure(func() {
			res = guard(func() string {
				_, err := deserialize(ty, data)
				if err != nil {
					return "ERR"
				}
				return "OK"
			})
		})
		fa := uint64(0)
		fres := ""
		if !ty.IsFixed() {
			fa = measure(func() {
				fres = guard(func() string {
					if err := flatDecode(newFlat(ty), data); err != nil {
						return "ERR"
					}
					return "OK"
				})
			})
		}
		if va > 1<<27 || fa > 1<<27 {
			blown++
			runtime.GC()
		}
		kv := []string{"res=" + res, "alloc=" + hx(va), "falloc=" + hx(fa)}
		if fres != "" {
			kv = append(kv, "fres="+fres)
		}
		out.emit(tag, "c20", []string{ty.Sexp(), hexBytes(data)}, joinKV(kv...))
	}
	u8 := &Ty{Kind: "u", N: 1}
	big := []*Ty{
		{Kind: "list", Elem: &Ty{Kind: "list", Elem: u8, N: 1 << 40}, N: 1 << 40},
		{Kind: "list", Elem: &Ty{Kind: "bitlist", N: 1 << 40}, N: 1 << 32},
		{Kind: "list", Elem: &Ty{Kind: "cont", Fields: []*Ty{{Kind: "list", Elem: u8, N: 1 << 40}, {Kind: "u", N: 8}}}, N: 1 << 40},
		{Kind: "cont", Fields: []*Ty{{Kind: "list", Elem: &Ty{Kind: "u", N: 8}, N: 1 << 40}, {Kind: "bitlist", N: 1 << 40}}},
		{Kind: "list", Elem: &Ty{Kind: "u", N: 8}, N: 1 << 40},
		{Kind: "list", Elem: &Ty{Kind: "root"}, N: 1 << 40},
		{Kind: "bitlist", N: 1 << 40},
		{Kind: "union", None: true, Fields: []*Ty{{Kind: "list", Elem: &Ty{Kind: "list", Elem: u8, N: 1 << 40}, N: 1 << 40}}},
		{Kind: "vec", Elem: &Ty{Kind: "list", Elem: &Ty{Kind: "list", Elem: u8, N: 1 << 32}, N: 1 << 32}, N: 3},
	}
	words := []uint32{0, 4, 8, 12, 16, 20, 0x0ffffffc, 0xfffffffc, 0x7ffffffc, 0x100, 1 << 20, 1 << 24, 0xfffffff8}
	// offset words that make small multiples wrap in uint32: 2^k, and 2^32*j/k rounded to a
	// multiple of 4 (and the next one)
	for k := uint(2); k < 32; k++ {
		words = append(words, uint32(1)<<k)
	}
	maxK := uint64(6)
	if thorough() {
		maxK = 17
	}
	for k := uint64(2); k <= maxK; k++ {
		for j := uint64(1); j < k; j++ {
			w := uint32(((uint64(1) << 32) * j / k) &^ 3)
			words = append(words, w, w+4)
		}
	}
	// element types with minimal encodings of 4*(2^k - 1) bytes (k = 1..12) and a few odd ones
	for _, m := range []uint64{1, 4, 5, 12, 28, 60, 124, 252, 508, 1020, 2044, 4092, 8188, 16380} {
		var e *Ty
		if m == 1 {
			e = &Ty{Kind: "bitlist", N: 1 << 20}
		} else {
			e = &Ty{Kind: "cont", Fields: []*Ty{{Kind: "vec", Elem: u8, N: m - 4}, {Kind: "list", Elem: u8, N: 16}}}
			if m == 4 {
				e = &Ty{Kind: "cont", Fields: []*Ty{{Kind: "list", Elem: u8, N: 16}}}
			}
		}
		big = append(big, &Ty{Kind: "list", Elem: e, N: 1 << 40})
	}
	for _, ty := range big {
		for _, w := range words {
			for ti, tail := range [][]byte{nil, {1}, {1, 2, 3, 4}, {4, 0, 0, 0, 1}, make([]byte, 12), {0xfc, 0xff, 0xff, 0x0f, 0xfc, 0xff, 0xff, 0x0f}} {
				d := make([]byte, 4)
				binary.LittleEndian.PutUint32(d, w)
				do("hostile", ty, append(d, tail...))
				if ti < 2 || thorough() {
					do("hostile", ty, append([]byte{0}, append(d, tail...)...))
					do("hostile", ty, append([]byte{1}, append(d, tail...)...))
				}
			}
		}
	}
	// nested series with large inner limits, valid values, every offset word bumped a little:
	// an offset that points slightly past its series makes sibling / following data stand in for
	// elements, and a later scope computation may wrap
	{
		gb := &gen{r: newRng(2021), maxElem: 3, noBool: true}
		u8 := &Ty{Kind: "u", N: 1}
		inner := &Ty{Kind: "list", Elem: &Ty{Kind: "list", Elem: u8, N: 32}, N: 1 << 22}
		nested := []*Ty{
			{Kind: "cont", Fields: []*Ty{{Kind: "list", Elem: inner, N: 8}, {Kind: "list", Elem: u8, N: 64}}},
			{Kind: "list", Elem: inner, N: 8},
			{Kind: "cont", Fields: []*Ty{{Kind: "vec", Elem: inner, N: 3}, {Kind: "bitlist", N: 1 << 30}}},
			{Kind: "list", Elem: &Ty{Kind: "cont", Fields: []*Ty{inner, {Kind: "list", Elem: &Ty{Kind: "u", N: 8}, N: 1 << 30}}}, N: 4},
		}
		for _, ty := range nested {
			for k := 0; k < 6; k++ {
				v := gb.val(ty)
				vw, err := buildViewSafe(ty, v)
				if err != nil {
					continue
				}
				data, err := serializeView(vw)
				if err != nil || len(data) > 300 {
					continue
				}
				do("nested", ty, data)
				for i := 0; i+4 <= len(data); i += 4 {
					w := binary.LittleEndian.Uint32(data[i:])
					for _, d := range []uint32{1, 2, 4, 8, 12} {
						if !thorough() && d != 4 && (i/4+int(d))%3 != 0 {
							continue
						}
						c := append([]byte{}, data...)
						binary.LittleEndian.PutUint32(c[i:], w+d)
						do("offbump", ty, c)
						if d != 4 && d != 8 {
							continue
						}
						// ... and a later word made to look like a huge first offset: what a
						// decoder that strays past its series would read as an inner table size
						padded := append(append([]byte{}, c...), make([]byte, 12)...)
						for j := i + 4; j+4 <= len(padded); j += 4 {
							for _, hw := range []uint32{4 << 22, 1 << 24, 0x0ffffffc} {
								if !thorough() && hw != 4<<22 && (i+j)%8 != 0 {
									continue
								}
								c2 := append([]byte{}, padded...)
								binary.LittleEndian.PutUint32(c2[j:], hw)
								do("offbump2", ty, c2)
								do("offbump2", ty, c2[:len(c)])
							}
						}
					}
				}
			}
		}
	}
	// recycled destinations: a flat value that already holds something (small capacities) decodes
	// a longer input; only the bytes needed may be allocated, not the declared limit
	{
		gr := &gen{r: newRng(2020), maxElem: 3, noBool: true}
		u8 := &Ty{Kind: "u", N: 1}
		reuse := []*Ty{
			{Kind: "list", Elem: u8, N: 1 << 26}, {Kind: "list", Elem: u8, N: 1 << 40},
			{Kind: "bitlist", N: 1 << 29}, {Kind: "bitlist", N: 1 << 40},
			{Kind: "list", Elem: &Ty{Kind: "root"}, N: 1 << 24},
			{Kind: "cont", Fields: []*Ty{{Kind: "list", Elem: u8, N: 1 << 26}, {Kind: "bitlist", N: 1 << 29}, {Kind: "u", N: 8}}},
			{Kind: "list", Elem: &Ty{Kind: "list", Elem: u8, N: 1 << 26}, N: 1 << 26},
			{Kind: "union", None: true, Fields: []*Ty{{Kind: "list", Elem: u8, N: 1 << 26}}},
			{Kind: "vec", Elem: &Ty{Kind: "bitlist", N: 1 << 29}, N: 2},
		}
		for _, ty := range reuse {
			for k := 0; k < 12; k++ {
				prev := gr.val(ty)
				gl := &gen{r: gr.r, maxElem: 3 + 40*(k%3), noBool: true}
				next := gl.val(ty)
				data, err := flatEncode(flatOf(ty, next))
				if err != nil {
					continue
				}
				if blown >= 3 {
					break
				}
				var fres string
				fa := measure(func() {
					// the destination is rebuilt for every repetition of the measurement
					// (its construction is part of the window; it is small)
					dst := flatOf(ty, prev)
					fres = guard(func() string {
						if err := flatDecode(dst, data); err != nil {
							return "ERR"
						}
						return "OK"
					})
				})
				if fa > 1<<22 {
					// megabytes for inputs of at most a few hundred bytes: the finding is made
					blown++
					runtime.GC()
				}
				out.emit("reuse", "c20r", []string{ty.Sexp(), hexBytes(data), prev.Sexp()}, joinKV("falloc="+hx(fa), "fres="+fres))
			}
		}
	}
	// honest inputs of megabytes: the allocation must stay a constant multiple of the input
	// at every size (nothing that grows with the square of the length, block by block)
	{
		rb := newRng(2022)
		u8 := &Ty{Kind: "u", N: 1}
		sizes := []int{1<<20 + 5, 4<<20 + 3}
		if thorough() {
			sizes = append(sizes, 8<<20+1)
		}
		for _, n := range sizes {
			body := make([]byte, n)
			rb.Read(body)
			do("mega", &Ty{Kind: "list", Elem: u8, N: 1 << 40}, body)
			if n < 2<<20 || thorough() {
				// (List[uint64] of this size is left out: the model's element decoding is quadratic)
				do("mega", &Ty{Kind: "cont", Fields: []*Ty{{Kind: "list", Elem: u8, N: 1 << 40}, u8}}, append([]byte{5, 0, 0, 0, 1}, body...))
			}
		}
	}
	// many small values of a union whose OTHER option is large: what a decoded element costs must
	// not depend on options it does not select
	{
		u8, u64 := &Ty{Kind: "u", N: 1}, &Ty{Kind: "u", N: 8}
		row := &Ty{Kind: "cont"}
		for i := 0; i < 24; i++ {
			row.Fields = append(row.Fields, u64)
		}
		bigT := &Ty{Kind: "cont"}
		for i := 0; i < 24; i++ {
			bigT.Fields = append(bigT.Fields, row)
		}
		for _, uty := range []*Ty{
			{Kind: "union", Fields: []*Ty{bigT, u8}},
			{Kind: "union", Fields: []*Ty{u8, bigT}},
			{Kind: "union", None: true, Fields: []*Ty{bigT, u8}},
		} {
			ty := &Ty{Kind: "list", Elem: uty, N: 1 << 40}
			sel := byte(1)
			if uty.Fields[0] == u8 && !uty.None {
				sel = 0
			} else if uty.None {
				sel = 2
			}
			cnt := 1500
			data := make([]byte, 0, 6*cnt)
			for i := 0; i < cnt; i++ {
				off := uint32(4*cnt + 2*i)
				data = append(data, byte(off), byte(off>>8), byte(off>>16), byte(off>>24))
			}
			for i := 0; i < cnt; i++ {
				data = append(data, sel, byte(i))
			}
			do("unionbig", ty, data)
		}
	}
	n := 150
	if thorough() {
		n = 3000
	}
	maxPos := 4
	if thorough() {
		maxPos = 25
	}
	g := &gen{r: newRng(20), maxElem: 12}
	for k := 0; k < n; k++ {
		ty := g.ty(1 + g.r.Intn(3))
		if isLeafTy(ty) {
			continue
		}
		v := g.val(ty)
		vw, err := buildViewSafe(ty, v)
		if err != nil {
			continue
		}
		data, err := serializeView(vw)
		if err != nil || len(data) > 400 {
			continue
		}
		do("valid", ty, data)
		corrupt(g.r, data, maxPos, func(tag string, d []byte) { do(tag, ty, d) })
	}
}
