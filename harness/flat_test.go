//go:build verif

package verifharness

import (
	"bytes"
	"encoding/binary"
	"fmt"
	"math/big"
	"strings"

	"github.com/protolambda/ztyp/codec"
	"github.com/protolambda/ztyp/tree"
	"github.com/protolambda/ztyp/view"
)

// Flat is a plain Go value assembled from the codec helpers the way downstream users
// (zrnt) assemble theirs.  Which helper serves which type is documented in coq/Codec.v.
type Flat interface {
	codec.Serializable
	codec.Deserializable
	tree.HTR
	Read() string // the current value as a val s-expression
}

// ---- basic leaves: the library's own basic values ----
type fU8 struct{ v view.Uint8View }
type fU16 struct{ v view.Uint16View }
type fU32 struct{ v view.Uint32View }
type fU64 struct{ v view.Uint64View }
type fU256 struct{ v view.Uint256View }
type fBool struct{ v view.BoolView }
type fRoot struct{ v tree.Root }

func (f *fU8) Serialize(w *codec.EncodingWriter) error    { return f.v.Serialize(w) }
func (f *fU8) Deserialize(r *codec.DecodingReader) error  { return f.v.Deserialize(r) }
func (f *fU8) ByteLength() uint64                         { return f.v.ByteLength() }
func (f *fU8) FixedLength() uint64                        { return f.v.FixedLength() }
func (f *fU8) HashTreeRoot(h tree.HashFn) tree.Root       { return f.v.HashTreeRoot(h) }
func (f *fU8) Read() string                               { return "(n " + hx(uint64(f.v)) + ")" }
func (f *fU16) Serialize(w *codec.EncodingWriter) error   { return f.v.Serialize(w) }
func (f *fU16) Deserialize(r *codec.DecodingReader) error { return f.v.Deserialize(r) }
func (f *fU16) ByteLength() uint64                        { return f.v.ByteLength() }
func (f *fU16) FixedLength() uint64                       { return f.v.FixedLength() }
func (f *fU16) HashTreeRoot(h tree.HashFn) tree.Root      { return f.v.HashTreeRoot(h) }
func (f *fU16) Read() string                              { return "(n " + hx(uint64(f.v)) + ")" }
func (f *fU32) Serialize(w *codec.EncodingWriter) error   { return f.v.Serialize(w) }
func (f *fU32) Deserialize(r *codec.DecodingReader) error { return f.v.Deserialize(r) }
func (f *fU32) ByteLength() uint64                        { return f.v.ByteLength() }
func (f *fU32) FixedLength() uint64                       { return f.v.FixedLength() }
func (f *fU32) HashTreeRoot(h tree.HashFn) tree.Root      { return f.v.HashTreeRoot(h) }
func (f *fU32) Read() string                              { return "(n " + hx(uint64(f.v)) + ")" }
func (f *fU64) Serialize(w *codec.EncodingWriter) error   { return f.v.Serialize(w) }
func (f *fU64) Deserialize(r *codec.DecodingReader) error { return f.v.Deserialize(r) }
func (f *fU64) ByteLength() uint64                        { return f.v.ByteLength() }
func (f *fU64) FixedLength() uint64                       { return f.v.FixedLength() }
func (f *fU64) HashTreeRoot(h tree.HashFn) tree.Root      { return f.v.HashTreeRoot(h) }
func (f *fU64) Read() string                              { return "(n " + hx(uint64(f.v)) + ")" }
func (f *fU256) Serialize(w *codec.EncodingWriter) error  { return f.v.Serialize(w) }
func (f *fU256) Deserialize(r *codec.DecodingReader) error {
	return f.v.Deserialize(r)
}
func (f *fU256) ByteLength() uint64                   { return f.v.ByteLength() }
func (f *fU256) FixedLength() uint64                  { return f.v.FixedLength() }
func (f *fU256) HashTreeRoot(h tree.HashFn) tree.Root { return f.v.HashTreeRoot(h) }
func (f *fU256) Read() string {
	b := f.v.Bytes32()
	be := make([]byte, 32)
	for i := 0; i < 32; i++ {
		be[i] = b[31-i]
	}
	return "(n " + new(big.Int).SetBytes(be).Text(16) + ")"
}
func (f *fBool) Serialize(w *codec.EncodingWriter) error   { return f.v.Serialize(w) }
func (f *fBool) Deserialize(r *codec.DecodingReader) error { return f.v.Deserialize(r) }
func (f *fBool) ByteLength() uint64                        { return f.v.ByteLength() }
func (f *fBool) FixedLength() uint64                       { return f.v.FixedLength() }
func (f *fBool) HashTreeRoot(h tree.HashFn) tree.Root      { return f.v.HashTreeRoot(h) }
func (f *fBool) Read() string                              { return "(b " + b01(bool(f.v)) + ")" }
func (f *fRoot) Serialize(w *codec.EncodingWriter) error   { return f.v.Serialize(w) }
func (f *fRoot) Deserialize(r *codec.DecodingReader) error { return f.v.Deserialize(r) }
func (f *fRoot) ByteLength() uint64                        { return f.v.ByteLength() }
func (f *fRoot) FixedLength() uint64                       { return f.v.FixedLength() }
func (f *fRoot) HashTreeRoot(h tree.HashFn) tree.Root      { return f.v.HashTreeRoot(h) }
func (f *fRoot) Read() string                              { return "(x " + hexBytes(f.v[:]) + ")" }

// ---- byte / bit collections ----
type fByteVec struct {
	b     []byte
	n     uint64
	asSeq bool // Vector[uint8,n] (value printed as a seq) vs BytesN
}

func (f *fByteVec) Serialize(w *codec.EncodingWriter) error   { return w.Write(f.b) }
func (f *fByteVec) Deserialize(r *codec.DecodingReader) error { return r.ByteVector(&f.b, f.n) }
func (f *fByteVec) ByteLength() uint64                        { return f.n }
func (f *fByteVec) FixedLength() uint64                       { return f.n }
func (f *fByteVec) HashTreeRoot(h tree.HashFn) tree.Root      { return h.ByteVectorHTR(f.b) }
func (f *fByteVec) Read() string {
	if f.asSeq {
		return bytesAsSeq(f.b)
	}
	return "(x " + hexBytes(f.b) + ")"
}

func bytesAsSeq(b []byte) string {
	var sb strings.Builder
	sb.WriteString("(seq")
	for _, x := range b {
		sb.WriteString(" (n " + hx(uint64(x)) + ")")
	}
	sb.WriteString(")")
	return sb.String()
}

type fByteList struct {
	b     []byte
	limit uint64
}

func (f *fByteList) Serialize(w *codec.EncodingWriter) error   { return w.Write(f.b) }
func (f *fByteList) Deserialize(r *codec.DecodingReader) error { return r.ByteList(&f.b, f.limit) }
func (f *fByteList) ByteLength() uint64                        { return uint64(len(f.b)) }
func (f *fByteList) FixedLength() uint64                       { return 0 }
func (f *fByteList) HashTreeRoot(h tree.HashFn) tree.Root      { return h.ByteListHTR(f.b, f.limit) }
func (f *fByteList) Read() string                              { return bytesAsSeq(f.b) }

type fBitVec struct {
	b []byte
	n uint64
}

func (f *fBitVec) Serialize(w *codec.EncodingWriter) error   { return w.BitVector(f.b) }
func (f *fBitVec) Deserialize(r *codec.DecodingReader) error { return r.BitVector(&f.b, f.n) }
func (f *fBitVec) ByteLength() uint64                        { return (f.n + 7) / 8 }
func (f *fBitVec) FixedLength() uint64                       { return (f.n + 7) / 8 }
func (f *fBitVec) HashTreeRoot(h tree.HashFn) tree.Root      { return h.BitVectorHTR(f.b) }
func (f *fBitVec) Read() string                              { return bitsSexp(f.b, f.n) }

func bitsSexp(b []byte, n uint64) string {
	if n == 0 {
		return "(bits -)"
	}
	var sb strings.Builder
	for i := uint64(0); i < n; i++ {
		sb.WriteString(b01((b[i>>3]>>(i&7))&1 == 1))
	}
	return "(bits " + sb.String() + ")"
}

type fBitList struct {
	b     []byte
	limit uint64
}

func (f *fBitList) Serialize(w *codec.EncodingWriter) error   { return w.BitList(f.b) }
func (f *fBitList) Deserialize(r *codec.DecodingReader) error { return r.BitList(&f.b, f.limit) }
func (f *fBitList) ByteLength() uint64                        { return uint64(len(f.b)) }
func (f *fBitList) FixedLength() uint64                       { return 0 }
func (f *fBitList) HashTreeRoot(h tree.HashFn) tree.Root      { return h.BitListHTR(f.b, f.limit) }
func (f *fBitList) Read() string {
	if len(f.b) == 0 {
		return "(bits -)"
	}
	last := f.b[len(f.b)-1]
	n := uint64(len(f.b)-1) * 8
	for k := 7; k >= 0; k-- {
		if last&(1<<uint(k)) != 0 {
			n += uint64(k)
			break
		}
	}
	return bitsSexp(f.b, n)
}

// ---- List[Root, n] through ReadRootsLimited / WriteRoots ----
type fRootList struct {
	roots []tree.Root
	limit uint64
}

func (f *fRootList) Serialize(w *codec.EncodingWriter) error { return tree.WriteRoots(w, f.roots) }
func (f *fRootList) Deserialize(r *codec.DecodingReader) error {
	return tree.ReadRootsLimited(r, &f.roots, f.limit)
}
func (f *fRootList) ByteLength() uint64  { return uint64(len(f.roots)) * 32 }
func (f *fRootList) FixedLength() uint64 { return 0 }
func (f *fRootList) HashTreeRoot(h tree.HashFn) tree.Root {
	return h.ComplexListHTR(func(i uint64) tree.HTR { return &f.roots[i] }, uint64(len(f.roots)), f.limit)
}
func (f *fRootList) Read() string {
	var sb strings.Builder
	sb.WriteString("(seq")
	for _, r := range f.roots {
		sb.WriteString(" (x " + hexBytes(r[:]) + ")")
	}
	sb.WriteString(")")
	return sb.String()
}

// ---- generic series ----
type fSeries struct {
	t     *Ty // vec or list
	elems []Flat
}

func (f *fSeries) elemFixed() uint64 { return flatFixedLen(f.t.Elem) }

// reAdapter is ONE serializable object that the item callback re-points at element i on every
// call (callers that adapt their own element type often do this): what item(i) returned is only
// good until the next call.
type reAdapter struct{ cur Flat }

func (a *reAdapter) Serialize(w *codec.EncodingWriter) error { return a.cur.Serialize(w) }
func (a *reAdapter) ByteLength() uint64                      { return a.cur.ByteLength() }
func (a *reAdapter) FixedLength() uint64                     { return a.cur.FixedLength() }

func (f *fSeries) Serialize(w *codec.EncodingWriter) error {
	item := func(i uint64) codec.Serializable { return f.elems[i] }
	if len(f.elems)%2 == 1 {
		ad := &reAdapter{}
		item = func(i uint64) codec.Serializable {
			ad.cur = f.elems[i]
			return ad
		}
	}
	if f.t.Kind == "vec" {
		return w.Vector(item, f.elemFixed(), uint64(len(f.elems)))
	}
	return w.List(item, f.elemFixed(), uint64(len(f.elems)))
}
func (f *fSeries) Deserialize(r *codec.DecodingReader) error {
	if f.t.Kind == "vec" {
		return r.Vector(func(i uint64) codec.Deserializable { return f.elems[i] }, f.elemFixed(), f.t.N)
	}
	f.elems = f.elems[:0]
	return r.List(func() codec.Deserializable {
		e := newFlat(f.t.Elem)
		f.elems = append(f.elems, e)
		return e
	}, f.elemFixed(), f.t.N)
}
func (f *fSeries) ByteLength() uint64 {
	if fx := f.elemFixed(); fx != 0 {
		return uint64(len(f.elems)) * fx
	}
	out := uint64(0)
	for _, e := range f.elems {
		out += 4 + e.ByteLength()
	}
	return out
}
func (f *fSeries) FixedLength() uint64 {
	if f.t.Kind == "vec" {
		if fx := f.elemFixed(); fx != 0 {
			return f.t.N * fx
		}
	}
	return 0
}
func (f *fSeries) HashTreeRoot(h tree.HashFn) tree.Root {
	e := f.t.Elem
	n := uint64(len(f.elems))
	switch {
	case e.Kind == "u" && e.N == 8:
		get := func(i uint64) uint64 { return uint64(f.elems[i].(*fU64).v) }
		if f.t.Kind == "vec" {
			return h.Uint64VectorHTR(get, n)
		}
		return h.Uint64ListHTR(get, n, f.t.N)
	case e.Kind == "u" || e.Kind == "bool":
		// user-side packing through ChunksHTR
		var buf bytes.Buffer
		for _, x := range f.elems {
			_ = x.Serialize(codec.NewEncodingWriter(&buf))
		}
		data := buf.Bytes()
		chunks := (uint64(len(data)) + 31) / 32
		leaf := func(i uint64) (out tree.Root) {
			copy(out[:], data[i*32:])
			return
		}
		if f.t.Kind == "vec" {
			return h.ChunksHTR(leaf, chunks, chunks)
		}
		w := uint64(1)
		if e.Kind == "u" {
			w = e.N
		}
		return h.Mixin(h.ChunksHTR(leaf, chunks, (f.t.N*w+31)/32), n)
	}
	series := func(i uint64) tree.HTR { return f.elems[i] }
	if f.t.Kind == "vec" {
		return h.ComplexVectorHTR(series, n)
	}
	return h.ComplexListHTR(series, n, f.t.N)
}
func (f *fSeries) Read() string {
	var sb strings.Builder
	sb.WriteString("(seq")
	for _, e := range f.elems {
		sb.WriteString(" " + e.Read())
	}
	sb.WriteString(")")
	return sb.String()
}

// ---- container ----
type fCont struct {
	t      *Ty
	fields []Flat
	// the field lists handed to the codec are kept by the object (as a hand-written type with a
	// `fields` slice would) and passed with `...` on every call: they belong to the caller
	serKept []codec.Serializable
	desKept []codec.Deserializable
}

func (f *fCont) ser() []codec.Serializable {
	if len(f.serKept) != len(f.fields) {
		f.serKept = make([]codec.Serializable, len(f.fields))
		for i, x := range f.fields {
			f.serKept[i] = x
		}
	}
	return f.serKept
}
func (f *fCont) des() []codec.Deserializable {
	if len(f.desKept) != len(f.fields) {
		f.desKept = make([]codec.Deserializable, len(f.fields))
		for i, x := range f.fields {
			f.desKept[i] = x
		}
	}
	return f.desKept
}
func (f *fCont) Serialize(w *codec.EncodingWriter) error {
	if f.t.IsFixed() {
		return w.FixedLenContainer(f.ser()...)
	}
	return w.Container(f.ser()...)
}
func (f *fCont) Deserialize(r *codec.DecodingReader) error {
	if f.t.IsFixed() {
		return r.FixedLenContainer(f.des()...)
	}
	return r.Container(f.des()...)
}
func (f *fCont) ByteLength() uint64 { return codec.ContainerLength(f.ser()...) }
func (f *fCont) FixedLength() uint64 {
	if f.t.IsFixed() {
		return flatFixedLen(f.t)
	}
	return 0
}
func (f *fCont) HashTreeRoot(h tree.HashFn) tree.Root {
	hs := make([]tree.HTR, len(f.fields))
	for i, x := range f.fields {
		hs[i] = x
	}
	return h.HashTreeRoot(hs...)
}
func (f *fCont) Read() string {
	var sb strings.Builder
	sb.WriteString("(cont")
	for _, e := range f.fields {
		sb.WriteString(" " + e.Read())
	}
	sb.WriteString(")")
	return sb.String()
}

// ---- union ----
type fUnion struct {
	t   *Ty
	sel uint8
	val Flat // nil = None
}

func (f *fUnion) Serialize(w *codec.EncodingWriter) error {
	if f.val == nil {
		return w.Union(f.sel, nil)
	}
	return w.Union(f.sel, f.val)
}
func (f *fUnion) Deserialize(r *codec.DecodingReader) error {
	return r.Union(func(selector uint8) (codec.Deserializable, error) {
		if int(selector) >= f.t.OptionCount() {
			return nil, fmt.Errorf("bad selector")
		}
		f.sel = selector
		o := f.t.OptionTy(int(selector))
		if o == nil {
			f.val = nil
			return nil, nil
		}
		f.val = newFlat(o)
		return f.val, nil
	})
}
func (f *fUnion) ByteLength() uint64 {
	if f.val == nil {
		return 1
	}
	return 1 + f.val.ByteLength()
}
func (f *fUnion) FixedLength() uint64 { return 0 }
func (f *fUnion) HashTreeRoot(h tree.HashFn) tree.Root {
	if f.val == nil {
		return h.Union(f.sel, nil)
	}
	return h.Union(f.sel, f.val)
}
func (f *fUnion) Read() string {
	if f.val == nil {
		return "(un " + hx(uint64(f.sel)) + " none)"
	}
	return "(un " + hx(uint64(f.sel)) + " " + f.val.Read() + ")"
}

func flatFixedLen(t *Ty) uint64 {
	switch t.Kind {
	case "u", "bytes":
		return t.N
	case "bool":
		return 1
	case "root":
		return 32
	case "bitvec":
		return (t.N + 7) / 8
	case "vec":
		if fx := flatFixedLen(t.Elem); fx != 0 {
			return t.N * fx
		}
		return 0
	case "cont":
		s := uint64(0)
		for _, f := range t.Fields {
			fx := flatFixedLen(f)
			if fx == 0 {
				return 0
			}
			s += fx
		}
		return s
	}
	return 0
}

// newFlat makes a fresh destination (zero value) of the flat type.
func newFlat(t *Ty) Flat {
	switch t.Kind {
	case "u":
		switch t.N {
		case 1:
			return &fU8{}
		case 2:
			return &fU16{}
		case 4:
			return &fU32{}
		case 8:
			return &fU64{}
		case 32:
			return &fU256{}
		}
	case "bool":
		return &fBool{}
	case "root":
		return &fRoot{}
	case "bytes":
		return &fByteVec{n: t.N}
	case "bitvec":
		return &fBitVec{n: t.N}
	case "bitlist":
		return &fBitList{limit: t.N}
	case "vec":
		if t.Elem.Kind == "u" && t.Elem.N == 1 {
			return &fByteVec{n: t.N, asSeq: true}
		}
		s := &fSeries{t: t, elems: make([]Flat, t.N)}
		for i := range s.elems {
			s.elems[i] = newFlat(t.Elem)
		}
		return s
	case "list":
		if t.Elem.Kind == "u" && t.Elem.N == 1 {
			return &fByteList{limit: t.N}
		}
		if t.Elem.Kind == "root" {
			return &fRootList{limit: t.N}
		}
		return &fSeries{t: t}
	case "cont":
		c := &fCont{t: t, fields: make([]Flat, len(t.Fields))}
		for i, f := range t.Fields {
			c.fields[i] = newFlat(f)
		}
		return c
	case "union":
		return &fUnion{t: t}
	}
	panic("newFlat: bad type")
}

// flatOf builds the flat value holding v.
func flatOf(t *Ty, v *Val) Flat {
	switch t.Kind {
	case "u":
		switch t.N {
		case 1:
			return &fU8{view.Uint8View(v.U.Uint64())}
		case 2:
			return &fU16{view.Uint16View(v.U.Uint64())}
		case 4:
			return &fU32{view.Uint32View(v.U.Uint64())}
		case 8:
			return &fU64{view.Uint64View(v.U.Uint64())}
		case 32:
			return &fU256{u256FromBig(v.U)}
		}
	case "bool":
		return &fBool{view.BoolView(v.B)}
	case "root":
		f := &fRoot{}
		copy(f.v[:], v.Bytes)
		return f
	case "bytes":
		return &fByteVec{b: spare(append([]byte{}, v.Bytes...)), n: t.N}
	case "bitvec":
		return &fBitVec{b: spare(packBits(v.Bits, false)), n: t.N}
	case "bitlist":
		return &fBitList{b: spare(packBits(v.Bits, true)), limit: t.N}
	case "vec", "list":
		if t.Elem.Kind == "u" && t.Elem.N == 1 {
			b := make([]byte, len(v.Seq))
			for i, e := range v.Seq {
				b[i] = byte(e.U.Uint64())
			}
			if t.Kind == "vec" {
				return &fByteVec{b: spare(b), n: t.N, asSeq: true}
			}
			return &fByteList{b: spare(b), limit: t.N}
		}
		if t.Kind == "list" && t.Elem.Kind == "root" {
			f := &fRootList{limit: t.N, roots: make([]tree.Root, len(v.Seq))}
			for i, e := range v.Seq {
				copy(f.roots[i][:], e.Bytes)
			}
			return f
		}
		s := &fSeries{t: t, elems: make([]Flat, len(v.Seq))}
		for i, e := range v.Seq {
			s.elems[i] = flatOf(t.Elem, e)
		}
		return s
	case "cont":
		c := &fCont{t: t, fields: make([]Flat, len(t.Fields))}
		for i, f := range t.Fields {
			c.fields[i] = flatOf(f, v.Seq[i])
		}
		return c
	case "union":
		u := &fUnion{t: t, sel: uint8(v.Sel)}
		if v.Inner != nil {
			u.val = flatOf(t.OptionTy(v.Sel), v.Inner)
		}
		return u
	}
	panic("flatOf: bad type")
}

func packBits(bits []bool, delimiter bool) []byte {
	n := len(bits)
	if delimiter {
		n++
	}
	out := make([]byte, (n+7)/8)
	for i, b := range bits {
		if b {
			out[i>>3] |= 1 << uint(i&7)
		}
	}
	if delimiter {
		out[len(bits)>>3] |= 1 << uint(len(bits)&7)
	}
	return out
}

func flatEncode(f Flat) ([]byte, error) {
	var buf bytes.Buffer
	err := f.Serialize(codec.NewEncodingWriter(&buf))
	return buf.Bytes(), err
}

func flatDecode(f Flat, data []byte) error {
	return f.Deserialize(codec.NewDecodingReader(bytes.NewReader(data), uint64(len(data))))
}

var _ = binary.LittleEndian

// spare returns the same bytes as a window into a larger buffer whose remaining capacity holds
// non-zero junk (a list shrunk in place, a slice of a bigger array): only len(b) bytes count.
func spare(b []byte) []byte {
	buf := make([]byte, len(b)+70)
	for i := range buf {
		buf[i] = 0xe7
	}
	copy(buf, b)
	return buf[:len(b)]
}
