//go:build verif

// Package verifharness runs the real protolambda/ztyp code (module replaced by /repo's
// working tree) on generated cases and records what it observed, for comparison with
// the Coq model.  Unverified glue (trusted base of the correspondence check).
package verifharness

import (
	"bufio"
	"crypto/sha256"
	"encoding/hex"
	"fmt"
	"math/rand"
	"os"
	"strconv"
	"strings"
	"testing"

	"github.com/protolambda/ztyp/tree"
)

type caseOut struct {
	in  *bufio.Writer // id \t op \t args...   (input of the model driver)
	obs *bufio.Writer // id \t observation     (what the implementation did)
	fi  *os.File
	fo  *os.File
	n   int
	pfx string
}

func openOut(t *testing.T, prop string) *caseOut {
	dir := os.Getenv("VERIF_OUT")
	if dir == "" {
		dir = "/verif/work"
	}
	_ = os.MkdirAll(dir, 0o755)
	fi, err := os.Create(dir + "/" + prop + ".in")
	if err != nil {
		t.Fatal(err)
	}
	fo, err := os.Create(dir + "/" + prop + ".obs")
	if err != nil {
		t.Fatal(err)
	}
	return &caseOut{in: bufio.NewWriterSize(fi, 1<<20), obs: bufio.NewWriterSize(fo, 1<<20), fi: fi, fo: fo, pfx: prop}
}

func (c *caseOut) close() {
	c.in.Flush()
	c.obs.Flush()
	c.fi.Close()
	c.fo.Close()
}

// emit records one case: tag classifies it (stream / known-finding signature), op+args go
// to the model driver, obs is the implementation's observation.
func (c *caseOut) emit(tag string, op string, args []string, obs string) {
	c.n++
	id := fmt.Sprintf("%s:%s:%d", c.pfx, tag, c.n)
	c.in.WriteString(id)
	c.in.WriteByte('\t')
	c.in.WriteString(op)
	for _, a := range args {
		c.in.WriteByte('\t')
		c.in.WriteString(a)
	}
	c.in.WriteByte('\n')
	c.obs.WriteString(id)
	c.obs.WriteByte('\t')
	c.obs.WriteString(obs)
	c.obs.WriteByte('\n')
}

func seed() int64 {
	s := os.Getenv("VERIF_SEED")
	if s == "" {
		return 1
	}
	v, err := strconv.ParseInt(s, 10, 64)
	if err != nil {
		return 1
	}
	return v
}

func thorough() bool { return os.Getenv("VERIF_TIER") == "thorough" }

func newRng(salt int64) *rand.Rand { return rand.New(rand.NewSource(seed()*1000003 + salt)) }

func hx(v uint64) string { return strconv.FormatUint(v, 16) }

func hexBytes(b []byte) string {
	if len(b) == 0 {
		return "-"
	}
	return hex.EncodeToString(b)
}

func hexOrNil(b []byte) string {
	if b == nil {
		return "nil"
	}
	return hexBytes(b)
}

func b01(b bool) string {
	if b {
		return "1"
	}
	return "0"
}

// guard runs f and converts a panic into the observation "PANIC".
func guard(f func() string) (out string) {
	defer func() {
		if r := recover(); r != nil {
			out = "PANIC"
		}
	}()
	return f()
}

func okOrErr(err error, payload string) string {
	if err != nil {
		return "ERR"
	}
	if payload == "" {
		return "OK"
	}
	return "OK " + payload
}

// ---- the two pair-hash configurations ----

var hashCalls int

func shaPair(a, b tree.Root) tree.Root {
	var v [64]byte
	copy(v[:32], a[:])
	copy(v[32:], b[:])
	return sha256.Sum256(v[:])
}

// altPair is the "alternative pluggable hash": sha256(0x01 || a || b).
func altPair(a, b tree.Root) tree.Root {
	var v [65]byte
	v[0] = 1
	copy(v[1:33], a[:])
	copy(v[33:], b[:])
	return sha256.Sum256(v[:])
}

// zwinPair is a pluggable hash whose outputs are mostly zero bytes: only a 4-byte window (at a
// position that depends on the input) of sha256(0x02 || a || b) is kept, and its first byte is
// made non-zero.  A root "looks empty" to any shortcut that inspects only part of it.
func zwinPair(a, b tree.Root) tree.Root {
	var v [65]byte
	v[0] = 2
	copy(v[1:33], a[:])
	copy(v[33:], b[:])
	s := sha256.Sum256(v[:])
	p := int(s[31]%8) * 4
	var o tree.Root
	copy(o[p:p+4], s[p:p+4])
	o[p] |= 1
	return o
}

// withCfg runs f under a hash configuration.  "sha": the library defaults, wrapped by a
// recorder that checks every call of the library's own hash against crypto/sha256.
// "alt": tree.InitZeroHashes(altPair, 64) — the documented pluggability path.
// curCfg is the hash configuration in force (for the history ops that re-initialise it)
var curCfg = "sha"

func pairOf(cfg string) tree.HashFn {
	switch cfg {
	case "alt":
		return altPair
	case "zwin":
		return zwinPair
	}
	return tree.Hash
}

func withCfg(cfg string, f func(h tree.HashFn)) {
	prev := curCfg
	curCfg = cfg
	defer func() { curCfg = prev }()
	if cfg == "zwin" {
		tree.InitZeroHashes(zwinPair, 64)
		defer tree.InitZeroHashes(tree.Hash, 64)
		f(func(a, b tree.Root) tree.Root { hashCalls++; return zwinPair(a, b) })
		return
	}
	if cfg == "alt" {
		tree.InitZeroHashes(altPair, 64)
		defer tree.InitZeroHashes(tree.Hash, 64)
		f(func(a, b tree.Root) tree.Root { hashCalls++; return altPair(a, b) })
		return
	}
	lib := tree.GetHashFn()
	f(func(a, b tree.Root) tree.Root {
		hashCalls++
		r := lib(a, b)
		if r != shaPair(a, b) {
			panic("library hash disagrees with crypto/sha256")
		}
		return r
	})
}

func joinKV(kv ...string) string { return strings.Join(kv, " ") }
