//go:build verif

package verifharness

import (
	"errors"
	"io"

	"github.com/protolambda/ztyp/codec"
)

// Inputs of 2^32 bytes and more: head ++ pad zero bytes ++ tail, never materialised.  The model
// cannot be evaluated on them (a Coq / OCaml list of 2^32 bytes), so what is compared is the
// statement of the decoding theorems itself, on the implementation: a decoder that accepts must
// have consumed the whole string and the result must re-encode to exactly the string
// (view_decode_canonical / flat_decode_canonical: decode bs = Some v -> encode v = bs).

type hugeInput struct {
	head, tail []byte
	pad        uint64
}

func (h *hugeInput) size() uint64 { return uint64(len(h.head)) + h.pad + uint64(len(h.tail)) }

func (h *hugeInput) at(i uint64) byte {
	if i < uint64(len(h.head)) {
		return h.head[i]
	}
	i -= uint64(len(h.head))
	if i < h.pad {
		return 0
	}
	i -= h.pad
	return h.tail[i]
}

var errGaveUp = errors.New("harness: more than the allowed part of a huge input was read")

// hugeReader delivers the input lazily; it gives up (with an error) once more than budget bytes
// have been asked for, so that an honest decoder of a type that really can hold gigabytes does
// not make the harness allocate them.
type hugeReader struct {
	h      *hugeInput
	pos    uint64
	budget uint64
	gaveUp bool
}

func (r *hugeReader) Read(p []byte) (int, error) {
	if r.pos >= r.h.size() {
		return 0, io.EOF
	}
	if r.pos+uint64(len(p)) > r.budget {
		r.gaveUp = true
		return 0, errGaveUp
	}
	n := 0
	for n < len(p) && r.pos < r.h.size() {
		p[n] = r.h.at(r.pos)
		n++
		r.pos++
	}
	return n, nil
}

// hugeCompare checks what is written against the input, byte by byte
type hugeCompare struct {
	h    *hugeInput
	pos  uint64
	same bool
}

func (w *hugeCompare) Write(p []byte) (int, error) {
	for _, b := range p {
		if w.pos >= w.h.size() || w.h.at(w.pos) != b {
			w.same = false
		}
		w.pos++
	}
	return len(p), nil
}

const hugeBudget = 8 << 20

func hugeObs(h *hugeInput, decode func(dr *codec.DecodingReader) (func(w *codec.EncodingWriter) error, error)) string {
	r := &hugeReader{h: h, budget: hugeBudget}
	res, canon, whole := "ERR", "1", "1"
	out := guard(func() string {
		enc, err := decode(codec.NewDecodingReader(r, h.size()))
		if err != nil {
			if r.gaveUp {
				res = "GAVEUP"
			}
			return ""
		}
		res = "OK"
		if r.pos != h.size() {
			whole = "0"
		}
		w := &hugeCompare{h: h, same: true}
		if err := enc(codec.NewEncodingWriter(w)); err != nil || !w.same || w.pos != h.size() {
			canon = "0"
		}
		return ""
	})
	if out == "PANIC" {
		res = "PANIC"
	}
	return joinKV("res="+res, "canon="+canon, "whole="+whole)
}

func c03hObs(t *Ty, h *hugeInput) string {
	return hugeObs(h, func(dr *codec.DecodingReader) (func(w *codec.EncodingWriter) error, error) {
		vw, err := t.Def().Deserialize(dr)
		if err != nil {
			return nil, err
		}
		return vw.Serialize, nil
	})
}

func c10hObs(t *Ty, h *hugeInput) string {
	return hugeObs(h, func(dr *codec.DecodingReader) (func(w *codec.EncodingWriter) error, error) {
		f := newFlat(t)
		if err := f.Deserialize(dr); err != nil {
			return nil, err
		}
		return f.Serialize, nil
	})
}

// hugeCases: a valid small encoding of a type whose LAST variable-size part may legally be
// gigabytes long, followed by k * 2^32 (+- a little) zero bytes: anything that computes a
// scope, a size or a remaining length in 32 bits sees the small valid encoding again.
func hugeCases(seed int64, flat bool, f func(tag string, ty *Ty, h *hugeInput)) {
	g := &gen{r: newRng(seed), maxElem: 3, noBool: flat}
	u8 := &Ty{Kind: "u", N: 1}
	// parts that may be huge, but whose honest decoders refuse gigabytes of zeros after a few bytes
	lasts := []*Ty{
		{Kind: "list", Elem: &Ty{Kind: "list", Elem: u8, N: 64}, N: 1 << 40},
		{Kind: "list", Elem: &Ty{Kind: "bitlist", N: 64}, N: 1 << 38},
		{Kind: "list", Elem: &Ty{Kind: "cont", Fields: []*Ty{{Kind: "list", Elem: &Ty{Kind: "u", N: 2}, N: 4}, u8}}, N: 1 << 40},
		{Kind: "list", Elem: &Ty{Kind: "union", None: true, Fields: []*Ty{{Kind: "u", N: 8}}}, N: 1 << 40},
		{Kind: "list", Elem: &Ty{Kind: "cont", Fields: []*Ty{{Kind: "list", Elem: &Ty{Kind: "list", Elem: u8, N: 8}, N: 1 << 40}}}, N: 1 << 40},
		// (parts an honest decoder reads to the end - List[uint8, 2^40] - are left out: the
		// decoders allocate the whole scope before reading, 4 GiB and more per case)
	}
	wrap := func(inner *Ty) []*Ty {
		small := &Ty{Kind: "list", Elem: u8, N: 5}
		return []*Ty{
			inner,
			{Kind: "cont", Fields: []*Ty{inner}},
			{Kind: "cont", Fields: []*Ty{{Kind: "u", N: 8}, small, inner}},
			{Kind: "cont", Fields: []*Ty{small, {Kind: "cont", Fields: []*Ty{u8, inner}}}},
			{Kind: "list", Elem: &Ty{Kind: "cont", Fields: []*Ty{u8, inner}}, N: 3},
			{Kind: "vec", Elem: &Ty{Kind: "cont", Fields: []*Ty{inner, {Kind: "u", N: 2}}}, N: 2},
			{Kind: "union", None: true, Fields: []*Ty{{Kind: "cont", Fields: []*Ty{small, inner}}}},
			{Kind: "cont", Fields: []*Ty{{Kind: "vec", Elem: inner, N: 2}}},
			{Kind: "cont", Fields: []*Ty{{Kind: "union", Fields: []*Ty{u8, inner}}}},
		}
	}
	pads := []uint64{1 << 32, 2 << 32, 1<<32 - 4, 1<<32 + 4, 1<<32 - 1, 1<<32 + 1, 1 << 33, 1<<40 + 1<<32}
	for _, last := range lasts {
		for _, ty := range wrap(last) {
			for k := 0; k < 2; k++ {
				v := g.val(ty)
				var data []byte
				var err error
				if flat {
					data, err = flatEncode(flatOf(ty, v))
				} else {
					vw, e := buildViewSafe(ty, v)
					if e != nil {
						continue
					}
					data, err = serializeView(vw)
				}
				if err != nil || len(data) > 400 {
					continue
				}
				for pi, pad := range pads {
					if !thorough() && pi >= 3 && (pi+k)%3 != 0 {
						continue
					}
					f("huge", ty, &hugeInput{head: data, pad: pad})
					f("huge", ty, &hugeInput{head: data, pad: pad, tail: []byte{1}})
					if len(data) >= 4 {
						// the last word of the small encoding moved behind the zeros
						f("huge", ty, &hugeInput{head: data[:len(data)-4], pad: pad, tail: data[len(data)-4:]})
					}
				}
			}
		}
	}
}

type tyData struct {
	ty   *Ty
	data []byte
}

// manyElemCases: valid encodings of lists with 4095 .. 5000 variable-size elements (mostly
// empty, a few with content), and one with an offset word damaged late in the table
func manyElemCases() []tyData {
	u8 := &Ty{Kind: "u", N: 1}
	var out []tyData
	for _, et := range []*Ty{{Kind: "list", Elem: u8, N: 4}, {Kind: "bitlist", N: 9}, {Kind: "cont", Fields: []*Ty{u8, {Kind: "list", Elem: u8, N: 3}}}} {
		for _, n := range []int{4095, 4096, 4097, 5000} {
			if !thorough() && n != 4097 && et.Kind != "list" {
				continue
			}
			ty := &Ty{Kind: "list", Elem: et, N: 1 << 20}
			var body []byte
			offs := make([]byte, 0, 4*n)
			for i := 0; i < n; i++ {
				off := uint32(4*n + len(body))
				offs = append(offs, byte(off), byte(off>>8), byte(off>>16), byte(off>>24))
				switch et.Kind {
				case "list":
					if i%97 == 0 {
						body = append(body, byte(i), 7)
					}
				case "bitlist":
					body = append(body, 1+byte(i%2)<<1|byte(i%2))
				default:
					body = append(body, byte(i), 5, 0, 0, 0)
					if i%50 == 0 {
						body = append(body, 9)
					}
				}
			}
			data := append(offs, body...)
			out = append(out, tyData{ty, data})
			if n == 4097 {
				bad := append([]byte{}, data...)
				bad[4*4096] ^= 0x40
				out = append(out, tyData{ty, bad})
			}
		}
	}
	return out
}
