//go:build verif

package verifharness

import (
	"testing"
)

func c15Obs(t *Ty) string {
	return guard(func() string {
		d := t.Def()
		return joinKV("fixed="+b01(d.IsFixedByteLength()), "size="+hx(d.TypeByteLength()),
			"min="+hx(d.MinByteLength()), "max="+hx(d.MaxByteLength()))
	})
}

// c15Accept: a random value of the type is encoded; the encoding must lie within the reported
// bounds (inb) and must be accepted by the decoder however it arrives (acc): from a plain
// reader, from a stuttering stream, and as the remainder of a reader the caller already took a
// header from.
func c15Accept(g *gen, ty *Ty) string {
	return guard(func() string {
		saved := g.maxElem
		g.maxElem = 3
		v := g.val(ty)
		g.maxElem = saved
		vw, err := buildViewSafe(ty, v)
		if err != nil {
			return ""
		}
		data, err := serializeView(vw)
		if err != nil || len(data) > 600 {
			return ""
		}
		d := ty.Def()
		inb := uint64(len(data)) >= d.MinByteLength() && uint64(len(data)) <= d.MaxByteLength()
		acc := true
		for route := 0; route < 4; route++ {
			if _, err := deserializeVia(ty, data, route); err != nil {
				acc = false
			}
		}
		return " inb=" + b01(inb) + " acc=" + b01(acc)
	})
}

// smallFixedParts: no vector or bitvector of more than 600 elements anywhere in the type (a value
// of it has to be built)
func smallFixedParts(t *Ty) bool {
	if (t.Kind == "vec" || t.Kind == "bitvec") && t.N > 600 {
		return false
	}
	if t.Elem != nil && !smallFixedParts(t.Elem) {
		return false
	}
	for _, f := range t.Fields {
		if !smallFixedParts(f) {
			return false
		}
	}
	return true
}

func TestC15(t *testing.T) {
	out := openOut(t, "C15")
	defer out.close()
	seen := map[string]bool{}
	ga := &gen{r: newRng(1515), maxElem: 3}
	do := func(tag string, ty *Ty) {
		s := ty.Sexp()
		if seen[s] {
			return
		}
		seen[s] = true
		obs := c15Obs(ty)
		if obs != "PANIC" && len(seen)%4 == 0 && ty.Kind != "bool" && smallFixedParts(ty) {
			if a := c15Accept(ga, ty); a != "PANIC" {
				obs += a
			} else {
				obs += " acc=PANIC"
			}
		}
		out.emit(tag, "c15", []string{s}, obs)
	}
	// all leaf types, all one-level series over the size sets
	leaves := []*Ty{{Kind: "u", N: 1}, {Kind: "u", N: 2}, {Kind: "u", N: 4}, {Kind: "u", N: 8}, {Kind: "u", N: 32}, {Kind: "bool"}, {Kind: "root"}}
	for k := uint64(1); k <= 32; k++ {
		leaves = append(leaves, &Ty{Kind: "bytes", N: k})
	}
	sizes := append(append([]uint64{}, smallSizes...), 255, 256, 257, 512, 513)
	sizes = append(sizes, bigLimits...)
	var level1 []*Ty
	for _, l := range leaves {
		do("leaf", l)
	}
	for _, n := range sizes {
		if n > 0 {
			level1 = append(level1, &Ty{Kind: "bitvec", N: n})
		}
		level1 = append(level1, &Ty{Kind: "bitlist", N: n})
		for _, l := range leaves[:8] {
			if n > 0 && n < 1<<20 {
				level1 = append(level1, &Ty{Kind: "vec", Elem: l, N: n})
			}
			level1 = append(level1, &Ty{Kind: "list", Elem: l, N: n})
		}
	}
	for _, x := range level1 {
		do("l1", x)
	}
	g := &gen{r: newRng(15), maxElem: 10}
	// level 2: series / containers / unions over level-1 types
	cnt := 3000
	if thorough() {
		cnt = 60000
	}
	for k := 0; k < cnt; k++ {
		e := level1[g.r.Intn(len(level1))]
		switch g.r.Intn(5) {
		case 0:
			do("l2", &Ty{Kind: "vec", Elem: e, N: uint64(1 + g.r.Intn(17))})
		case 1:
			do("l2", &Ty{Kind: "list", Elem: e, N: g.size(true, false, true)})
		case 2:
			fs := []*Ty{e}
			for j := g.r.Intn(5); j > 0; j-- {
				fs = append(fs, level1[g.r.Intn(len(level1))])
			}
			do("l2", &Ty{Kind: "cont", Fields: fs})
		case 3:
			fs := []*Ty{e}
			for j := g.r.Intn(4); j > 0; j-- {
				fs = append(fs, level1[g.r.Intn(len(level1))])
			}
			do("l2", &Ty{Kind: "union", Fields: fs, None: g.r.Intn(2) == 0})
		default:
			do("l3", g.ty(3))
		}
	}
}
