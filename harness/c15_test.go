//go:build verif

package verifharness

import (
	"testing"
)

func c15Obs(t *Ty) string {
	return guard(func() string {
		d := t.Def()
		return joinKV("fixed="+b01(d.IsFixedByteLength()), "size="+hx(d.TypeByteLength()),
			"min="+hx(d.MinByteLength()), "max="+hx(d.MaxByteLength()))
	})
}

func TestC15(t *testing.T) {
	out := openOut(t, "C15")
	defer out.close()
	seen := map[string]bool{}
	do := func(tag string, ty *Ty) {
		s := ty.Sexp()
		if seen[s] {
			return
		}
		seen[s] = true
		out.emit(tag, "c15", []string{s}, c15Obs(ty))
	}
	// all leaf types, all one-level series over the size sets
	leaves := []*Ty{{Kind: "u", N: 1}, {Kind: "u", N: 2}, {Kind: "u", N: 4}, {Kind: "u", N: 8}, {Kind: "u", N: 32}, {Kind: "bool"}, {Kind: "root"}}
	for k := uint64(1); k <= 32; k++ {
		leaves = append(leaves, &Ty{Kind: "bytes", N: k})
	}
	sizes := append(append([]uint64{}, smallSizes...), 255, 256, 257, 512, 513)
	sizes = append(sizes, bigLimits...)
	var level1 []*Ty
	for _, l := range leaves {
		do("leaf", l)
	}
	for _, n := range sizes {
		if n > 0 {
			level1 = append(level1, &Ty{Kind: "bitvec", N: n})
		}
		level1 = append(level1, &Ty{Kind: "bitlist", N: n})
		for _, l := range leaves[:8] {
			if n > 0 && n < 1<<20 {
				level1 = append(level1, &Ty{Kind: "vec", Elem: l, N: n})
			}
			level1 = append(level1, &Ty{Kind: "list", Elem: l, N: n})
		}
	}
	for _, x := range level1 {
		do("l1", x)
	}
	g := &gen{r: newRng(15), maxElem: 10}
	// level 2: series / containers / unions over level-1 types
	cnt := 3000
	if thorough() {
		cnt = 60000
	}
	for k := 0; k < cnt; k++ {
		e := level1[g.r.Intn(len(level1))]
		switch g.r.Intn(5) {
		case 0:
			do("l2", &Ty{Kind: "vec", Elem: e, N: uint64(1 + g.r.Intn(17))})
		case 1:
			do("l2", &Ty{Kind: "list", Elem: e, N: g.size(true, false, true)})
		case 2:
			fs := []*Ty{e}
			for j := g.r.Intn(5); j > 0; j-- {
				fs = append(fs, level1[g.r.Intn(len(level1))])
			}
			do("l2", &Ty{Kind: "cont", Fields: fs})
		case 3:
			fs := []*Ty{e}
			for j := g.r.Intn(4); j > 0; j-- {
				fs = append(fs, level1[g.r.Intn(len(level1))])
			}
			do("l2", &Ty{Kind: "union", Fields: fs, None: g.r.Intn(2) == 0})
		default:
			do("l3", g.ty(3))
		}
	}
}
