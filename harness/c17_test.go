//go:build verif

package verifharness

import (
	"encoding/binary"
	"strconv"
	"strings"
	"testing"

	"github.com/protolambda/ztyp/tree"
	"github.com/protolambda/ztyp/view"
)

var renderPacked bool

// probeAfterError: go on calling Next() after an iterator reported an error and require that
// whatever it still hands out is the getter's component for that position.  On for views whose
// data is MISSING (summarised nodes: the property's wording); off for corrupt backings (a pair
// grafted where a chunk is expected), where the library makes no promise about later calls -
// observed there: fieldReadonlyIter does not advance its field index on a conversion error, so a
// caller that continues gets the following nodes read with the previous field's type.
var probeAfterError = true

func renderElem(v view.View, h tree.HashFn) string {
	if !renderPacked {
		return rootHex(v.HashTreeRoot(h))
	}
	switch x := v.(type) {
	case view.Uint8View:
		return hx(uint64(x))
	case view.Uint16View:
		return hx(uint64(x))
	case view.Uint32View:
		return hx(uint64(x))
	case view.Uint64View:
		return hx(uint64(x))
	case view.Uint256View:
		s, _ := readBasic(nil, x)
		return strings.TrimSuffix(strings.TrimPrefix(s, "(n "), ")")
	}
	return rootHex(v.HashTreeRoot(h))
}

type elemIter interface {
	Next() (view.View, bool, error)
}
type bitIter interface {
	Next() (bool, bool, error)
}

func drainElems(it elemIter, n int, h tree.HashFn, getAt func(i int) string) string {
	var parts []string
	for i := 0; i < n; i++ {
		el, ok, err := it.Next()
		if err != nil {
			parts = append(parts, "ERR")
			// a caller that goes on after the error may get further errors, the end, or components
			// - but then the right ones: every call stands for one position, and a component
			// handed out at position c must be what the getter gives for c
			for c := i + 1; c < i+4 && getAt != nil && probeAfterError; c++ {
				el2, ok2, err2 := it.Next()
				if err2 != nil || !ok2 {
					continue
				}
				if renderElem(el2, h) != getAt(c) {
					parts = append(parts, "AFTER-ERROR-WRONG")
					break
				}
			}
			break
		}
		if !ok {
			parts = append(parts, "END")
			continue
		}
		parts = append(parts, renderElem(el, h))
	}
	if len(parts) == 0 {
		return "-"
	}
	return strings.Join(parts, ",")
}

func drainBits(it bitIter, n int, getAt func(i int) string) string {
	var parts []string
	for i := 0; i < n; i++ {
		b, ok, err := it.Next()
		if err != nil {
			parts = append(parts, "ERR")
			for c := i + 1; c < i+4 && getAt != nil && probeAfterError; c++ {
				b2, ok2, err2 := it.Next()
				if err2 != nil || !ok2 {
					continue
				}
				if b01(b2) != getAt(c) {
					parts = append(parts, "AFTER-ERROR-WRONG")
					break
				}
			}
			break
		}
		if !ok {
			parts = append(parts, "END")
			continue
		}
		parts = append(parts, b01(b))
	}
	if len(parts) == 0 {
		return "-"
	}
	return strings.Join(parts, ",")
}

// index-based iterators report element errors with ok = true: render those as ERR and go on
func drainElemsIx(it elemIter, n int, h tree.HashFn) string {
	var parts []string
	for i := 0; i < n; i++ {
		el, ok, err := it.Next()
		if !ok && err != nil {
			parts = append(parts, "ERR")
			break
		}
		if !ok {
			parts = append(parts, "END")
			continue
		}
		if err != nil {
			parts = append(parts, "ERR")
			continue
		}
		parts = append(parts, renderElem(el, h))
	}
	if len(parts) == 0 {
		return "-"
	}
	return strings.Join(parts, ",")
}
func drainBitsIx(it bitIter, n int) string {
	var parts []string
	for i := 0; i < n; i++ {
		b, ok, err := it.Next()
		if !ok && err != nil {
			parts = append(parts, "ERR")
			break
		}
		if !ok {
			parts = append(parts, "END")
			continue
		}
		if err != nil {
			parts = append(parts, "ERR")
			continue
		}
		parts = append(parts, b01(b))
	}
	if len(parts) == 0 {
		return "-"
	}
	return strings.Join(parts, ",")
}

// iterObs drains ReadonlyIter (ro), Iter (ix) with 3 extra calls each, and Get(i) (get).
func iterObs(t *Ty, vw view.View, h tree.HashFn) string { return iterObsN(t, vw, h, 3) }

func iterObsN(t *Ty, vw view.View, h tree.HashFn, extra int) string {
	ro, ix, get := "ERR", "ERR", "ERR"
	renderPacked = (t.Kind == "vec" || t.Kind == "list") && t.Elem.IsBasicElem()
	join := func(p []string) string {
		if len(p) == 0 {
			return "-"
		}
		return strings.Join(p, ",")
	}
	switch x := vw.(type) {
	case *view.BitVectorView:
		n := int(t.N)
		bitAt := func(i int) string {
			b, err := x.Get(uint64(i))
			if err != nil {
				return "ERR"
			}
			return b01(bool(b))
		}
		ro = guard(func() string { return drainBits(x.ReadonlyIter(), n+extra, bitAt) })
		ix = guard(func() string { return drainBitsIx(x.Iter(), n+extra) })
		get = guard(func() string {
			var p []string
			for i := 0; i < n; i++ {
				b, err := x.Get(uint64(i))
				if err != nil {
					p = append(p, "ERR")
				} else {
					p = append(p, b01(bool(b)))
				}
			}
			return join(p)
		})
	case *view.BitListView:
		l, err := x.Length()
		if err != nil {
			return "ro=ERR ix=ERR get=ERR"
		}
		n := int(l)
		bitAt := func(i int) string {
			b, err := x.Get(uint64(i))
			if err != nil {
				return "ERR"
			}
			return b01(bool(b))
		}
		ro = guard(func() string { return drainBits(x.ReadonlyIter(), n+extra, bitAt) })
		ix = guard(func() string { return drainBitsIx(x.Iter(), n+extra) })
		get = guard(func() string {
			var p []string
			for i := 0; i < n; i++ {
				b, err := x.Get(uint64(i))
				if err != nil {
					p = append(p, "ERR")
				} else {
					p = append(p, b01(bool(b)))
				}
			}
			return join(p)
		})
	default:
		var n int
		var roIt, ixIt func() elemIter
		var getF func(i uint64) (view.View, error)
		switch y := vw.(type) {
		case *view.BasicVectorView:
			n = int(t.N)
			roIt = func() elemIter { return y.ReadonlyIter() }
			ixIt = func() elemIter { return y.Iter() }
			getF = func(i uint64) (view.View, error) { return y.Get(i) }
		case *view.ComplexVectorView:
			n = int(t.N)
			roIt = func() elemIter { return y.ReadonlyIter() }
			ixIt = func() elemIter { return y.Iter() }
			getF = y.Get
		case *view.BasicListView:
			l, err := y.Length()
			if err != nil {
				return "ro=ERR ix=ERR get=ERR"
			}
			n = int(l)
			roIt = func() elemIter { return y.ReadonlyIter() }
			ixIt = func() elemIter { return y.Iter() }
			getF = func(i uint64) (view.View, error) { return y.Get(i) }
		case *view.ComplexListView:
			l, err := y.Length()
			if err != nil {
				return "ro=ERR ix=ERR get=ERR"
			}
			n = int(l)
			roIt = func() elemIter { return y.ReadonlyIter() }
			ixIt = func() elemIter { return y.Iter() }
			getF = y.Get
		case *view.ContainerView:
			n = len(t.Fields)
			roIt = func() elemIter { return y.ReadonlyIter() }
			ixIt = func() elemIter { return y.Iter() }
			getF = y.Get
		default:
			return "ro=ERR ix=ERR get=ERR"
		}
		elemAt := func(i int) string {
			e, err := getF(uint64(i))
			if err != nil {
				return "ERR"
			}
			return renderElem(e, h)
		}
		ro = guard(func() string { return drainElems(roIt(), n+extra, h, elemAt) })
		ix = guard(func() string { return drainElemsIx(ixIt(), n+extra, h) })
		get = guard(func() string {
			var p []string
			for i := 0; i < n; i++ {
				e, err := getF(uint64(i))
				if err != nil {
					p = append(p, "ERR")
				} else {
					p = append(p, renderElem(e, h))
				}
			}
			return join(p)
		})
	}
	fv := "-"
	if c, ok := vw.(*view.ContainerView); ok {
		// FieldValues(): all field views collected first, rendered afterwards (aliasing shows)
		fv = guard(func() string {
			vals, err := c.FieldValues()
			if err != nil {
				return "ERR"
			}
			var p []string
			for _, x := range vals {
				p = append(p, rootHex(x.HashTreeRoot(h)))
			}
			return join(p)
		})
	}
	return joinKV("ro="+ro, "ix="+ix, "get="+get, "fv="+fv)
}

func isSeriesTy(t *Ty) bool {
	switch t.Kind {
	case "bitvec", "bitlist", "vec", "list", "cont":
		return true
	}
	return false
}

func TestC17(t *testing.T) {
	out := openOut(t, "C17")
	defer out.close()
	n := 600
	if thorough() {
		n = 15000
	}
	withCfg("sha", func(h tree.HashFn) {
		do := func(tag string, ty *Ty, v *Val) {
			obs := guard(func() string {
				vw, err := buildView(ty, v)
				if err != nil {
					return "ro=ERR ix=ERR get=ERR"
				}
				return iterObs(ty, vw, h)
			})
			if obs == "PANIC" {
				obs = "ro=PANIC ix=PANIC get=PANIC"
			}
			out.emit(tag, "c17", []string{ty.Sexp(), v.Sexp()}, obs)
		}
		// series of more than 2^17 elements (one node per element, and packed): the read-only
		// iterator against what was put in.  The model's per-element lists make these take minutes,
		// so the statement of the theorems (the iterator yields element i at step i, then End) is
		// checked on the implementation directly.
		for _, n := range []int{65537, 131072, 131075, 200001} {
			if !thorough() && n != 131075 {
				continue
			}
			nn := n
			out.emit("bigseries", "c17big", []string{"vecroot", hx(uint64(nn))}, guard(func() string {
				els := make([]view.View, nn)
				for i := range els {
					var r tree.Root
					binary.LittleEndian.PutUint64(r[:8], uint64(i)+1)
					rv := view.RootView(r)
					els[i] = &rv
				}
				vw, err := view.VectorType(view.RootType, uint64(nn)).(*view.ComplexVectorTypeDef).FromElements(els...)
				if err != nil {
					return "agree=ERR"
				}
				it := vw.ReadonlyIter()
				for i := 0; i < nn; i++ {
					el, ok, err := it.Next()
					if err != nil || !ok {
						return "agree=0"
					}
					r := el.HashTreeRoot(h)
					if binary.LittleEndian.Uint64(r[:8]) != uint64(i)+1 {
						return "agree=0"
					}
				}
				if _, ok, _ := it.Next(); ok {
					return "agree=0"
				}
				return "agree=1"
			}))
			out.emit("bigseries", "c17big", []string{"listu64", hx(uint64(4*nn))}, guard(func() string {
				els := make([]view.BasicView, 4*nn)
				for i := range els {
					els[i] = view.Uint64View(uint64(i) + 7)
				}
				vw, err := view.BasicListType(view.Uint64Type, 1<<40).FromElements(els...)
				if err != nil {
					return "agree=ERR"
				}
				it := vw.ReadonlyIter()
				for i := 0; i < 4*nn; i++ {
					el, ok, err := it.Next()
					if err != nil || !ok {
						return "agree=0"
					}
					if x, isU := el.(view.Uint64View); !isU || uint64(x) != uint64(i)+7 {
						return "agree=0"
					}
				}
				if _, ok, _ := it.Next(); ok {
					return "agree=0"
				}
				return "agree=1"
			}))
		}
		// several read-only bit iterators alive at once over different bitfields (more than one
		// chunk each), advanced in a random interleaving, opened while earlier ones are still
		// being polled past their end: each yields what it yields alone
		{
			gm := &gen{r: newRng(1717), maxElem: 700}
			rounds := 12
			if thorough() {
				rounds = 300
			}
			for round := 0; round < rounds; round++ {
				k := 2 + gm.r.Intn(3)
				type live struct {
					ty    *Ty
					v     *Val
					it    bitIter
					parts []string
					want  int
					open  bool
				}
				ls := make([]*live, k)
				for i := range ls {
					nb := uint64(257 + gm.r.Intn(500))
					ty := &Ty{Kind: "bitlist", N: nb + uint64(gm.r.Intn(3))*300}
					if gm.r.Intn(3) == 0 {
						ty = &Ty{Kind: "bitvec", N: nb}
					}
					v := &Val{Kind: "bits", Bits: make([]bool, nb)}
					for j := range v.Bits {
						v.Bits[j] = gm.r.Intn(2) == 1
					}
					ls[i] = &live{ty: ty, v: v}
				}
				res := guard(func() string {
					for {
						var pending []*live
						for _, l := range ls {
							if !l.open || l.want > 0 {
								pending = append(pending, l)
							}
						}
						if len(pending) == 0 {
							return ""
						}
						l := pending[gm.r.Intn(len(pending))]
						if !l.open {
							vw, err := buildView(l.ty, l.v)
							if err != nil {
								l.open, l.want = true, 0
								l.parts = []string{"ERR"}
								continue
							}
							switch x := vw.(type) {
							case *view.BitListView:
								l.it = x.ReadonlyIter()
							case *view.BitVectorView:
								l.it = x.ReadonlyIter()
							}
							l.open, l.want = true, len(l.v.Bits)+3
							continue
						}
						// a burst of calls on this one
						for c := 1 + gm.r.Intn(200); c > 0 && l.want > 0; c-- {
							b, ok, err := l.it.Next()
							switch {
							case err != nil:
								l.parts = append(l.parts, "ERR")
								l.want = 1
							case !ok:
								l.parts = append(l.parts, "END")
							default:
								l.parts = append(l.parts, b01(b))
							}
							l.want--
						}
					}
				})
				for _, l := range ls {
					obs := "ro=" + strings.Join(l.parts, ",")
					if res == "PANIC" {
						obs = "ro=PANIC"
					}
					out.emit("mix", "c17", []string{l.ty.Sexp(), l.v.Sexp()}, obs)
				}
			}
		}
		// lengths that end inside / at / just after a chunk; depth larger than the length needs
		gb := &gen{r: newRng(17), maxElem: 700}
		for _, k := range []uint64{1, 2, 31, 32, 33, 63, 64, 65, 255, 256, 257, 511, 512, 513} {
			for _, lim := range []uint64{k, k + 1, 1 << 20, 1 << 40} {
				for _, ty := range []*Ty{
					{Kind: "bitlist", N: lim},
					{Kind: "list", Elem: &Ty{Kind: "u", N: 1}, N: lim},
					{Kind: "list", Elem: &Ty{Kind: "u", N: 8}, N: lim},
					{Kind: "list", Elem: &Ty{Kind: "u", N: 32}, N: lim},
				} {
					v := gb.val(ty)
					// force the exact length k
					if ty.Kind == "bitlist" {
						for uint64(len(v.Bits)) < k {
							v.Bits = append(v.Bits, gb.r.Intn(2) == 0)
						}
						v.Bits = v.Bits[:k]
					} else {
						for uint64(len(v.Seq)) < k {
							v.Seq = append(v.Seq, gb.val(ty.Elem))
						}
						v.Seq = v.Seq[:k]
					}
					do("bound", ty, v)
				}
			}
			do("bound", &Ty{Kind: "bitvec", N: k}, gb.val(&Ty{Kind: "bitvec", N: k}))
			do("bound", &Ty{Kind: "vec", Elem: &Ty{Kind: "u", N: 2}, N: k}, gb.val(&Ty{Kind: "vec", Elem: &Ty{Kind: "u", N: 2}, N: k}))
		}
		// the end is reported for good: hundreds of calls past it (8-bit cursors wrap around)
		{
			gx := &gen{r: newRng(1718), maxElem: 40}
			for _, ty := range []*Ty{
				{Kind: "bitlist", N: 600}, {Kind: "bitvec", N: 300}, {Kind: "list", Elem: &Ty{Kind: "u", N: 1}, N: 100},
				{Kind: "vec", Elem: &Ty{Kind: "u", N: 8}, N: 9}, {Kind: "list", Elem: &Ty{Kind: "root"}, N: 8},
				{Kind: "vec", Elem: &Ty{Kind: "list", Elem: &Ty{Kind: "u", N: 1}, N: 3}, N: 3},
				{Kind: "cont", Fields: []*Ty{{Kind: "u", N: 8}, {Kind: "root"}, {Kind: "bool"}}},
			} {
				for _, extra := range []int{260, 520} {
					v := gx.val(ty)
					e := extra
					obs := guard(func() string {
						vw, err := buildView(ty, v)
						if err != nil {
							return "ro=ERR ix=ERR get=ERR"
						}
						return iterObsN(ty, vw, h, e)
					})
					if obs == "PANIC" {
						obs = "ro=PANIC ix=PANIC get=PANIC"
					}
					out.emit("pastend", "c17x", []string{ty.Sexp(), v.Sexp(), strconv.Itoa(e)}, obs)
				}
			}
		}
		// malformed backings: one node replaced by a pair of two copies of itself (a pair where
		// the type expects a chunk) or by its summary root (data missing): the three access
		// paths must still agree with the model, element by element
		{
			gm := &gen{r: newRng(1717), noBool: true, maxElem: 6}
			nm := 60
			if thorough() {
				nm = 1500
			}
			rootT, b4 := &Ty{Kind: "root"}, &Ty{Kind: "bytes", N: 4}
			corpus := []*Ty{
				{Kind: "vec", Elem: rootT, N: 3}, {Kind: "vec", Elem: rootT, N: 4}, {Kind: "list", Elem: rootT, N: 5},
				{Kind: "vec", Elem: b4, N: 3}, {Kind: "list", Elem: b4, N: 4},
				{Kind: "cont", Fields: []*Ty{rootT, {Kind: "u", N: 8}, b4}},
				{Kind: "list", Elem: &Ty{Kind: "u", N: 8}, N: 9}, {Kind: "vec", Elem: &Ty{Kind: "u", N: 2}, N: 20},
				{Kind: "bitlist", N: 300}, {Kind: "bitvec", N: 260},
				{Kind: "list", Elem: &Ty{Kind: "cont", Fields: []*Ty{rootT, rootT}}, N: 4},
			}
			for k := 0; k < nm+len(corpus); k++ {
				var ty *Ty
				exhaustive := k < len(corpus)
				if exhaustive {
					ty = corpus[k]
				} else {
					ty = gm.ty(1 + gm.r.Intn(2))
				}
				if !isSeriesTy(ty) {
					continue
				}
				v := gm.val(ty)
				if exhaustive && (ty.Kind == "list" || ty.Kind == "bitlist") {
					// a few elements, so that element positions exist
					for tries := 0; tries < 20 && currentValLen(v) < 3; tries++ {
						v = gm.val(ty)
					}
				}
				full, err := buildView(ty, v)
				if err != nil {
					continue
				}
				var gis []uint64
				nodeGindices(full.Backing(), 1, &gis)
				rounds := 6
				if exhaustive {
					rounds = 2 * len(gis)
				}
				for j := 0; j < rounds; j++ {
					gi := gis[gm.r.Intn(len(gis))]
					kind := []string{"graft", "summ"}[gm.r.Intn(2)]
					if exhaustive {
						gi, kind = gis[j/2], []string{"graft", "summ"}[j%2]
					}
					if (ty.Kind == "list" || ty.Kind == "bitlist") && j == 0 && ty.N < 1<<62 {
						// a length node that claims more elements than the limit allows
						gi, kind = 3, "biglen"
					}
					obs := guard(func() string {
						var nb tree.Node
						if kind == "biglen" {
							set, err := full.Backing().Setter(tree.Gindex64(3), false)
							if err != nil {
								return "ro=ERR ix=ERR get=ERR"
							}
							var ln tree.Root
							binary.LittleEndian.PutUint64(ln[:8], ty.N+1)
							nb, err = set(&ln)
							if err != nil {
								return "ro=ERR ix=ERR get=ERR"
							}
						} else if kind == "graft" {
							old, err := full.Backing().Getter(tree.Gindex64(gi))
							if err != nil {
								return "ro=ERR ix=ERR get=ERR"
							}
							set, err := full.Backing().Setter(tree.Gindex64(gi), false)
							if err != nil {
								return "ro=ERR ix=ERR get=ERR"
							}
							nb, err = set(tree.NewPairNode(old, old))
							if err != nil {
								return "ro=ERR ix=ERR get=ERR"
							}
						} else {
							link, err := full.Backing().SummarizeInto(tree.Gindex64(gi), h)
							if err != nil {
								return "ro=ERR ix=ERR get=ERR"
							}
							nb, err = link()
							if err != nil {
								return "ro=ERR ix=ERR get=ERR"
							}
						}
						vw, err := ty.Def().ViewFromBacking(nb, nil)
						if err != nil {
							return "ro=ERR ix=ERR get=ERR"
						}
						probeAfterError = kind == "summ"
						defer func() { probeAfterError = true }()
						o := iterObs(ty, vw, h)
						// FieldValues is not part of this stream
						if i := strings.Index(o, " fv="); i >= 0 {
							o = o[:i]
						}
						return o
					})
					if obs == "PANIC" {
						obs = "ro=PANIC ix=PANIC get=PANIC"
					}
					out.emit("malformed", "c17g", []string{ty.Sexp(), v.Sexp(), kind, hx(gi)}, obs)
				}
			}
		}
		// series spanning more than 512 (and, thorough, 1024 / 4096) bottom chunks: cursors and
		// stack indices beyond 8 bits
		bigChunks := []uint64{513}
		if thorough() {
			bigChunks = []uint64{513, 1025, 4097}
		}
		for _, ch := range bigChunks {
			gg := &gen{r: newRng(int64(1700 + ch)), maxElem: 10}
			for _, spec := range []struct {
				ty  *Ty
				per uint64
			}{
				{&Ty{Kind: "vec", Elem: &Ty{Kind: "u", N: 8}, N: ch*4 - 1}, 4},
				{&Ty{Kind: "list", Elem: &Ty{Kind: "u", N: 32}, N: 1 << 40}, 1},
				{&Ty{Kind: "list", Elem: &Ty{Kind: "u", N: 2}, N: ch * 16}, 16},
				{&Ty{Kind: "bitlist", N: 1 << 40}, 256},
				{&Ty{Kind: "bitvec", N: ch*256 - 3}, 256},
			} {
				ln := int(ch*spec.per) - 1
				if spec.ty.Kind == "vec" || spec.ty.Kind == "bitvec" {
					ln = int(spec.ty.N)
				}
				var v *Val
				if spec.ty.Kind == "bitlist" || spec.ty.Kind == "bitvec" {
					bits := make([]bool, ln)
					for i := range bits {
						bits[i] = gg.r.Intn(2) == 0
					}
					v = &Val{Kind: "bits", Bits: bits}
				} else {
					vs := make([]*Val, ln)
					for i := range vs {
						vs[i] = gg.val(spec.ty.Elem)
					}
					v = &Val{Kind: "seq", Seq: vs}
				}
				do("big", spec.ty, v)
			}
		}
		g := &gen{r: newRng(171), maxElem: 40}
		for k := 0; k < n; {
			ty := g.ty(1 + g.r.Intn(3))
			if !isSeriesTy(ty) {
				continue
			}
			k++
			do("gen", ty, g.val(ty))
		}
	})
}

func currentValLen(v *Val) int {
	if len(v.Seq) > len(v.Bits) {
		return len(v.Seq)
	}
	return len(v.Bits)
}
