//go:build verif

package verifharness

import (
	"bytes"
	"fmt"
	"strings"
	"testing"

	"github.com/protolambda/ztyp/codec"
	"github.com/protolambda/ztyp/tree"
	"github.com/protolambda/ztyp/view"
)

func c02Obs(t *Ty, v *Val, h tree.HashFn) string {
	c02Route = (c02Route + 1) % 4
	ser, blen, dser, droot, dval := "ERR", "ERR", "ERR", "ERR", "ERR"
	var data []byte
	okSer := false
	func() {
		defer func() {
			if r := recover(); r != nil {
				ser = "PANIC"
			}
		}()
		vw, err := buildView(t, v)
		if err != nil {
			return
		}
		d, err := serializeView(vw)
		if err == nil {
			ser = hexBytes(d)
			data = d
			okSer = true
		}
		func() {
			defer func() {
				if r := recover(); r != nil {
					blen = "PANIC"
				}
			}()
			n, err := vw.ValueByteLength()
			if err == nil {
				blen = hx(n)
			}
		}()
	}()
	if okSer {
		func() {
			defer func() {
				if r := recover(); r != nil {
					dser, droot, dval = "PANIC", "PANIC", "PANIC"
				}
			}()
			vw, err := deserializeVia(t, data, c02Route)
			if err != nil {
				return
			}
			if d2, err := serializeView(vw); err == nil {
				dser = hexBytes(d2)
			}
			droot = rootHex(vw.HashTreeRoot(h))
			func() {
				defer func() {
					if r := recover(); r != nil {
						dval = "PANIC"
					}
				}()
				if s, err := readVal(t, vw); err == nil {
					dval = strings.ReplaceAll(s, " ", "_")
				}
			}()
		}()
	}
	return joinKV("ser="+ser, "blen="+blen, "dser="+dser, "droot="+droot, "dval="+dval)
}

// c02Route selects how the encoding reaches the decoder (the model's answer is the same for all):
// 0 a bytes.Reader; 1 a stream that delivers 1..3 bytes per call with "no progress" calls
// (0, nil) in between; 2 a reader the caller has already taken a header from (the value is
// what remains of the scope); 3 the same with the header taken byte by byte.
var c02Route int

func deserializeVia(t *Ty, data []byte, route int) (view.View, error) {
	switch route {
	case 1:
		r := &schedReader{data: append([]byte{}, data...), chunks: []int{1, 3, 2, 1, 1, 3, 2, 2}, failAfter: -1, stutter: true}
		return t.Def().Deserialize(codec.NewDecodingReader(r, uint64(len(data))))
	case 2, 3:
		hdr := []byte{0xca, 0xfe, 0xba, 0xbe, 0x01}
		dr := codec.NewDecodingReader(bytes.NewReader(append(append([]byte{}, hdr...), data...)), uint64(len(hdr)+len(data)))
		if route == 2 {
			if _, err := dr.Read(make([]byte, len(hdr))); err != nil {
				return nil, err
			}
		} else {
			for range hdr {
				if _, err := dr.ReadByte(); err != nil {
					return nil, err
				}
			}
		}
		return t.Def().Deserialize(dr)
	}
	return deserialize(t, data)
}

func TestC02(t *testing.T) {
	out := openOut(t, "C02")
	defer out.close()
	n := 900
	if thorough() {
		n = 25000
	}
	bitTys := []*Ty{}
	for _, k := range []uint64{1, 7, 8, 9, 33, 34, 64, 255, 256, 257, 512, 513} {
		bitTys = append(bitTys, &Ty{Kind: "bitvec", N: k}, &Ty{Kind: "bitlist", N: k})
	}
	// the typed cast helpers As*(view, err): accept exactly their own kind of view, hand the
	// value through, and propagate an error given to them
	withCfg("sha", func(h tree.HashFn) {
		ga := &gen{r: newRng(320), maxElem: 5}
		helpers := []string{"uint8", "byte", "uint16", "uint32", "uint64", "uint256", "bool", "root", "smallbytevec", "bytes4", "bytes8", "bytes16",
			"basiclist", "basicvector", "bitlist", "bitvector", "complexlist", "complexvector", "container", "union"}
		var tys []*Ty
		for _, nb := range []uint64{4, 8, 16, 5, 32} {
			tys = append(tys, &Ty{Kind: "bytes", N: nb})
		}
		for k := 0; k < 60; k++ {
			tys = append(tys, ga.ty(1+ga.r.Intn(2)))
		}
		for _, ty := range tys {
			v := ga.val(ty)
			for _, hp := range helpers {
				for _, mode := range []string{"ok", "err"} {
					obs := guard(func() string {
						vw, err := buildView(ty, v)
						if err != nil {
							return "ERR"
						}
						if mode == "err" {
							err = fmt.Errorf("upstream error")
						}
						return asCast(hp, vw, err, h)
					})
					out.emit("ascast", "ascast", []string{hp, ty.Sexp(), v.Sexp(), mode}, obs)
				}
			}
		}
	})
	for ci, cfg := range []string{"sha", "alt"} {
		g := &gen{r: newRng(int64(300 + ci)), noBool: false, maxElem: 40}
		withCfg(cfg, func(h tree.HashFn) {
			gb := &gen{r: newRng(int64(310 + ci)), maxElem: 600}
			for _, ty := range bitTys {
				for k := 0; k < 3; k++ {
					v := gb.val(ty)
					out.emit("bits", "c02", []string{cfg, ty.Sexp(), v.Sexp()}, c02Obs(ty, v, h))
				}
			}
			for _, ty := range wideContainers() {
				v := g.val(ty)
				out.emit("wide", "c02", []string{cfg, ty.Sexp(), v.Sexp()}, c02Obs(ty, v, h))
			}
			for k := 0; k < n; k++ {
				ty := g.ty(1 + g.r.Intn(3))
				v := g.val(ty)
				out.emit("gen", "c02", []string{cfg, ty.Sexp(), v.Sexp()}, c02Obs(ty, v, h))
			}
			if ci == 0 {
				// values of tens of kilobytes serialized one after the other through ONE type
				// definition: a longer one (all ones) first, then shorter ones whose encodings
				// end right behind a chunk boundary - nothing of the first may show in the second
				bl := &Ty{Kind: "bitlist", N: 1 << 22}
				bytesL := &Ty{Kind: "list", Elem: &Ty{Kind: "u", N: 1}, N: 1 << 22}
				ones := func(n int) *Val {
					v := &Val{Kind: "bits", Bits: make([]bool, n)}
					for i := range v.Bits {
						v.Bits[i] = true
					}
					return v
				}
				sparse := func(n int) *Val {
					v := &Val{Kind: "bits", Bits: make([]bool, n)}
					v.Bits[n-1], v.Bits[n/2] = true, true
					return v
				}
				// (bitlists of this size take the model minutes - one list cell per bit, quadratic
				// packing -, so for them the round trip the theorems state is checked on the
				// implementation itself: decode(serialize(v)) is v, ValueByteLength is the length)
				bigVals := []*Val{ones(1<<18 + 2000), sparse(1 << 18), ones(1<<18 + 2000), sparse(1<<18 + 256), ones(1<<18 + 2000), sparse(1<<18 - 1), ones(1 << 18)}
				bigViews := make([]view.View, len(bigVals))
				bigData := make([][]byte, len(bigVals))
				for i, v := range bigVals {
					bigViews[i], _ = buildView(bl, v)
				}
				// all encodings first, back to back (nothing else happens between a long value
				// and the shorter one that follows it)
				for i, vw := range bigViews {
					if vw != nil {
						bigData[i], _ = serializeView(vw)
					}
				}
				for i, v := range bigVals {
					vv, vw, data := v, bigViews[i], bigData[i]
					out.emit("seq", "c02big", []string{cfg, bl.Sexp(), hx(uint64(len(vv.Bits)))}, guard(func() string {
						if vw == nil || data == nil {
							return "rt=ERR"
						}
						n, err := vw.ValueByteLength()
						back, err2 := deserialize(bl, data)
						if err != nil || err2 != nil || n != uint64(len(data)) || len(data) != len(vv.Bits)/8+1 {
							return "rt=0"
						}
						bv := back.(*view.BitListView)
						if l, err := bv.Length(); err != nil || l != uint64(len(vv.Bits)) || back.HashTreeRoot(h) != vw.HashTreeRoot(h) {
							return "rt=0"
						}
						for i, want := range vv.Bits {
							if got, err := bv.Get(uint64(i)); err != nil || bool(got) != want {
								return "rt=0"
							}
						}
						return "rt=1"
					}))
				}
				mk := func(n int, b int64) *Val {
					v := &Val{Kind: "seq", Seq: make([]*Val, n)}
					e := &Val{Kind: "n", U: bigInt(b)}
					for i := range v.Seq {
						v.Seq[i] = e
					}
					return v
				}
				for _, v := range []*Val{mk(40000, 255), mk(33000, 0), mk(32768, 1)} {
					out.emit("seq", "c02", []string{cfg, bytesL.Sexp(), v.Sexp()}, c02Obs(bytesL, v, h))
				}
			}
		})
	}
}

// asCast applies one of the library's As* helpers to (v, err) and renders the result: basic
// values as val s-expressions, composite views by their hash-tree-root.
func asCast(helper string, v view.View, err error, h tree.HashFn) string {
	basic := func(x view.View, e error) string {
		if e != nil {
			return "ERR"
		}
		s, e2 := readBasic(nil, x)
		if e2 != nil {
			return "ERR"
		}
		return "OK " + strings.ReplaceAll(s, " ", "_")
	}
	comp := func(x view.View, e error) string {
		if e != nil {
			return "ERR"
		}
		return "OK " + rootHex(x.HashTreeRoot(h))
	}
	arr := func(b []byte, e error) string {
		if e != nil {
			return "ERR"
		}
		return "OK (x_" + hexBytes(b) + ")"
	}
	switch helper {
	case "uint8":
		x, e := view.AsUint8(v, err)
		return basic(x, e)
	case "byte":
		x, e := view.AsByte(v, err)
		return basic(x, e)
	case "uint16":
		x, e := view.AsUint16(v, err)
		return basic(x, e)
	case "uint32":
		x, e := view.AsUint32(v, err)
		return basic(x, e)
	case "uint64":
		x, e := view.AsUint64(v, err)
		return basic(x, e)
	case "uint256":
		x, e := view.AsUint256(v, err)
		return basic(x, e)
	case "bool":
		x, e := view.AsBool(v, err)
		return basic(x, e)
	case "root":
		x, e := view.AsRoot(v, err)
		return arr(x[:], e)
	case "smallbytevec":
		x, e := view.AsSmallByteVec(v, err)
		return arr(x, e)
	case "bytes4":
		x, e := view.AsBytes4(v, err)
		return arr(x[:], e)
	case "bytes8":
		x, e := view.AsBytes8(v, err)
		return arr(x[:], e)
	case "bytes16":
		x, e := view.AsBytes16(v, err)
		return arr(x[:], e)
	case "basiclist":
		x, e := view.AsBasicList(v, err)
		return comp(x, e)
	case "basicvector":
		x, e := view.AsBasicVector(v, err)
		return comp(x, e)
	case "bitlist":
		x, e := view.AsBitList(v, err)
		return comp(x, e)
	case "bitvector":
		x, e := view.AsBitVector(v, err)
		return comp(x, e)
	case "complexlist":
		x, e := view.AsComplexList(v, err)
		return comp(x, e)
	case "complexvector":
		x, e := view.AsComplexVector(v, err)
		return comp(x, e)
	case "container":
		x, e := view.AsContainer(v, err)
		return comp(x, e)
	case "union":
		x, e := view.AsUnion(v, err)
		return comp(x, e)
	}
	return "ERR"
}
