//go:build verif

package verifharness

import (
	"testing"
	"strings"

	"github.com/protolambda/ztyp/tree"
)

func c02Obs(t *Ty, v *Val, h tree.HashFn) string {
	ser, blen, dser, droot, dval := "ERR", "ERR", "ERR", "ERR", "ERR"
	var data []byte
	okSer := false
	func() {
		defer func() {
			if r := recover(); r != nil {
				ser = "PANIC"
			}
		}()
		vw, err := buildView(t, v)
		if err != nil {
			return
		}
		d, err := serializeView(vw)
		if err == nil {
			ser = hexBytes(d)
			data = d
			okSer = true
		}
		func() {
			defer func() {
				if r := recover(); r != nil {
					blen = "PANIC"
				}
			}()
			n, err := vw.ValueByteLength()
			if err == nil {
				blen = hx(n)
			}
		}()
	}()
	if okSer {
		func() {
			defer func() {
				if r := recover(); r != nil {
					dser, droot, dval = "PANIC", "PANIC", "PANIC"
				}
			}()
			vw, err := deserialize(t, data)
			if err != nil {
				return
			}
			if d2, err := serializeView(vw); err == nil {
				dser = hexBytes(d2)
			}
			droot = rootHex(vw.HashTreeRoot(h))
			func() {
				defer func() {
					if r := recover(); r != nil {
						dval = "PANIC"
					}
				}()
				if s, err := readVal(t, vw); err == nil {
					dval = strings.ReplaceAll(s, " ", "_")
				}
			}()
		}()
	}
	return joinKV("ser="+ser, "blen="+blen, "dser="+dser, "droot="+droot, "dval="+dval)
}

func TestC02(t *testing.T) {
	out := openOut(t, "C02")
	defer out.close()
	n := 900
	if thorough() {
		n = 25000
	}
	bitTys := []*Ty{}
	for _, k := range []uint64{1, 7, 8, 9, 33, 34, 64, 255, 256, 257, 512, 513} {
		bitTys = append(bitTys, &Ty{Kind: "bitvec", N: k}, &Ty{Kind: "bitlist", N: k})
	}
	for ci, cfg := range []string{"sha", "alt"} {
		g := &gen{r: newRng(int64(300 + ci)), noBool: false, maxElem: 40}
		withCfg(cfg, func(h tree.HashFn) {
			gb := &gen{r: newRng(int64(310 + ci)), maxElem: 600}
			for _, ty := range bitTys {
				for k := 0; k < 3; k++ {
					v := gb.val(ty)
					out.emit("bits", "c02", []string{cfg, ty.Sexp(), v.Sexp()}, c02Obs(ty, v, h))
				}
			}
			for k := 0; k < n; k++ {
				ty := g.ty(1 + g.r.Intn(3))
				v := g.val(ty)
				out.emit("gen", "c02", []string{cfg, ty.Sexp(), v.Sexp()}, c02Obs(ty, v, h))
			}
		})
	}
}
