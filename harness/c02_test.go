//go:build verif

package verifharness

import (
	"bytes"
	"fmt"
	"strings"
	"testing"

	"github.com/protolambda/ztyp/codec"
	"github.com/protolambda/ztyp/tree"
	"github.com/protolambda/ztyp/view"
)

func c02Obs(t *Ty, v *Val, h tree.HashFn) string {
	c02Route = (c02Route + 1) % 4
	ser, blen, dser, droot, dval := "ERR", "ERR", "ERR", "ERR", "ERR"
	var data []byte
	okSer := false
	func() {
		defer func() {
			if r := recover(); r != nil {
				ser = "PANIC"
			}
		}()
		vw, err := buildView(t, v)
		if err != nil {
			return
		}
		d, err := serializeView(vw)
		if err == nil {
			ser = hexBytes(d)
			data = d
			okSer = true
		}
		func() {
			defer func() {
				if r := recover(); r != nil {
					blen = "PANIC"
				}
			}()
			n, err := vw.ValueByteLength()
			if err == nil {
				blen = hx(n)
			}
		}()
	}()
	if okSer {
		func() {
			defer func() {
				if r := recover(); r != nil {
					dser, droot, dval = "PANIC", "PANIC", "PANIC"
				}
			}()
			vw, err := deserializeVia(t, data, c02Route)
			if err != nil {
				return
			}
			if d2, err := serializeView(vw); err == nil {
				dser = hexBytes(d2)
			}
			droot = rootHex(vw.HashTreeRoot(h))
			func() {
				defer func() {
					if r := recover(); r != nil {
						dval = "PANIC"
					}
				}()
				if s, err := readVal(t, vw); err == nil {
					dval = strings.ReplaceAll(s, " ", "_")
				}
			}()
		}()
	}
	return joinKV("ser="+ser, "blen="+blen, "dser="+dser, "droot="+droot, "dval="+dval)
}

// c02Route selects how the encoding reaches the decoder (the model's answer is the same for all):
// 0 a bytes.Reader; 1 a stream that delivers 1..3 bytes per call with "no progress" calls
// (0, nil) in between; 2 a reader the caller has already taken a header from (the value is
// what remains of the scope); 3 the same with the header taken byte by byte.
var c02Route int

func deserializeVia(t *Ty, data []byte, route int) (view.View, error) {
	switch route {
	case 1:
		r := &schedReader{data: append([]byte{}, data...), chunks: []int{1, 3, 2, 1, 1, 3, 2, 2}, failAfter: -1, stutter: true}
		return t.Def().Deserialize(codec.NewDecodingReader(r, uint64(len(data))))
	case 2, 3:
		hdr := []byte{0xca, 0xfe, 0xba, 0xbe, 0x01}
		dr := codec.NewDecodingReader(bytes.NewReader(append(append([]byte{}, hdr...), data...)), uint64(len(hdr)+len(data)))
		if route == 2 {
			if _, err := dr.Read(make([]byte, len(hdr))); err != nil {
				return nil, err
			}
		} else {
			for range hdr {
				if _, err := dr.ReadByte(); err != nil {
					return nil, err
				}
			}
		}
		return t.Def().Deserialize(dr)
	}
	return deserialize(t, data)
}

func TestC02(t *testing.T) {
	out := openOut(t, "C02")
	defer out.close()
	n := 900
	if thorough() {
		n = 25000
	}
	bitTys := []*Ty{}
	for _, k := range []uint64{1, 7, 8, 9, 33, 34, 64, 255, 256, 257, 512, 513} {
		bitTys = append(bitTys, &Ty{Kind: "bitvec", N: k}, &Ty{Kind: "bitlist", N: k})
	}
	// the typed cast helpers As*(view, err): accept exactly their own kind of view, hand the
	// value through, and propagate an error given to them
	withCfg("sha", func(h tree.HashFn) {
		ga := &gen{r: newRng(320), maxElem: 5}
		helpers := []string{"uint8", "byte", "uint16", "uint32", "uint64", "uint256", "bool", "root", "smallbytevec", "bytes4", "bytes8", "bytes16",
			"basiclist", "basicvector", "bitlist", "bitvector", "complexlist", "complexvector", "container", "union"}
		var tys []*Ty
		for _, nb := range []uint64{4, 8, 16, 5, 32} {
			tys = append(tys, &Ty{Kind: "bytes", N: nb})
		}
		for k := 0; k < 60; k++ {
			tys = append(tys, ga.ty(1+ga.r.Intn(2)))
		}
		for _, ty := range tys {
			v := ga.val(ty)
			for _, hp := range helpers {
				for _, mode := range []string{"ok", "err"} {
					obs := guard(func() string {
						vw, err := buildView(ty, v)
						if err != nil {
							return "ERR"
						}
						if mode == "err" {
							err = fmt.Errorf("upstream error")
						}
						return asCast(hp, vw, err, h)
					})
					out.emit("ascast", "ascast", []string{hp, ty.Sexp(), v.Sexp(), mode}, obs)
				}
			}
		}
	})
	for ci, cfg := range []string{"sha", "alt"} {
		g := &gen{r: newRng(int64(300 + ci)), noBool: false, maxElem: 40}
		withCfg(cfg, func(h tree.HashFn) {
			gb := &gen{r: newRng(int64(310 + ci)), maxElem: 600}
			for _, ty := range bitTys {
				for k := 0; k < 3; k++ {
					v := gb.val(ty)
					out.emit("bits", "c02", []string{cfg, ty.Sexp(), v.Sexp()}, c02Obs(ty, v, h))
				}
			}
			for _, ty := range wideContainers() {
				v := g.val(ty)
				out.emit("wide", "c02", []string{cfg, ty.Sexp(), v.Sexp()}, c02Obs(ty, v, h))
			}
			for k := 0; k < n; k++ {
				ty := g.ty(1 + g.r.Intn(3))
				v := g.val(ty)
				out.emit("gen", "c02", []string{cfg, ty.Sexp(), v.Sexp()}, c02Obs(ty, v, h))
			}
		})
	}
}

// asCast applies one of the library's As* helpers to (v, err) and renders the result: basic
// values as val s-expressions, composite views by their hash-tree-root.
func asCast(helper string, v view.View, err error, h tree.HashFn) string {
	basic := func(x view.View, e error) string {
		if e != nil {
			return "ERR"
		}
		s, e2 := readBasic(nil, x)
		if e2 != nil {
			return "ERR"
		}
		return "OK " + strings.ReplaceAll(s, " ", "_")
	}
	comp := func(x view.View, e error) string {
		if e != nil {
			return "ERR"
		}
		return "OK " + rootHex(x.HashTreeRoot(h))
	}
	arr := func(b []byte, e error) string {
		if e != nil {
			return "ERR"
		}
		return "OK (x_" + hexBytes(b) + ")"
	}
	switch helper {
	case "uint8":
		x, e := view.AsUint8(v, err)
		return basic(x, e)
	case "byte":
		x, e := view.AsByte(v, err)
		return basic(x, e)
	case "uint16":
		x, e := view.AsUint16(v, err)
		return basic(x, e)
	case "uint32":
		x, e := view.AsUint32(v, err)
		return basic(x, e)
	case "uint64":
		x, e := view.AsUint64(v, err)
		return basic(x, e)
	case "uint256":
		x, e := view.AsUint256(v, err)
		return basic(x, e)
	case "bool":
		x, e := view.AsBool(v, err)
		return basic(x, e)
	case "root":
		x, e := view.AsRoot(v, err)
		return arr(x[:], e)
	case "smallbytevec":
		x, e := view.AsSmallByteVec(v, err)
		return arr(x, e)
	case "bytes4":
		x, e := view.AsBytes4(v, err)
		return arr(x[:], e)
	case "bytes8":
		x, e := view.AsBytes8(v, err)
		return arr(x[:], e)
	case "bytes16":
		x, e := view.AsBytes16(v, err)
		return arr(x[:], e)
	case "basiclist":
		x, e := view.AsBasicList(v, err)
		return comp(x, e)
	case "basicvector":
		x, e := view.AsBasicVector(v, err)
		return comp(x, e)
	case "bitlist":
		x, e := view.AsBitList(v, err)
		return comp(x, e)
	case "bitvector":
		x, e := view.AsBitVector(v, err)
		return comp(x, e)
	case "complexlist":
		x, e := view.AsComplexList(v, err)
		return comp(x, e)
	case "complexvector":
		x, e := view.AsComplexVector(v, err)
		return comp(x, e)
	case "container":
		x, e := view.AsContainer(v, err)
		return comp(x, e)
	case "union":
		x, e := view.AsUnion(v, err)
		return comp(x, e)
	}
	return "ERR"
}
