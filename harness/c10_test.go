//go:build verif

package verifharness

import (
	"encoding/binary"
	"testing"
)

func c10Obs(t *Ty, data []byte) string { return c10ObsInto(t, data, nil) }

// c10ObsInto decodes into a fresh destination (prev == nil) or into one that already holds prev.
func c10ObsInto(t *Ty, data []byte, prev *Val) string {
	res := guard(func() string {
		dst := newFlat(t)
		if prev != nil {
			dst = flatOf(t, prev)
			// ... which has itself been decoded into before (objects are decoded into repeatedly)
			if pe, err := flatEncode(dst); err == nil {
				_ = flatDecode(dst, pe)
			}
		}
		if err := flatDecode(dst, data); err != nil {
			return "res=ERR reenc=-"
		}
		d2, err := flatEncode(dst)
		if err != nil {
			return "res=OK reenc=ERR"
		}
		return "res=OK reenc=" + hexBytes(d2)
	})
	if res == "PANIC" {
		return "res=PANIC reenc=-"
	}
	return res
}

func TestC10(t *testing.T) {
	out := openOut(t, "C10")
	defer out.close()
	seen := map[string]bool{}
	reuseCount := 0
	reuseGen := &gen{r: newRng(1010), maxElem: 4}
	do := func(tag string, ty *Ty, d []byte) {
		if ty.IsFixed() { // variable-size top level only: the library decides every scope
			return
		}
		key := ty.Sexp() + "|" + string(d)
		if seen[key] {
			return
		}
		seen[key] = true
		out.emit(tag, "c10", []string{ty.Sexp(), hexBytes(d)}, c10Obs(ty, d))
		// every 16th case also into a recycled destination: what it held before must not matter
		// (same model case: the model's answer does not depend on the prior state, C10 is stated
		// for every prior state)
		if reuseCount++; reuseCount%16 == 0 {
			out.emit(tag+"-reuse", "c10", []string{ty.Sexp(), hexBytes(d)}, c10ObsInto(ty, d, reuseGen.val(ty)))
		}
	}
	// one list of thousands of variable-size elements (offset tables of 16 KiB and more)
	for _, d := range manyElemCases() {
		out.emit("many", "c10", []string{d.ty.Sexp(), hexBytes(d.data)}, c10Obs(d.ty, d.data))
	}
	// inputs of 2^32 bytes and more (see huge_test.go)
	hugeCases(1011, true, func(tag string, ty *Ty, h *hugeInput) {
		if !ty.IsFixed() {
			out.emit(tag, "c10h", []string{ty.Sexp(), hexBytes(h.head), hx(h.pad), hexBytes(h.tail)}, c10hObs(ty, h))
		}
	})
	// single values of more than a megabyte (byte lists, bitlists, also as fields), into fresh
	// destinations and into recycled ones of smaller capacity
	{
		rb := newRng(1012)
		u8 := &Ty{Kind: "u", N: 1}
		bigL := &Ty{Kind: "list", Elem: u8, N: 1 << 40}
		sizes := []int{1<<20 + 4097}
		if thorough() {
			sizes = []int{1<<20 + 1, 1<<20 + 4097, 2<<20 - 1, 3<<20 + 5}
		}
		for _, n := range sizes {
			body := make([]byte, n)
			rb.Read(body)
			body[n-1] = 0x01 // a valid bitlist too: the delimiter is the top bit of the last byte
			off := []byte{5, 0, 0, 0, 0xaa}
			two := []byte{8, 0, 0, 0, byte(8 + n), byte((8 + n) >> 8), byte((8 + n) >> 16), 0}
			// (a valid bitlist of this size is left out: the model's bit sequences - one list
			// cell per bit - make it take minutes)
			cases := []struct {
				ty    *Ty
				d     []byte
				fresh bool
				reuse bool
			}{
				{bigL, body, true, thorough()},
				{&Ty{Kind: "bitlist", N: 1 << 40}, append(append([]byte{}, body[:n-1]...), 0), true, true}, // no delimiter
				{&Ty{Kind: "cont", Fields: []*Ty{bigL, u8}}, append(append([]byte{}, off...), body...), thorough(), thorough()},
				{&Ty{Kind: "cont", Fields: []*Ty{bigL, bigL}}, append(append(append([]byte{}, two...), body...), 1, 2, 3), thorough(), true},
			}
			for _, c := range cases {
				if c.fresh {
					out.emit("bigval", "c10", []string{c.ty.Sexp(), hexBytes(c.d)}, c10Obs(c.ty, c.d))
				}
				if c.reuse {
					out.emit("bigval-reuse", "c10", []string{c.ty.Sexp(), hexBytes(c.d)}, c10ObsInto(c.ty, c.d, reuseGen.val(c.ty)))
				}
			}
		}
	}
	full := []byte{}
	for b := 0; b < 256; b++ {
		full = append(full, byte(b))
	}
	alpha := []byte{0x00, 0x01, 0x02, 0x03, 0x04, 0x05, 0x08, 0xff}
	aLen := 4
	if thorough() {
		aLen = 6
	}
	rng := newRng(10)
	for _, ty := range smallTypes() {
		allStrings(full, 1, func(d []byte) { do("ex1", ty, d) })
		if thorough() {
			allStrings(full, 2, func(d []byte) { do("ex2", ty, d) })
		} else {
			for k := 0; k < 2500; k++ {
				do("s2", ty, []byte{byte(rng.Intn(256)), byte(rng.Intn(256))})
			}
		}
		allStrings(alpha, aLen, func(d []byte) { do("exa", ty, d) })
	}
	for _, ty := range varSeriesTypes() {
		maxC, maxP := 2, 3
		if thorough() {
			maxC, maxP = 3, 4
		}
		for c := 1; c <= maxC; c++ {
			offsetTables(c, maxP, func(d []byte) { do("offtab", ty, d) })
		}
	}
	overLimitCases(newRng(1033), func(ty *Ty, d []byte) { do("overlimit", ty, d) })
	{
		gw := &gen{r: newRng(1034), maxElem: 4}
		for _, ty := range wideContainers() {
			for k := 0; k < 3; k++ {
				data, err := flatEncode(flatOf(ty, gw.val(ty)))
				if err != nil {
					continue
				}
				do("wide", ty, data)
				corrupt(gw.r, data, 6, func(tag string, d []byte) { do("wide-"+tag, ty, d) })
			}
		}
	}
	n := 260
	if thorough() {
		n = 5000
	}
	maxPos := 6
	if thorough() {
		maxPos = 40
	}
	g := &gen{r: newRng(11), maxElem: 12}
	for k := 0; k < n; k++ {
		ty := g.ty(1 + g.r.Intn(3))
		if ty.IsFixed() {
			continue
		}
		v := g.val(ty)
		var data []byte
		okEnc := false
		func() {
			defer func() { recover() }()
			d, err := flatEncode(flatOf(ty, v))
			if err == nil {
				data, okEnc = d, true
			}
		}()
		if !okEnc || len(data) > 400 {
			continue
		}
		do("valid", ty, data)
		corrupt(g.r, data, maxPos, func(tag string, d []byte) { do(tag, ty, d) })
	}
	big := []*Ty{
		{Kind: "list", Elem: &Ty{Kind: "list", Elem: &Ty{Kind: "u", N: 1}, N: 1 << 40}, N: 1 << 40},
		{Kind: "list", Elem: &Ty{Kind: "bitlist", N: 1 << 40}, N: 1 << 32},
		{Kind: "cont", Fields: []*Ty{{Kind: "list", Elem: &Ty{Kind: "u", N: 8}, N: 1 << 40}, {Kind: "bitlist", N: 1 << 40}}},
	}
	for _, ty := range big {
		for _, w := range []uint32{0, 4, 8, 12, 16, 0x0ffffffc, 0xfffffffc, 0x10, 0x100, 1 << 20} {
			for _, tail := range [][]byte{nil, {1}, {1, 2, 3, 4}, {4, 0, 0, 0, 1}, make([]byte, 12)} {
				d := make([]byte, 4)
				binary.LittleEndian.PutUint32(d, w)
				do("big", ty, append(d, tail...))
			}
		}
	}
}
