//go:build verif

package verifharness

import (
	"bytes"
	"testing"

	"github.com/protolambda/ztyp/tree"
)

// watchedFlatRoot hashes a flat value with a hash function that looks at the value every time it
// is called: the helpers only read their input, so its encoding is the same at every moment of
// the computation (stable=1) - also in the middle of it, where another reader of the same bytes
// would see it.
func watchedFlatRoot(f Flat, h tree.HashFn) string {
	before, err := flatEncode(f)
	if err != nil {
		return "root=" + rootHex(f.HashTreeRoot(h))
	}
	stable := true
	look := func() {
		now, err := flatEncode(f)
		if err != nil || !bytes.Equal(now, before) {
			stable = false
		}
	}
	hw := tree.HashFn(func(a, b tree.Root) tree.Root {
		look()
		return h(a, b)
	})
	r := f.HashTreeRoot(hw)
	look()
	return "root=" + rootHex(r) + " stable=" + b01(stable)
}

func TestC08(t *testing.T) {
	out := openOut(t, "C08")
	defer out.close()
	for ci, cfg := range []string{"sha", "alt"} {
		rng := newRng(int64(800 + ci))
		withCfg(cfg, func(h tree.HashFn) {
			merk := func(tag string, count, limit uint64) {
				n := count
				if limit < n {
					n = limit
				}
				leaves := make([]byte, 32*n)
				rng.Read(leaves)
				if rng.Intn(5) == 0 {
					for i := range leaves {
						leaves[i] = 0
					}
				}
				obs := guard(func() string {
					r := tree.Merkleize(h, count, limit, func(i uint64) (o tree.Root) {
						copy(o[:], leaves[32*i:])
						return
					})
					return "root=" + rootHex(r)
				})
				if obs == "PANIC" {
					obs = "root=PANIC"
				}
				out.emit(tag, "merk", []string{cfg, hx(count), hx(limit), hexBytes(leaves)}, obs)
			}
			// exhaustive: all (count, limit) with count <= limit <= maxL
			maxL := uint64(34)
			if thorough() {
				maxL = 70
			}
			for limit := uint64(0); limit <= maxL; limit++ {
				for count := uint64(0); count <= limit; count++ {
					merk("ex", count, limit)
				}
			}
			// limits 2^k, 2^k +- 1 up to 2^64-1 with small counts
			for k := uint(1); k < 64; k++ {
				for _, limit := range []uint64{1 << k, 1<<k - 1, 1<<k + 1} {
					for _, count := range []uint64{0, 1, 2, 3, 4, 5, 8, 9} {
						if count <= limit && (thorough() || (k%4 == 0 || count < 4)) {
							merk("big", count, limit)
						}
					}
				}
			}
			merk("big", 3, ^uint64(0))
			merk("big", 0, ^uint64(0))
			merk("big", 7, 1<<63)
			// a zero-hash table that is exactly as deep as the limit needs (InitZeroHashes with
			// fewer levels than the default 64): the routine only uses entries below the limit's depth
			for d := uint(1); d <= 11; d++ {
				tree.InitZeroHashes(pairOf(cfg), d-1)
				for _, limit := range []uint64{1<<(d-1) + 1, 1 << d} {
					if limit < 2 || tree.CoverDepth(limit) != uint8(d) {
						continue
					}
					for _, count := range []uint64{0, 1, 2, 3, limit / 2, limit - 1, limit} {
						if count <= limit && count <= 40 {
							merk("shallow", count, limit)
						}
					}
				}
			}
			tree.InitZeroHashes(pairOf(cfg), 64)
			// flat values of generated types
			n := 500
			if thorough() {
				n = 15000
			}
			g := &gen{r: newRng(int64(810 + ci)), maxElem: 40}
			for k := 0; k < n; k++ {
				ty := g.ty(1 + g.r.Intn(3))
				v := g.val(ty)
				obs := guard(func() string { return watchedFlatRoot(flatOf(ty, v), h) })
				if obs == "PANIC" {
					obs = "root=PANIC"
				}
				// ... and the root of the tree-backed view of the same value (not for bool
				// sequences: known finding D3, reported under C01)
				if !ty.HasBoolSeq() {
					obs += " " + guard(func() string {
						vw, err := buildView(ty, v)
						if err != nil {
							return "vroot=ERR"
						}
						return "vroot=" + rootHex(vw.HashTreeRoot(h))
					})
				}
				out.emit("flat", "c08", []string{cfg, ty.Sexp(), v.Sexp()}, obs)
			}
			// the uint8 helpers (callback form) on the same packing boundaries
			for _, n := range []int{0, 1, 31, 32, 33, 63, 64, 65, 95, 96, 97, 1023, 1024, 1025} {
				data := make([]byte, n)
				rng.Read(data)
				get := func(i uint64) uint8 { return data[i] }
				obs := guard(func() string { return "root=" + rootHex(h.Uint8VectorHTR(get, uint64(n))) })
				if obs == "PANIC" {
					obs = "root=PANIC"
				}
				out.emit("u8", "u8htr", []string{cfg, "vec", hexBytes(data), "0"}, obs)
				for _, lim := range []uint64{uint64(n), uint64(n) + 1, uint64(n) + 31, 1 << 20, 1 << 40} {
					l := lim
					obs := guard(func() string { return "root=" + rootHex(h.Uint8ListHTR(get, uint64(n), l)) })
					if obs == "PANIC" {
						obs = "root=PANIC"
					}
					out.emit("u8", "u8htr", []string{cfg, "list", hexBytes(data), hx(l)}, obs)
				}
			}
			// packing boundaries of the dedicated helpers
			for _, n := range []uint64{0, 1, 31, 32, 33, 63, 64, 65, 255, 256, 257, 512, 513} {
				for _, lim := range []uint64{n, n + 1, 1 << 20, 1 << 40} {
					tys := []*Ty{
						{Kind: "list", Elem: &Ty{Kind: "u", N: 1}, N: lim},
						{Kind: "list", Elem: &Ty{Kind: "u", N: 8}, N: lim},
						{Kind: "bitlist", N: lim},
					}
					if n > 0 && lim == n {
						tys = append(tys, &Ty{Kind: "vec", Elem: &Ty{Kind: "u", N: 1}, N: n}, &Ty{Kind: "vec", Elem: &Ty{Kind: "u", N: 8}, N: n}, &Ty{Kind: "bitvec", N: n})
					}
					for _, ty := range tys {
						gg := &gen{r: rng, maxElem: int(n)}
						var v *Val
						for tries := 0; tries < 200; tries++ {
							v = gg.val(ty)
							if (ty.Kind == "bitlist" || ty.Kind == "bitvec") && uint64(len(v.Bits)) == n {
								break
							}
							if (ty.Kind == "list" || ty.Kind == "vec") && uint64(len(v.Seq)) == n {
								break
							}
						}
						obs := guard(func() string { return "root=" + rootHex(flatOf(ty, v).HashTreeRoot(h)) })
						if obs == "PANIC" {
							obs = "root=PANIC"
						}
						out.emit("bound", "c08", []string{cfg, ty.Sexp(), v.Sexp()}, obs)
					}
				}
			}
		})
	}
}
