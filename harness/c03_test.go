//go:build verif

package verifharness

import (
	"encoding/binary"
	"fmt"
	"math/rand"
	"testing"

	"github.com/protolambda/ztyp/view"
)

func c03Obs(t *Ty, data []byte) string {
	res := guard(func() string {
		vw, err := deserialize(t, data)
		if err != nil {
			return "res=ERR reser=-"
		}
		d2, err := serializeView(vw)
		if err != nil {
			return "res=OK reser=ERR"
		}
		return "res=OK reser=" + hexBytes(d2)
	})
	if res == "PANIC" {
		return "res=PANIC reser=-"
	}
	return res
}

func isLeafTy(t *Ty) bool {
	switch t.Kind {
	case "u", "bool", "bytes", "root":
		return true
	}
	return false
}

// corruptions of a valid encoding, structure-aware in the sense that every 4-byte window is
// treated as a potential offset word
func corrupt(r *rand.Rand, data []byte, maxPos int, f func(tag string, d []byte)) {
	n := len(data)
	cp := func() []byte { return append([]byte{}, data...) }
	positions := []int{}
	for p := 0; p+4 <= n; p++ {
		positions = append(positions, p)
	}
	if len(positions) > maxPos {
		r.Shuffle(len(positions), func(i, j int) { positions[i], positions[j] = positions[j], positions[i] })
		// always keep the first words (first offsets live there)
		keep := []int{}
		for p := 0; p+4 <= n && p < 12; p++ {
			keep = append(keep, p)
		}
		positions = append(keep, positions[:maxPos]...)
	}
	// offset tables: make neighbouring words equal (zero-length spans)
	for _, p := range positions {
		for _, q := range []int{p + 4, p - 4} {
			if q >= 0 && q+4 <= n {
				d := cp()
				copy(d[p:p+4], data[q:q+4])
				f("dup", d)
			}
		}
	}
	for _, p := range positions {
		w := binary.LittleEndian.Uint32(data[p:])
		for _, nw := range []uint32{w + 1, w - 1, w + 4, w - 4, 0, uint32(n), uint32(n) + 1, r.Uint32() % uint32(n+8), 0xfffffffc, r.Uint32()} {
			if nw == w {
				continue
			}
			d := cp()
			binary.LittleEndian.PutUint32(d[p:], nw)
			f("off", d)
		}
	}
	for k := 1; k <= 5; k++ {
		if n >= k {
			f("trunc", cp()[:n-k])
		}
		ext := cp()
		for j := 0; j < k; j++ {
			ext = append(ext, byte(r.Intn(256)))
		}
		f("ext", ext)
		f("ext0", append(cp(), make([]byte, k)...))
	}
	if n > 0 {
		for b := 0; b < 8; b++ {
			d := cp()
			d[n-1] ^= 1 << uint(b)
			f("flip", d)
			d2 := cp()
			d2[0] ^= 1 << uint(b)
			f("flip0", d2)
		}
		for _, v := range []byte{0, 1, 2, 3, 5, 127, 128, 255} {
			d := cp()
			d[0] = v
			f("sel", d)
			d2 := cp()
			d2[r.Intn(n)] = v
			f("byte", d2)
		}
		for k := 0; k < 4; k++ {
			p := r.Intn(n)
			f("del", append(cp()[:p], data[p+1:]...))
			ins := append(cp()[:p], byte(r.Intn(256)))
			ins = append(ins, data[p:]...)
			f("ins", ins)
		}
	}
}

func allStrings(alpha []byte, maxLen int, f func(d []byte)) {
	var rec func(cur []byte)
	rec = func(cur []byte) {
		f(append([]byte{}, cur...))
		if len(cur) == maxLen {
			return
		}
		for _, a := range alpha {
			rec(append(cur, a))
		}
	}
	rec(nil)
}

// offsetTables enumerates byte strings that consist of a table of `count` offset words
// followed by a short payload: every combination of offsets near the canonical values.
func offsetTables(count int, maxPayload int, f func(d []byte)) {
	base := uint32(4 * count)
	cands := []uint32{0, base - 4, base, base + 1, base + 2, base + 3, base + 4, base + 5}
	payloadBytes := []byte{0x00, 0x01, 0x02, 0x03, 0xff}
	var payloads [][]byte
	var rec func(cur []byte)
	rec = func(cur []byte) {
		payloads = append(payloads, append([]byte{}, cur...))
		if len(cur) == maxPayload {
			return
		}
		for _, b := range payloadBytes {
			rec(append(cur, b))
		}
	}
	rec(nil)
	offs := make([]uint32, count)
	var recO func(k int)
	recO = func(k int) {
		if k == count {
			for _, pl := range payloads {
				d := make([]byte, 4*count, 4*count+len(pl))
				for i, o := range offs {
					binary.LittleEndian.PutUint32(d[4*i:], o)
				}
				f(append(d, pl...))
			}
			return
		}
		for _, c := range cands {
			offs[k] = c
			recO(k + 1)
		}
	}
	recO(0)
}

func varSeriesTypes() []*Ty {
	u8 := &Ty{Kind: "u", N: 1}
	return []*Ty{
		{Kind: "list", Elem: &Ty{Kind: "bitlist", N: 8}, N: 4},
		{Kind: "list", Elem: &Ty{Kind: "list", Elem: u8, N: 3}, N: 4},
		{Kind: "list", Elem: &Ty{Kind: "union", None: true, Fields: []*Ty{u8}}, N: 4},
		{Kind: "list", Elem: &Ty{Kind: "cont", Fields: []*Ty{{Kind: "list", Elem: u8, N: 2}}}, N: 4},
		{Kind: "vec", Elem: &Ty{Kind: "bitlist", N: 8}, N: 2},
		{Kind: "vec", Elem: &Ty{Kind: "list", Elem: u8, N: 3}, N: 1},
		{Kind: "vec", Elem: &Ty{Kind: "list", Elem: u8, N: 3}, N: 3},
		{Kind: "cont", Fields: []*Ty{{Kind: "bitlist", N: 8}, {Kind: "list", Elem: u8, N: 3}}},
		{Kind: "cont", Fields: []*Ty{{Kind: "list", Elem: u8, N: 3}, {Kind: "bitlist", N: 8}, {Kind: "union", None: true, Fields: []*Ty{u8}}}},
	}
}

func smallTypes() []*Ty {
	u8 := &Ty{Kind: "u", N: 1}
	u16 := &Ty{Kind: "u", N: 2}
	return []*Ty{
		{Kind: "list", Elem: &Ty{Kind: "list", Elem: u8, N: 2}, N: 2},
		{Kind: "cont", Fields: []*Ty{u8, {Kind: "bitlist", N: 3}}},
		{Kind: "union", None: true, Fields: []*Ty{u16, {Kind: "bitvec", N: 3}}},
		{Kind: "union", None: false, Fields: []*Ty{u8, {Kind: "list", Elem: u8, N: 2}}},
		{Kind: "vec", Elem: &Ty{Kind: "list", Elem: u8, N: 1}, N: 2},
		{Kind: "list", Elem: &Ty{Kind: "bool"}, N: 3},
		{Kind: "bitlist", N: 9},
		{Kind: "bitvec", N: 10},
		{Kind: "cont", Fields: []*Ty{{Kind: "list", Elem: u8, N: 1}, {Kind: "list", Elem: u8, N: 1}}},
		{Kind: "list", Elem: &Ty{Kind: "bitlist", N: 2}, N: 2},
		{Kind: "list", Elem: &Ty{Kind: "union", None: true, Fields: []*Ty{u8}}, N: 2},
		{Kind: "cont", Fields: []*Ty{{Kind: "vec", Elem: &Ty{Kind: "bitlist", N: 1}, N: 1}, {Kind: "bool"}}},
	}
}

func TestC03(t *testing.T) {
	out := openOut(t, "C03")
	defer out.close()
	seen := map[string]bool{}
	do := func(tag string, ty *Ty, d []byte) {
		if isLeafTy(ty) {
			return
		}
		key := ty.Sexp() + "|" + string(d)
		if seen[key] {
			return
		}
		seen[key] = true
		out.emit(tag, "c03", []string{ty.Sexp(), hexBytes(d)}, c03Obs(ty, d))
	}
	// exhaustive small strings for small types
	full := []byte{}
	for b := 0; b < 256; b++ {
		full = append(full, byte(b))
	}
	alpha := []byte{0x00, 0x01, 0x02, 0x03, 0x04, 0x05, 0x08, 0xff}
	aLen := 4
	if thorough() {
		aLen = 6
	}
	g0 := newRng(33)
	for _, ty := range smallTypes() {
		allStrings(full, 1, func(d []byte) { do("ex1", ty, d) })
		if thorough() {
			allStrings(full, 2, func(d []byte) { do("ex2", ty, d) })
		} else {
			for k := 0; k < 2500; k++ {
				do("s2", ty, []byte{byte(g0.Intn(256)), byte(g0.Intn(256))})
			}
		}
		allStrings(alpha, aLen, func(d []byte) { do("exa", ty, d) })
	}
	// offset tables of 1..3 words with short payloads, for series of variable-size elements
	for _, ty := range varSeriesTypes() {
		maxC, maxP := 2, 3
		if thorough() {
			maxC, maxP = 3, 4
		}
		for c := 1; c <= maxC; c++ {
			offsetTables(c, maxP, func(d []byte) { do("offtab", ty, d) })
		}
	}
	overLimitCases(newRng(333), func(ty *Ty, d []byte) { do("overlimit", ty, d) })
	// containers with many fields (field index beyond 64, offsets beyond one byte)
	{
		gw := &gen{r: newRng(334), maxElem: 4}
		for _, ty := range wideContainers() {
			for k := 0; k < 3; k++ {
				vw, err := buildViewSafe(ty, gw.val(ty))
				if err != nil {
					continue
				}
				data, err := serializeView(vw)
				if err != nil {
					continue
				}
				do("wide", ty, data)
				corrupt(gw.r, data, 6, func(tag string, d []byte) { do("wide-"+tag, ty, d) })
			}
		}
	}
	// leaf types at exactly their size (valid + bool 2)
	n := 260
	if thorough() {
		n = 5000
	}
	maxPos := 6
	if thorough() {
		maxPos = 40
	}
	g := &gen{r: newRng(3), maxElem: 12}
	for k := 0; k < n; k++ {
		ty := g.ty(1 + g.r.Intn(3))
		if isLeafTy(ty) {
			continue
		}
		v := g.val(ty)
		vw, err := buildViewSafe(ty, v)
		if err != nil {
			continue
		}
		data, err := serializeView(vw)
		if err != nil || len(data) > 400 {
			continue
		}
		do("valid", ty, data)
		corrupt(g.r, data, maxPos, func(tag string, d []byte) { do(tag, ty, d) })
	}
	// one list of thousands of variable-size elements (offset tables of 16 KiB and more)
	for _, d := range manyElemCases() {
		do("many", d.ty, d.data)
	}
	// inputs of 2^32 bytes and more (see huge_test.go)
	hugeCases(335, false, func(tag string, ty *Ty, h *hugeInput) {
		out.emit(tag, "c03h", []string{ty.Sexp(), hexBytes(h.head), hx(h.pad), hexBytes(h.tail)}, c03hObs(ty, h))
	})
	// large limits with hostile first offsets
	big := []*Ty{
		{Kind: "list", Elem: &Ty{Kind: "list", Elem: &Ty{Kind: "u", N: 1}, N: 1 << 40}, N: 1 << 40},
		{Kind: "list", Elem: &Ty{Kind: "bitlist", N: 1 << 40}, N: 1 << 32},
		{Kind: "cont", Fields: []*Ty{{Kind: "list", Elem: &Ty{Kind: "u", N: 8}, N: 1 << 40}, {Kind: "bitlist", N: 1 << 40}}},
	}
	for _, ty := range big {
		for _, w := range []uint32{0, 4, 8, 12, 16, 0x0ffffffc, 0xfffffffc, 0x10, 0x100, 1 << 20} {
			for _, tail := range [][]byte{nil, {1}, {1, 2, 3, 4}, {4, 0, 0, 0, 1}, make([]byte, 12)} {
				d := make([]byte, 4)
				binary.LittleEndian.PutUint32(d, w)
				do("big", ty, append(d, tail...))
			}
		}
	}
}

func buildViewSafe(t *Ty, v *Val) (vw view.View, err error) {
	defer func() {
		if r := recover(); r != nil {
			err = fmt.Errorf("panic: %v", r)
		}
	}()
	vw, err = buildView(t, v)
	if err == nil {
		// constructors may hand back a view with a nil backing (D1): force a use
		_, err = serializeView(vw)
	}
	return
}

// overLimitCases feeds a decoder of List[e, n] / Bitlist[n] the valid encoding of a value with
// n+1 .. n+3 elements (encoded through the same type with a larger limit), also nested in a
// container: the count must be checked against the limit, whatever the byte size allows.
func overLimitCases(r *rand.Rand, f func(ty *Ty, d []byte)) {
	u8 := &Ty{Kind: "u", N: 1}
	elems := []*Ty{
		u8, {Kind: "u", N: 8}, {Kind: "bool"}, {Kind: "root"},
		{Kind: "list", Elem: u8, N: 10}, {Kind: "bitlist", N: 12},
		{Kind: "cont", Fields: []*Ty{u8, {Kind: "list", Elem: u8, N: 10}}},
		{Kind: "cont", Fields: []*Ty{u8, {Kind: "u", N: 2}}},
		{Kind: "union", None: true, Fields: []*Ty{{Kind: "list", Elem: u8, N: 10}}},
	}
	g := &gen{r: r, maxElem: 0}
	for _, e := range elems {
		for _, n := range []uint64{0, 1, 2, 5} {
			for extra := uint64(1); extra <= 3; extra++ {
				wide := &Ty{Kind: "list", Elem: e, N: n + extra}
				narrow := &Ty{Kind: "list", Elem: e, N: n}
				v := &Val{Kind: "seq"}
				for i := uint64(0); i < n+extra; i++ {
					v.Seq = append(v.Seq, g.val(e)) // maxElem 0: inner collections are empty
				}
				vw, err := buildViewSafe(wide, v)
				if err != nil {
					continue
				}
				d, err := serializeView(vw)
				if err != nil {
					continue
				}
				f(narrow, d)
				// the same list as the (only variable-size) field of a container
				off := []byte{5, 0, 0, 0, 0xaa}
				f(&Ty{Kind: "cont", Fields: []*Ty{narrow, u8}}, append(off, d...))
			}
		}
	}
	for _, n := range []uint64{0, 1, 7, 8, 9, 255, 256} {
		for extra := uint64(1); extra <= 2; extra++ {
			v := &Val{Kind: "bits", Bits: make([]bool, n+extra)}
			vw, err := buildViewSafe(&Ty{Kind: "bitlist", N: n + extra}, v)
			if err != nil {
				continue
			}
			d, err := serializeView(vw)
			if err == nil {
				f(&Ty{Kind: "bitlist", N: n}, d)
			}
		}
	}
}
