//go:build verif

package verifharness

import (
	"bytes"
	"errors"
	"io"
	"strconv"
	"strings"
	"testing"

	"github.com/protolambda/ztyp/codec"
)

// schedReader delivers its data in chunks; it may report io.EOF together with the last bytes
// and may fail after a number of bytes.
type schedReader struct {
	data        []byte
	chunks      []int // upcoming chunk sizes; afterwards: whatever is requested
	eofWithData bool
	failAfter   int // -1: never
	stutter     bool // every other call reports "no progress": (0, nil), as io.Reader allows
	idle        bool
	tempFails   int // > 0: the failure is a tempError, reported that many times, then the stream goes on
}

var errInjected = errors.New("injected stream failure")

// set by the watching sink of the write stream when the counter ran ahead of (or behind) what
// the sink had accepted at the start of one of its Write calls
var inflightBad bool

// tempError is what a connection with a read deadline reports: it says of itself that it is
// temporary.  The decoder is not told that lost bytes will be re-sent: a failure is a failure.
type tempError struct{}

func (tempError) Error() string   { return "injected temporary failure" }
func (tempError) Temporary() bool { return true }
func (tempError) Timeout() bool   { return true }

func (r *schedReader) Read(p []byte) (int, error) {
	if len(p) == 0 {
		return 0, nil
	}
	if r.failAfter == 0 {
		if r.tempFails > 0 {
			if r.tempFails--; r.tempFails == 0 {
				r.failAfter = -1
			}
			return 0, tempError{}
		}
		return 0, errInjected
	}
	if r.stutter {
		if r.idle = !r.idle; r.idle {
			return 0, nil
		}
	}
	if len(r.data) == 0 {
		return 0, io.EOF
	}
	k := len(p)
	if len(r.chunks) > 0 {
		c := r.chunks[0]
		if c < 1 {
			c = 1
		}
		r.chunks = r.chunks[1:]
		if c < k {
			k = c
		}
	}
	if len(r.data) < k {
		k = len(r.data)
	}
	if r.failAfter > 0 && r.failAfter < k {
		k = r.failAfter
	}
	copy(p, r.data[:k])
	r.data = r.data[k:]
	if r.failAfter > 0 {
		r.failAfter -= k
	}
	if len(r.data) == 0 && r.eofWithData {
		return k, io.EOF
	}
	return k, nil
}

// failWriter accepts budget bytes, then fails (accepting the part that still fits)
// chunkFailWriter makes short writes (at most chunk bytes per call, nil error) and fails once
// its budget is used up, accepting the part that still fits.
type chunkFailWriter struct {
	buf    bytes.Buffer
	budget int
	chunk  int
}

func (w *chunkFailWriter) Write(p []byte) (int, error) {
	m := len(p)
	if m > w.chunk {
		m = w.chunk
	}
	if w.budget < m {
		k := w.budget
		w.buf.Write(p[:k])
		w.budget = 0
		return k, errInjected
	}
	w.buf.Write(p[:m])
	w.budget -= m
	return m, nil
}

// byteFailWriter is a failWriter that also offers io.ByteWriter (like bytes.Buffer and
// bufio.Writer do): an optional capability an encoder might use for single bytes.
type byteFailWriter struct{ failWriter }

func (w *byteFailWriter) WriteByte(b byte) error {
	_, err := w.failWriter.Write([]byte{b})
	return err
}

type failWriter struct {
	// watch, when set, is the EncodingWriter that writes into this sink: at the start of every
	// Write call its counter must equal what the sink has accepted so far (a progress display)
	watch    *codec.EncodingWriter
	watchBad bool
	buf      bytes.Buffer
	budget int
	eager  bool
	once   bool // the failure is transient: after reporting it once the sink accepts everything
	failed bool
}

func (w *failWriter) Write(p []byte) (int, error) {
	if w.watch != nil && w.watch.Written() != w.buf.Len() {
		w.watchBad = true
	}
	if w.once && w.failed {
		w.buf.Write(p)
		return len(p), nil
	}
	if w.once && len(p) > w.budget {
		w.failed = true
	}
	if w.eager && len(p) == w.budget {
		// reports the failure in the call that reaches the budget, although the slice fits
		w.buf.Write(p)
		w.budget = 0
		return len(p), errInjected
	}
	if len(p) <= w.budget {
		w.buf.Write(p)
		w.budget -= len(p)
		return len(p), nil
	}
	k := w.budget
	w.buf.Write(p[:k])
	w.budget = 0
	return k, errInjected
}

func repeatInt(c, n int) []int {
	out := make([]int, n)
	for i := range out {
		out[i] = c
	}
	return out
}

func intsCSV(xs []int) string {
	if len(xs) == 0 {
		return "-"
	}
	p := make([]string, len(xs))
	for i, x := range xs {
		p[i] = hx(uint64(x))
	}
	return strings.Join(p, ",")
}

func TestC13(t *testing.T) {
	out := openOut(t, "C13")
	defer out.close()
	n := 60
	if thorough() {
		n = 1500
	}
	g := &gen{r: newRng(13), noBool: false, maxElem: 8}
	// primitive level: sequences of Read calls over scheduled readers
	for k := 0; k < n*4; k++ {
		data := make([]byte, g.r.Intn(40))
		g.r.Read(data)
		var chunks []int
		for j := g.r.Intn(12); j > 0; j-- {
			chunks = append(chunks, 1+g.r.Intn(9))
		}
		eof := g.r.Intn(2) == 0
		fail := -1
		if g.r.Intn(3) == 0 {
			fail = g.r.Intn(len(data) + 2)
		}
		var reqs []int
		total := 0
		for j := 1 + g.r.Intn(6); j > 0; j-- {
			q := g.r.Intn(12)
			reqs = append(reqs, q)
			total += q
		}
		failS := "-"
		if fail >= 0 {
			failS = hx(uint64(fail))
		}
		obs := guard(func() string {
			dr := codec.NewDecodingReader(&schedReader{data: append([]byte{}, data...), chunks: append([]int{}, chunks...), eofWithData: eof, failAfter: fail}, uint64(len(data)))
			var parts []string
			for _, q := range reqs {
				p := make([]byte, q)
				if _, err := dr.Read(p); err != nil {
					return "ERR"
				}
				parts = append(parts, hexBytes(p))
			}
			return "OK " + strings.Join(parts, ",")
		})
		out.emit("prim", "c13p", []string{hexBytes(data), intsCSV(chunks), b01(eof), failS, intsCSV(reqs)}, obs)
	}
	// primitive level with nested sub-scopes: scripts of  s<count> (SubScope of the current
	// reader, descend), r<k> (Read k through the current reader), u (back to the parent)
	for k := 0; k < n*6; k++ {
		data := make([]byte, g.r.Intn(48))
		g.r.Read(data)
		var chunks []int
		for j := g.r.Intn(12); j > 0; j-- {
			chunks = append(chunks, 1+g.r.Intn(9))
		}
		eof := g.r.Intn(2) == 0
		fail := -1
		if g.r.Intn(4) == 0 {
			fail = g.r.Intn(len(data) + 2)
		}
		scope := len(data)
		if g.r.Intn(5) == 0 {
			scope += g.r.Intn(6) // a declared scope beyond the stream
		}
		var script []string
		// mostly-valid scripts: the generator tracks what each open scope still allows (reads
		// through a child do not advance the parent's index, so only the own frame shrinks)
		rem := []int{scope}
		for j := 2 + g.r.Intn(10); j > 0; j-- {
			top := rem[len(rem)-1]
			switch c := g.r.Intn(10); {
			case c < 3:
				cnt := g.r.Intn(top + 1)
				if g.r.Intn(10) == 0 {
					cnt = top + 1 + g.r.Intn(3)
				}
				script = append(script, "s"+hx(uint64(cnt)))
				rem = append(rem, cnt)
			case c < 5 && len(rem) > 1:
				if g.r.Intn(3) == 0 {
					// back to the parent, telling it how far the child has read
					// (UpdateIndexFromScoped: the child's index is added to the parent's)
					script = append(script, "U")
					rem = rem[:len(rem)-1]
					// the parent's remaining scope shrinks by what the child consumed; the
					// generator does not track that exactly (reads may then fail, which is fine)
				} else {
					script = append(script, "u")
					rem = rem[:len(rem)-1]
				}
			default:
				q := 0
				if top > 0 {
					q = g.r.Intn(top + 1)
					if q > 7 {
						q = g.r.Intn(8)
					}
				}
				if g.r.Intn(12) == 0 {
					q = top + 1 + g.r.Intn(3)
				}
				script = append(script, "r"+hx(uint64(q)))
				if q <= top {
					rem[len(rem)-1] = top - q
				}
			}
		}
		failS := "-"
		if fail >= 0 {
			failS = hx(uint64(fail))
		}
		obs := guard(func() string {
			return runReaderScript(codec.NewDecodingReader(&schedReader{data: append([]byte{}, data...), chunks: append([]int{}, chunks...), eofWithData: eof, failAfter: fail}, uint64(scope)), script)
		})
		out.emit("primsub", "c13pc", []string{hexBytes(data), intsCSV(chunks), b01(eof), failS, hx(uint64(scope)), strings.Join(script, ",")}, obs)
	}
	// siblings under a nested scope: reads through the first child use up the limit of the
	// PARENT scope (its index does not move), so a second child cannot read past it — enumerated
	{
		data := make([]byte, 14)
		for i := range data {
			data[i] = byte(0xa0 + i)
		}
		runScript := func(script []string) string {
			return guard(func() string {
				return runReaderScript(codec.NewDecodingReader(&schedReader{data: append([]byte{}, data...), chunks: []int{3, 1, 2}, failAfter: -1}, uint64(len(data))), script)
			})
		}
		for p := 3; p <= 7; p++ {
			for a := 1; a <= p; a++ {
				for b := 1; b <= p; b++ {
					if !thorough() && (a+b+p)%2 == 1 {
						continue
					}
					for _, x := range []int{0, 2} {
						script := []string{"s" + hx(uint64(p)), "s" + hx(uint64(a)), "r" + hx(uint64(a)), "u", "s" + hx(uint64(b)), "r" + hx(uint64(b)), "u", "r" + hx(uint64(x)), "u", "r3"}
						out.emit("siblings", "c13pc", []string{hexBytes(data), "3,1,2", "0", "-", hx(uint64(len(data))), strings.Join(script, ",")}, runScript(script))
					}
				}
			}
		}
	}
	// several sub-scopes of one parent open at the same time, used alternately (w<id> goes on
	// with a reader opened earlier): each keeps its own scope and index
	for k := 0; k < n*6; k++ {
		data := make([]byte, 8+g.r.Intn(40))
		g.r.Read(data)
		type rd struct{ parent, rem int }
		rds := []rd{{-1, len(data)}}
		cur := 0
		var script []string
		for j := 3 + g.r.Intn(10); j > 0; j-- {
			switch c := g.r.Intn(10); {
			case c < 3:
				cnt := g.r.Intn(rds[cur].rem + 1)
				if g.r.Intn(12) == 0 {
					cnt = rds[cur].rem + 1 + g.r.Intn(2)
				}
				script = append(script, "s"+hx(uint64(cnt)))
				rds = append(rds, rd{cur, cnt})
				cur = len(rds) - 1
			case c < 6 && len(rds) > 1:
				cur = g.r.Intn(len(rds))
				script = append(script, "w"+hx(uint64(cur)))
			default:
				q := 0
				if rds[cur].rem > 0 {
					q = g.r.Intn(rds[cur].rem + 1)
					if q > 6 {
						q = g.r.Intn(7)
					}
				}
				if g.r.Intn(10) == 0 {
					q = rds[cur].rem + 1
				}
				script = append(script, "r"+hx(uint64(q)))
				if q <= rds[cur].rem {
					rds[cur].rem -= q
				}
			}
		}
		chunks := []int{1 + g.r.Intn(5), 1 + g.r.Intn(5), 1 + g.r.Intn(5)}
		obs := guard(func() string {
			return runReaderScript(codec.NewDecodingReader(&schedReader{data: append([]byte{}, data...), chunks: append([]int{}, chunks...), failAfter: -1}, uint64(len(data))), script)
		})
		out.emit("primsw", "c13pc", []string{hexBytes(data), intsCSV(chunks), "0", "-", hx(uint64(len(data))), strings.Join(script, ",")}, obs)
	}
	// Read and Skip sequences on a plain byte reader
	for k := 0; k < n*4; k++ {
		data := make([]byte, g.r.Intn(40))
		g.r.Read(data)
		var reqs []string
		for j := 1 + g.r.Intn(6); j > 0; j-- {
			q := g.r.Intn(14)
			if g.r.Intn(2) == 0 {
				reqs = append(reqs, "s"+hx(uint64(q)))
			} else {
				reqs = append(reqs, "r"+hx(uint64(q)))
			}
		}
		// sometimes the declared scope is larger than what the stream holds; the input is a
		// seekable bytes.Reader or hidden behind a plain io.Reader
		scope := len(data)
		if k%3 == 0 {
			scope += g.r.Intn(12)
		}
		obs := guard(func() string {
			var in io.Reader = bytes.NewReader(data)
			if k%2 == 0 {
				in = struct{ io.Reader }{in}
			}
			dr := codec.NewDecodingReader(in, uint64(scope))
			var parts []string
			for _, q := range reqs {
				k, _ := strconv.ParseUint(q[1:], 16, 64)
				if q[0] == 's' {
					if _, err := dr.Skip(k); err != nil {
						return "ERR"
					}
					parts = append(parts, "s")
				} else {
					p := make([]byte, k)
					if _, err := dr.Read(p); err != nil {
						return "ERR"
					}
					parts = append(parts, hexBytes(p))
				}
			}
			return "OK " + strings.Join(parts, ",")
		})
		out.emit("skip", "c13s", []string{hexBytes(data), strings.Join(reqs, ","), hx(uint64(scope))}, obs)
	}
	// values whose encoding is offsets only (all variable-size items empty): a truncated offset
	// table leaves the scratch buffer holding the previous, identical offset
	u8l := &Ty{Kind: "list", Elem: &Ty{Kind: "u", N: 1}, N: 4}
	emptySeq := func(k int, inner *Val) *Val {
		v := &Val{Kind: "seq"}
		for i := 0; i < k; i++ {
			v.Seq = append(v.Seq, inner)
		}
		return v
	}
	type tv struct {
		ty *Ty
		v  *Val
	}
	var corpus []tv
	for _, k := range []int{1, 2, 3, 5} {
		corpus = append(corpus,
			tv{&Ty{Kind: "list", Elem: u8l, N: 6}, emptySeq(k, &Val{Kind: "seq"})},
			tv{&Ty{Kind: "vec", Elem: u8l, N: uint64(k)}, emptySeq(k, &Val{Kind: "seq"})},
			tv{&Ty{Kind: "list", Elem: &Ty{Kind: "list", Elem: u8l, N: 3}, N: 6}, emptySeq(k, &Val{Kind: "seq"})},
		)
	}
	corpus = append(corpus, tv{&Ty{Kind: "cont", Fields: []*Ty{u8l, u8l, u8l}}, &Val{Kind: "cont", Seq: []*Val{{Kind: "seq"}, {Kind: "seq"}, {Kind: "seq"}}}})
	for k := 0; k < n+len(corpus); k++ {
		var ty *Ty
		var v *Val
		if k < len(corpus) {
			ty, v = corpus[k].ty, corpus[k].v
		} else {
			ty = g.ty(1 + g.r.Intn(3))
			if isLeafTy(ty) {
				continue
			}
			v = g.val(ty)
		}
		for _, kind := range []string{"view", "flat"} {
			if kind == "flat" && ty.HasBoolSeq() && false {
				continue
			}
			var data []byte
			okEnc := false
			func() {
				defer func() { recover() }()
				if kind == "view" {
					vw, err := buildView(ty, v)
					if err != nil {
						return
					}
					d, err := serializeView(vw)
					if err == nil {
						data, okEnc = d, true
					}
				} else {
					d, err := flatEncode(flatOf(ty, v))
					if err == nil {
						data, okEnc = d, true
					}
				}
			}()
			if !okEnc || len(data) > 300 || len(data) == 0 {
				continue
			}
			reuseDst := false
			decode := func(r io.Reader) string {
				return guard(func() string {
					dr := codec.NewDecodingReader(r, uint64(len(data)))
					if kind == "view" {
						vw, err := ty.Def().Deserialize(dr)
						if err != nil {
							return "ERR"
						}
						d2, err := serializeView(vw)
						if err != nil {
							return "OK ERR"
						}
						return "OK " + hexBytes(d2)
					}
					dst := newFlat(ty)
					if reuseDst {
						// a recycled destination that already holds the very bytes the stream
						// fails to deliver: stale contents must not pass for data that was read
						dst = flatOf(ty, v)
					}
					if err := dst.Deserialize(dr); err != nil {
						return "ERR"
					}
					d2, err := flatEncode(dst)
					if err != nil {
						return "OK ERR"
					}
					return "OK " + hexBytes(d2)
				})
			}
			// the stream goes on behind the value (the next record of a file or connection): a
			// decode takes exactly its scope out of the caller's reader, never more
			for _, c := range []int{1, 5, len(data) + 40} {
				trail := bytes.Repeat([]byte{0x5c}, 64)
				r := &schedReader{data: append(append([]byte{}, data...), trail...), chunks: repeatInt(c, len(data)+64), failAfter: -1}
				res := decode(r)
				obs := "ERR"
				if strings.HasPrefix(res, "OK") {
					obs = hx(uint64(len(data) + 64 - len(r.data)))
				}
				out.emit("used-"+kind, "c13u", []string{kind, ty.Sexp(), hexBytes(data)}, obs)
			}
			// delivery schedules: every legal chunking delivers the same value
			for _, c := range []int{1, 2, 3, 7, (len(data) + 1) / 2, len(data)} {
				for _, eof := range []bool{false, true} {
					r := &schedReader{data: append([]byte{}, data...), chunks: repeatInt(c, len(data)), eofWithData: eof, failAfter: -1}
					out.emit("sched-"+kind, "c13r", []string{kind, ty.Sexp(), hexBytes(data), "full"}, decode(r))
				}
			}
			// the stream fails, or ends, at every position before the scope is satisfied
			for p := 0; p < len(data); p++ {
				if !thorough() && len(data) > 40 && p%5 != 0 && p != len(data)-1 {
					continue
				}
				r := &schedReader{data: append([]byte{}, data...), failAfter: p}
				out.emit("fail-"+kind, "c13r", []string{kind, ty.Sexp(), hexBytes(data), hx(uint64(p))}, decode(r))
				rt := &schedReader{data: append([]byte{}, data...), failAfter: p, tempFails: 1 + p%3}
				out.emit("failT-"+kind, "c13r", []string{kind, ty.Sexp(), hexBytes(data), hx(uint64(p))}, decode(rt))
				r2 := &schedReader{data: append([]byte{}, data[:p]...), failAfter: -1, eofWithData: p%2 == 0}
				out.emit("short-"+kind, "c13r", []string{kind, ty.Sexp(), hexBytes(data), hx(uint64(p))}, decode(r2))
				if kind == "flat" {
					reuseDst = true
					r3 := &schedReader{data: append([]byte{}, data[:p]...), failAfter: -1, eofWithData: p%2 == 1}
					out.emit("short-flat-reuse", "c13r", []string{kind, ty.Sexp(), hexBytes(data), hx(uint64(p))}, decode(r3))
					reuseDst = false
				}
			}
			// the writer fails at every position
			for p := 0; p <= len(data)+1; p++ {
				if !thorough() && len(data) > 40 && p%5 != 0 && p < len(data)-1 {
					continue
				}
				obs := guard(func() string {
					fw := &failWriter{budget: p}
					ew := codec.NewEncodingWriter(fw)
					fw.watch = ew
					defer func() { inflightBad = inflightBad || fw.watchBad }()
					var err error
					if kind == "view" {
						vw, e2 := buildView(ty, v)
						if e2 != nil {
							return "enc=ERR"
						}
						err = vw.Serialize(ew)
					} else {
						err = flatOf(ty, v).Serialize(ew)
					}
					return joinKV("err="+b01(err != nil), "accepted="+hexBytes(fw.buf.Bytes()), "written="+hx(uint64(ew.Written())))
				})
				if obs != "PANIC" && obs != "enc=ERR" {
					obs += " inflight=" + b01(!inflightBad)
				}
				inflightBad = false
				out.emit("write-"+kind, "c13w", []string{kind, ty.Sexp(), v.Sexp(), hx(uint64(p))}, obs)
				{
					// the same budget on a sink that also implements io.ByteWriter
					obsB := guard(func() string {
						fw := &byteFailWriter{failWriter{budget: p}}
						ew := codec.NewEncodingWriter(fw)
						var err error
						if kind == "view" {
							vw, e2 := buildView(ty, v)
							if e2 != nil {
								return "enc=ERR"
							}
							err = vw.Serialize(ew)
						} else {
							err = flatOf(ty, v).Serialize(ew)
						}
						return joinKV("err="+b01(err != nil), "accepted="+hexBytes(fw.buf.Bytes()), "written="+hx(uint64(ew.Written())))
					})
					out.emit("writeB-"+kind, "c13w", []string{kind, ty.Sexp(), v.Sexp(), hx(uint64(p))}, obsB)
				}
				{
					// the same with a writer that also makes short writes
					chunk := 1 + p%3
					obsC := guard(func() string {
						fw := &chunkFailWriter{budget: p, chunk: chunk}
						ew := codec.NewEncodingWriter(fw)
						var err error
						if kind == "view" {
							vw, e2 := buildView(ty, v)
							if e2 != nil {
								return "enc=ERR"
							}
							err = vw.Serialize(ew)
						} else {
							err = flatOf(ty, v).Serialize(ew)
						}
						return joinKV("err="+b01(err != nil), "accepted="+hexBytes(fw.buf.Bytes()), "written="+hx(uint64(ew.Written())))
					})
					out.emit("writeC-"+kind, "c13wc", []string{kind, ty.Sexp(), v.Sexp(), hx(uint64(p)), hx(uint64(chunk))}, obsC)
				}
				if p < len(data) {
					// a transient failure: one failing call, after which the sink accepts data
					// again.  The encoder must still report the error (what the sink holds
					// afterwards is not compared).
					obsT := guard(func() string {
						fw := &failWriter{budget: p, once: true}
						ew := codec.NewEncodingWriter(fw)
						var err error
						if kind == "view" {
							vw, e2 := buildView(ty, v)
							if e2 != nil {
								return "enc=ERR"
							}
							err = vw.Serialize(ew)
						} else {
							err = flatOf(ty, v).Serialize(ew)
						}
						return "err=" + b01(err != nil)
					})
					out.emit("writeT-"+kind, "c13w", []string{kind, ty.Sexp(), v.Sexp(), hx(uint64(p))}, obsT)
				}
				if p > 0 {
					// the same with a writer that reports its failure eagerly
					obsE := guard(func() string {
						fw := &failWriter{budget: p, eager: true}
						ew := codec.NewEncodingWriter(fw)
						var err error
						if kind == "view" {
							vw, e2 := buildView(ty, v)
							if e2 != nil {
								return "enc=ERR"
							}
							err = vw.Serialize(ew)
						} else {
							err = flatOf(ty, v).Serialize(ew)
						}
						return joinKV("err="+b01(err != nil), "accepted="+hexBytes(fw.buf.Bytes()), "written="+hx(uint64(ew.Written())))
					})
					out.emit("writeE-"+kind, "c13we", []string{kind, ty.Sexp(), v.Sexp(), hx(uint64(p))}, obsE)
				}
			}
		}
	}
}

// runReaderScript interprets s<count> (SubScope of the current reader, which becomes current),
// u (back to the parent), U (back to the parent after UpdateIndexFromScoped), w<id> (go on with
// the reader opened as number id; 0 is the top) and r<k> (Read k bytes through the current one).
func runReaderScript(top *codec.DecodingReader, script []string) string {
	readers := []*codec.DecodingReader{top}
	parents := []int{-1}
	cur := 0
	var parts []string
	for _, q := range script {
		switch q[0] {
		case 's':
			c, _ := strconv.ParseUint(q[1:], 16, 64)
			sub, err := readers[cur].SubScope(c)
			if err != nil {
				return strings.Join(append(parts, "ERR"), ",")
			}
			readers = append(readers, sub)
			parents = append(parents, cur)
			cur = len(readers) - 1
			parts = append(parts, "sub")
		case 'u':
			cur = parents[cur]
			parts = append(parts, "up")
		case 'w':
			c, _ := strconv.ParseUint(q[1:], 16, 64)
			cur = int(c)
			parts = append(parts, "sw")
		case 'U':
			child := readers[cur]
			cur = parents[cur]
			readers[cur].UpdateIndexFromScoped(child)
			parts = append(parts, "up"+hx(readers[cur].Index()))
		default:
			c, _ := strconv.ParseUint(q[1:], 16, 64)
			p := make([]byte, c)
			r := readers[cur]
			refused := c > 0 && (c > ^uint64(0)-r.Index() || r.Index()+c > r.Max())
			if _, err := r.Read(p); err != nil {
				if refused {
					// refused for lack of scope before anything was taken from the stream: the
					// reader is as it was and the caller may go on with it
					parts = append(parts, "REF")
					continue
				}
				return strings.Join(append(parts, "ERR"), ",")
			}
			parts = append(parts, hexBytes(p))
		}
	}
	return strings.Join(parts, ",")
}
