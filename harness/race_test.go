//go:build verif

package verifharness

import (
	"fmt"
	"math/big"
	"runtime"
	"sync"
	"testing"

	"github.com/protolambda/ztyp/conv"
	"github.com/protolambda/ztyp/tree"
	"github.com/protolambda/ztyp/view"
)

// Tests run a second time under the race detector (check.py, rule "race_extra").  They write no
// case stream: every concurrent result is compared with the result of the same call made
// sequentially beforehand (those sequential results are what the main stream compares with the
// model), and the race detector watches the calls.  Goroutines share nothing but the library.

// the conversions of C19 on one worker's own inputs
func convResults(seed int64, rounds int) []string {
	r := newRng(seed)
	var out []string
	for k := 0; k < rounds; k++ {
		x := new(big.Int).Rand(r, new(big.Int).Lsh(big.NewInt(1), uint(1+r.Intn(256))))
		dec := []byte(x.String())
		var v view.Uint256View
		err := v.UnmarshalText(dec)
		out = append(out, fmt.Sprint("t ", err, u256hex(v)))
		var v2 view.Uint256View
		err = v2.UnmarshalJSON(append(append([]byte{'"'}, dec...), '"'))
		out = append(out, fmt.Sprint("j ", err, u256hex(v2)))
		txt, err := v.MarshalText()
		out = append(out, fmt.Sprint("m ", err, string(txt)), v.String())
		n := r.Uint64() >> uint(r.Intn(64))
		u := view.Uint64View(n)
		txt, _ = u.MarshalText()
		js, _ := u.MarshalJSON()
		var u2, u3 view.Uint64View
		e2 := u2.UnmarshalText(txt)
		e3 := u3.UnmarshalJSON(js)
		out = append(out, fmt.Sprint("u ", string(txt), string(js), e2, uint64(u2), e3, uint64(u3)))
		var w8 view.Uint8View
		e8 := w8.UnmarshalText(txt)
		out = append(out, fmt.Sprint("8 ", e8 != nil, uint8(w8)))
		var root tree.Root
		r.Read(root[:])
		rt, _ := root.MarshalText()
		var back tree.Root
		eb := back.UnmarshalText(rt)
		out = append(out, fmt.Sprint("r ", string(rt), eb, back == root, root.String()))
		b := make([]byte, r.Intn(40))
		r.Read(b)
		out = append(out, conv.BytesString(b))
		var dyn []byte
		ed := conv.DynamicBytesUnmarshalText(&dyn, []byte(conv.BytesString(b)))
		out = append(out, fmt.Sprint("d ", ed, hexBytes(dyn)))
	}
	return out
}

func TestC19Race(t *testing.T) {
	const workers = 8
	rounds := 150
	ref := make([][]string, workers)
	for w := range ref {
		ref[w] = convResults(int64(1900+w), rounds)
	}
	stop := make(chan struct{})
	go func() { // collections in between: pooled objects change hands
		for {
			select {
			case <-stop:
				return
			default:
				runtime.GC()
				runtime.Gosched()
			}
		}
	}()
	var wg sync.WaitGroup
	bad := make([]string, workers)
	for w := 0; w < workers; w++ {
		wg.Add(1)
		go func(w int) {
			defer wg.Done()
			for rep := 0; rep < 6; rep++ {
				got := convResults(int64(1900+w), rounds)
				for i := range got {
					if got[i] != ref[w][i] && bad[w] == "" {
						bad[w] = fmt.Sprintf("worker %d call %d: concurrent %q, alone %q", w, i, got[i], ref[w][i])
					}
				}
			}
		}(w)
	}
	wg.Wait()
	close(stop)
	for _, b := range bad {
		if b != "" {
			t.Errorf("CONCURRENT-MISMATCH %s", b)
		}
	}
}

// the flat hash helpers of C08 on values that several goroutines only read
func TestC08Race(t *testing.T) {
	g := &gen{r: newRng(801), maxElem: 40}
	type item struct {
		f    Flat
		root tree.Root
	}
	var items []item
	for k := 0; k < 60; k++ {
		ty := g.ty(1 + g.r.Intn(3))
		f := flatOf(ty, g.val(ty))
		items = append(items, item{f, f.HashTreeRoot(tree.GetHashFn())})
	}
	var wg sync.WaitGroup
	bad := make([]string, 6)
	for w := 0; w < 6; w++ {
		wg.Add(1)
		go func(w int) {
			defer wg.Done()
			h := tree.GetHashFn()
			for rep := 0; rep < 5; rep++ {
				for i, it := range items {
					if it.f.HashTreeRoot(h) != it.root && bad[w] == "" {
						bad[w] = fmt.Sprintf("worker %d item %d: root differs from the root computed alone", w, i)
					}
				}
			}
		}(w)
	}
	wg.Wait()
	for _, b := range bad {
		if b != "" {
			t.Errorf("CONCURRENT-MISMATCH %s", b)
		}
	}
}

// one view object read by several goroutines at once (indexed getters, both iterator families,
// serialization, root): nothing is written by a read, so the readers cannot conflict and each
// sees what it sees alone (C17)
func TestC17Race(t *testing.T) {
	g := &gen{r: newRng(1701), noBool: true, maxElem: 40}
	tys := []*Ty{
		{Kind: "vec", Elem: &Ty{Kind: "u", N: 8}, N: 300}, {Kind: "bitvec", N: 1300},
		{Kind: "list", Elem: &Ty{Kind: "u", N: 2}, N: 500}, {Kind: "bitlist", N: 900},
		{Kind: "list", Elem: &Ty{Kind: "cont", Fields: []*Ty{{Kind: "u", N: 8}, {Kind: "list", Elem: &Ty{Kind: "u", N: 1}, N: 9}}}, N: 40},
		{Kind: "cont", Fields: []*Ty{{Kind: "u", N: 8}, {Kind: "bitlist", N: 70}, {Kind: "vec", Elem: &Ty{Kind: "u", N: 4}, N: 9}, {Kind: "root"}}},
	}
	for k := 0; k < 6; k++ {
		tys = append(tys, g.ty(2))
	}
	for _, ty := range tys {
		if !isComposite(ty) || ty.Kind == "union" {
			continue
		}
		saved := g.maxElem
		if ty.Kind == "bitlist" || (ty.Kind == "list" && ty.Elem.Kind == "u") {
			g.maxElem = int(ty.N)
		}
		v := g.val(ty)
		g.maxElem = saved
		vw, err := buildView(ty, v)
		if err != nil {
			continue
		}
		vw.HashTreeRoot(tree.Hash)
		alone := iterObsShared(ty, vw)
		var wg sync.WaitGroup
		bad := make([]string, 6)
		for w := 0; w < 6; w++ {
			wg.Add(1)
			go func(w int) {
				defer wg.Done()
				for rep := 0; rep < 4; rep++ {
					if got := iterObsShared(ty, vw); got != alone && bad[w] == "" {
						bad[w] = fmt.Sprintf("worker %d on %s: a concurrent reader saw %.120q, alone %.120q", w, ty.Sexp(), got, alone)
					}
					_, _ = serializeView(vw)
					_ = vw.HashTreeRoot(tree.Hash)
				}
			}(w)
		}
		wg.Wait()
		for _, b := range bad {
			if b != "" {
				t.Errorf("CONCURRENT-MISMATCH %s", b)
			}
		}
	}
}

// iterObsShared: indexed reads, Iter() and ReadonlyIter() of a view, rendered through element
// roots; uses no state of the harness (unlike iterObsN), so it may run concurrently
func iterObsShared(t *Ty, vw view.View) string {
	h := tree.GetHashFn()
	var sb []byte
	add := func(s string) { sb = append(sb, s...); sb = append(sb, ',') }
	drainB := func(it bitIter, n int) {
		for i := 0; i < n+2; i++ {
			b, ok, err := it.Next()
			add(fmt.Sprint(b, ok, err != nil))
		}
	}
	drainE := func(it elemIter, n int) {
		for i := 0; i < n+2; i++ {
			el, ok, err := it.Next()
			if el != nil && ok && err == nil {
				r := el.HashTreeRoot(h)
				add(hexBytes(r[:4]))
			} else {
				add(fmt.Sprint(ok, err != nil))
			}
		}
	}
	n := int(currentLen(vw, t))
	switch x := vw.(type) {
	case *view.BitVectorView:
		for i := 0; i < n; i++ {
			b, err := x.Get(uint64(i))
			add(fmt.Sprint(b, err != nil))
		}
		drainB(x.ReadonlyIter(), n)
		drainB(x.Iter(), n)
	case *view.BitListView:
		for i := 0; i < n; i++ {
			b, err := x.Get(uint64(i))
			add(fmt.Sprint(b, err != nil))
		}
		drainB(x.ReadonlyIter(), n)
		drainB(x.Iter(), n)
	default:
		var getF func(i uint64) (view.View, error)
		var ro, ix elemIter
		switch y := vw.(type) {
		case *view.BasicVectorView:
			getF = func(i uint64) (view.View, error) { return y.Get(i) }
			ro, ix = y.ReadonlyIter(), y.Iter()
		case *view.BasicListView:
			getF = func(i uint64) (view.View, error) { return y.Get(i) }
			ro, ix = y.ReadonlyIter(), y.Iter()
		case *view.ComplexVectorView:
			getF, ro, ix = y.Get, y.ReadonlyIter(), y.Iter()
		case *view.ComplexListView:
			getF, ro, ix = y.Get, y.ReadonlyIter(), y.Iter()
		case *view.ContainerView:
			getF, ro, ix = y.Get, y.ReadonlyIter(), y.Iter()
		default:
			return "?"
		}
		for i := 0; i < n; i++ {
			el, err := getF(uint64(i))
			if err != nil || el == nil {
				add("ERR")
				continue
			}
			r := el.HashTreeRoot(h)
			add(hexBytes(r[:4]))
		}
		drainE(ro, n)
		drainE(ix, n)
	}
	return string(sb)
}
