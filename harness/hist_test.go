//go:build verif

package verifharness

import (
	"crypto/sha256"
	"bytes"
	"os"
	"fmt"
	"math/rand"
	"reflect"
	"strings"

	"github.com/protolambda/ztyp/tree"
	"github.com/protolambda/ztyp/view"
)

// An interpreter for operation histories over real views.  The same script is replayed
// by ocaml/hist.ml on the model's three machines.

type snapshot struct {
	node  tree.Node
	root  tree.Root
	shape [32]byte // fingerprint of the node structure: a subtree is not its summary
}

// rawShape fingerprints the structure and leaf contents below a node (memoised roots ignored):
// unlike the Merkle root it tells a pair of children from the leaf that summarises them.
func rawShape(n tree.Node) [32]byte {
	if f, ok := n.(foreignPair); ok {
		n = f.PairNode
	}
	switch x := n.(type) {
	case *tree.Root:
		return sha256.Sum256(append([]byte{0}, x[:]...))
	case *tree.PairNode:
		l, r := rawShape(x.LeftChild), rawShape(x.RightChild)
		return sha256.Sum256(append(append([]byte{1}, l[:]...), r[:]...))
	}
	panic("unknown node type")
}

type hstate struct {
	views []view.View
	tys   []*Ty
	// index-based iterators (Iter()) opened on handles: elements come out as new handles
	iters    []elemIter
	iterTys  []*Ty
	iterNext []uint64
	litCount int
	snaps []snapshot
	h     tree.HashFn
	count *int
}

// rawRoot recomputes a Merkle root from the node structure, ignoring memoised values.
func rawRoot(n tree.Node, h tree.HashFn) tree.Root {
	if f, ok := n.(foreignPair); ok {
		n = f.PairNode
	}
	switch x := n.(type) {
	case *tree.Root:
		return *x
	case *tree.PairNode:
		return h(rawRoot(x.LeftChild, h), rawRoot(x.RightChild, h))
	}
	panic("unknown node type")
}

func (s *hstate) push(t *Ty, v view.View) string {
	s.views = append(s.views, v)
	s.tys = append(s.tys, t)
	return fmt.Sprintf("OK_h%d", len(s.views)-1)
}

type srcSpec struct {
	kind string // lit, h, none
	t    *Ty
	v    *Val
	h    int
}

func (x srcSpec) Sexp() string {
	switch x.kind {
	case "dflt": // the type's Default(nil) view; for the model: a literal default value
		return "(lit " + x.t.Sexp() + " " + defaultVal(x.t).Sexp() + ")"
	case "lit":
		return "(lit " + x.t.Sexp() + " " + x.v.Sexp() + ")"
	case "h":
		return fmt.Sprintf("(h %d)", x.h)
	}
	return "none"
}

func (s *hstate) resolve(x srcSpec) (view.View, error) {
	switch x.kind {
	case "dflt":
		return x.t.Def().Default(nil), nil
	case "lit":
		// every other literal comes from an independently built (identical) type definition
		s.litCount++
		if s.litCount%2 == 0 && isComposite(x.t) {
			return buildViewFresh(x.t, x.v)
		}
		return buildView(x.t, x.v)
	case "h":
		if x.h >= len(s.views) {
			return nil, fmt.Errorf("no such handle")
		}
		return s.views[x.h], nil
	}
	return nil, nil
}

func errObs(err error) string {
	if err != nil {
		return "ERR"
	}
	return "OK"
}

type hop struct {
	kind string // get uvalue copy new set append pop change | htr ser blen len elem sel | snap memo count
	h    int
	i    uint64
	src  srcSpec
	t    *Ty
	v    *Val
}

func (o hop) Sexp() string {
	switch o.kind {
	case "get", "elem", "rootwrite", "repoint", "summ", "htrpanic2":
		return fmt.Sprintf("(%s %d %s)", o.kind, o.h, hx(o.i))
	case "uvalue", "copy", "pop", "htr", "ser", "blen", "len", "sel", "snap", "count", "iter", "next", "rebuild", "rebuildf", "htrpanic":
		return fmt.Sprintf("(%s %d)", o.kind, o.h)
	case "memo":
		return "(memo)"
	case "reinit", "reinitx":
		return "(" + o.kind + ")"
	case "new":
		return "(new " + o.t.Sexp() + " " + o.v.Sexp() + ")"
	case "set":
		return fmt.Sprintf("(set %d %s %s)", o.h, hx(o.i), o.src.Sexp())
	case "append":
		return fmt.Sprintf("(append %d %s)", o.h, o.src.Sexp())
	case "change":
		return fmt.Sprintf("(change %d %s %s)", o.h, hx(o.i), o.src.Sexp())
	}
	panic("bad op kind " + o.kind)
}

func isPackedOrBits(t *Ty) bool {
	return t.Kind == "bitvec" || t.Kind == "bitlist" || ((t.Kind == "vec" || t.Kind == "list") && t.Elem.IsBasicElem())
}

func valueSexp(v view.View) string {
	s, err := readBasic(nil, v)
	if err != nil {
		return "ERR"
	}
	return "OK_" + strings.ReplaceAll(s, " ", "_")
}

func (s *hstate) exec(o hop) string {
	return guard(func() string {
		if o.kind == "reinit" {
			// the zero-hash table installed again with the same function: nothing may change,
			// no memo may be lost
			tree.InitZeroHashes(pairOf(curCfg), 64)
			return "OK"
		}
		if o.kind == "reinitx" {
			// another hash configuration comes and goes: trees that are alive keep their nodes
			// (they were built under the first one and are only looked at, with its function)
			other := "alt"
			if curCfg == "alt" {
				other = "sha"
			}
			tree.InitZeroHashes(pairOf(other), 64)
			ok := s.checkSnaps()
			tree.InitZeroHashes(pairOf(curCfg), 64)
			if !ok {
				return "BAD"
			}
			return "OK"
		}
		if o.kind == "next" {
			// the next element of iterator o.h, as a new handle
			if o.h >= len(s.iters) {
				return "ERR"
			}
			i := s.iterNext[o.h]
			el, ok, err := s.iters[o.h].Next()
			if !ok {
				if err != nil {
					return "ERR"
				}
				return "END"
			}
			s.iterNext[o.h] = i + 1
			if err != nil {
				return "ERR"
			}
			return s.push(elemTyOf(s.iterTys[o.h], i), el)
		}
		if o.kind != "new" && o.kind != "memo" && o.h >= len(s.views) {
			return "ERR"
		}
		var vw view.View
		var t *Ty
		if o.kind != "new" && o.kind != "memo" {
			vw, t = s.views[o.h], s.tys[o.h]
		}
		if s.illTyped(o) {
			return "ERR"
		}
		switch o.kind {
		case "repoint":
			// the view object is used as a cursor: SetBacking re-points it at the tree of handle
			// o.i (same type).  Only for views without a parent hook (root, copies, new values):
			// the handle then holds that value, nothing else changes.
			if int(o.i) >= len(s.views) || s.tys[o.i].Sexp() != t.Sexp() || !isComposite(t) {
				return "ERR"
			}
			bb := backedBase(vw)
			if bb == nil || bb.Hook != nil {
				return "ERR"
			}
			return errObs(vw.SetBacking(s.views[o.i].Backing()))
		case "htrpanic":
			// a root request that does not complete: the caller's hash function fails (panics)
			// at its k-th call and the caller recovers.  Nothing is remembered that is not a
			// root of children (checked by the memo walks that follow).
			k := 1 + int(o.i%7)
			func() {
				defer func() { _ = recover() }()
				calls := 0
				vw.HashTreeRoot(func(a, b tree.Root) tree.Root {
					if calls++; calls == k {
						panic("hash function failed")
					}
					return s.h(a, b)
				})
			}()
			return "OK"
		case "rebuildf":
			// like rebuild, but some inner pairs become nodes of a caller-defined type (which
			// embeds a pair): remembered roots are kept all the same
			bb := backedBase(vw)
			if bb == nil || bb.Hook != nil || !isComposite(t) {
				return "ERR"
			}
			done := map[*tree.PairNode]tree.Node{}
			cnt := 0
			var rb func(n tree.Node, depth int) tree.Node
			rb = func(n tree.Node, depth int) tree.Node {
				p, ok := n.(*tree.PairNode)
				if !ok {
					return n
				}
				if q, ok := done[p]; ok {
					return q
				}
				q := &tree.PairNode{LeftChild: rb(p.LeftChild, depth+1), RightChild: rb(p.RightChild, depth+1), Value: p.Value}
				var res tree.Node = q
				if cnt++; depth >= 2 && cnt%3 == 0 {
					res = foreignPair{q}
				}
				done[p] = res
				return res
			}
			return errObs(vw.SetBacking(rb(vw.Backing(), 0)))
		case "rebuild":
			// what a snapshot loader does: the tree is rebuilt node by node from PairNode
			// literals that carry the remembered roots over (exported field Value), sharing kept;
			// the (hookless) view is re-pointed at the rebuilt tree.  Nothing observable changes,
			// and what was hashed stays hashed.
			bb := backedBase(vw)
			if bb == nil || bb.Hook != nil || !isComposite(t) {
				return "ERR"
			}
			done := map[*tree.PairNode]*tree.PairNode{}
			var rb func(n tree.Node) tree.Node
			rb = func(n tree.Node) tree.Node {
				p, ok := n.(*tree.PairNode)
				if !ok {
					return n
				}
				if q, ok := done[p]; ok {
					return q
				}
				q := &tree.PairNode{LeftChild: rb(p.LeftChild), RightChild: rb(p.RightChild), Value: p.Value}
				done[p] = q
				return q
			}
			return errObs(vw.SetBacking(rb(vw.Backing())))
		case "rootwrite":
			// the in-place setters of a Root view: the view changes, nothing else may
			if bv, ok := vw.(view.SmallByteVecView); ok {
				// the same for a small byte vector view (a slice): UnmarshalText fills it in place
				nb := bytes.Repeat([]byte{byte(o.i%250) + 1}, len(bv))
				txt, _ := view.SmallByteVecView(nb).MarshalText()
				if err := bv.UnmarshalText(txt); err != nil {
					return "ERR"
				}
				return "OK"
			}
			rv, ok := vw.(*view.RootView)
			if !ok {
				return "ERR"
			}
			b := byte(o.i%250) + 1
			var nr tree.Root
			for k := range nr {
				nr[k] = b
			}
			if o.i%2 == 0 {
				txt, _ := nr.MarshalText()
				if err := rv.UnmarshalText(txt); err != nil {
					return "ERR"
				}
			} else if err := rv.SetBacking(&nr); err != nil {
				return "ERR"
			}
			return "OK"
		case "iter":
			var it elemIter
			switch x := vw.(type) {
			case *view.ComplexVectorView:
				it = x.Iter()
			case *view.ComplexListView:
				it = x.Iter()
			case *view.ContainerView:
				it = x.Iter()
			default:
				return "ERR"
			}
			s.iters = append(s.iters, it)
			s.iterTys = append(s.iterTys, t)
			s.iterNext = append(s.iterNext, 0)
			return fmt.Sprintf("OK_i%d", len(s.iters)-1)
		case "get":
			var el view.View
			var err error
			var et *Ty
			switch x := vw.(type) {
			case *view.ComplexVectorView:
				el, err = x.Get(o.i)
				et = t.Elem
			case *view.ComplexListView:
				el, err = x.Get(o.i)
				et = t.Elem
			case *view.ContainerView:
				el, err = x.Get(o.i)
				if o.i < uint64(len(t.Fields)) {
					et = t.Fields[o.i]
				}
			default:
				return "ERR"
			}
			if err != nil {
				return "ERR"
			}
			return s.push(et, el)
		case "uvalue":
			u, ok := vw.(*view.UnionView)
			if !ok {
				return "ERR"
			}
			sel, err := u.Selector()
			if err != nil {
				return "ERR"
			}
			el, err := u.Value()
			if err != nil {
				return "ERR"
			}
			if el == nil {
				return "OK_none"
			}
			return s.push(t.OptionTy(int(sel)), el)
		case "copy":
			c, err := vw.Copy()
			// every other copy goes through the generic BackedView.Copy of the embedded base
			// (a fresh view of the same backing without a hook): the same thing for the model
			if bv := backedBase(vw); bv != nil && len(s.views)%2 == 1 {
				c, err = bv.Copy()
			}
			if err != nil {
				return "ERR"
			}
			return s.push(t, c)
		case "new":
			nv, err := buildView(o.t, o.v)
			if err != nil {
				return "ERR"
			}
			return s.push(o.t, nv)
		case "set":
			src, err := s.resolve(o.src)
			if err != nil {
				return "ERR"
			}
			switch x := vw.(type) {
			case *view.BasicVectorView:
				b, ok := src.(view.BasicView)
				if !ok || o.src.kind != "lit" {
					return "ERR"
				}
				return errObs(x.Set(o.i, b))
			case *view.BasicListView:
				b, ok := src.(view.BasicView)
				if !ok || o.src.kind != "lit" {
					return "ERR"
				}
				return errObs(x.Set(o.i, b))
			case *view.BitVectorView:
				b, ok := src.(view.BoolView)
				if !ok || o.src.kind != "lit" {
					return "ERR"
				}
				return errObs(x.Set(o.i, b))
			case *view.BitListView:
				b, ok := src.(view.BoolView)
				if !ok || o.src.kind != "lit" {
					return "ERR"
				}
				return errObs(x.Set(o.i, b))
			case *view.ComplexVectorView:
				return errObs(x.Set(o.i, src))
			case *view.ComplexListView:
				return errObs(x.Set(o.i, src))
			case *view.ContainerView:
				return errObs(x.Set(o.i, src))
			}
			return "ERR"
		case "append":
			src, err := s.resolve(o.src)
			if err != nil {
				return "ERR"
			}
			switch x := vw.(type) {
			case *view.BasicListView:
				b, ok := src.(view.BasicView)
				if !ok || o.src.kind != "lit" {
					return "ERR"
				}
				return errObs(x.Append(b))
			case *view.BitListView:
				b, ok := src.(view.BoolView)
				if !ok || o.src.kind != "lit" {
					return "ERR"
				}
				return errObs(x.Append(b))
			case *view.ComplexListView:
				if e := x.Append(src); e != nil {
					if os.Getenv("VERIF_DEBUG") != "" {
						println("APPEND-ERR", e.Error())
					}
					return "ERR"
				}
				return "OK"
			}
			return "ERR"
		case "pop":
			switch x := vw.(type) {
			case *view.BasicListView:
				return errObs(x.Pop())
			case *view.BitListView:
				return errObs(x.Pop())
			case *view.ComplexListView:
				return errObs(x.Pop())
			}
			return "ERR"
		case "change":
			u, ok := vw.(*view.UnionView)
			if !ok {
				return "ERR"
			}
			src, err := s.resolve(o.src)
			if err != nil {
				return "ERR"
			}
			return errObs(u.Change(uint8(o.i), src))
		case "htr":
			return "OK_" + rootHex(vw.HashTreeRoot(s.h))
		case "count":
			before := *s.count
			r := vw.HashTreeRoot(s.h)
			return fmt.Sprintf("OK_%s_n%s", rootHex(r), hx(uint64(*s.count-before)))
		case "ser":
			d, err := serializeView(vw)
			if err != nil {
				return "ERR"
			}
			return "OK_" + hexBytes(d)
		case "blen":
			n, err := vw.ValueByteLength()
			if err != nil {
				return "ERR"
			}
			return "OK_" + hx(n)
		case "len":
			switch x := vw.(type) {
			case *view.BasicListView:
				n, err := x.Length()
				if err != nil {
					return "ERR"
				}
				return "OK_" + hx(n)
			case *view.ComplexListView:
				n, err := x.Length()
				if err != nil {
					return "ERR"
				}
				return "OK_" + hx(n)
			case *view.BitListView:
				n, err := x.Length()
				if err != nil {
					return "ERR"
				}
				return "OK_" + hx(n)
			case *view.BasicVectorView, *view.ComplexVectorView, *view.BitVectorView:
				return "OK_" + hx(t.N)
			case *view.ContainerView:
				return "OK_" + hx(uint64(len(t.Fields)))
			}
			return "ERR"
		case "elem":
			var el view.View
			var err error
			switch x := vw.(type) {
			case *view.BasicVectorView:
				el, err = x.Get(o.i)
			case *view.BasicListView:
				el, err = x.Get(o.i)
			case *view.BitVectorView:
				var b view.BoolView
				b, err = x.Get(o.i)
				el = b
			case *view.BitListView:
				var b view.BoolView
				b, err = x.Get(o.i)
				el = b
			case *view.ComplexVectorView:
				el, err = x.Get(o.i)
			case *view.ComplexListView:
				el, err = x.Get(o.i)
			case *view.ContainerView:
				el, err = x.Get(o.i)
			default:
				return "ERR"
			}
			if err != nil {
				return "ERR"
			}
			if isPackedOrBits(t) {
				return valueSexp(el)
			}
			return "OK_" + rootHex(el.HashTreeRoot(s.h))
		case "sel":
			u, ok := vw.(*view.UnionView)
			if !ok {
				return "ERR"
			}
			sel, err := u.Selector()
			if err != nil {
				return "ERR"
			}
			return "OK_" + hx(uint64(sel))
		case "snap":
			b := vw.Backing()
			s.snaps = append(s.snaps, snapshot{node: b, root: rawRoot(b, s.h), shape: rawShape(b)})
			return "OK"
		case "summ":
			// tree-level use of a backing that was handed out: a summarised version of it is
			// made (SummarizeInto at generalized index o.i) and kept as one more snapshot; the
			// tree it was made from, and everything sharing structure with it, stays as it is
			b := vw.Backing()
			if link, err := b.SummarizeInto(tree.Gindex64(o.i), s.h); err == nil {
				if n2, err := link(); err == nil && n2 != nil {
					s.snaps = append(s.snaps, snapshot{node: n2, root: rawRoot(n2, s.h), shape: rawShape(n2)})
				}
			}
			return "OK"
		case "memo":
			if s.checkMemos() {
				return "OK"
			}
			return "STALE"
		}
		return "ERR"
	})
}

// illTyped: the source of a mutation has another type than the slot it goes into
// (outside the properties; both sides answer ERR without running the operation)
func (s *hstate) illTyped(o hop) bool {
	if o.kind != "set" && o.kind != "append" && o.kind != "change" {
		return false
	}
	t := s.tys[o.h]
	var expect *Ty
	switch o.kind {
	case "set":
		switch t.Kind {
		case "bitvec", "bitlist":
			expect = &Ty{Kind: "bool"}
		case "vec", "list":
			expect = t.Elem
		case "cont":
			if o.i < uint64(len(t.Fields)) {
				expect = t.Fields[o.i]
			}
		}
	case "append":
		switch t.Kind {
		case "bitlist":
			expect = &Ty{Kind: "bool"}
		case "list":
			expect = t.Elem
		}
	case "change":
		if t.Kind == "union" && o.i < 256 {
			expect = t.OptionTy(int(o.i))
		}
	}
	var src *Ty
	switch o.src.kind {
	case "lit", "dflt":
		src = o.src.t
	case "h":
		if o.src.h < len(s.tys) {
			src = s.tys[o.src.h]
		}
	}
	if expect == nil || src == nil {
		return false
	}
	return expect.Sexp() != src.Sexp()
}

// checkSnaps re-derives every snapshot from the raw node structure.
func (s *hstate) checkSnaps() bool {
	for _, sn := range s.snaps {
		if rawRoot(sn.node, s.h) != sn.root || rawShape(sn.node) != sn.shape {
			return false
		}
	}
	return true
}

// checkMemos walks every pair node reachable from a live view or a snapshot and re-derives
// each memoised root from the node's children.
func (s *hstate) checkMemos() bool {
	seen := map[*tree.PairNode]bool{}
	ok := true
	var walk func(n tree.Node)
	walk = func(n tree.Node) {
		p, isPair := n.(*tree.PairNode)
		if !isPair || seen[p] {
			return
		}
		seen[p] = true
		if p.Value != (tree.Root{}) && p.Value != s.h(rawRoot(p.LeftChild, s.h), rawRoot(p.RightChild, s.h)) {
			ok = false
		}
		walk(p.LeftChild)
		walk(p.RightChild)
	}
	for _, v := range s.views {
		if b := v.Backing(); b != nil {
			walk(b)
		}
	}
	for _, sn := range s.snaps {
		walk(sn.node)
	}
	return ok
}

// runScript executes ops and renders the observation exactly like ocaml/hist.ml.
func runScript(s *hstate, ops []hop) string {
	var sb strings.Builder
	for k, o := range ops {
		fmt.Fprintf(&sb, "s%d=%s ", k, s.exec(o))
		if !s.checkSnaps() {
			fmt.Fprintf(&sb, "snapbad%d=1 ", k)
		}
	}
	if s.checkSnaps() {
		sb.WriteString("snaps=ok")
	} else {
		sb.WriteString("snaps=bad")
	}
	return sb.String()
}

func opsSexp(ops []hop) string {
	parts := make([]string, len(ops))
	for i, o := range ops {
		parts[i] = o.Sexp()
	}
	return "(" + strings.Join(parts, " ") + ")"
}

// ---- online generation of mostly-valid histories ----

type histGen struct {
	g           *gen
	r           *rand.Rand
	snaps       bool // C05: snapshots and copies
	counts      bool // C07: count ops (inserted values are pre-hashed handles or basic literals)
	memos       bool // C06
	useDefaults bool // C14: insert Default(nil) views of composite types
	iters       bool // sub-views also through Iter(): (iter h) opens one, (next k) advances it
	pending     []hop // ops queued by a multi-step pattern
}

func currentLen(v view.View, t *Ty) uint64 {
	switch x := v.(type) {
	case *view.BasicListView:
		n, _ := x.Length()
		return n
	case *view.ComplexListView:
		n, _ := x.Length()
		return n
	case *view.BitListView:
		n, _ := x.Length()
		return n
	case *view.ContainerView:
		return uint64(len(t.Fields))
	}
	return t.N
}

func isComposite(t *Ty) bool {
	switch t.Kind {
	case "bitvec", "bitlist", "vec", "list", "cont", "union":
		return true
	}
	return false
}

func elemTyOf(t *Ty, i uint64) *Ty {
	switch t.Kind {
	case "vec", "list":
		return t.Elem
	case "cont":
		if i < uint64(len(t.Fields)) {
			return t.Fields[i]
		}
	}
	return nil
}

// litFor makes a literal source of type t (values kept small); with useDefaults, composite
// values are sometimes the type's own Default(nil) view (shared default structures)
func (hg *histGen) litFor(t *Ty) srcSpec {
	if hg.useDefaults && isComposite(t) && hg.r.Intn(2) == 0 {
		return srcSpec{kind: "dflt", t: t}
	}
	return srcSpec{kind: "lit", t: t, v: hg.g.val(t)}
}

// next chooses the next op given the live state.
func (hg *histGen) next(s *hstate) hop {
	r := hg.r
	if len(hg.pending) > 0 {
		o := hg.pending[0]
		hg.pending = hg.pending[1:]
		return o
	}
	// pick a handle, preferring composite ones
	h := r.Intn(len(s.views))
	for tries := 0; tries < 4 && !isComposite(s.tys[h]); tries++ {
		h = r.Intn(len(s.views))
	}
	t := s.tys[h]
	n := currentLen(s.views[h], t)
	idx := func() uint64 {
		if r.Intn(12) == 0 || n == 0 {
			return n + uint64(r.Intn(3)) // out of range
		}
		return uint64(r.Int63n(int64(n)))
	}
	c := r.Intn(100)
	if r.Intn(25) == 0 && isComposite(t) {
		if bb := backedBase(s.views[h]); bb != nil && bb.Hook == nil {
			if r.Intn(2) == 0 {
				return hop{kind: "rebuild", h: h}
			}
			var cands []int
			for k, ht := range s.tys {
				if k != h && ht != nil && ht.Sexp() == t.Sexp() {
					cands = append(cands, k)
				}
			}
			if len(cands) > 0 {
				return hop{kind: "repoint", h: h, i: uint64(cands[r.Intn(len(cands))])}
			}
		}
	}
	if hg.iters {
		switch x := r.Intn(100); {
		case x < 5 && (t.Kind == "vec" || t.Kind == "list" || t.Kind == "cont") && !isPackedOrBits(t):
			return hop{kind: "iter", h: h}
		case x < 16 && len(s.iters) > 0:
			return hop{kind: "next", h: r.Intn(len(s.iters))}
		}
	}
	switch {
	case c < 50: // mutation
		switch t.Kind {
		case "bitvec":
			return hop{kind: "set", h: h, i: idx(), src: hg.litFor(&Ty{Kind: "bool"})}
		case "bitlist":
			switch r.Intn(4) {
			case 0:
				return hop{kind: "pop", h: h}
			case 1:
				return hop{kind: "set", h: h, i: idx(), src: hg.litFor(&Ty{Kind: "bool"})}
			default:
				return hop{kind: "append", h: h, src: hg.litFor(&Ty{Kind: "bool"})}
			}
		case "vec":
			return hop{kind: "set", h: h, i: idx(), src: hg.srcFor(s, t.Elem)}
		case "list":
			switch r.Intn(4) {
			case 0:
				return hop{kind: "pop", h: h}
			case 1:
				return hop{kind: "set", h: h, i: idx(), src: hg.srcFor(s, t.Elem)}
			default:
				return hop{kind: "append", h: h, src: hg.srcFor(s, t.Elem)}
			}
		case "cont":
			i := idx()
			et := elemTyOf(t, i)
			if et == nil {
				et = t.Fields[0]
			}
			return hop{kind: "set", h: h, i: i, src: hg.srcFor(s, et)}
		case "union":
			// re-tag: the union's own current value (taken out with Value()) is put back under
			// another selector that carries the same type
			if u, ok := s.views[h].(*view.UnionView); ok && r.Intn(4) == 0 {
				sel0, serr := u.Selector()
				if cur := t.OptionTy(int(sel0)); cur != nil && serr == nil {
					var twins []int
					for k := 0; k < t.OptionCount(); k++ {
						if o := t.OptionTy(k); o != nil && o.Sexp() == cur.Sexp() {
							twins = append(twins, k)
						}
					}
					if len(twins) > 1 {
						hg.pending = append(hg.pending, hop{kind: "change", h: h, i: uint64(twins[r.Intn(len(twins))]), src: srcSpec{kind: "h", h: len(s.views)}})
						return hop{kind: "uvalue", h: h}
					}
				}
			}
			sel := r.Intn(t.OptionCount())
			if r.Intn(15) == 0 {
				sel = t.OptionCount() + r.Intn(2)
			}
			o := t.OptionTy(sel)
			if o == nil {
				if t.None && sel == 0 {
					return hop{kind: "change", h: h, i: uint64(sel), src: srcSpec{kind: "none"}}
				}
				return hop{kind: "change", h: h, i: uint64(sel), src: hg.litFor(t.Fields[0])}
			}
			return hop{kind: "change", h: h, i: uint64(sel), src: hg.srcFor(s, o)}
		}
		return hop{kind: "htr", h: h}
	case c < 62: // sub-views
		switch t.Kind {
		case "vec", "list", "cont":
			if !isPackedOrBits(t) {
				return hop{kind: "get", h: h, i: idx()}
			}
		case "union":
			return hop{kind: "uvalue", h: h}
		}
		return hop{kind: "copy", h: h}
	case c < 66:
		if hg.snaps {
			switch r.Intn(5) {
			case 0, 1:
				return hop{kind: "snap", h: h}
			case 2:
				// snapshot, then (next step) a summarised version made from the same backing
				d := uint(1 + r.Intn(6))
				hg.pending = append(hg.pending, hop{kind: "summ", h: h, i: uint64(1)<<d | uint64(r.Int63n(int64(1)<<d))})
				if r.Intn(2) == 0 {
					hg.pending = append([]hop{{kind: "htr", h: h}}, hg.pending...)
				}
				return hop{kind: "snap", h: h}
			}
			return hop{kind: "copy", h: h}
		}
		return hop{kind: "htr", h: 0}
	case c < 70:
		if hg.memos {
			if r.Intn(3) == 0 {
				hg.pending = append(hg.pending, hop{kind: "memo"})
				return hop{kind: "htrpanic", h: h, i: uint64(r.Intn(7))}
			}
			return hop{kind: "memo"}
		}
		return hop{kind: "ser", h: 0}
	case c < 78:
		return hop{kind: "htr", h: h}
	case c < 84:
		return hop{kind: "htr", h: 0}
	case c < 89:
		return hop{kind: "ser", h: r.Intn(len(s.views))}
	case c < 93:
		return hop{kind: "len", h: h}
	case c < 97:
		if t.Kind == "union" {
			return hop{kind: "sel", h: h}
		}
		return hop{kind: "elem", h: h, i: idx()}
	default:
		return hop{kind: "blen", h: h}
	}
}

// srcFor: a literal, or (for composite element types) sometimes an existing handle of that type
func (hg *histGen) srcFor(s *hstate, t *Ty) srcSpec {
	if !t.IsBasicElem() && t.Kind != "bool" && hg.r.Intn(3) == 0 {
		want := t.Sexp()
		var cands []int
		for k, ht := range s.tys {
			if ht != nil && ht.Sexp() == want {
				cands = append(cands, k)
			}
		}
		if len(cands) > 0 {
			return srcSpec{kind: "h", h: cands[hg.r.Intn(len(cands))]}
		}
	}
	return hg.litFor(t)
}

// genHistory runs an online-generated history of the given length from an initial value.
func genHistory(hg *histGen, t *Ty, v *Val, route string, length int, h tree.HashFn) (ops []hop, obs string) {
	s := &hstate{h: h, count: &hashCalls}
	hg.pending = nil
	var root view.View
	if route == "default" {
		root = t.Def().Default(nil)
	} else {
		var err error
		root, err = buildView(t, v)
		if err != nil {
			return nil, "BUILD-ERR"
		}
	}
	if hg.memos && hg.r.Intn(2) == 0 {
		// the root view reports every new backing to its owner (a caller-supplied BackingHook),
		// and the owner asks for its root at once - a root request placed inside the mutation
		if rv, err := t.Def().ViewFromBacking(root.Backing(), func(b tree.Node) error {
			b.MerkleRoot(h)
			return nil
		}); err == nil {
			root = rv
		}
	}
	s.push(t, root)
	var sb strings.Builder
	for k := 0; k < length; k++ {
		o := hg.next(s)
		ops = append(ops, o)
		fmt.Fprintf(&sb, "s%d=%s ", k, s.exec(o))
		if !s.checkSnaps() {
			fmt.Fprintf(&sb, "snapbad%d=1 ", k)
		}
	}
	// closing reads on the root view: the property's observables
	for _, kind := range []string{"htr", "ser", "blen"} {
		o := hop{kind: kind, h: 0}
		ops = append(ops, o)
		fmt.Fprintf(&sb, "s%d=%s ", len(ops)-1, s.exec(o))
	}
	if s.checkSnaps() {
		sb.WriteString("snaps=ok")
	} else {
		sb.WriteString("snaps=bad")
	}
	return ops, sb.String()
}

// backedBase returns the embedded *view.BackedView of a tree-backed view, if any.
func backedBase(vw view.View) *view.BackedView {
	rv := reflect.ValueOf(vw)
	if rv.Kind() != reflect.Ptr || rv.Elem().Kind() != reflect.Struct {
		return nil
	}
	f := rv.Elem().FieldByName("BackedView")
	if !f.IsValid() || !f.CanAddr() {
		return nil
	}
	bv, _ := f.Addr().Interface().(*view.BackedView)
	return bv
}
