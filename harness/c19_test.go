//go:build verif

package verifharness

import (
	"bytes"
	"errors"
	"fmt"
	"math/big"
	"strconv"
	"testing"

	"github.com/holiman/uint256"
	"github.com/protolambda/ztyp/conv"
	"github.com/protolambda/ztyp/tree"
	"github.com/protolambda/ztyp/view"
)

func classify(err error) string {
	switch {
	case err == nil:
		return ""
	case errors.Is(err, strconv.ErrSyntax):
		return "ESYNTAX"
	case errors.Is(err, strconv.ErrRange):
		return "ERANGE"
	case errors.Is(err, conv.EmptyInputErr):
		return "EEMPTY"
	case errors.Is(err, conv.MissingQuoteErr):
		return "EQUOTE"
	}
	return "EOTHER"
}

// presetDst: unmarshal into destinations that already hold a (large) value
var presetDst bool

func uut(w int, text []byte) string {
	var n uint64
	var err error
	if presetDst {
		switch w {
		case 8:
			v := view.Uint8View(0xa5)
			err = v.UnmarshalText(text)
			n = uint64(v)
		case 16:
			v := view.Uint16View(0xa5a5)
			err = v.UnmarshalText(text)
			n = uint64(v)
		case 32:
			v := view.Uint32View(0xa5a5a5a5)
			err = v.UnmarshalText(text)
			n = uint64(v)
		case 64:
			v := view.Uint64View(0xa5a5a5a5a5a5a5a5)
			err = v.UnmarshalText(text)
			n = uint64(v)
		}
		if err != nil {
			return classify(err)
		}
		return "OK " + hx(n)
	}
	switch w {
	case 8:
		var v view.Uint8View
		err = v.UnmarshalText(text)
		n = uint64(v)
	case 16:
		var v view.Uint16View
		err = v.UnmarshalText(text)
		n = uint64(v)
	case 32:
		var v view.Uint32View
		err = v.UnmarshalText(text)
		n = uint64(v)
	case 64:
		var v view.Uint64View
		err = v.UnmarshalText(text)
		n = uint64(v)
	}
	if err != nil {
		return classify(err)
	}
	return "OK " + hx(n)
}

func uuj(w int, text []byte) string {
	var n uint64
	var err error
	if presetDst {
		switch w {
		case 8:
			v := view.Uint8View(0xa5)
			err = v.UnmarshalJSON(text)
			n = uint64(v)
		case 16:
			v := view.Uint16View(0xa5a5)
			err = v.UnmarshalJSON(text)
			n = uint64(v)
		case 32:
			v := view.Uint32View(0xa5a5a5a5)
			err = v.UnmarshalJSON(text)
			n = uint64(v)
		case 64:
			v := view.Uint64View(0xa5a5a5a5a5a5a5a5)
			err = v.UnmarshalJSON(text)
			n = uint64(v)
		}
		if err != nil {
			return classify(err)
		}
		return "OK " + hx(n)
	}
	switch w {
	case 8:
		var v view.Uint8View
		err = v.UnmarshalJSON(text)
		n = uint64(v)
	case 16:
		var v view.Uint16View
		err = v.UnmarshalJSON(text)
		n = uint64(v)
	case 32:
		var v view.Uint32View
		err = v.UnmarshalJSON(text)
		n = uint64(v)
	case 64:
		var v view.Uint64View
		err = v.UnmarshalJSON(text)
		n = uint64(v)
	}
	if err != nil {
		return classify(err)
	}
	return "OK " + hx(n)
}

func u256hex(v view.Uint256View) string {
	s, _ := readBasic(nil, v)
	return s[3 : len(s)-1]
}

func TestC19(t *testing.T) {
	out := openOut(t, "C19")
	defer out.close()
	rng := newRng(19)
	// marshalling: all uint8/uint16, boundary + random wider
	var keptTxt, keptJS []byte
	var keptN uint64
	marsh := func(w int, n uint64) {
		var txt, js []byte
		switch w {
		case 8:
			txt, _ = view.Uint8View(n).MarshalText()
			js, _ = view.Uint8View(n).MarshalJSON()
		case 16:
			txt, _ = view.Uint16View(n).MarshalText()
			js, _ = view.Uint16View(n).MarshalJSON()
		case 32:
			txt, _ = view.Uint32View(n).MarshalText()
			js, _ = view.Uint32View(n).MarshalJSON()
		case 64:
			txt, _ = view.Uint64View(n).MarshalText()
			js, _ = view.Uint64View(n).MarshalJSON()
		}
		out.emit("marshal", "umt", []string{hx(n)}, hexBytes(txt))
		out.emit("marshal", "umj", []string{hx(n)}, hexBytes(js))
		// the results of the PREVIOUS call are looked at only now, after this one (a caller may
		// keep what Marshal returned)
		if keptTxt != nil {
			out.emit("kept", "umt", []string{hx(keptN)}, hexBytes(keptTxt))
			out.emit("kept", "umj", []string{hx(keptN)}, hexBytes(keptJS))
		}
		keptTxt, keptJS, keptN = txt, js, n
		// String() is the same decimal text
		var str string
		switch w {
		case 8:
			str = view.Uint8View(n).String()
		case 16:
			str = view.Uint16View(n).String()
		case 32:
			str = view.Uint32View(n).String()
		case 64:
			str = view.Uint64View(n).String()
		}
		out.emit("string", "umt", []string{hx(n)}, hexBytes([]byte(str)))
		// and back
		out.emit("round", "uut", []string{hx(uint64(w)), hexBytes(txt)}, uut(w, txt))
		out.emit("round", "uuj", []string{hx(uint64(w)), hexBytes(js)}, uuj(w, js))
	}
	for n := uint64(0); n < 256; n++ {
		marsh(8, n)
	}
	step := uint64(37)
	if thorough() {
		step = 1
	}
	for n := uint64(0); n < 65536; n += step {
		marsh(16, n)
	}
	marsh(16, 65535)
	for _, w := range []int{32, 64} {
		max := uint64(1)<<uint(w) - 1
		for _, n := range []uint64{0, 1, 9, 10, 99, 100, max, max - 1, max / 2, max / 3, max / 10, max/10 + 1} {
			marsh(w, n)
		}
		cnt := 300
		if thorough() {
			cnt = 20000
		}
		for k := 0; k < cnt; k++ {
			marsh(w, (rng.Uint64()>>uint(rng.Intn(64)))&max)
		}
	}
	// unmarshalling arbitrary numeric texts, every width
	texts := []string{"", "0", "00", "01", "08", "0x", "0x0", "0X1f", "0b", "0b101", "0B2", "0o17", "0O8", "017", "1_000", "_1", "1_", "1__0", "0_1", "0x_1", "0x1_", "+1", "-1", "-0", " 1", "1 ", "\"", "\"\"", "\"1", "1\"", "\"1\"", "\"0x10\"", "'1'", "1e3", "1.0", "१", "0xg", "ff", "0xFF", "0xff", "255", "256", "65535", "65536", "4294967295", "4294967296", "18446744073709551615", "18446744073709551616", "18446744073709551617", "99999999999999999999", "0x10000000000000000", "0xffffffffffffffff", "1844674407370955161", "184467440737095516150", "0b1111111111111111111111111111111111111111111111111111111111111111", "0b10000000000000000000000000000000000000000000000000000000000000000", "01777777777777777777777", "02000000000000000000000", "0_", "0__1", "1_2_3", "0x_", "\"_1\"", "0b1_0", "0o_7"}
	digits := "0123456789abcdefxXoObB_+-\" "
	cnt := 2500
	if thorough() {
		cnt = 80000
	}
	for k := 0; k < cnt; k++ {
		ln := rng.Intn(24)
		b := make([]byte, ln)
		for i := range b {
			if rng.Intn(3) == 0 {
				b[i] = digits[rng.Intn(len(digits))]
			} else {
				b[i] = byte('0' + rng.Intn(10))
			}
		}
		if rng.Intn(4) == 0 {
			b = append([]byte{'"'}, append(b, '"')...)
		}
		texts = append(texts, string(b))
	}
	// decimal texts of values up to 2^264
	for k := 0; k < cnt/4; k++ {
		bits := rng.Intn(265)
		v := new(big.Int).Rand(rng, new(big.Int).Lsh(big.NewInt(1), uint(bits)))
		texts = append(texts, v.String())
		if rng.Intn(3) == 0 {
			texts = append(texts, "\""+v.String()+"\"", "0x"+v.Text(16), "-"+v.String())
		}
	}
	for _, e := range []uint{8, 16, 32, 64, 256} {
		p := new(big.Int).Lsh(big.NewInt(1), e)
		for d := int64(-2); d <= 2; d++ {
			texts = append(texts, new(big.Int).Add(p, big.NewInt(d)).String())
		}
	}
	preset256 := func() view.Uint256View {
		var le [32]byte
		for i := range le {
			le[i] = 0xa5
		}
		var v view.Uint256View
		v.SetBytes32(le)
		return v
	}
	for si, s := range texts {
		tb := []byte(s)
		// every text also against destinations that already hold a value
		if si%2 == 1 {
			presetDst = true
			for _, w := range []int{8, 16, 32, 64} {
				out.emit("text-reuse", "uut", []string{hx(uint64(w)), hexBytes(tb)}, guard(func() string { return uut(w, tb) }))
				out.emit("json-reuse", "uuj", []string{hx(uint64(w)), hexBytes(tb)}, guard(func() string { return uuj(w, tb) }))
			}
			presetDst = false
			out.emit("u256-reuse", "u256ut", []string{hexBytes(tb)}, guard(func() string {
				v := preset256()
				if err := v.UnmarshalText(tb); err != nil {
					return classify(err)
				}
				return "OK " + u256hex(v)
			}))
			out.emit("u256-reuse", "u256uj", []string{hexBytes(tb)}, guard(func() string {
				v := preset256()
				if err := v.UnmarshalJSON(tb); err != nil {
					return classify(err)
				}
				return "OK " + u256hex(v)
			}))
		}
		for _, w := range []int{8, 16, 32, 64} {
			out.emit("text", "uut", []string{hx(uint64(w)), hexBytes(tb)}, guard(func() string { return uut(w, tb) }))
			out.emit("json", "uuj", []string{hx(uint64(w)), hexBytes(tb)}, guard(func() string { return uuj(w, tb) }))
		}
		out.emit("u256", "u256ut", []string{hexBytes(tb)}, guard(func() string {
			var v view.Uint256View
			if err := v.UnmarshalText(tb); err != nil {
				return classify(err)
			}
			return "OK " + u256hex(v)
		}))
		out.emit("u256", "u256uj", []string{hexBytes(tb)}, guard(func() string {
			var v view.Uint256View
			if err := v.UnmarshalJSON(tb); err != nil {
				return classify(err)
			}
			return "OK " + u256hex(v)
		}))
	}
	// uint256 marshalling: random values, the top of the range, and values whose decimal text
	// has long runs of zeros (d * 10^k, 10^k +- small, sums of a few powers of ten)
	var special256 []*big.Int
	two256 := new(big.Int).Lsh(big.NewInt(1), 256)
	for e := 0; e <= 77; e++ {
		p := new(big.Int).Exp(big.NewInt(10), big.NewInt(int64(e)), nil)
		for _, d := range []int64{1, 2, 9} {
			special256 = append(special256, new(big.Int).Mul(p, big.NewInt(d)))
		}
		special256 = append(special256, new(big.Int).Add(p, big.NewInt(7)), new(big.Int).Sub(p, big.NewInt(1)))
		if e >= 19 {
			q := new(big.Int).Exp(big.NewInt(10), big.NewInt(int64(e-19)), nil)
			special256 = append(special256, new(big.Int).Add(p, q), new(big.Int).Add(new(big.Int).Mul(p, big.NewInt(3)), big.NewInt(5)))
		}
	}
	for k := 0; k < cnt/5+len(special256); k++ {
		bits := rng.Intn(257)
		x := new(big.Int).Rand(rng, new(big.Int).Lsh(big.NewInt(1), uint(bits)))
		if k < 4 {
			x = new(big.Int).Sub(new(big.Int).Lsh(big.NewInt(1), 256), big.NewInt(int64(k+1)))
		}
		if k >= cnt/5 {
			x = special256[k-cnt/5]
			if x.Cmp(two256) >= 0 || x.Sign() < 0 {
				continue
			}
		}
		var u uint256.Int
		u.SetFromBig(x)
		v := view.Uint256View(u)
		txt, _ := v.MarshalText()
		js, _ := v.MarshalJSON()
		out.emit("marshal256", "umt", []string{x.Text(16)}, hexBytes(txt))
		out.emit("marshal256", "umj", []string{x.Text(16)}, hexBytes(js))
		out.emit("string256", "umt", []string{x.Text(16)}, hexBytes([]byte(v.String())))
		// MustUint256 of the marshalled text gives the value back
		out.emit("must256", "u256ut", []string{hexBytes(txt)}, guard(func() string {
			return "OK " + u256hex(view.MustUint256(string(txt)))
		}))
	}
	// hex: every length 0..80 +- prefix, odd lengths, non-hex characters; all destinations
	hexAlphabet := "0123456789abcdefABCDEF"
	for ln := 0; ln <= 80; ln++ {
		reps := 2
		if thorough() {
			reps = 12
		}
		for r := 0; r < reps; r++ {
			b := make([]byte, ln)
			for i := range b {
				b[i] = hexAlphabet[rng.Intn(len(hexAlphabet))]
			}
			if ln > 0 && rng.Intn(6) == 0 {
				b[rng.Intn(ln)] = "gGxX -_"[rng.Intn(7)]
			}
			for _, pre := range []string{"", "0x", "0X", "0x0x", "1X", "fX", "xX", "1x", "00", "0y", "X0", " X", "\"X", "0", "x"} {
				text := append([]byte(pre), b...)
				for _, k := range []int{0, 1, 4, 20, 31, 32, 33, ln / 2, (ln + 1) / 2} {
					kk := k
					out.emit("hexu", "hexu", []string{hx(uint64(kk)), hexBytes(text)}, guard(func() string {
						dst := make([]byte, kk)
						if err := conv.FixedBytesUnmarshalText(dst, text); err != nil {
							return "ERR"
						}
						return "OK " + hexBytes(dst)
					}))
				}
			}
		}
	}
	// large fixed destinations (48 .. 1000 bytes): texts denoting fewer, exactly as many and more
	// bytes; destinations that already hold something
	for _, kk := range []int{48, 96, 127, 128, 129, 256, 1000} {
		for _, tl := range []int{0, 1, kk / 2, kk - 1, kk, kk + 1, 2 * kk} {
			for _, pre := range []string{"", "0x"} {
				b := make([]byte, 2*tl)
				for i := range b {
					b[i] = "0123456789abcdefABCDEF"[rng.Intn(22)]
				}
				text := append([]byte(pre), b...)
				k2 := kk
				out.emit("hexu-big", "hexu", []string{hx(uint64(k2)), hexBytes(text)}, guard(func() string {
					dst := bytes.Repeat([]byte{0xa5}, k2)
					if err := conv.FixedBytesUnmarshalText(dst, text); err != nil {
						return "ERR"
					}
					return "OK " + hexBytes(dst)
				}))
			}
		}
	}
	for k := 0; k < 200; k++ {
		b := make([]byte, rng.Intn(40))
		rng.Read(b)
		out.emit("hexm", "hexm", []string{hexBytes(b)}, guard(func() string {
			o, _ := conv.BytesMarshalText(b)
			return hexBytes(o)
		}))
		if len(b) == 4 || len(b) == 8 || len(b) == 16 || len(b) == 20 {
			out.emit("bstr", "bstr", []string{hexBytes(b)}, hexBytes([]byte(view.SmallByteVecView(b).String())))
		}
	}
	// DynamicBytesUnmarshalText (fresh and reused destinations) and BytesString
	for ln := 0; ln <= 40; ln++ {
		for r := 0; r < 3; r++ {
			b := make([]byte, ln)
			for i := range b {
				b[i] = hexAlphabet[rng.Intn(len(hexAlphabet))]
			}
			if ln > 0 && rng.Intn(6) == 0 {
				b[rng.Intn(ln)] = "gGxX -_"[rng.Intn(7)]
			}
			for _, pre := range []string{"", "0x", "0X", "1X", "fX", "1x", "00", " X"} {
				text := append([]byte(pre), b...)
				for _, preset := range []int{-1, 0, 3, 64} {
					ps := preset
					out.emit("dynu", "dynu", []string{hexBytes(text)}, guard(func() string {
						var dst []byte
						if ps >= 0 {
							dst = make([]byte, ps)
							for i := range dst {
								dst[i] = 0xa5
							}
						}
						if err := conv.DynamicBytesUnmarshalText(&dst, text); err != nil {
							return "ERR"
						}
						return "OK " + hexBytes(dst)
					}))
				}
			}
		}
	}
	for k := 0; k < 60; k++ {
		b := make([]byte, rng.Intn(40))
		rng.Read(b)
		out.emit("bstr", "bstr", []string{hexBytes(b)}, hexBytes([]byte(conv.BytesString(b))))
		var rv view.RootView
		rng.Read(rv[:])
		txt, _ := rv.MarshalText()
		out.emit("hexm", "hexm", []string{hexBytes(rv[:])}, hexBytes(txt))
		var rv2 view.RootView
		rng.Read(rv2[:])
		out.emit("hexu", "hexu", []string{"20", hexBytes(txt)}, guard(func() string {
			if err := rv2.UnmarshalText(txt); err != nil {
				return "ERR"
			}
			return "OK " + hexBytes(rv2[:])
		}))
		out.emit("bstr", "bstr", []string{hexBytes(rv[:])}, hexBytes([]byte(rv.String())))
	}
	// the typed wrappers: Root / RootView / SmallByteVecView
	for k := 0; k < 60; k++ {
		var r tree.Root
		rng.Read(r[:])
		txt, _ := r.MarshalText()
		out.emit("hexm", "hexm", []string{hexBytes(r[:])}, hexBytes(txt))
		out.emit("bstr", "bstr", []string{hexBytes(r[:])}, hexBytes([]byte(r.String())))
		var r2 tree.Root
		out.emit("hexu", "hexu", []string{"20", hexBytes(txt)}, guard(func() string {
			if err := r2.UnmarshalText(txt); err != nil {
				return "ERR"
			}
			return "OK " + hexBytes(r2[:])
		}))
		sb := view.SmallByteVecView(make([]byte, 1+rng.Intn(32)))
		rng.Read(sb)
		stxt, _ := sb.MarshalText()
		out.emit("hexm", "hexm", []string{hexBytes(sb)}, hexBytes(stxt))
		dst := view.SmallByteVecView(make([]byte, len(sb)))
		out.emit("hexu", "hexu", []string{hx(uint64(len(sb))), hexBytes(stxt)}, guard(func() string {
			if err := dst.UnmarshalText(stxt); err != nil {
				return "ERR"
			}
			return "OK " + hexBytes(dst)
		}))
	}
	_ = fmt.Sprint
}
