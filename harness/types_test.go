//go:build verif

package verifharness

import (
	"bytes"
	"encoding/binary"
	"fmt"
	"math/big"
	"math/rand"
	"strings"

	"github.com/protolambda/ztyp/codec"
	"github.com/protolambda/ztyp/tree"
	"github.com/protolambda/ztyp/view"
)

// ---- type descriptions (mirrors coq/Types.v : ty) ----

type Ty struct {
	Kind   string // u bool bytes root bitvec bitlist vec list cont union
	N      uint64 // width / length / limit
	Elem   *Ty
	Fields []*Ty // container fields or union options (without the None option)
	None   bool  // union: option 0 is None
	def    view.TypeDef
}

func (t *Ty) Sexp() string {
	switch t.Kind {
	case "bool", "root":
		return t.Kind
	case "u", "bytes", "bitvec", "bitlist":
		return "(" + t.Kind + " " + hx(t.N) + ")"
	case "vec", "list":
		return "(" + t.Kind + " " + t.Elem.Sexp() + " " + hx(t.N) + ")"
	case "cont", "union":
		k := t.Kind
		if t.Kind == "union" && t.None {
			k = "unionn"
		}
		var sb strings.Builder
		sb.WriteString("(" + k)
		for _, f := range t.Fields {
			sb.WriteString(" " + f.Sexp())
		}
		sb.WriteString(")")
		return sb.String()
	}
	panic("bad kind " + t.Kind)
}

func (t *Ty) IsBasicElem() bool { return t.Kind == "u" }

// HasBoolSeq: the type contains List/Vector[bool, .] (known finding D3)
func (t *Ty) HasBoolSeq() bool {
	switch t.Kind {
	case "vec", "list":
		return t.Elem.Kind == "bool" || t.Elem.HasBoolSeq()
	case "cont", "union":
		for _, f := range t.Fields {
			if f.HasBoolSeq() {
				return true
			}
		}
	}
	return false
}

// type definitions are interned by structure: downstream code declares a type once and
// reuses the same TypeDef instance wherever the type occurs
var defCache = map[string]view.TypeDef{}

func (t *Ty) Def() view.TypeDef {
	if t.def != nil {
		return t.def
	}
	key := t.Sexp()
	if d, ok := defCache[key]; ok {
		t.def = d
		return d
	}
	defer func() { defCache[key] = t.def }()
	switch t.Kind {
	case "u":
		t.def = view.UintMeta(t.N)
	case "bool":
		t.def = view.BoolType
	case "bytes":
		t.def = view.SmallByteVecMeta(t.N)
	case "root":
		t.def = view.RootType
	case "bitvec":
		t.def = view.BitVectorType(t.N)
	case "bitlist":
		t.def = view.BitListType(t.N)
	case "vec":
		t.def = view.VectorType(t.Elem.Def(), t.N)
	case "list":
		t.def = view.ListType(t.Elem.Def(), t.N)
	case "cont":
		fs := make([]view.FieldDef, len(t.Fields))
		for i, f := range t.Fields {
			fs[i] = view.FieldDef{Name: fmt.Sprintf("f%d", i), Type: f.Def()}
		}
		t.def = view.ContainerType("C", fs)
	case "union":
		var opts []view.TypeDef
		if t.None {
			opts = append(opts, nil)
		}
		for _, f := range t.Fields {
			opts = append(opts, f.Def())
		}
		t.def = view.UnionType(opts)
	default:
		panic("bad kind")
	}
	return t.def
}

func (t *Ty) IsFixed() bool {
	switch t.Kind {
	case "u", "bool", "bytes", "root", "bitvec":
		return true
	case "vec":
		return t.Elem.IsFixed()
	case "cont":
		for _, f := range t.Fields {
			if !f.IsFixed() {
				return false
			}
		}
		return true
	}
	return false
}

// OptionTy returns the type for a selector (nil for the None option / out of range).
func (t *Ty) OptionTy(sel int) *Ty {
	if t.None {
		if sel == 0 {
			return nil
		}
		sel--
	}
	if sel < 0 || sel >= len(t.Fields) {
		return nil
	}
	return t.Fields[sel]
}
func (t *Ty) OptionCount() int {
	if t.None {
		return len(t.Fields) + 1
	}
	return len(t.Fields)
}

// ---- plain values (mirrors coq/Types.v : val) ----

type Val struct {
	Kind  string // n b x bits seq cont un
	U     *big.Int
	B     bool
	Bytes []byte
	Bits  []bool
	Seq   []*Val
	Sel   int
	Inner *Val // nil = none
}

func (v *Val) Sexp() string {
	switch v.Kind {
	case "n":
		return "(n " + v.U.Text(16) + ")"
	case "b":
		return "(b " + b01(v.B) + ")"
	case "x":
		return "(x " + hexBytes(v.Bytes) + ")"
	case "bits":
		if len(v.Bits) == 0 {
			return "(bits -)"
		}
		var sb strings.Builder
		for _, b := range v.Bits {
			sb.WriteString(b01(b))
		}
		return "(bits " + sb.String() + ")"
	case "seq", "cont":
		var sb strings.Builder
		sb.WriteString("(" + v.Kind)
		for _, e := range v.Seq {
			sb.WriteString(" " + e.Sexp())
		}
		sb.WriteString(")")
		return sb.String()
	case "un":
		if v.Inner == nil {
			return "(un " + hx(uint64(v.Sel)) + " none)"
		}
		return "(un " + hx(uint64(v.Sel)) + " " + v.Inner.Sexp() + ")"
	}
	panic("bad val kind")
}

// ---- generators ----

var smallSizes = []uint64{0, 1, 2, 3, 4, 5, 6, 7, 8, 9, 10, 11, 12, 13, 14, 15, 16, 17, 31, 32, 33}
var bitSizes = []uint64{0, 1, 2, 3, 7, 8, 9, 15, 16, 17, 31, 32, 33, 255, 256, 257, 512, 513}
var bigLimits = []uint64{1 << 20, 1 << 32, 1 << 40, 1<<40 - 1, 1<<40 + 1}

type gen struct {
	r         *rand.Rand
	noBool    bool // never produce List/Vector[bool] (kept in its own stream)
	maxElem   int  // cap on the number of elements a generated (complex) collection may hold
	maxPacked int  // cap for packed basic lists (0: 4*32+2 so that chunk boundaries are reached)
	maxBits   int  // cap for bitlists (0: 3*256+2)
}

func (g *gen) pick(xs []uint64) uint64 { return xs[g.r.Intn(len(xs))] }

func (g *gen) leafTy() *Ty {
	switch g.r.Intn(9) {
	case 0:
		return &Ty{Kind: "u", N: 1}
	case 1:
		return &Ty{Kind: "u", N: 2}
	case 2:
		return &Ty{Kind: "u", N: 4}
	case 3:
		return &Ty{Kind: "u", N: 8}
	case 4:
		return &Ty{Kind: "u", N: 32}
	case 5:
		return &Ty{Kind: "bool"}
	case 6:
		return &Ty{Kind: "bytes", N: uint64(1 + g.r.Intn(32))}
	case 7:
		return &Ty{Kind: "root"}
	default:
		return &Ty{Kind: "u", N: 8}
	}
}

func (g *gen) size(allowZero bool, bits bool, allowBig bool) uint64 {
	for {
		var n uint64
		c := g.r.Intn(10)
		switch {
		case allowBig && c == 0:
			n = g.pick(bigLimits)
		case bits && c < 5:
			n = g.pick(bitSizes)
		default:
			n = g.pick(smallSizes)
		}
		if n == 0 && !allowZero {
			continue
		}
		return n
	}
}

// ty generates a type of nesting depth <= depth.
func (g *gen) ty(depth int) *Ty {
	if depth <= 0 {
		return g.leafTy()
	}
	for {
		t := g.ty1(depth)
		if g.noBool && t.HasBoolSeq() {
			continue
		}
		return t
	}
}

func (g *gen) ty1(depth int) *Ty {
	switch g.r.Intn(10) {
	case 0:
		return g.leafTy()
	case 1:
		return &Ty{Kind: "bitvec", N: g.size(false, true, false)}
	case 2:
		return &Ty{Kind: "bitlist", N: g.size(true, true, true)}
	case 3, 4:
		e := g.ty(depth - 1)
		n := g.size(false, false, false)
		if !e.IsBasicElem() && n > 9 {
			n = uint64(1 + g.r.Intn(9))
		}
		return &Ty{Kind: "vec", Elem: e, N: n}
	case 5, 6:
		return &Ty{Kind: "list", Elem: g.ty(depth - 1), N: g.size(true, false, true)}
	case 7, 8:
		k := 1 + g.r.Intn(9)
		fs := make([]*Ty, k)
		for i := range fs {
			if i > 0 && g.r.Intn(3) == 0 {
				fs[i] = fs[i-1] // runs of fields of one type
			} else {
				fs[i] = g.ty(depth - 1)
			}
		}
		return &Ty{Kind: "cont", Fields: fs}
	default:
		k := 1 + g.r.Intn(4)
		fs := make([]*Ty, k)
		for i := range fs {
			if i > 0 && g.r.Intn(3) == 0 {
				fs[i] = fs[i-1] // one type under several selectors
			} else {
				fs[i] = g.ty(depth - 1)
			}
		}
		return &Ty{Kind: "union", Fields: fs, None: g.r.Intn(2) == 0}
	}
}

func (g *gen) uintVal(w uint64) *Val {
	max := new(big.Int).Lsh(big.NewInt(1), uint(8*w))
	max.Sub(max, big.NewInt(1))
	switch g.r.Intn(6) {
	case 0:
		return &Val{Kind: "n", U: big.NewInt(0)}
	case 1:
		return &Val{Kind: "n", U: big.NewInt(1)}
	case 2:
		return &Val{Kind: "n", U: max}
	case 3:
		return &Val{Kind: "n", U: new(big.Int).Sub(max, big.NewInt(1))}
	default:
		b := make([]byte, w)
		g.r.Read(b)
		return &Val{Kind: "n", U: new(big.Int).SetBytes(b)}
	}
}

// seqLen picks a collection length for a limit: empty, one, full (if small), boundary, random.
func (g *gen) seqLen(limit uint64, perChunk uint64) int {
	capN := uint64(g.maxElem)
	if perChunk == 256 {
		capN = uint64(g.maxBits)
		if g.maxBits == 0 {
			capN = 3*256 + 2
		}
	} else if perChunk > 0 {
		capN = uint64(g.maxPacked)
		if g.maxPacked == 0 {
			capN = 4*perChunk + 2
		}
	}
	if limit < capN {
		capN = limit
	}
	var n uint64
	switch g.r.Intn(7) {
	case 0:
		n = 0
	case 1:
		n = 1
	case 2:
		n = capN
	case 3:
		if perChunk > 0 {
			n = perChunk*uint64(1+g.r.Intn(3)) + uint64(g.r.Intn(3)) - 1
		}
	default:
		n = uint64(g.r.Int63n(int64(capN) + 1))
	}
	if n > capN {
		n = capN
	}
	return int(n)
}

func (g *gen) val(t *Ty) *Val {
	switch t.Kind {
	case "u":
		return g.uintVal(t.N)
	case "bool":
		return &Val{Kind: "b", B: g.r.Intn(2) == 0}
	case "bytes", "root":
		n := t.N
		if t.Kind == "root" {
			n = 32
		}
		b := make([]byte, n)
		if g.r.Intn(4) != 0 {
			g.r.Read(b)
		}
		return &Val{Kind: "x", Bytes: b}
	case "bitvec", "bitlist":
		n := int(t.N)
		if t.Kind == "bitlist" {
			n = g.seqLen(t.N, 256)
		}
		bits := make([]bool, n)
		mode := g.r.Intn(4)
		for i := range bits {
			switch mode {
			case 0:
				bits[i] = false
			case 1:
				bits[i] = true
			default:
				bits[i] = g.r.Intn(2) == 0
			}
		}
		return &Val{Kind: "bits", Bits: bits}
	case "vec", "list":
		n := int(t.N)
		if t.Kind == "list" {
			per := uint64(0)
			if t.Elem.IsBasicElem() {
				per = 32 / t.Elem.N
			}
			n = g.seqLen(t.N, per)
		}
		vs := make([]*Val, n)
		for i := range vs {
			vs[i] = g.val(t.Elem)
		}
		return &Val{Kind: "seq", Seq: vs}
	case "cont":
		vs := make([]*Val, len(t.Fields))
		for i, f := range t.Fields {
			vs[i] = g.val(f)
		}
		return &Val{Kind: "cont", Seq: vs}
	case "union":
		sel := g.r.Intn(t.OptionCount())
		o := t.OptionTy(sel)
		if o == nil {
			return &Val{Kind: "un", Sel: sel}
		}
		return &Val{Kind: "un", Sel: sel, Inner: g.val(o)}
	}
	panic("bad kind")
}

// ---- building real views from values ----

func u256FromBig(x *big.Int) view.Uint256View {
	var out view.Uint256View
	b := x.Bytes() // big endian
	var le [32]byte
	for i := 0; i < len(b) && i < 32; i++ {
		le[i] = b[len(b)-1-i]
	}
	out.SetBytes32(le)
	return out
}

func basicView(t *Ty, v *Val) view.BasicView {
	switch t.N {
	case 1:
		return view.Uint8View(v.U.Uint64())
	case 2:
		return view.Uint16View(v.U.Uint64())
	case 4:
		return view.Uint32View(v.U.Uint64())
	case 8:
		return view.Uint64View(v.U.Uint64())
	case 32:
		return u256FromBig(v.U)
	}
	panic("bad uint width")
}

// buildView constructs the view of a value through the type's constructors
// (FromElements / FromBits / FromFields / FromView).
func buildView(t *Ty, v *Val) (view.View, error) {
	switch t.Kind {
	case "u":
		return basicView(t, v), nil
	case "bool":
		return view.BoolView(v.B), nil
	case "bytes":
		return view.SmallByteVecView(append([]byte{}, v.Bytes...)), nil
	case "root":
		var r view.RootView
		copy(r[:], v.Bytes)
		return &r, nil
	case "bitvec":
		return t.Def().(*view.BitVectorTypeDef).FromBits(v.Bits)
	case "bitlist":
		return t.Def().(*view.BitListTypeDef).FromBits(v.Bits)
	case "vec", "list":
		if t.Elem.IsBasicElem() {
			els := make([]view.BasicView, len(v.Seq))
			for i, e := range v.Seq {
				els[i] = basicView(t.Elem, e)
				if i%2 == 1 {
					// a caller-defined BasicView (typed wrappers such as `type Slot Uint64View`)
					els[i] = wrapBasic{els[i]}
				}
			}
			if t.Kind == "vec" {
				return t.Def().(*view.BasicVectorTypeDef).FromElements(els...)
			}
			return t.Def().(*view.BasicListTypeDef).FromElements(els...)
		}
		els := make([]view.View, len(v.Seq))
		for i, e := range v.Seq {
			x, err := buildView(t.Elem, e)
			if err != nil {
				return nil, err
			}
			els[i] = x
		}
		if t.Kind == "vec" {
			return t.Def().(*view.ComplexVectorTypeDef).FromElements(els...)
		}
		return t.Def().(*view.ComplexListTypeDef).FromElements(els...)
	case "cont":
		els := make([]view.View, len(v.Seq))
		for i, e := range v.Seq {
			x, err := buildView(t.Fields[i], e)
			if err != nil {
				return nil, err
			}
			els[i] = x
		}
		return t.Def().(*view.ContainerTypeDef).FromFields(els...)
	case "union":
		o := t.OptionTy(v.Sel)
		if o == nil || v.Inner == nil {
			return t.Def().(*view.UnionTypeDef).FromView(uint8(v.Sel), nil)
		}
		x, err := buildView(o, v.Inner)
		if err != nil {
			return nil, err
		}
		return t.Def().(*view.UnionTypeDef).FromView(uint8(v.Sel), x)
	}
	panic("bad kind")
}

func serializeView(v view.View) ([]byte, error) {
	var buf bytes.Buffer
	if err := v.Serialize(codec.NewEncodingWriter(&buf)); err != nil {
		return nil, err
	}
	return buf.Bytes(), nil
}

func deserialize(t *Ty, data []byte) (view.View, error) {
	return t.Def().Deserialize(codec.NewDecodingReader(bytes.NewReader(data), uint64(len(data))))
}

// ---- reading a value back through the typed getters (mirrors View.read_val) ----

func readBasic(t *Ty, v view.View) (string, error) {
	switch x := v.(type) {
	case view.Uint8View:
		return "(n " + hx(uint64(x)) + ")", nil
	case view.Uint16View:
		return "(n " + hx(uint64(x)) + ")", nil
	case view.Uint32View:
		return "(n " + hx(uint64(x)) + ")", nil
	case view.Uint64View:
		return "(n " + hx(uint64(x)) + ")", nil
	case view.Uint256View:
		b := x.Bytes32()
		be := make([]byte, 32)
		for i := 0; i < 32; i++ {
			be[i] = b[31-i]
		}
		return "(n " + new(big.Int).SetBytes(be).Text(16) + ")", nil
	case view.BoolView:
		return "(b " + b01(bool(x)) + ")", nil
	case view.SmallByteVecView:
		return "(x " + hexBytes(x) + ")", nil
	case *view.RootView:
		return "(x " + hexBytes(x[:]) + ")", nil
	}
	return "", fmt.Errorf("not a basic view: %T", v)
}

func readVal(t *Ty, v view.View) (string, error) {
	switch t.Kind {
	case "u", "bool", "bytes", "root":
		return readBasic(t, v)
	case "bitvec":
		bv := v.(*view.BitVectorView)
		var sb strings.Builder
		for i := uint64(0); i < t.N; i++ {
			b, err := bv.Get(i)
			if err != nil {
				return "", err
			}
			sb.WriteString(b01(bool(b)))
		}
		if t.N == 0 {
			return "(bits -)", nil
		}
		return "(bits " + sb.String() + ")", nil
	case "bitlist":
		bl := v.(*view.BitListView)
		n, err := bl.Length()
		if err != nil {
			return "", err
		}
		var sb strings.Builder
		for i := uint64(0); i < n; i++ {
			b, err := bl.Get(i)
			if err != nil {
				return "", err
			}
			sb.WriteString(b01(bool(b)))
		}
		if n == 0 {
			return "(bits -)", nil
		}
		return "(bits " + sb.String() + ")", nil
	case "vec", "list":
		var n uint64
		var get func(i uint64) (view.View, error)
		switch x := v.(type) {
		case *view.BasicVectorView:
			n = t.N
			get = func(i uint64) (view.View, error) { return x.Get(i) }
		case *view.ComplexVectorView:
			n = t.N
			get = x.Get
		case *view.BasicListView:
			l, err := x.Length()
			if err != nil {
				return "", err
			}
			n = l
			get = func(i uint64) (view.View, error) { return x.Get(i) }
		case *view.ComplexListView:
			l, err := x.Length()
			if err != nil {
				return "", err
			}
			n = l
			get = x.Get
		default:
			return "", fmt.Errorf("unexpected view %T", v)
		}
		var sb strings.Builder
		sb.WriteString("(seq")
		for i := uint64(0); i < n; i++ {
			e, err := get(i)
			if err != nil {
				return "", err
			}
			s, err := readVal(t.Elem, e)
			if err != nil {
				return "", err
			}
			sb.WriteString(" " + s)
		}
		sb.WriteString(")")
		return sb.String(), nil
	case "cont":
		c := v.(*view.ContainerView)
		var sb strings.Builder
		sb.WriteString("(cont")
		for i := range t.Fields {
			e, err := c.Get(uint64(i))
			if err != nil {
				return "", err
			}
			s, err := readVal(t.Fields[i], e)
			if err != nil {
				return "", err
			}
			sb.WriteString(" " + s)
		}
		sb.WriteString(")")
		return sb.String(), nil
	case "union":
		u := v.(*view.UnionView)
		sel, err := u.Selector()
		if err != nil {
			return "", err
		}
		inner, err := u.Value()
		if err != nil {
			return "", err
		}
		if inner == nil {
			return "(un " + hx(uint64(sel)) + " none)", nil
		}
		o := t.OptionTy(int(sel))
		if o == nil {
			return "", fmt.Errorf("bad selector")
		}
		s, err := readVal(o, inner)
		if err != nil {
			return "", err
		}
		return "(un " + hx(uint64(sel)) + " " + s + ")", nil
	}
	panic("bad kind")
}

func rootHex(r tree.Root) string { return hexBytes(r[:]) }

func le64(v uint64) []byte {
	var b [8]byte
	binary.LittleEndian.PutUint64(b[:], v)
	return b[:]
}

func bigInt(x int64) *big.Int { return big.NewInt(x) }

// defaultVal is the default (zero) value of a type (mirrors Types.default_val)
func defaultVal(t *Ty) *Val {
	switch t.Kind {
	case "u":
		return &Val{Kind: "n", U: big.NewInt(0)}
	case "bool":
		return &Val{Kind: "b"}
	case "bytes":
		return &Val{Kind: "x", Bytes: make([]byte, t.N)}
	case "root":
		return &Val{Kind: "x", Bytes: make([]byte, 32)}
	case "bitvec":
		return &Val{Kind: "bits", Bits: make([]bool, t.N)}
	case "bitlist":
		return &Val{Kind: "bits"}
	case "vec":
		vs := make([]*Val, t.N)
		for i := range vs {
			vs[i] = defaultVal(t.Elem)
		}
		return &Val{Kind: "seq", Seq: vs}
	case "list":
		return &Val{Kind: "seq"}
	case "cont":
		vs := make([]*Val, len(t.Fields))
		for i, f := range t.Fields {
			vs[i] = defaultVal(f)
		}
		return &Val{Kind: "cont", Seq: vs}
	case "union":
		if t.None {
			return &Val{Kind: "un", Sel: 0}
		}
		return &Val{Kind: "un", Sel: 0, Inner: defaultVal(t.Fields[0])}
	}
	panic("bad kind")
}

// wideContainers: containers with many fields (field trees of depth 6..9, offsets beyond one byte)
func wideContainers() []*Ty {
	u8 := &Ty{Kind: "u", N: 1}
	var out []*Ty
	for _, k := range []int{33, 70, 300} {
		fs := make([]*Ty, k)
		for i := range fs {
			switch i % 7 {
			case 0:
				fs[i] = &Ty{Kind: "u", N: 8}
			case 1:
				fs[i] = &Ty{Kind: "list", Elem: u8, N: 5}
			case 2:
				fs[i] = &Ty{Kind: "bool"}
			case 3:
				fs[i] = &Ty{Kind: "bitlist", N: 9}
			case 4:
				fs[i] = &Ty{Kind: "root"}
			case 5:
				fs[i] = &Ty{Kind: "vec", Elem: &Ty{Kind: "u", N: 2}, N: 3}
			default:
				fs[i] = &Ty{Kind: "u", N: 1}
			}
		}
		out = append(out, &Ty{Kind: "cont", Fields: fs})
	}
	return out
}

// wrapBasic is a BasicView implemented outside the library (by delegation)
type wrapBasic struct{ view.BasicView }

// cloneTy copies a type and gives every level a FRESH type-definition object (structurally
// identical to, but distinct from, the interned ones): values often come from an independently
// built definition.  No shared state is touched (safe from several goroutines).
func cloneTy(t *Ty) *Ty {
	if t == nil {
		return nil
	}
	c := &Ty{Kind: t.Kind, N: t.N, None: t.None, Elem: cloneTy(t.Elem)}
	for _, f := range t.Fields {
		c.Fields = append(c.Fields, cloneTy(f))
	}
	switch c.Kind {
	case "u":
		c.def = view.UintMeta(c.N)
	case "bool":
		c.def = view.BoolType
	case "bytes":
		c.def = view.SmallByteVecMeta(c.N)
	case "root":
		c.def = view.RootType
	case "bitvec":
		c.def = view.BitVectorType(c.N)
	case "bitlist":
		c.def = view.BitListType(c.N)
	case "vec":
		c.def = view.VectorType(c.Elem.def, c.N)
	case "list":
		c.def = view.ListType(c.Elem.def, c.N)
	case "cont":
		fs := make([]view.FieldDef, len(c.Fields))
		for i, f := range c.Fields {
			fs[i] = view.FieldDef{Name: fmt.Sprintf("f%d", i), Type: f.def}
		}
		c.def = view.ContainerType("C", fs)
	case "union":
		var opts []view.TypeDef
		if c.None {
			opts = append(opts, nil)
		}
		for _, f := range c.Fields {
			opts = append(opts, f.def)
		}
		c.def = view.UnionType(opts)
	}
	return c
}

// buildViewFresh builds the view of v through freshly made type definitions.
func buildViewFresh(t *Ty, v *Val) (view.View, error) {
	return buildView(cloneTy(t), v)
}
