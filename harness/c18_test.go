//go:build verif

package verifharness

import (
	"strconv"
	"testing"

	"github.com/protolambda/ztyp/bitfields"
)

func errStr(err error) string {
	if err != nil {
		return "ERR"
	}
	return "OK"
}

func bitfieldObs(bs []byte, limit uint64, idx uint64) string {
	get := guard(func() string { return "OK " + b01(bitfields.GetBit(bs, idx)) })
	set := func(v bool) string {
		return guard(func() string {
			c := append([]byte{}, bs...)
			bitfields.SetBit(c, idx, v)
			return "OK " + hexBytes(c)
		})
	}
	kv := func(k, v string) string { return k + "=" + v }
	return joinKV(
		kv("blcheck", guard(func() string { return errStr(bitfields.BitlistCheck(bs, limit)) })),
		kv("bllen", guard(func() string { return hx(bitfields.BitlistLen(bs)) })),
		kv("blones", guard(func() string { return hx(bitfields.BitlistOnesCount(bs)) })),
		kv("iszero", guard(func() string { return b01(bitfields.IsZeroBitlist(bs)) })),
		kv("bvcheck", guard(func() string { return errStr(bitfields.BitvectorCheck(bs, limit)) })),
		kv("bvones", guard(func() string { return hx(bitfields.BitvectorOnesCount(bs)) })),
		"get="+get, "set1="+set(true), "set0="+set(false))
}

func TestC18(t *testing.T) {
	out := openOut(t, "C18")
	defer out.close()
	rng := newRng(18)
	one := func(tag string, bs []byte, limit uint64, idx uint64) {
		b := append([]byte{}, bs...)
		out.emit(tag, "bitfield", []string{hexBytes(b), hx(limit), hx(idx)}, bitfieldObs(b, limit, idx))
	}
	// byte bit index, all 256 bytes
	for b := 0; b < 256; b++ {
		out.emit("bbi", "bytebitindex", []string{strconv.Itoa(b)}, hx(bitfields.BitIndex(byte(b))))
	}
	// exhaustive: all strings of <= maxLen bytes x all limits 0..40
	limits := 41
	one("ex0", nil, 0, 0)
	for l := 0; l < limits; l++ {
		one("ex0", []byte{}, uint64(l), 0)
	}
	for a := 0; a < 256; a++ {
		for l := 0; l < limits; l++ {
			one("ex1", []byte{byte(a)}, uint64(l), uint64(l%8))
		}
	}
	if thorough() {
		for a := 0; a < 256; a++ {
			for b := 0; b < 256; b++ {
				for l := 0; l < limits; l++ {
					one("ex2", []byte{byte(a), byte(b)}, uint64(l), uint64(l%16))
				}
			}
		}
	} else {
		for k := 0; k < 6000; k++ {
			one("s2", []byte{byte(rng.Intn(256)), byte(rng.Intn(256))}, uint64(rng.Intn(limits)), uint64(rng.Intn(16)))
		}
	}
	// 3 bytes: full last byte, first two from an 8-symbol alphabet
	alpha := []byte{0x00, 0x01, 0x02, 0x7f, 0x80, 0xaa, 0xfe, 0xff}
	lastStep := 7
	if thorough() {
		lastStep = 1
	}
	for _, a := range alpha {
		for _, b := range alpha {
			for c := 0; c < 256; c += lastStep {
				for l := 0; l < limits; l += 3 {
					one("ex3", []byte{a, b, byte(c)}, uint64(l), uint64((l+c)%24))
				}
			}
		}
	}
	// random longer strings around multiples of 8 and around the limit; out-of-range indices too
	n := 3000
	if thorough() {
		n = 60000
	}
	for k := 0; k < n; k++ {
		ln := rng.Intn(70)
		bs := make([]byte, ln)
		rng.Read(bs)
		if ln > 0 && rng.Intn(3) == 0 {
			bs[ln-1] = byte(1) << uint(rng.Intn(8)) // clean delimiter
		}
		if ln > 0 && rng.Intn(7) == 0 {
			bs[ln-1] = 0
		}
		var limit uint64
		switch rng.Intn(4) {
		case 0:
			limit = uint64(rng.Intn(600))
		case 1:
			limit = bitfields.BitlistLen(bs) + uint64(rng.Intn(3)) - 1
		case 2:
			limit = uint64(8*ln) + uint64(rng.Intn(17)) - 8
		default:
			limit = rng.Uint64() >> uint(rng.Intn(64))
		}
		idx := uint64(rng.Intn(8*ln + 9))
		one("rand", bs, limit, idx)
		if k%16 == 0 {
			// "no bound": limits within a few units of 2^64 (rounding expressions must not wrap)
			one("maxlimit", bs, ^uint64(0)-uint64(rng.Intn(20)), idx)
		}
	}
	// sparse contents: byte strings of 7..20 bytes with no, one or two bits set in their last
	// nine bytes (also with zero bytes at the end): word-at-a-time code paths see their edge cases
	for ln := 7; ln <= 20; ln++ {
		for bit := -1; bit < 72; bit++ {
			for _, second := range []int{-1, 3, 70} {
				if second >= 0 && (bit < 0 || ln%3 != 0) {
					continue
				}
				bs := make([]byte, ln)
				for _, b := range []int{bit, second} {
					if b >= 0 {
						pos := ln*8 - 72 + b
						if pos >= 0 {
							bs[pos>>3] |= 1 << uint(pos&7)
						}
					}
				}
				one("sparse", bs, uint64(ln*8), uint64(rng.Intn(ln*8)))
			}
		}
	}
	// covers
	for k := 0; k < n/3; k++ {
		ln := rng.Intn(6)
		a := make([]byte, ln)
		rng.Read(a)
		b := make([]byte, ln)
		rng.Read(b)
		switch rng.Intn(4) {
		case 0:
			for i := range b {
				b[i] &= a[i]
			}
		case 1:
			b = append(b, byte(rng.Intn(256)))
		}
		out.emit("covers", "covers", []string{hexBytes(a), hexBytes(b)}, guard(func() string {
			c, err := bitfields.Covers(a, b)
			return okOrErr(err, b01(c))
		}))
	}
	// bit indices of 2^32 and more (a bitfield of more than 512 MiB; only the pages that are
	// touched exist).  The model's lists cannot hold it: the driver answers from the sparse
	// description with the definition the theorems state (bit i lives in byte i/8, position i%8).
	{
		const total = 1<<29 + 2
		big := make([]byte, total)
		sparse := map[uint64]byte{0: 0x5a, 1: 0xc3, 1 << 28: 0x0f, 1<<29 - 1: 0x81, 1 << 29: 0xa6, 1<<29 + 1: 0x3c}
		desc := ""
		for _, p := range []uint64{0, 1, 1 << 28, 1<<29 - 1, 1 << 29, 1<<29 + 1} {
			big[p] = sparse[p]
			desc += hx(p) + ":" + hx(uint64(sparse[p])) + ","
		}
		for _, i := range []uint64{0, 3, 9, 1<<31 + 2, 1<<32 - 1, 1 << 32, 1<<32 + 1, 1<<32 + 2, 1<<32 + 7, 1<<32 + 8, 1<<32 + 13} {
			ii := i
			out.emit("bigindex", "bitbig", []string{hx(total), desc, hx(ii)}, guard(func() string {
				g := bitfields.GetBit(big, ii)
				pos, lo := ii>>3, uint64(uint32(ii))>>3
				saved, savedLo := big[pos], big[lo]
				bitfields.SetBit(big, ii, !g)
				after, afterLo := big[pos], big[lo]
				big[pos], big[lo] = saved, savedLo
				return joinKV("get="+b01(g), "byte="+hx(uint64(after)), "low="+hx(uint64(afterLo)))
			}))
		}
	}
	// covers on arguments that share memory: two windows of one buffer (same start with
	// different lengths, overlapping, adjacent), and one slice passed twice.  The answer is a
	// function of the two bit sequences only.
	for k := 0; k < n/6; k++ {
		buf := make([]byte, 1+rng.Intn(8))
		rng.Read(buf)
		if rng.Intn(3) == 0 {
			for i := range buf {
				buf[i] = buf[0]
			}
		}
		cut := func() (int, int) {
			lo := rng.Intn(len(buf) + 1)
			return lo, lo + rng.Intn(len(buf)-lo+1)
		}
		a0, a1 := cut()
		b0, b1 := cut()
		switch rng.Intn(4) {
		case 0:
			b0 = a0 // same start
			b1 = b0 + rng.Intn(len(buf)-b0+1)
		case 1:
			b0, b1 = a0, a1 // the same window twice
		}
		a, b := buf[a0:a1:a1], buf[b0:b1:b1]
		out.emit("covers-alias", "covers", []string{hexBytes(a), hexBytes(b)}, guard(func() string {
			c, err := bitfields.Covers(a, b)
			return okOrErr(err, b01(c))
		}))
	}
}
