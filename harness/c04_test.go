//go:build verif

package verifharness

import (
	"encoding/binary"
	"bytes"
	"fmt"
	"math/big"
	"strings"
	"sync"
	"testing"

	"github.com/protolambda/ztyp/tree"
	"github.com/protolambda/ztyp/view"
)

func histCase(out *caseOut, tag, cfg string, ty *Ty, v *Val, route string, ops []hop, obs string) {
	vs := "-"
	if route != "default" {
		vs = v.Sexp()
	}
	out.emit(tag, "hist", []string{cfg, ty.Sexp(), vs, route, opsSexp(ops)}, obs)
}

// small types with a bounded op alphabet, for exhaustive short histories
type smallSpec struct {
	ty    *Ty
	alpha []hop
}

func smallSpecs() []smallSpec {
	u8 := &Ty{Kind: "u", N: 1}
	u64 := &Ty{Kind: "u", N: 8}
	b := &Ty{Kind: "bool"}
	lit := func(t *Ty, v *Val) srcSpec { return srcSpec{kind: "lit", t: t, v: v} }
	n := func(x int64) *Val { return &Val{Kind: "n", U: bigInt(x)} }
	bv := func(x bool) *Val { return &Val{Kind: "b", B: x} }
	inner := &Ty{Kind: "list", Elem: u8, N: 2}
	pair := &Ty{Kind: "cont", Fields: []*Ty{u8, inner}}
	rootT := &Ty{Kind: "root"}
	rootList := &Ty{Kind: "list", Elem: rootT, N: 4}
	nz := make([]byte, 32)
	nz[0], nz[31] = 7, 9
	return []smallSpec{
		// sub-views whose backing is a shared zero node (a zero Root read out of a default)
		// appended / set into a sibling list
		{&Ty{Kind: "cont", Fields: []*Ty{rootList, {Kind: "vec", Elem: rootT, N: 2}}}, []hop{
			{kind: "get", i: 0}, {kind: "get", i: 1}, {kind: "get", h: 2, i: 0}, {kind: "get", h: 1, i: 0},
			{kind: "append", h: 1, src: lit(rootT, &Val{Kind: "x", Bytes: nz})}, {kind: "append", h: 1, src: srcSpec{kind: "h", h: 3}},
			{kind: "append", h: 2, src: srcSpec{kind: "h", h: 3}}, {kind: "copy", h: 1}, {kind: "append", h: 4, src: srcSpec{kind: "h", h: 3}},
			{kind: "set", h: 1, i: 0, src: srcSpec{kind: "h", h: 3}}, {kind: "pop", h: 1}}},
		{&Ty{Kind: "list", Elem: u64, N: 5}, []hop{
			{kind: "append", src: lit(u64, n(7))}, {kind: "append", src: lit(u64, n(0))}, {kind: "pop"},
			{kind: "set", i: 0, src: lit(u64, n(9))}, {kind: "set", i: 3, src: lit(u64, n(1))}, {kind: "set", i: 4, src: lit(u64, n(2))},
			{kind: "set", i: 5, src: lit(u64, n(3))}}},
		{&Ty{Kind: "list", Elem: u8, N: 33}, []hop{
			{kind: "append", src: lit(u8, n(255))}, {kind: "pop"}, {kind: "set", i: 0, src: lit(u8, n(1))}, {kind: "set", i: 1, src: lit(u8, n(2))}}},
		{&Ty{Kind: "bitlist", N: 3}, []hop{
			{kind: "append", src: lit(b, bv(true))}, {kind: "append", src: lit(b, bv(false))}, {kind: "pop"},
			{kind: "set", i: 0, src: lit(b, bv(true))}, {kind: "set", i: 2, src: lit(b, bv(true))}, {kind: "set", i: 1, src: lit(b, bv(false))}}},
		{&Ty{Kind: "bitvec", N: 10}, []hop{
			{kind: "set", i: 0, src: lit(b, bv(true))}, {kind: "set", i: 9, src: lit(b, bv(true))}, {kind: "set", i: 9, src: lit(b, bv(false))},
			{kind: "set", i: 10, src: lit(b, bv(true))}, {kind: "set", i: 8, src: lit(b, bv(true))}}},
		{&Ty{Kind: "list", Elem: inner, N: 3}, []hop{
			{kind: "append", src: lit(inner, &Val{Kind: "seq", Seq: []*Val{n(1)}})}, {kind: "append", src: lit(inner, &Val{Kind: "seq"})}, {kind: "pop"},
			{kind: "get", i: 0}, {kind: "get", i: 1}, {kind: "append", h: 1, src: lit(u8, n(5))}, {kind: "pop", h: 1},
			{kind: "set", i: 0, src: srcSpec{kind: "h", h: 1}}, {kind: "copy"}, {kind: "append", h: 2, src: lit(u8, n(6))}}},
		{&Ty{Kind: "vec", Elem: pair, N: 2}, []hop{
			{kind: "get", i: 0}, {kind: "get", i: 1}, {kind: "get", h: 1, i: 1}, {kind: "append", h: 2, src: lit(u8, n(3))}, {kind: "append", h: 3, src: lit(u8, n(4))},
			{kind: "set", h: 1, i: 0, src: lit(u8, n(8))}, {kind: "set", i: 1, src: srcSpec{kind: "h", h: 1}}, {kind: "set", i: 2, src: srcSpec{kind: "h", h: 1}}, {kind: "pop", h: 2}}},
		{&Ty{Kind: "union", None: true, Fields: []*Ty{u8, inner}}, []hop{
			{kind: "change", i: 0, src: srcSpec{kind: "none"}}, {kind: "change", i: 1, src: lit(u8, n(200))},
			{kind: "change", i: 2, src: lit(inner, &Val{Kind: "seq", Seq: []*Val{n(1), n(2)}})}, {kind: "change", i: 3, src: lit(u8, n(1))},
			{kind: "uvalue"}, {kind: "append", h: 1, src: lit(u8, n(9))}, {kind: "change", i: 1, src: srcSpec{kind: "none"}}}},
		{&Ty{Kind: "cont", Fields: []*Ty{u64, &Ty{Kind: "bitlist", N: 9}, &Ty{Kind: "vec", Elem: u8, N: 3}}}, []hop{
			{kind: "set", i: 0, src: lit(u64, n(77))}, {kind: "get", i: 1}, {kind: "get", i: 2}, {kind: "append", h: 1, src: lit(b, bv(true))},
			{kind: "set", h: 2, i: 2, src: lit(u8, n(4))}, {kind: "set", h: 1, i: 0, src: lit(b, bv(true))}, {kind: "set", i: 3, src: lit(u64, n(1))}, {kind: "pop", h: 1}}},
	}
}

func exhaustiveHistories(out *caseOut, cfg string, h tree.HashFn, maxLen int, extra func(ops []hop) []hop) {
	for _, sp := range smallSpecs() {
		var rec func(prefix []hop)
		rec = func(prefix []hop) {
			if len(prefix) > 0 {
				ops := append([]hop{}, prefix...)
				if extra != nil {
					ops = extra(ops)
				}
				ops = append(ops, hop{kind: "htr"}, hop{kind: "ser"}, hop{kind: "len"}, hop{kind: "blen"})
				s := &hstate{h: h, count: &hashCalls}
				s.push(sp.ty, sp.ty.Def().Default(nil))
				histCase(out, "ex", cfg, sp.ty, nil, "default", ops, runScript(s, ops))
			}
			if len(prefix) == maxLen {
				return
			}
			for _, o := range sp.alpha {
				rec(append(append([]hop{}, prefix...), o))
			}
		}
		rec(nil)
	}
}

func randomHistories(out *caseOut, tag string, cfg string, h tree.HashFn, salt int64, n int, mk func(g *gen) *histGen) {
	g := &gen{r: newRng(salt), noBool: !strings.HasSuffix(cfg, "!"), maxElem: 10}
	hg := mk(g)
	for k := 0; k < n; k++ {
		ty := g.ty(1 + g.r.Intn(3))
		if !isComposite(ty) {
			continue
		}
		v := g.val(ty)
		route := "ctor"
		if g.r.Intn(3) == 0 {
			route = "default"
		}
		length := 30 + g.r.Intn(40)
		if thorough() {
			length = 30 + g.r.Intn(170)
		}
		ops, obs := genHistory(hg, ty, v, route, length, h)
		if obs == "BUILD-ERR" {
			continue
		}
		histCase(out, tag, cfg, ty, v, route, ops, obs)
	}
}

// histories around chunk / power-of-two boundaries of list lengths: pops and appends that
// cross from one bottom node to the next, at small and at huge limits
func boundaryHistories(out *caseOut, cfg string, h tree.HashFn, salt int64, withSnaps bool) {
	g := &gen{r: newRng(salt), noBool: true, maxElem: 12}
	type spec struct {
		ty  *Ty
		per uint64
	}
	u8, u64 := &Ty{Kind: "u", N: 1}, &Ty{Kind: "u", N: 8}
	pairT := &Ty{Kind: "cont", Fields: []*Ty{u64, u8}}
	var specs []spec
	for _, lim := range []uint64{256, 257, 512, 1 << 20} {
		specs = append(specs, spec{&Ty{Kind: "bitlist", N: lim}, 256})
	}
	for _, lim := range []uint64{32, 33, 64, 1 << 20, 1 << 40} {
		specs = append(specs, spec{&Ty{Kind: "list", Elem: u8, N: lim}, 32})
	}
	for _, lim := range []uint64{4, 5, 8, 1 << 32} {
		specs = append(specs, spec{&Ty{Kind: "list", Elem: u64, N: lim}, 4})
	}
	for _, lim := range []uint64{2, 3, 4, 8, 1 << 40} {
		specs = append(specs, spec{&Ty{Kind: "list", Elem: pairT, N: lim}, 2})
	}
	for _, sp := range specs {
		for k := uint64(1); k <= 2; k++ {
			for d := -1; d <= 1; d++ {
				ln := int(sp.per*k) + d
				if uint64(ln) > sp.ty.N || ln < 0 {
					continue
				}
				var v *Val
				if sp.ty.Kind == "bitlist" {
					bits := make([]bool, ln)
					for i := range bits {
						bits[i] = g.r.Intn(3) != 0
					}
					if ln > 0 {
						bits[ln-1] = true
					}
					if ln >= 256 {
						bits[ln-256] = true
					}
					v = &Val{Kind: "bits", Bits: bits}
				} else {
					vs := make([]*Val, ln)
					for i := range vs {
						vs[i] = g.val(sp.ty.Elem)
					}
					v = &Val{Kind: "seq", Seq: vs}
				}
				et := sp.ty.Elem
				if sp.ty.Kind == "bitlist" {
					et = &Ty{Kind: "bool"}
				}
				lit := func() srcSpec { return srcSpec{kind: "lit", t: et, v: g.val(et)} }
				scripts := [][]hop{
					{{kind: "pop"}, {kind: "htr"}, {kind: "ser"}, {kind: "len"}, {kind: "append", src: lit()}, {kind: "htr"}, {kind: "ser"}},
					{{kind: "append", src: lit()}, {kind: "htr"}, {kind: "pop"}, {kind: "htr"}, {kind: "ser"}, {kind: "pop"}, {kind: "pop"}, {kind: "htr"}, {kind: "ser"}, {kind: "len"}},
					{{kind: "htr"}, {kind: "pop"}, {kind: "pop"}, {kind: "append", src: lit()}, {kind: "append", src: lit()}, {kind: "append", src: lit()}, {kind: "htr"}, {kind: "ser"}, {kind: "blen"}},
				}
				for _, sc := range scripts {
					ops := append([]hop{}, sc...)
					if withSnaps {
						var o2 []hop
						for _, o := range ops {
							o2 = append(o2, hop{kind: "snap", h: 0}, o)
						}
						ops = o2
					}
					root, err := buildView(sp.ty, v)
					if err != nil {
						continue
					}
					s := &hstate{h: h, count: &hashCalls}
					s.push(sp.ty, root)
					histCase(out, "bound", cfg, sp.ty, v, "ctor", ops, runScript(s, ops))
				}
			}
		}
	}
}

// histories in which the inserted value's backing is a node that already sits in the tree
// (shared zero nodes read out of defaults, elements re-inserted where they are): no-op
// rebinds must still never touch an existing node
func sharingHistories(out *caseOut, cfg string, h tree.HashFn, salt int64) {
	g := &gen{r: newRng(salt), maxElem: 6}
	rootT, boolT := &Ty{Kind: "root"}, &Ty{Kind: "bool"}
	nz := make([]byte, 32)
	nz[0], nz[31] = 7, 9
	litRoot := srcSpec{kind: "lit", t: rootT, v: &Val{Kind: "x", Bytes: nz}}
	type sc struct {
		ty  *Ty
		ops []hop
	}
	var cases []sc
	for _, lim := range []uint64{2, 4, 5, 8, 1 << 40} {
		ct := &Ty{Kind: "cont", Fields: []*Ty{{Kind: "list", Elem: rootT, N: lim}, {Kind: "vec", Elem: rootT, N: 2}}}
		for pre := 0; pre <= 3; pre++ {
			ops := []hop{{kind: "get", h: 0, i: 0}, {kind: "get", h: 0, i: 1}, {kind: "get", h: 2, i: 0}}
			for k := 0; k < pre; k++ {
				ops = append(ops, hop{kind: "append", h: 1, src: litRoot})
			}
			ops = append(ops, hop{kind: "snap", h: 0}, hop{kind: "snap", h: 1}, hop{kind: "copy", h: 1}, hop{kind: "htr", h: 0},
				hop{kind: "reinitx"}, hop{kind: "memo"}, hop{kind: "reinit"}, hop{kind: "memo"},
				hop{kind: "append", h: 1, src: srcSpec{kind: "h", h: 3}}, hop{kind: "len", h: 4}, hop{kind: "htr", h: 4}, hop{kind: "htr", h: 0}, hop{kind: "ser", h: 0},
				hop{kind: "append", h: 4, src: srcSpec{kind: "h", h: 3}}, hop{kind: "len", h: 1}, hop{kind: "htr", h: 0}, hop{kind: "memo"},
				hop{kind: "pop", h: 1}, hop{kind: "append", h: 1, src: srcSpec{kind: "h", h: 3}}, hop{kind: "htr", h: 0}, hop{kind: "ser", h: 1})
			cases = append(cases, sc{ct, ops})
		}
		// List[bool] is a complex list whose false elements are the shared zero node
		bl := &Ty{Kind: "list", Elem: boolT, N: lim}
		for pre := 0; pre <= 3; pre++ {
			var ops []hop
			for k := 0; k < pre; k++ {
				ops = append(ops, hop{kind: "append", h: 0, src: srcSpec{kind: "lit", t: boolT, v: &Val{Kind: "b", B: true}}})
			}
			ops = append(ops, hop{kind: "snap", h: 0}, hop{kind: "copy", h: 0}, hop{kind: "htr", h: 0},
				hop{kind: "append", h: 0, src: srcSpec{kind: "lit", t: boolT, v: &Val{Kind: "b", B: false}}}, hop{kind: "len", h: 1}, hop{kind: "htr", h: 1}, hop{kind: "htr", h: 0},
				hop{kind: "append", h: 1, src: srcSpec{kind: "lit", t: boolT, v: &Val{Kind: "b", B: false}}}, hop{kind: "len", h: 0}, hop{kind: "ser", h: 0}, hop{kind: "memo"},
				hop{kind: "pop", h: 0}, hop{kind: "append", h: 0, src: srcSpec{kind: "lit", t: boolT, v: &Val{Kind: "b", B: false}}}, hop{kind: "htr", h: 0}, hop{kind: "ser", h: 1})
			cases = append(cases, sc{bl, ops})
		}
	}
	// re-inserting an element where it already is, then mutating next to it
	for k := 0; k < 12; k++ {
		e := g.ty(1)
		for !isComposite(e) {
			e = g.ty(1)
		}
		lt := &Ty{Kind: "list", Elem: e, N: uint64(4 + g.r.Intn(5))}
		ops := []hop{{kind: "append", h: 0, src: srcSpec{kind: "lit", t: e, v: g.val(e)}}, {kind: "append", h: 0, src: srcSpec{kind: "lit", t: e, v: g.val(e)}},
			{kind: "get", h: 0, i: 1}, {kind: "snap", h: 0}, {kind: "copy", h: 0}, {kind: "htr", h: 0}, {kind: "set", h: 0, i: 1, src: srcSpec{kind: "h", h: 1}},
			{kind: "htr", h: 0}, {kind: "append", h: 0, src: srcSpec{kind: "h", h: 1}}, {kind: "htr", h: 2}, {kind: "ser", h: 2}, {kind: "htr", h: 0}, {kind: "memo"}, {kind: "pop", h: 0}, {kind: "htr", h: 0}}
		cases = append(cases, sc{lt, ops})
	}
	// Root views handed out by a parent (also of default, i.e. shared zero, elements) and written
	// in place: the parent, its copies, earlier backings and the zero nodes must not change; a
	// Root view set into another parent and written afterwards must not change that parent
	for _, lim := range []uint64{3, 1 << 40} {
		ct := &Ty{Kind: "cont", Fields: []*Ty{{Kind: "list", Elem: rootT, N: lim}, {Kind: "vec", Elem: rootT, N: 2}, rootT}}
		for variant := 0; variant < 4; variant++ {
			ops := []hop{{kind: "get", h: 0, i: 0}, {kind: "get", h: 0, i: 1}, {kind: "append", h: 1, src: litRoot},
				{kind: "htr", h: 0}, {kind: "snap", h: 0}, {kind: "snap", h: 1}, {kind: "snap", h: 2}, {kind: "copy", h: 0}}
			// handle 3 = the copy; 4.. = root views
			ops = append(ops, hop{kind: "get", h: 2, i: uint64(variant % 2)}, hop{kind: "get", h: 1, i: 0}, hop{kind: "get", h: 0, i: 2})
			ops = append(ops, hop{kind: "snap", h: 4}, hop{kind: "rootwrite", h: 4, i: uint64(10 + variant)}, hop{kind: "htr", h: 0}, hop{kind: "memo"}, hop{kind: "ser", h: 0}, hop{kind: "htr", h: 3})
			ops = append(ops, hop{kind: "rootwrite", h: 5, i: uint64(21 + variant)}, hop{kind: "htr", h: 0}, hop{kind: "ser", h: 3})
			ops = append(ops, hop{kind: "copy", h: 6}, hop{kind: "rootwrite", h: 7, i: uint64(30 + variant)}, hop{kind: "htr", h: 6}, hop{kind: "htr", h: 0})
			// a written Root view inserted into a parent, then written again
			ops = append(ops, hop{kind: "append", h: 1, src: srcSpec{kind: "h", h: 4}}, hop{kind: "htr", h: 0}, hop{kind: "snap", h: 0},
				hop{kind: "rootwrite", h: 4, i: uint64(40 + variant)}, hop{kind: "htr", h: 0}, hop{kind: "memo"}, hop{kind: "ser", h: 0}, hop{kind: "htr", h: 4})
			cases = append(cases, sc{ct, ops})
		}
	}
	// the same for small byte vector views (Get hands out a copy; Copy must be detached too)
	{
		b4 := &Ty{Kind: "bytes", N: 4}
		bt := &Ty{Kind: "cont", Fields: []*Ty{{Kind: "vec", Elem: b4, N: 2}, b4, {Kind: "list", Elem: &Ty{Kind: "bytes", N: 20}, N: 3}}}
		litB := srcSpec{kind: "lit", t: &Ty{Kind: "bytes", N: 20}, v: &Val{Kind: "x", Bytes: bytes.Repeat([]byte{0xcd}, 20)}}
		ops := []hop{{kind: "get", h: 0, i: 0}, {kind: "get", h: 0, i: 2}, {kind: "append", h: 2, src: litB}, {kind: "htr", h: 0}, {kind: "snap", h: 0},
			{kind: "get", h: 1, i: 1}, {kind: "get", h: 0, i: 1}, {kind: "get", h: 2, i: 0},
			{kind: "rootwrite", h: 3, i: 5}, {kind: "htr", h: 0}, {kind: "memo"}, {kind: "ser", h: 0},
			{kind: "copy", h: 4}, {kind: "rootwrite", h: 6, i: 6}, {kind: "htr", h: 4}, {kind: "htr", h: 6}, {kind: "htr", h: 0},
			{kind: "rootwrite", h: 5, i: 7}, {kind: "htr", h: 0}, {kind: "ser", h: 0}, {kind: "set", h: 0, i: 1, src: srcSpec{kind: "h", h: 4}}, {kind: "rootwrite", h: 4, i: 8}, {kind: "htr", h: 0}, {kind: "ser", h: 0}}
		cases = append(cases, sc{bt, ops})
	}
	for _, c := range cases {
		s := &hstate{h: h, count: &hashCalls}
		s.push(c.ty, c.ty.Def().Default(nil))
		histCase(out, "share", cfg, c.ty, nil, "default", c.ops, runScript(s, c.ops))
	}
	// a Root decoded on its own (all zero, and not), then written in place: nothing shared may change
	for k, bs := range [][]byte{make([]byte, 32), bytes.Repeat([]byte{3}, 32)} {
		ty := rootT
		v := &Val{Kind: "x", Bytes: bs}
		vw, err := deserialize(ty, bs)
		if err != nil {
			continue
		}
		s := &hstate{h: h, count: &hashCalls}
		s.push(ty, vw)
		ops := []hop{{kind: "htr", h: 0}, {kind: "copy", h: 0}, {kind: "rootwrite", h: 1, i: uint64(50 + k)}, {kind: "htr", h: 0}, {kind: "rootwrite", h: 0, i: uint64(60 + k)}, {kind: "htr", h: 0}, {kind: "htr", h: 1}}
		histCase(out, "share", cfg, ty, v, "ctor", ops, runScript(s, ops))
	}
	// ... and every default list / bool of the process must still be what it was
	{
		ty := &Ty{Kind: "cont", Fields: []*Ty{{Kind: "list", Elem: rootT, N: 4}, boolT, {Kind: "bitlist", N: 9}}}
		s := &hstate{h: h, count: &hashCalls}
		s.push(ty, ty.Def().Default(nil))
		ops := []hop{{kind: "htr", h: 0}, {kind: "ser", h: 0}, {kind: "get", h: 0, i: 0}, {kind: "append", h: 1, src: litRoot}, {kind: "htr", h: 0}}
		histCase(out, "share", cfg, ty, nil, "default", ops, runScript(s, ops))
	}
}

// copySubviewHistories: a sub-view of every composite kind is obtained from its parent, copied,
// and the copy is mutated: the parent (and the value machine's parent) must not notice; then the
// sub-view itself is mutated: the parent follows, the copy does not.
func copySubviewHistories(out *caseOut, cfg string, h tree.HashFn, salt int64, n int, withSnaps bool) {
	g := &gen{r: newRng(salt), noBool: true, maxElem: 5}
	hg := &histGen{g: g, r: g.r}
	u8 := &Ty{Kind: "u", N: 1}
	for k := 0; k < n; k++ {
		e := g.ty(1 + g.r.Intn(2))
		for !isComposite(e) {
			e = g.ty(1 + g.r.Intn(2))
		}
		if k%4 == 0 {
			// unions in particular (their Copy is written separately from the other views)
			e = &Ty{Kind: "union", None: k%8 == 0, Fields: []*Ty{u8, {Kind: "list", Elem: u8, N: 3}, {Kind: "u", N: 2}}}
		}
		var ty *Ty
		switch k % 3 {
		case 0:
			ty = &Ty{Kind: "cont", Fields: []*Ty{e, u8}}
		case 1:
			ty = &Ty{Kind: "list", Elem: e, N: 4}
		default:
			ty = &Ty{Kind: "vec", Elem: e, N: 2}
		}
		v := g.val(ty)
		if ty.Kind == "list" && len(v.Seq) == 0 {
			v.Seq = append(v.Seq, g.val(e))
		}
		root, err := buildView(ty, v)
		if err != nil {
			continue
		}
		s := &hstate{h: h, count: &hashCalls}
		s.push(ty, root)
		var ops []hop
		var sb strings.Builder
		do := func(o hop) string {
			ops = append(ops, o)
			r := s.exec(o)
			fmt.Fprintf(&sb, "s%d=%s ", len(ops)-1, r)
			if !s.checkSnaps() {
				fmt.Fprintf(&sb, "snapbad%d=1 ", len(ops)-1)
			}
			return r
		}
		if !strings.HasPrefix(do(hop{kind: "get", h: 0, i: 0}), "OK_h") {
			continue
		}
		if withSnaps {
			do(hop{kind: "snap", h: 0})
			do(hop{kind: "snap", h: 1})
		}
		if !strings.HasPrefix(do(hop{kind: "copy", h: 1}), "OK_h") {
			continue
		}
		do(hop{kind: "htr", h: 0})
		for m := 0; m < 2; m++ {
			do(retarget(hg, s, hop{h: 2}))
		}
		do(hop{kind: "htr", h: 0})
		do(hop{kind: "ser", h: 0})
		do(hop{kind: "htr", h: 1})
		for m := 0; m < 2; m++ {
			do(retarget(hg, s, hop{h: 1}))
		}
		do(hop{kind: "htr", h: 0})
		do(hop{kind: "ser", h: 0})
		do(hop{kind: "htr", h: 2})
		do(hop{kind: "ser", h: 2})
		do(hop{kind: "htr", h: 1})
		obs := sb.String()
		if s.checkSnaps() {
			obs += "snaps=ok"
		} else {
			obs += "snaps=bad"
		}
		histCase(out, "subcopy", cfg, ty, v, "ctor", ops, obs)
	}
}

func TestC04(t *testing.T) {
	out := openOut(t, "C04")
	defer out.close()
	n, ml := 120, 3
	if thorough() {
		n, ml = 3000, 4
	}
	for ci, cfg := range []string{"sha", "alt", "zwin"} {
		withCfg(cfg, func(h tree.HashFn) {
			if ci == 0 {
				exhaustiveHistories(out, cfg, h, ml, nil)
			}
			boundaryHistories(out, cfg, h, int64(440+ci), false)
			if ci == 0 {
				copySubviewHistories(out, cfg, h, 460, n/2, false)
			}
			randomHistories(out, "rand", cfg, h, int64(400+ci), n, func(g *gen) *histGen { return &histGen{g: g, r: g.r} })
			if ci == 0 {
				longLists(out, cfg, h)
			}
			// unions that carry one type under several selectors (re-tagging a value: the union's
			// own content, taken out with Value(), put back under another selector)
			twinUnionHistories(out, cfg, h, int64(490+ci), n/4)
			if ci == 0 {
				// sub-views handed out by Iter() while the parent is being changed
				randomHistories(out, "iter", cfg, h, 470, n/2, func(g *gen) *histGen { return &histGen{g: g, r: g.r, iters: true} })
				iterScripts(out, cfg, h)
			}
		})
	}
}

// longLists: lists of 2^20 .. 2^32+5 elements (structure-shared backings built with
// SubtreeFillToLength, a handful of nodes each).  A plain value of that length cannot be held by
// the model, so the driver answers with what the value machine's append/pop rules say for ANY
// list (below the limit an append succeeds and adds one element; pop undoes it), and the harness
// observes length, the element read back, and the root before / after.
func longLists(out *caseOut, cfg string, h tree.HashFn) {
	u64 := &Ty{Kind: "u", N: 8}
	elems := []*Ty{{Kind: "cont", Fields: []*Ty{u64, u64}}, {Kind: "root"}, {Kind: "vec", Elem: u64, N: 8}, {Kind: "list", Elem: &Ty{Kind: "u", N: 1}, N: 5}}
	g := &gen{r: newRng(495), noBool: true, maxElem: 4}
	for _, et := range elems {
		for _, limit := range []uint64{1 << 40, 1<<32 + 7} {
			ty := &Ty{Kind: "list", Elem: et, N: limit}
			for _, L := range []uint64{1 << 20, 1<<30 - 3, 1<<30 - 1, 1 << 30, 1<<32 + 5, limit - 1, limit} {
				if L > limit {
					continue
				}
				ev := g.val(et)
				obs := guard(func() string {
					fill, err := buildView(et, g.val(et))
					if err != nil {
						return "res=BUILD-ERR"
					}
					depth := tree.CoverDepth(limit)
					contents, err := tree.SubtreeFillToLength(fill.Backing(), depth, L)
					if err != nil {
						return "res=BUILD-ERR"
					}
					var lenLeaf tree.Root
					binary.LittleEndian.PutUint64(lenLeaf[:8], L)
					vw, err := ty.Def().ViewFromBacking(tree.NewPairNode(contents, &lenLeaf), nil)
					if err != nil {
						return "res=BUILD-ERR"
					}
					lv := vw.(*view.ComplexListView)
					r0 := lv.HashTreeRoot(h)
					el, err := buildView(et, ev)
					if err != nil {
						return "res=BUILD-ERR"
					}
					if err := lv.Append(el); err != nil {
						ln, _ := lv.Length()
						return joinKV("res=ERR", "len="+hx(ln), "same="+b01(lv.HashTreeRoot(h) == r0))
					}
					ln, _ := lv.Length()
					last := "0"
					if got, err := lv.Get(L); err == nil && got.HashTreeRoot(h) == el.HashTreeRoot(h) {
						last = "1"
					}
					changed := b01(lv.HashTreeRoot(h) != r0)
					back := "0"
					if err := lv.Pop(); err == nil && lv.HashTreeRoot(h) == r0 {
						if l2, _ := lv.Length(); l2 == L {
							back = "1"
						}
					}
					return joinKV("res=OK", "len="+hx(ln), "last="+last, "changed="+changed, "back="+back)
				})
				if obs == "PANIC" {
					obs = "res=PANIC"
				}
				out.emit("long", "c04long", []string{cfg, ty.Sexp(), hx(L)}, obs)
			}
		}
	}
}

func twinUnionHistories(out *caseOut, cfg string, h tree.HashFn, salt int64, n int) {
	g := &gen{r: newRng(salt), noBool: true, maxElem: 6}
	hg := &histGen{g: g, r: g.r}
	for k := 0; k < n; k++ {
		e := g.ty(1 + g.r.Intn(2))
		for !isComposite(e) {
			e = g.ty(1 + g.r.Intn(2))
		}
		other := g.ty(1)
		var u *Ty
		switch g.r.Intn(3) {
		case 0:
			u = &Ty{Kind: "union", Fields: []*Ty{e, e}}
		case 1:
			u = &Ty{Kind: "union", None: true, Fields: []*Ty{e, other, e}}
		default:
			u = &Ty{Kind: "union", Fields: []*Ty{other, e, e, e}}
		}
		if k%6 == 5 {
			// a union with 130..200 options (selectors above 127)
			u = &Ty{Kind: "union", None: k%12 == 5}
			for i, n := 0, 130+g.r.Intn(71); i < n; i++ {
				if i%2 == 0 {
					u.Fields = append(u.Fields, e)
				} else {
					u.Fields = append(u.Fields, other)
				}
			}
		}
		ty := u
		switch g.r.Intn(3) {
		case 0:
			ty = &Ty{Kind: "cont", Fields: []*Ty{{Kind: "u", N: 1}, u}}
		case 1:
			ty = &Ty{Kind: "list", Elem: u, N: 4}
		}
		v := g.val(ty)
		ops, obs := genHistory(hg, ty, v, "ctor", 40+g.r.Intn(30), h)
		if obs == "BUILD-ERR" {
			continue
		}
		histCase(out, "twin", cfg, ty, v, "ctor", ops, obs)
	}
}

// iterScripts: an iterator is opened, slots it has not reached yet are overwritten, then it hands
// them out and they are mutated: each yielded sub-view is the element as it is at that moment.
func iterScripts(out *caseOut, cfg string, h tree.HashFn) {
	g := &gen{r: newRng(480), noBool: true, maxElem: 4}
	hg := &histGen{g: g, r: g.r}
	for k := 0; k < 30; k++ {
		e := g.ty(1)
		for !isComposite(e) || e.Kind == "union" {
			e = g.ty(1)
		}
		var ty *Ty
		if k%2 == 0 {
			ty = &Ty{Kind: "list", Elem: e, N: 6}
		} else {
			ty = &Ty{Kind: "vec", Elem: e, N: 3}
		}
		v := g.val(ty)
		for ty.Kind == "list" && len(v.Seq) < 3 {
			v.Seq = append(v.Seq, g.val(e))
		}
		root, err := buildView(ty, v)
		if err != nil {
			continue
		}
		s := &hstate{h: h, count: &hashCalls}
		s.push(ty, root)
		var ops []hop
		var sb strings.Builder
		do := func(o hop) string {
			ops = append(ops, o)
			r := s.exec(o)
			fmt.Fprintf(&sb, "s%d=%s ", len(ops)-1, r)
			return r
		}
		do(hop{kind: "iter", h: 0})
		do(hop{kind: "next", h: 0})
		do(hop{kind: "set", h: 0, i: 1, src: hg.litFor(e)})
		do(hop{kind: "set", h: 0, i: 2, src: hg.litFor(e)})
		if strings.HasPrefix(do(hop{kind: "next", h: 0}), "OK_h") {
			do(retarget(hg, s, hop{h: len(s.views) - 1}))
		}
		do(hop{kind: "htr", h: 0})
		if ty.Kind == "list" {
			do(hop{kind: "pop", h: 0})
		}
		if strings.HasPrefix(do(hop{kind: "next", h: 0}), "OK_h") {
			do(retarget(hg, s, hop{h: len(s.views) - 1}))
		}
		do(hop{kind: "next", h: 0})
		do(hop{kind: "next", h: 0})
		do(hop{kind: "htr", h: 0})
		do(hop{kind: "ser", h: 0})
		histCase(out, "iterscript", cfg, ty, v, "ctor", ops, sb.String()+"snaps=ok")
	}
}

// subChunkPrims: the exported read-modify-write primitives on a 32-byte chunk must return a new
// chunk and leave the one they were given untouched (C05: "sub-chunk updates copy the chunk first").
func subChunkPrims(out *caseOut) {
	r := newRng(55)
	basicOf := func(w uint64, n uint64) view.BasicView {
		switch w {
		case 1:
			return view.Uint8View(n)
		case 2:
			return view.Uint16View(n)
		case 4:
			return view.Uint32View(n)
		}
		return view.Uint64View(n)
	}
	for k := 0; k < 400; k++ {
		var c tree.Root
		r.Read(c[:])
		if k%7 == 0 {
			c = tree.Root{}
		}
		before := c
		same := func() string {
			if c == before {
				return "same"
			}
			c = before
			return "CHANGED"
		}
		idx := uint8(r.Intn(40))
		if k%5 == 0 {
			idx = uint8(r.Intn(256))
		}
		for _, w := range []uint64{1, 2, 4, 8} {
			n := r.Uint64() & (1<<(8*w) - 1)
			if w == 8 {
				n = r.Uint64()
			}
			ww, i := w, idx
			out.emit("prim", "bfb", []string{hx(w), hexBytes(before[:]), hx(uint64(i)), hx(n)}, guard(func() string {
				nr := basicOf(ww, n).BackingFromBase(&c, i)
				if nr == nil {
					return "new=NIL base=" + same()
				}
				return "new=" + hexBytes(nr[:]) + " base=" + same()
			}))
			out.emit("prim", "bvb", []string{hx(w), hexBytes(before[:]), hx(uint64(i))}, guard(func() string {
				v, err := view.UintMeta(ww).BasicViewFromBacking(&c, i)
				if err != nil {
					return "ERR"
				}
				s, _ := readBasic(nil, v)
				return "OK " + strings.TrimSuffix(strings.TrimPrefix(s, "(n "), ")")
			}))
		}
		{
			// uint256: one per chunk
			var le [32]byte
			r.Read(le[:])
			var u view.Uint256View
			u.SetBytes32(le)
			be := make([]byte, 32)
			for j := 0; j < 32; j++ {
				be[j] = le[31-j]
			}
			i := idx % 3
			out.emit("prim", "bfb", []string{"20", hexBytes(before[:]), hx(uint64(i)), new(big.Int).SetBytes(be).Text(16)}, guard(func() string {
				nr := u.BackingFromBase(&c, i)
				if nr == nil {
					return "new=NIL base=" + same()
				}
				return "new=" + hexBytes(nr[:]) + " base=" + same()
			}))
		}
		b := r.Intn(2) == 1
		bi := uint8(r.Intn(256))
		out.emit("prim", "bitb", []string{hexBytes(before[:]), hx(uint64(bi)), b01(b)}, guard(func() string {
			nr := view.BoolView(b).BackingFromBitfieldBase(&c, bi)
			if nr == nil {
				return "new=NIL base=" + same()
			}
			return "new=" + hexBytes(nr[:]) + " base=" + same()
		}))
		out.emit("prim", "bitg", []string{hexBytes(before[:]), hx(uint64(bi))}, guard(func() string {
			v, err := view.BoolType.BoolViewFromBitfieldBacking(&c, bi)
			if err != nil {
				return "ERR"
			}
			return b01(bool(v))
		}))
		out.emit("prim", "boolb", []string{hexBytes(before[:]), hx(uint64(idx)), b01(b)}, guard(func() string {
			nr := view.BoolView(b).BackingFromBase(&c, idx)
			if nr == nil {
				return "new=NIL base=" + same()
			}
			return "new=" + hexBytes(nr[:]) + " base=" + same()
		}))
		// chunks of 0/1 bytes (and the random one) for the byte-per-bool reader
		bc := before
		if k%2 == 0 {
			for j := range bc {
				bc[j] &= 1
			}
		}
		out.emit("prim", "boolg", []string{hexBytes(bc[:]), hx(uint64(idx))}, guard(func() string {
			v := view.BoolType.SubViewFromBacking(&bc, idx)
			if v == nil {
				return "NIL"
			}
			return "OK " + b01(bool(v.(view.BoolView)))
		}))
	}
}

func TestC05(t *testing.T) {
	out := openOut(t, "C05")
	defer out.close()
	subChunkPrims(out)
	n, ml := 120, 2
	if thorough() {
		n, ml = 3000, 3
	}
	withCfg("sha", func(h tree.HashFn) {
		// snapshot before every step of the exhaustive histories
		exhaustiveHistories(out, "sha", h, ml, func(ops []hop) []hop {
			var o2 []hop
			for _, o := range ops {
				o2 = append(o2, hop{kind: "snap", h: 0}, o)
			}
			return append(o2, hop{kind: "copy", h: 0}, hop{kind: "snap", h: 0})
		})
		boundaryHistories(out, "sha", h, 540, true)
		copySubviewHistories(out, "sha", h, 560, n/2, true)
		sharingHistories(out, "sha!", h, 550)
		randomHistories(out, "rand", "sha!", h, 500, n, func(g *gen) *histGen { return &histGen{g: g, r: g.r, snaps: true} })
	})
}

func fillCases(f func(tag string, bottom *tshape, op string, depth uint64, cnt byte)) {
	bottoms := []*tshape{{kind: "L", data: []byte{7, 7}}, {kind: "L", data: nil}}
	for d := 0; d <= 5; d++ {
		bottoms = append(bottoms, &tshape{kind: "Z", d: d})
	}
	bottoms = append(bottoms, &tshape{kind: "P", l: &tshape{kind: "Z", d: 0}, r: &tshape{kind: "L", data: []byte{1}}},
		&tshape{kind: "P", l: &tshape{kind: "Z", d: 2}, r: &tshape{kind: "Z", d: 2}})
	for _, b := range bottoms {
		for depth := uint64(0); depth <= 5; depth++ {
			f("fill", b, "filld", depth, 0)
			for _, cnt := range []byte{0, 1, 2, 3, 5, 8, 31, 32, 33} {
				if uint64(cnt) <= (uint64(1)<<depth)+1 {
					f("fill", b, "filll", depth, cnt)
					f("fill", b, "fillc", depth, cnt)
				}
			}
		}
	}
}

func TestC06(t *testing.T) {
	out := openOut(t, "C06")
	defer out.close()
	n, ml := 100, 3
	if thorough() {
		n, ml = 2500, 4
	}
	withCfg("sha", func(h tree.HashFn) {
		// hash-tree-root requests at every subset of positions of short histories
		for _, sp := range smallSpecs() {
			var rec func(prefix []hop)
			rec = func(prefix []hop) {
				if len(prefix) == ml {
					for mask := 0; mask < 1<<uint(ml); mask++ {
						var ops []hop
						for i, o := range prefix {
							if mask&(1<<uint(i)) != 0 {
								ops = append(ops, hop{kind: "htr", h: 0})
							}
							ops = append(ops, o)
						}
						ops = append(ops, hop{kind: "memo"}, hop{kind: "htr", h: 0}, hop{kind: "memo"})
						s := &hstate{h: h, count: &hashCalls}
						s.push(sp.ty, sp.ty.Def().Default(nil))
						histCase(out, "mask", "sha", sp.ty, nil, "default", ops, runScript(s, ops))
					}
					return
				}
				for i, o := range sp.alpha {
					if !thorough() && (i+len(prefix))%2 == 1 {
						continue
					}
					rec(append(append([]hop{}, prefix...), o))
				}
			}
			rec(nil)
		}
		boundaryHistories(out, "sha", h, 640, false)
		sharingHistories(out, "sha!", h, 650)
		randomHistories(out, "rand", "sha!", h, 600, n, func(g *gen) *histGen { return &histGen{g: g, r: g.r, memos: true, snaps: true} })
	})
	// tree level: a Setter link applied twice with a root request in between (the nodes the link
	// builds when it is made must not be reused by its applications)
	withCfg("sha", func(h tree.HashFn) {
		leaf := &tshape{kind: "L", data: []byte{0xaa, 1, 2, 3}}
		for d := 1; d <= 5; d++ {
			zs := &tshape{kind: "Z", d: d}
			mixed := &tshape{kind: "P", l: &tshape{kind: "Z", d: d - 1}, r: &tshape{kind: "L", data: []byte{9}}}
			for g := uint64(2); g < uint64(1)<<uint(d+1); g++ {
				out.emit("link2", "c11", []string{zs.Sexp(), "set2", hx(g), "1", leaf.Sexp()}, c11Obs(zs, "set2", g, true, leaf, h))
				if d > 1 {
					out.emit("link2", "c11", []string{mixed.Sexp(), "set2", hx(g), "1", leaf.Sexp()}, c11Obs(mixed, "set2", g, true, leaf, h))
				}
			}
		}
	})
	// tree level: the subtree constructors over every kind of bottom node (a data leaf, the
	// shared zero nodes of each height, a pair, a hashed pair): no root may be remembered in the
	// result that is not the root of the node's children
	withCfg("sha", func(h tree.HashFn) {
		fillCases(func(tag string, bottom *tshape, op string, depth uint64, cnt byte) {
			arg := &tshape{kind: "L", data: []byte{cnt}}
			obs := c11Obs(bottom, op, depth, false, arg, h)
			if obs == "PANIC" {
				obs = "res=PANIC"
			}
			out.emit(tag, "c11", []string{bottom.Sexp(), op, hx(depth), "0", arg.Sexp()}, obs)
		})
	})
	// the same with a hash function whose roots are mostly zero bytes
	withCfg("zwin", func(h tree.HashFn) {
		randomHistories(out, "randz", "zwin!", h, 660, n/2, func(g *gen) *histGen { return &histGen{g: g, r: g.r, memos: true, snaps: true} })
	})
}

// C07: hash counts.  first request (not compared: constructors share nodes), second
// request = 0, then single mutations with pre-hashed inserted values.
func TestC07(t *testing.T) {
	out := openOut(t, "C07")
	defer out.close()
	n := 250
	if thorough() {
		n = 6000
	}
	for ci, cfg := range []string{"sha", "alt", "zwin"} {
		withCfg(cfg, func(h tree.HashFn) {
			g := &gen{r: newRng(int64(700 + ci)), noBool: true, maxElem: 12}
			for k := 0; k < n; k++ {
				ty := g.ty(1 + g.r.Intn(3))
				if !isComposite(ty) {
					continue
				}
				v := g.val(ty)
				s := &hstate{h: h, count: &hashCalls}
				root, err := buildView(ty, v)
				if err != nil {
					continue
				}
				s.push(ty, root)
				var ops []hop
				var sb strings.Builder
				do := func(o hop) string {
					ops = append(ops, o)
					r := s.exec(o)
					fmt.Fprintf(&sb, "s%d=%s ", len(ops)-1, r)
					return r
				}
				do(hop{kind: "htr", h: 0})
				do(hop{kind: "count", h: 0})
				if k%4 == 0 {
					do(hop{kind: "reinit"})
					do(hop{kind: "count", h: 0})
				}
				if k%3 == 1 {
					// the hashed tree goes through a node-by-node rebuild that keeps its memos
					do(hop{kind: "rebuild", h: 0})
					do(hop{kind: "count", h: 0})
				}
				if k%3 == 2 {
					// ... the same with inner nodes of a caller-defined type in the rebuilt tree
					do(hop{kind: "rebuildf", h: 0})
					do(hop{kind: "count", h: 0})
				}
				hg := &histGen{g: g, r: g.r}
				for m := 0; m < 6; m++ {
					// pick a target handle: the root or a (nested) sub-view
					target := 0
					for d := 0; d < 2; d++ {
						tt := s.tys[target]
						if (tt.Kind == "vec" || tt.Kind == "list" || tt.Kind == "cont") && !isPackedOrBits(tt) && g.r.Intn(2) == 0 {
							ln := currentLen(s.views[target], tt)
							if ln == 0 {
								break
							}
							r := do(hop{kind: "get", h: target, i: uint64(g.r.Int63n(int64(ln)))})
							if strings.HasPrefix(r, "OK_h") {
								target = len(s.views) - 1
							}
						}
					}
					o := hg.next(s)
					for tries := 0; tries < 20 && !(o.kind == "set" || o.kind == "append" || o.kind == "pop" || o.kind == "change"); tries++ {
						o = hg.next(s)
					}
					if !(o.kind == "set" || o.kind == "append" || o.kind == "pop" || o.kind == "change") {
						continue
					}
					o.h = target
					o = retarget(hg, s, o)
					// pre-hash a composite inserted value through its own handle
					if o.src.kind == "lit" && isComposite(o.src.t) {
						r := do(hop{kind: "new", t: o.src.t, v: o.src.v})
						if strings.HasPrefix(r, "OK_h") {
							k := len(s.views) - 1
							do(hop{kind: "htr", h: k})
							if m%2 == 1 {
								do(hop{kind: "rebuild", h: k})
							}
							o.src = srcSpec{kind: "h", h: k}
						}
					} else if o.src.kind == "h" {
						do(hop{kind: "htr", h: o.src.h})
					}
					do(o)
					do(hop{kind: "count", h: 0})
					do(hop{kind: "count", h: 0})
				}
				histCase(out, "count", cfg, ty, v, "ctor", ops, sb.String()+"snaps=ok")
			}
			// defaults hashed while still untouched, then ONE write: a default is built from shared
			// sub-structures, and its first root request must leave all of them memoised
			{
				u64, u8 := &Ty{Kind: "u", N: 8}, &Ty{Kind: "u", N: 1}
				rootT := &Ty{Kind: "root"}
				for _, ty := range []*Ty{
					{Kind: "vec", Elem: u64, N: 64}, {Kind: "vec", Elem: u64, N: 1024}, {Kind: "bitvec", N: 4096},
					{Kind: "vec", Elem: rootT, N: 128}, {Kind: "vec", Elem: u8, N: 4096},
					{Kind: "cont", Fields: []*Ty{{Kind: "vec", Elem: u64, N: 512}, u8, {Kind: "vec", Elem: rootT, N: 16}}},
					{Kind: "vec", Elem: &Ty{Kind: "cont", Fields: []*Ty{u64, {Kind: "vec", Elem: u64, N: 64}}}, N: 8},
					{Kind: "list", Elem: &Ty{Kind: "vec", Elem: u64, N: 64}, N: 1 << 20},
				} {
					for rep := 0; rep < 3; rep++ {
						s := &hstate{h: h, count: &hashCalls}
						s.push(ty, ty.Def().Default(nil))
						var ops []hop
						var sb strings.Builder
						do := func(o hop) string {
							ops = append(ops, o)
							r := s.exec(o)
							fmt.Fprintf(&sb, "s%d=%s ", len(ops)-1, r)
							return r
						}
						hg := &histGen{g: g, r: g.r}
						if ty.Kind == "list" {
							do(hop{kind: "append", h: 0, src: srcSpec{kind: "dflt", t: ty.Elem}})
						}
						do(hop{kind: "htr", h: 0})
						do(hop{kind: "count", h: 0})
						target := 0
						if rep > 0 && !isPackedOrBits(ty) {
							ln := currentLen(s.views[0], ty)
							if r := do(hop{kind: "get", h: 0, i: uint64(g.r.Int63n(int64(ln)))}); strings.HasPrefix(r, "OK_h") {
								target = len(s.views) - 1
								if !isComposite(s.tys[target]) {
									target = 0
								}
							}
						}
						o := retarget(hg, s, hop{h: target})
						if o.src.kind == "lit" && isComposite(o.src.t) {
							if r := do(hop{kind: "new", t: o.src.t, v: o.src.v}); strings.HasPrefix(r, "OK_h") {
								k := len(s.views) - 1
								do(hop{kind: "htr", h: k})
								o.src = srcSpec{kind: "h", h: k}
							}
						}
						do(o)
						do(hop{kind: "count", h: 0})
						do(hop{kind: "count", h: 0})
						histCase(out, "dflt", cfg, ty, nil, "default", ops, sb.String()+"snaps=ok")
					}
				}
			}
			// appends that expand zero padding at large limits
			for _, lim := range []uint64{1 << 20, 1 << 32, 1 << 40} {
				for _, e := range []*Ty{{Kind: "u", N: 8}, {Kind: "u", N: 1}, {Kind: "root"}, {Kind: "cont", Fields: []*Ty{{Kind: "u", N: 8}, {Kind: "u", N: 8}}}} {
					ty := &Ty{Kind: "list", Elem: e, N: lim}
					s := &hstate{h: h, count: &hashCalls}
					s.push(ty, ty.Def().Default(nil))
					var ops []hop
					var sb strings.Builder
					do := func(o hop) {
						ops = append(ops, o)
						fmt.Fprintf(&sb, "s%d=%s ", len(ops)-1, s.exec(o))
					}
					do(hop{kind: "htr", h: 0})
					for m := 0; m < 70; m++ {
						do(hop{kind: "append", h: 0, src: srcSpec{kind: "lit", t: e, v: g.val(e)}})
						if isComposite(e) {
							continue
						}
						do(hop{kind: "count", h: 0})
						do(hop{kind: "count", h: 0})
					}
					histCase(out, "expand", cfg, ty, nil, "default", ops, sb.String()+"snaps=ok")
				}
			}
		})
	}
}

// retarget regenerates the operands of a mutation for the handle it was moved to
func retarget(hg *histGen, s *hstate, o hop) hop {
	t := s.tys[o.h]
	save := s.views
	saveT := s.tys
	// generate against a state that only contains the target, then restore the handle id
	s.views, s.tys = []view.View{save[o.h]}, []*Ty{t}
	var o2 hop
	for tries := 0; tries < 30; tries++ {
		o2 = hg.next(s)
		if o2.kind == "set" || o2.kind == "append" || o2.kind == "pop" || o2.kind == "change" {
			break
		}
	}
	s.views, s.tys = save, saveT
	if !(o2.kind == "set" || o2.kind == "append" || o2.kind == "pop" || o2.kind == "change") {
		return hop{kind: "htr", h: o.h}
	}
	o2.h = o.h
	if o2.src.kind == "h" {
		o2.src = hg.litFor(saveT[o.h]) // never reached with a single handle of another type
	}
	return o2
}

// C14: goroutines each working on their own Copy of a common, fully hashed ancestor.
func TestC14(t *testing.T) {
	out := openOut(t, "C14")
	defer out.close()
	rounds := 12
	if thorough() {
		rounds = 150
	}
	g := &gen{r: newRng(1400), noBool: true, maxElem: 10}
	// the first rounds fork a view of every top-level kind (what a view object itself carries is
	// inherited by its copies), the others random nested types
	tops := []*Ty{
		{Kind: "list", Elem: &Ty{Kind: "u", N: 8}, N: 64}, {Kind: "list", Elem: &Ty{Kind: "u", N: 1}, N: 200},
		{Kind: "bitlist", N: 300}, {Kind: "vec", Elem: &Ty{Kind: "u", N: 4}, N: 20}, {Kind: "bitvec", N: 70},
		{Kind: "list", Elem: &Ty{Kind: "root"}, N: 16}, {Kind: "union", None: true, Fields: []*Ty{{Kind: "list", Elem: &Ty{Kind: "u", N: 2}, N: 9}}},
		// degenerate shapes (one field, one element, one option): depth 0 subtrees
		{Kind: "cont", Fields: []*Ty{{Kind: "list", Elem: &Ty{Kind: "u", N: 1}, N: 5}}},
		{Kind: "list", Elem: &Ty{Kind: "cont", Fields: []*Ty{{Kind: "u", N: 8}}}, N: 6},
		{Kind: "vec", Elem: &Ty{Kind: "cont", Fields: []*Ty{{Kind: "vec", Elem: &Ty{Kind: "u", N: 2}, N: 1}}}, N: 1},
		{Kind: "union", Fields: []*Ty{{Kind: "cont", Fields: []*Ty{{Kind: "bitlist", N: 1}}}}},
	}
	for round := 0; round < rounds+len(tops); round++ {
		var ty *Ty
		if round < len(tops) {
			ty = tops[round]
		} else {
			ty = g.ty(2 + g.r.Intn(2))
		}
		if !isComposite(ty) {
			continue
		}
		v := g.val(ty)
		anc, err := buildView(ty, v)
		if err != nil {
			continue
		}
		anc.HashTreeRoot(tree.Hash) // the shared structure is hashed beforehand
		// ... and has been used in every other read-only way (state that a view or its sub-views
		// keep from such calls is inherited by the forks)
		_, _ = serializeView(anc)
		_ = iterObs(ty, anc, tree.Hash)
		prewarm(ty, anc)
		if round%2 == 1 {
			// ... and as the source of a summarising link: a leaf a few levels down is replaced
			// by its own summary (the same leaf), which rebuilds the pair nodes on the path to
			// it; the ancestor is re-pointed at the result and hashed again before it is forked
			gi, depth := uint64(1), 0
			var n tree.Node = anc.Backing()
			for {
				p, ok := n.(*tree.PairNode)
				if !ok {
					break
				}
				if g.r.Intn(2) == 0 {
					n, gi = p.LeftChild, gi*2
				} else {
					n, gi = p.RightChild, gi*2+1
				}
				depth++
			}
			if _, isLeaf := n.(*tree.Root); isLeaf && depth >= 2 && depth < 60 {
				if link, err := anc.Backing().SummarizeInto(tree.Gindex64(gi), tree.Hash); err == nil {
					if n2, err := link(); err == nil && n2 != nil {
						_ = anc.SetBacking(n2)
						anc.HashTreeRoot(tree.Hash)
					}
				}
			}
		}
		if round%3 == 2 {
			// the zero-hash table is installed again (same function, same depth) between hashing
			// the ancestor and forking it: live trees stay as they are, hashed stays hashed
			tree.InitZeroHashes(tree.Hash, 64)
		}
		workers := 2 + g.r.Intn(15)
		type result struct {
			ops []hop
			obs string
		}
		res := make([]result, workers)
		seeds := make([]int64, workers)
		for w := range seeds {
			seeds[w] = g.r.Int63()
		}
		var wg sync.WaitGroup
		for w := 0; w < workers; w++ {
			wg.Add(1)
			go func(w int) {
				defer wg.Done()
				var hf tree.HashFn
				if w%2 == 0 {
					hf = tree.Hash
				} else {
					hf = tree.GetHashFn()
				}
				lg := &gen{r: newRng(seeds[w]), noBool: true, maxElem: 10}
				hg := &histGen{g: lg, r: lg.r, snaps: true, useDefaults: true}
				cnt := 0
				s := &hstate{h: hf, count: &cnt}
				cp, _ := anc.Copy()
				s.push(ty, cp)
				var ops []hop
				var sb strings.Builder
				auxOK := true
				for k := 0; k < 40; k++ {
					o := hg.next(s)
					if o.kind == "memo" {
						o = hop{kind: "htr", h: 0}
					}
					ops = append(ops, o)
					fmt.Fprintf(&sb, "s%d=%s ", k, s.exec(o))
					// concurrent use of the package-level hash and of type defaults
					_ = tree.Hash(tree.Root{1}, tree.Root{2})
					_ = ty.Def().DefaultNode()
					// ... and of the shared type definition as a decoder: the fork's current
					// value goes through bytes and must come back with the same root
					if k%8 == 7 {
						if data, err := serializeView(s.views[0]); err == nil {
							back, err := deserialize(ty, data)
							if err != nil || back.HashTreeRoot(hf) != s.views[0].HashTreeRoot(hf) {
								auxOK = false
							}
						}
					}
				}
				for _, kind := range []string{"htr", "ser"} {
					o := hop{kind: kind, h: 0}
					ops = append(ops, o)
					fmt.Fprintf(&sb, "s%d=%s ", len(ops)-1, s.exec(o))
				}
				if s.checkSnaps() && auxOK {
					sb.WriteString("snaps=ok")
				} else {
					sb.WriteString("snaps=bad")
				}
				res[w] = result{ops, sb.String()}
			}(w)
		}
		wg.Wait()
		for w := 0; w < workers; w++ {
			histCase(out, fmt.Sprintf("w%d", workers), "sha", ty, v, "ctor", res[w].ops, res[w].obs)
		}
	}
}

// prewarm serializes and iterates every composite sub-view reachable by Get (two levels deep).
func prewarm(t *Ty, v view.View) {
	var rec func(t *Ty, v view.View, d int)
	rec = func(t *Ty, v view.View, d int) {
		_, _ = serializeView(v)
		if d == 0 {
			return
		}
		n := currentLen(v, t)
		for i := uint64(0); i < n && i < 6; i++ {
			var el view.View
			var err error
			switch x := v.(type) {
			case *view.ComplexVectorView:
				el, err = x.Get(i)
			case *view.ComplexListView:
				el, err = x.Get(i)
			case *view.ContainerView:
				el, err = x.Get(i)
			default:
				return
			}
			if et := elemTyOf(t, i); err == nil && et != nil && isComposite(et) {
				rec(et, el, d-1)
			}
		}
	}
	rec(t, v, 2)
}
