//go:build verif

package verifharness

import (
	"strconv"
	"strings"
	"testing"

	"github.com/protolambda/ztyp/tree"
)

func gindexObs(v uint64) string {
	g := tree.Gindex64(v)
	var path strings.Builder
	it, _ := g.BitIter()
	for i := 0; i < 70; i++ {
		r, ok := it.Next()
		if !ok {
			break
		}
		path.WriteString(b01(r))
	}
	p := path.String()
	if p == "" {
		p = "-"
	}
	lab, labLen := g.LeftAlignedBigEndian()
	return joinKV(
		"bi="+hx(uint64(tree.BitIndex(v))), "bl="+hx(uint64(tree.BitLength(v))), "cd="+hx(uint64(tree.CoverDepth(v))),
		"anchor="+hx(uint64(g.Anchor().(tree.Gindex64))), "subtree="+hx(uint64(g.Subtree().(tree.Gindex64))),
		"left="+hx(uint64(g.Left().(tree.Gindex64))), "right="+hx(uint64(g.Right().(tree.Gindex64))),
		"parent="+hx(uint64(g.Parent().(tree.Gindex64))),
		"isleft="+b01(g.IsLeft()), "isroot="+b01(g.IsRoot()), "isclose="+b01(g.IsClose()),
		"depth="+hx(uint64(g.Depth())), "path="+p,
		"le="+hexOrNil(g.LittleEndian()), "be="+hexOrNil(g.BigEndian()),
		"lab="+hexOrNil(lab)+"/"+hx(uint64(labLen)))
}

func bitIterObs(v uint64, extra int) string {
	g := tree.Gindex64(v)
	it, d := g.BitIter()
	var sb strings.Builder
	for i := 0; i < int(d)+extra; i++ {
		r, ok := it.Next()
		if ok {
			sb.WriteString(b01(r))
		} else {
			sb.WriteString("x")
		}
	}
	return "depth=" + hx(uint64(d)) + " bits=" + sb.String()
}

func TestC16(t *testing.T) {
	out := openOut(t, "C16")
	defer out.close()
	rng := newRng(16)
	seen := map[uint64]bool{}
	do := func(tag string, v uint64) {
		if seen[v] {
			return
		}
		seen[v] = true
		out.emit(tag, "gindex", []string{hx(v)}, guard(func() string { return gindexObs(v) }))
	}
	// the byte encodings belong to the caller: extend a few of them in place, then every value is
	// encoded (again) below
	for v := uint64(1); v < 300; v++ {
		g := tree.Gindex64(v)
		_ = append(g.LittleEndian(), 0xbb, 0xcc, 0xdd)
		_ = append(g.BigEndian(), 0xbb, 0xcc, 0xdd)
		la, _ := g.LeftAlignedBigEndian()
		_ = append(la, 0xbb, 0xcc, 0xdd)
	}
	small := uint64(1) << 12
	if thorough() {
		small = 1 << 17
	}
	for v := uint64(0); v < small; v++ {
		do("small", v)
	}
	for k := uint(0); k < 64; k++ {
		p := uint64(1) << k
		do("pow", p)
		do("pow", p-1)
		do("pow", p+1)
	}
	do("pow", ^uint64(0))
	do("pow", ^uint64(0)-1)
	perClass := 8
	if thorough() {
		perClass = 64
	}
	for k := uint(1); k <= 64; k++ {
		for j := 0; j < perClass; j++ {
			v := rng.Uint64()
			if k < 64 {
				v = (v & ((uint64(1) << k) - 1)) | (uint64(1) << (k - 1))
			} else {
				v |= uint64(1) << 63
			}
			do("rand", v)
		}
	}
	// bit iterator incl. calls past the end
	for _, v := range []uint64{0, 1, 2, 3, 4, 5, 6, 7, 12, 1 << 20, 1<<20 + 12345, 1 << 63, ^uint64(0), 0xdeadbeef, 0x8000000000000001} {
		out.emit("iter", "bititer", []string{hx(v), "3"}, guard(func() string { return bitIterObs(v, 3) }))
	}
	for j := 0; j < 40; j++ {
		v := rng.Uint64() >> uint(rng.Intn(64))
		out.emit("iter", "bititer", []string{hx(v), "3"}, guard(func() string { return bitIterObs(v, 3) }))
	}
	// the end is reported for good: hundreds of calls past it (counters that wrap around)
	for _, v := range []uint64{1, 2, 5, 1 << 20, 1<<40 + 7, 1 << 63, ^uint64(0)} {
		for _, extra := range []int{70, 300, 600} {
			e := extra
			out.emit("iter", "bititer", []string{hx(v), strconv.Itoa(e)}, guard(func() string { return bitIterObs(v, e) }))
		}
	}
	// several bit iterators alive at once, advanced in a random interleaving, new ones opened
	// while finished ones are still being polled: each must yield what it yields alone
	rounds := 30
	if thorough() {
		rounds = 600
	}
	for j := 0; j < rounds; j++ {
		k := 2 + rng.Intn(4)
		type live struct {
			v     uint64
			it    tree.GindexBitIter
			want  int
			extra int
			sb    strings.Builder
			depth uint32
			open  bool
		}
		its := make([]*live, k)
		for i := range its {
			its[i] = &live{v: rng.Uint64()>>uint(rng.Intn(64)) | 1, extra: 1 + rng.Intn(4)}
			if rng.Intn(4) == 0 {
				its[i].v = uint64(2 + rng.Intn(14))
			}
		}
		res := guard(func() string {
			for {
				pending := []*live{}
				for _, l := range its {
					if !l.open || l.want > 0 {
						pending = append(pending, l)
					}
				}
				if len(pending) == 0 {
					return ""
				}
				l := pending[rng.Intn(len(pending))]
				// mostly finish what is open before opening the next one: a finished iterator and
				// a fresh one alive together is the interesting situation
				if !l.open && rng.Intn(3) != 0 {
					for _, o := range pending {
						if o.open {
							l = o
						}
					}
				}
				if !l.open {
					l.it, l.depth = tree.Gindex64(l.v).BitIter()
					l.open = true
					l.want = int(l.depth) + l.extra
					continue
				}
				r, ok := l.it.Next()
				if ok {
					l.sb.WriteString(b01(r))
				} else {
					l.sb.WriteString("x")
				}
				l.want--
			}
		})
		for _, l := range its {
			obs := "depth=" + hx(uint64(l.depth)) + " bits=" + l.sb.String()
			if res == "PANIC" {
				obs = "PANIC"
			}
			out.emit("iter-mix", "bititer", []string{hx(l.v), strconv.Itoa(l.extra)}, obs)
		}
	}
	// ToGindex64 on an (index, depth) grid, depth over the whole uint8 range
	idxs := []uint64{0, 1, 2, 3, 4, 7, 8, 255, 256, 1 << 31, 1<<32 - 1, 1 << 32, 1<<62 - 1, 1 << 62, 1<<63 - 1, 1 << 63, ^uint64(0)}
	for j := 0; j < 12; j++ {
		idxs = append(idxs, rng.Uint64()>>uint(rng.Intn(64)))
	}
	for d := 0; d < 256; d++ {
		for _, i := range idxs {
			dd := uint8(d)
			// around the boundary 2^d as well
			for _, ix := range []uint64{i} {
				out.emit("togindex", "togindex", []string{hx(ix), hx(uint64(dd))}, guard(func() string {
					g, err := tree.ToGindex64(ix, dd)
					return okOrErr(err, hx(uint64(g)))
				}))
			}
		}
		if d < 64 {
			b := uint64(1) << uint(d)
			for _, ix := range []uint64{b - 1, b, b + 1} {
				dd := uint8(d)
				out.emit("togindex", "togindex", []string{hx(ix), hx(uint64(dd))}, guard(func() string {
					g, err := tree.ToGindex64(ix, dd)
					return okOrErr(err, hx(uint64(g)))
				}))
			}
		}
	}
	if out.n == 0 {
		t.Fatal("no cases")
	}
}
