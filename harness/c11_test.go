//go:build verif

package verifharness

import (
	"bytes"
	"math/big"
	"fmt"
	"strconv"
	"strings"
	"testing"

	"github.com/protolambda/ztyp/tree"
)

// tree shapes as s-expressions: (L hex) data leaf, (Z d) the shared zero node of height d,
// (P l r) pair
type tshape struct {
	kind string
	d    int
	data []byte
	l, r *tshape
}

func (s *tshape) Sexp() string {
	switch s.kind {
	case "L":
		return "(L " + hexBytes(s.data) + ")"
	case "Z":
		return "(Z " + strconv.Itoa(s.d) + ")"
	}
	return "(P " + s.l.Sexp() + " " + s.r.Sexp() + ")"
}

// foreignPair is an inner node implemented outside the tree package (here simply by embedding a
// pair): everything that walks a tree has to go through the Node interface.
type foreignPair struct{ *tree.PairNode }

// foreignInner: build() makes the inner pairs below the root foreign ones
var foreignInner bool

func (s *tshape) build() tree.Node { return s.buildAt(0) }

func (s *tshape) buildAt(level int) tree.Node {
	if s.kind == "P" {
		p := tree.NewPairNode(s.l.buildAt(level+1), s.r.buildAt(level+1))
		if foreignInner && level > 0 {
			return foreignPair{p}
		}
		return p
	}
	return s.buildLeaf()
}

func (s *tshape) buildLeaf() tree.Node {
	switch s.kind {
	case "L":
		var r tree.Root
		copy(r[:], s.data)
		return &r
	case "Z":
		return &tree.ZeroHashes[s.d]
	}
	panic("buildLeaf: not a leaf")
}

type dumper struct {
	ids  map[tree.Node]int
	next int
}

func newDumper() *dumper { return &dumper{ids: map[tree.Node]int{}} }

func zeroIndex(n tree.Node) int {
	r, ok := n.(*tree.Root)
	if !ok {
		return -1
	}
	for d := range tree.ZeroHashes {
		if r == &tree.ZeroHashes[d] {
			return d
		}
	}
	return -1
}

func (d *dumper) dump(n tree.Node) string {
	if f, ok := n.(foreignPair); ok {
		n = f.PairNode
	}
	if z := zeroIndex(n); z >= 0 {
		return "Z" + strconv.Itoa(z)
	}
	if id, ok := d.ids[n]; ok {
		return "@" + strconv.Itoa(id)
	}
	id := d.next
	d.next++
	d.ids[n] = id
	switch x := n.(type) {
	case *tree.Root:
		return fmt.Sprintf("L%d:%s", id, hexBytes(x[:]))
	case *tree.PairNode:
		l := d.dump(x.LeftChild)
		r := d.dump(x.RightChild)
		return fmt.Sprintf("P%d(%s,%s)", id, l, r)
	}
	return "?"
}

func plainDump(n tree.Node) string {
	if f, ok := n.(foreignPair); ok {
		n = f.PairNode
	}
	switch x := n.(type) {
	case *tree.Root:
		return "L:" + hexBytes(x[:])
	case *tree.PairNode:
		return "P(" + plainDump(x.LeftChild) + "," + plainDump(x.RightChild) + ")"
	}
	return "?"
}

// c11Gindex, when set, is the generalized index the operation is given (a caller-defined Gindex
// implementation, not limited to 64 bits); otherwise Gindex64(g)
var c11Gindex tree.Gindex

func gix(g uint64) tree.Gindex {
	if c11Gindex != nil {
		return c11Gindex
	}
	return tree.Gindex64(g)
}

func c11Obs(shape *tshape, op string, g uint64, expand bool, vshape *tshape, h tree.HashFn) string {
	return guard(func() string {
		n := shape.build()
		d := newDumper()
		d0 := d.dump(n)
		switch op {
		case "get":
			b, err := n.Getter(gix(g))
			if err != nil {
				return "res=ERR"
			}
			return "res=OK orig=" + d0 + " node=" + d.dump(b)
		case "filld", "filll", "fillc":
			// the subtree constructors with this tree as the repeated bottom node: g is the
			// depth; filll: vshape is a data leaf whose first byte is the length; fillc: the
			// bottom repeated that many times as explicit contents.  Every root remembered in
			// the result - before and after it is hashed - must be the root of the node's
			// children (memo), and the root is the model's.
			var n2 tree.Node
			var err error
			switch op {
			case "filld":
				n2 = tree.SubtreeFillToDepth(n, uint8(g))
			case "filll":
				n2, err = tree.SubtreeFillToLength(n, uint8(g), uint64(vshape.data[0]))
			default:
				ns := make([]tree.Node, vshape.data[0])
				for i := range ns {
					ns[i] = n
				}
				n2, err = tree.SubtreeFillToContents(ns, uint8(g))
			}
			if err != nil {
				return "res=ERR"
			}
			memo := func() string {
				ok := true
				seen := map[*tree.PairNode]bool{}
				var walk func(x tree.Node)
				walk = func(x tree.Node) {
					p, isPair := x.(*tree.PairNode)
					if !isPair || seen[p] {
						return
					}
					seen[p] = true
					if p.Value != (tree.Root{}) && p.Value != h(rawRoot(p.LeftChild, h), rawRoot(p.RightChild, h)) {
						ok = false
					}
					walk(p.LeftChild)
					walk(p.RightChild)
				}
				walk(n2)
				return b01(ok)
			}
			m1 := memo()
			root := n2.MerkleRoot(h)
			return "res=OK memo=" + m1 + " root=" + rootHex(root) + " memo2=" + memo() + " raw=" + rootHex(rawRoot(n2, h))
		case "set":
			v := vshape.build()
			dv := d.dump(v)
			origRoot := rawRoot(n, h)
			link, err := n.Setter(gix(g), expand)
			if err != nil {
				return "res=ERR origroot=" + rootHex(rawRoot(n, h))
			}
			n2, err := link(v)
			if err != nil {
				return "res=ERR origroot=" + rootHex(rawRoot(n, h))
			}
			_ = origRoot
			return "res=OK orig=" + d0 + " val=" + dv + " new=" + d.dump(n2) + " root=" + rootHex(n2.MerkleRoot(h)) + " origroot=" + rootHex(rawRoot(n, h))
		case "set2":
			// one link applied twice (a root request in between): the first result must keep
			// its value, the second must be the write of the second value into the ORIGINAL tree
			v := vshape.build()
			link, err := n.Setter(gix(g), expand)
			if err != nil {
				return "res=ERR"
			}
			n1, err := link(v)
			if err != nil {
				return "res=ERR"
			}
			r1 := n1.MerkleRoot(h)
			var second tree.Root
			for i := range second {
				second[i] = 0x5a
			}
			n2, err := link(&second)
			if err != nil {
				return "res=ERR2"
			}
			return "res=OK t1=" + plainDump(n1) + " r1=" + rootHex(r1) + " t2=" + plainDump(n2) + " r2=" + rootHex(n2.MerkleRoot(h)) +
				" raw1=" + rootHex(rawRoot(n1, h)) + " raw2=" + rootHex(rawRoot(n2, h)) + " origroot=" + rootHex(rawRoot(n, h))
		case "summ":
			link, err := n.SummarizeInto(gix(g), h)
			if err != nil {
				return "res=ERR"
			}
			n2, err := link()
			if err != nil {
				return "res=ERR"
			}
			return "res=OK root=" + rootHex(rawRoot(n2, h)) + " shape=" + plainDump(n2)
		}
		return "res=ERR"
	})
}

// all shapes of depth <= d over leaf kinds: data, zero summary of the height that makes
// the tree a depth-[full] tree, zero summary of another height
func shapes(d int, full int, level int, data *int) []*tshape {
	mk := func() []*tshape {
		*data++
		b := make([]byte, 32)
		b[0] = byte(*data)
		b[1] = byte(*data >> 8)
		b[31] = 0xaa
		h := full - level
		if h < 0 {
			h = 0
		}
		return []*tshape{{kind: "L", data: b}, {kind: "Z", d: h}, {kind: "Z", d: h + 1}}
	}
	out := mk()
	if d == 0 {
		return out
	}
	subs := shapes(d-1, full, level+1, data)
	for _, l := range subs {
		for _, r := range subs {
			out = append(out, &tshape{kind: "P", l: l, r: r})
		}
	}
	return out
}

// pathGindex is a generalized index of any depth, as a caller of the library may define one (the
// Gindex interface is exported for it): the path bits after the root bit, first step first.
type pathGindex []bool

func (g pathGindex) Subtree() tree.Gindex {
	if len(g) == 0 {
		return g
	}
	return append(pathGindex{}, g[1:]...)
}
func (g pathGindex) Anchor() tree.Gindex { return make(pathGindex, len(g)) }
func (g pathGindex) Left() tree.Gindex   { return append(append(pathGindex{}, g...), false) }
func (g pathGindex) Right() tree.Gindex  { return append(append(pathGindex{}, g...), true) }
func (g pathGindex) Parent() tree.Gindex {
	if len(g) == 0 {
		return g
	}
	return append(pathGindex{}, g[:len(g)-1]...)
}
func (g pathGindex) IsLeft() bool  { return len(g) > 0 && !g[0] }
func (g pathGindex) IsRoot() bool  { return len(g) == 0 }
func (g pathGindex) IsClose() bool { return len(g) == 1 }
func (g pathGindex) Depth() uint32 { return uint32(len(g)) }
func (g pathGindex) BitIter() (tree.GindexBitIter, uint32) {
	return &pathGindexIter{rest: g}, uint32(len(g))
}
func (g pathGindex) allBits() []bool { return append([]bool{true}, g...) }
func (g pathGindex) LeftAlignedBigEndian() ([]byte, uint32) {
	bits := g.allBits()
	out := make([]byte, (len(bits)+7)/8)
	for i, b := range bits {
		if b {
			out[i>>3] |= 0x80 >> (uint(i) & 7)
		}
	}
	return out, uint32(len(bits))
}
func (g pathGindex) BigEndian() []byte {
	bits := g.allBits()
	out := make([]byte, (len(bits)+7)/8)
	pad := len(out)*8 - len(bits)
	for i, b := range bits {
		if b {
			j := i + pad
			out[j>>3] |= 0x80 >> (uint(j) & 7)
		}
	}
	return out
}
func (g pathGindex) LittleEndian() []byte {
	out := g.BigEndian()
	for i, j := 0, len(out)-1; i < j; i, j = i+1, j-1 {
		out[i], out[j] = out[j], out[i]
	}
	return out
}

// the index as hexadecimal text (what the model reads)
func (g pathGindex) hex() string {
	x := new(big.Int).SetBytes(g.BigEndian())
	return x.Text(16)
}

type pathGindexIter struct{ rest pathGindex }

func (it *pathGindexIter) Next() (bool, bool) {
	if len(it.rest) == 0 {
		return false, false
	}
	b := it.rest[0]
	it.rest = it.rest[1:]
	return b, true
}

func pathOf(g uint64) pathGindex {
	var p pathGindex
	for i := tree.BitIndex(g); i > 0; i-- {
		p = append(p, g&(uint64(1)<<(i-1)) != 0)
	}
	return p
}

// pathGindexAgrees: on 64-bit values the caller-defined index must behave like Gindex64 (a
// mistake here would be the harness's, not the library's)
func pathGindexAgrees(v uint64) bool {
	a, b := tree.Gindex64(v), pathOf(v)
	same := func(x, y tree.Gindex) bool { return bytes.Equal(x.BigEndian(), y.BigEndian()) && x.Depth() == y.Depth() }
	la, na := a.LeftAlignedBigEndian()
	lb, nb := b.LeftAlignedBigEndian()
	ok := a.IsRoot() == b.IsRoot() && a.Depth() == b.Depth() && bytes.Equal(a.LittleEndian(), b.LittleEndian()) &&
		bytes.Equal(la, lb) && na == nb
	if v < 1<<63 { // (the children of a 64-bit index do not fit Gindex64)
		ok = ok && same(a.Left(), b.Left()) && same(a.Right(), b.Right())
	}
	if v > 1 {
		ok = ok && a.IsLeft() == b.IsLeft() && a.IsClose() == b.IsClose() && same(a.Parent(), b.Parent()) &&
			same(a.Subtree(), b.Subtree()) && same(a.Anchor(), b.Anchor())
	}
	ia, da := a.BitIter()
	ib, db := b.BitIter()
	ok = ok && da == db
	for i := uint32(0); i <= da+1; i++ {
		ra, oa := ia.Next()
		rb, ob := ib.Next()
		ok = ok && oa == ob && (!oa || ra == rb)
	}
	return ok
}

func TestC11(t *testing.T) {
	out := openOut(t, "C11")
	defer out.close()
	// Gindex64 and the caller-defined index behave alike on 64-bit values (the model's answer is
	// a constant 1: both implement the same integer definition)
	for _, v := range []uint64{1, 2, 3, 4, 5, 6, 7, 12, 255, 256, 1 << 20, 1<<40 + 99, 1 << 62, 1<<62 + 9, 1<<63 - 1, 1 << 63, 1<<63 + 12345, 3 << 62, ^uint64(0) - 1, ^uint64(0)} {
		vv := v
		out.emit("gsame", "gsame", []string{hx(vv)}, guard(func() string { return "same=" + b01(pathGindexAgrees(vv)) }))
	}
	// generalized indices that are not Gindex64 values: the same operations, the index handed
	// over as a caller-defined Gindex; shallow ones and ones far deeper than 64 levels (a
	// spine of pairs along a random path, small subtrees hanging off it)
	withCfg("sha", func(h tree.HashFn) {
		rng := newRng(1111)
		rounds := 40
		if thorough() {
			rounds = 600
		}
		vs := []*tshape{{kind: "L", data: []byte{0xee, 1}}, {kind: "Z", d: 0}, {kind: "P", l: &tshape{kind: "L", data: []byte{0xdd}}, r: &tshape{kind: "Z", d: 1}}}
		for k := 0; k < rounds; k++ {
			depth := []int{3, 9, 30, 62, 63, 64, 65, 66, 70, 100, 130}[rng.Intn(11)]
			path := make(pathGindex, depth)
			for i := range path {
				path[i] = rng.Intn(2) == 1
			}
			side := func() *tshape {
				switch rng.Intn(3) {
				case 0:
					return &tshape{kind: "Z", d: rng.Intn(3)}
				case 1:
					b := make([]byte, 4)
					rng.Read(b)
					return &tshape{kind: "L", data: b}
				}
				return &tshape{kind: "P", l: &tshape{kind: "L", data: []byte{byte(rng.Intn(256))}}, r: &tshape{kind: "Z", d: 0}}
			}
			sh := side()
			for i := depth - 1; i >= 0; i-- {
				if path[i] {
					sh = &tshape{kind: "P", l: side(), r: sh}
				} else {
					sh = &tshape{kind: "P", l: sh, r: side()}
				}
			}
			for j := 0; j < 5; j++ {
				// the spine's end, a position a little above or below it, or next to it
				g := append(pathGindex{}, path...)
				switch rng.Intn(5) {
				case 0:
					g = g[:len(g)-rng.Intn(3)]
				case 1:
					g = append(g, rng.Intn(2) == 1)
				case 2:
					g = append(g, rng.Intn(2) == 1, rng.Intn(2) == 1)
				case 3:
					i := rng.Intn(len(g))
					g[i] = !g[i]
					g = g[:i+1]
				}
				v := vs[rng.Intn(len(vs))]
				op := []string{"get", "set", "set", "summ", "set2"}[rng.Intn(5)]
				e := rng.Intn(2) == 0
				vsx := "-"
				if op != "get" && op != "summ" {
					vsx = v.Sexp()
				}
				c11Gindex = g
				if len(g) <= 63 && rng.Intn(2) == 0 {
					// the same index as a Gindex64 (up to the full 64 bits)
					gv := uint64(1)
					for _, b := range g {
						gv <<= 1
						if b {
							gv |= 1
						}
					}
					c11Gindex = tree.Gindex64(gv)
				}
				obs := c11Obs(sh, op, 0, e, v, h)
				c11Gindex = nil
				out.emit("deep", "c11", []string{sh.Sexp(), op, g.hex(), b01(e), vsx}, obs)
			}
		}
	})
	withCfg("sha", func(h tree.HashFn) {
		depth, gdepth := 2, 4
		if thorough() {
			depth, gdepth = 3, 5
		}
		cnt := 0
		all := shapes(depth, depth, 0, &cnt)
		step := 1
		if thorough() {
			step = 7 // depth 3 has 21612 shapes: every 7th shape x all indices x all ops
		}
		vs := []*tshape{{kind: "L", data: []byte{0xee, 1}}, {kind: "Z", d: 0}, {kind: "P", l: &tshape{kind: "L", data: []byte{0xdd}}, r: &tshape{kind: "Z", d: 1}}}
		for si := 0; si < len(all); si += step {
			sh := all[si]
			for g := uint64(1); g < uint64(1)<<uint(gdepth+1); g++ {
				out.emit("ex", "c11", []string{sh.Sexp(), "get", hx(g), "0", "-"}, c11Obs(sh, "get", g, false, nil, h))
				v := vs[int(g)%len(vs)]
				for _, e := range []bool{false, true} {
					out.emit("ex", "c11", []string{sh.Sexp(), "set", hx(g), b01(e), v.Sexp()}, c11Obs(sh, "set", g, e, v, h))
					if e || g%3 == 0 {
						out.emit("ex2", "c11", []string{sh.Sexp(), "set2", hx(g), b01(e), v.Sexp()}, c11Obs(sh, "set2", g, e, v, h))
					}
				}
				out.emit("ex", "c11", []string{sh.Sexp(), "summ", hx(g), "0", "-"}, c11Obs(sh, "summ", g, false, nil, h))
				if si%3 == 0 && g >= 4 {
					// the same tree with its inner pairs implemented by a foreign Node type (reads,
					// plain structural observations: rebinding below them yields library pairs)
					foreignInner = true
					out.emit("foreign", "c11", []string{sh.Sexp(), "get", hx(g), "0", "-"}, c11ObsPlain(sh, "get", g, false, nil, h))
					out.emit("foreign", "c11", []string{sh.Sexp(), "set2", hx(g), "1", v.Sexp()}, c11Obs(sh, "set2", g, true, v, h))
					out.emit("foreign", "c11", []string{sh.Sexp(), "summ", hx(g), "0", "-"}, c11Obs(sh, "summ", g, false, nil, h))
					foreignInner = false
				}
			}
		}
		// random trees to depth 12, indices up to 63 bits
		rng := newRng(11)
		var randShape func(d int, lvl int) *tshape
		randShape = func(d int, lvl int) *tshape {
			if d == 0 || rng.Intn(5) == 0 {
				if rng.Intn(3) == 0 {
					return &tshape{kind: "Z", d: rng.Intn(d + 2)}
				}
				b := make([]byte, 32)
				rng.Read(b)
				return &tshape{kind: "L", data: b}
			}
			return &tshape{kind: "P", l: randShape(d-1, lvl+1), r: randShape(d-1, lvl+1)}
		}
		n := 300
		if thorough() {
			n = 6000
		}
		for k := 0; k < n; k++ {
			sh := randShape(1+rng.Intn(7), 0)
			if thorough() && k%10 == 0 {
				sh = randShape(12, 0)
			}
			for j := 0; j < 6; j++ {
				bits := 1 + rng.Intn(14)
				if rng.Intn(6) == 0 {
					bits = 1 + rng.Intn(63)
				}
				g := (rng.Uint64() & (uint64(1)<<uint(bits) - 1)) | uint64(1)<<uint(bits)
				v := vs[rng.Intn(len(vs))]
				op := []string{"get", "set", "set", "summ"}[rng.Intn(4)]
				e := rng.Intn(2) == 0
				vsx := "-"
				if op == "set" {
					vsx = v.Sexp()
				}
				out.emit("rand", "c11", []string{sh.Sexp(), op, hx(g), b01(e), vsx}, c11Obs(sh, op, g, e, v, h))
			}
		}
		// writing with expansion into a zero summary vs the materialised zero subtree
		for d := 1; d <= 6; d++ {
			for i := uint64(0); i < uint64(1)<<uint(d); i++ {
				g := uint64(1)<<uint(d) | i
				zs := &tshape{kind: "Z", d: d}
				out.emit("zexp", "c11", []string{zs.Sexp(), "set", hx(g), "1", vs[0].Sexp()}, c11Obs(zs, "set", g, true, vs[0], h))
				out.emit("zexp2", "c11", []string{zs.Sexp(), "set2", hx(g), "1", vs[0].Sexp()}, c11Obs(zs, "set2", g, true, vs[0], h))
				var mat func(k int) *tshape
				mat = func(k int) *tshape {
					if k == 0 {
						return &tshape{kind: "Z", d: 0}
					}
					return &tshape{kind: "P", l: mat(k - 1), r: mat(k - 1)}
				}
				m := mat(d)
				out.emit("zexp", "c11", []string{m.Sexp(), "set", hx(g), "0", vs[0].Sexp()}, c11Obs(m, "set", g, false, vs[0], h))
			}
		}
	})
	_ = strings.Join
}

// c11ObsPlain: like c11Obs "get", but only the result kind is compared (res=OK / res=ERR): node
// identities of foreign nodes have no counterpart in the model's numbering
func c11ObsPlain(shape *tshape, op string, g uint64, expand bool, vshape *tshape, h tree.HashFn) string {
	o := c11Obs(shape, op, g, expand, vshape, h)
	if i := strings.Index(o, " "); i >= 0 {
		return o[:i]
	}
	return o
}
